import PV.Proofs.UnifyTableCA
/-
  C16 (T-gen), part 4: the `map_*` handlers of the table `c16Expected` run by the table interpreter,
  one dispatched call `self.rec(expr, other, urecs)` in closed form (`c16UnifyF`: the model's
  `unifyE` with the recursive calls left open), and the model as the unique solution.
-/
open PV PV.Unify
namespace PV.Unify

/-! ### which objects are instances of the class of a node -/

theorem kind_inv_bin (o : BinOp) (oth : Expr) (h : oth.kind = o.name) : ∃ a b, oth = .bin o a b := by
  cases oth with
  | bin o' a b =>
    cases o <;> cases o' <;> first | exact ⟨a, b, rfl⟩ | (simp [Expr.kind, BinOp.name] at h)
  | const c => cases c <;> cases o <;> simp [Expr.kind, BinOp.name] at h
  | nary o' _ => cases o <;> cases o' <;> simp [Expr.kind, BinOp.name, NaryOp.name] at h
  | un o' _ => cases o <;> cases o' <;> simp [Expr.kind, BinOp.name, UnOp.name] at h
  | _ => cases o <;> simp [Expr.kind, BinOp.name] at h

theorem kind_inv_un (o : UnOp) (oth : Expr) (h : oth.kind = o.name) : ∃ a, oth = .un o a := by
  cases oth with
  | un o' a => cases o <;> cases o' <;> first | exact ⟨a, rfl⟩ | (simp [Expr.kind, UnOp.name] at h)
  | const c => cases c <;> cases o <;> simp [Expr.kind, UnOp.name] at h
  | nary o' _ => cases o <;> cases o' <;> simp [Expr.kind, UnOp.name, NaryOp.name] at h
  | bin o' _ _ => cases o <;> cases o' <;> simp [Expr.kind, BinOp.name, UnOp.name] at h
  | _ => cases o <;> simp [Expr.kind, UnOp.name] at h

theorem kind_inv_nary (o : NaryOp) (oth : Expr) (h : oth.kind = o.name) : ∃ ds, oth = .nary o ds := by
  cases oth with
  | nary o' ds => cases o <;> cases o' <;> first | exact ⟨ds, rfl⟩ | (simp [Expr.kind, NaryOp.name] at h)
  | const c => cases c <;> cases o <;> simp [Expr.kind, NaryOp.name] at h
  | un o' _ => cases o <;> cases o' <;> simp [Expr.kind, UnOp.name, NaryOp.name] at h
  | bin o' _ _ => cases o <;> cases o' <;> simp [Expr.kind, BinOp.name, NaryOp.name] at h
  | _ => cases o <;> simp [Expr.kind, NaryOp.name] at h

/-- the node classes with one constructor of their own -/
theorem kind_inv_plain (k : String) (oth : Expr) (h : oth.kind = k)
    (hk : k = "Comparison" ∨ k = "If" ∨ k = "Call" ∨ k = "Subscript" ∨ k = "Lookup" ∨ k = "tuple") :
    (k = "Comparison" → ∃ o a b, oth = .cmp o a b) ∧ (k = "If" → ∃ c t e, oth = .ite c t e) ∧
    (k = "Call" → ∃ f as, oth = .call f as) ∧ (k = "Subscript" → ∃ a i, oth = .subscript a i) ∧
    (k = "Lookup" → ∃ a n, oth = .lookup a n) ∧ (k = "tuple" → ∃ cs, oth = .tuple cs) := by
  subst h
  cases oth with
  | const c => cases c <;> simp [Expr.kind] at hk
  | nary o' _ => cases o' <;> simp [Expr.kind, NaryOp.name] at hk
  | bin o' _ _ => cases o' <;> simp [Expr.kind, BinOp.name] at hk
  | un o' _ => cases o' <;> simp [Expr.kind, UnOp.name] at hk
  | _ => simp [Expr.kind]

/-! ### the structural handlers -/

/-- a handler `(self, expr, other, urecs)` -/
def c16H4 (name : String) (locals : List String) (body : List C16S) : C16Fn :=
  ⟨name, [("self", none), ("expr", none), ("other", none), ("urecs", none)], locals, false, body⟩

def c16Guard : C16S :=
  .ifThen (.not_ (.builtin .isinstance [(.name "other"), (.builtin .type_ [(.name "expr")])]))
    [(.ret (some (.selfCall "treat_mismatch" [(.name "expr"), (.name "other"), (.name "urecs")])))] []

def c16RecE (f : String) (inner : C16E) : C16E :=
  .selfCall "rec" [(.attr (.name "expr") f), (.attr (.name "other") f), inner]

def c16OneFieldBody (f1 : String) : List C16S :=
  [c16Guard, (.ret (some (c16RecE f1 (.name "urecs"))))]

def c16TwoFieldBody (f1 f2 : String) : List C16S :=
  [c16Guard, (.ret (some (c16RecE f1 (c16RecE f2 (.name "urecs")))))]

def c16ThreeFieldBody (f1 f2 f3 : String) : List C16S :=
  [c16Guard, (.ret (some (c16RecE f1 (c16RecE f2 (c16RecE f3 (.name "urecs"))))))]

theorem c16X_quotient_eq : c16X_Base_map_quotient
    = c16H4 "UnifierBase.map_quotient" [] (c16TwoFieldBody "numerator" "denominator") := rfl
theorem c16X_power_eq : c16X_Base_map_power
    = c16H4 "UnifierBase.map_power" [] (c16TwoFieldBody "base" "exponent") := rfl
theorem c16X_shift_eq : c16X_Base_map_left_shift
    = c16H4 "UnifierBase.map_left_shift" [] (c16TwoFieldBody "shiftee" "shift") := rfl
theorem c16X_call_eq : c16X_Base_map_call
    = c16H4 "UnifierBase.map_call" [] (c16TwoFieldBody "function" "parameters") := rfl
theorem c16X_not_eq : c16X_Base_map_bitwise_not
    = c16H4 "UnifierBase.map_bitwise_not" [] (c16OneFieldBody "child") := rfl
theorem c16X_if_eq : c16X_Base_map_if
    = c16H4 "UnifierBase.map_if" [] (c16ThreeFieldBody "condition" "then" "else_") := rfl

theorem isinstance_kind (v : Expr) (k : String) :
    c16IsInstance (.obj v) (.cls k) = some (v.kind == k) := rfl

/-- the class test fails: `treat_mismatch`, i.e. no record -/
theorem c16Call_guard_fails (cands : List String) (cx : C16Ctx) (hs : C16FnSpec cands cx.fn)
    (name : String) (rest : List C16S) (e oth : Expr) (uv : C16Val) (huv : uv.isUnbound = false)
    (hk : oth.kind ≠ e.kind) :
    c16CallVal cx (c16H4 name [] (c16Guard :: rest)) [.self, .obj e, .obj oth, uv] = .ok (.objs []) := by
  have hkk : (oth.kind == e.kind) = false := by simpa using hk
  simp only [c16CallVal, c16H4, c16Guard, c16RunFn, c16BindParams, Option.map, List.map]
  c16evalA [isinstance_kind, c16KindOf, hkk, C16Val.truthy, huv, hs.treat_mismatch e oth uv huv]

theorem c16Call_one_field (cands : List String) (cx : C16Ctx) (name f1 : String) (e oth : Expr)
    (uv : C16Val) (us : List URec) (hus : uv.asRecs = some us) (hk : oth.kind = e.kind) (a a' : Expr)
    (h1 : e.c16Attr f1 = some (.obj a)) (h1' : oth.c16Attr f1 = some (.obj a')) :
    c16CallVal cx (c16H4 name [] (c16OneFieldBody f1)) [.self, .obj e, .obj oth, uv]
      = .ok (C16Val.ofRecs (cx.recur a a' us)) := by
  have hkk : (oth.kind == e.kind) = true := by simpa using hk
  have huv : uv.isUnbound = false := by cases uv <;> simp_all [C16Val.asRecs]
  simp only [c16CallVal, c16H4, c16OneFieldBody, c16Guard, c16RecE, c16RunFn, c16BindParams, Option.map,
    List.map]
  c16evalA [isinstance_kind, c16KindOf, hkk, C16Val.truthy, huv, C16Val.attr, h1, h1', hus]

theorem c16Call_two_field (cands : List String) (cx : C16Ctx) (name f1 f2 : String) (e oth : Expr)
    (uv : C16Val) (us : List URec) (hus : uv.asRecs = some us) (hk : oth.kind = e.kind)
    (a a' b b' : Expr)
    (h1 : e.c16Attr f1 = some (.obj a)) (h1' : oth.c16Attr f1 = some (.obj a'))
    (h2 : e.c16Attr f2 = some (.obj b)) (h2' : oth.c16Attr f2 = some (.obj b')) :
    c16CallVal cx (c16H4 name [] (c16TwoFieldBody f1 f2)) [.self, .obj e, .obj oth, uv]
      = .ok (C16Val.ofRecs (cx.recur a a' (cx.recur b b' us))) := by
  have hkk : (oth.kind == e.kind) = true := by simpa using hk
  have huv : uv.isUnbound = false := by cases uv <;> simp_all [C16Val.asRecs]
  simp only [c16CallVal, c16H4, c16TwoFieldBody, c16Guard, c16RecE, c16RunFn, c16BindParams, Option.map,
    List.map]
  c16evalA [isinstance_kind, c16KindOf, hkk, C16Val.truthy, huv, C16Val.attr, h1, h1', h2, h2', hus,
    asRecs_ofRecs]

theorem c16Call_three_field (cands : List String) (cx : C16Ctx) (name f1 f2 f3 : String)
    (e oth : Expr) (uv : C16Val) (us : List URec) (hus : uv.asRecs = some us)
    (hk : oth.kind = e.kind) (a a' b b' c c' : Expr)
    (h1 : e.c16Attr f1 = some (.obj a)) (h1' : oth.c16Attr f1 = some (.obj a'))
    (h2 : e.c16Attr f2 = some (.obj b)) (h2' : oth.c16Attr f2 = some (.obj b'))
    (h3 : e.c16Attr f3 = some (.obj c)) (h3' : oth.c16Attr f3 = some (.obj c')) :
    c16CallVal cx (c16H4 name [] (c16ThreeFieldBody f1 f2 f3)) [.self, .obj e, .obj oth, uv]
      = .ok (C16Val.ofRecs (cx.recur a a' (cx.recur b b' (cx.recur c c' us)))) := by
  have hkk : (oth.kind == e.kind) = true := by simpa using hk
  have huv : uv.isUnbound = false := by cases uv <;> simp_all [C16Val.asRecs]
  simp only [c16CallVal, c16H4, c16ThreeFieldBody, c16Guard, c16RecE, c16RunFn, c16BindParams,
    Option.map, List.map]
  c16evalA [isinstance_kind, c16KindOf, hkk, C16Val.truthy, huv, C16Val.attr, h1, h1', h2, h2', h3,
    h3', hus, asRecs_ofRecs]

/-! ### `map_comparison`, `map_lookup` -/

theorem c16Call_comparison (cands : List String) (cx : C16Ctx) (hs : C16FnSpec cands cx.fn)
    (e oth : Expr) (uv : C16Val) (us : List URec) (hus : uv.asRecs = some us)
    (hk : oth.kind = e.kind) (s s' : String) (a a' b b' : Expr)
    (ho : e.c16Attr "operator" = some (.str s)) (ho' : oth.c16Attr "operator" = some (.str s'))
    (h1 : e.c16Attr "left" = some (.obj a)) (h1' : oth.c16Attr "left" = some (.obj a'))
    (h2 : e.c16Attr "right" = some (.obj b)) (h2' : oth.c16Attr "right" = some (.obj b')) :
    c16CallVal cx c16X_Base_map_comparison [.self, .obj e, .obj oth, uv]
      = .ok (if s = s' then C16Val.ofRecs (cx.recur a a' (cx.recur b b' us)) else .objs []) := by
  have hkk : (oth.kind == e.kind) = true := by simpa using hk
  have huv : uv.isUnbound = false := by cases uv <;> simp_all [C16Val.asRecs]
  simp only [c16CallVal, c16X_Base_map_comparison, c16RunFn, c16BindParams, Option.map, List.map]
  by_cases hss : s = s'
  · c16evalA [isinstance_kind, c16KindOf, hkk, C16Val.truthy, huv, C16Val.attr, h1, h1', h2, h2', hus,
      asRecs_ofRecs, ho, ho', c16Cmp, hss]
  · have hne : (s != s') = true := by simpa [bne] using hss
    c16evalA [isinstance_kind, c16KindOf, hkk, C16Val.truthy, huv, C16Val.attr, ho, ho', c16Cmp, hss, hne,
      hs.treat_mismatch e oth uv huv]

theorem c16Call_comparison_mismatch (cands : List String) (cx : C16Ctx) (hs : C16FnSpec cands cx.fn)
    (e oth : Expr) (uv : C16Val) (huv : uv.isUnbound = false) (hk : oth.kind ≠ e.kind) :
    c16CallVal cx c16X_Base_map_comparison [.self, .obj e, .obj oth, uv] = .ok (.objs []) := by
  have hkk : (oth.kind == e.kind) = false := by simpa using hk
  simp only [c16CallVal, c16X_Base_map_comparison, c16RunFn, c16BindParams, Option.map, List.map]
  c16evalA [isinstance_kind, c16KindOf, hkk, C16Val.truthy, huv, hs.treat_mismatch e oth uv huv]

theorem c16X_lookup_eq : c16X_Base_map_lookup = c16H4 "UnifierBase.map_lookup" []
    [c16Guard, (.ifThen (.cmp .ne (.attr (.name "expr") "name") (.attr (.name "other") "name")) [(.ret (some .nil))] []),
     (.ret (some (c16RecE "aggregate" (.name "urecs"))))] := rfl

theorem c16Call_lookup (cx : C16Ctx) (e oth : Expr) (uv : C16Val) (us : List URec)
    (hus : uv.asRecs = some us) (hk : oth.kind = e.kind) (n n' : String) (a a' : Expr)
    (hn : e.c16Attr "name" = some (.str n)) (hn' : oth.c16Attr "name" = some (.str n'))
    (h1 : e.c16Attr "aggregate" = some (.obj a)) (h1' : oth.c16Attr "aggregate" = some (.obj a')) :
    c16CallVal cx c16X_Base_map_lookup [.self, .obj e, .obj oth, uv]
      = .ok (if n = n' then C16Val.ofRecs (cx.recur a a' us) else .objs []) := by
  have hkk : (oth.kind == e.kind) = true := by simpa using hk
  have huv : uv.isUnbound = false := by cases uv <;> simp_all [C16Val.asRecs]
  simp only [c16CallVal, c16X_Base_map_lookup, c16RunFn, c16BindParams, Option.map, List.map]
  by_cases hnn : n = n'
  · c16evalA [isinstance_kind, c16KindOf, hkk, C16Val.truthy, huv, C16Val.attr, h1, h1', hus, hn, hn',
      c16Cmp, hnn]
  · have hne : (n != n') = true := by simpa [bne] using hnn
    c16evalA [isinstance_kind, c16KindOf, hkk, C16Val.truthy, huv, C16Val.attr, hn, hn', c16Cmp, hnn, hne]

/-! ### `map_constant`, `map_variable` -/

theorem c16Call_constant (cx : C16Ctx) (e oth : Expr) (uv : C16Val) (huv : uv.isUnbound = false) :
    c16CallVal cx c16X_Base_map_constant [.self, .obj e, .obj oth, uv]
      = .ok (if e.pyEq oth then uv else .objs []) := by
  simp only [c16CallVal, c16X_Base_map_constant, c16RunFn, c16BindParams, Option.map, List.map]
  by_cases h : e.pyEq oth
  · c16evalA [c16Cmp, C16Val.truthy, huv, h]
  · c16evalA [c16Cmp, C16Val.truthy, huv, h]

theorem mapVariable_nonvar {cands : List String} {x : String} {oth : Expr} {us : List URec}
    (h : c16VarName oth = none) (hr : recFromEq cands x oth = none) :
    mapVariable cands x oth us = [] := by
  cases oth <;> simp_all [mapVariable, c16VarName]

theorem c16Call_variable (cands : List String) (cx : C16Ctx) (hs : C16FnSpec cands cx.fn)
    (ha : cx.selfAttrs = c16ModelAttrs cands) (x : String) (oth : Expr) (uv : C16Val)
    (us : List URec) (hus : uv.asRecs = some us) :
    c16CallVal cx c16X_Base_map_variable [.self, .obj (.var x), .obj oth, uv]
      = .ok (match recFromEq cands x oth with
        | some n => C16Val.ofRecs (unifyMany us n)
        | none => if c16VarName oth = some x ∧ x ∉ cands then uv else .objs []) := by
  have huv : uv.isUnbound = false := by cases uv <;> simp_all [C16Val.asRecs]
  have hrf := hs.rec_from_eq (.var x) oth
  rw [← recFromEq_eq_G] at hrf
  have hnx : (Expr.var x).c16Attr "name" = some (.str x) := rfl
  simp only [c16CallVal, c16X_Base_map_variable, c16RunFn, c16BindParams, Option.map, List.map]
  generalize Expr.var x = e at hrf hnx ⊢
  cases hr : recFromEq cands x oth with
  | some n =>
    have hum := hs.unify_many uv us n hus (recFromEq_wf hr)
    simp only [hr, C16Val.ofOptRec] at hrf
    c16evalA [hrf, c16Cmp, C16Val.truthy, huv, hum]
  | none =>
    simp only [hr, C16Val.ofOptRec] at hrf
    cases hv : c16VarName oth with
    | none =>
      c16evalA [hrf, c16Cmp, C16Val.truthy, huv, isinstance_kind, kind_eq_Variable, hv]
    | some y =>
      have hny := c16Attr_name_of_var hv
      by_cases hyx : y = x
      · subst hyx
        by_cases hc : y ∈ cands
        · c16evalA [hrf, c16Cmp, C16Val.truthy, huv, isinstance_kind, kind_eq_Variable, hv, C16Val.attr,
            hny, hnx, ha, c16ModelAttrs, hc]
        · c16evalA [hrf, c16Cmp, C16Val.truthy, huv, isinstance_kind, kind_eq_Variable, hv, C16Val.attr,
            hny, hnx, ha, c16ModelAttrs, hc]
      · have hne : (y == x) = false := by simpa using hyx
        c16evalA [hrf, c16Cmp, C16Val.truthy, huv, isinstance_kind, kind_eq_Variable, hv, C16Val.attr,
          hny, hnx, hyx, hne]

/-! ### `map_subscript` -/

/-- the four shapes of an index as far as the unpacking of 1-tuples goes -/
inductive C16IdxShape (i : Expr) : Prop where
  | other (h : (i.kind == "tuple") = false)
  | empty (h : i = .tuple [])
  | one (x : Expr) (h : i = .tuple [x])
  | many (x y : Expr) (l : List Expr) (h : i = .tuple (x :: y :: l))

theorem c16IdxShape_of (i : Expr) : C16IdxShape i := by
  by_cases hk : i.kind = "tuple"
  · obtain ⟨cs, rfl⟩ := (kind_inv_plain "tuple" i hk (by simp)).2.2.2.2.2 rfl
    match cs with
    | [] => exact .empty rfl
    | [x] => exact .one x rfl
    | x :: y :: l => exact .many x y l rfl
  · exact .other (by simpa using hk)

theorem unpackIndex_other {i : Expr} (h : (i.kind == "tuple") = false) : unpackIndex i = i := by
  cases i <;> first | rfl | (simp [Expr.kind] at h)

theorem kind_tuple (cs : List Expr) : (Expr.tuple cs).kind = "tuple" := rfl

theorem c16Call_subscript (cx : C16Ctx) (e oth : Expr) (uv : C16Val) (us : List URec)
    (hus : uv.asRecs = some us) (hk : oth.kind = e.kind) (a a' i i' : Expr)
    (h1 : e.c16Attr "aggregate" = some (.obj a)) (h1' : oth.c16Attr "aggregate" = some (.obj a'))
    (h2 : e.c16Attr "index" = some (.obj i)) (h2' : oth.c16Attr "index" = some (.obj i')) :
    c16CallVal cx c16X_Base_map_subscript [.self, .obj e, .obj oth, uv]
      = .ok (C16Val.ofRecs (cx.recur a a' (cx.recur (unpackIndex i) (unpackIndex i') us))) := by
  have hkk : (oth.kind == e.kind) = true := by simpa using hk
  have huv : uv.isUnbound = false := by cases uv <;> simp_all [C16Val.asRecs]
  simp only [c16CallVal, c16X_Base_map_subscript, c16RunFn, c16BindParams, Option.map, List.map]
  have hu : ∀ j : Expr, (j.kind == "tuple") = false → unpackIndex j = j := fun j => unpackIndex_other
  have hlen2 : ∀ n : Nat, (((n : Int) + 1 + 1) == 1) = false := fun n => by simp; omega
  rcases c16IdxShape_of i with hi | hi | ⟨x, hi⟩ | ⟨x, y, l, hi⟩ <;>
  rcases c16IdxShape_of i' with hi' | hi' | ⟨x', hi'⟩ | ⟨x', y', l', hi'⟩ <;>
  (first | subst hi | (rw [hu i hi])) <;> (first | subst hi' | (rw [hu i' hi'])) <;>
  (first
    | c16evalA [isinstance_kind, c16KindOf, hkk, C16Val.truthy, huv, C16Val.attr, h1, h1', h2, h2', hus,
        asRecs_ofRecs, kind_tuple, unpackIndex, C16Val.len, c16Elems, c16Cmp, hlen2, hi, hi']
    | c16evalA [isinstance_kind, c16KindOf, hkk, C16Val.truthy, huv, C16Val.attr, h1, h1', h2, h2', hus,
        asRecs_ofRecs, kind_tuple, unpackIndex, C16Val.len, c16Elems, c16Cmp, hlen2, hi]
    | c16evalA [isinstance_kind, c16KindOf, hkk, C16Val.truthy, huv, C16Val.attr, h1, h1', h2, h2', hus,
        asRecs_ofRecs, kind_tuple, unpackIndex, C16Val.len, c16Elems, c16Cmp, hlen2, hi']
    | c16evalA [isinstance_kind, c16KindOf, hkk, C16Val.truthy, huv, C16Val.attr, h1, h1', h2, h2', hus,
        asRecs_ofRecs, kind_tuple, unpackIndex, C16Val.len, c16Elems, c16Cmp, hlen2])

/-! ### `map_list` / `map_tuple` -/

/-- the loop of `map_list` with `self.rec` left open -/
def c16ZipF (recur : Expr → Expr → List URec → List URec) : List (Expr × Expr) → List URec → List URec
  | [], us => us
  | (c, d) :: L, us =>
    let r := recur c d us
    if r.isEmpty then [] else c16ZipF recur L r

def mlBody : List C16S :=
  [(.assign "urecs" (.selfCall "rec" [(.name "my_child"), (.name "other_child"), (.name "urecs")])),
   (.ifThen (.not_ (.name "urecs")) [.brk] [])]

def mlSt (e oth : Expr) (us : List URec) (mc oc : C16Val) (ctl : C16Ctl) : C16St :=
  { env := [("self", .self), ("expr", .obj e), ("other", .obj oth), ("urecs", C16Val.ofRecs us),
            ("my_child", mc), ("other_child", oc)], attrs := [], out := [], ctl := ctl }

theorem truthy_bool (b : Bool) : (C16Val.bool b).truthy = some b := rfl

theorem c16Loop_map_list (cx : C16Ctx) (e oth : Expr) :
    ∀ (L : List (Expr × Expr)) (us : List URec) (mc oc : C16Val),
      ∃ mc' oc' ctl', (ctl' = C16Ctl.run ∨ ctl' = C16Ctl.brk) ∧
        c16Loop (c16LoopBody cx ["my_child", "other_child"] mlBody)
          (L.map fun p => .tup (.obj p.1) (.obj p.2)) (mlSt e oth us mc oc .run)
        = mlSt e oth (c16ZipF cx.recur L us) mc' oc' ctl' := by
  intro L
  induction L with
  | nil => intro us mc oc; exact ⟨mc, oc, .run, Or.inl rfl, by simp [c16Loop, c16ZipF]⟩
  | cons p L ih =>
    intro us mc oc
    obtain ⟨c, d⟩ := p
    simp only [List.map_cons, c16Loop]
    by_cases hr : cx.recur c d us = []
    · have hstep : c16LoopBody cx ["my_child", "other_child"] mlBody (.tup (.obj c) (.obj d))
          (mlSt e oth us mc oc .run) = mlSt e oth [] (.obj c) (.obj d) .brk := by
        simp only [c16LoopBody, mlBody, mlSt]
        c16evalA [ofRecs_isUnbound, asRecs_ofRecs, hr, C16Val.truthy]
      rw [hstep]
      exact ⟨.obj c, .obj d, .brk, Or.inr rfl, by simp [mlSt, c16ZipF, hr]⟩
    · have hne : (cx.recur c d us).isEmpty = false := by
        cases h : cx.recur c d us <;> simp_all
      have hstep : c16LoopBody cx ["my_child", "other_child"] mlBody (.tup (.obj c) (.obj d))
          (mlSt e oth us mc oc .run) = mlSt e oth (cx.recur c d us) (.obj c) (.obj d) .run := by
        simp only [c16LoopBody, mlBody, mlSt]
        c16evalA [ofRecs_isUnbound, asRecs_ofRecs, truthy_ofRecs, hne, truthy_bool]
      rw [hstep]
      obtain ⟨mc', oc', ctl', hc, h⟩ := ih (cx.recur c d us) (.obj c) (.obj d)
      refine ⟨mc', oc', ctl', hc, ?_⟩
      simp only [mlSt] at h ⊢
      rw [h]
      simp [c16ZipF, hne]

theorem c16ZipF_unequal (recur : Expr → Expr → List URec → List URec) :
    ∀ (cs ds : List Expr) (us : List URec), cs.length = ds.length →
      c16ZipF recur (cs.zip ds) us = (match cs, ds with | _, _ => c16ZipF recur (cs.zip ds) us) := by
  intros; rfl

theorem c16Call_tuple (cx : C16Ctx) (cs : List Expr) (oth : Expr) (us : List URec) :
    c16CallVal cx c16X_Base_map_list [.self, .obj (.tuple cs), .obj oth, C16Val.ofRecs us]
      = .ok (C16Val.ofRecs (match oth with
        | .tuple ds => if cs.length = ds.length then c16ZipF cx.recur (cs.zip ds) us else []
        | _ => [])) := by
  simp only [c16CallVal, c16X_Base_map_list, c16RunFn, c16BindParams, Option.map, List.map]
  simp only [C16S.execList, exec_forIn]
  by_cases hk : oth.kind = "tuple"
  · obtain ⟨ds, rfl⟩ := (kind_inv_plain "tuple" oth hk (by simp)).2.2.2.2.2 rfl
    by_cases hl : cs.length = ds.length
    · obtain ⟨mc', oc', ctl', hc, hloop⟩ := c16Loop_map_list cx (.tuple cs) (.tuple ds) (cs.zip ds) us
        .unbound .unbound
      simp only [mlSt, mlBody] at hloop
      have hzip : c16Zip (cs.map C16Val.obj) (ds.map C16Val.obj)
          = (cs.zip ds).map fun p => .tup (.obj p.1) (.obj p.2) := c16Zip_map _ _ cs ds
      have hll : ((cs.length : Int) != (ds.length : Int)) = false := by simp [hl]
      c16evalA [isinstance_kind, c16KindOf, kind_tuple, C16Val.truthy, C16Val.len, c16Elems, c16Cmp, hll,
        C16Val.iter, hzip, hloop, ofRecs_isUnbound]
      rcases hc with rfl | rfl <;> c16evalA [c16ForEnd, ofRecs_isUnbound, hl]
    · have hll : ((cs.length : Int) != (ds.length : Int)) = true := by
        simp; omega
      c16evalA [isinstance_kind, c16KindOf, kind_tuple, C16Val.truthy, C16Val.len, c16Elems, c16Cmp, hll, hl]
  · have hkk : (oth.kind == "tuple") = false := by simpa using hk
    have hm : (match oth with
        | .tuple ds => if cs.length = ds.length then c16ZipF cx.recur (cs.zip ds) us else []
        | _ => []) = [] := by
      cases oth <;> first | rfl | (simp [Expr.kind] at hk)
    rw [hm]
    c16evalA [isinstance_kind, c16KindOf, kind_tuple, C16Val.truthy, hkk]

/-! ### `UnidirectionalUnifier.map_sum` / `map_product`, `__call__` -/

/-- what `self.map_commut_assoc(expr, other, urecs, factory)` yields -/
def C16CASpec (cands : List String) (recur : Expr → Expr → List URec → List URec)
    (gen : C16Env → C16Callee → List C16Val → Option (List C16Val)) : Prop :=
  ∀ (cl : C16Env) (e oth : Expr) (cs ds : List Expr) (uv : C16Val) (us : List URec) (o : NaryOp),
    e.c16Attr "children" = some (.obj (.tuple cs)) →
    (oth.kind = e.kind → oth.c16Attr "children" = some (.obj (.tuple ds))) →
    uv.asRecs = some us → (∀ u ∈ us, u.WF) → (oth.kind = e.kind → c16Safe o ds) →
    gen cl (.self "map_commut_assoc") [.obj e, .obj oth, uv, .factory o]
      = some (if oth.kind = e.kind then (c16CommutF cands recur o cs ds us).map .urec else [])

theorem c16Collect_urecs_cons (r : URec) : ∀ l : List URec,
    c16Collect ((r :: l).map .urec) = some (.recs (r :: l))
  | [] => by simp [c16Collect]
  | r' :: l => by
    have := c16Collect_urecs_cons r' l
    simp only [List.map_cons] at this ⊢
    rw [c16Collect, this]

theorem c16Collect_urecs : ∀ l : List URec, c16Collect (l.map .urec) = some (C16Val.ofRecs l)
  | [] => rfl
  | r :: l => by rw [c16Collect_urecs_cons]; rfl

theorem c16Call_nary (cands : List String) (cx : C16Ctx) (hca : C16CASpec cands cx.recur cx.gen)
    (fn : C16Fn) (o : NaryOp) (imp : String)
    (hfn : fn = ⟨fn.name, [("self", none), ("expr", none), ("other", none), ("unis", none)], [], false,
      [(.import_ [imp]), (.ret (some (.builtin .list [(.selfCall "map_commut_assoc"
        [(.name "expr"), (.name "other"), (.name "unis"), (.factoryRef o)])])))]⟩)
    (e oth : Expr) (cs ds : List Expr) (uv : C16Val) (us : List URec)
    (he : e.c16Attr "children" = some (.obj (.tuple cs)))
    (ho : oth.kind = e.kind → oth.c16Attr "children" = some (.obj (.tuple ds)))
    (hus : uv.asRecs = some us) (husw : ∀ u ∈ us, u.WF) (hsafe : oth.kind = e.kind → c16Safe o ds) :
    c16CallVal cx fn [.self, .obj e, .obj oth, uv]
      = .ok (C16Val.ofRecs (if oth.kind = e.kind then c16CommutF cands cx.recur o cs ds us else [])) := by
  have huv : uv.isUnbound = false := by cases uv <;> simp_all [C16Val.asRecs]
  rw [hfn]
  simp only [c16CallVal, c16RunFn, c16BindParams, Option.map, List.map]
  have := fun cl => hca cl e oth cs ds uv us o he ho hus husw hsafe
  by_cases hk : oth.kind = e.kind
  · c16evalA [huv, this, hk, C16Val.iter, c16Collect_urecs]
  · c16evalA [huv, this, hk, C16Val.iter, c16Collect]

theorem c16Call_entry (cands : List String) (cx : C16Ctx) (hs : C16FnSpec cands cx.fn) (e oth : Expr) :
    c16CallVal cx c16X_Base_call [.self, .obj e, .obj oth]
      = .ok (C16Val.ofRecs (cx.recur e oth [URec.empty])) := by
  simp only [c16CallVal, c16X_Base_call, c16RunFn, c16BindParams, Option.map, List.map]
  c16evalA [c16Cmp, C16Val.truthy, hs.ctor0, c16Collect, C16Val.asRecs]

/-! ### one dispatched call in closed form -/

/-- the node kinds the hand-written model `unifyE` gives an answer for (the top node only) -/
def c16Top : Expr → Bool
  | .const (.int _) => true
  | .const (.bool _) => true
  | .const (.flt ..) => true
  | .var _ => true
  | .nary o _ => o == .sum || o == .prod
  | .bin .. => true
  | .un .. => true
  | .cmp .. => true
  | .ite .. => true
  | .call .. => true
  | .subscript .. => true
  | .lookup .. => true
  | .tuple _ => true
  | _ => false

/-- the function the dispatch of `UnidirectionalUnifier` reaches for a node (what
`PV.C16.handler_resolve_current` proves of the regenerated table) -/
def c16ExpectedHandler : Expr → String
  | .const _ => "UnifierBase.map_constant"
  | .var _ => "UnifierBase.map_variable"
  | .nary .sum _ => "UnidirectionalUnifier.map_sum"
  | .nary .prod _ => "UnidirectionalUnifier.map_product"
  | .nary _ _ => "UnifierBase.map_sum"
  | .bin .pow _ _ => "UnifierBase.map_power"
  | .bin .lshift _ _ => "UnifierBase.map_left_shift"
  | .bin .rshift _ _ => "UnifierBase.map_left_shift"
  | .bin _ _ _ => "UnifierBase.map_quotient"
  | .un _ _ => "UnifierBase.map_bitwise_not"
  | .cmp .. => "UnifierBase.map_comparison"
  | .ite .. => "UnifierBase.map_if"
  | .call .. => "UnifierBase.map_call"
  | .subscript .. => "UnifierBase.map_subscript"
  | .lookup .. => "UnifierBase.map_lookup"
  | .tuple _ => "UnifierBase.map_list"
  | .list _ => "UnifierBase.map_list"
  | _ => "Mapper.map_algebraic_leaf"

/-- **one handler call with `self.rec` left open**: the model's `unifyE` with every recursive call
replaced by `recur` -/
def c16UnifyF (cands : List String) (recur : Expr → Expr → List URec → List URec) :
    Expr → Expr → List URec → List URec
  | .const c, other, us => if (Expr.const c).pyEq other then us else []
  | .var x, other, us => mapVariable cands x other us
  | .nary o cs, other, us =>
    match other with
    | .nary o' ds => if o = o' && (o = .sum || o = .prod) then c16CommutF cands recur o cs ds us else []
    | _ => []
  | .bin o a b, other, us =>
    match other with
    | .bin o' a' b' => if o = o' then recur a a' (recur b b' us) else []
    | _ => []
  | .un o a, other, us =>
    match other with
    | .un o' a' => if o = o' then recur a a' us else []
    | _ => []
  | .cmp o a b, other, us =>
    match other with
    | .cmp o' a' b' => if o = o' then recur a a' (recur b b' us) else []
    | _ => []
  | .ite c t e, other, us =>
    match other with
    | .ite c' t' e' => recur c c' (recur t t' (recur e e' us))
    | _ => []
  | .call f as, other, us =>
    match other with
    | .call f' as' => recur f f' (recur (.tuple as) (.tuple as') us)
    | _ => []
  | .subscript a i, other, us =>
    match other with
    | .subscript a' i' => recur a a' (recur (unpackIndex i) (unpackIndex i') us)
    | _ => []
  | .lookup a n, other, us =>
    match other with
    | .lookup a' n' => if n = n' then recur a a' us else []
    | _ => []
  | .tuple cs, other, us =>
    match other with
    | .tuple ds => if cs.length = ds.length then c16ZipF recur (cs.zip ds) us else []
    | _ => []
  | _, _, _ => []

/-- the target operands handed to a factory are never tuples / lists (see `c16Safe`) -/
def c16SafeTop : Expr → Expr → Prop
  | .nary o _, .nary o' ds => o = o' → c16Safe o ds
  | _, _ => True

/-- everything a dispatched call relies on: the meanings of the callees -/
structure C16CxOk (cands : List String) (cx : C16Ctx) : Prop where
  fn : C16FnSpec cands cx.fn
  ca : C16CASpec cands cx.recur cx.gen
  attrs : cx.selfAttrs = c16ModelAttrs cands

theorem c16FindFn_expected (e : Expr) :
    ∃ fn, c16FindFn c16Expected (c16ExpectedHandler e) = some fn ∧ fn.name = c16ExpectedHandler e ∨
      c16ExpectedHandler e = "Mapper.map_algebraic_leaf" := by
  cases e with
  | nary o _ => cases o <;> exact ⟨_, Or.inl ⟨rfl, rfl⟩⟩
  | bin o _ _ => cases o <;> exact ⟨_, Or.inl ⟨rfl, rfl⟩⟩
  | const _ => exact ⟨_, Or.inl ⟨rfl, rfl⟩⟩
  | var _ => exact ⟨_, Or.inl ⟨rfl, rfl⟩⟩
  | un _ _ => exact ⟨_, Or.inl ⟨rfl, rfl⟩⟩
  | cmp _ _ _ => exact ⟨_, Or.inl ⟨rfl, rfl⟩⟩
  | ite _ _ _ => exact ⟨_, Or.inl ⟨rfl, rfl⟩⟩
  | call _ _ => exact ⟨_, Or.inl ⟨rfl, rfl⟩⟩
  | subscript _ _ => exact ⟨_, Or.inl ⟨rfl, rfl⟩⟩
  | lookup _ _ => exact ⟨_, Or.inl ⟨rfl, rfl⟩⟩
  | tuple _ => exact ⟨_, Or.inl ⟨rfl, rfl⟩⟩
  | list _ => exact ⟨_, Or.inl ⟨rfl, rfl⟩⟩
  | _ => exact ⟨default, Or.inr rfl⟩

theorem c16StepFn_eq {cx : C16Ctx} {e oth : Expr} {us : List URec} (f : String) (fn : C16Fn)
    (hf : c16FindFn c16Expected f = some fn) (v : C16Val) (r : List URec)
    (hcall : c16CallVal cx fn [.self, .obj e, .obj oth, C16Val.ofRecs us] = .ok v)
    (hv : v.asRecs = some r) :
    c16StepFn c16Expected cx (.ok f) e oth us = .ok r := by
  simp [c16StepFn, hf, hcall, hv]

theorem asRecs_nil : (C16Val.objs ([] : List Expr)).asRecs = some [] := rfl

theorem mapVariable_eq (cands : List String) (x : String) (oth : Expr) (us : List URec) :
    mapVariable cands x oth us = match recFromEq cands x oth with
      | some n => unifyMany us n
      | none => if c16VarName oth = some x ∧ x ∉ cands then us else [] := by
  cases hr : recFromEq cands x oth with
  | some n => simp [mapVariable, hr]
  | none =>
    cases oth with
    | var y =>
      by_cases hy : y = x
      · subst hy; simp [mapVariable, hr, c16VarName]
      · simp [mapVariable, hr, c16VarName, hy]
    | _ => simp [mapVariable, hr, c16VarName]

theorem bin_mismatch {α : Type} (o : BinOp) (oth : Expr) (hk : oth.kind ≠ o.name)
    (X : Expr → Expr → List α) :
    (match oth with
      | .bin o' a' b' => if o = o' then X a' b' else []
      | _ => []) = [] := by
  cases oth <;> first | rfl | skip
  rename_i o' a' b'
  by_cases h : o = o'
  · subst h; exact absurd rfl hk
  · simp [h]

/-! ### the handler calls per node class, instantiated -/

theorem c16StepFn_mismatch (cands : List String) (cx : C16Ctx) (hs : C16FnSpec cands cx.fn)
    (f name : String) (rest : List C16S) (hf : c16FindFn c16Expected f = some (c16H4 name [] (c16Guard :: rest)))
    (e oth : Expr) (us : List URec) (hk : oth.kind ≠ e.kind) :
    c16StepFn c16Expected cx (.ok f) e oth us = .ok [] :=
  c16StepFn_eq f _ hf _ _ (c16Call_guard_fails cands cx hs name rest e oth _ (ofRecs_isUnbound us) hk)
    asRecs_nil

theorem c16Step_bin_quot (cands : List String) (cx : C16Ctx) (hs : C16FnSpec cands cx.fn)
    (a b oth : Expr) (us : List URec) :
    c16StepFn c16Expected cx (.ok "UnifierBase.map_quotient") (.bin .quot a b) oth us
      = .ok (c16UnifyF cands cx.recur (.bin .quot a b) oth us) := by
  by_cases hk : oth.kind = BinOp.name .quot
  · obtain ⟨a', b', rfl⟩ := kind_inv_bin .quot oth hk
    have hm : c16UnifyF cands cx.recur (.bin .quot a b) (.bin .quot a' b') us
        = cx.recur a a' (cx.recur b b' us) := by simp [c16UnifyF]
    rw [hm]
    refine c16StepFn_eq _ c16X_Base_map_quotient rfl _ _ ?_ (asRecs_ofRecs _)
    rw [c16X_quotient_eq]
    exact c16Call_two_field cands cx "UnifierBase.map_quotient" "numerator" "denominator" (.bin .quot a b) (.bin .quot a' b') _ us
      (asRecs_ofRecs us) rfl a a' b b' rfl rfl rfl rfl
  · rw [show c16UnifyF cands cx.recur (.bin .quot a b) oth us = [] from bin_mismatch .quot oth hk _]
    exact c16StepFn_mismatch cands cx hs _ "UnifierBase.map_quotient" _ rfl _ oth us hk

theorem c16Step_bin_floordiv (cands : List String) (cx : C16Ctx) (hs : C16FnSpec cands cx.fn)
    (a b oth : Expr) (us : List URec) :
    c16StepFn c16Expected cx (.ok "UnifierBase.map_quotient") (.bin .floordiv a b) oth us
      = .ok (c16UnifyF cands cx.recur (.bin .floordiv a b) oth us) := by
  by_cases hk : oth.kind = BinOp.name .floordiv
  · obtain ⟨a', b', rfl⟩ := kind_inv_bin .floordiv oth hk
    have hm : c16UnifyF cands cx.recur (.bin .floordiv a b) (.bin .floordiv a' b') us
        = cx.recur a a' (cx.recur b b' us) := by simp [c16UnifyF]
    rw [hm]
    refine c16StepFn_eq _ c16X_Base_map_quotient rfl _ _ ?_ (asRecs_ofRecs _)
    rw [c16X_quotient_eq]
    exact c16Call_two_field cands cx "UnifierBase.map_quotient" "numerator" "denominator" (.bin .floordiv a b) (.bin .floordiv a' b') _ us
      (asRecs_ofRecs us) rfl a a' b b' rfl rfl rfl rfl
  · rw [show c16UnifyF cands cx.recur (.bin .floordiv a b) oth us = [] from bin_mismatch .floordiv oth hk _]
    exact c16StepFn_mismatch cands cx hs _ "UnifierBase.map_quotient" _ rfl _ oth us hk

theorem c16Step_bin_rem (cands : List String) (cx : C16Ctx) (hs : C16FnSpec cands cx.fn)
    (a b oth : Expr) (us : List URec) :
    c16StepFn c16Expected cx (.ok "UnifierBase.map_quotient") (.bin .rem a b) oth us
      = .ok (c16UnifyF cands cx.recur (.bin .rem a b) oth us) := by
  by_cases hk : oth.kind = BinOp.name .rem
  · obtain ⟨a', b', rfl⟩ := kind_inv_bin .rem oth hk
    have hm : c16UnifyF cands cx.recur (.bin .rem a b) (.bin .rem a' b') us
        = cx.recur a a' (cx.recur b b' us) := by simp [c16UnifyF]
    rw [hm]
    refine c16StepFn_eq _ c16X_Base_map_quotient rfl _ _ ?_ (asRecs_ofRecs _)
    rw [c16X_quotient_eq]
    exact c16Call_two_field cands cx "UnifierBase.map_quotient" "numerator" "denominator" (.bin .rem a b) (.bin .rem a' b') _ us
      (asRecs_ofRecs us) rfl a a' b b' rfl rfl rfl rfl
  · rw [show c16UnifyF cands cx.recur (.bin .rem a b) oth us = [] from bin_mismatch .rem oth hk _]
    exact c16StepFn_mismatch cands cx hs _ "UnifierBase.map_quotient" _ rfl _ oth us hk

theorem c16Step_bin_pow (cands : List String) (cx : C16Ctx) (hs : C16FnSpec cands cx.fn)
    (a b oth : Expr) (us : List URec) :
    c16StepFn c16Expected cx (.ok "UnifierBase.map_power") (.bin .pow a b) oth us
      = .ok (c16UnifyF cands cx.recur (.bin .pow a b) oth us) := by
  by_cases hk : oth.kind = BinOp.name .pow
  · obtain ⟨a', b', rfl⟩ := kind_inv_bin .pow oth hk
    have hm : c16UnifyF cands cx.recur (.bin .pow a b) (.bin .pow a' b') us
        = cx.recur a a' (cx.recur b b' us) := by simp [c16UnifyF]
    rw [hm]
    refine c16StepFn_eq _ c16X_Base_map_power rfl _ _ ?_ (asRecs_ofRecs _)
    rw [c16X_power_eq]
    exact c16Call_two_field cands cx "UnifierBase.map_power" "base" "exponent" (.bin .pow a b) (.bin .pow a' b') _ us
      (asRecs_ofRecs us) rfl a a' b b' rfl rfl rfl rfl
  · rw [show c16UnifyF cands cx.recur (.bin .pow a b) oth us = [] from bin_mismatch .pow oth hk _]
    exact c16StepFn_mismatch cands cx hs _ "UnifierBase.map_power" _ rfl _ oth us hk

theorem c16Step_bin_lshift (cands : List String) (cx : C16Ctx) (hs : C16FnSpec cands cx.fn)
    (a b oth : Expr) (us : List URec) :
    c16StepFn c16Expected cx (.ok "UnifierBase.map_left_shift") (.bin .lshift a b) oth us
      = .ok (c16UnifyF cands cx.recur (.bin .lshift a b) oth us) := by
  by_cases hk : oth.kind = BinOp.name .lshift
  · obtain ⟨a', b', rfl⟩ := kind_inv_bin .lshift oth hk
    have hm : c16UnifyF cands cx.recur (.bin .lshift a b) (.bin .lshift a' b') us
        = cx.recur a a' (cx.recur b b' us) := by simp [c16UnifyF]
    rw [hm]
    refine c16StepFn_eq _ c16X_Base_map_left_shift rfl _ _ ?_ (asRecs_ofRecs _)
    rw [c16X_shift_eq]
    exact c16Call_two_field cands cx "UnifierBase.map_left_shift" "shiftee" "shift" (.bin .lshift a b) (.bin .lshift a' b') _ us
      (asRecs_ofRecs us) rfl a a' b b' rfl rfl rfl rfl
  · rw [show c16UnifyF cands cx.recur (.bin .lshift a b) oth us = [] from bin_mismatch .lshift oth hk _]
    exact c16StepFn_mismatch cands cx hs _ "UnifierBase.map_left_shift" _ rfl _ oth us hk

theorem c16Step_bin_rshift (cands : List String) (cx : C16Ctx) (hs : C16FnSpec cands cx.fn)
    (a b oth : Expr) (us : List URec) :
    c16StepFn c16Expected cx (.ok "UnifierBase.map_left_shift") (.bin .rshift a b) oth us
      = .ok (c16UnifyF cands cx.recur (.bin .rshift a b) oth us) := by
  by_cases hk : oth.kind = BinOp.name .rshift
  · obtain ⟨a', b', rfl⟩ := kind_inv_bin .rshift oth hk
    have hm : c16UnifyF cands cx.recur (.bin .rshift a b) (.bin .rshift a' b') us
        = cx.recur a a' (cx.recur b b' us) := by simp [c16UnifyF]
    rw [hm]
    refine c16StepFn_eq _ c16X_Base_map_left_shift rfl _ _ ?_ (asRecs_ofRecs _)
    rw [c16X_shift_eq]
    exact c16Call_two_field cands cx "UnifierBase.map_left_shift" "shiftee" "shift" (.bin .rshift a b) (.bin .rshift a' b') _ us
      (asRecs_ofRecs us) rfl a a' b b' rfl rfl rfl rfl
  · rw [show c16UnifyF cands cx.recur (.bin .rshift a b) oth us = [] from bin_mismatch .rshift oth hk _]
    exact c16StepFn_mismatch cands cx hs _ "UnifierBase.map_left_shift" _ rfl _ oth us hk

theorem un_mismatch {α : Type} (o : UnOp) (oth : Expr) (hk : oth.kind ≠ o.name) (X : Expr → List α) :
    (match oth with
      | .un o' a' => if o = o' then X a' else []
      | _ => []) = [] := by
  cases oth <;> first | rfl | skip
  rename_i o' a'
  by_cases h : o = o'
  · subst h; exact absurd rfl hk
  · simp [h]

theorem c16Step_un_bnot (cands : List String) (cx : C16Ctx) (hs : C16FnSpec cands cx.fn)
    (a oth : Expr) (us : List URec) :
    c16StepFn c16Expected cx (.ok "UnifierBase.map_bitwise_not") (.un .bnot a) oth us
      = .ok (c16UnifyF cands cx.recur (.un .bnot a) oth us) := by
  by_cases hk : oth.kind = UnOp.name .bnot
  · obtain ⟨a', rfl⟩ := kind_inv_un .bnot oth hk
    have hm : c16UnifyF cands cx.recur (.un .bnot a) (.un .bnot a') us = cx.recur a a' us := by
      simp [c16UnifyF]
    rw [hm]
    refine c16StepFn_eq _ c16X_Base_map_bitwise_not rfl _ _ ?_ (asRecs_ofRecs _)
    rw [c16X_not_eq]
    exact c16Call_one_field cands cx "UnifierBase.map_bitwise_not" "child" (.un .bnot a) (.un .bnot a') _ us
      (asRecs_ofRecs us) rfl a a' rfl rfl
  · rw [show c16UnifyF cands cx.recur (.un .bnot a) oth us = [] from un_mismatch .bnot oth hk _]
    exact c16StepFn_mismatch cands cx hs _ "UnifierBase.map_bitwise_not" _ rfl _ oth us hk

theorem c16Step_un_lnot (cands : List String) (cx : C16Ctx) (hs : C16FnSpec cands cx.fn)
    (a oth : Expr) (us : List URec) :
    c16StepFn c16Expected cx (.ok "UnifierBase.map_bitwise_not") (.un .lnot a) oth us
      = .ok (c16UnifyF cands cx.recur (.un .lnot a) oth us) := by
  by_cases hk : oth.kind = UnOp.name .lnot
  · obtain ⟨a', rfl⟩ := kind_inv_un .lnot oth hk
    have hm : c16UnifyF cands cx.recur (.un .lnot a) (.un .lnot a') us = cx.recur a a' us := by
      simp [c16UnifyF]
    rw [hm]
    refine c16StepFn_eq _ c16X_Base_map_bitwise_not rfl _ _ ?_ (asRecs_ofRecs _)
    rw [c16X_not_eq]
    exact c16Call_one_field cands cx "UnifierBase.map_bitwise_not" "child" (.un .lnot a) (.un .lnot a') _ us
      (asRecs_ofRecs us) rfl a a' rfl rfl
  · rw [show c16UnifyF cands cx.recur (.un .lnot a) oth us = [] from un_mismatch .lnot oth hk _]
    exact c16StepFn_mismatch cands cx hs _ "UnifierBase.map_bitwise_not" _ rfl _ oth us hk

theorem c16Step_ite (cands : List String) (cx : C16Ctx) (hs : C16FnSpec cands cx.fn)
    (c t e oth : Expr) (us : List URec) :
    c16StepFn c16Expected cx (.ok "UnifierBase.map_if") (.ite c t e) oth us
      = .ok (c16UnifyF cands cx.recur (.ite c t e) oth us) := by
  by_cases hk : oth.kind = "If"
  · obtain ⟨c', t', e', rfl⟩ := (kind_inv_plain "If" oth hk (by simp)).2.1 rfl
    have hm : c16UnifyF cands cx.recur (.ite c t e) (.ite c' t' e') us
        = cx.recur c c' (cx.recur t t' (cx.recur e e' us)) := by simp [c16UnifyF]
    rw [hm]
    refine c16StepFn_eq _ c16X_Base_map_if rfl _ _ ?_ (asRecs_ofRecs _)
    rw [c16X_if_eq]
    exact c16Call_three_field cands cx "UnifierBase.map_if" "condition" "then" "else_" (.ite c t e)
      (.ite c' t' e') _ us (asRecs_ofRecs us) rfl c c' t t' e e' rfl rfl rfl rfl rfl rfl
  · have hm : c16UnifyF cands cx.recur (.ite c t e) oth us = [] := by
      cases oth <;> first | rfl | exact absurd rfl hk
    rw [hm]
    exact c16StepFn_mismatch cands cx hs _ "UnifierBase.map_if" _ rfl _ oth us hk

theorem c16Step_call (cands : List String) (cx : C16Ctx) (hs : C16FnSpec cands cx.fn)
    (f : Expr) (as : List Expr) (oth : Expr) (us : List URec) :
    c16StepFn c16Expected cx (.ok "UnifierBase.map_call") (.call f as) oth us
      = .ok (c16UnifyF cands cx.recur (.call f as) oth us) := by
  by_cases hk : oth.kind = "Call"
  · obtain ⟨f', as', rfl⟩ := (kind_inv_plain "Call" oth hk (by simp)).2.2.1 rfl
    have hm : c16UnifyF cands cx.recur (.call f as) (.call f' as') us
        = cx.recur f f' (cx.recur (.tuple as) (.tuple as') us) := by simp [c16UnifyF]
    rw [hm]
    refine c16StepFn_eq _ c16X_Base_map_call rfl _ _ ?_ (asRecs_ofRecs _)
    rw [c16X_call_eq]
    exact c16Call_two_field cands cx "UnifierBase.map_call" "function" "parameters" (.call f as)
      (.call f' as') _ us (asRecs_ofRecs us) rfl f f' (.tuple as) (.tuple as') rfl rfl rfl rfl
  · have hm : c16UnifyF cands cx.recur (.call f as) oth us = [] := by
      cases oth <;> first | rfl | exact absurd rfl hk
    rw [hm]
    exact c16StepFn_mismatch cands cx hs _ "UnifierBase.map_call" _ rfl _ oth us hk

theorem c16Step_subscript (cands : List String) (cx : C16Ctx) (hs : C16FnSpec cands cx.fn)
    (a i oth : Expr) (us : List URec) :
    c16StepFn c16Expected cx (.ok "UnifierBase.map_subscript") (.subscript a i) oth us
      = .ok (c16UnifyF cands cx.recur (.subscript a i) oth us) := by
  by_cases hk : oth.kind = "Subscript"
  · obtain ⟨a', i', rfl⟩ := (kind_inv_plain "Subscript" oth hk (by simp)).2.2.2.1 rfl
    have hm : c16UnifyF cands cx.recur (.subscript a i) (.subscript a' i') us
        = cx.recur a a' (cx.recur (unpackIndex i) (unpackIndex i') us) := by simp [c16UnifyF]
    rw [hm]
    exact c16StepFn_eq _ c16X_Base_map_subscript rfl _ _
      (c16Call_subscript cx (.subscript a i) (.subscript a' i') _ us (asRecs_ofRecs us) rfl a a' i i'
        rfl rfl rfl rfl) (asRecs_ofRecs _)
  · have hm : c16UnifyF cands cx.recur (.subscript a i) oth us = [] := by
      cases oth <;> first | rfl | exact absurd rfl hk
    rw [hm]
    have hf : c16FindFn c16Expected "UnifierBase.map_subscript"
        = some (c16H4 "UnifierBase.map_subscript" ["expr_index", "other_index"]
            (c16Guard :: c16X_Base_map_subscript.body.tail)) := rfl
    refine c16StepFn_eq _ _ hf _ _ ?_ asRecs_nil
    have hk2 : ¬ oth.kind = (Expr.subscript a i).kind := hk
    have hkk : (oth.kind == (Expr.subscript a i).kind) = false := by simpa using hk2
    have huv := ofRecs_isUnbound us
    simp only [c16CallVal, c16H4, c16Guard, c16RunFn, c16BindParams, Option.map, List.map]
    c16evalA [isinstance_kind, c16KindOf, hkk, C16Val.truthy, huv,
      hs.treat_mismatch (.subscript a i) oth _ huv]

theorem c16Step_lookup (cands : List String) (cx : C16Ctx) (hs : C16FnSpec cands cx.fn)
    (a : Expr) (n : String) (oth : Expr) (us : List URec) :
    c16StepFn c16Expected cx (.ok "UnifierBase.map_lookup") (.lookup a n) oth us
      = .ok (c16UnifyF cands cx.recur (.lookup a n) oth us) := by
  by_cases hk : oth.kind = "Lookup"
  · obtain ⟨a', n', rfl⟩ := (kind_inv_plain "Lookup" oth hk (by simp)).2.2.2.2.1 rfl
    refine c16StepFn_eq _ c16X_Base_map_lookup rfl _ _
      (c16Call_lookup cx (.lookup a n) (.lookup a' n') _ us (asRecs_ofRecs us) rfl n n' a a'
        rfl rfl rfl rfl) ?_
    by_cases hn : n = n' <;> simp [c16UnifyF, hn, asRecs_ofRecs, asRecs_nil]
  · have hm : c16UnifyF cands cx.recur (.lookup a n) oth us = [] := by
      cases oth <;> first | rfl | exact absurd rfl hk
    rw [hm]
    exact c16StepFn_mismatch cands cx hs _ "UnifierBase.map_lookup" _ (by rw [← c16X_lookup_eq]; rfl) _ oth us hk

theorem c16_cmp_sym_inj (o o' : CmpOp) : o.sym = o'.sym ↔ o = o' := by
  cases o <;> cases o' <;> simp [CmpOp.sym]

theorem c16Step_cmp (cands : List String) (cx : C16Ctx) (hs : C16FnSpec cands cx.fn)
    (o : CmpOp) (a b oth : Expr) (us : List URec) :
    c16StepFn c16Expected cx (.ok "UnifierBase.map_comparison") (.cmp o a b) oth us
      = .ok (c16UnifyF cands cx.recur (.cmp o a b) oth us) := by
  by_cases hk : oth.kind = "Comparison"
  · obtain ⟨o', a', b', rfl⟩ := (kind_inv_plain "Comparison" oth hk (by simp)).1 rfl
    refine c16StepFn_eq _ c16X_Base_map_comparison rfl _ _
      (c16Call_comparison cands cx hs (.cmp o a b) (.cmp o' a' b') _ us (asRecs_ofRecs us) rfl
        o.sym o'.sym a a' b b' rfl rfl rfl rfl rfl rfl) ?_
    by_cases ho : o = o'
    · subst ho; simp [c16UnifyF, asRecs_ofRecs]
    · have : ¬ o.sym = o'.sym := fun h => ho ((c16_cmp_sym_inj o o').1 h)
      simp [c16UnifyF, ho, this, asRecs_nil]
  · have hm : c16UnifyF cands cx.recur (.cmp o a b) oth us = [] := by
      cases oth <;> first | rfl | exact absurd rfl hk
    rw [hm]
    exact c16StepFn_eq _ c16X_Base_map_comparison rfl _ _
      (c16Call_comparison_mismatch cands cx hs (.cmp o a b) oth _ (ofRecs_isUnbound us) hk) asRecs_nil

theorem c16Step_tuple (cands : List String) (cx : C16Ctx) (cs : List Expr) (oth : Expr)
    (us : List URec) :
    c16StepFn c16Expected cx (.ok "UnifierBase.map_list") (.tuple cs) oth us
      = .ok (c16UnifyF cands cx.recur (.tuple cs) oth us) := by
  refine c16StepFn_eq _ c16X_Base_map_list rfl _ _ (c16Call_tuple cx cs oth us) ?_
  rw [asRecs_ofRecs]
  cases oth <;> simp [c16UnifyF]

theorem c16Step_const (cands : List String) (cx : C16Ctx) (c : Const) (oth : Expr) (us : List URec) :
    c16StepFn c16Expected cx (.ok "UnifierBase.map_constant") (.const c) oth us
      = .ok (c16UnifyF cands cx.recur (.const c) oth us) := by
  refine c16StepFn_eq _ c16X_Base_map_constant rfl _ _
    (c16Call_constant cx _ oth _ (ofRecs_isUnbound us)) ?_
  simp only [c16UnifyF]
  split <;> simp [asRecs_ofRecs, asRecs_nil]

theorem c16Step_var (cands : List String) (cx : C16Ctx) (hc : C16CxOk cands cx) (x : String)
    (oth : Expr) (us : List URec) :
    c16StepFn c16Expected cx (.ok "UnifierBase.map_variable") (.var x) oth us
      = .ok (c16UnifyF cands cx.recur (.var x) oth us) := by
  refine c16StepFn_eq _ c16X_Base_map_variable rfl _ _
    (c16Call_variable cands cx hc.fn hc.attrs x oth _ us (asRecs_ofRecs us)) ?_
  simp only [c16UnifyF, mapVariable_eq]
  cases recFromEq cands x oth with
  | some n => simp [asRecs_ofRecs]
  | none => simp only []; split <;> simp [asRecs_ofRecs, asRecs_nil]

theorem c16Step_sum (cands : List String) (cx : C16Ctx) (hc : C16CxOk cands cx) (cs : List Expr)
    (oth : Expr) (us : List URec) (husw : ∀ u ∈ us, u.WF)
    (hsafe : c16SafeTop (.nary .sum cs) oth) :
    c16StepFn c16Expected cx (.ok "UnidirectionalUnifier.map_sum") (.nary .sum cs) oth us
      = .ok (c16UnifyF cands cx.recur (.nary .sum cs) oth us) := by
  by_cases hk : oth.kind = NaryOp.name .sum
  · obtain ⟨ds, rfl⟩ := kind_inv_nary .sum oth hk
    have hkk : (Expr.nary NaryOp.sum ds).kind = (Expr.nary NaryOp.sum cs).kind := rfl
    refine c16StepFn_eq _ c16X_Uni_map_sum rfl _ _
      (c16Call_nary cands cx hc.ca c16X_Uni_map_sum .sum "flattened_sum" rfl (.nary .sum cs) (.nary .sum ds) cs ds _ us rfl
        (fun _ => rfl) (asRecs_ofRecs us) husw (fun _ => hsafe rfl)) ?_
    simp [c16UnifyF, asRecs_ofRecs, hkk]
  · have hk' : ¬ oth.kind = (Expr.nary NaryOp.sum cs).kind := hk
    have hm : c16UnifyF cands cx.recur (.nary .sum cs) oth us = [] := by
      cases oth <;> first | rfl | skip
      rename_i o' ds
      by_cases h : NaryOp.sum = o'
      · subst h; exact absurd rfl hk
      · simp [c16UnifyF, h]
    rw [hm]
    refine c16StepFn_eq _ c16X_Uni_map_sum rfl _ _
      (c16Call_nary cands cx hc.ca c16X_Uni_map_sum .sum "flattened_sum" rfl (.nary .sum cs) oth cs [] _ us rfl
        (fun h => absurd h hk') (asRecs_ofRecs us) husw (fun h => absurd h hk')) ?_
    simp [hk', asRecs_nil]

theorem c16Step_prod (cands : List String) (cx : C16Ctx) (hc : C16CxOk cands cx) (cs : List Expr)
    (oth : Expr) (us : List URec) (husw : ∀ u ∈ us, u.WF)
    (hsafe : c16SafeTop (.nary .prod cs) oth) :
    c16StepFn c16Expected cx (.ok "UnidirectionalUnifier.map_product") (.nary .prod cs) oth us
      = .ok (c16UnifyF cands cx.recur (.nary .prod cs) oth us) := by
  by_cases hk : oth.kind = NaryOp.name .prod
  · obtain ⟨ds, rfl⟩ := kind_inv_nary .prod oth hk
    have hkk : (Expr.nary NaryOp.prod ds).kind = (Expr.nary NaryOp.prod cs).kind := rfl
    refine c16StepFn_eq _ c16X_Uni_map_product rfl _ _
      (c16Call_nary cands cx hc.ca c16X_Uni_map_product .prod "flattened_product" rfl (.nary .prod cs) (.nary .prod ds) cs ds _ us rfl
        (fun _ => rfl) (asRecs_ofRecs us) husw (fun _ => hsafe rfl)) ?_
    simp [c16UnifyF, asRecs_ofRecs, hkk]
  · have hk' : ¬ oth.kind = (Expr.nary NaryOp.prod cs).kind := hk
    have hm : c16UnifyF cands cx.recur (.nary .prod cs) oth us = [] := by
      cases oth <;> first | rfl | skip
      rename_i o' ds
      by_cases h : NaryOp.prod = o'
      · subst h; exact absurd rfl hk
      · simp [c16UnifyF, h]
    rw [hm]
    refine c16StepFn_eq _ c16X_Uni_map_product rfl _ _
      (c16Call_nary cands cx hc.ca c16X_Uni_map_product .prod "flattened_product" rfl (.nary .prod cs) oth cs [] _ us rfl
        (fun h => absurd h hk') (asRecs_ofRecs us) husw (fun h => absurd h hk')) ?_
    simp [hk', asRecs_nil]

/-- **One dispatched call of the table is `c16UnifyF`**: for every node kind of the model, every
target, every list of (well-formed) incoming records and ANY meaning `recur` of `self.rec`, running
the handler the table prescribes for the node — with the other functions of the module meaning what
the model says (`C16CxOk`) — returns exactly what one unfolding of `unifyE` returns. -/
theorem c16Step_expected (cands : List String) (cx : C16Ctx) (hc : C16CxOk cands cx)
    (e oth : Expr) (us : List URec) (ht : c16Top e = true) (husw : ∀ u ∈ us, u.WF)
    (hsafe : c16SafeTop e oth) :
    c16StepFn c16Expected cx (.ok (c16ExpectedHandler e)) e oth us
      = .ok (c16UnifyF cands cx.recur e oth us) := by
  cases e with
  | const c => exact c16Step_const cands cx c oth us
  | var x => exact c16Step_var cands cx hc x oth us
  | nary o cs =>
    cases o <;> simp [c16Top] at ht
    · exact c16Step_sum cands cx hc cs oth us husw hsafe
    · exact c16Step_prod cands cx hc cs oth us husw hsafe
  | bin o a b =>
    cases o
    · exact c16Step_bin_quot cands cx hc.fn a b oth us
    · exact c16Step_bin_floordiv cands cx hc.fn a b oth us
    · exact c16Step_bin_rem cands cx hc.fn a b oth us
    · exact c16Step_bin_pow cands cx hc.fn a b oth us
    · exact c16Step_bin_lshift cands cx hc.fn a b oth us
    · exact c16Step_bin_rshift cands cx hc.fn a b oth us
  | un o a =>
    cases o
    · exact c16Step_un_bnot cands cx hc.fn a oth us
    · exact c16Step_un_lnot cands cx hc.fn a oth us
  | cmp o a b => exact c16Step_cmp cands cx hc.fn o a b oth us
  | ite c t e => exact c16Step_ite cands cx hc.fn c t e oth us
  | call f as => exact c16Step_call cands cx hc.fn f as oth us
  | subscript a i => exact c16Step_subscript cands cx hc.fn a i oth us
  | lookup a n => exact c16Step_lookup cands cx hc.fn a n oth us
  | tuple cs => exact c16Step_tuple cands cx cs oth us
  | _ => simp [c16Top] at ht

end PV.Unify
