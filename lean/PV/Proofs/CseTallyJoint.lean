import PV.Proofs.CseTallyCount
import PV.Proofs.CseTallySched
/-
  C12 helper: the end-to-end induction.  `CSEMapper` (state: the canonical table `T`), the schedule
  of an evaluator on the mapper's OUTPUT (state: the wrapper cache `C`) and the reference walk on
  the mapper's INPUT (state: the memo `d`) are run side by side over one expression list.
  The mapper and the reference walk always skip at the same places (given that every memo hit is
  on a key to be eliminated, `c12HitsElim`, which is what the use counts guarantee); the evaluator
  skips wherever they skip, and may skip more — exactly when a newly built wrapper is structurally
  equal to a wrapper it has computed already.
-/
namespace PV

theorem Tbl.le_append (T X : Tbl) : T.le (T ++ X) := fun _ _ h => Tbl.find_append_some X h

theorem inElim_congr {elim : List CKey} (hE : ElimKeys elim) {a b : Expr} (ha : a.simple = true)
    (hb : b.simple = true) (h : c12SameKey a b = true)
    (h1 : inElim elim (normalizedKey a) = true) : inElim elim (normalizedKey b) = true := by
  simp only [inElim, List.any_eq_true] at h1 ⊢
  obtain ⟨k, hk, hka⟩ := h1
  obtain ⟨e0, hs0, rfl⟩ := hE k hk
  exact ⟨_, hk, keyEq_trans_simple hs0 ha hb hka h⟩

/-- table ↔ memo -/
structure C12InvT (elim : List CKey) (T : Tbl) (d : List Expr) : Prop where
  dt : ∀ s ∈ d, inElim elim (normalizedKey s) = true → (T.find (normalizedKey s)).isSome = true
  td : ∀ p ∈ T, ∃ s ∈ d, p.1 = normalizedKey s
  df : ∀ s ∈ d, s.frag = true
  tw : ∀ p ∈ T, ∃ r, p.2 = .cse r none evalScope ∧ r.tfrag = true

/-- table ↔ cache -/
structure C12InvC (T : Tbl) (C : List Expr) : Prop where
  tc : ∀ p ∈ T, p.2 ∈ C
  ct : ∀ w ∈ C, ∃ p ∈ T, p.2 = w
  cc : c12Closed C

theorem C12InvT.keys {elim : List CKey} {T : Tbl} {d : List Expr} (h : C12InvT elim T d) :
    TblKeys T := by
  intro p hp
  obtain ⟨s, hs, hk⟩ := h.td p hp
  exact ⟨s, frag_simple s (h.df s hs), hk⟩

/-- what the side-by-side run of one expression establishes -/
def C12Concl (elim : List CKey) (e : Expr) (T : Tbl) (C d : List Expr) : Prop :=
  ∃ e' X dn, cseMap elim e T = .ok (e', T ++ X) ∧ c12Plan e d = d ++ dn ∧ e'.tfrag = true ∧
    C12InvT elim (T ++ X) (d ++ dn) ∧ C12InvC (T ++ X) (c12Sched e' C).2 ∧
    (∀ s ∈ dn, s.size ≤ e.size) ∧ (∀ p ∈ X, p.2 ∈ c12Wrappers e') ∧
    (∀ Tf, (T ++ X).le Tf → (c12Sched e' C).1.Sublist (dn.map (c12Rebuild elim Tf))) ∧
    (∀ Y, ((T ++ X ++ Y).map Prod.snd).Nodup →
      (c12Sched e' C).1 = dn.map (c12Rebuild elim (T ++ X ++ Y)))

def C12ConclL (elim : List CKey) (cs : List Expr) (T : Tbl) (C d : List Expr) : Prop :=
  ∃ cs' X dn, cseMapL elim cs T = .ok (cs', T ++ X) ∧ c12PlanL cs d = d ++ dn ∧
    Expr.tfragL cs' = true ∧
    C12InvT elim (T ++ X) (d ++ dn) ∧ C12InvC (T ++ X) (c12SchedL cs' C).2 ∧
    (∀ s ∈ dn, s.size ≤ Expr.sizeL cs) ∧ (∀ p ∈ X, p.2 ∈ c12WrappersL cs') ∧
    (∀ Tf, (T ++ X).le Tf → (c12SchedL cs' C).1.Sublist (dn.map (c12Rebuild elim Tf))) ∧
    (∀ Y, ((T ++ X ++ Y).map Prod.snd).Nodup →
      (c12SchedL cs' C).1 = dn.map (c12Rebuild elim (T ++ X ++ Y)))

def C12Goal (elim : List CKey) (e : Expr) : Prop :=
  ∀ T C d, c12HitsElim elim e d = true → C12InvT elim T d → C12InvC T C → C12Concl elim e T C d

def C12GoalL (elim : List CKey) (cs : List Expr) : Prop :=
  ∀ T C d, c12HitsElimL elim cs d = true → C12InvT elim T d → C12InvC T C →
    C12ConclL elim cs T C d

theorem c12Goal_leaf {elim : List CKey} {e : Expr} (hm : ∀ T, cseMap elim e T = .ok (e, T))
    (hp : ∀ d, c12Plan e d = d) (ht : e.tfrag = true) (hs : ∀ C, c12Sched e C = ([], C)) :
    C12Goal elim e := by
  intro T C d _ iT iC
  refine ⟨e, [], [], by simp [hm], by simp [hp], ht, by simpa using iT, by simpa [hs] using iC,
    by simp, by simp, ?_, ?_⟩
  · intro Tf _; simp [hs]
  · intro Y _; simp [hs]

theorem c12GoalL_nil (elim : List CKey) : C12GoalL elim [] := by
  intro T C d _ iT iC
  refine ⟨[], [], [], by simp [cseMapL, pure, Except.pure], by simp [c12PlanL], rfl,
    by simpa using iT, by simpa [c12SchedL] using iC, by simp, by simp, ?_, ?_⟩
  · intro Tf _; simp [c12SchedL]
  · intro Y _; simp [c12SchedL]

theorem c12GoalL_cons {elim : List CKey} {c : Expr} {cs : List Expr} (h1 : C12Goal elim c)
    (h2 : C12GoalL elim cs) : C12GoalL elim (c :: cs) := by
  intro T C d hH iT iC
  simp only [c12HitsElimL, Bool.and_eq_true] at hH
  obtain ⟨c', X1, dn1, m1, p1, t1, iT1, iC1, s1, w1, sub1, eq1⟩ := h1 T C d hH.1 iT iC
  rw [p1] at hH
  obtain ⟨cs', X2, dn2, m2, p2, t2, iT2, iC2, s2, w2, sub2, eq2⟩ :=
    h2 (T ++ X1) (c12Sched c' C).2 (d ++ dn1) hH.2 iT1 iC1
  refine ⟨c' :: cs', X1 ++ X2, dn1 ++ dn2, ?_, ?_, ?_, ?_, ?_, ?_, ?_, ?_, ?_⟩
  · simp only [cseMapL, m1, bind, Except.bind, m2, pure, Except.pure, List.append_assoc]
  · simp only [c12PlanL, p1, p2, List.append_assoc]
  · simp [Expr.tfragL, t1, t2]
  · simpa only [List.append_assoc] using iT2
  · simpa only [List.append_assoc, c12SchedL] using iC2
  · intro s hs
    simp only [Expr.sizeL]
    rcases List.mem_append.mp hs with hs | hs
    · have := s1 s hs; omega
    · have := s2 s hs; omega
  · intro p hp
    simp only [c12WrappersL]
    rcases List.mem_append.mp hp with hp | hp
    · exact List.mem_append_left _ (w1 p hp)
    · exact List.mem_append_right _ (w2 p hp)
  · intro Tf hle
    rw [← List.append_assoc] at hle
    simp only [c12SchedL, List.map_append]
    exact List.Sublist.append (sub1 Tf (Tbl.le_trans (Tbl.le_append _ _) hle)) (sub2 Tf hle)
  · intro Y hY
    simp only [c12SchedL, List.map_append]
    have e1 := eq1 (X2 ++ Y) (by simpa only [List.append_assoc] using hY)
    have e2 := eq2 Y (by simpa only [List.append_assoc] using hY)
    simp only [List.append_assoc] at e1 e2 ⊢
    rw [e1, e2]

theorem cseMapL_cons_ok {elim : List CKey} {c : Expr} {cs cs' : List Expr} {T T' : Tbl}
    (h : cseMapL elim (c :: cs) T = .ok (cs', T')) :
    ∃ c' as' T1, cs' = c' :: as' ∧ cseMap elim c T = .ok (c', T1) ∧
      cseMapL elim cs T1 = .ok (as', T') := by
  simp only [cseMapL] at h
  obtain ⟨⟨c', T1⟩, h1, h⟩ := except_bind_ok h
  obtain ⟨⟨as', T2⟩, h2, h⟩ := except_bind_ok h
  simp only [pure, Except.pure] at h
  injection h with h; injection h with e1 e2; subst e1; subst e2
  exact ⟨c', as', T1, rfl, h1, h2⟩

theorem cseMapL_nil_ok {elim : List CKey} {cs' : List Expr} {T T' : Tbl}
    (h : cseMapL elim [] T = .ok (cs', T')) : cs' = [] ∧ T' = T := by
  simp only [cseMapL, pure, Except.pure] at h
  injection h with h; injection h with e1 e2; exact ⟨e1.symm, e2.symm⟩

/-- the operation-node step, given the side-by-side run of the operands (`hblock`) -/
theorem c12_node {elim : List CKey} (hE : ElimKeys elim) {e : Expr} {T : Tbl} {C d : List Expr}
    (hf : e.frag = true) (hop : e.isCseOp = true)
    (hH : c12Has d e = true → inElim elim (normalizedKey e) = true)
    (iT : C12InvT elim T d) (iC : C12InvC T C)
    (hhit : ∀ w, modeOf elim T e = .hit w → cseMap elim e T = .ok (w, T))
    (hplanhit : c12Has d e = true → c12Plan e d = d)
    (hblock : c12Has d e = false → ∃ r X2 dn2 opsK C2,
      ((∀ w, modeOf elim T e ≠ .hit w) →
        cseMap elim e T = .ok (finishOp (modeOf elim T e) r (T ++ X2))) ∧
      c12Plan e d = d ++ dn2 ++ [e] ∧
      c12Sched r C = (opsK ++ [r], C2) ∧
      wrapInCse r none = .cse r none evalScope ∧ r.tfrag = true ∧
      C12InvT elim (T ++ X2) (d ++ dn2) ∧ C12InvC (T ++ X2) C2 ∧
      (∀ s ∈ dn2, s.size < e.size) ∧ (∀ p ∈ X2, p.2 ∈ c12Wrappers r) ∧
      (∀ Tf, (T ++ X2).le Tf →
        c12Rebuild elim Tf e = r ∧ opsK.Sublist (dn2.map (c12Rebuild elim Tf))) ∧
      (∀ Y, ((T ++ X2 ++ Y).map Prod.snd).Nodup →
        opsK = dn2.map (c12Rebuild elim (T ++ X2 ++ Y)))) :
    C12Concl elim e T C d := by
  have hse := frag_simple e hf
  cases hh : c12Has d e with
  | true =>
    -- the mapper and the reference walk both skip; so does the evaluator
    obtain ⟨s, hsd, hks⟩ := c12Has_mem hh
    have hss := frag_simple s (iT.df s hsd)
    have hine := hH hh
    have hins : inElim elim (normalizedKey s) = true :=
      inElim_congr hE hse hss (keyEq_symm_simple hss hse hks) hine
    have hfs := iT.dt s hsd hins
    rw [Tbl.find_congr hss hse hks iT.keys] at hfs
    cases hfe : T.find (normalizedKey e) with
    | none => rw [hfe] at hfs; cases hfs
    | some w =>
      have hmode : modeOf elim T e = .hit w := by simp [modeOf, hop, hine, hfe]
      obtain ⟨k', hmem, _⟩ := Tbl.find_some hfe
      obtain ⟨r, hw, hr⟩ := iT.tw (k', w) hmem
      simp only at hw
      have hwC : w ∈ C := iC.tc (k', w) hmem
      have hsch : c12Sched w C = ([], C) := by
        subst hw; simp only [c12Sched] at hwC ⊢; simp [hwC]
      refine ⟨w, [], [], by simpa using hhit w hmode, by simpa using hplanhit hh, ?_,
        by simpa using iT, by simpa [hsch] using iC, by simp, by simp, ?_, ?_⟩
      · subst hw; simpa [Expr.tfrag] using hr
      · intro Tf _; simp [hsch]
      · intro Y _; simp [hsch]
  | false =>
    have hnh : ∀ w, modeOf elim T e ≠ .hit w := by
      intro w hm
      unfold modeOf at hm
      by_cases h1 : (e.isCseOp && inElim elim (normalizedKey e)) = true
      · simp only [h1, if_true] at hm
        cases hfe : T.find (normalizedKey e) with
        | none => simp [hfe] at hm
        | some w' =>
          obtain ⟨k', hmem, hk⟩ := Tbl.find_some hfe
          obtain ⟨s, hsd, hks⟩ := iT.td (k', w') hmem
          simp only at hks; subst hks
          have := c12Has_of_mem hsd (show c12SameKey s e = true from hk)
          rw [hh] at this; cases this
      · simp [h1] at hm
    obtain ⟨r, X2, dn2, opsK, C2, hmap, hplan, hsch, hwrap, hrt, iT2, iC2, hsz, hwr, hsub, heq⟩ :=
      hblock hh
    have hmap := hmap hnh
    by_cases hin : inElim elim (normalizedKey e) = true
    · -- first occurrence of an operation to be eliminated: a new wrapper
      have hfe : T.find (normalizedKey e) = none := by
        cases hfe : T.find (normalizedKey e) with
        | none => rfl
        | some w => exact absurd (by simp [modeOf, hop, hin, hfe]) (hnh w)
      have hmode : modeOf elim T e = .miss (normalizedKey e) := by simp [modeOf, hop, hin, hfe]
      -- the operands did not add the key
      have hf2 : (T ++ X2).find (normalizedKey e) = none := by
        cases hf2 : (T ++ X2).find (normalizedKey e) with
        | none => rfl
        | some w2 =>
          exfalso
          obtain ⟨k', hmem, hk⟩ := Tbl.find_some hf2
          obtain ⟨s, hsd, hks⟩ := iT2.td (k', w2) hmem
          simp only at hks; subst hks
          rcases List.mem_append.mp hsd with hsd | hsd
          · have := c12Has_of_mem hsd (show c12SameKey s e = true from hk)
            rw [hh] at this; cases this
          · have h1 := keyEq_size (frag_simple s (iT2.df s (List.mem_append_right _ hsd))) hse hk
            have h2 := hsz s hsd
            omega
      rw [hmode] at hmap
      simp only [finishOp, hwrap, Tbl.set_of_find_none hf2] at hmap
      have hWw : c12Wrappers (Expr.cse r none evalScope) = .cse r none evalScope :: c12Wrappers r := by
        simp [c12Wrappers]
      have iT' : C12InvT elim (T ++ (X2 ++ [(normalizedKey e, .cse r none evalScope)]))
          (d ++ (dn2 ++ [e])) := by
        rw [← List.append_assoc, ← List.append_assoc]
        refine ⟨?_, ?_, ?_, ?_⟩
        · intro s hs hi
          rcases List.mem_append.mp hs with hs | hs
          · have := iT2.dt s hs hi
            cases hq : (T ++ X2).find (normalizedKey s) with
            | none => rw [hq] at this; cases this
            | some q => rw [Tbl.find_append_some _ hq]; rfl
          · simp only [List.mem_singleton] at hs; subst hs
            rw [Tbl.find_append_none _ hf2]
            simp [Tbl.find, keyEq_refl_simple hse]
        · intro p hp
          rcases List.mem_append.mp hp with hp | hp
          · obtain ⟨s, hs, hk⟩ := iT2.td p hp
            exact ⟨s, List.mem_append_left _ hs, hk⟩
          · simp only [List.mem_singleton] at hp; subst hp
            exact ⟨e, by simp, rfl⟩
        · intro s hs
          rcases List.mem_append.mp hs with hs | hs
          · exact iT2.df s hs
          · simp only [List.mem_singleton] at hs; subst hs; exact hf
        · intro p hp
          rcases List.mem_append.mp hp with hp | hp
          · exact iT2.tw p hp
          · simp only [List.mem_singleton] at hp; subst hp
            exact ⟨r, rfl, hrt⟩
      have hszs : ∀ s ∈ dn2 ++ [e], s.size ≤ e.size := by
        intro s hs
        rcases List.mem_append.mp hs with hs | hs
        · have := hsz s hs; omega
        · simp only [List.mem_singleton] at hs; subst hs; exact Nat.le_refl _
      have hwrs : ∀ p ∈ X2 ++ [(normalizedKey e, Expr.cse r none evalScope)],
          p.2 ∈ c12Wrappers (Expr.cse r none evalScope) := by
        intro p hp
        rw [hWw]
        rcases List.mem_append.mp hp with hp | hp
        · exact List.mem_cons_of_mem _ (hwr p hp)
        · simp only [List.mem_singleton] at hp; subst hp; simp
      by_cases hWC : Expr.cse r none evalScope ∈ C
      · -- the evaluator has computed a structurally equal wrapper already: it does nothing
        have hsW : c12Sched (Expr.cse r none evalScope) C = ([], C) := by
          simp [c12Sched, hWC]
        refine ⟨.cse r none evalScope, X2 ++ [(normalizedKey e, .cse r none evalScope)],
          dn2 ++ [e], by rw [hmap, List.append_assoc], by rw [hplan, List.append_assoc],
          by simpa [Expr.tfrag] using hrt, iT', ?_, hszs, hwrs, ?_, ?_⟩
        · rw [hsW]
          refine ⟨?_, ?_, iC.cc⟩
          · intro p hp
            rcases List.mem_append.mp hp with hp | hp
            · exact iC.tc p hp
            · exact iC.cc _ hWC _ (hwrs p hp)
          · intro w hw
            obtain ⟨p, hp, hpw⟩ := iC.ct w hw
            exact ⟨p, List.mem_append_left _ hp, hpw⟩
        · intro Tf _; simp [hsW]
        · intro Y hY
          exfalso
          obtain ⟨p, hp, hpw⟩ := iC.ct _ hWC
          have : ((T ++ (X2 ++ [(normalizedKey e, Expr.cse r none evalScope)]) ++ Y).map Prod.snd)
              = T.map Prod.snd ++ (X2.map Prod.snd ++
                  (Expr.cse r none evalScope :: Y.map Prod.snd)) := by simp
          rw [this] at hY
          have hd := (List.nodup_append.mp hY).2.2
          exact hd _ (List.mem_map.mpr ⟨p, hp, hpw⟩) _
            (List.mem_append_right _ (List.mem_cons_self ..)) rfl
      · -- the evaluator computes the new wrapper: operands, then the operation
        have hsW : c12Sched (Expr.cse r none evalScope) C =
            (opsK ++ [r], Expr.cse r none evalScope :: C2) := by
          simp [c12Sched, hWC, hsch]
        have hcl := c12Sched_closed r C iC.cc
        rw [hsch] at hcl
        refine ⟨.cse r none evalScope, X2 ++ [(normalizedKey e, .cse r none evalScope)],
          dn2 ++ [e], by rw [hmap, List.append_assoc], by rw [hplan, List.append_assoc],
          by simpa [Expr.tfrag] using hrt, iT', ?_, hszs, hwrs, ?_, ?_⟩
        · rw [hsW]
          refine ⟨?_, ?_, ?_⟩
          · intro p hp
            rw [← List.append_assoc] at hp
            rcases List.mem_append.mp hp with hp | hp
            · exact List.mem_cons_of_mem _ (iC2.tc p hp)
            · simp only [List.mem_singleton] at hp; subst hp; simp
          · intro w hw
            rw [← List.append_assoc]
            rcases List.mem_cons.mp hw with rfl | hw
            · exact ⟨_, List.mem_append_right _ (List.mem_singleton.mpr rfl), rfl⟩
            · obtain ⟨p, hp, hpw⟩ := iC2.ct w hw
              exact ⟨p, List.mem_append_left _ hp, hpw⟩
          · intro w hw w' hw'
            rcases List.mem_cons.mp hw with rfl | hw
            · rw [hWw] at hw'
              rcases List.mem_cons.mp hw' with rfl | hw'
              · simp
              · exact List.mem_cons_of_mem _ (hcl.2.1 w' hw')
            · exact List.mem_cons_of_mem _ (iC2.cc w hw w' hw')
        · intro Tf hle
          rw [← List.append_assoc] at hle
          obtain ⟨hr, hs⟩ := hsub Tf (Tbl.le_trans (Tbl.le_append _ _) hle)
          rw [hsW]
          simp only [List.map_append, List.map_cons, List.map_nil, hr]
          exact List.Sublist.append hs (List.Sublist.refl _)
        · intro Y hY
          rw [hsW]
          have hY' : ((T ++ X2 ++ ([(normalizedKey e, Expr.cse r none evalScope)] ++ Y)).map
              Prod.snd).Nodup := by simpa only [List.append_assoc] using hY
          have e1 := heq _ hY'
          have hr := (hsub (T ++ X2 ++ ([(normalizedKey e, Expr.cse r none evalScope)] ++ Y))
            (Tbl.le_append _ _)).1
          simp only [List.append_assoc] at e1 hr ⊢
          simp only [List.map_append, List.map_cons, List.map_nil, hr, ← e1]
    · -- an operation that occurs once: rebuilt, not wrapped
      have hmode : modeOf elim T e = .plain := by simp [modeOf, hop, hin]
      rw [hmode] at hmap
      simp only [finishOp] at hmap
      refine ⟨r, X2, dn2 ++ [e], hmap, by rw [hplan, List.append_assoc], hrt, ?_, ?_, ?_, hwr,
        ?_, ?_⟩
      · rw [← List.append_assoc]
        refine ⟨?_, ?_, ?_, iT2.tw⟩
        · intro s hs hi
          rcases List.mem_append.mp hs with hs | hs
          · exact iT2.dt s hs hi
          · simp only [List.mem_singleton] at hs; subst hs
            rw [hi] at hin; exact absurd rfl hin
        · intro p hp
          obtain ⟨s, hs, hk⟩ := iT2.td p hp
          exact ⟨s, List.mem_append_left _ hs, hk⟩
        · intro s hs
          rcases List.mem_append.mp hs with hs | hs
          · exact iT2.df s hs
          · simp only [List.mem_singleton] at hs; subst hs; exact hf
      · rw [hsch]; exact iC2
      · intro s hs
        rcases List.mem_append.mp hs with hs | hs
        · have := hsz s hs; omega
        · simp only [List.mem_singleton] at hs; subst hs; exact Nat.le_refl _
      · intro Tf hle
        obtain ⟨hr, hs⟩ := hsub Tf hle
        rw [hsch]
        simp only [List.map_append, List.map_cons, List.map_nil, hr]
        exact List.Sublist.append hs (List.Sublist.refl _)
      · intro Y hY
        rw [hsch]
        have e1 := heq Y hY
        have hr := (hsub (T ++ X2 ++ Y) (Tbl.le_append _ _)).1
        simp only [List.map_append, List.map_cons, List.map_nil, hr, ← e1]

theorem c12Goal_nary {elim : List CKey} (hE : ElimKeys elim) {o : NaryOp} {cs : List Expr}
    (hf : (Expr.nary o cs).frag = true) (hk : C12GoalL elim cs) : C12Goal elim (.nary o cs) := by
  intro T C d hH iT iC
  have hs := frag_simple _ hf
  have hl := simple_nolist _ hs
  have he := hf
  simp only [Expr.frag, Bool.and_eq_true] at he
  have hop : (Expr.nary o cs).isCseOp = true := by
    cases o <;> simp_all [NaryOp.isComm, Expr.isCseOp]
  simp only [c12HitsElim] at hH
  refine c12_node hE hf hop (fun hh => by simpa [hh] using hH) iT iC ?_ ?_ ?_
  · intro w hm
    simp only [cseMap, opMode_eq elim T _ hl, hm]; rfl
  · intro hh; simp [c12Plan, hh]
  · intro hh
    simp only [hh, Bool.false_eq_true, if_false] at hH
    obtain ⟨cs', X2, dn2, m, p, t, iT2, iC2, sz, w, sub, eq⟩ := hk T C d hH iT iC
    obtain ⟨cs'', T', m', _, _, ap⟩ := cseMapL_frag elim cs T he.2
    rw [m] at m'
    injection m' with m'; injection m' with e1 e2; subst e1; subst e2
    refine ⟨.nary o cs', X2, dn2, (c12SchedL cs' C).1, (c12SchedL cs' C).2, ?_, ?_, ?_, rfl, ?_,
      iT2, iC2, ?_, ?_, ?_, eq⟩
    · intro hnh
      simp only [cseMap, opMode_eq elim T _ hl]
      cases hm : modeOf elim T (.nary o cs) with
      | hit w => exact absurd hm (hnh w)
      | plain => simp [bind, Except.bind, m, pure, Except.pure]
      | miss k => simp [bind, Except.bind, m, pure, Except.pure]
    · simp [c12Plan, hh, p]
    · simp [c12Sched]
    · simp [Expr.tfrag, he.1, t]
    · intro s hs'
      have := sz s hs'
      simp only [Expr.size]; omega
    · intro q hq; simpa [c12Wrappers] using w q hq
    · intro Tf hle
      exact ⟨by simp only [c12Rebuild, ap Tf hle], sub Tf hle⟩

theorem c12Goal_bin {elim : List CKey} (hE : ElimKeys elim) {o : BinOp} {a b : Expr}
    (hf : (Expr.bin o a b).frag = true) (ha : C12Goal elim a) (hb : C12Goal elim b) :
    C12Goal elim (.bin o a b) := by
  intro T C d hH iT iC
  have hk : C12GoalL elim [a, b] := c12GoalL_cons ha (c12GoalL_cons hb (c12GoalL_nil elim))
  have hs := frag_simple _ hf
  have hl := simple_nolist _ hs
  have he := hf
  simp only [Expr.frag, Bool.and_eq_true] at he
  have hop : (Expr.bin o a b).isCseOp = true := by
    cases o <;> simp_all [BinOp.isDivPow, Expr.isCseOp]
  simp only [c12HitsElim] at hH
  refine c12_node hE hf hop (fun hh => by simpa [hh] using hH) iT iC ?_ ?_ ?_
  · intro w hm
    simp only [cseMap, opMode_eq elim T _ hl, hm]; rfl
  · intro hh; simp [c12Plan, hh]
  · intro hh
    simp only [hh, Bool.false_eq_true, if_false] at hH
    have hHk : c12HitsElimL elim [a, b] d = true := by
      simpa [c12HitsElimL] using hH
    obtain ⟨cs', X2, dn2, m, p, t, iT2, iC2, sz, w, sub, eq⟩ := hk T C d hHk iT iC
    obtain ⟨cs'', T', m', _, _, ap⟩ := cseMapL_frag elim [a, b] T (by simp [Expr.fragL, he.1.2, he.2])
    rw [m] at m'
    injection m' with m'; injection m' with e1 e2; subst e1; subst e2
    obtain ⟨a', r1, T1, rfl, ma, m1⟩ := cseMapL_cons_ok m
    obtain ⟨b', r2, T2, rfl, mb, m2⟩ := cseMapL_cons_ok m1
    obtain ⟨rfl, rfl⟩ := cseMapL_nil_ok m2
    refine ⟨.bin o a' b', X2, dn2, (c12SchedL [a', b'] C).1, (c12SchedL [a', b'] C).2, ?_, ?_, ?_,
      rfl, ?_, iT2, iC2, ?_, ?_, ?_, eq⟩
    · intro hnh
      simp only [cseMap, opMode_eq elim T _ hl]
      cases hm : modeOf elim T (.bin o a b) with
      | hit w => exact absurd hm (hnh w)
      | plain => simp [bind, Except.bind, ma, mb, pure, Except.pure]
      | miss k => simp [bind, Except.bind, ma, mb, pure, Except.pure]
    · simp only [c12PlanL] at p
      simp only [c12Plan, hh, Bool.false_eq_true, if_false, p]
    · simp [c12Sched, c12SchedL]
    · simpa [Expr.tfrag, Expr.tfragL, he.1.1] using t
    · intro s hs'
      have := sz s hs'
      simp only [Expr.size, Expr.sizeL] at this ⊢; omega
    · intro q hq; simpa [c12Wrappers, c12WrappersL] using w q hq
    · intro Tf hle
      have := ap Tf hle
      simp only [applyTblL, List.cons.injEq, and_true] at this
      exact ⟨by simp only [c12Rebuild, this.1, this.2], sub Tf hle⟩

theorem c12Goal_call {elim : List CKey} (hE : ElimKeys elim) {f : Expr} {as : List Expr}
    (hf : (Expr.call f as).frag = true) (hg : C12Goal elim f) (has : C12GoalL elim as) :
    C12Goal elim (.call f as) := by
  intro T C d hH iT iC
  have hk : C12GoalL elim (f :: as) := c12GoalL_cons hg has
  have hs := frag_simple _ hf
  have hl := simple_nolist _ hs
  have he := hf
  simp only [Expr.frag, Bool.and_eq_true] at he
  have hop : (Expr.call f as).isCseOp = true := rfl
  simp only [c12HitsElim] at hH
  refine c12_node hE hf hop (fun hh => by simpa [hh] using hH) iT iC ?_ ?_ ?_
  · intro w hm
    simp only [cseMap, opMode_eq elim T _ hl, hm]; rfl
  · intro hh; simp [c12Plan, hh]
  · intro hh
    simp only [hh, Bool.false_eq_true, if_false] at hH
    have hHk : c12HitsElimL elim (f :: as) d = true := by
      simpa [c12HitsElimL] using hH
    obtain ⟨cs', X2, dn2, m, p, t, iT2, iC2, sz, w, sub, eq⟩ := hk T C d hHk iT iC
    obtain ⟨cs'', T', m', _, _, ap⟩ := cseMapL_frag elim (f :: as) T (by simp [Expr.fragL, he.1, he.2])
    rw [m] at m'
    injection m' with m'; injection m' with e1 e2; subst e1; subst e2
    obtain ⟨f', as', T1, rfl, mf, m1⟩ := cseMapL_cons_ok m
    refine ⟨.call f' as', X2, dn2, (c12SchedL (f' :: as') C).1, (c12SchedL (f' :: as') C).2,
      ?_, ?_, ?_, rfl, ?_, iT2, iC2, ?_, ?_, ?_, eq⟩
    · intro hnh
      simp only [cseMap, opMode_eq elim T _ hl]
      cases hm : modeOf elim T (.call f as) with
      | hit w => exact absurd hm (hnh w)
      | plain => simp [bind, Except.bind, mf, m1, pure, Except.pure]
      | miss k => simp [bind, Except.bind, mf, m1, pure, Except.pure]
    · simp only [c12PlanL] at p
      simp only [c12Plan, hh, Bool.false_eq_true, if_false, p]
    · simp [c12Sched, c12SchedL]
    · simpa [Expr.tfrag, Expr.tfragL] using t
    · intro s hs'
      have := sz s hs'
      simp only [Expr.size, Expr.sizeL] at this ⊢; omega
    · intro q hq; simpa [c12Wrappers, c12WrappersL] using w q hq
    · intro Tf hle
      have := ap Tf hle
      simp only [applyTblL, List.cons.injEq] at this
      exact ⟨by simp only [c12Rebuild, this.1, this.2], sub Tf hle⟩

mutual
theorem c12Goal_all {elim : List CKey} (hE : ElimKeys elim) :
    ∀ (e : Expr), e.frag = true → C12Goal elim e
  | .const (.int n), _ =>
      c12Goal_leaf (fun _ => rfl) (fun _ => by simp [c12Plan]) rfl (fun _ => by simp [c12Sched])
  | .var x, _ =>
      c12Goal_leaf (fun _ => rfl) (fun _ => by simp [c12Plan]) rfl (fun _ => by simp [c12Sched])
  | .nary o cs, h =>
      c12Goal_nary hE h (c12GoalL_all hE cs (by
        simp only [Expr.frag, Bool.and_eq_true] at h; exact h.2))
  | .bin o a b, h =>
      c12Goal_bin hE h
        (c12Goal_all hE a (by simp only [Expr.frag, Bool.and_eq_true] at h; exact h.1.2))
        (c12Goal_all hE b (by simp only [Expr.frag, Bool.and_eq_true] at h; exact h.2))
  | .call f as, h =>
      c12Goal_call hE h
        (c12Goal_all hE f (by simp only [Expr.frag, Bool.and_eq_true] at h; exact h.1))
        (c12GoalL_all hE as (by simp only [Expr.frag, Bool.and_eq_true] at h; exact h.2))
  | .const (.bool _), h | .const (.flt ..), h | .const (.str _), h | .const .none, h
  | .un .., h | .cmp .., h | .ite .., h | .callKw .., h | .subscript .., h
  | .lookup .., h | .cse .., h | .subst .., h | .deriv .., h | .slice _, h
  | .nan, h | .wildcard, h | .dotWild _, h | .starWild _, h | .funcSym, h
  | .tuple _, h | .list _, h => by simp [Expr.frag] at h
theorem c12GoalL_all {elim : List CKey} (hE : ElimKeys elim) :
    ∀ (cs : List Expr), Expr.fragL cs = true → C12GoalL elim cs
  | [], _ => c12GoalL_nil elim
  | c :: cs, h =>
      c12GoalL_cons
        (c12Goal_all hE c (by simp only [Expr.fragL, Bool.and_eq_true] at h; exact h.1))
        (c12GoalL_all hE cs (by simp only [Expr.fragL, Bool.and_eq_true] at h; exact h.2))
end

end PV
