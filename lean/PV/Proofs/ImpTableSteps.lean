import PV.Model.ImpTable
import PV.Proofs.ImpTableAttr
/-
  C20 (T-gen): the defining equations of the table interpreter, one per syntactic form, FULLY
  APPLIED — so that `simp [c20step]` runs a statement list step by step but leaves loop bodies
  (`c20Exec c body` as an argument of `c20ForIn` / `c20While`) and comprehension elements folded.
  Generated from the definition text; each is the definition unfolded once.
-/
namespace PV.Imp
open PV
variable {σ : Type}

@[c20step] theorem c20Eval_var (c : C20Ctx σ) :
    ∀ x env, c20Eval c (.var x) env =
 c20Look x env := by
  intros; first | rfl | simp [c20Eval]

@[c20step] theorem c20Eval_glob (c : C20Ctx σ) :
    ∀ q w1, c20Eval c (.glob q) w1 =
 .ok (.ref q) := by
  intros; first | rfl | simp [c20Eval]

@[c20step] theorem c20Eval_lit (c : C20Ctx σ) :
    ∀ l w1, c20Eval c (.lit l) w1 =
 .ok (c20OfLit l) := by
  intros; first | rfl | simp [c20Eval]

@[c20step] theorem c20Eval_attr (c : C20Ctx σ) :
    ∀ e a env, c20Eval c (.attr e a) env =
 (c20Eval c e env).bind fun v => c20Attr v a := by
  intros; first | rfl | simp [c20Eval]

@[c20step] theorem c20Eval_call (c : C20Ctx σ) :
    ∀ f args kwNames kwVals env, c20Eval c (.call f args kwNames kwVals) env =

    (c20Eval c f env).bind fun fv => (c20EvalL c args env).bind fun as =>
      (c20EvalL c kwVals env).bind fun kvs => c20Apply c env fv as kwNames kvs := by
  intros; first | rfl | simp [c20Eval]

@[c20step] theorem c20Eval_meth (c : C20Ctx σ) :
    ∀ o m args kwNames kwVals env, c20Eval c (.meth o m args kwNames kwVals) env =

    (c20Eval c o env).bind fun ov => (c20EvalL c args env).bind fun as =>
      (c20EvalL c kwVals env).bind fun kvs => c20Method c ov m as kwNames kvs := by
  intros; first | rfl | simp [c20Eval]

@[c20step] theorem c20Eval_superMeth (c : C20Ctx σ) :
    ∀ m args kwNames kwVals env, c20Eval c (.superMeth m args kwNames kwVals) env =

    (c20EvalL c args env).bind fun as =>
      (c20EvalL c kwVals env).bind fun kvs => c20Super c env m as kwNames kvs := by
  intros; first | rfl | simp [c20Eval]

@[c20step] theorem c20Eval_index (c : C20Ctx σ) :
    ∀ d k env, c20Eval c (.index d k) env =

    (c20Eval c d env).bind fun dv => (c20Eval c k env).bind fun kv => c20Index dv kv := by
  intros; first | rfl | simp [c20Eval]

@[c20step] theorem c20Eval_bitOr (c : C20Ctx σ) :
    ∀ a b env, c20Eval c (.bitOr a b) env =

    (c20Eval c a env).bind fun av => (c20Eval c b env).bind fun bv => c20BitOr av bv := by
  intros; first | rfl | simp [c20Eval]

@[c20step] theorem c20Eval_bitAnd (c : C20Ctx σ) :
    ∀ a b env, c20Eval c (.bitAnd a b) env =

    (c20Eval c a env).bind fun av => (c20Eval c b env).bind fun bv => c20BitAnd av bv := by
  intros; first | rfl | simp [c20Eval]

@[c20step] theorem c20Eval_isNone (c : C20Ctx σ) :
    ∀ e env, c20Eval c (.isNone e) env =
 (c20Eval c e env).bind fun v => .ok (.bool (c20IsNone v)) := by
  intros; first | rfl | simp [c20Eval]

@[c20step] theorem c20Eval_isNotNone (c : C20Ctx σ) :
    ∀ e env, c20Eval c (.isNotNone e) env =
 (c20Eval c e env).bind fun v => .ok (.bool (!c20IsNone v)) := by
  intros; first | rfl | simp [c20Eval]

@[c20step] theorem c20Eval_isInstance (c : C20Ctx σ) :
    ∀ e cl env, c20Eval c (.isInstance e cl) env =

    (c20Eval c e env).bind fun v => (c20Eval c cl env).bind fun cv => c20IsInstanceV v cv := by
  intros; first | rfl | simp [c20Eval]

@[c20step] theorem c20Eval_isIn (c : C20Ctx σ) :
    ∀ a b env, c20Eval c (.isIn a b) env =

    (c20Eval c a env).bind fun av => (c20Eval c b env).bind fun bv => c20BoolRes (c20In av bv) := by
  intros; first | rfl | simp [c20Eval]

@[c20step] theorem c20Eval_notIn (c : C20Ctx σ) :
    ∀ a b env, c20Eval c (.notIn a b) env =

    (c20Eval c a env).bind fun av => (c20Eval c b env).bind fun bv =>
      c20BoolRes ((c20In av bv).map (!·)) := by
  intros; first | rfl | simp [c20Eval]

@[c20step] theorem c20Eval_boolAnd (c : C20Ctx σ) :
    ∀ a b env, c20Eval c (.boolAnd a b) env =

    (c20Eval c a env).bind fun av => c20Cond av (c20Eval c b env) (.ok av) := by
  intros; first | rfl | simp [c20Eval]

@[c20step] theorem c20Eval_notOp (c : C20Ctx σ) :
    ∀ a env, c20Eval c (.notOp a) env =
 (c20Eval c a env).bind fun av => c20BoolRes ((c20Truthy av).map (!·)) := by
  intros; first | rfl | simp [c20Eval]

@[c20step] theorem c20Eval_ifExp (c : C20Ctx σ) :
    ∀ cnd t e env, c20Eval c (.ifExp cnd t e) env =

    (c20Eval c cnd env).bind fun cv => c20Cond cv (c20Eval c t env) (c20Eval c e env) := by
  intros; first | rfl | simp [c20Eval]

@[c20step] theorem c20Eval_tuple (c : C20Ctx σ) :
    ∀ es env, c20Eval c (.tuple es) env =
 (c20EvalL c es env).bind fun vs => .ok (.tuple vs) := by
  intros; first | rfl | simp [c20Eval]

@[c20step] theorem c20Eval_emptyList (c : C20Ctx σ) :
    ∀ w1, c20Eval c (.emptyList) w1 =
 .ok (.list []) := by
  intros; first | rfl | simp [c20Eval]

@[c20step] theorem c20Eval_emptyDict (c : C20Ctx σ) :
    ∀ w1, c20Eval c (.emptyDict) w1 =
 .ok (.dict []) := by
  intros; first | rfl | simp [c20Eval]

@[c20step] theorem c20Eval_emptySet (c : C20Ctx σ) :
    ∀ w1, c20Eval c (.emptySet) w1 =
 .ok (.strSet []) := by
  intros; first | rfl | simp [c20Eval]

@[c20step] theorem c20Eval_frozensetOf (c : C20Ctx σ) :
    ∀ es env, c20Eval c (.frozensetOf es) env =
 (c20EvalL c es env).bind fun vs => c20StrSetOf c20SetOfList vs := by
  intros; first | rfl | simp [c20Eval]

@[c20step] theorem c20Eval_setComp (c : C20Ctx σ) :
    ∀ elt x iter env, c20Eval c (.setComp elt x iter) env =

    (c20Eval c iter env).bind fun iv =>
      (c20Comp (c20Eval c elt) x env iv).bind fun ws => c20StrSetOf dedupS ws := by
  intros; first | rfl | simp [c20Eval]

@[c20step] theorem c20Eval_frozensetGen (c : C20Ctx σ) :
    ∀ elt x iter env, c20Eval c (.frozensetGen elt x iter) env =

    (c20Eval c iter env).bind fun iv =>
      (c20Comp (c20Eval c elt) x env iv).bind fun ws => c20StrSetOf c20SetOfList ws := by
  intros; first | rfl | simp [c20Eval]

@[c20step] theorem c20Eval_listComp (c : C20Ctx σ) :
    ∀ elt x iter env, c20Eval c (.listComp elt x iter) env =

    (c20Eval c iter env).bind fun iv =>
      (c20Comp (c20Eval c elt) x env iv).bind fun ws => .ok (.list ws) := by
  intros; first | rfl | simp [c20Eval]

@[c20step] theorem c20Eval_fstr (c : C20Ctx σ) :
    ∀ lits vals env, c20Eval c (.fstr lits vals) env =
 (c20EvalL c vals env).bind fun vs => c20Fstr lits vs := by
  intros; first | rfl | simp [c20Eval]

@[c20step] theorem c20Eval_joinStr (c : C20Ctx σ) :
    ∀ sep e env, c20Eval c (.joinStr sep e) env =
 (c20Eval c e env).bind fun v => c20Join sep v := by
  intros; first | rfl | simp [c20Eval]

@[c20step] theorem c20Eval_notModelled (c : C20Ctx σ) :
    ∀ w1 w2, c20Eval c (.notModelled w1) w2 =
 .stuck := by
  intros; first | rfl | simp [c20Eval]

@[c20step] theorem c20EvalL_nil (c : C20Ctx σ) :
    ∀ w1, c20EvalL c [] w1 =
 .ok [] := by
  intros; first | rfl | simp [c20EvalL]

@[c20step] theorem c20EvalL_cons (c : C20Ctx σ) :
    ∀ e es env, c20EvalL c (e :: es) env =

    (c20Eval c e env).bind fun v => (c20EvalL c es env).bind fun vs => .ok (v :: vs) := by
  intros; first | rfl | simp [c20EvalL]

@[c20step] theorem c20ExecS_assign (c : C20Ctx σ) :
    ∀ x e env, c20ExecS c (.assign x e) env =

    match c20GenOf env e with
    | some (g, s, a) => c20Then (c20Eval c a env) (c20GenCall c x g s env)
    | Option.none => c20Then (c20Eval c e env) fun v => .next (c20Set x v env) := by
  intros; first | rfl | simp [c20ExecS]

@[c20step] theorem c20ExecS_assignTuple (c : C20Ctx σ) :
    ∀ xs e env, c20ExecS c (.assignTuple xs e) env =
 c20Then (c20Eval c e env) (c20AssignTuple xs env) := by
  intros; first | rfl | simp [c20ExecS]

@[c20step] theorem c20ExecS_augOr (c : C20Ctx σ) :
    ∀ x e env, c20ExecS c (.augOr x e) env =

    c20Then (c20Look x env) fun xv => c20Then (c20Eval c e env) fun ev =>
      c20Then (c20BitOr xv ev) fun r => .next (c20Set x r env) := by
  intros; first | rfl | simp [c20ExecS]

@[c20step] theorem c20ExecS_append (c : C20Ctx σ) :
    ∀ x e env, c20ExecS c (.append x e) env =

    c20Then (c20Look x env) fun xv => c20Then (c20Eval c e env) fun v => c20Append x env v xv := by
  intros; first | rfl | simp [c20ExecS]

@[c20step] theorem c20ExecS_extend (c : C20Ctx σ) :
    ∀ x e env, c20ExecS c (.extend x e) env =

    c20Then (c20Look x env) fun xv => c20Then (c20Eval c e env) fun v => c20Extend x env xv v := by
  intros; first | rfl | simp [c20ExecS]

@[c20step] theorem c20ExecS_setItem (c : C20Ctx σ) :
    ∀ x k v env, c20ExecS c (.setItem x k v) env =

    c20Then (c20Look x env) fun xv => c20Then (c20Eval c k env) fun kv =>
      c20Then (c20Eval c v env) fun vv => c20SetItem x env vv xv kv := by
  intros; first | rfl | simp [c20ExecS]

@[c20step] theorem c20ExecS_setdefaultAdd (c : C20Ctx σ) :
    ∀ x k v env, c20ExecS c (.setdefaultAdd x k v) env =

    c20Then (c20Look x env) fun xv => c20Then (c20Eval c k env) fun kv =>
      c20Then (c20Eval c v env) fun vv => c20SetdefaultAddV x env xv kv vv := by
  intros; first | rfl | simp [c20ExecS]

@[c20step] theorem c20ExecS_itemAdd (c : C20Ctx σ) :
    ∀ x k v env, c20ExecS c (.itemAdd x k v) env =

    c20Then (c20Look x env) fun xv => c20Then (c20Eval c k env) fun kv =>
      c20Then (c20Eval c v env) fun vv => c20ItemUpdate x env c20SetAdd xv kv vv := by
  intros; first | rfl | simp [c20ExecS]

@[c20step] theorem c20ExecS_itemRemove (c : C20Ctx σ) :
    ∀ x k v env, c20ExecS c (.itemRemove x k v) env =

    c20Then (c20Look x env) fun xv => c20Then (c20Eval c k env) fun kv =>
      c20Then (c20Eval c v env) fun vv => c20ItemUpdate x env c20SetRemove xv kv vv := by
  intros; first | rfl | simp [c20ExecS]

@[c20step] theorem c20ExecS_exprStmt (c : C20Ctx σ) :
    ∀ e env, c20ExecS c (.exprStmt e) env =
 c20Then (c20Eval c e env) fun _ => .next env := by
  intros; first | rfl | simp [c20ExecS]

@[c20step] theorem c20ExecS_ifThen (c : C20Ctx σ) :
    ∀ cnd body orelse env, c20ExecS c (.ifThen cnd body orelse) env =

    c20Then (c20Eval c cnd env) fun cv => c20Branch cv (c20Exec c body env) (c20Exec c orelse env) := by
  intros; first | rfl | simp [c20ExecS]

@[c20step] theorem c20ExecS_forIn (c : C20Ctx σ) :
    ∀ x iter body env, c20ExecS c (.forIn x iter body) env =

    if !c20IterOk body iter then .stuck else
    c20Then (c20Eval c iter env) fun iv =>
      match c20ForElems c iv with
      | some vs => c20ForIn (c20Exec c body) x vs env
      | Option.none => .stuck := by
  intros; first | rfl | simp [c20ExecS]

@[c20step] theorem c20ExecS_forItems (c : C20Ctx σ) :
    ∀ d w1 env, c20ExecS c (.forItems d w1) env =
 c20Then (c20Look d env) (c20ForItems env) := by
  intros; first | rfl | simp [c20ExecS]

@[c20step] theorem c20ExecS_whileTrue (c : C20Ctx σ) :
    ∀ body env, c20ExecS c (.whileTrue body) env =
 c20While (c20Exec c body) c.whileFuel env := by
  intros; first | rfl | simp [c20ExecS]

@[c20step] theorem c20ExecS_break_ (c : C20Ctx σ) :
    ∀ env, c20ExecS c (.break_) env =
 .brk env := by
  intros; first | rfl | simp [c20ExecS]

@[c20step] theorem c20ExecS_ret (c : C20Ctx σ) :
    ∀ e env, c20ExecS c (.ret e) env =
 c20Then (c20Eval c e env) fun v => .ret v := by
  intros; first | rfl | simp [c20ExecS]

@[c20step] theorem c20ExecS_raise_ (c : C20Ctx σ) :
    ∀ exc w1, c20ExecS c (.raise_ exc) w1 =
 if exc == "TypeError" then .err .typeError else .stuck := by
  intros; first | rfl | simp [c20ExecS]

@[c20step] theorem c20ExecS_assert_ (c : C20Ctx σ) :
    ∀ cnd env, c20ExecS c (.assert_ cnd) env =

    c20Then (c20Eval c cnd env) fun cv => c20Branch cv (.next env) (.err .assertion) := by
  intros; first | rfl | simp [c20ExecS]

@[c20step] theorem c20ExecS_defLocal (c : C20Ctx σ) :
    ∀ n ps body env, c20ExecS c (.defLocal n ps body) env =
 .next (c20Set n (.localFn ps body) env) := by
  intros; first | rfl | simp [c20ExecS]

@[c20step] theorem c20ExecS_importFrom (c : C20Ctx σ) :
    ∀ n q env, c20ExecS c (.importFrom n q) env =
 .next (c20Set n (.ref q) env) := by
  intros; first | rfl | simp [c20ExecS]

@[c20step] theorem c20ExecS_notModelled (c : C20Ctx σ) :
    ∀ w1 w2, c20ExecS c (.notModelled w1) w2 =
 .stuck := by
  intros; first | rfl | simp [c20ExecS]

@[c20step] theorem c20Exec_nil (c : C20Ctx σ) :
    ∀ env, c20Exec c [] env =
 .next env := by
  intros; first | rfl | simp [c20Exec]

@[c20step] theorem c20Exec_cons (c : C20Ctx σ) :
    ∀ s rest env, c20Exec c (s :: rest) env =

    match c20ExecS c s env with
    | .next env' => c20Exec c rest env'
    | o => o := by
  intros; first | rfl | simp [c20Exec]
end PV.Imp
