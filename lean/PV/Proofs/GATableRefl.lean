import PV.Proofs.GATableLink
/-
  C18 (T-gen), part 5: the REFLECTED product operators of the expected function table.
  Python calls `MultiVector.__rmul__ / __rxor__ / __ror__ / __rlshift__ / __rrshift__` when the
  LEFT operand of `* ^ | << >>` is not a `MultiVector` (a plain scalar).  Their bodies wrap the
  scalar, `MultiVector(other, self.space)`, and hand it to `_generic_product` as the LEFT factor,
  with the product class of the operator: `s OP B` is the model's product of `ofScalarZ s` and `B`
  IN THIS ORDER.  The order matters for the two contractions, which are not symmetric in their
  operands (`scalar_contraction_order_matters`).
-/
set_option linter.unusedSectionVars false
set_option linter.unusedVariables false
set_option linter.unusedSimpArgs false
namespace PV.GA.C18T

section
variable {R : Type} [Add R] [Mul R] [Neg R] [OfNat R 0] [OfNat R 1]

/-- the keys of a wrapped scalar (`{}` or `{0: c}`) are below every positive loop bound -/
theorem ofScalarZ_keys_lt (z : R → Bool) (c : R) (fuel : Nat) (h2 : 2 ≤ fuel) :
    ∀ k ∈ dkeys (ofScalarZ z c), k < fuel := by
  intro k hk
  unfold ofScalarZ at hk
  cases hz : z c <;> simp [hz] at hk
  omega

section RDunders
variable (Γ : C18Ctx R) (fuel : Nat) (callee : C18Callee R)

/-- `other OP self` for the five reflected products: `other` (a scalar) is wrapped as
`MultiVector(other, self.space)` and becomes the LEFT factor handed to `_generic_product`,
together with the class named in the body -/
theorem c18_rdunder (hs : C18HasInitScalar Γ callee) (f : C18Fn) (cn : String)
    (hf : f = c18X_MultiVector___rmul__ ∧ cn = "_GeometricProduct" ∨
      f = c18X_MultiVector___rxor__ ∧ cn = "_OuterProduct" ∨
      f = c18X_MultiVector___ror__ ∧ cn = "_InnerProduct" ∨
      f = c18X_MultiVector___rlshift__ ∧ cn = "_LeftContractionProduct" ∨
      f = c18X_MultiVector___rrshift__ ∧ cn = "_RightContractionProduct")
    (x : MVOf R) (c : R) :
    c18RunFn c18ExpectedModule Γ fuel callee f [.mv x, .coef c] []
      = callee "MultiVector._generic_product" [.mv (ofScalarZ Γ.z c), .mv x, .cls cn] [] := by
  have hinit := hs c
  rcases hf with ⟨rfl, rfl⟩ | ⟨rfl, rfl⟩ | ⟨rfl, rfl⟩ | ⟨rfl, rfl⟩ | ⟨rfl, rfl⟩ <;>
    simp only [c18RunFn, c18X_MultiVector___rmul__, c18X_MultiVector___rxor__,
      c18X_MultiVector___ror__, c18X_MultiVector___rlshift__, c18X_MultiVector___rrshift__,
      c18BindArgs, List.nil_append, List.cons_append, List.map_cons, List.map_nil] <;>
    c18sym [hinit] <;>
    cases callee "MultiVector._generic_product" _ [] <;> rfl

end RDunders

section Specs
variable (Γ : C18Ctx R) (fuel : Nat)

/-- `c * x`, `c ^ x`, `c | x`, `c << x`, `c >> x` for a scalar `c` on the left (the reflected
dunder methods): the model's products with the wrapped scalar as the LEFT factor -/
theorem tail_rmul (ok : C18Ok Γ fuel) (n : Nat) (hn : n ≤ 14) (x : MVOf R) (c : R) :
    c18Tail Γ fuel n "MultiVector.__rmul__" [.mv x, .coef c] []
      = .ok (.mv (genericProductZ Γ.z (wGeometric Γ.g) (ofScalarZ Γ.z c) x)) := by
  rw [c18Tail_call Γ fuel "MultiVector.__rmul__" 14 c18X_MultiVector___rmul__ rfl rfl
    (by c18first) n hn]
  rw [c18_rdunder Γ fuel _ (tail_init_scalar Γ fuel 15 (by omega)) _ "_GeometricProduct"
    (Or.inl ⟨rfl, rfl⟩) x c]
  exact tail_gp_geometric Γ fuel ok 15 (by omega) _ x (ofScalarZ_keys_lt Γ.z c fuel ok.fuel2)

theorem tail_rxor (ok : C18Ok Γ fuel) (n : Nat) (hn : n ≤ 16) (x : MVOf R) (c : R) :
    c18Tail Γ fuel n "MultiVector.__rxor__" [.mv x, .coef c] []
      = .ok (.mv (genericProductZ Γ.z (wOuter Γ.g) (ofScalarZ Γ.z c) x)) := by
  rw [c18Tail_call Γ fuel "MultiVector.__rxor__" 16 c18X_MultiVector___rxor__ rfl rfl
    (by c18first) n hn]
  rw [c18_rdunder Γ fuel _ (tail_init_scalar Γ fuel 17 (by omega)) _ "_OuterProduct"
    (Or.inr (Or.inl ⟨rfl, rfl⟩)) x c]
  exact tail_gp_outer Γ fuel ok 17 (by omega) _ x (ofScalarZ_keys_lt Γ.z c fuel ok.fuel2)

theorem tail_ror (ok : C18Ok Γ fuel) (n : Nat) (hn : n ≤ 18) (x : MVOf R) (c : R) :
    c18Tail Γ fuel n "MultiVector.__ror__" [.mv x, .coef c] []
      = .ok (.mv (genericProductZ Γ.z (wInner Γ.g) (ofScalarZ Γ.z c) x)) := by
  rw [c18Tail_call Γ fuel "MultiVector.__ror__" 18 c18X_MultiVector___ror__ rfl rfl
    (by c18first) n hn]
  rw [c18_rdunder Γ fuel _ (tail_init_scalar Γ fuel 19 (by omega)) _ "_InnerProduct"
    (Or.inr (Or.inr (Or.inl ⟨rfl, rfl⟩))) x c]
  exact tail_gp_inner Γ fuel ok 19 (by omega) _ x (ofScalarZ_keys_lt Γ.z c fuel ok.fuel2)

theorem tail_rlshift (ok : C18Ok Γ fuel) (n : Nat) (hn : n ≤ 20) (x : MVOf R) (c : R) :
    c18Tail Γ fuel n "MultiVector.__rlshift__" [.mv x, .coef c] []
      = .ok (.mv (genericProductZ Γ.z (wLeftContraction Γ.g) (ofScalarZ Γ.z c) x)) := by
  rw [c18Tail_call Γ fuel "MultiVector.__rlshift__" 20 c18X_MultiVector___rlshift__ rfl rfl
    (by c18first) n hn]
  rw [c18_rdunder Γ fuel _ (tail_init_scalar Γ fuel 21 (by omega)) _ "_LeftContractionProduct"
    (Or.inr (Or.inr (Or.inr (Or.inl ⟨rfl, rfl⟩)))) x c]
  exact tail_gp_left Γ fuel ok 21 (by omega) _ x (ofScalarZ_keys_lt Γ.z c fuel ok.fuel2)

theorem tail_rrshift (ok : C18Ok Γ fuel) (n : Nat) (hn : n ≤ 22) (x : MVOf R) (c : R) :
    c18Tail Γ fuel n "MultiVector.__rrshift__" [.mv x, .coef c] []
      = .ok (.mv (genericProductZ Γ.z (wRightContraction Γ.g) (ofScalarZ Γ.z c) x)) := by
  rw [c18Tail_call Γ fuel "MultiVector.__rrshift__" 22 c18X_MultiVector___rrshift__ rfl rfl
    (by c18first) n hn]
  rw [c18_rdunder Γ fuel _ (tail_init_scalar Γ fuel 23 (by omega)) _ "_RightContractionProduct"
    (Or.inr (Or.inr (Or.inr (Or.inr ⟨rfl, rfl⟩)))) x c]
  exact tail_gp_right Γ fuel ok 23 (by omega) _ x (ofScalarZ_keys_lt Γ.z c fuel ok.fuel2)

end Specs

end
end PV.GA.C18T
