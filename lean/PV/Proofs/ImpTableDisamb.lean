import PV.Proofs.ImpTableFuse
import Mathlib.Data.List.Perm.Basic
/-
  C20 (T-gen): `disambiguate_identifiers` and `disambiguate_and_fuse` as the regenerated table has
  them ARE `disambiguateG` / `disambiguateAndFuseG`.
-/
set_option linter.unusedSimpArgs false

namespace PV.Imp
open PV PV.Generated

variable {σ : Type}

/-- the returned substitution `{name: Variable(new name)}` as an interpreter value -/
def encE (m : List (String × String)) : List (String × C20Val σ) :=
  m.map fun p => (p.1, .expr (.var p.2))

theorem exprDict_encE : ∀ m : List (String × String),
    c20ExprDict (encE (σ := σ) m) = some (m.map fun p => (p.1, Expr.var p.2))
  | [] => rfl
  | (a, b) :: m => by
    have ih := exprDict_encE m
    simp only [encE, List.map_cons, c20ExprDict] at ih ⊢
    simp [ih]

theorem dictSet_fresh (k : String) (v : C20Val σ) : ∀ kvs : List (String × C20Val σ),
    k ∉ kvs.map (·.1) → c20DictSet k v kvs = kvs ++ [(k, v)]
  | [], _ => rfl
  | (a, b) :: kvs, h => by
    have hne : a ≠ k := fun e => h (by simp [e])
    have ih := dictSet_fresh k v kvs (fun hk => h (by simp [hk]))
    simp [c20DictSet, hne, ih]

/-- the generator state after the calls `unclash` makes -/
def unclashSt (G : NameGen σ) : σ → List String → σ
  | s, [] => s
  | s, c :: cs =>
    match G.call s c with
    | none => s
    | some (_, s') => unclashSt G s' cs

/-- the frame of `disambiguate_identifiers` from the loop on -/
abbrev disEnv (va vb vf vg : C20Val σ) (ia ib : List String) (vu : C20Val σ) (s : σ)
    (vv : C20Val σ) (kvs : List (String × C20Val σ)) (j1 j2 v1 v2 v3 : C20Val σ) : C20Env σ :=
  [("statements_a", va), ("statements_b", vb), ("should_disambiguate_name", vf),
   ("get_all_used_identifiers", vg), ("id_a", .strSet ia), ("id_b", .strSet ib),
   ("UniqueNameGenerator", vu), ("vng", .gen s), ("var", vv), ("subst_b", .dict kvs),
   ("clash", j1), ("unclash", j2), ("SubstitutionMapper", v1), ("make_subst_func", v2),
   ("subst_map", v3)]

/-- the loop over the clashing names: if one pass asks the generator exactly for the names that
pass the filter and records `name ↦ Variable(new name)`, the loop does what `unclash` does on
the names that pass the filter -/
theorem disamb_loop (G : NameGen σ) (filter : String → Bool) (f : C20Env σ → C20Out σ)
    (va vb vf vg : C20Val σ) (ia ib : List String) (vu vv v1 v2 v3 : C20Val σ)
    (hf : ∀ (c : String) (s : σ) (kvs : List (String × C20Val σ)) (j2 : C20Val σ),
      f (disEnv va vb vf vg ia ib vu s vv kvs (.str c) j2 v1 v2 v3) =
        if filter c then
          match G.call s c with
          | none => .err .noName
          | some (n, s') =>
            .next (disEnv va vb vf vg ia ib vu s' vv (c20DictSet c (.expr (.var n)) kvs) (.str c)
              (.str n) v1 v2 v3)
        else .next (disEnv va vb vf vg ia ib vu s vv kvs (.str c) j2 v1 v2 v3)) :
    ∀ (xs : List String) (s : σ) (m0 : List (String × String)) (j1 j2 : C20Val σ),
      xs.Nodup → (∀ x ∈ xs, x ∉ m0.map (·.1)) →
      c20ForIn f "clash" (xs.map .str) (disEnv va vb vf vg ia ib vu s vv (encE m0) j1 j2 v1 v2 v3) =
        match unclash G s (xs.filter filter) with
        | none => .err .noName
        | some m =>
          .next (disEnv va vb vf vg ia ib vu (unclashSt G s (xs.filter filter)) vv (encE (m0 ++ m))
            (c20LastD j1 (xs.map .str)) (c20LastD j2 (m.map fun p => .str p.2)) v1 v2 v3)
  | [], s, m0, j1, j2, _, _ => by simp [c20ForIn, unclash, unclashSt, c20LastD]
  | c :: xs, s, m0, j1, j2, hnd, hfresh => by
    have hnd' := (List.nodup_cons.1 hnd)
    simp only [List.map_cons, c20ForIn, disEnv, c20Set, String.reduceEq, if_false, if_true]
    rw [hf]
    by_cases hc : filter c = true
    · simp only [hc, if_true, List.filter_cons_of_pos, unclash, unclashSt]
      cases hg : G.call s c with
      | none => rfl
      | some p =>
        obtain ⟨n, s'⟩ := p
        have hk : c ∉ (encE (σ := σ) m0).map (·.1) := by
          simpa [encE, List.map_map, Function.comp_def] using hfresh c (List.mem_cons_self ..)
        have hset : c20DictSet c (.expr (.var n)) (encE (σ := σ) m0) = encE (m0 ++ [(c, n)]) := by
          rw [dictSet_fresh c _ _ hk]; simp [encE]
        simp only [hset]
        rw [disamb_loop G filter f va vb vf vg ia ib vu vv v1 v2 v3 hf xs s' (m0 ++ [(c, n)]) _ _
          hnd'.2 (by
            intro x hx
            have h1 := hfresh x (List.mem_cons_of_mem _ hx)
            have h2 : x ≠ c := fun e => hnd'.1 (e ▸ hx)
            simpa [h2] using h1)]
        cases unclash G s' (xs.filter filter) with
        | none => rfl
        | some m => simp [c20LastD]
    · have hc' : filter c = false := by simpa using hc
      simp only [hc', Bool.false_eq_true, if_false, List.filter_cons_of_neg, not_false_eq_true]
      rw [disamb_loop G filter f va vb vf vg ia ib vu vv v1 v2 v3 hf xs s m0 _ _ hnd'.2
        (fun x hx => hfresh x (List.mem_cons_of_mem _ hx))]
      cases unclash G s (xs.filter filter) with
      | none => rfl
      | some m => simp [c20LastD]

/-- `[stmt.map_expressions(subst_map) for stmt in statements_b]` -/
theorem mapElems_mapExprs (G : NameGen σ) (order) (wf m : Nat) (hm : 3 ≤ m) (cls : Option String)
    (env : C20Env σ) (f : Expr → Expr) (h : c20Get "subst_map" env = some (.exprMap f))
    (hs : "subst_map" ≠ "stmt") : ∀ B : List Stmt,
    c20MapElems (c20Eval (cxCur G order wf (c20Run (cfgCur G order wf) m) cls)
        (.meth (.var "stmt") "map_expressions" [.var "subst_map"] [] [])) "stmt" env
        (B.map .stmt) = .ok ((B.map (Stmt.mapExprs f)).map .stmt)
  | [] => rfl
  | b :: B => by
    simp only [List.map_cons, c20MapElems, mapElems_mapExprs G order wf m hm cls env f h hs B]
    c20_run [h, mapExprs_method_ge G order wf m hm]

/-- the order in which the model is told the clashing names were visited: `ord` applied to the
clash set, restricted to the names that pass the filter -/
def clashOrder (ord : List String → List String) (filter : String → Bool) (A B : List Stmt) :
    List String :=
  match usedIdentifiers A, usedIdentifiers B with
  | .ok a, .ok b => (ord (interS a b)).filter filter
  | _, _ => []

/-- **`disambiguate_identifiers` of the current source is `disambiguateG`.**  The body read from
the working tree — identifier sets of both streams by `get_all_used_identifiers`, the generator
seeded with their UNION, the loop over their INTERSECTION that asks the generator for a new name
for every clash that passes the filter and records `name ↦ Variable(new name)`, the substitution
mapper built from that dict, `map_expressions` on every statement of the second stream — run by the
table interpreter returns what the model returns, or raises what it raises: for every generator,
every filter, both streams, and every order `ord` in which a `for` statement may visit a set (the
model is given that order restricted to the names passing the filter). -/
theorem disamb_fn_eq_table (G : NameGen σ) (ord : List String → List String)
    (hperm : ∀ xs, (ord xs).Perm xs) (wf n : Nat) (cls : Option String)
    (filter : String → Bool) (A B : List Stmt) :
    c20CallFn (cxCur G ord wf (c20Run (cfgCur G ord wf) (n + 5)) cls) c20Fn_disambiguate_identifiers
      [.list (A.map .stmt), .list (B.map .stmt), .strPred filter] [] [] =
      C20Res.ofExcept (fun r => .tuple [.list (r.1.map .stmt), .dict (encE r.2)])
        (disambiguateG G filter (clashOrder ord filter A B) A B) := by
  simp only [c20CallFn, c20Fn_disambiguate_identifiers]
  cases hA : usedIdentifiers A with
  | error e =>
    c20_run [used_fn_ge G ord wf (n + 4) (by omega), hA, C20Res.ofExcept]
    simp [disambiguateG, hA, bind, Except.bind]
  | ok ia =>
    cases hB : usedIdentifiers B with
    | error e =>
      c20_run [used_fn_ge G ord wf (n + 4) (by omega), hA, hB, C20Res.ofExcept]
      simp [disambiguateG, hA, hB, bind, Except.bind]
    | ok ib =>
      c20_run [used_fn_ge G ord wf (n + 4) (by omega), hA, hB, C20Res.ofExcept]
      have hnd : (ord (interS ia ib)).Nodup := by
        rw [(hperm _).nodup_iff]
        exact (usedIdentifiers_spec hA).1.filter _
      have hord : ((ord (interS ia ib)).filter filter).isPerm ((interS ia ib).filter filter) = true :=
        List.isPerm_iff.2 ((hperm _).filter _)
      rw [show (C20Val.dict [] : C20Val σ) = .dict (encE []) from rfl,
        disamb_loop G filter _ _ _ _ _ _ _ _ _ _ _ _ ?hf _ _ _ _ _ hnd (by simp)]
      case hf =>
        intro c s kvs j2
        cases hc : filter c
        · c20_run [hc]
        · cases hg : G.call s c with
          | none => c20_run [hc, hg]
          | some p =>
            obtain ⟨nm, s'⟩ := p
            c20_run [hc, hg]
      simp only [disambiguateG, hA, hB, clashOrder, bind, Except.bind, hord, Bool.not_true,
        Bool.false_eq_true, if_false]
      cases hu : unclash G (G.init (unionS ia ib)) ((ord (interS ia ib)).filter filter) with
      | none => rfl
      | some m =>
        c20_run [exprDict_encE, disEnv]
        c20_run [c20Comp, fun env h => mapElems_mapExprs G ord wf (n + 4) (by omega) none env
          (fun e => (substM { byName := List.map (fun p => (p.1, Expr.var p.2)) m } e).1) h
          (by decide)]
        rfl

/-- the same with the default filter (`should_disambiguate_name=None`: the function defines
`def should_disambiguate_name(name): return True` itself) -/
theorem disamb_fn_default_eq_table (G : NameGen σ) (ord : List String → List String)
    (hperm : ∀ xs, (ord xs).Perm xs) (wf n : Nat) (cls : Option String)
    (A B : List Stmt) :
    c20CallFn (cxCur G ord wf (c20Run (cfgCur G ord wf) (n + 5)) cls) c20Fn_disambiguate_identifiers
      [.list (A.map .stmt), .list (B.map .stmt)] [] [] =
      C20Res.ofExcept (fun r => .tuple [.list (r.1.map .stmt), .dict (encE r.2)])
        (disambiguateG G (fun _ => true) (clashOrder ord (fun _ => true) A B) A B) := by
  simp only [c20CallFn, c20Fn_disambiguate_identifiers]
  cases hA : usedIdentifiers A with
  | error e =>
    c20_run [used_fn_ge G ord wf (n + 4) (by omega), hA, C20Res.ofExcept]
    simp [disambiguateG, hA, bind, Except.bind]
  | ok ia =>
    cases hB : usedIdentifiers B with
    | error e =>
      c20_run [used_fn_ge G ord wf (n + 4) (by omega), hA, hB, C20Res.ofExcept]
      simp [disambiguateG, hA, hB, bind, Except.bind]
    | ok ib =>
      c20_run [used_fn_ge G ord wf (n + 4) (by omega), hA, hB, C20Res.ofExcept]
      have hnd : (ord (interS ia ib)).Nodup := by
        rw [(hperm _).nodup_iff]
        exact (usedIdentifiers_spec hA).1.filter _
      have hord : ((ord (interS ia ib)).filter fun _ => true).isPerm ((interS ia ib).filter fun _ => true) = true :=
        List.isPerm_iff.2 ((hperm _).filter _)
      rw [show (C20Val.dict [] : C20Val σ) = .dict (encE []) from rfl,
        disamb_loop G (fun _ => true) _ _ _ _ _ _ _ _ _ _ _ _ ?hf _ _ _ _ _ hnd (by simp)]
      case hf =>
        intro c s kvs j2
        cases hg : G.call s c with
        | none => c20_run [hg]
        | some p =>
          obtain ⟨nm, s'⟩ := p
          c20_run [hg]
      simp only [disambiguateG, hA, hB, clashOrder, bind, Except.bind, hord, Bool.not_true,
        Bool.false_eq_true, if_false]
      cases hu : unclash G (G.init (unionS ia ib)) ((ord (interS ia ib)).filter fun _ => true) with
      | none => rfl
      | some m =>
        c20_run [exprDict_encE, disEnv]
        c20_run [c20Comp, fun env h => mapElems_mapExprs G ord wf (n + 4) (by omega) none env
          (fun e => (substM { byName := List.map (fun p => (p.1, Expr.var p.2)) m } e).1) h
          (by decide)]
        rfl

/-- **`disambiguate_and_fuse` of the current source is `disambiguateAndFuseG`**: the second stream
is disambiguated first, the RESULT is fused with the first stream, and the three results are
returned in the order `(fused, subst_b, old_b_id_to_new_b_id)`. -/
theorem disfuse_fn_eq_table (G : NameGen σ) (hG : G.SeededBySet) (ord : List String → List String)
    (hperm : ∀ xs, (ord xs).Perm xs) (wf n : Nat) (cls : Option String)
    (filter : String → Bool) (A B : List Stmt) :
    c20CallFn (cxCur G ord wf (c20Run (cfgCur G ord wf) (n + 6)) cls) c20Fn_disambiguate_and_fuse
      [.list (A.map .stmt), .list (B.map .stmt), .strPred filter] [] [] =
      C20Res.ofExcept
        (fun r => .tuple [.list (r.1.map .stmt), .dict (encE r.2.1), .dict (encM r.2.2)])
        (disambiguateAndFuseG G filter (clashOrder ord filter A B) A B) := by
  simp only [c20CallFn, c20Fn_disambiguate_and_fuse]
  c20_run [disamb_fn_eq_table G ord hperm wf n]
  simp only [disambiguateAndFuseG, bind, Except.bind]
  cases hd : disambiguateG G filter (clashOrder ord filter A B) A B with
  | error e => c20_run [C20Res.ofExcept]
  | ok r =>
    obtain ⟨B', sub⟩ := r
    c20_run [C20Res.ofExcept, fuse_fn_eq_table G hG ord wf (n + 4)]
    cases hf : fuseG G A B' with
    | error e => c20_run [C20Res.ofExcept]
    | ok q =>
      obtain ⟨fused, m⟩ := q
      c20_run [C20Res.ofExcept]
      rfl

end PV.Imp
