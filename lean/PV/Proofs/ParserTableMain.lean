import PV.Proofs.ParserTable
/-
  C07, T-gen (continued): `parse_prefix` with `parse_terminal`, `parse_arglist`, the induction on
  the fuel and `Parser.__call__`.
-/
set_option linter.unusedSimpArgs false
namespace PV

/-- evaluate the `if pstate.is_next(…) … elif …` chain of `parse_prefix` on a concrete token -/
macro "c07_pfind" : tactic => `(tactic|
  simp [c07FindPre, c07ModelPrefixes, C07Tag.matches, C07Tok.matches, c07Pre_colon, c07Pre_times,
    c07Pre_plus, c07Pre_minus, c07Pre_not, c07Pre_bitwisenot, c07Pre_openpar, c07Pre_openbracket])

set_option hygiene false in
/-- reduce both sides to the body of a prefix row -/
macro "c07_pre" row:ident tok:term:max : tactic => `(tactic| (
  obtain ⟨ihE, ihP, ihL, ihA⟩ := ih
  have hfind : c07FindPre (.sym $tok) c07ModelTable.prefixes = some $row := by c07_pfind
  simp only [parsePrefix, c07PrefixT, hfind]
  simp only [$row:ident]))

theorem c07P_colon {P : ParserPrec} {f : Nat} (ih : c07Agree P f) (rest : List Tok) :
    c07PrefixT c07ModelTable P (f+1) (.sym ":" :: rest) = parsePrefix P (f+1) (.sym ":" :: rest) := by
  c07_pre c07Pre_colon ":"
  cases hp : parseExpr P f P.slice rest with
  | error e => cases e <;> c07_body
  | ok v => obtain ⟨nx, rest'⟩ := v; c07_body

theorem c07P_times {P : ParserPrec} {f : Nat} (ih : c07Agree P f) (rest : List Tok) :
    c07PrefixT c07ModelTable P (f+1) (.sym "*" :: rest) = parsePrefix P (f+1) (.sym "*" :: rest) := by
  c07_pre c07Pre_times "*"
  c07_body

theorem c07P_plus {P : ParserPrec} {f : Nat} (ih : c07Agree P f) (rest : List Tok) :
    c07PrefixT c07ModelTable P (f+1) (.sym "+" :: rest) = parsePrefix P (f+1) (.sym "+" :: rest) := by
  c07_pre c07Pre_plus "+"
  cases hp : parseExpr P f P.unary rest with
  | error e => c07_body
  | ok v => obtain ⟨e, rest'⟩ := v; c07_body

theorem c07P_minus {P : ParserPrec} {f : Nat} (ih : c07Agree P f) (rest : List Tok) :
    c07PrefixT c07ModelTable P (f+1) (.sym "-" :: rest) = parsePrefix P (f+1) (.sym "-" :: rest) := by
  c07_pre c07Pre_minus "-"
  cases hp : parseExpr P f P.unary rest with
  | error e => c07_body
  | ok v =>
    obtain ⟨e, rest'⟩ := v
    cases hn : negE e with
    | error er => cases er <;> c07_body
    | ok n => c07_body

theorem c07P_not {P : ParserPrec} {f : Nat} (ih : c07Agree P f) (rest : List Tok) :
    c07PrefixT c07ModelTable P (f+1) (.sym "not" :: rest) = parsePrefix P (f+1) (.sym "not" :: rest) := by
  c07_pre c07Pre_not "not"
  cases hp : parseExpr P f P.unary rest with
  | error e => c07_body
  | ok v => obtain ⟨e, rest'⟩ := v; c07_body

theorem c07P_bitwisenot {P : ParserPrec} {f : Nat} (ih : c07Agree P f) (rest : List Tok) :
    c07PrefixT c07ModelTable P (f+1) (.sym "~" :: rest) = parsePrefix P (f+1) (.sym "~" :: rest) := by
  c07_pre c07Pre_bitwisenot "~"
  cases hp : parseExpr P f P.unary rest with
  | error e => c07_body
  | ok v => obtain ⟨e, rest'⟩ := v; c07_body

theorem c07P_openpar {P : ParserPrec} {f : Nat} (ih : c07Agree P f) (rest : List Tok) :
    c07PrefixT c07ModelTable P (f+1) (.sym "(" :: rest) = parsePrefix P (f+1) (.sym "(" :: rest) := by
  c07_pre c07Pre_openpar "("
  by_cases hc : isSym ")" rest = true
  · c07_body
  · cases hp : parseExpr P f 0 rest with
    | error e => c07_body
    | ok v =>
      obtain ⟨e, rest'⟩ := v
      by_cases hc2 : isSym ")" rest' = true
      · cases e <;> c07_body
      · c07_body

theorem c07P_openbracket {P : ParserPrec} {f : Nat} (ih : c07Agree P f) (rest : List Tok) :
    c07PrefixT c07ModelTable P (f+1) (.sym "[" :: rest) = parsePrefix P (f+1) (.sym "[" :: rest) := by
  c07_pre c07Pre_openbracket "["
  by_cases hc : isSym "]" rest = true
  · c07_body
  · cases hp : parseExpr P f 0 rest with
    | error e => c07_body
    | ok v =>
      obtain ⟨e, rest'⟩ := v
      by_cases hc2 : isSym "]" rest' = true
      · cases e <;> c07_body
      · c07_body

def c07PreSyms : List String := [":", "*", "+", "-", "not", "~", "(", "["]

/-- tokens that start no prefix form go to `parse_terminal` -/
theorem c07P_terminal {P : ParserPrec} {f : Nat} (tok : Tok) (rest : List Tok)
    (h : ∀ s, s ∈ c07PreSyms → tok ≠ .sym s) :
    c07PrefixT c07ModelTable P (f+1) (tok :: rest) = parsePrefix P (f+1) (tok :: rest) := by
  cases tok with
  | sym s =>
    have hs : s ∉ c07PreSyms := fun hm => h s hm rfl
    simp only [c07PreSyms, List.mem_cons, List.not_mem_nil, or_false, not_or] at hs
    obtain ⟨h1, h2, h3, h4, h5, h6, h7, h8⟩ := hs
    have hfind : c07FindPre (.sym s) c07ModelTable.prefixes = none := by
      c07_pfind
      simp [Ne.symm h1, Ne.symm h2, Ne.symm h3, Ne.symm h4, Ne.symm h5, Ne.symm h6, Ne.symm h7,
        Ne.symm h8]
    simp only [c07PrefixT, hfind]
    by_cases hif : s = "if"
    · subst hif
      simp [parsePrefix, c07Terminal, c07ModelTerminals, C07Tag.matches, C07Tok.matches,
        c07TokText, bind, Except.bind, pure, Except.pure]
    · unfold parsePrefix
      split <;> simp_all [c07Terminal, c07ModelTerminals, C07Tag.matches, C07Tok.matches,
        c07TokText, bind, Except.bind, pure, Except.pure, throw, throwThe, MonadExceptOf.throw,
        Ne.symm hif]
  | _ =>
    simp [c07PrefixT, parsePrefix, c07FindPre, c07ModelPrefixes, C07Tag.matches, C07Tok.matches,
      c07Pre_colon, c07Pre_times, c07Pre_plus, c07Pre_minus, c07Pre_not, c07Pre_bitwisenot,
      c07Pre_openpar, c07Pre_openbracket, c07Terminal, c07ModelTerminals, c07TokText,
      bind, Except.bind, pure, Except.pure, throw, throwThe, MonadExceptOf.throw]

theorem c07P_step {P : ParserPrec} {f : Nat} (ih : c07Agree P f) (ts : List Tok) :
    c07PrefixT c07ModelTable P (f+1) ts = parsePrefix P (f+1) ts := by
  cases ts with
  | nil => simp [c07PrefixT, parsePrefix]
  | cons tok rest =>
    by_cases hs : ∃ s, s ∈ c07PreSyms ∧ tok = .sym s
    · obtain ⟨s, hm, rfl⟩ := hs
      simp only [c07PreSyms, List.mem_cons, List.not_mem_nil, or_false] at hm
      rcases hm with h | h | h | h | h | h | h | h <;> subst h
      · exact c07P_colon ih rest
      · exact c07P_times ih rest
      · exact c07P_plus ih rest
      · exact c07P_minus ih rest
      · exact c07P_not ih rest
      · exact c07P_bitwisenot ih rest
      · exact c07P_openpar ih rest
      · exact c07P_openbracket ih rest
    · exact c07P_terminal tok rest (fun s hm he => hs ⟨s, hm, he⟩)

theorem c07E_step {P : ParserPrec} {f : Nat} (ih : c07Agree P f) (m : Nat) (ts : List Tok) :
    c07ExprT c07ModelTable P (f+1) m ts = parseExpr P (f+1) m ts := by
  simp only [c07ExprT, parseExpr, ih.2.1, ih.2.2.1]

/-- the part of `parse_arglist` after the optional comma, on the tokens `t1 :: rest1` -/
theorem c07A_tail {P : ParserPrec} {f : Nat}
    (ihE : ∀ m ts, c07ExprT c07ModelTable P f m ts = parseExpr P f m ts)
    (ihA : ∀ ts a kn kv ca, c07ArglistT c07ModelTable P f ts a kn kv ca = parseArglist P f ts a kn kv ca)
    (t1 : Tok) (rest1 : List Tok) (a : List Expr) (kn : List String) (kv : List Expr) (g : Bool) :
    (if isSym ")" [t1] = true then pure ((a, kn, kv), rest1)
      else if g = true then throw PErr.parse
      else if (C07Tok.identifier.matches t1 && match rest1 with
                | t2 :: _ => isSym "=" [t2]
                | [] => false) = true then
        match c07TokText t1, rest1 with
        | some k, _ :: rest2 => do
          let x ← c07ExprT c07ModelTable P f P.comma rest2
          c07ArglistT c07ModelTable P f x.snd a
            (if kn.contains k = true then
                (kn, List.map (fun p => if (p.fst == k) = true then x.fst else p.snd) (kn.zip kv))
              else (kn ++ [k], kv ++ [x.fst])).fst
            (if kn.contains k = true then
                (kn, List.map (fun p => if (p.fst == k) = true then x.fst else p.snd) (kn.zip kv))
              else (kn ++ [k], kv ++ [x.fst])).snd
            true
        | _, _ => throw PErr.noClaim
      else if (!kn.isEmpty) = true then throw PErr.parse
      else do
        let x ← c07ExprT c07ModelTable P f P.comma (t1 :: rest1)
        c07ArglistT c07ModelTable P f x.snd (a ++ [x.fst]) kn kv true) =
    (if isSym ")" (t1 :: rest1) = true then pure ((a, kn, kv), (t1 :: rest1).tail)
      else if g = true then throw PErr.parse
      else match t1 :: rest1 with
        | Tok.ident k :: Tok.sym "=" :: rest => do
          let x ← parseExpr P f P.comma rest
          parseArglist P f x.snd a
            (if kn.contains k = true then
                (kn, List.map (fun p => if (p.fst == k) = true then x.fst else p.snd) (kn.zip kv))
              else (kn ++ [k], kv ++ [x.fst])).fst
            (if kn.contains k = true then
                (kn, List.map (fun p => if (p.fst == k) = true then x.fst else p.snd) (kn.zip kv))
              else (kn ++ [k], kv ++ [x.fst])).snd
            true
        | _ =>
          if (!kn.isEmpty) = true then throw PErr.parse
          else do
            let x ← parseExpr P f P.comma (t1 :: rest1)
            parseArglist P f x.snd (a ++ [x.fst]) kn kv true) := by
  rw [c07_isSym_cons ")" t1 rest1]
  by_cases hc : isSym ")" [t1] = true
  · simp [hc]
  · simp only [hc, if_false, Bool.false_eq_true]
    cases g
    · simp only [Bool.false_eq_true, if_false, ihE, ihA]
      cases t1 with
      | ident k =>
        cases rest1 with
        | nil => simp [C07Tok.matches]
        | cons t2 rest2 =>
          cases t2 with
          | sym s =>
            by_cases hs : s = "="
            · subst hs; simp [C07Tok.matches, isSym, c07TokText]
            · simp [C07Tok.matches, isSym, c07TokText, hs]
          | _ => simp [C07Tok.matches, isSym]
      | _ => simp [C07Tok.matches]
    · simp

theorem c07A_step {P : ParserPrec} {f : Nat} (ih : c07Agree P f) (ts : List Tok) (a : List Expr)
    (kn : List String) (kv : List Expr) (ca : Bool) :
    c07ArglistT c07ModelTable P (f+1) ts a kn kv ca = parseArglist P (f+1) ts a kn kv ca := by
  obtain ⟨ihE, ihP, ihL, ihA⟩ := ih
  cases ts with
  | nil => simp [c07ArglistT, parseArglist]
  | cons tok rest =>
    simp only [c07ArglistT, parseArglist, c07M_arglist, c07ModelArglist, c07M_exprDefault,
      C07Tag.matches, c07_symMatch, c07_isSym_cons "," tok rest, C07Lvl.get, C07Prec.get]
    cases hsc : isSym "," [tok]
    · simp only [Bool.false_and, Bool.false_eq_true, if_false, Bool.not_false, Bool.true_and,
        List.isEmpty_cons]
      exact c07A_tail ihE ihA tok rest a kn kv ca
    · cases ca
      · simp
      · simp only [Bool.not_true, Bool.and_false, Bool.false_eq_true, if_false, if_true,
          List.tail_cons, Bool.not_true, Bool.false_and]
        cases rest with
        | nil => simp
        | cons t1 rest1 =>
          simp only [List.isEmpty_cons, Bool.false_eq_true, if_false]
          exact c07A_tail ihE ihA t1 rest1 a kn kv false

/-- **the table interpreter on the model's table is the hand-written parser**, for every fuel -/
theorem c07Agree_all (P : ParserPrec) : ∀ f, c07Agree P f
  | 0 => by
    refine ⟨?_, ?_, ?_, ?_⟩ <;> intros <;> simp [c07ExprT, c07PrefixT, c07LoopT, c07ArglistT,
      parseExpr, parsePrefix, postfixLoop, parseArglist]
  | f + 1 =>
    have ih := c07Agree_all P f
    ⟨c07E_step ih, c07P_step ih, c07L_step ih, c07A_step ih⟩

theorem c07TopT_model (P : ParserPrec) (m : Nat) (ts : List Tok) :
    c07TopT c07ModelTable P m ts = parseTop P m ts := by
  unfold c07TopT parseTop
  rw [(c07Agree_all P _).1]
  split <;> simp_all [c07ModelTable]

end PV
