import PV.Proofs.SyntaxLexRender
import PV.Proofs.SyntaxPrint
/-
  C06.  Adjacency algebra for printed forms.  `Good ps`: a non-empty piece list that is lexed
  piece by piece whatever the printer puts after it (`followers`) and that starts with a
  character that may follow a space, `*`, `=`, an opening bracket … (`startChar`).  Good forms
  are closed under the separators, prefixes and suffixes the stringifier uses.
-/
set_option linter.unusedSimpArgs false
namespace PV.Lexer
open PV


/-! ### adjacency algebra -/

theorem nextCharN_append {x : List Piece} (y : List Piece) (nx : Option Char) :
    nextCharN (x ++ y) nx = nextCharN x (nextCharN y nx) := by
  cases x <;> rfl

theorem adjOkN_append : ∀ (x y : List Piece) (nx : Option Char),
    adjOkN (x ++ y) nx = (adjOkN x (nextCharN y nx) && adjOkN y nx)
  | [], y, nx => by simp [adjOkN]
  | p :: x, y, nx => by
    simp only [List.cons_append, adjOkN, adjOkN_append x y nx, nextCharN_append, Bool.and_assoc]

/-- what the printer puts after a complete sub-form -/
def followers : List (Option Char) :=
  [none, some ' ', some ')', some ']', some ',', some ':', some '*', some '(', some '[']

/-- first characters of printed forms -/
def startChar (c : Char) : Bool :=
  isIdStart c || isDigit c || c == '(' || c == '[' || c == '~' || c == '-' || c == ':'

/-- a printed (sub-)form: non-empty, lexed piece by piece whatever follower comes after it, and
starting with a character that can follow a space, `*`, `=` … -/
structure Good (ps : List Piece) : Prop where
  ne : ps ≠ []
  adj : ∀ nx ∈ followers, adjOkN ps nx = true
  start : ∃ c, nextCharN ps none = some c ∧ startChar c = true

theorem nextCharN_of_ne {ps : List Piece} (h : ps ≠ []) (a b : Option Char) :
    nextCharN ps a = nextCharN ps b := by
  cases ps with
  | nil => exact absurd rfl h
  | cons _ _ => rfl

/-- a separator: starts with a follower character, may be followed by any start character -/
structure SepOk (sep : List Piece) : Prop where
  ne : sep ≠ []
  first : nextCharN sep none ∈ followers
  adj : ∀ c, startChar c = true → adjOkN sep (some c) = true

theorem Good.sep {x sep y : List Piece} (hx : Good x) (hs : SepOk sep) (hy : Good y) :
    Good (x ++ sep ++ y) := by
  obtain ⟨c, hc, hst⟩ := hy.start
  refine ⟨by simp [hx.ne], fun nx hnx => ?_, ?_⟩
  · rw [List.append_assoc, adjOkN_append, adjOkN_append]
    have h1 : nextCharN (sep ++ y) nx = nextCharN sep none := by
      rw [nextCharN_append]; exact nextCharN_of_ne hs.ne _ _
    have h2 : nextCharN y nx = some c := by rw [nextCharN_of_ne hy.ne nx none]; exact hc
    rw [h1, h2, hx.adj _ hs.first, hs.adj c hst, hy.adj nx hnx]; rfl
  · obtain ⟨d, hd, hds⟩ := hx.start
    refine ⟨d, ?_, hds⟩
    rw [List.append_assoc, nextCharN_append, nextCharN_of_ne hx.ne _ none]; exact hd

/-- a prefix: starts like a form, may be followed by any start character -/
structure PreOk (pre : List Piece) : Prop where
  ne : pre ≠ []
  start : ∃ c, nextCharN pre none = some c ∧ startChar c = true
  adj : ∀ c, startChar c = true → adjOkN pre (some c) = true

theorem Good.pre {pre y : List Piece} (hp : PreOk pre) (hy : Good y) : Good (pre ++ y) := by
  obtain ⟨c, hc, hst⟩ := hy.start
  refine ⟨by simp [hp.ne], fun nx hnx => ?_, ?_⟩
  · rw [adjOkN_append]
    have h2 : nextCharN y nx = some c := by rw [nextCharN_of_ne hy.ne nx none]; exact hc
    rw [h2, hp.adj c hst, hy.adj nx hnx]; rfl
  · obtain ⟨d, hd, hds⟩ := hp.start
    refine ⟨d, ?_, hds⟩
    rw [nextCharN_append, nextCharN_of_ne hp.ne _ none]; exact hd

/-- a suffix: starts with a follower character, may be followed by any follower -/
structure SufOk (suf : List Piece) : Prop where
  ne : suf ≠ []
  first : nextCharN suf none ∈ followers
  adj : ∀ nx ∈ followers, adjOkN suf nx = true

theorem Good.suf {x suf : List Piece} (hx : Good x) (hs : SufOk suf) : Good (x ++ suf) := by
  refine ⟨by simp [hx.ne], fun nx hnx => ?_, ?_⟩
  · rw [adjOkN_append]
    have h1 : nextCharN suf nx = nextCharN suf none := nextCharN_of_ne hs.ne _ _
    rw [h1, hx.adj _ hs.first, hs.adj nx hnx]; rfl
  · obtain ⟨d, hd, hds⟩ := hx.start
    refine ⟨d, ?_, hds⟩
    rw [nextCharN_append, nextCharN_of_ne hx.ne _ none]; exact hd


/-! ### instances: the fixed pieces of the printer -/

theorem start_ne {c k : Char} (h : startChar c = true) (hk : startChar k = false) : c ≠ k := by
  rintro rfl; simp [h] at hk

theorem start_not_space {c : Char} (h : startChar c = true) : isSpace c = false := by
  simp [isSpace, start_ne h (show startChar ' ' = false by decide),
    start_ne h (show startChar '\n' = false by decide),
    start_ne h (show startChar '\t' = false by decide)]

theorem pieceOk_sym {s : String} {e : List Char × String × (Char → Bool)}
    (h : symEntry s.toList = some e) (nx : Option Char) :
    pieceOk (sy s) nx = nextNot e.2.2 nx := by
  simp [pieceOk, sy, h]

theorem nextNot_false (nx : Option Char) : nextNot (fun _ => false) nx = true := by
  cases nx <;> rfl

theorem symTable_space : ∀ e ∈ symTable, e.2.2 ' ' = false := by decide

theorem symTable_head : ∀ e ∈ symTable,
    (match e.1 with | c :: _ => !isSpace c | [] => false) = true := by decide

/-- `x op y` with spaces around the operator -/
theorem sepOk_spaced {op : String} (h : (symEntry op.toList).isSome = true) :
    SepOk [.sp, sy op, .sp] := by
  obtain ⟨e, he⟩ := Option.isSome_iff_exists.mp h
  obtain ⟨hm, h1⟩ := symEntry_some he
  have hsp := symTable_space e hm
  have hhd := symTable_head e hm
  rw [h1] at hhd
  refine ⟨by simp, by simp [nextCharN, pieceChars, followers], fun c hc => ?_⟩
  have h2 : pieceOk (sy op) (some ' ') = true := by
    rw [pieceOk_sym he]; simp [nextNot, hsp]
  cases hop : op.toList with
  | nil => rw [hop] at hhd; cases hhd
  | cons k ks =>
    rw [hop] at hhd
    simp only [Bool.not_eq_true'] at hhd
    have h1' : pieceOk .sp (some k) = true := by simp [pieceOk, nextNot, hhd]
    have h3 : pieceOk .sp (some c) = true := by simp [pieceOk, nextNot, start_not_space hc]
    have hn : nextCharN [sy op, Piece.sp] (some c) = some k := by
      simp [nextCharN, pieceChars, sy, Tok.text, hop]
    have hn2 : nextCharN [Piece.sp] (some c) = some ' ' := rfl
    have hn3 : nextCharN [] (some c) = some c := rfl
    simp only [adjOkN, hn, hn2, hn3, h1', h2, h3, Bool.and_self]


theorem se_lpar : symEntry "(".toList = some (['('], "openpar", fun _ => false) := rfl
theorem se_rpar : symEntry ")".toList = some ([')'], "closepar", fun _ => false) := rfl
theorem se_lbr : symEntry "[".toList = some (['['], "openbracket", fun _ => false) := rfl
theorem se_rbr : symEntry "]".toList = some ([']'], "closebracket", fun _ => false) := rfl
theorem se_comma : symEntry ",".toList = some ([','], "comma", fun _ => false) := rfl
theorem se_colon : symEntry ":".toList = some ([':'], "colon", fun _ => false) := rfl
theorem se_times : symEntry "*".toList = some (['*'], "times", fun c => c == '*') := rfl
theorem se_pow : symEntry "**".toList = some (['*', '*'], "exp", fun _ => false) := rfl
theorem se_bnot : symEntry "~".toList = some (['~'], "bitwisenot", fun _ => false) := rfl
theorem se_minus : symEntry "-".toList = some (['-'], "minus", fun _ => false) := rfl
theorem se_not : symEntry "not".toList = some (['n', 'o', 't'], "not", isWord) := rfl
theorem se_dot : symEntry ".".toList = some (['.'], "dot", isDigit) := rfl
theorem se_assign : symEntry "=".toList = some (['='], "assign", fun c => c == '=') := rfl

/-- symbols that are lexed as themselves whatever follows -/
theorem pieceOk_free {s : String} {txt : List Char} {tag : String}
    (h : symEntry s.toList = some (txt, tag, fun _ => false)) (nx : Option Char) :
    pieceOk (sy s) nx = true := by
  rw [pieceOk_sym h]; exact nextNot_false nx

theorem nc_sy (s : String) (rest : List Piece) (nx : Option Char) :
    nextCharN (sy s :: rest) nx = s.toList.head? := rfl

theorem sepOk_times : SepOk [sy "*"] := by
  refine ⟨by simp, by decide, fun c hc => ?_⟩
  have : c ≠ '*' := start_ne hc (by decide)
  simp [adjOkN, nextCharN, pieceOk_sym se_times, nextNot, this]

theorem sepOk_pow : SepOk [sy "**"] :=
  ⟨by simp, by decide, fun c _ => by simp [adjOkN, pieceOk_free se_pow]⟩

theorem sepOk_colon : SepOk [sy ":"] :=
  ⟨by simp, by decide, fun c _ => by simp [adjOkN, pieceOk_free se_colon]⟩

theorem sepOk_lpar : SepOk [sy "("] :=
  ⟨by simp, by decide, fun c _ => by simp [adjOkN, pieceOk_free se_lpar]⟩

theorem sepOk_lbr : SepOk [sy "["] :=
  ⟨by simp, by decide, fun c _ => by simp [adjOkN, pieceOk_free se_lbr]⟩

theorem sepOk_comma : SepOk [sy ",", .sp] := by
  refine ⟨by simp, by decide, fun c hc => ?_⟩
  have h3 : pieceOk .sp (some c) = true := by simp [pieceOk, nextNot, start_not_space hc]
  have hn : nextCharN [Piece.sp] (some c) = some ' ' := rfl
  have hn3 : nextCharN [] (some c) = some c := rfl
  simp only [adjOkN, hn, hn3, pieceOk_free se_comma, h3, Bool.and_self]

theorem preOk_bnot : PreOk [sy "~"] :=
  ⟨by simp, ⟨'~', rfl, by decide⟩, fun c _ => by simp [adjOkN, pieceOk_free se_bnot]⟩

theorem preOk_minus : PreOk [sy "-"] :=
  ⟨by simp, ⟨'-', rfl, by decide⟩, fun c _ => by simp [adjOkN, pieceOk_free se_minus]⟩

theorem preOk_lpar : PreOk [sy "("] :=
  ⟨by simp, ⟨'(', rfl, by decide⟩, fun c _ => by simp [adjOkN, pieceOk_free se_lpar]⟩

theorem preOk_lbr : PreOk [sy "["] :=
  ⟨by simp, ⟨'[', rfl, by decide⟩, fun c _ => by simp [adjOkN, pieceOk_free se_lbr]⟩

theorem preOk_colon : PreOk [sy ":"] :=
  ⟨by simp, ⟨':', rfl, by decide⟩, fun c _ => by simp [adjOkN, pieceOk_free se_colon]⟩

theorem preOk_not : PreOk [sy "not", .sp] := by
  refine ⟨by simp, ⟨'n', rfl, by decide⟩, fun c hc => ?_⟩
  have h1 : pieceOk (sy "not") (some ' ') = true := by
    rw [pieceOk_sym se_not]; decide
  have h3 : pieceOk .sp (some c) = true := by simp [pieceOk, nextNot, start_not_space hc]
  have hn : nextCharN [Piece.sp] (some c) = some ' ' := rfl
  have hn3 : nextCharN [] (some c) = some c := rfl
  simp only [adjOkN, hn, hn3, h1, h3, Bool.and_self]

theorem sufOk_of_free {suf : List Piece} (hne : suf ≠ []) (hf : nextCharN suf none ∈ followers)
    (h : ∀ nx, adjOkN suf nx = true) : SufOk suf :=
  ⟨hne, hf, fun nx _ => h nx⟩

theorem sufOk_rpar : SufOk [sy ")"] :=
  sufOk_of_free (by simp) (by decide) fun nx => by simp [adjOkN, pieceOk_free se_rpar]

theorem sufOk_rbr : SufOk [sy "]"] :=
  sufOk_of_free (by simp) (by decide) fun nx => by simp [adjOkN, pieceOk_free se_rbr]

theorem sufOk_comma : SufOk [sy ","] :=
  sufOk_of_free (by simp) (by decide) fun nx => by simp [adjOkN, pieceOk_free se_comma]

theorem sufOk_colon : SufOk [sy ":"] :=
  sufOk_of_free (by simp) (by decide) fun nx => by simp [adjOkN, pieceOk_free se_colon]

theorem sufOk_call0 : SufOk [sy "(", sy ")"] :=
  sufOk_of_free (by simp) (by decide) fun nx => by
    simp [adjOkN, pieceOk_free se_lpar, pieceOk_free se_rpar]

theorem sufOk_index0 : SufOk [sy "[", sy "]"] :=
  sufOk_of_free (by simp) (by decide) fun nx => by
    simp [adjOkN, pieceOk_free se_lbr, pieceOk_free se_rbr]


/-! ### atoms -/

theorem followers_idCont : ∀ nx ∈ followers, nextNot isIdCont nx = true := by decide
theorem followers_intStop : ∀ nx ∈ followers, nextNot intStop nx = true := by decide
theorem followers_word : ∀ nx ∈ followers, nextNot isWord nx = true := by decide

theorem idStart_start {c : Char} (h : isIdStart c = true) : startChar c = true := by
  simp [startChar, h]
theorem digit_start {c : Char} (h : isDigit c = true) : startChar c = true := by
  simp [startChar, h]

theorem good_ident {x : String} (h : identOk x.toList = true) : Good [.tok (.ident x)] := by
  refine ⟨by simp, fun nx hnx => ?_, ?_⟩
  · simp [adjOkN, pieceOk, h, nextCharN, followers_idCont nx hnx]
  · cases hx : x.toList with
    | nil => rw [hx] at h; simp [identOk] at h
    | cons c r =>
      rw [hx] at h
      simp only [identOk, Bool.and_eq_true] at h
      exact ⟨c, by simp [nextCharN, pieceChars, Tok.text, hx], idStart_start h.1.1⟩

theorem toDigits_head (n : Nat) : ∃ d ds, Nat.toDigits 10 n = d :: ds ∧ isDigit d = true := by
  cases h : Nat.toDigits 10 n with
  | nil => exact absurd h Nat.toDigits_ne_nil
  | cons d ds =>
    refine ⟨d, ds, rfl, charIsDigit (Nat.isDigit_of_mem_toDigits (b := 10) (n := n)
      (by decide) (by decide) ?_)⟩
    rw [h]; exact List.mem_cons_self ..

/-- `int(text)` accepts at most 4300 digits -/
def natOk (n : Nat) : Bool := decide ((Nat.toDigits 10 n).length ≤ 4300)

theorem good_nat {n : Nat} (h : natOk n = true) : Good [.tok (.int n)] := by
  refine ⟨by simp, fun nx hnx => ?_, ?_⟩
  · simp only [natOk] at h
    simp [adjOkN, pieceOk, h, nextCharN, followers_intStop nx hnx]
  · obtain ⟨d, ds, hd, hdig⟩ := toDigits_head n
    exact ⟨d, by simp [nextCharN, pieceChars, Tok.text, hd], digit_start hdig⟩

/-- a float piece: its text has a `repr` shape and is read back as the piece's own token -/
def fltPieceOk (r : String) (n : Int) (d : Nat) : Bool := floatShape r.toList && floatTokIs r n d

theorem good_flt {r : String} {n : Int} {d : Nat} (h : fltPieceOk r n d = true) :
    Good [.tok (.flt r n d)] := by
  simp only [fltPieceOk, Bool.and_eq_true] at h
  refine ⟨by simp, fun nx hnx => ?_, ?_⟩
  · simp [adjOkN, pieceOk, h.1, h.2, nextCharN, followers_word nx hnx]
  · obtain ⟨c, ds, hc, _, hcase⟩ := floatShape_inv h.1
    refine ⟨c, ?_, digit_start hc⟩
    rcases hcase with ⟨_, _, _, _, h | ⟨_, _, _, _, _, _, h⟩⟩ | ⟨_, _, _, _, _, _, h⟩ <;>
      simp [nextCharN, pieceChars, Tok.text, h]

theorem good_true : Good [.tok .tTrue] :=
  ⟨by simp, fun nx hnx => by simp [adjOkN, pieceOk, nextCharN, followers_word nx hnx],
    ⟨'T', rfl, by decide⟩⟩

theorem good_false : Good [.tok .tFalse] :=
  ⟨by simp, fun nx hnx => by simp [adjOkN, pieceOk, nextCharN, followers_word nx hnx],
    ⟨'F', rfl, by decide⟩⟩

theorem good_unit : Good [sy "(", sy ")"] :=
  ⟨by simp, fun nx _ => by simp [adjOkN, pieceOk_free se_lpar, pieceOk_free se_rpar],
    ⟨'(', rfl, by decide⟩⟩

theorem good_nil : Good [sy "[", sy "]"] :=
  ⟨by simp, fun nx _ => by simp [adjOkN, pieceOk_free se_lbr, pieceOk_free se_rbr],
    ⟨'[', rfl, by decide⟩⟩

theorem good_colon : Good [sy ":"] :=
  ⟨by simp, fun nx _ => by simp [adjOkN, pieceOk_free se_colon], ⟨':', rfl, by decide⟩⟩

/-! ### compound forms -/

theorem good_parens {x : Pieces} (h : Good x) : Good (parens x) := by
  have := (Good.pre preOk_lpar h).suf sufOk_rpar
  simpa [parens] using this

theorem good_parenIf {x : Pieces} (h : Good x) (enc my : Nat) : Good (parenIf x enc my) := by
  unfold parenIf; split
  · exact good_parens h
  · exact h

theorem good_forceWrap {x : Pieces} (h : Good x) (all : Bool) (e : Expr) :
    Good (forceWrap all e x) := by
  unfold forceWrap
  by_cases hc : (if all then isMultiplicative e else isDivision e) = true
  · rw [if_pos hc]; exact good_parens h
  · rw [if_neg hc]; exact h

theorem good_joinWith {sep : Pieces} (hs : SepOk sep) : ∀ (xs : List Pieces), xs ≠ [] →
    (∀ x ∈ xs, Good x) → Good (joinWith sep xs)
  | [], h, _ => absurd rfl h
  | [x], _, hx => by simpa [joinWith] using hx x (List.mem_cons_self ..)
  | x :: y :: ys, _, hx => by
    have ih := good_joinWith hs (y :: ys) (by simp) (fun z hz => hx z (List.mem_cons_of_mem _ hz))
    simpa [joinWith] using (hx x (List.mem_cons_self ..)).sep hs ih

/-- `f(a, b)` / `v[i, j]`: opening bracket, comma separated forms, closing bracket -/
theorem good_bracketed {fp : Pieces} (hf : Good fp) {o c : String} (ho : SepOk [sy o])
    (hc : SufOk [sy c]) (h0 : SufOk [sy o, sy c]) {ap : List Pieces} (ha : ∀ a ∈ ap, Good a) :
    Good (fp ++ [sy o] ++ joinWith [sy ",", .sp] ap ++ [sy c]) := by
  cases ap with
  | nil => simpa [joinWith] using hf.suf h0
  | cons a as => exact (hf.sep ho (good_joinWith sepOk_comma (a :: as) (by simp) ha)).suf hc

theorem good_seq {o c : String} (ho : PreOk [sy o]) (hc : SufOk [sy c]) (h0 : Good [sy o, sy c])
    {ap : List Pieces} (ha : ∀ a ∈ ap, Good a) :
    Good (sy o :: joinWith [sy ",", .sp] ap ++ [sy c]) := by
  cases ap with
  | nil => simpa [joinWith] using h0
  | cons a as =>
    have := (Good.pre ho (good_joinWith sepOk_comma (a :: as) (by simp) ha)).suf hc
    simpa using this

theorem good_slice : ∀ (parts : List Pieces), parts ≠ [] → (∀ p ∈ parts, p = [] ∨ Good p) →
    (joinWith [sy ":"] parts = [] ∨ Good (joinWith [sy ":"] parts)) ∧
      (2 ≤ parts.length → Good (joinWith [sy ":"] parts))
  | [], h, _ => absurd rfl h
  | [x], _, hx => by
    refine ⟨by simpa [joinWith] using hx x (List.mem_cons_self ..), fun h => ?_⟩
    simp at h
  | x :: y :: ys, _, hx => by
    have ih := (good_slice (y :: ys) (by simp) (fun z hz => hx z (List.mem_cons_of_mem _ hz))).1
    have hg : Good (joinWith [sy ":"] (x :: y :: ys)) := by
      simp only [joinWith]
      rcases hx x (List.mem_cons_self ..) with rfl | hgx
      · rcases ih with h0 | hg
        · rw [h0]; simpa using good_colon
        · simpa using Good.pre preOk_colon hg
      · rcases ih with h0 | hg
        · rw [h0]; simpa using hgx.suf sufOk_colon
        · exact hgx.sep sepOk_colon hg
    exact ⟨Or.inr hg, fun _ => hg⟩

/-! ### the dot of an attribute look-up -/

def endsInt : List Piece → Bool
  | [] => false
  | [.tok (.int _)] => true
  | [_] => false
  | _ :: p :: ps => endsInt (p :: ps)

theorem symTable_dot : ∀ e ∈ symTable, e.2.2 '.' = false := by decide

theorem pieceOk_dot {p : Piece} (h : pieceOk p (some ' ') = true) (hi : ∀ n, p ≠ .tok (.int n)) :
    pieceOk p (some '.') = true := by
  cases p with
  | sp => simp [pieceOk, nextNot] at h; exact absurd h (by decide)
  | tok t =>
    cases t with
    | int n => exact absurd rfl (hi n)
    | flt r n d =>
      simp only [pieceOk, Bool.and_eq_true] at h ⊢
      exact ⟨h.1, by decide⟩
    | imag s => simp [pieceOk] at h
    | ident s =>
      simp only [pieceOk, Bool.and_eq_true] at h ⊢
      exact ⟨h.1, by decide⟩
    | tTrue => simp only [pieceOk]; decide
    | tFalse => simp only [pieceOk]; decide
    | sym s =>
      simp only [pieceOk] at h ⊢
      cases he : symEntry s.toList with
      | none => rw [he] at h; cases h
      | some e =>
        simp only [nextNot, symTable_dot e (symEntry_some he).1, Bool.not_false]

theorem adj_dot : ∀ (ps : List Piece), adjOkN ps (some ' ') = true → endsInt ps = false →
    adjOkN ps (some '.') = true
  | [], _, _ => rfl
  | [p], h, he => by
    simp only [adjOkN, nextCharN, Bool.and_true] at h ⊢
    refine pieceOk_dot h (fun n hn => ?_)
    subst hn; simp [endsInt] at he
  | p :: q :: ps, h, he => by
    simp only [adjOkN, Bool.and_eq_true] at h ⊢
    have ih := adj_dot (q :: ps) (by simpa [adjOkN] using h.2) (by simpa [endsInt] using he)
    simp only [adjOkN, Bool.and_eq_true] at ih
    exact ⟨by simpa [nextCharN] using h.1, ih⟩

theorem good_lookup {ap : Pieces} (hx : Good ap) (hd : endsInt ap = false) {n : String}
    (hn : identOk n.toList = true) : Good (ap ++ [sy ".", .tok (.ident n)]) := by
  have hdot : adjOkN ap (some '.') = true := adj_dot ap (hx.adj _ (by decide)) hd
  have hgn := good_ident hn
  obtain ⟨c, hc, _⟩ := hgn.start
  have hcs : isDigit c = false := by
    cases hx' : n.toList with
    | nil => rw [hx'] at hn; simp [identOk] at hn
    | cons c' r =>
      rw [hx'] at hn
      simp only [identOk, Bool.and_eq_true] at hn
      simp [nextCharN, pieceChars, Tok.text, hx'] at hc
      subst hc
      exact idStart_not_digit hn.1.1
  refine ⟨by simp [hx.ne], fun nx hnx => ?_, ?_⟩
  · rw [adjOkN_append]
    have h1 : nextCharN [sy ".", Piece.tok (Tok.ident n)] nx = some '.' := rfl
    have h2 : adjOkN [sy ".", Piece.tok (Tok.ident n)] nx = true := by
      have hn1 : nextCharN [Piece.tok (Tok.ident n)] nx = some c := by
        rw [nextCharN_of_ne (by simp) nx none]; exact hc
      have := hgn.adj nx hnx
      simp only [adjOkN, hn1, pieceOk_sym se_dot, nextNot, hcs, Bool.not_false, Bool.true_and] at this ⊢
      exact this
    rw [h1, hdot, h2]; rfl
  · obtain ⟨d, hd', hds⟩ := hx.start
    refine ⟨d, ?_, hds⟩
    rw [nextCharN_append, nextCharN_of_ne hx.ne _ none]; exact hd'


end PV.Lexer
