import PV.Model.CCodeProg
import PV.Proofs.CCodeInv
import PV.Proofs.CCodeValue
import PV.Proofs.CseEval
/-
  C14, program level: helper lemmas for `PV/Properties/C14Prog.lean`.

  1. `progE` is `ccodeE` with one more output (`progE_proj`): same text, same names, same state.
  2. On `cFragCse` the printed structure of a tree is the printed structure of the wrapper-free
     tree `erase M e` (`M` = any extension of the resulting `cse_to_name`), which lies in `cFrag`:
     `value_core` applies to it.
  3. `sim`: the meaning of `erase M e` in the environment extended by the assignments is the
     meaning of `strip e` in the original environment (as C numbers), when every outermost wrapper
     is bound to the value of its child.
  4. `ProgInv`: the invariant of histories, kept by every call (`progE_good`).
  5. `den_strip`: the evaluator does not see wrappers.
-/
namespace PV.C14
open PV

/-! ### 1. `progE` projects to `ccodeE` -/

def proj : POut → COut := fun o => (o.1, o.2.1, o.2.2.2)

def ProjOK (f : PPrinter) (g : Printer) : Prop :=
  ∀ st e enc, (f st e enc).map proj = g st e enc

theorem printAllP_proj (f : PPrinter) (g : Printer) (h : ProjOK f g) :
    ∀ pl st, (printAllP f st pl).map (fun o => (o.1, o.2.1, o.2.2.2)) = printAll g st pl := by
  intro pl
  induction pl with
  | nil => intro st; rfl
  | cons x rest ih =>
    intro st
    obtain ⟨e, enc⟩ := x
    simp only [printAllP, printAll, bind, Except.bind]
    rw [← h st e enc]
    cases h1 : f st e enc with
    | error err => rfl
    | ok w =>
      obtain ⟨d, r, a, st1⟩ := w
      simp only [Except.map, proj]
      rw [← ih st1]
      cases h2 : printAllP f st1 rest with
      | error err => rfl
      | ok w2 => rfl

theorem progGeneric_proj (S : PrintPrec) (f : PPrinter) (g : Printer) (h : ProjOK f g) :
    ∀ st e enc, (progGeneric S f st e enc).map proj = ccodeGeneric S g st e enc := by
  intro st e enc
  simp only [progGeneric, ccodeGeneric, bind, Except.bind]
  cases hp : plan S e enc with
  | error err => rfl
  | ok pl =>
    simp only []
    rw [← printAllP_proj f g h pl st]
    cases h2 : printAllP f st pl with
    | error err => rfl
    | ok w =>
      obtain ⟨ds, r, a, st1⟩ := w
      simp only [Except.map]
      cases h3 : assemble S st.reverse e enc ds with
      | error err => rfl
      | ok d => rfl

theorem progCse_proj (S : PrintPrec) (f : PPrinter) (g : Printer) (h : ProjOK f g) :
    ∀ st c p, (progCse S f st c p).map proj = ccodeCse S g st c p := by
  intro st c p
  unfold progCse ccodeCse
  cases hl : c.hasList with
  | true => rfl
  | false =>
    simp only [Bool.false_eq_true, if_false]
    cases hk : st.toName.find? (fun kv => kv.1.eq (.expr c)) with
    | some kv => rfl
    | none =>
      simp only []
      rw [← h st c S.none]
      cases h1 : f st c S.none with
      | error err => rfl
      | ok w =>
        obtain ⟨d, r, a, st1⟩ := w
        simp only [Except.map, proj]
        cases hf : freshName st1 p with
        | none => rfl
        | some n =>
          simp only []
          cases hg : st1.toName.find? (fun kv => kv.1.eq (.expr c)) with
          | some kv => rfl
          | none => rfl

theorem progE_proj (S : PrintPrec) : ∀ fuel, ProjOK (progE S fuel) (ccodeE S fuel) := by
  intro fuel
  induction fuel with
  | zero => intro st e enc; rfl
  | succ n ih =>
    intro st e enc
    cases e with
    | cse c p sc =>
      simp only [progE, ccodeE]
      exact progCse_proj S _ _ ih st c p
    | _ =>
      simp only [progE, ccodeE]
      exact progGeneric_proj S _ _ ih st _ enc

/-- **the program-level mapper is the mapper**: same printed structure, same names, same state -/
theorem emitProg_ccode (S : PrintPrec) (st : CSt) (e : Expr) :
    (emitProg S st e).map proj = ccode S st e := progE_proj S _ st e _

/-! ### 2. the fragment `cFragCse` -/

theorem eraseL_eq_map (M : List (CCKey × String)) : ∀ cs, eraseL M cs = cs.map (erase M)
  | [] => rfl
  | c :: cs => by simp [eraseL, eraseL_eq_map M cs]

theorem stripL_eq_map : ∀ cs, stripL cs = cs.map strip
  | [] => rfl
  | c :: cs => by simp [stripL, stripL_eq_map cs]

theorem cseAllL_eq_all (deep : Bool) (P : Expr → Bool) :
    ∀ cs, cseAllL deep P cs = cs.all (cseAll deep P)
  | [] => rfl
  | c :: cs => by simp [cseAllL, cseAllL_eq_all deep P cs]

theorem cFragCseL_iff : ∀ cs, cFragCseL cs = true ↔ ∀ x ∈ cs, cFragCse x = true
  | [] => by simp [cFragCseL]
  | c :: cs => by simp [cFragCseL, cFragCseL_iff cs]

theorem cFragCseP_iff : ∀ cs, cFragCseP cs = true ↔ ∀ x ∈ cs, cFragCse x = true ∧ isRem x = false
  | [] => by simp [cFragCseP]
  | c :: cs => by simp [cFragCseP, cFragCseP_iff cs, and_assoc]

/-- case analysis / induction over the fragment -/
theorem cFragCse_induct {P : Expr → Prop}
    (hconst : ∀ n, P (.const (.int n)))
    (hvar : ∀ x, P (.var x))
    (hcse : ∀ c p s, cFragCse c = true → P c → P (.cse c p s))
    (hsum : ∀ c cs, negShape c = false → (∀ x ∈ c :: cs, cFragCse x = true ∧ P x) →
      P (.nary .sum (c :: cs)))
    (hprod : ∀ c1 c2 cs, (∀ x ∈ c1 :: c2 :: cs, cFragCse x = true ∧ isRem x = false ∧ P x) →
      P (.nary .prod (c1 :: c2 :: cs)))
    (hnary : ∀ op, (op = .band ∨ op = .bxor ∨ op = .bor ∨ op = .land ∨ op = .lor) →
      ∀ c1 c2 cs, (∀ x ∈ c1 :: c2 :: cs, cFragCse x = true ∧ P x) → P (.nary op (c1 :: c2 :: cs)))
    (hmm : ∀ op, (op = .min ∨ op = .max) → ∀ a b, cFragCse a = true → cFragCse b = true →
      P a → P b → P (.nary op [a, b]))
    (hbin : ∀ op, (op = .floordiv ∨ op = .lshift ∨ op = .rshift) → ∀ a b, cFragCse a = true →
      cFragCse b = true → P a → P b → P (.bin op a b))
    (hrem : ∀ a b, cFragCse a = true → cFragCse b = true → isPow b = false → P a → P b →
      P (.bin .rem a b))
    (hpow : ∀ x, P (.bin .pow (.var x) (.const (.int 2))))
    (hun : ∀ op a, cFragCse a = true → P a → P (.un op a))
    (hcmp : ∀ op a b, cFragCse a = true → cFragCse b = true → isBitwise a = false →
      isBitwise b = false → P a → P b → P (.cmp op a b))
    (hite : ∀ c t e, cFragCse c = true → cFragCse t = true → cFragCse e = true →
      P c → P t → P e → P (.ite c t e)) :
    ∀ e, cFragCse e = true → P e := by
  intro e
  induction e using Expr.induct with
  | h e ih =>
    intro h
    cases e with
    | const c => cases c <;> simp [cFragCse] at h; exact hconst _
    | var x => exact hvar x
    | cse c p s =>
      simp only [cFragCse] at h
      exact hcse c p s h (ih c (by simp [Expr.children]) h)
    | nary op cs =>
      have ihc : ∀ c ∈ cs, cFragCse c = true → P c :=
        fun c hc => ih c (by simp [Expr.children, hc])
      have two : ∀ op, (op = .band ∨ op = .bxor ∨ op = .bor ∨ op = .land ∨ op = .lor) →
          ∀ c1 c2 cs', (∀ c ∈ c1 :: c2 :: cs', cFragCse c = true → P c) →
          cFragCseL (c1 :: c2 :: cs') = true → P (.nary op (c1 :: c2 :: cs')) := by
        intro op hop c1 c2 cs' ihc hl
        rw [cFragCseL_iff] at hl
        exact hnary op hop c1 c2 cs' (fun x hx => ⟨hl x hx, ihc x hx (hl x hx)⟩)
      cases op with
      | sum =>
        match cs, h, ihc with
        | [], h, _ => simp [cFragCse] at h
        | c :: cs', h, ihc =>
          simp only [cFragCse, Bool.and_eq_true, Bool.not_eq_true'] at h
          have hl : cFragCseL (c :: cs') = true := by simp [cFragCseL, h.1.1, h.2]
          rw [cFragCseL_iff] at hl
          exact hsum c cs' h.1.2 (fun x hx => ⟨hl x hx, ihc x hx (hl x hx)⟩)
      | prod =>
        match cs, h, ihc with
        | [], h, _ => simp [cFragCse] at h
        | [_], h, _ => simp [cFragCse] at h
        | c1 :: c2 :: cs', h, ihc =>
          simp only [cFragCse, Bool.and_eq_true, Bool.not_eq_true'] at h
          have hl : cFragCseP (c1 :: c2 :: cs') = true := by
            simp only [cFragCseP, Bool.and_eq_true, Bool.not_eq_true'] at h ⊢
            exact ⟨h.1, h.2⟩
          rw [cFragCseP_iff] at hl
          exact hprod c1 c2 cs' (fun x hx => ⟨(hl x hx).1, (hl x hx).2, ihc x hx (hl x hx).1⟩)
      | band =>
        match cs, h, ihc with
        | [], h, _ => simp [cFragCse] at h
        | [_], h, _ => simp [cFragCse] at h
        | c1 :: c2 :: cs', h, ihc =>
          exact two _ (by simp) c1 c2 cs' ihc (by
            simp only [cFragCse, cFragCseL, Bool.and_eq_true] at h ⊢; exact h)
      | bxor =>
        match cs, h, ihc with
        | [], h, _ => simp [cFragCse] at h
        | [_], h, _ => simp [cFragCse] at h
        | c1 :: c2 :: cs', h, ihc =>
          exact two _ (by simp) c1 c2 cs' ihc (by
            simp only [cFragCse, cFragCseL, Bool.and_eq_true] at h ⊢; exact h)
      | bor =>
        match cs, h, ihc with
        | [], h, _ => simp [cFragCse] at h
        | [_], h, _ => simp [cFragCse] at h
        | c1 :: c2 :: cs', h, ihc =>
          exact two _ (by simp) c1 c2 cs' ihc (by
            simp only [cFragCse, cFragCseL, Bool.and_eq_true] at h ⊢; exact h)
      | land =>
        match cs, h, ihc with
        | [], h, _ => simp [cFragCse] at h
        | [_], h, _ => simp [cFragCse] at h
        | c1 :: c2 :: cs', h, ihc =>
          exact two _ (by simp) c1 c2 cs' ihc (by
            simp only [cFragCse, cFragCseL, Bool.and_eq_true] at h ⊢; exact h)
      | lor =>
        match cs, h, ihc with
        | [], h, _ => simp [cFragCse] at h
        | [_], h, _ => simp [cFragCse] at h
        | c1 :: c2 :: cs', h, ihc =>
          exact two _ (by simp) c1 c2 cs' ihc (by
            simp only [cFragCse, cFragCseL, Bool.and_eq_true] at h ⊢; exact h)
      | min =>
        match cs, h, ihc with
        | [a, b], h, ihc =>
          simp only [cFragCse, Bool.and_eq_true] at h
          exact hmm _ (by simp) a b h.1 h.2 (ihc a (by simp) h.1) (ihc b (by simp) h.2)
        | [], h, _ => simp [cFragCse] at h
        | [_], h, _ => simp [cFragCse] at h
        | _ :: _ :: _ :: _, h, _ => simp [cFragCse] at h
      | max =>
        match cs, h, ihc with
        | [a, b], h, ihc =>
          simp only [cFragCse, Bool.and_eq_true] at h
          exact hmm _ (by simp) a b h.1 h.2 (ihc a (by simp) h.1) (ihc b (by simp) h.2)
        | [], h, _ => simp [cFragCse] at h
        | [_], h, _ => simp [cFragCse] at h
        | _ :: _ :: _ :: _, h, _ => simp [cFragCse] at h
    | bin op a b =>
      have iha := ih a (by simp [Expr.children])
      have ihb := ih b (by simp [Expr.children])
      cases op with
      | floordiv =>
        simp only [cFragCse, Bool.and_eq_true] at h
        exact hbin _ (by simp) a b h.1 h.2 (iha h.1) (ihb h.2)
      | lshift =>
        simp only [cFragCse, Bool.and_eq_true] at h
        exact hbin _ (by simp) a b h.1 h.2 (iha h.1) (ihb h.2)
      | rshift =>
        simp only [cFragCse, Bool.and_eq_true] at h
        exact hbin _ (by simp) a b h.1 h.2 (iha h.1) (ihb h.2)
      | rem =>
        simp only [cFragCse, Bool.and_eq_true, Bool.not_eq_true'] at h
        exact hrem a b h.1.1 h.1.2 h.2 (iha h.1.1) (ihb h.1.2)
      | pow =>
        match a, b, h with
        | .var x, .const (.int k), h =>
          simp only [cFragCse, beq_iff_eq] at h
          subst h
          exact hpow x
      | _ => simp [cFragCse] at h
    | un op a =>
      simp only [cFragCse] at h
      exact hun op a h (ih a (by simp [Expr.children]) h)
    | cmp op a b =>
      simp only [cFragCse, Bool.and_eq_true, Bool.not_eq_true'] at h
      exact hcmp op a b h.1.1.1 h.1.1.2 h.1.2 h.2 (ih a (by simp [Expr.children]) h.1.1.1)
        (ih b (by simp [Expr.children]) h.1.1.2)
    | ite c t e =>
      simp only [cFragCse, Bool.and_eq_true] at h
      exact hite c t e h.1.1 h.1.2 h.2 (ih c (by simp [Expr.children]) h.1.1)
        (ih t (by simp [Expr.children]) h.1.2) (ih e (by simp [Expr.children]) h.2)
    | _ => simp [cFragCse] at h

theorem cFragML_iff (m : Bool) : ∀ cs, cFragML m cs = true ↔ ∀ x ∈ cs, cFragM m x = true
  | [] => by simp [cFragML]
  | c :: cs => by simp [cFragML, cFragML_iff m cs]

theorem cFragMP_iff (m : Bool) :
    ∀ cs, cFragMP m cs = true ↔ ∀ x ∈ cs, cFragM m x = true ∧ isRem x = false
  | [] => by simp [cFragMP]
  | c :: cs => by simp [cFragMP, cFragMP_iff m cs, and_assoc]

theorem simpleL_iff : ∀ cs, Expr.simpleL cs = true ↔ ∀ x ∈ cs, x.simple = true
  | [] => by simp [Expr.simpleL]
  | c :: cs => by simp [Expr.simpleL, simpleL_iff cs]

/-- on the fragment Python `==` is structural identity -/
theorem cFragCse_simple : ∀ e, cFragCse e = true → e.simple = true := by
  apply cFragCse_induct
  · intro n; rfl
  · intro x; rfl
  · intro c p s _ ih; simpa [Expr.simple] using ih
  · intro c cs _ h
    simp only [Expr.simple, simpleL_iff]
    exact fun x hx => (h x hx).2
  · intro c1 c2 cs h
    simp only [Expr.simple, simpleL_iff]
    exact fun x hx => (h x hx).2.2
  · intro op _ c1 c2 cs h
    simp only [Expr.simple, simpleL_iff]
    exact fun x hx => (h x hx).2
  · intro op _ a b _ _ ha hb
    simp [Expr.simple, Expr.simpleL, ha, hb]
  · intro op _ a b _ _ ha hb
    simp [Expr.simple, ha, hb]
  · intro a b _ _ _ ha hb
    simp [Expr.simple, ha, hb]
  · intro x; rfl
  · intro op a _ ha; simpa [Expr.simple] using ha
  · intro op a b _ _ _ _ ha hb
    simp [Expr.simple, ha, hb]
  · intro c t e _ _ _ hc ht he
    simp [Expr.simple, hc, ht, he]

/-! #### the head of a tree survives `erase` (a wrapper becomes a variable) -/

theorem isRem_erase (M : List (CCKey × String)) (e : Expr) : isRem (erase M e) = isRem e := by
  cases e with
  | bin op a b => cases op <;> simp [erase, isRem]
  | _ => simp [erase, isRem]

theorem isPow_erase (M : List (CCKey × String)) (e : Expr) : isPow (erase M e) = isPow e := by
  cases e with
  | bin op a b => cases op <;> simp [erase, isPow]
  | _ => simp [erase, isPow]

theorem isBitwise_erase (M : List (CCKey × String)) (e : Expr) :
    isBitwise (erase M e) = isBitwise e := by
  cases e with
  | nary op cs => cases op <;> simp [erase, isBitwise]
  | _ => simp [erase, isBitwise]

theorem isMultiplicative_erase (M : List (CCKey × String)) (e : Expr) :
    isMultiplicative (erase M e) = isMultiplicative e := by
  cases e with
  | nary op cs => cases op <;> simp [erase, isMultiplicative]
  | bin op a b => cases op <;> simp [erase, isMultiplicative]
  | _ => simp [erase, isMultiplicative]

theorem negShape_erase (M : List (CCKey × String)) (e : Expr) :
    negShape (erase M e) = negShape e := by
  cases e with
  | nary op cs =>
    cases op <;> simp only [erase, negShape]
    cases cs with
    | nil => simp [eraseL, negShape]
    | cons c0 rest =>
      cases c0 with
      | const c => cases c <;> simp [eraseL, erase, negShape]
      | _ => simp [eraseL, erase, negShape]
  | _ => simp [erase, negShape]

/-- the printed tree lies in the wrapper-free fragment `cFrag` -/
theorem erase_frag (M : List (CCKey × String)) :
    ∀ e, cFragCse e = true → cFragM true (erase M e) = true := by
  apply cFragCse_induct
  · intro n; rfl
  · intro x; rfl
  · intro c p s _ _; rfl
  · intro c cs hn h
    simp only [erase, eraseL, cFragM, Bool.and_eq_true, Bool.not_eq_true', negShape_erase, hn,
      cFragML_iff, eraseL_eq_map, List.mem_map]
    refine ⟨⟨(h c (by simp)).2, trivial⟩, ?_⟩
    rintro x ⟨y, hy, rfl⟩
    exact (h y (by simp [hy])).2
  · intro c1 c2 cs h
    simp only [erase, eraseL, cFragM, Bool.and_eq_true, Bool.not_eq_true', isRem_erase]
    refine ⟨⟨(h c1 (by simp)).2.2, (h c1 (by simp)).2.1⟩, ?_⟩
    have := (cFragMP_iff true (eraseL M (c2 :: cs))).mpr (by
      simp only [eraseL_eq_map, List.mem_map]
      rintro x ⟨y, hy, rfl⟩
      exact ⟨(h y (by simp [hy])).2.2, by rw [isRem_erase]; exact (h y (by simp [hy])).2.1⟩)
    simpa [eraseL] using this
  · intro op hop c1 c2 cs h
    have hl := (cFragML_iff true (eraseL M (c2 :: cs))).mpr (by
      simp only [eraseL_eq_map, List.mem_map]
      rintro x ⟨y, hy, rfl⟩
      exact (h y (by simp [hy])).2)
    have h1 := (h c1 (by simp)).2
    simp only [eraseL] at hl
    rcases hop with rfl | rfl | rfl | rfl | rfl <;> simp [erase, eraseL, cFragM, h1, hl]
  · intro op hop a b _ _ ha hb
    rcases hop with rfl | rfl <;> simp [erase, eraseL, cFragM, ha, hb]
  · intro op hop a b _ _ ha hb
    rcases hop with rfl | rfl | rfl <;> simp [erase, cFragM, ha, hb]
  · intro a b _ _ hp ha hb
    simp [erase, cFragM, ha, hb, isPow_erase, hp]
  · intro x; rfl
  · intro op a _ ha; simp [erase, cFragM, ha]
  · intro op a b _ _ h1 h2 ha hb
    simp [erase, cFragM, ha, hb, isBitwise_erase, h1, h2]
  · intro c t e _ _ _ hc ht he
    simp [erase, cFragM, hc, ht, he]

/-! ### 3. the handlers on the fragment: plan and assembly do not look inside wrappers -/

def isCseB : Expr → Bool
  | .cse .. => true
  | _ => false

theorem cFragCse_head (e : Expr) (h : cFragCse e = true) :
    (∃ n, e = .const (.int n)) ∨ e.isNode = true := by
  cases e with
  | const c => cases c <;> simp [cFragCse] at h; exact Or.inl ⟨_, rfl⟩
  | tuple cs => simp [cFragCse] at h
  | list cs => simp [cFragCse] at h
  | _ => exact Or.inr rfl

theorem plusOneIsZero_fragCse (c0 : Expr) (h : cFragCse c0 = true) :
    plusOneIsZero c0 = .ok (isNegOneE c0) := by
  rcases cFragCse_head c0 h with ⟨n, rfl⟩ | hn
  · simp only [plusOneIsZero, isNegOneE, pure, Except.pure]
    have : (n + 1 == 0) = (n == -1) := by
      rw [Bool.eq_iff_iff]
      simp only [beq_iff_eq]
      omega
    rw [this]
  · rw [plusOneIsZero_node c0 hn]
    cases c0 <;> simp [Expr.isNode] at hn <;> rfl

/-- `get_neg_product` on the fragment with wrappers: exactly the products `-1 * …` -/
theorem negProd_fragCse (ch : Expr) (h : cFragCse ch = true) :
    negProd ch = .ok (if negShape ch then some (negBody ch) else none) := by
  cases ch with
  | nary op cs =>
    cases op with
    | prod =>
      match cs, h with
      | c0 :: c1 :: rest, h =>
        simp only [cFragCse, Bool.and_eq_true] at h
        have h0 := plusOneIsZero_fragCse c0 h.1.1
        simp only [negProd, h0]
        cases c0 with
        | const c =>
          cases c with
          | int n =>
            by_cases hn : n = -1
            · subst hn
              cases rest <;> simp [isNegOneE, negShape, negBody, pure, Except.pure]
            · have hf : (n == -1) = false := by simp [hn]
              simp [isNegOneE, negShape, hf, pure, Except.pure]
          | _ => simp [isNegOneE, negShape, pure, Except.pure]
        | _ => simp [isNegOneE, negShape, pure, Except.pure]
    | _ => simp [negProd, negShape, pure, Except.pure]
  | _ => simp [negProd, negShape, pure, Except.pure]

theorem negBody_erase (M : List (CCKey × String)) (ch : Expr) (hn : negShape ch = true) :
    negBody (erase M ch) = erase M (negBody ch) := by
  cases ch with
  | nary op cs =>
    cases op with
    | prod =>
      match cs, hn with
      | .const (.int n) :: rest, _ =>
        match rest with
        | [] => simp [erase, eraseL, negBody]
        | [b] => simp [erase, eraseL, negBody]
        | b :: c :: r => simp [erase, eraseL, negBody]
    | _ => simp [negShape] at hn
  | _ => simp [negShape] at hn

theorem negBody_fragCse (ch : Expr) (h : cFragCse ch = true) (hn : negShape ch = true) :
    cFragCse (negBody ch) = true := by
  cases ch with
  | nary op cs =>
    cases op with
    | prod =>
      match cs, h, hn with
      | .const (.int n) :: c1 :: rest, h, _ =>
        simp only [cFragCse, Bool.and_eq_true] at h
        obtain ⟨_, hP⟩ := h
        cases rest with
        | nil =>
          simp only [cFragCseP, Bool.and_eq_true] at hP
          simpa [negBody] using hP.1.1
        | cons c2 r =>
          simp only [cFragCseP, Bool.and_eq_true] at hP
          simp only [negBody, cFragCse, cFragCseP, Bool.and_eq_true]
          exact ⟨hP.1, hP.2⟩
    | _ => simp [negShape] at hn
  | _ => simp [negShape] at hn

theorem negBody_cseAll (deep : Bool) (P : Expr → Bool) (ch : Expr) (hn : negShape ch = true) :
    cseAll deep P (negBody ch) = cseAll deep P ch := by
  cases ch with
  | nary op cs =>
    cases op with
    | prod =>
      match cs, hn with
      | .const (.int n) :: rest, _ =>
        match rest with
        | [] => simp [cseAll, cseAllL, negBody]
        | [b] => simp [cseAll, cseAllL, negBody]
        | b :: c :: r => simp [cseAll, cseAllL, negBody]
    | _ => simp [negShape] at hn
  | _ => simp [negShape] at hn

theorem sumPlan_fragCse (S : PrintPrec) : ∀ cs : List Expr, (∀ x ∈ cs, cFragCse x = true) →
    sumPlan S cs = .ok (sumItems S cs)
  | [], _ => rfl
  | c :: cs, h => by
      simp only [sumPlan, negProd_fragCse c (h c (by simp)),
        sumPlan_fragCse S cs (fun x hx => h x (by simp [hx])), sumItems, List.map_cons]
      cases negShape c <;> simp [bind, Except.bind, pure, Except.pure]

theorem sumItems_erase (S : PrintPrec) (M : List (CCKey × String)) : ∀ cs : List Expr,
    sumItems S (eraseL M cs) = (sumItems S cs).map (fun it => (erase M it.1, it.2))
  | [] => rfl
  | c :: cs => by
      have ih := sumItems_erase S M cs
      simp only [sumItems, eraseL, List.map_cons, negShape_erase] at ih ⊢
      rw [ih]
      cases hn : negShape c with
      | true => simp [negBody_erase M c hn]
      | false => simp

theorem sumSplit_erase (M : List (CCKey × String)) : ∀ (cs : List Expr) (ds : List Doc),
    (∀ x ∈ cs, cFragCse x = true) → sumSplit (eraseL M cs) ds = sumSplit cs ds
  | [], _, _ => by simp [eraseL, sumSplit]
  | _ :: _, [], _ => by simp [eraseL, sumSplit]
  | c :: cs, d :: ds, h => by
      have ih := sumSplit_erase M cs ds (fun x hx => h x (by simp [hx]))
      have h1 := negProd_fragCse c (h c (by simp))
      have h2 := negProd_frag true (erase M c) (erase_frag M c (h c (by simp)))
      rw [negShape_erase] at h2
      simp only [eraseL, sumSplit, ih, h1, h2]
      cases negShape c <;> simp

/-- what the handler of a tree of the fragment (not a wrapper) asks for: the same calls for the
tree and for the printed tree, on subtrees of the fragment that together contain every wrapper -/
theorem plan_fragCse (S : PrintPrec) (M : List (CCKey × String)) :
    ∀ e, cFragCse e = true → isCseB e = false → ∀ enc, ∃ pl, plan S e enc = .ok pl ∧
      plan S (erase M e) enc = .ok (pl.map (fun it => (erase M it.1, it.2))) ∧
      (∀ it ∈ pl, cFragCse it.1 = true) ∧
      (∀ deep P, cseAll deep P e = pl.all (fun it => cseAll deep P it.1)) := by
  apply cFragCse_induct
  · intro n _ enc
    exact ⟨[], rfl, rfl, by simp, by simp [cseAll]⟩
  · intro x _ enc
    exact ⟨[], rfl, rfl, by simp, by simp [cseAll]⟩
  · intro c p s _ _ hc
    simp [isCseB] at hc
  · intro c cs _ h _ enc
    have hf : ∀ x ∈ c :: cs, cFragCse x = true := fun x hx => (h x hx).1
    refine ⟨sumItems S (c :: cs), by simp only [plan]; exact sumPlan_fragCse S _ hf, ?_, ?_, ?_⟩
    · have he := erase_frag M _ (show cFragCse (.nary .sum (c :: cs)) = true by
        simp only [cFragCse, Bool.and_eq_true, Bool.not_eq_true', cFragCseL_iff]
        exact ⟨⟨hf c (by simp), by assumption⟩, fun x hx => hf x (by simp [hx])⟩)
      simp only [erase, eraseL, cFragM, Bool.and_eq_true] at he
      have hL : cFragML true (eraseL M (c :: cs)) = true := by
        simp only [eraseL, cFragML, Bool.and_eq_true]; exact ⟨he.1.1, he.2⟩
      simp only [erase, plan]
      rw [sumPlan_frag S true _ hL, sumItems_erase]
    · intro it hit
      simp only [sumItems, List.mem_map] at hit
      obtain ⟨ch, hch, rfl⟩ := hit
      cases hn : negShape ch with
      | true => simpa [hn] using negBody_fragCse ch (hf ch hch) hn
      | false => simpa [hn] using hf ch hch
    · intro deep P
      simp only [cseAll, cseAllL_eq_all, sumItems, List.all_map]
      congr 1
      funext ch
      simp only [Function.comp]
      cases hn : negShape ch with
      | true => simp [negBody_cseAll deep P ch hn]
      | false => simp
  · intro c1 c2 cs h _ enc
    refine ⟨(c1 :: c2 :: cs).map (·, S.product), rfl, ?_, ?_, ?_⟩
    · simp [erase, plan, eraseL_eq_map, pure, Except.pure, Function.comp_def]
    · intro it hit
      simp only [List.mem_map] at hit
      obtain ⟨x, hx, rfl⟩ := hit
      exact (h x hx).1
    · intro deep P
      simp [cseAll, cseAllL_eq_all, List.all_map, Function.comp_def]
  · intro op hop c1 c2 cs h _ enc
    have key : ∀ k : Nat, (∀ it ∈ (c1 :: c2 :: cs).map (·, k), cFragCse it.1 = true) ∧
        (∀ deep P, cseAll deep P (.nary op (c1 :: c2 :: cs)) =
          ((c1 :: c2 :: cs).map (·, k)).all (fun it => cseAll deep P it.1)) := by
      intro k
      refine ⟨?_, ?_⟩
      · intro it hit
        simp only [List.mem_map] at hit
        obtain ⟨x, hx, rfl⟩ := hit
        exact (h x hx).1
      · intro deep P
        simp [cseAll, cseAllL_eq_all, List.all_map, Function.comp_def]
    rcases hop with rfl | rfl | rfl | rfl | rfl
    · exact ⟨_, rfl, by simp [erase, plan, eraseL_eq_map, pure, Except.pure, Function.comp_def], (key S.band).1, (key S.band).2⟩
    · exact ⟨_, rfl, by simp [erase, plan, eraseL_eq_map, pure, Except.pure, Function.comp_def], (key S.bxor).1, (key S.bxor).2⟩
    · exact ⟨_, rfl, by simp [erase, plan, eraseL_eq_map, pure, Except.pure, Function.comp_def], (key S.bor).1, (key S.bor).2⟩
    · exact ⟨_, rfl, by simp [erase, plan, eraseL_eq_map, pure, Except.pure, Function.comp_def], (key S.land).1, (key S.land).2⟩
    · exact ⟨_, rfl, by simp [erase, plan, eraseL_eq_map, pure, Except.pure, Function.comp_def], (key S.lor).1, (key S.lor).2⟩
  · intro op hop a b ha hb _ _ _ enc
    rcases hop with rfl | rfl
    · exact ⟨[(a, S.none), (b, S.none)], rfl, by simp [erase, eraseL, plan, pure, Except.pure], by simp [ha, hb],
        by simp [cseAll, cseAllL]⟩
    · exact ⟨[(a, S.none), (b, S.none)], rfl, by simp [erase, eraseL, plan, pure, Except.pure], by simp [ha, hb],
        by simp [cseAll, cseAllL]⟩
  · intro op hop a b ha hb _ _ _ enc
    rcases hop with rfl | rfl | rfl
    · exact ⟨[(a, S.product), (b, S.power)], rfl, by simp [erase, plan, pure, Except.pure], by simp [ha, hb],
        by simp [cseAll]⟩
    · exact ⟨[(a, S.shift + 1), (b, S.shift + 1)], rfl, by simp [erase, plan, pure, Except.pure], by simp [ha, hb],
        by simp [cseAll]⟩
    · exact ⟨[(a, S.shift + 1), (b, S.shift + 1)], rfl, by simp [erase, plan, pure, Except.pure], by simp [ha, hb],
        by simp [cseAll]⟩
  · intro a b ha hb _ _ _ _ enc
    exact ⟨[(a, S.product), (b, S.product)], rfl, by simp [erase, plan, pure, Except.pure], by simp [ha, hb],
      by simp [cseAll]⟩
  · intro x _ enc
    obtain ⟨r, hr, rfl⟩ := powPlan_var_two x
    refine ⟨[(.nary .prod [.var x, .var x], enc)], ?_, ?_, ?_, ?_⟩
    · simp [plan, hr, bind, Except.bind, pure, Except.pure]
    · simp [erase, eraseL, plan, hr, bind, Except.bind, pure, Except.pure]
    · simp [cFragCse, cFragCseP, isRem]
    · intro deep P; simp [cseAll, cseAllL]
  · intro op a ha _ _ enc
    exact ⟨[(a, S.unary)], rfl, by simp [erase, plan, pure, Except.pure], by simp [ha], by simp [cseAll]⟩
  · intro op a b ha hb _ _ _ _ _ enc
    exact ⟨[(a, S.comparison + 1), (b, S.comparison + 1)], rfl, by simp [erase, plan, pure, Except.pure],
      by simp [ha, hb], by simp [cseAll]⟩
  · intro c t e hc ht he _ _ _ _ enc
    exact ⟨[(c, S.none), (t, S.none), (e, S.none)], rfl, by simp [erase, plan, pure, Except.pure],
      by simp [hc, ht, he], by simp [cseAll, Bool.and_assoc]⟩

/-- the handler puts the strings together in the same way for the tree and the printed tree -/
theorem assemble_erase (S : PrintPrec) (M : List (CCKey × String)) (rev : Bool) :
    ∀ e, cFragCse e = true → isCseB e = false → ∀ enc ds,
      assemble S rev (erase M e) enc ds = assemble S rev e enc ds := by
  apply cFragCse_induct
  · intro n _ enc ds; rfl
  · intro x _ enc ds; rfl
  · intro c p s _ _ hc
    simp [isCseB] at hc
  · intro c cs _ h _ enc ds
    simp only [erase, assemble]
    rw [sumSplit_erase M (c :: cs) ds (fun x hx => (h x hx).1)]
  · intro c1 c2 cs h _ enc ds; rfl
  · intro op hop c1 c2 cs h _ enc ds
    rcases hop with rfl | rfl | rfl | rfl | rfl <;> rfl
  · intro op hop a b _ _ _ _ _ enc ds
    rcases hop with rfl | rfl <;>
      rcases ds with _ | ⟨d1, _ | ⟨d2, _ | ⟨d3, ds⟩⟩⟩ <;> rfl
  · intro op hop a b _ _ _ _ _ enc ds
    rcases hop with rfl | rfl | rfl <;>
      rcases ds with _ | ⟨d1, _ | ⟨d2, _ | ⟨d3, ds⟩⟩⟩ <;> rfl
  · intro a b _ _ _ _ _ _ enc ds
    rcases ds with _ | ⟨d1, _ | ⟨d2, _ | ⟨d3, ds⟩⟩⟩ <;>
      simp only [erase, assemble, forceWrapD, isMultiplicative_erase]
  · intro x _ enc ds
    simp only [erase]
  · intro op a _ _ _ enc ds
    cases op <;> rcases ds with _ | ⟨d1, _ | ⟨d2, ds⟩⟩ <;> rfl
  · intro op a b _ _ _ _ _ _ _ enc ds
    rcases ds with _ | ⟨d1, _ | ⟨d2, _ | ⟨d3, ds⟩⟩⟩ <;> rfl
  · intro c t e _ _ _ _ _ _ _ enc ds
    rcases ds with _ | ⟨d1, _ | ⟨d2, _ | ⟨d3, _ | ⟨d4, ds⟩⟩⟩⟩ <;> rfl

/-! ### 4. `cse_to_name` only grows -/

/-- `M` extends `A` at the end (a dictionary to which new keys were added) -/
def TExt (A M : List (CCKey × String)) : Prop := ∃ t, M = A ++ t

theorem TExt.refl (A : List (CCKey × String)) : TExt A A := ⟨[], by simp⟩

theorem TExt.trans {A B C : List (CCKey × String)} (h1 : TExt A B) (h2 : TExt B C) : TExt A C := by
  obtain ⟨t1, rfl⟩ := h1
  obtain ⟨t2, rfl⟩ := h2
  exact ⟨t1 ++ t2, by simp⟩

theorem lookupName_ext {A M : List (CCKey × String)} {c : Expr} {n : String}
    (h : lookupName A c = some n) (hx : TExt A M) : lookupName M c = some n := by
  obtain ⟨t, rfl⟩ := hx
  unfold lookupName at h ⊢
  cases hf : A.find? (fun kv => kv.1.eq (.expr c)) with
  | none => simp [hf] at h
  | some kv =>
    rw [hf] at h
    simp only [List.find?_append, hf, Option.some_or]
    exact h

theorem lookupName_snoc {A : List (CCKey × String)} {c : Expr} (n : String)
    (h : A.find? (fun kv => kv.1.eq (.expr c)) = none) (hc : c.pyEq c = true) :
    lookupName (A ++ [(.expr c, n)]) c = some n := by
  unfold lookupName
  rw [List.find?_append, h]
  simp [CCKey.eq, hc]

/-! ### 5. the meaning of the printed tree in the extended environment -/

/-- the wrapper child `c` has a value, a name, and the name is bound to the value (as a C number) -/
def bnd (env envX : Env) (M : List (CCKey × String)) (c : Expr) : Bool :=
  match denV env (strip c), lookupName M c with
  | some w, some nm => envInt envX nm == some w.toInt
  | _, _ => false

/-- one tree means in `envX` (after printing) what the other means in `env` (as C numbers) -/
def SimAt (env envX : Env) (M : List (CCKey × String)) (e : Expr) : Prop :=
  ∀ w, denV env (strip e) = some w → ∃ w', denV envX (erase M e) = some w' ∧ w'.toInt = w.toInt

theorem bitV_defined (op : NaryOp) (hop : op = .band ∨ op = .bxor ∨ op = .bor) (x y : CVal)
    (hx : 0 ≤ x.toInt) (hy : 0 ≤ y.toInt) : ∃ r, bitV op x y = some r := by
  rcases hop with rfl | rfl | rfl <;> cases x <;> cases y <;> simp_all [bitV]

theorem bitV_congr (op : NaryOp) (hop : op = .band ∨ op = .bxor ∨ op = .bor) (x y x' y' r : CVal)
    (hx : x'.toInt = x.toInt) (hy : y'.toInt = y.toInt) (h : bitV op x y = some r) :
    ∃ r', bitV op x' y' = some r' ∧ r'.toInt = r.toInt := by
  obtain ⟨h1, h2, h3⟩ := bitV_toInt op x y r h
  obtain ⟨r', hr'⟩ := bitV_defined op hop x' y' (by omega) (by omega)
  obtain ⟨_, _, h3'⟩ := bitV_toInt op x' y' r' hr'
  exact ⟨r', hr', by rw [h3', h3, hx, hy]⟩

variable (env envX : Env) (M : List (CCKey × String))

theorem simL : ∀ cs : List Expr, (∀ x ∈ cs, SimAt env envX M x) →
    ∀ vs, denVL env (stripL cs) = some vs →
      ∃ vs', denVL envX (eraseL M cs) = some vs' ∧ vs'.map CVal.toInt = vs.map CVal.toInt
  | [], _, vs, h => by
      simp only [stripL, denVL, Option.some.injEq] at h
      subst h
      exact ⟨[], rfl, rfl⟩
  | c :: cs, hs, vs, h => by
      simp only [stripL, denVL] at h
      cases hc : denV env (strip c) with
      | none => simp [hc] at h
      | some v =>
        cases hl : denVL env (stripL cs) with
        | none => simp [hc, hl] at h
        | some vs0 =>
          simp only [hc, hl, Option.some.injEq] at h
          subst h
          obtain ⟨v', hv', hvt⟩ := hs c (by simp) v hc
          obtain ⟨vs', hvs', hvst⟩ := simL cs (fun x hx => hs x (by simp [hx])) vs0 hl
          exact ⟨v' :: vs', by simp [eraseL, denVL, hv', hvs'], by simp [hvt, hvst]⟩

theorem simBit (op : NaryOp) (hop : op = .band ∨ op = .bxor ∨ op = .bor) :
    ∀ (cs : List Expr) (acc acc' : CVal), acc'.toInt = acc.toInt → (∀ x ∈ cs, SimAt env envX M x) →
    ∀ w, denVBit env op acc (stripL cs) = some w →
      ∃ w', denVBit envX op acc' (eraseL M cs) = some w' ∧ w'.toInt = w.toInt
  | [], acc, acc', ha, _, w, h => by
      simp only [stripL, denVBit, Option.some.injEq] at h
      subst h
      exact ⟨acc', rfl, ha⟩
  | c :: cs, acc, acc', ha, hs, w, h => by
      simp only [stripL, denVBit] at h
      cases hc : denV env (strip c) with
      | none => simp [hc] at h
      | some v =>
        simp only [hc] at h
        cases hb : bitV op acc v with
        | none => simp [hb] at h
        | some a2 =>
          simp only [hb] at h
          obtain ⟨v', hv', hvt⟩ := hs c (by simp) v hc
          obtain ⟨a2', ha2', ha2t⟩ := bitV_congr op hop acc v acc' v' a2 ha hvt hb
          obtain ⟨w', hw', hwt⟩ := simBit op hop cs a2 a2' ha2t (fun x hx => hs x (by simp [hx])) w h
          exact ⟨w', by simp [eraseL, denVBit, hv', ha2', hw'], hwt⟩

theorem simAll : ∀ cs : List Expr, (∀ x ∈ cs, SimAt env envX M x) →
    ∀ w, denVAll env (stripL cs) = some w →
      ∃ w', denVAll envX (eraseL M cs) = some w' ∧ w'.toInt = w.toInt
  | [], _, w, h => by
      simp only [stripL, denVAll, Option.some.injEq] at h
      subst h
      exact ⟨_, rfl, rfl⟩
  | c :: cs, hs, w, h => by
      simp only [stripL, denVAll] at h
      cases hc : denV env (strip c) with
      | none => simp [hc] at h
      | some v =>
        simp only [hc] at h
        obtain ⟨v', hv', hvt⟩ := hs c (by simp) v hc
        by_cases hz : v.toInt = 0
        · simp only [hz, if_true, Option.some.injEq] at h
          subst h
          exact ⟨.b false, by simp [eraseL, denVAll, hv', hvt, hz], rfl⟩
        · simp only [hz, if_false] at h
          obtain ⟨w', hw', hwt⟩ := simAll cs (fun x hx => hs x (by simp [hx])) w h
          exact ⟨w', by simp [eraseL, denVAll, hv', hvt, hz, hw'], hwt⟩

theorem simAny : ∀ cs : List Expr, (∀ x ∈ cs, SimAt env envX M x) →
    ∀ w, denVAny env (stripL cs) = some w →
      ∃ w', denVAny envX (eraseL M cs) = some w' ∧ w'.toInt = w.toInt
  | [], _, w, h => by
      simp only [stripL, denVAny, Option.some.injEq] at h
      subst h
      exact ⟨_, rfl, rfl⟩
  | c :: cs, hs, w, h => by
      simp only [stripL, denVAny] at h
      cases hc : denV env (strip c) with
      | none => simp [hc] at h
      | some v =>
        simp only [hc] at h
        obtain ⟨v', hv', hvt⟩ := hs c (by simp) v hc
        by_cases hz : v.toInt = 0
        · simp only [hz, if_true] at h
          obtain ⟨w', hw', hwt⟩ := simAny cs (fun x hx => hs x (by simp [hx])) w h
          exact ⟨w', by simp [eraseL, denVAny, hv', hvt, hz, hw'], hwt⟩
        · simp only [hz, if_false, Option.some.injEq] at h
          subst h
          exact ⟨.b true, by simp [eraseL, denVAny, hv', hvt, hz], rfl⟩

/-- two operands, a result that depends on their numbers only -/
theorem sim2 {a b : Expr} (ha : SimAt env envX M a) (hb : SimAt env envX M b)
    {x y : CVal} (hx : denV env (strip a) = some x) (hy : denV env (strip b) = some y) :
    ∃ x' y', denV envX (erase M a) = some x' ∧ denV envX (erase M b) = some y' ∧
      x'.toInt = x.toInt ∧ y'.toInt = y.toInt := by
  obtain ⟨x', h1, h2⟩ := ha x hx
  obtain ⟨y', h3, h4⟩ := hb y hy
  exact ⟨x', y', h1, h3, h2, h4⟩

/-- **the printed tree means, in the environment extended by the assignments, what the tree
means**: if every outermost wrapper of `e` is bound to the value of its child (`bnd`) and the
extended environment agrees with the original one where that is defined -/
theorem sim (hext : ∀ x k, envInt env x = some k → envInt envX x = some k) :
    ∀ e, cFragCse e = true → cseAll false (bnd env envX M) e = true → SimAt env envX M e := by
  apply cFragCse_induct
  · intro n _ w h
    exact ⟨w, by simpa [strip, erase, denV] using h, rfl⟩
  · intro x _ w h
    simp only [strip, denV] at h
    cases hx : envInt env x with
    | none => simp [hx] at h
    | some k =>
      simp only [hx, Option.map_some, Option.some.injEq] at h
      subst h
      exact ⟨.i k, by simp [erase, denV, hext x k hx], rfl⟩
  · intro c p s _ _ hb w h
    simp only [cseAll, Bool.not_false, Bool.true_or, Bool.and_true, bnd] at hb
    simp only [strip] at h
    rw [h] at hb
    cases hl : lookupName M c with
    | none => simp [hl] at hb
    | some nm =>
      simp only [hl, beq_iff_eq] at hb
      exact ⟨.i w.toInt, by simp [erase, hl, denV, hb], rfl⟩
  · intro c cs _ h hb w hw
    simp only [cseAll, cseAllL_eq_all, List.all_eq_true] at hb
    have hs : ∀ x ∈ c :: cs, SimAt env envX M x := fun x hx => (h x hx).2 (hb x hx)
    have hw' : denV env (.nary .sum (stripL (c :: cs))) = some w := by simpa [strip, stripL] using hw
    simp only [denV] at hw'
    cases hl : denVL env (stripL (c :: cs)) with
    | none => simp [hl] at hw'
    | some vs =>
      simp only [hl, Option.map_some, Option.some.injEq] at hw'
      subst hw'
      obtain ⟨vs', h1, h2⟩ := simL env envX M (c :: cs) hs vs hl
      refine ⟨.i (sumL (vs'.map CVal.toInt)), ?_, by simp [h2]⟩
      have : erase M (.nary .sum (c :: cs)) = .nary .sum (eraseL M (c :: cs)) := by simp [erase]
      rw [this]
      simp only [denV, h1, Option.map_some]
  · intro c1 c2 cs h hb w hw
    simp only [cseAll, cseAllL_eq_all, List.all_eq_true] at hb
    have hs : ∀ x ∈ c1 :: c2 :: cs, SimAt env envX M x := fun x hx => (h x hx).2.2 (hb x hx)
    have hw' : denV env (.nary .prod (stripL (c1 :: c2 :: cs))) = some w := by
      simpa [strip, stripL] using hw
    simp only [denV] at hw'
    cases hl : denVL env (stripL (c1 :: c2 :: cs)) with
    | none => simp [hl] at hw'
    | some vs =>
      simp only [hl, Option.map_some, Option.some.injEq] at hw'
      subst hw'
      obtain ⟨vs', h1, h2⟩ := simL env envX M (c1 :: c2 :: cs) hs vs hl
      refine ⟨.i (prodL (vs'.map CVal.toInt)), ?_, by simp [h2]⟩
      have : erase M (.nary .prod (c1 :: c2 :: cs)) = .nary .prod (eraseL M (c1 :: c2 :: cs)) := by
        simp [erase]
      rw [this]
      simp only [denV, h1, Option.map_some]
  · intro op hop c1 c2 cs h hb w hw
    simp only [cseAll, cseAllL_eq_all, List.all_eq_true] at hb
    have hs : ∀ x ∈ c1 :: c2 :: cs, SimAt env envX M x := fun x hx => (h x hx).2 (hb x hx)
    rcases hop with rfl | rfl | rfl | rfl | rfl
    · simp only [strip, stripL, denV] at hw
      cases hc : denV env (strip c1) with
      | none => simp [hc] at hw
      | some v =>
        simp only [hc] at hw
        obtain ⟨v', hv', hvt⟩ := hs c1 (by simp) v hc
        obtain ⟨w', hw', hwt⟩ := simBit env envX M .band (by simp) (c2 :: cs) v v' hvt
          (fun x hx => hs x (by simp [hx])) w (by simpa [stripL] using hw)
        exact ⟨w', by simpa [erase, eraseL, denV, hv'] using hw', hwt⟩
    · simp only [strip, stripL, denV] at hw
      cases hc : denV env (strip c1) with
      | none => simp [hc] at hw
      | some v =>
        simp only [hc] at hw
        obtain ⟨v', hv', hvt⟩ := hs c1 (by simp) v hc
        obtain ⟨w', hw', hwt⟩ := simBit env envX M .bxor (by simp) (c2 :: cs) v v' hvt
          (fun x hx => hs x (by simp [hx])) w (by simpa [stripL] using hw)
        exact ⟨w', by simpa [erase, eraseL, denV, hv'] using hw', hwt⟩
    · simp only [strip, stripL, denV] at hw
      cases hc : denV env (strip c1) with
      | none => simp [hc] at hw
      | some v =>
        simp only [hc] at hw
        obtain ⟨v', hv', hvt⟩ := hs c1 (by simp) v hc
        obtain ⟨w', hw', hwt⟩ := simBit env envX M .bor (by simp) (c2 :: cs) v v' hvt
          (fun x hx => hs x (by simp [hx])) w (by simpa [stripL] using hw)
        exact ⟨w', by simpa [erase, eraseL, denV, hv'] using hw', hwt⟩
    · have hw' : denVAll env (stripL (c1 :: c2 :: cs)) = some w := by
        simpa [strip, stripL, denV] using hw
      obtain ⟨w', h1, h2⟩ := simAll env envX M (c1 :: c2 :: cs) hs w hw'
      exact ⟨w', by simpa [erase, eraseL, denV] using h1, h2⟩
    · have hw' : denVAny env (stripL (c1 :: c2 :: cs)) = some w := by
        simpa [strip, stripL, denV] using hw
      obtain ⟨w', h1, h2⟩ := simAny env envX M (c1 :: c2 :: cs) hs w hw'
      exact ⟨w', by simpa [erase, eraseL, denV] using h1, h2⟩
  · intro op hop a b _ _ ha hb hbn w hw
    have hbn' : cseAll false (bnd env envX M) a = true ∧ cseAll false (bnd env envX M) b = true := by
      simpa [cseAll, cseAllL] using hbn
    rcases hop with rfl | rfl
    · simp only [strip, stripL, denV] at hw
      cases hx : denV env (strip a) with
      | none => simp [hx] at hw
      | some x =>
        cases hy : denV env (strip b) with
        | none => simp [hx, hy] at hw
        | some y =>
          simp only [hx, hy, Option.some.injEq] at hw
          obtain ⟨x', y', h1, h2, h3, h4⟩ := sim2 env envX M (ha hbn'.1) (hb hbn'.2) hx hy
          refine ⟨if y'.toInt < x'.toInt then y' else x', by simp [erase, eraseL, denV, h1, h2], ?_⟩
          subst hw
          rw [h3, h4]
          split <;> assumption
    · simp only [strip, stripL, denV] at hw
      cases hx : denV env (strip a) with
      | none => simp [hx] at hw
      | some x =>
        cases hy : denV env (strip b) with
        | none => simp [hx, hy] at hw
        | some y =>
          simp only [hx, hy, Option.some.injEq] at hw
          obtain ⟨x', y', h1, h2, h3, h4⟩ := sim2 env envX M (ha hbn'.1) (hb hbn'.2) hx hy
          refine ⟨if x'.toInt < y'.toInt then y' else x', by simp [erase, eraseL, denV, h1, h2], ?_⟩
          subst hw
          rw [h3, h4]
          split <;> assumption
  · intro op hop a b _ _ ha hb hbn w hw
    have hbn' : cseAll false (bnd env envX M) a = true ∧ cseAll false (bnd env envX M) b = true := by
      simpa [cseAll] using hbn
    rcases hop with rfl | rfl | rfl <;>
    · simp only [strip, denV] at hw
      cases hx : denV env (strip a) with
      | none => simp [hx] at hw
      | some x =>
        cases hy : denV env (strip b) with
        | none => simp [hx, hy] at hw
        | some y =>
          simp only [hx, hy] at hw
          obtain ⟨x', y', h1, h2, h3, h4⟩ := sim2 env envX M (ha hbn'.1) (hb hbn'.2) hx hy
          split at hw
          · rename_i hg
            simp only [Option.some.injEq] at hw
            subst hw
            exact ⟨_, by simp only [erase, denV, h1, h2, h3, h4, hg, and_self, if_true], rfl⟩
          · cases hw
  · intro a b _ _ _ ha hb hbn w hw
    have hbn' : cseAll false (bnd env envX M) a = true ∧ cseAll false (bnd env envX M) b = true := by
      simpa [cseAll] using hbn
    simp only [strip, denV] at hw
    cases hx : denV env (strip a) with
    | none => simp [hx] at hw
    | some x =>
      cases hy : denV env (strip b) with
      | none => simp [hx, hy] at hw
      | some y =>
        simp only [hx, hy] at hw
        obtain ⟨x', y', h1, h2, h3, h4⟩ := sim2 env envX M (ha hbn'.1) (hb hbn'.2) hx hy
        split at hw
        · rename_i hg
          simp only [Option.some.injEq] at hw
          subst hw
          exact ⟨_, by simp only [erase, denV, h1, h2, h3, h4, hg, and_self, if_true], rfl⟩
        · cases hw
  · intro x _ w hw
    simp only [strip, denV] at hw
    cases hx : envInt env x with
    | none => simp [hx] at hw
    | some k =>
      simp only [hx, if_true, Option.map_some, Option.some.injEq] at hw
      subst hw
      exact ⟨_, by simp [erase, denV, hext x k hx], rfl⟩
  · intro op a _ ha hbn w hw
    have hbn' : cseAll false (bnd env envX M) a = true := by simpa [cseAll] using hbn
    cases op with
    | bnot =>
      simp only [strip, denV] at hw
      cases hx : denV env (strip a) with
      | none => simp [hx] at hw
      | some x =>
        simp only [hx, Option.map_some, Option.some.injEq] at hw
        obtain ⟨x', h1, h2⟩ := ha hbn' x hx
        subst hw
        exact ⟨.i (-x'.toInt - 1), by simp only [erase, denV, h1, Option.map_some], by simp [h2]⟩
    | lnot =>
      simp only [strip, denV] at hw
      cases hx : denV env (strip a) with
      | none => simp [hx] at hw
      | some x =>
        simp only [hx, Option.map_some, Option.some.injEq] at hw
        obtain ⟨x', h1, h2⟩ := ha hbn' x hx
        subst hw
        exact ⟨.b (x'.toInt == 0), by simp only [erase, denV, h1, Option.map_some], by rw [h2]⟩
  · intro op a b _ _ _ _ ha hb hbn w hw
    have hbn' : cseAll false (bnd env envX M) a = true ∧ cseAll false (bnd env envX M) b = true := by
      simpa [cseAll] using hbn
    simp only [strip, denV] at hw
    cases hx : denV env (strip a) with
    | none => simp [hx] at hw
    | some x =>
      cases hy : denV env (strip b) with
      | none => simp [hx, hy] at hw
      | some y =>
        simp only [hx, hy, Option.some.injEq] at hw
        obtain ⟨x', y', h1, h2, h3, h4⟩ := sim2 env envX M (ha hbn'.1) (hb hbn'.2) hx hy
        subst hw
        exact ⟨.b (c14CmpInt op x'.toInt y'.toInt), by simp only [erase, denV, h1, h2],
          by rw [h3, h4]⟩
  · intro c t e _ _ _ hc ht he hbn w hw
    have hbn' : (cseAll false (bnd env envX M) c = true ∧ cseAll false (bnd env envX M) t = true) ∧
        cseAll false (bnd env envX M) e = true := by
      simpa [cseAll] using hbn
    simp only [strip, denV] at hw
    cases hx : denV env (strip c) with
    | none => simp [hx] at hw
    | some x =>
      simp only [hx] at hw
      obtain ⟨x', h1, h2⟩ := hc hbn'.1.1 x hx
      by_cases hz : x.toInt = 0
      · simp only [hz, if_true] at hw
        obtain ⟨w', h3, h4⟩ := he hbn'.2 w hw
        exact ⟨w', by simp [erase, denV, h1, h2, hz, h3], h4⟩
      · simp only [hz, if_false] at hw
        obtain ⟨w', h3, h4⟩ := ht hbn'.1.2 w hw
        exact ⟨w', by simp [erase, denV, h1, h2, hz, h3], h4⟩

/-! ### 6. the invariant of histories -/

theorem cseAll_mono_frag (deep : Bool) (P Q : Expr → Bool)
    (h : ∀ c, cFragCse c = true → P c = true → Q c = true) :
    ∀ e, cFragCse e = true → cseAll deep P e = true → cseAll deep Q e = true := by
  apply cFragCse_induct
  · intro n _; rfl
  · intro x _; rfl
  · intro c p s hc ih hp
    simp only [cseAll, Bool.and_eq_true, Bool.or_eq_true, Bool.not_eq_true'] at hp ⊢
    exact ⟨h c hc hp.1, hp.2.imp id ih⟩
  · intro c cs _ hh hp
    simp only [cseAll, cseAllL_eq_all, List.all_eq_true] at hp ⊢
    exact fun x hx => (hh x hx).2 (hp x hx)
  · intro c1 c2 cs hh hp
    simp only [cseAll, cseAllL_eq_all, List.all_eq_true] at hp ⊢
    exact fun x hx => (hh x hx).2.2 (hp x hx)
  · intro op _ c1 c2 cs hh hp
    simp only [cseAll, cseAllL_eq_all, List.all_eq_true] at hp ⊢
    exact fun x hx => (hh x hx).2 (hp x hx)
  · intro op _ a b _ _ ha hb hp
    simp only [cseAll, cseAllL, Bool.and_eq_true, Bool.and_true] at hp ⊢
    exact ⟨ha hp.1, hb hp.2⟩
  · intro op _ a b _ _ ha hb hp
    simp only [cseAll, Bool.and_eq_true] at hp ⊢
    exact ⟨ha hp.1, hb hp.2⟩
  · intro a b _ _ _ ha hb hp
    simp only [cseAll, Bool.and_eq_true] at hp ⊢
    exact ⟨ha hp.1, hb hp.2⟩
  · intro x _; rfl
  · intro op a _ ha hp
    simp only [cseAll] at hp ⊢
    exact ha hp
  · intro op a b _ _ _ _ ha hb hp
    simp only [cseAll, Bool.and_eq_true] at hp ⊢
    exact ⟨ha hp.1, hb hp.2⟩
  · intro c t e _ _ _ hc ht he hp
    simp only [cseAll, Bool.and_eq_true] at hp ⊢
    exact ⟨⟨hc hp.1.1, ht hp.1.2⟩, he hp.2⟩

/-- every outermost wrapper child of `e` is a key of the dictionary -/
def closedIn (M : List (CCKey × String)) (e : Expr) : Bool :=
  cseAll false (fun c => (lookupName M c).isSome) e

theorem closedIn_ext {A M : List (CCKey × String)} (hx : TExt A M) (e : Expr)
    (hf : cFragCse e = true) (h : closedIn A e = true) : closedIn M e = true := by
  refine cseAll_mono_frag false _ _ ?_ e hf h
  intro c _ hc
  cases hl : lookupName A c with
  | none => simp [hl] at hc
  | some n => simp [lookupName_ext hl hx]

theorem runAssigns_append (env : Env) : ∀ (as bs : Assigns),
    runAssigns env (as ++ bs) = (runAssigns env as).bind (fun e => runAssigns e bs)
  | [], bs => by simp [runAssigns]
  | (n, d) :: as, bs => by
      simp only [List.cons_append, runAssigns]
      cases env.get n with
      | some _ => rfl
      | none =>
        cases denC env d with
        | none => rfl
        | some v => exact runAssigns_append _ as bs

theorem envInt_of_get {env : Env} {x : String} {k : Int} (h : env.get x = some (.int k)) :
    envInt env x = some k := by simp [envInt, h]

theorem get_cons (n : String) (v : Value) (env : Env) (x : String) :
    Env.get ((n, v) :: env) x = if n = x then some v else env.get x := rfl

/-- what is known between two calls: the accumulated assignments run (every name is new), leave the
variables of the original environment alone, and bind the name of every key of `cse_to_name` to the
value of that subexpression; the names are all in `cse_names` -/
structure PI (env0 : Env) (st : CSt) (as : Assigns) (envX : Env) : Prop where
  run : runAssigns env0 as = some envX
  ext : ∀ x v, env0.get x = some v → envX.get x = some v
  dom : ∀ x, envX.get x ≠ none → env0.get x ≠ none ∨ ∃ kv ∈ st.toName, kv.2 = x
  keys : ∀ kv ∈ st.toName, ∃ c w, kv.1 = .expr c ∧ cFragCse c = true ∧
    denV env0 (strip c) = some w ∧ envInt envX kv.2 = some w.toInt
  taken : ∀ kv ∈ st.toName, nameTaken st.names kv.2 = true

def ProgInv (env0 : Env) (st : CSt) (as : Assigns) : Prop := ∃ envX, PI env0 st as envX

theorem progInv_init (env0 : Env) (reverse : Bool) (pfx : String) :
    ProgInv env0 { reverse, pfx } [] :=
  ⟨env0, ⟨rfl, fun _ _ h => h, fun _ h => Or.inl h, by simp, by simp⟩⟩

theorem PI.hext {env0 : Env} {st : CSt} {as : Assigns} {envX : Env} (pi : PI env0 st as envX) :
    ∀ x k, envInt env0 x = some k → envInt envX x = some k :=
  fun x k h => envInt_of_get (pi.ext x _ (envInt_get h))

/-- the keys of `cse_to_name` are bound -/
theorem PI.bnd {env0 : Env} {st : CSt} {as : Assigns} {envX : Env} (pi : PI env0 st as envX)
    (e : Expr) (hf : cFragCse e = true) (hc : closedIn st.toName e = true) :
    cseAll false (bnd env0 envX st.toName) e = true := by
  refine cseAll_mono_frag false _ _ ?_ e hf hc
  intro c hfc hl
  cases hfind : st.toName.find? (fun kv => kv.1.eq (.expr c)) with
  | none => simp [lookupName, hfind] at hl
  | some kv =>
    have hmem := List.mem_of_find?_eq_some hfind
    have heq := List.find?_some hfind
    obtain ⟨c2, w, hk, hf2, hv, hb⟩ := pi.keys kv hmem
    rw [hk] at heq
    simp only [CCKey.eq] at heq
    have : c2 = c := (pyEq_iff_eq_simple (cFragCse_simple c2 hf2) (cFragCse_simple c hfc)).mp heq
    subst this
    simp [C14.bnd, hv, lookupName, hfind, hb]

variable (S : PrintPrec) (hA : PrecA S) (hB : PrecB S)

/-- **the value of a printed structure under the invariant**: if the text of `d` is what the
mapper prints for the wrapper-free tree `erase M e`, the C value of `d` after the assignments is
the value of `e` -/
theorem doc_value (hA : PrecA S) (hB : PrecB S) {env0 : Env} {st : CSt} {as : Assigns} {envX : Env}
    (pi : PI env0 st as envX) (fuel : Nat) (e : Expr) (enc : Nat) (d : Doc)
    (hf : cFragCse e = true) (hc : closedIn st.toName e = true)
    (hd : ccodeE S fuel st (erase st.toName e) enc = .ok (d, [], st))
    (w : CVal) (hw : denV env0 (strip e) = some w) : denC envX d = some w.toInt := by
  obtain ⟨hs, hval⟩ := value_core envX S true hA (fun _ => hB) fuel st (erase st.toName e) enc d []
    st (erase_frag st.toName e hf) hd
  obtain ⟨w', h1, h2⟩ := sim env0 envX st.toName pi.hext e hf (pi.bnd e hf hc) w hw
  rw [denC_eq_denT envX d hs.wf, hval w' h1, h2]

/-- what one call of the printer guarantees -/
def GoodP (env0 : Env) (f : PPrinter) (g : Printer) : Prop :=
  ∀ st e enc d r as st' as0, cFragCse e = true → cseTotal env0 e = true →
    f st e enc = .ok (d, r, as, st') → ProgInv env0 st as0 → (∀ a ∈ as, env0.get a.1 = none) →
    ProgInv env0 st' (as0 ++ as) ∧ TExt st.toName st'.toName ∧ st'.reverse = st.reverse ∧
    closedIn st'.toName e = true ∧
    (∀ M, TExt st'.toName M → ∀ st0 : CSt, st0.reverse = st.reverse →
      g st0 (erase M e) enc = .ok (d, [], st0))

theorem printAllP_good (env0 : Env) (f : PPrinter) (g : Printer) (hg : GoodP env0 f g) :
    ∀ pl st ds r as st' as0, (∀ it ∈ pl, cFragCse it.1 = true ∧ cseTotal env0 it.1 = true) →
      printAllP f st pl = .ok (ds, r, as, st') → ProgInv env0 st as0 →
      (∀ a ∈ as, env0.get a.1 = none) →
      ProgInv env0 st' (as0 ++ as) ∧ TExt st.toName st'.toName ∧ st'.reverse = st.reverse ∧
      (∀ it ∈ pl, closedIn st'.toName it.1 = true) ∧
      (∀ M, TExt st'.toName M → ∀ st0 : CSt, st0.reverse = st.reverse →
        printAll g st0 (pl.map (fun it => (erase M it.1, it.2))) = .ok (ds, [], st0)) := by
  intro pl
  induction pl with
  | nil =>
    intro st ds r as st' as0 _ h hi _
    simp only [printAllP, pure, Except.pure, Except.ok.injEq, Prod.mk.injEq] at h
    obtain ⟨rfl, rfl, rfl, rfl⟩ := h
    exact ⟨by simpa using hi, TExt.refl _, rfl, by simp, fun M _ st0 _ => rfl⟩
  | cons x rest ih =>
    intro st ds r as st' as0 hfr h hi hdis
    obtain ⟨e, enc⟩ := x
    simp only [printAllP, bind, Except.bind] at h
    cases h1 : f st e enc with
    | error err => simp [h1] at h
    | ok w =>
      obtain ⟨d1, r1, a1, st1⟩ := w
      simp only [h1] at h
      cases h2 : printAllP f st1 rest with
      | error err => simp [h2] at h
      | ok w2 =>
        obtain ⟨ds2, r2, a2, st2⟩ := w2
        simp only [h2, pure, Except.pure, Except.ok.injEq, Prod.mk.injEq] at h
        obtain ⟨rfl, rfl, rfl, rfl⟩ := h
        have hfe := hfr (e, enc) (by simp)
        obtain ⟨i1, x1, v1, c1, A1⟩ := hg st e enc d1 r1 a1 st1 as0 hfe.1 hfe.2 h1 hi
          (fun a ha => hdis a (by simp [ha]))
        obtain ⟨i2, x2, v2, c2, A2⟩ := ih st1 ds2 r2 a2 st2 (as0 ++ a1)
          (fun it hit => hfr it (by simp [hit])) h2 i1 (fun a ha => hdis a (by simp [ha]))
        refine ⟨by simpa [List.append_assoc] using i2, x1.trans x2, v2.trans v1, ?_, ?_⟩
        · intro it hit
          simp only [List.mem_cons] at hit
          rcases hit with rfl | hit
          · exact closedIn_ext x2 _ hfe.1 c1
          · exact c2 it hit
        · intro M hM st0 hr
          have e1 := A1 M (x2.trans hM) st0 hr
          have e2 := A2 M hM st0 (hr.trans v1.symm)
          simp only [List.map_cons, printAll, bind, Except.bind, e1, e2]
          rfl

theorem isCseB_erase (M : List (CCKey × String)) (e : Expr) : isCseB (erase M e) = false := by
  cases e <;> simp [erase, isCseB]

theorem ccodeE_succ (fuel : Nat) (st : CSt) (e : Expr) (enc : Nat) (h : isCseB e = false) :
    ccodeE S (fuel + 1) st e enc = ccodeGeneric S (ccodeE S fuel) st e enc := by
  cases e <;> simp [isCseB] at h <;> simp [ccodeE]

theorem progE_succ (fuel : Nat) (st : CSt) (e : Expr) (enc : Nat) (h : isCseB e = false) :
    progE S (fuel + 1) st e enc = progGeneric S (progE S fuel) st e enc := by
  cases e <;> simp [isCseB] at h <;> simp [progE]

theorem progGeneric_ok {f : PPrinter} {st : CSt} {e : Expr} {enc : Nat} {d : Doc}
    {refs : List String} {as : Assigns} {st' : CSt}
    (h : progGeneric S f st e enc = .ok (d, refs, as, st')) :
    ∃ pl ds, plan S e enc = .ok pl ∧ printAllP f st pl = .ok (ds, refs, as, st') ∧
      assemble S st.reverse e enc ds = .ok d := by
  simp only [progGeneric, bind, Except.bind] at h
  cases hp : plan S e enc with
  | error err => simp [hp] at h
  | ok pl =>
    simp only [hp] at h
    cases h2 : printAllP f st pl with
    | error err => simp [h2] at h
    | ok w =>
      obtain ⟨ds, r, a, st2⟩ := w
      simp only [h2] at h
      cases h3 : assemble S st.reverse e enc ds with
      | error err => simp [h3] at h
      | ok dd =>
        simp only [h3, pure, Except.pure, Except.ok.injEq, Prod.mk.injEq] at h
        obtain ⟨rfl, rfl, rfl, rfl⟩ := h
        exact ⟨pl, ds, rfl, h2, h3⟩

/-- every handler except `map_common_subexpression` -/
theorem generic_good (env0 : Env) (n : Nat) (ih : GoodP env0 (progE S n) (ccodeE S n))
    (st : CSt) (e : Expr) (enc : Nat) (d : Doc) (r : List String) (as : Assigns) (st' : CSt)
    (as0 : Assigns) (hf : cFragCse e = true) (ht : cseTotal env0 e = true) (hn : isCseB e = false)
    (h : progE S (n + 1) st e enc = .ok (d, r, as, st')) (hi : ProgInv env0 st as0)
    (hdis : ∀ a ∈ as, env0.get a.1 = none) :
    ProgInv env0 st' (as0 ++ as) ∧ TExt st.toName st'.toName ∧ st'.reverse = st.reverse ∧
    closedIn st'.toName e = true ∧
    (∀ M, TExt st'.toName M → ∀ st0 : CSt, st0.reverse = st.reverse →
      ccodeE S (n + 1) st0 (erase M e) enc = .ok (d, [], st0)) := by
  rw [progE_succ S n st e enc hn] at h
  obtain ⟨pl, ds, hp, hpa, has⟩ := progGeneric_ok S h
  obtain ⟨pl', hp', _, hfr, hall⟩ := plan_fragCse S [] e hf hn enc
  rw [hp] at hp'
  simp only [Except.ok.injEq] at hp'
  subst hp'
  have htot : ∀ it ∈ pl, cseTotal env0 it.1 = true := by
    have := hall true (fun c => (denVCse env0 c).isSome)
    simp only [cseTotal] at ht ⊢
    rw [this, List.all_eq_true] at ht
    exact ht
  obtain ⟨i2, x2, v2, c2, A2⟩ := printAllP_good env0 _ _ ih pl st ds r as st' as0
    (fun it hit => ⟨hfr it hit, htot it hit⟩) hpa hi hdis
  refine ⟨i2, x2, v2, ?_, ?_⟩
  · simp only [closedIn]
    rw [hall false, List.all_eq_true]
    exact c2
  · intro M hM st0 hr
    obtain ⟨pl2, hp2, hpe, _, _⟩ := plan_fragCse S M e hf hn enc
    rw [hp] at hp2
    simp only [Except.ok.injEq] at hp2
    subst hp2
    rw [ccodeE_succ S n st0 _ enc (isCseB_erase M e)]
    simp only [ccodeGeneric, bind, Except.bind, hpe, A2 M hM st0 hr, hr,
      assemble_erase S M st.reverse e hf hn enc ds, has]
    rfl

theorem nameTaken_append (l : List CCKey) (n x : String) :
    nameTaken (l ++ [.text n]) x = (nameTaken l x || n == x) := by
  simp [nameTaken, List.any_append]

theorem ccodeE_var (fuel : Nat) (st0 : CSt) (x : String) (enc : Nat) :
    ccodeE S (fuel + 1) st0 (.var x) enc = .ok (.var x, [], st0) := by
  simp [ccodeE, ccodeGeneric, plan, printAll, assemble, bind, Except.bind, pure, Except.pure]

/-- `map_common_subexpression` -/
theorem cse_good (hA : PrecA S) (hB : PrecB S) (env0 : Env) (n : Nat)
    (ih : GoodP env0 (progE S n) (ccodeE S n))
    (st : CSt) (c : Expr) (p : Option String) (sc : String) (enc : Nat) (d : Doc) (r : List String)
    (as : Assigns) (st' : CSt) (as0 : Assigns) (hf : cFragCse (.cse c p sc) = true)
    (ht : cseTotal env0 (.cse c p sc) = true)
    (h : progE S (n + 1) st (.cse c p sc) enc = .ok (d, r, as, st')) (hi : ProgInv env0 st as0)
    (hdis : ∀ a ∈ as, env0.get a.1 = none) :
    ProgInv env0 st' (as0 ++ as) ∧ TExt st.toName st'.toName ∧ st'.reverse = st.reverse ∧
    closedIn st'.toName (.cse c p sc) = true ∧
    (∀ M, TExt st'.toName M → ∀ st0 : CSt, st0.reverse = st.reverse →
      ccodeE S (n + 1) st0 (erase M (.cse c p sc)) enc = .ok (d, [], st0)) := by
  simp only [cFragCse] at hf
  have hself : c.pyEq c = true := pyEq_self_simple c (cFragCse_simple c hf)
  simp only [cseTotal, cseAll, Bool.not_true, Bool.false_or, Bool.and_eq_true] at ht
  obtain ⟨hdef, htc⟩ := ht
  simp only [progE] at h
  unfold progCse at h
  cases hl : c.hasList with
  | true => simp [hl, throw, throwThe, MonadExceptOf.throw] at h
  | false =>
    simp only [hl, Bool.false_eq_true, if_false] at h
    cases hk : st.toName.find? (fun kv => kv.1.eq (.expr c)) with
    | some kv =>
      simp only [hk, pure, Except.pure, Except.ok.injEq, Prod.mk.injEq] at h
      obtain ⟨rfl, rfl, rfl, rfl⟩ := h
      have hlk : lookupName st.toName c = some kv.2 := by simp [lookupName, hk]
      refine ⟨by simpa using hi, TExt.refl _, rfl, by simp [closedIn, cseAll, hlk], ?_⟩
      intro M hM st0 _
      simp only [erase, lookupName_ext hlk hM, Option.getD_some]
      exact ccodeE_var S n st0 kv.2 enc
    | none =>
      simp only [hk] at h
      cases h1 : progE S n st c S.none with
      | error err => simp [h1, throw, throwThe, MonadExceptOf.throw] at h
      | ok w1 =>
        obtain ⟨d1, r1, as1, st1⟩ := w1
        simp only [h1] at h
        cases hfn : freshName st1 p with
        | none => simp [hfn, throw, throwThe, MonadExceptOf.throw] at h
        | some nm =>
          simp only [hfn] at h
          cases hk1 : st1.toName.find? (fun kv => kv.1.eq (.expr c)) with
          | some kv => simp [hk1, throw, throwThe, MonadExceptOf.throw] at h
          | none =>
            simp only [hk1, pure, Except.pure, Except.ok.injEq, Prod.mk.injEq] at h
            obtain ⟨rfl, rfl, rfl, rfl⟩ := h
            have hd1 : ∀ a ∈ as1, env0.get a.1 = none := fun a ha => hdis a (by simp [ha])
            have hdn : env0.get nm = none := hdis (nm, d1) (by simp)
            obtain ⟨⟨envX1, pi1⟩, x1, v1, c1, A1⟩ := ih st c S.none d1 r1 as1 st1 as0 hf
              (by simpa [cseTotal] using htc) h1 hi hd1
            -- the value of the new right-hand side
            cases hw0 : denV env0 (strip c) with
            | none => simp [denVCse, hw0] at hdef
            | some w0 =>
              have hval : denC envX1 d1 = some w0.toInt :=
                doc_value S hA hB pi1 n c S.none d1 hf c1 (A1 _ (TExt.refl _) st1 v1) w0 hw0
              have hfree : nameTaken st1.names nm = false := firstFree_not_taken _ _ _ _ _ hfn
              have hne : ∀ kv ∈ st1.toName, kv.2 ≠ nm := by
                intro kv hkv heq
                have := pi1.taken kv hkv
                rw [heq, hfree] at this
                cases this
              have hnone : envX1.get nm = none := by
                cases hg : envX1.get nm with
                | none => rfl
                | some v =>
                  exfalso
                  rcases pi1.dom nm (by simp [hg]) with h0 | ⟨kv, hkv, heq⟩
                  · exact h0 hdn
                  · exact hne kv hkv heq
              refine ⟨⟨(nm, .int w0.toInt) :: envX1, ?_⟩, ?_, v1, ?_, ?_⟩
              · constructor
                · rw [← List.append_assoc, runAssigns_append, pi1.run]
                  simp [runAssigns, hnone, hval]
                · intro x v hx
                  have : nm ≠ x := by rintro rfl; rw [hdn] at hx; cases hx
                  rw [get_cons, if_neg this]
                  exact pi1.ext x v hx
                · intro x hx
                  rw [get_cons] at hx
                  by_cases hnx : nm = x
                  · exact Or.inr ⟨(.expr c, nm), by simp, hnx⟩
                  · rw [if_neg hnx] at hx
                    rcases pi1.dom x hx with h0 | ⟨kv, hkv, heq⟩
                    · exact Or.inl h0
                    · exact Or.inr ⟨kv, by simp [hkv], heq⟩
                · intro kv hkv
                  simp only [List.mem_append, List.mem_singleton] at hkv
                  rcases hkv with hkv | rfl
                  · obtain ⟨c2, w2, e1, e2, e3, e4⟩ := pi1.keys kv hkv
                    refine ⟨c2, w2, e1, e2, e3, ?_⟩
                    have : nm ≠ kv.2 := fun hh => hne kv hkv hh.symm
                    simpa [envInt, get_cons, this] using e4
                  · exact ⟨c, w0, rfl, hf, hw0, by simp [envInt, get_cons]⟩
                · intro kv hkv
                  simp only [List.mem_append, List.mem_singleton] at hkv
                  rw [nameTaken_append]
                  rcases hkv with hkv | rfl
                  · simp [pi1.taken kv hkv]
                  · simp
              · exact x1.trans ⟨[(.expr c, nm)], rfl⟩
              · simp [closedIn, cseAll, lookupName_snoc nm hk1 hself]
              · intro M hM st0 _
                have hlk := lookupName_ext (lookupName_snoc nm hk1 hself) hM
                simp only [erase, hlk, Option.getD_some]
                exact ccodeE_var S n st0 nm enc

/-- **every call keeps the invariant and prints the wrapper-free tree**, for every recursion
budget -/
theorem progE_good (hA : PrecA S) (hB : PrecB S) (env0 : Env) :
    ∀ fuel, GoodP env0 (progE S fuel) (ccodeE S fuel) := by
  intro fuel
  induction fuel with
  | zero =>
    intro st e enc d r as st' as0 _ _ h
    simp [progE, throw, throwThe, MonadExceptOf.throw] at h
  | succ n ih =>
    intro st e enc d r as st' as0 hf ht h hi hdis
    cases hc : isCseB e with
    | false => exact generic_good S env0 n ih st e enc d r as st' as0 hf ht hc h hi hdis
    | true =>
      cases e <;> simp [isCseB] at hc
      exact cse_good S hA hB env0 n ih st _ _ _ enc d r as st' as0 hf ht h hi hdis

/-! ### 7. the evaluator does not see wrappers -/

section strip
variable (env : Env)

theorem denFold_strip (o : NaryOp) : ∀ (cs : List Expr) (acc : Value),
    (∀ c ∈ cs, den env (strip c) = den env c) → denFold env o acc (stripL cs) = denFold env o acc cs
  | [], _, _ => rfl
  | c :: cs, acc, h => by
      simp only [stripL, denFold, h c (by simp), bind, Except.bind]
      cases den env c with
      | error e => rfl
      | ok v =>
        simp only []
        cases o.apply acc v with
        | error e => rfl
        | ok a => exact denFold_strip o cs a (fun x hx => h x (by simp [hx]))

theorem denReduce_strip (o : NaryOp) : ∀ (cs : List Expr),
    (∀ c ∈ cs, den env (strip c) = den env c) → denReduce env o (stripL cs) = denReduce env o cs
  | [], _ => rfl
  | c :: cs, h => by
      simp only [stripL, denReduce, h c (by simp), bind, Except.bind]
      cases den env c with
      | error e => rfl
      | ok v => exact denFold_strip env o cs v (fun x hx => h x (by simp [hx]))

theorem denAny_strip : ∀ (cs : List Expr),
    (∀ c ∈ cs, den env (strip c) = den env c) → denAny env (stripL cs) = denAny env cs
  | [], _ => rfl
  | c :: cs, h => by
      simp only [stripL, denAny, h c (by simp), denAny_strip cs (fun x hx => h x (by simp [hx]))]

theorem denAll_strip : ∀ (cs : List Expr),
    (∀ c ∈ cs, den env (strip c) = den env c) → denAll env (stripL cs) = denAll env cs
  | [], _ => rfl
  | c :: cs, h => by
      simp only [stripL, denAll, h c (by simp), denAll_strip cs (fun x hx => h x (by simp [hx]))]

theorem denMinMax_strip (isMin : Bool) : ∀ (cs : List Expr) (cur : Option Value),
    (∀ c ∈ cs, den env (strip c) = den env c) →
      denMinMax env isMin cur (stripL cs) = denMinMax env isMin cur cs
  | [], _, _ => rfl
  | c :: cs, cur, h => by
      simp only [stripL, denMinMax, h c (by simp), bind, Except.bind]
      cases den env c with
      | error e => rfl
      | ok v =>
        simp only []
        cases cur with
        | none => exact denMinMax_strip isMin cs _ (fun x hx => h x (by simp [hx]))
        | some m =>
          simp only []
          cases Value.better isMin v m with
          | error e => rfl
          | ok b => exact denMinMax_strip isMin cs _ (fun x hx => h x (by simp [hx]))

/-- **the evaluator gives a wrapper the value of its child**: `den` of a tree is `den` of the tree
without its wrappers -/
theorem den_strip : ∀ e : Expr, den env (strip e) = den env e := by
  intro e
  induction e using Expr.induct with
  | h e ih =>
    cases e with
    | cse c p s =>
      simp only [strip, den]
      exact ih c (by simp [Expr.children])
    | nary op cs =>
      have ihc : ∀ c ∈ cs, den env (strip c) = den env c :=
        fun c hc => ih c (by simp [Expr.children, hc])
      cases op <;> simp only [strip, den]
      · exact denFold_strip env _ cs _ ihc
      · exact denFold_strip env _ cs _ ihc
      · exact denReduce_strip env _ cs ihc
      · exact denReduce_strip env _ cs ihc
      · exact denReduce_strip env _ cs ihc
      · exact denAny_strip env cs ihc
      · exact denAll_strip env cs ihc
      · exact denMinMax_strip env _ cs _ ihc
      · exact denMinMax_strip env _ cs _ ihc
    | bin op a b =>
      simp only [strip, den, ih a (by simp [Expr.children]), ih b (by simp [Expr.children])]
    | un op a =>
      cases op <;> simp only [strip, den, ih a (by simp [Expr.children])]
    | cmp op a b =>
      simp only [strip, den, ih a (by simp [Expr.children]), ih b (by simp [Expr.children])]
    | ite c t e =>
      simp only [strip, den, ih c (by simp [Expr.children]), ih t (by simp [Expr.children]),
        ih e (by simp [Expr.children])]
    | _ => simp only [strip]

end strip

/-! ### 8. histories -/

/-- what stays known about an expression printed earlier: its text is the text of the wrapper-free
tree `erase M e` for every later dictionary `M` -/
def Printed (M0 : List (CCKey × String)) (rev : Bool) (e : Expr) (d : Doc) : Prop :=
  cFragCse e = true ∧ closedIn M0 e = true ∧
    ∀ M, TExt M0 M → ∀ st0 : CSt, st0.reverse = rev →
      ccodeE S (2 * e.size + 4) st0 (erase M e) S.none = .ok (d, [], st0)

theorem Printed.mono {A B : List (CCKey × String)} {rev : Bool} {e : Expr} {d : Doc}
    (h : Printed S A rev e d) (hx : TExt A B) : Printed S B rev e d :=
  ⟨h.1, closedIn_ext hx e h.1 h.2.1, fun M hM st0 hr => h.2.2 M (hx.trans hM) st0 hr⟩

theorem emitsP_good (hA : PrecA S) (hB : PrecB S) (env0 : Env) :
    ∀ es st ds as st' as0, (∀ e ∈ es, cFragCse e = true ∧ cseTotal env0 e = true) →
      emitsP S st es = .ok (ds, as, st') → ProgInv env0 st as0 →
      (∀ a ∈ as, env0.get a.1 = none) →
      ProgInv env0 st' (as0 ++ as) ∧ TExt st.toName st'.toName ∧ st'.reverse = st.reverse ∧
      ds.length = es.length ∧ ∀ p ∈ es.zip ds, Printed S st'.toName st.reverse p.1 p.2 := by
  intro es
  induction es with
  | nil =>
    intro st ds as st' as0 _ h hi _
    simp only [emitsP, pure, Except.pure, Except.ok.injEq, Prod.mk.injEq] at h
    obtain ⟨rfl, rfl, rfl⟩ := h
    exact ⟨by simpa using hi, TExt.refl _, rfl, rfl, by simp⟩
  | cons e rest ih =>
    intro st ds as st' as0 hfr h hi hdis
    simp only [emitsP, bind, Except.bind] at h
    cases h1 : emitProg S st e with
    | error err => simp [h1] at h
    | ok w =>
      obtain ⟨d1, r1, a1, st1⟩ := w
      simp only [h1] at h
      cases h2 : emitsP S st1 rest with
      | error err => simp [h2] at h
      | ok w2 =>
        obtain ⟨ds2, a2, st2⟩ := w2
        simp only [h2, pure, Except.pure, Except.ok.injEq, Prod.mk.injEq] at h
        obtain ⟨rfl, rfl, rfl⟩ := h
        have hfe := hfr e (by simp)
        obtain ⟨i1, x1, v1, c1, A1⟩ := progE_good S hA hB env0 _ st e _ d1 r1 a1 st1 as0 hfe.1 hfe.2
          h1 hi (fun a ha => hdis a (by simp [ha]))
        obtain ⟨i2, x2, v2, hl, P2⟩ := ih st1 ds2 a2 st2 (as0 ++ a1)
          (fun x hx => hfr x (by simp [hx])) h2 i1 (fun a ha => hdis a (by simp [ha]))
        refine ⟨by simpa [List.append_assoc] using i2, x1.trans x2, v2.trans v1, by simp [hl], ?_⟩
        intro p hp
        simp only [List.zip_cons_cons, List.mem_cons] at hp
        rcases hp with rfl | hp
        · exact Printed.mono S ⟨hfe.1, c1, A1⟩ x2
        · rw [← v1]; exact P2 p hp

/-- the value of an expression printed earlier, under the assignments accumulated since -/
theorem printed_value (hA : PrecA S) (hB : PrecB S) {env0 : Env} {st : CSt} {as : Assigns}
    (hi : ProgInv env0 st as) {e : Expr} {d : Doc} (hp : Printed S st.toName st.reverse e d)
    (w : CVal) (hw : denVCse env0 e = some w) :
    runProg env0 { assigns := as, expr := d } = some w.toInt ∧ den env0 e = .ok w.toValue := by
  obtain ⟨envX, pi⟩ := hi
  refine ⟨?_, ?_⟩
  · simp only [runProg, pi.run]
    exact doc_value S hA hB pi _ e S.none d hp.1 hp.2.1 (hp.2.2 _ (TExt.refl _) st rfl) w hw
  · rw [← den_strip]
    exact denV_sound env0 (strip e) w hw

/-! #### the assignments are `cse_name_list` -/

def entryPair (e : CEntry) : String × CCKey := (e.name, e.val)

def assignPair (a : String × Doc) : String × CCKey := (a.1, .text a.2.render)

def ListGood (f : PPrinter) : Prop :=
  ∀ st e enc d r as st', f st e enc = .ok (d, r, as, st') →
    st'.nameList.map entryPair = st.nameList.map entryPair ++ as.map assignPair

theorem printAllP_list (f : PPrinter) (hf : ListGood f) :
    ∀ pl st ds r as st', printAllP f st pl = .ok (ds, r, as, st') →
      st'.nameList.map entryPair = st.nameList.map entryPair ++ as.map assignPair := by
  intro pl
  induction pl with
  | nil =>
    intro st ds r as st' h
    simp only [printAllP, pure, Except.pure, Except.ok.injEq, Prod.mk.injEq] at h
    obtain ⟨_, _, rfl, rfl⟩ := h
    simp
  | cons x rest ih =>
    intro st ds r as st' h
    obtain ⟨e, enc⟩ := x
    simp only [printAllP, bind, Except.bind] at h
    cases h1 : f st e enc with
    | error err => simp [h1] at h
    | ok w =>
      obtain ⟨d1, r1, a1, st1⟩ := w
      simp only [h1] at h
      cases h2 : printAllP f st1 rest with
      | error err => simp [h2] at h
      | ok w2 =>
        obtain ⟨ds2, r2, a2, st2⟩ := w2
        simp only [h2, pure, Except.pure, Except.ok.injEq, Prod.mk.injEq] at h
        obtain ⟨_, _, rfl, rfl⟩ := h
        rw [ih st1 ds2 r2 a2 st2 h2, hf st e enc d1 r1 a1 st1 h1]
        simp

theorem progE_list : ∀ fuel, ListGood (progE S fuel) := by
  intro fuel
  induction fuel with
  | zero =>
    intro st e enc d r as st' h
    simp [progE, throw, throwThe, MonadExceptOf.throw] at h
  | succ n ih =>
    intro st e enc d r as st' h
    cases hc : isCseB e with
    | false =>
      rw [progE_succ S n st e enc hc] at h
      obtain ⟨pl, ds, _, hpa, _⟩ := progGeneric_ok S h
      exact printAllP_list _ ih pl st ds r as st' hpa
    | true =>
      cases e <;> simp [isCseB] at hc
      rename_i c p sc
      simp only [progE] at h
      unfold progCse at h
      cases hl : c.hasList with
      | true => simp [hl, throw, throwThe, MonadExceptOf.throw] at h
      | false =>
        simp only [hl, Bool.false_eq_true, if_false] at h
        cases hk : st.toName.find? (fun kv => kv.1.eq (.expr c)) with
        | some kv =>
          simp only [hk, pure, Except.pure, Except.ok.injEq, Prod.mk.injEq] at h
          obtain ⟨_, _, rfl, rfl⟩ := h
          simp
        | none =>
          simp only [hk] at h
          cases h1 : progE S n st c S.none with
          | error err => simp [h1, throw, throwThe, MonadExceptOf.throw] at h
          | ok w1 =>
            obtain ⟨d1, r1, as1, st1⟩ := w1
            simp only [h1] at h
            cases hfn : freshName st1 p with
            | none => simp [hfn, throw, throwThe, MonadExceptOf.throw] at h
            | some nm =>
              simp only [hfn] at h
              cases hk1 : st1.toName.find? (fun kv => kv.1.eq (.expr c)) with
              | some kv => simp [hk1, throw, throwThe, MonadExceptOf.throw] at h
              | none =>
                simp only [hk1, pure, Except.pure, Except.ok.injEq, Prod.mk.injEq] at h
                obtain ⟨_, _, rfl, rfl⟩ := h
                simp [ih st c S.none d1 r1 as1 st1 h1, entryPair, assignPair]

theorem emitsP_list : ∀ es st ds as st', emitsP S st es = .ok (ds, as, st') →
    st'.nameList.map entryPair = st.nameList.map entryPair ++ as.map assignPair := by
  intro es
  induction es with
  | nil =>
    intro st ds as st' h
    simp only [emitsP, pure, Except.pure, Except.ok.injEq, Prod.mk.injEq] at h
    obtain ⟨_, rfl, rfl⟩ := h
    simp
  | cons e rest ih =>
    intro st ds as st' h
    simp only [emitsP, bind, Except.bind] at h
    cases h1 : emitProg S st e with
    | error err => simp [h1] at h
    | ok w =>
      obtain ⟨d1, r1, a1, st1⟩ := w
      simp only [h1] at h
      cases h2 : emitsP S st1 rest with
      | error err => simp [h2] at h
      | ok w2 =>
        obtain ⟨ds2, a2, st2⟩ := w2
        simp only [h2, pure, Except.pure, Except.ok.injEq, Prod.mk.injEq] at h
        obtain ⟨_, rfl, rfl⟩ := h
        rw [ih st1 ds2 a2 st2 h2, progE_list S _ st e _ d1 r1 a1 st1 h1]
        simp

theorem emitsP_length : ∀ es st ds as st', emitsP S st es = .ok (ds, as, st') →
    ds.length = es.length := by
  intro es
  induction es with
  | nil =>
    intro st ds as st' h
    simp only [emitsP, pure, Except.pure, Except.ok.injEq, Prod.mk.injEq] at h
    obtain ⟨rfl, _, _⟩ := h
    rfl
  | cons e rest ih =>
    intro st ds as st' h
    simp only [emitsP, bind, Except.bind] at h
    cases h1 : emitProg S st e with
    | error err => simp [h1] at h
    | ok w =>
      obtain ⟨d1, r1, a1, st1⟩ := w
      simp only [h1] at h
      cases h2 : emitsP S st1 rest with
      | error err => simp [h2] at h
      | ok w2 =>
        obtain ⟨ds2, a2, st2⟩ := w2
        simp only [h2, pure, Except.pure, Except.ok.injEq, Prod.mk.injEq] at h
        obtain ⟨rfl, _, _⟩ := h
        simp [ih st1 ds2 a2 st2 h2]

/-- `emitsP` is `emits`: same texts, same final state -/
theorem emitsP_emits : ∀ es st,
    (emitsP S st es).map (fun o => (o.1.map Doc.render, o.2.2)) =
      (emits S st es).map (fun o => (o.1.map (·.1), o.2)) := by
  intro es
  induction es with
  | nil => intro st; rfl
  | cons e rest ih =>
    intro st
    simp only [emitsP, emits, bind, Except.bind]
    rw [← emitProg_ccode S st e]
    cases h1 : emitProg S st e with
    | error err => rfl
    | ok w =>
      obtain ⟨d1, r1, a1, st1⟩ := w
      simp only [Except.map, proj]
      have := ih st1
      cases h2 : emitsP S st1 rest with
      | error err =>
        rw [h2] at this
        cases h3 : emits S st1 rest with
        | error err2 =>
          rw [h3] at this
          simp only [Except.map, Except.error.injEq] at this
          subst this
          rfl
        | ok w3 => rw [h3] at this; cases this
      | ok w2 =>
        rw [h2] at this
        cases h3 : emits S st1 rest with
        | error err2 => rw [h3] at this; cases this
        | ok w3 =>
          rw [h3] at this
          simp only [Except.map, Except.ok.injEq, Prod.mk.injEq] at this
          simp [pure, Except.pure, this.1, this.2]

end PV.C14
