import PV.Proofs.SyntaxPrint
/-
  C07.  The parser model only ever consumes a prefix of its input: whatever a parse function
  returns as "rest" is a suffix of the token list it was given.
-/
namespace PV.Syntax
open PV

/-- a successful result leaves a suffix of `ts` -/
def Suf {α : Type} (ts : List Tok) (x : Except PErr (α × List Tok)) : Prop :=
  ∀ a r, x = .ok (a, r) → r <:+ ts

theorem Suf_pure {α : Type} {ts r : List Tok} {a : α} (h : r <:+ ts) :
    Suf ts (pure (a, r) : Except PErr (α × List Tok)) := by
  intro a' r' h'
  simp only [pure, Except.pure, Except.ok.injEq, Prod.mk.injEq] at h'
  rw [← h'.2]; exact h

theorem Suf_ok {α : Type} {ts r : List Tok} {a : α} (h : r <:+ ts) :
    Suf ts (.ok (a, r) : Except PErr (α × List Tok)) := Suf_pure h

theorem Suf_throw {α : Type} {ts : List Tok} {e : PErr} :
    Suf ts (throw e : Except PErr (α × List Tok)) := by
  intro a r h; cases h

theorem Suf_error {α : Type} {ts : List Tok} {e : PErr} :
    Suf ts (.error e : Except PErr (α × List Tok)) := by
  intro a r h; cases h

theorem Suf_bind {α β : Type} {ts : List Tok} {x : Except PErr (α × List Tok)}
    {f : α × List Tok → Except PErr (β × List Tok)} (hx : Suf ts x)
    (hf : ∀ a r, r <:+ ts → Suf ts (f (a, r))) : Suf ts (x >>= f) := by
  intro b r h
  obtain ⟨⟨a, r1⟩, h1, h2⟩ := bind_eq_ok.mp h
  exact hf a r1 (hx a r1 h1) b r h2

/-- binding a result that carries no rest (e.g. `parseNeg`) -/
theorem Suf_bind' {α β : Type} {ts : List Tok} {x : Except PErr α}
    {f : α → Except PErr (β × List Tok)} (hf : ∀ a, Suf ts (f a)) : Suf ts (x >>= f) := by
  intro b r h
  obtain ⟨a, _, h2⟩ := bind_eq_ok.mp h
  exact hf a b r h2

theorem Suf_mono {α : Type} {ts ts' : List Tok} {x : Except PErr (α × List Tok)}
    (h : ts' <:+ ts) (hx : Suf ts' x) : Suf ts x :=
  fun a r hr => (hx a r hr).trans h

theorem tail_suf {ts ts' : List Tok} (h : ts' <:+ ts) : ts'.tail <:+ ts :=
  (List.tail_suffix ts').trans h

set_option hygiene false in
macro "suf_side" : tactic => `(tactic| first
  | assumption
  | exact List.suffix_refl _
  | exact List.suffix_cons _ _
  | exact tail_suf (by assumption)
  | exact tail_suf (List.suffix_refl _)
  | exact (List.suffix_cons _ _).trans (by assumption)
  | exact (List.suffix_cons _ _).trans ((List.suffix_cons _ _).trans (by assumption))
  | exact (ihE _ _ _ _ (by assumption)).trans (by assumption)
  | exact (ihE _ _ _ _ (by assumption)))

set_option hygiene false in
macro "suf_step" : tactic => `(tactic| first
  | exact Suf_pure (by suf_side)
  | exact Suf_ok (by suf_side)
  | exact Suf_throw
  | exact Suf_error
  | exact Suf_mono (by suf_side) (ihL _ _ _ _)
  | exact Suf_mono (by suf_side) (ihA _ _ _ _ _)
  | exact Suf_mono (by suf_side) (ihE _ _)
  | (refine Suf_bind (Suf_mono (by suf_side) (ihE _ _)) ?_; intro _ _ _; dsimp only)
  | (refine Suf_bind (Suf_mono (by suf_side) (ihA _ _ _ _ _)) ?_; intro _ _ _; dsimp only)
  | (refine Suf_bind' ?_; intro _)
  | split)

/-- the four statements for a given fuel -/
def SufAll (P : ParserPrec) (f : Nat) : Prop :=
  (∀ m ts, Suf ts (parseExpr P f m ts)) ∧
  (∀ ts, Suf ts (parsePrefix P f ts)) ∧
  (∀ m l fin ts, Suf ts (postfixLoop P f m l fin ts)) ∧
  (∀ ts a kn kv ca, Suf ts (parseArglist P f ts a kn kv ca))

theorem sufE_step {P : ParserPrec} {f : Nat} (ih : SufAll P f) (m : Nat) (ts : List Tok) :
    Suf ts (parseExpr P (f + 1) m ts) := by
  simp only [parseExpr]
  refine Suf_bind (ih.2.1 ts) ?_
  rintro ⟨l, fin⟩ r hr
  exact Suf_mono hr (ih.2.2.1 m l fin r)

theorem sufL_step {P : ParserPrec} {f : Nat} (ih : SufAll P f) (m : Nat) (l : Expr) (fin : Bool)
    (ts : List Tok) : Suf ts (postfixLoop P (f + 1) m l fin ts) := by
  obtain ⟨ihE, ihP, ihL, ihA⟩ := ih
  cases ts with
  | nil => simp only [postfixLoop]; exact Suf_pure (List.suffix_refl _)
  | cons t ts =>
    have hts : ts <:+ t :: ts := List.suffix_cons _ _
    simp only [postfixLoop]
    split
    all_goals repeat' suf_step


theorem sufP_step {P : ParserPrec} {f : Nat} (ih : SufAll P f) (ts : List Tok) :
    Suf ts (parsePrefix P (f + 1) ts) := by
  obtain ⟨ihE, ihP, ihL, ihA⟩ := ih
  cases ts with
  | nil => simp only [parsePrefix]; exact Suf_throw
  | cons t ts =>
    have hts : ts <:+ t :: ts := List.suffix_cons _ _
    unfold parsePrefix
    split
    all_goals (try cases ‹_ + 1 = Nat.succ _›)
    all_goals (try cases ‹_ :: _ = _ :: _›)
    all_goals (try cases ‹_ :: _ = []›)
    all_goals repeat' suf_step

theorem sufA_step {P : ParserPrec} {f : Nat} (ih : SufAll P f) (ts : List Tok) (a : List Expr)
    (kn : List String) (kv : List Expr) (ca : Bool) :
    Suf ts (parseArglist P (f + 1) ts a kn kv ca) := by
  obtain ⟨ihE, ihP, ihL, ihA⟩ := ih
  cases ts with
  | nil => simp only [parseArglist]; exact Suf_throw
  | cons t ts =>
    have hts : ts <:+ t :: ts := List.suffix_cons _ _
    simp only [parseArglist]
    generalize hq : (if isSym "," (t :: ts) = true then (t :: ts).tail else t :: ts) = toks1
    have h1 : toks1 <:+ t :: ts := by
      rw [← hq]; split
      · exact List.tail_suffix _
      · exact List.suffix_refl _
    repeat' (first | suf_step | (subst_vars; suf_step))

theorem sufAll (P : ParserPrec) : ∀ f, SufAll P f
  | 0 => by
    refine ⟨?_, ?_, ?_, ?_⟩ <;> intros <;> simp only [parseExpr, parsePrefix, postfixLoop,
      parseArglist] <;> exact Suf_throw
  | f + 1 =>
    have ih := sufAll P f
    ⟨sufE_step ih, sufP_step ih, sufL_step ih, sufA_step ih⟩


/-- `parse_prefix` consumes at least one token -/
theorem sufP_strict {P : ParserPrec} (f : Nat) (t : Tok) (ts : List Tok) :
    Suf ts (parsePrefix P f (t :: ts)) := by
  cases f with
  | zero => simp only [parsePrefix]; exact Suf_throw
  | succ f =>
    obtain ⟨ihE, ihP, ihL, ihA⟩ := sufAll P f
    have hts : ts <:+ ts := List.suffix_refl _
    unfold parsePrefix
    split
    all_goals (try cases ‹_ + 1 = Nat.succ _›)
    all_goals (try cases ‹_ :: _ = _ :: _›)
    all_goals (try cases ‹_ :: _ = []›)
    all_goals repeat' suf_step

/-- a successful `parse_expression` consumes at least one token -/
theorem PEok_consumes {P : ParserPrec} {k m ts e R} (h : PEok P k m ts (e, R)) :
    R.length + 1 ≤ ts.length := by
  have h1 := h (k + 1) (by omega)
  cases ts with
  | nil => exact absurd rfl (PEok_ne_nil h)
  | cons t ts =>
    simp only [parseExpr] at h1
    obtain ⟨⟨⟨l, fin⟩, r1⟩, hp, hl⟩ := bind_eq_ok.mp h1
    have s1 : r1 <:+ ts := sufP_strict k t ts _ _ hp
    have s2 : R <:+ r1 := (sufAll P k).2.2.1 m l fin r1 e R hl
    have := (s2.trans s1).length_le
    simp only [List.length_cons]; omega

end PV.Syntax
