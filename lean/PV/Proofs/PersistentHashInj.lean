import PV.Proofs.PersistentHashTable
import PV.Model.PersistentHashSep
import Std.Data.String.ToInt
/-
  C17, persistent-hash digest: what the feed sequence determines.

  The feed of `PersistentHashWalkMapper` is a PREORDER listing of the tree: a node with a handler
  of its own starts with its class name, a variable is its bare name, a constant its bare `repr`;
  nothing marks where a child list ends, and the pieces are concatenated by the hash object.  So
  the digest can only be injective where

    (1) the token a node starts with tells which node it is — variable names and float reprs do
        not look like class names or like other constants (`c17TokClass`);
    (2) the number of children is determined by the class (`ar`: a rank discipline shared by the
        two trees) — the stock node classes `Sum`, `Product`, `Call`, … are variadic;
    (3) the fields that are never fed are disregarded (`c17Erase`: look-up names, CSE prefix and
        scope, substitution / derivative variable names, keyword names, wildcard names, `None`
        slice parts, the exact value behind a float `repr`);
    (4) the pieces are self-delimiting when concatenated (`C17PrefixFree`).

  Main results: `c17_digest_inj` (under (1)(2): equal chunk sequences ⇒ equal trees modulo (3)),
  `digest_c17Erase` (the converse, unconditional), `c17_flat_inj` (4).  Each hypothesis is
  necessary: the collision witnesses are in PV/Properties/C17.lean.
-/
set_option linter.unusedSimpArgs false
namespace PV.Pickle
open PV

theorem c17EraseL_eq_map : ∀ cs : List Expr, c17EraseL cs = cs.map c17Erase
  | [] => rfl
  | c :: cs => by simp [c17EraseL, c17EraseL_eq_map cs]

theorem c17EraseSlice_eq : ∀ cs : List Expr,
    c17EraseSlice cs = c17EraseL (cs.filter (fun c => !c.c04IsNone))
  | [] => rfl
  | c :: cs => by
    by_cases hn : c = .const .none
    · subst hn
      simp [c17EraseSlice, Expr.c04IsNone, c17EraseSlice_eq cs]
    · have h1 : c.c04IsNone = false := by
        cases c with
        | const k => cases k <;> first | rfl | exact absurd rfl hn
        | _ => rfl
      have h2 : c17EraseSlice (c :: cs) = c17Erase c :: c17EraseSlice cs := by
        cases c with
        | const k => cases k <;> first | (exact absurd rfl hn) | simp only [c17EraseSlice]
        | _ => simp only [c17EraseSlice]
      rw [h2, c17EraseSlice_eq cs, List.filter_cons]
      simp [h1, c17EraseL]

theorem digestSlice_eq_digestL (cs : List Expr) :
    digestSlice cs = digestL (cs.filter (fun c => !c.c04IsNone)) := by
  rw [digestSlice_eq_c04SeqL, digestL_eq_c04SeqL]

theorem c17SepL_iff {ar : String → Nat} : ∀ {cs : List Expr},
    c17SepL ar cs = true ↔ ∀ c ∈ cs, c17Sep ar c = true
  | [] => by simp [c17SepL]
  | d :: ds => by
    simp only [c17SepL, Bool.and_eq_true, List.forall_mem_cons, c17SepL_iff (cs := ds)]

/-! ### `repr` of an `int` -/

theorem c17_int_repr (n : Int) :
    (toString n).toList ≠ [] ∧ (toString n).toList.all c17NumCh = true := by
  have e : toString n = Int.repr n := rfl
  rw [e]
  cases n with
  | ofNat m =>
    have : (Int.ofNat m).repr = String.ofList (Nat.toDigits 10 m) := rfl
    rw [this, String.toList_ofList]
    refine ⟨Nat.toDigits_ne_nil, ?_⟩
    rw [List.all_eq_true]
    intro c hc
    simp [c17NumCh, Nat.isDigit_of_mem_toDigits (by omega) (by omega) hc]
  | negSucc m =>
    have : (Int.negSucc m).repr = "-" ++ String.ofList (Nat.toDigits 10 (m + 1)) := rfl
    rw [this, String.toList_append, String.toList_ofList]
    refine ⟨by simp, ?_⟩
    rw [List.all_eq_true]
    intro c hc
    rw [List.mem_append] at hc
    rcases hc with hc | hc
    · have : c = '-' := by simpa using hc
      subst this; decide
    · rw [String.toList_ofList] at hc
      simp [c17NumCh, Nat.isDigit_of_mem_toDigits (by omega) (by omega) hc]

theorem c17TokClass_int (n : Int) : c17TokClass (toString n) = (1, 1) := by
  obtain ⟨h1, h2⟩ := c17_int_repr n
  have h3 : (toString n).toList.isEmpty = false := by
    cases h : (toString n).toList with
    | nil => exact absurd h h1
    | cons _ _ => rfl
  have h4 : (!(toString n).toList.isEmpty && (toString n).toList.all c17NumCh) = true := by
    rw [h2, h3]; rfl
  simp only [c17TokClass, h4, if_true]

theorem c17_int_repr_inj {n m : Int} (h : toString n = toString m) : n = m :=
  Int.repr_injective h

/-! ### the first token of a digest -/

theorem c17_bind_ok {α β : Type} {x : Except DepErr α} {f : α → Except DepErr β} {b : β} :
    (x >>= f) = .ok b ↔ ∃ a, x = .ok a ∧ f a = .ok b := by
  cases x <;> simp [bind, Except.bind]

theorem c17_pure_ok {α : Type} {a b : α} : (pure a : Except DepErr α) = .ok b ↔ a = b := by
  simp [pure, Except.pure]

theorem c17TokClass_nary (o : NaryOp) : c17TokClass o.name = (10, o.c17Idx) := by
  cases o <;> decide

theorem c17TokClass_bin (o : BinOp) : c17TokClass o.name = (11, o.c17Idx) := by
  cases o <;> decide

theorem c17TokClass_un (o : UnOp) : c17TokClass o.name = (12, o.c17Idx) := by
  cases o <;> decide

/-- a successful digest starts with a token that reads as the root node -/
theorem c17_head (ar : String → Nat) (a : Expr) (la : List String) (hs : c17Sep ar a = true)
    (hd : digest a = .ok la) : ∃ h t, la = h :: t ∧ c17TokClass h = c17Tag a := by
  cases a with
  | const c =>
    cases c with
    | int n =>
      simp only [digest, constRepr, c17_pure_ok] at hd
      exact ⟨_, _, hd.symm, c17TokClass_int n⟩
    | bool b =>
      simp only [digest, constRepr, c17_pure_ok] at hd
      refine ⟨_, _, hd.symm, ?_⟩
      cases b <;> decide
    | flt r n d =>
      simp only [digest, constRepr, c17_pure_ok] at hd
      simp only [c17Sep, beq_iff_eq] at hs
      exact ⟨_, _, hd.symm, hs⟩
    | str s => simp [digest, constRepr, throw, throwThe, MonadExceptOf.throw] at hd
    | none => simp [digest, constRepr, throw, throwThe, MonadExceptOf.throw] at hd
  | var x =>
    simp only [digest, c17_pure_ok] at hd
    simp only [c17Sep, beq_iff_eq] at hs
    exact ⟨_, _, hd.symm, hs⟩
  | wildcard => simp only [digest, c17_pure_ok] at hd; exact ⟨_, _, hd.symm, by simp only [c17Tag]; decide⟩
  | dotWild _ => simp only [digest, c17_pure_ok] at hd; exact ⟨_, _, hd.symm, by simp only [c17Tag]; decide⟩
  | starWild _ => simp only [digest, c17_pure_ok] at hd; exact ⟨_, _, hd.symm, by simp only [c17Tag]; decide⟩
  | funcSym => simp only [digest, c17_pure_ok] at hd; exact ⟨_, _, hd.symm, by simp only [c17Tag]; decide⟩
  | nan => simp only [digest, c17_pure_ok] at hd; exact ⟨_, _, hd.symm, by simp only [c17Tag]; decide⟩
  | nary o cs =>
    simp only [digest, c17_bind_ok, c17_pure_ok] at hd
    obtain ⟨x, _, rfl⟩ := hd
    exact ⟨_, _, rfl, c17TokClass_nary o⟩
  | bin o x y =>
    cases o <;> simp only [digest, c17_bind_ok, c17_pure_ok] at hd <;>
      obtain ⟨_, _, _, _, rfl⟩ := hd <;> exact ⟨_, _, rfl, by simp only [c17Tag]; decide⟩
  | un o x =>
    simp only [digest, c17_bind_ok, c17_pure_ok] at hd
    obtain ⟨_, _, rfl⟩ := hd
    exact ⟨_, _, rfl, c17TokClass_un o⟩
  | cmp o x y =>
    simp only [digest, c17_bind_ok, c17_pure_ok] at hd
    obtain ⟨_, _, _, _, rfl⟩ := hd
    exact ⟨_, _, rfl, by simp only [c17Tag]; decide⟩
  | ite c t e =>
    simp only [digest, c17_bind_ok, c17_pure_ok] at hd
    obtain ⟨_, _, _, _, _, _, rfl⟩ := hd
    exact ⟨_, _, rfl, by simp only [c17Tag]; decide⟩
  | call f as =>
    simp only [digest, c17_bind_ok, c17_pure_ok] at hd
    obtain ⟨_, _, _, _, rfl⟩ := hd
    exact ⟨_, _, rfl, by simp only [c17Tag]; decide⟩
  | callKw f as ns vs =>
    simp only [digest, c17_bind_ok, c17_pure_ok] at hd
    obtain ⟨_, _, _, _, _, _, rfl⟩ := hd
    exact ⟨_, _, rfl, by simp only [c17Tag]; decide⟩
  | subscript x y =>
    simp only [digest, c17_bind_ok, c17_pure_ok] at hd
    obtain ⟨_, _, _, _, rfl⟩ := hd
    exact ⟨_, _, rfl, by simp only [c17Tag]; decide⟩
  | lookup x n =>
    simp only [digest, c17_bind_ok, c17_pure_ok] at hd
    obtain ⟨_, _, rfl⟩ := hd
    exact ⟨_, _, rfl, by simp only [c17Tag]; decide⟩
  | cse x p s =>
    simp only [digest, c17_bind_ok, c17_pure_ok] at hd
    obtain ⟨_, _, rfl⟩ := hd
    exact ⟨_, _, rfl, by simp only [c17Tag]; decide⟩
  | deriv x vs =>
    simp only [digest, c17_bind_ok, c17_pure_ok] at hd
    obtain ⟨_, _, rfl⟩ := hd
    exact ⟨_, _, rfl, by simp only [c17Tag]; decide⟩
  | subst x vs xs =>
    simp only [digest, c17_bind_ok, c17_pure_ok] at hd
    obtain ⟨_, _, _, _, rfl⟩ := hd
    exact ⟨_, _, rfl, by simp only [c17Tag]; decide⟩
  | slice cs =>
    simp only [digest, c17_bind_ok, c17_pure_ok] at hd
    obtain ⟨_, _, rfl⟩ := hd
    exact ⟨_, _, rfl, by simp only [c17Tag]; decide⟩
  | tuple cs =>
    simp only [digest, c17_bind_ok, c17_pure_ok] at hd
    obtain ⟨_, _, rfl⟩ := hd
    exact ⟨_, _, rfl, by simp only [c17Tag]; decide⟩
  | list cs =>
    simp only [digest, c17_bind_ok, c17_pure_ok] at hd
    obtain ⟨_, _, rfl⟩ := hd
    exact ⟨_, _, rfl, by simp only [c17Tag]; decide⟩

/-! ### prefix decoding -/

/-- the induction predicate: a separable tree is decoded from any feed it is a prefix of -/
def C17Inj (ar : String → Nat) (a : Expr) : Prop :=
  ∀ (b : Expr) (la lb ra rb : List String), c17Sep ar a = true → c17Sep ar b = true →
    digest a = .ok la → digest b = .ok lb → la ++ ra = lb ++ rb →
    c17Erase a = c17Erase b ∧ ra = rb

theorem c17InjL (ar : String → Nat) : ∀ (as bs : List Expr) (la lb ra rb : List String),
    (∀ a ∈ as, C17Inj ar a) → as.length = bs.length →
    (∀ a ∈ as, c17Sep ar a = true) → (∀ b ∈ bs, c17Sep ar b = true) →
    digestL as = .ok la → digestL bs = .ok lb → la ++ ra = lb ++ rb →
    c17EraseL as = c17EraseL bs ∧ ra = rb
  | [], [], la, lb, ra, rb, _, _, _, _, da, db, h => by
    simp only [digestL, c17_pure_ok] at da db
    subst da db
    exact ⟨rfl, by simpa using h⟩
  | [], _ :: _, _, _, _, _, _, hl, _, _, _, _, _ => by simp at hl
  | _ :: _, [], _, _, _, _, _, hl, _, _, _, _, _ => by simp at hl
  | a :: as, b :: bs, la, lb, ra, rb, ih, hl, sa, sb, da, db, h => by
    simp only [digestL, c17_bind_ok, c17_pure_ok] at da db
    obtain ⟨x, hx, y, hy, rfl⟩ := da
    obtain ⟨x', hx', y', hy', rfl⟩ := db
    simp only [List.forall_mem_cons] at ih sa sb
    simp only [List.length_cons, Nat.add_right_cancel_iff] at hl
    rw [List.append_assoc, List.append_assoc] at h
    obtain ⟨e1, h1⟩ := ih.1 b x x' (y ++ ra) (y' ++ rb) sa.1 sb.1 hx hx' h
    obtain ⟨e2, h2⟩ := c17InjL ar as bs y y' ra rb ih.2 hl sa.2 sb.2 hy hy' h1
    exact ⟨by simp only [c17EraseL, e1, e2], h2⟩

theorem NaryOp.c17Idx_inj {o o' : NaryOp} (h : o.c17Idx = o'.c17Idx) : o = o' := by
  cases o <;> cases o' <;> simp [NaryOp.c17Idx] at h <;> rfl

theorem BinOp.c17Idx_inj {o o' : BinOp} (h : o.c17Idx = o'.c17Idx) : o = o' := by
  cases o <;> cases o' <;> simp [BinOp.c17Idx] at h <;> rfl

theorem UnOp.c17Idx_inj {o o' : UnOp} (h : o.c17Idx = o'.c17Idx) : o = o' := by
  cases o <;> cases o' <;> simp [UnOp.c17Idx] at h <;> rfl

theorem CmpOp.sym_inj {o o' : CmpOp} (h : o.sym = o'.sym) : o = o' := by
  cases o <;> cases o' <;> first | rfl | (revert h; decide)

theorem c17_quote_inj {s t : String} (h : "'" ++ s ++ "'" = "'" ++ t ++ "'") : s = t := by
  have := congrArg String.toList h
  simp only [String.toList_append, List.append_assoc] at this
  apply String.ext
  have h2 := List.append_cancel_left this
  exact List.append_cancel_right h2

theorem c17_tail {h h' : String} {l l' r r' : List String}
    (e : (h :: l) ++ r = (h' :: l') ++ r') : l ++ r = l' ++ r' := by
  simp only [List.cons_append, List.cons.injEq] at e
  exact e.2

/-- **Prefix decoding of separable trees.** -/
theorem c17_inj_main (ar : String → Nat) (a : Expr) : C17Inj ar a := by
  induction a using Expr.induct with | _ a ih => ?_
  intro b la lb ra rb sa sb da db hcat
  obtain ⟨ha, ta, ea, ca⟩ := c17_head ar a la sa da
  obtain ⟨hb, tb, eb, cb⟩ := c17_head ar b lb sb db
  have hh : ha = hb := by
    rw [ea, eb] at hcat
    exact (List.cons.inj hcat).1
  have htag : c17Tag a = c17Tag b := by rw [← ca, ← cb, hh]
  clear ea eb ca cb hh
  cases a <;> cases b <;>
    simp only [c17Tag, Prod.mk.injEq, Nat.reduceEqDiff, false_and, and_false, and_true,
      true_and] at htag <;>
    simp only [Expr.children, List.forall_mem_cons, List.not_mem_nil, false_imp_iff, implies_true,
      and_true, List.mem_append] at ih
  case const.const c d =>
    cases c <;> cases d <;> simp only [Const.c17Idx, Nat.reduceEqDiff] at htag
    case int.int n m =>
      simp only [digest, constRepr, c17_pure_ok] at da db
      subst da db
      have := c17_int_repr_inj (List.cons.inj hcat).1
      subst this
      exact ⟨rfl, by simpa using hcat⟩
    case bool.bool x y =>
      simp only [digest, constRepr, c17_pure_ok] at da db
      subst da db
      have hxy : x = y := by
        have := (List.cons.inj hcat).1
        cases x <;> cases y <;> first | rfl | (revert this; decide)
      subst hxy
      exact ⟨rfl, by simpa using hcat⟩
    case flt.flt r n d r' n' d' =>
      simp only [digest, constRepr, c17_pure_ok] at da db
      subst da db
      have := (List.cons.inj hcat).1
      subst this
      exact ⟨rfl, by simpa using hcat⟩
    case str.str => simp [digest, constRepr, throw, throwThe, MonadExceptOf.throw] at da
    case none.none => simp [digest, constRepr, throw, throwThe, MonadExceptOf.throw] at da
  case var.var x y =>
    simp only [digest, c17_pure_ok] at da db
    subst da db
    have := (List.cons.inj hcat).1
    subst this
    exact ⟨rfl, by simpa using hcat⟩
  case wildcard.wildcard =>
    simp only [digest, c17_pure_ok] at da db
    subst da db
    exact ⟨rfl, by simpa using hcat⟩
  case dotWild.dotWild =>
    simp only [digest, c17_pure_ok] at da db
    subst da db
    exact ⟨rfl, by simpa using hcat⟩
  case starWild.starWild =>
    simp only [digest, c17_pure_ok] at da db
    subst da db
    exact ⟨rfl, by simpa using hcat⟩
  case funcSym.funcSym =>
    simp only [digest, c17_pure_ok] at da db
    subst da db
    exact ⟨rfl, by simpa using hcat⟩
  case nan.nan =>
    simp only [digest, c17_pure_ok] at da db
    subst da db
    exact ⟨rfl, by simpa using hcat⟩
  case nary.nary o cs o' cs' =>
    have := NaryOp.c17Idx_inj htag
    subst this
    simp only [c17Sep, Bool.and_eq_true, beq_iff_eq, c17SepL_iff] at sa sb
    simp only [digest, c17_bind_ok, c17_pure_ok] at da db
    obtain ⟨x, hx, rfl⟩ := da
    obtain ⟨x', hx', rfl⟩ := db
    have h := c17_tail hcat
    obtain ⟨e, hr⟩ := c17InjL ar cs cs' x x' ra rb ih (by rw [sa.1, sb.1]) sa.2 sb.2 hx hx' h
    exact ⟨by simp only [c17Erase, e], hr⟩
  case tuple.tuple cs cs' =>
    simp only [c17Sep, Bool.and_eq_true, beq_iff_eq, c17SepL_iff] at sa sb
    simp only [digest, c17_bind_ok, c17_pure_ok] at da db
    obtain ⟨x, hx, rfl⟩ := da
    obtain ⟨x', hx', rfl⟩ := db
    have h := c17_tail hcat
    obtain ⟨e, hr⟩ := c17InjL ar cs cs' x x' ra rb ih (by rw [sa.1, sb.1]) sa.2 sb.2 hx hx' h
    exact ⟨by simp only [c17Erase, e], hr⟩
  case list.list cs cs' =>
    simp only [c17Sep, Bool.and_eq_true, beq_iff_eq, c17SepL_iff] at sa sb
    simp only [digest, c17_bind_ok, c17_pure_ok] at da db
    obtain ⟨x, hx, rfl⟩ := da
    obtain ⟨x', hx', rfl⟩ := db
    have h := c17_tail hcat
    obtain ⟨e, hr⟩ := c17InjL ar cs cs' x x' ra rb ih (by rw [sa.1, sb.1]) sa.2 sb.2 hx hx' h
    exact ⟨by simp only [c17Erase, e], hr⟩
  case slice.slice cs cs' =>
    simp only [c17Sep, Bool.and_eq_true, beq_iff_eq, c17SepL_iff] at sa sb
    simp only [digest, c17_bind_ok, c17_pure_ok, digestSlice_eq_digestL] at da db
    obtain ⟨x, hx, rfl⟩ := da
    obtain ⟨x', hx', rfl⟩ := db
    have h := c17_tail hcat
    obtain ⟨e, hr⟩ := c17InjL ar _ _ x x' ra rb
      (fun c hc => ih c (List.mem_filter.1 hc).1) (by rw [sa.1, sb.1])
      (fun c hc => sa.2 c (List.mem_filter.1 hc).1) (fun c hc => sb.2 c (List.mem_filter.1 hc).1)
      hx hx' h
    exact ⟨by simp only [c17Erase, c17EraseSlice_eq, e], hr⟩
  case bin.bin o x y o' x' y' =>
    have := BinOp.c17Idx_inj htag
    subst this
    simp only [c17Sep, Bool.and_eq_true] at sa sb
    cases o <;> simp only [digest, c17_bind_ok, c17_pure_ok] at da db <;>
      obtain ⟨p, hp, q, hq, rfl⟩ := da <;> obtain ⟨p', hp', q', hq', rfl⟩ := db <;>
      have h := c17_tail hcat <;>
      rw [List.append_assoc, List.append_assoc] at h
    case lshift =>
      obtain ⟨e1, h1⟩ := ih.2 y' p p' _ _ sa.2 sb.2 hp hp' h
      obtain ⟨e2, h2⟩ := ih.1 x' q q' _ _ sa.1 sb.1 hq hq' h1
      exact ⟨by simp only [c17Erase, e1, e2], h2⟩
    case rshift =>
      obtain ⟨e1, h1⟩ := ih.2 y' p p' _ _ sa.2 sb.2 hp hp' h
      obtain ⟨e2, h2⟩ := ih.1 x' q q' _ _ sa.1 sb.1 hq hq' h1
      exact ⟨by simp only [c17Erase, e1, e2], h2⟩
    all_goals
      obtain ⟨e1, h1⟩ := ih.1 x' p p' _ _ sa.1 sb.1 hp hp' h
      obtain ⟨e2, h2⟩ := ih.2 y' q q' _ _ sa.2 sb.2 hq hq' h1
      exact ⟨by simp only [c17Erase, e1, e2], h2⟩
  case un.un o x o' x' =>
    have := UnOp.c17Idx_inj htag
    subst this
    simp only [c17Sep] at sa sb
    simp only [digest, c17_bind_ok, c17_pure_ok] at da db
    obtain ⟨p, hp, rfl⟩ := da
    obtain ⟨p', hp', rfl⟩ := db
    have h := c17_tail hcat
    obtain ⟨e1, h1⟩ := ih x' p p' _ _ sa sb hp hp' h
    exact ⟨by simp only [c17Erase, e1], h1⟩
  case lookup.lookup x n x' n' =>
    simp only [c17Sep] at sa sb
    simp only [digest, c17_bind_ok, c17_pure_ok] at da db
    obtain ⟨p, hp, rfl⟩ := da
    obtain ⟨p', hp', rfl⟩ := db
    have h := c17_tail hcat
    obtain ⟨e1, h1⟩ := ih x' p p' _ _ sa sb hp hp' h
    exact ⟨by simp only [c17Erase, e1], h1⟩
  case cse.cse x p0 s0 x' p1 s1 =>
    simp only [c17Sep] at sa sb
    simp only [digest, c17_bind_ok, c17_pure_ok] at da db
    obtain ⟨p, hp, rfl⟩ := da
    obtain ⟨p', hp', rfl⟩ := db
    have h := c17_tail hcat
    obtain ⟨e1, h1⟩ := ih x' p p' _ _ sa sb hp hp' h
    exact ⟨by simp only [c17Erase, e1], h1⟩
  case deriv.deriv x vs x' vs' =>
    simp only [c17Sep] at sa sb
    simp only [digest, c17_bind_ok, c17_pure_ok] at da db
    obtain ⟨p, hp, rfl⟩ := da
    obtain ⟨p', hp', rfl⟩ := db
    have h := c17_tail hcat
    obtain ⟨e1, h1⟩ := ih x' p p' _ _ sa sb hp hp' h
    exact ⟨by simp only [c17Erase, e1], h1⟩
  case subscript.subscript x y x' y' =>
    simp only [c17Sep, Bool.and_eq_true] at sa sb
    simp only [digest, c17_bind_ok, c17_pure_ok] at da db
    obtain ⟨p, hp, q, hq, rfl⟩ := da
    obtain ⟨p', hp', q', hq', rfl⟩ := db
    have h := c17_tail hcat
    rw [List.append_assoc, List.append_assoc] at h
    obtain ⟨e1, h1⟩ := ih.1 x' p p' _ _ sa.1 sb.1 hp hp' h
    obtain ⟨e2, h2⟩ := ih.2 y' q q' _ _ sa.2 sb.2 hq hq' h1
    exact ⟨by simp only [c17Erase, e1, e2], h2⟩
  case cmp.cmp o x y o' x' y' =>
    simp only [c17Sep, Bool.and_eq_true] at sa sb
    simp only [digest, c17_bind_ok, c17_pure_ok] at da db
    obtain ⟨p, hp, q, hq, rfl⟩ := da
    obtain ⟨p', hp', q', hq', rfl⟩ := db
    have h := c17_tail hcat
    rw [List.append_assoc, List.append_assoc] at h
    obtain ⟨e1, h1⟩ := ih.1 x' p p' _ _ sa.1 sb.1 hp hp' h
    have ho : o = o' := CmpOp.sym_inj (c17_quote_inj (List.cons.inj h1).1)
    subst ho
    obtain ⟨e2, h2⟩ := ih.2 y' q q' _ _ sa.2 sb.2 hq hq' (c17_tail h1)
    exact ⟨by simp only [c17Erase, e1, e2], h2⟩
  case ite.ite c t e c' t' e' =>
    simp only [c17Sep, Bool.and_eq_true] at sa sb
    simp only [digest, c17_bind_ok, c17_pure_ok] at da db
    obtain ⟨p, hp, q, hq, r, hr, rfl⟩ := da
    obtain ⟨p', hp', q', hq', r', hr', rfl⟩ := db
    have h := c17_tail hcat
    rw [List.append_assoc, List.append_assoc, List.append_assoc, List.append_assoc] at h
    obtain ⟨e1, h1⟩ := ih.1 c' p p' _ _ sa.1.1 sb.1.1 hp hp' h
    obtain ⟨e2, h2⟩ := ih.2.1 t' q q' _ _ sa.1.2 sb.1.2 hq hq' h1
    obtain ⟨e3, h3⟩ := ih.2.2 e' r r' _ _ sa.2 sb.2 hr hr' h2
    exact ⟨by simp only [c17Erase, e1, e2, e3], h3⟩
  case call.call f as f' as' =>
    simp only [c17Sep, Bool.and_eq_true, beq_iff_eq, c17SepL_iff] at sa sb
    simp only [digest, c17_bind_ok, c17_pure_ok] at da db
    obtain ⟨p, hp, q, hq, rfl⟩ := da
    obtain ⟨p', hp', q', hq', rfl⟩ := db
    have h := c17_tail hcat
    rw [List.append_assoc, List.append_assoc] at h
    obtain ⟨e1, h1⟩ := ih.1 f' p p' _ _ sa.1.1 sb.1.1 hp hp' h
    obtain ⟨e2, h2⟩ := c17InjL ar as as' q q' ra rb ih.2 (by rw [sa.1.2, sb.1.2]) sa.2 sb.2
      hq hq' h1
    exact ⟨by simp only [c17Erase, e1, e2], h2⟩
  case subst.subst f vs as f' vs' as' =>
    simp only [c17Sep, Bool.and_eq_true, beq_iff_eq, c17SepL_iff] at sa sb
    simp only [digest, c17_bind_ok, c17_pure_ok] at da db
    obtain ⟨p, hp, q, hq, rfl⟩ := da
    obtain ⟨p', hp', q', hq', rfl⟩ := db
    have h := c17_tail hcat
    rw [List.append_assoc, List.append_assoc] at h
    obtain ⟨e1, h1⟩ := ih.1 f' p p' _ _ sa.1.1 sb.1.1 hp hp' h
    obtain ⟨e2, h2⟩ := c17InjL ar as as' q q' ra rb ih.2 (by rw [sa.1.2, sb.1.2]) sa.2 sb.2
      hq hq' h1
    exact ⟨by simp only [c17Erase, e1, e2], h2⟩
  case callKw.callKw f as ns vs f' as' ns' vs' =>
    simp only [c17Sep, Bool.and_eq_true, beq_iff_eq, c17SepL_iff] at sa sb
    simp only [digest, c17_bind_ok, c17_pure_ok] at da db
    obtain ⟨p, hp, q, hq, r, hr, rfl⟩ := da
    obtain ⟨p', hp', q', hq', r', hr', rfl⟩ := db
    have h := c17_tail hcat
    rw [List.append_assoc, List.append_assoc, List.append_assoc, List.append_assoc] at h
    obtain ⟨⟨⟨⟨s1, s2⟩, s3⟩, s4⟩, s5⟩ := sa
    obtain ⟨⟨⟨⟨t1, t2⟩, t3⟩, t4⟩, t5⟩ := sb
    obtain ⟨e1, h1⟩ := ih.1 f' p p' _ _ s1 t1 hp hp' h
    obtain ⟨e2, h2⟩ := c17InjL ar as as' q q' _ _ (fun c hc => ih.2 c (Or.inl hc))
      (by rw [s2, t2]) s3 t3 hq hq' h1
    obtain ⟨e3, h3⟩ := c17InjL ar vs vs' r r' ra rb (fun c hc => ih.2 c (Or.inr hc))
      (by rw [s4, t4]) s5 t5 hr hr' h2
    exact ⟨by simp only [c17Erase, e1, e2, e3], h3⟩

/-- **Injectivity of the chunk sequence on separable trees**, up to what is never fed. -/
theorem c17_digest_inj (ar : String → Nat) (a b : Expr) (l : List String)
    (sa : c17Sep ar a = true) (sb : c17Sep ar b = true) (da : digest a = .ok l)
    (db : digest b = .ok l) : c17Erase a = c17Erase b :=
  (c17_inj_main ar a b l l [] [] sa sb da db rfl).1

/-! ### the converse: the digest does not see what `c17Erase` removes -/

theorem digestL_congr_map : ∀ (cs : List Expr), (∀ c ∈ cs, digest (c17Erase c) = digest c) →
    digestL (c17EraseL cs) = digestL cs
  | [], _ => rfl
  | c :: cs, h => by
    simp only [List.forall_mem_cons] at h
    simp only [c17EraseL, digestL, h.1, digestL_congr_map cs h.2]

/-- the digest of a tree is the digest of its erasure -/
theorem digest_c17Erase (a : Expr) : digest (c17Erase a) = digest a := by
  induction a using Expr.induct with | _ a ih => ?_
  cases a <;>
    simp only [Expr.children, List.forall_mem_cons, List.not_mem_nil, false_imp_iff, implies_true,
      and_true, List.mem_append] at ih
  case const c => cases c <;> simp [c17Erase, digest, constRepr]
  case bin o x y => cases o <;> simp only [c17Erase, digest, ih.1, ih.2]
  case nary o cs => simp only [c17Erase, digest, digestL_congr_map cs ih]
  case tuple cs => simp only [c17Erase, digest, digestL_congr_map cs ih]
  case list cs => simp only [c17Erase, digest, digestL_congr_map cs ih]
  case slice cs =>
    simp only [c17Erase, digest, digestSlice_eq_digestL, c17EraseSlice_eq]
    have hf : ∀ l : List Expr, (∀ c ∈ l, c.c04IsNone = false) →
        (c17EraseL l).filter (fun c => !c.c04IsNone) = c17EraseL l := by
      intro l hl
      induction l with
      | nil => rfl
      | cons c cs ihl =>
        simp only [List.forall_mem_cons] at hl
        have : (c17Erase c).c04IsNone = false := by
          have := hl.1
          cases c with
          | const k => cases k <;> first | rfl | (simp [Expr.c04IsNone] at this)
          | _ => rfl
        simp [c17EraseL, List.filter_cons, this, ihl hl.2]
    rw [hf _ (fun c hc => by simpa using (List.mem_filter.1 hc).2),
      digestL_congr_map _ (fun c hc => ih c (List.mem_filter.1 hc).1)]
  case call f as => simp only [c17Erase, digest, ih.1, digestL_congr_map as ih.2]
  case subst f vs as => simp only [c17Erase, digest, ih.1, digestL_congr_map as ih.2]
  case callKw f as ns vs =>
    simp only [c17Erase, digest, ih.1, digestL_congr_map as (fun c hc => ih.2 c (Or.inl hc)),
      digestL_congr_map vs (fun c hc => ih.2 c (Or.inr hc))]
  case ite c t e => simp only [c17Erase, digest, ih.1, ih.2.1, ih.2.2]
  all_goals first
    | (simp only [c17Erase, digest, ih.1, ih.2]; done)
    | (simp only [c17Erase, digest, ih]; done)
    | (simp only [c17Erase, digest]; done)

theorem digest_of_c17Erase_eq {a b : Expr} (h : c17Erase a = c17Erase b) :
    digest a = digest b := by
  rw [← digest_c17Erase a, ← digest_c17Erase b, h]

/-! ### concatenation of the pieces -/

theorem c17_enc_ne_nil {enc : String → List Char} (hp : C17PrefixFree enc) (t : String) :
    enc t ≠ [] := by
  intro h0
  have h := (hp t (t ++ "x") (enc (t ++ "x")) [] (by simp [h0])).1
  have := congrArg (fun s => s.toList.length) h
  simp [String.toList_append] at this

theorem c17_flat_inj {enc : String → List Char} (hp : C17PrefixFree enc) :
    ∀ (l₁ l₂ : List String), c17Flat enc l₁ = c17Flat enc l₂ → l₁ = l₂
  | [], [], _ => rfl
  | [], t :: l₂, h => by
    simp only [c17Flat, List.flatMap_nil, List.flatMap_cons] at h
    exact absurd (List.append_eq_nil_iff.1 h.symm).1 (c17_enc_ne_nil hp t)
  | s :: l₁, [], h => by
    simp only [c17Flat, List.flatMap_nil, List.flatMap_cons] at h
    exact absurd (List.append_eq_nil_iff.1 h).1 (c17_enc_ne_nil hp s)
  | s :: l₁, t :: l₂, h => by
    simp only [c17Flat, List.flatMap_cons] at h
    obtain ⟨rfl, h'⟩ := hp s t _ _ h
    rw [c17_flat_inj hp l₁ l₂ h']

end PV.Pickle
