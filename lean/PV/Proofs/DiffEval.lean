import PV.Model.Diff
import Mathlib.Analysis.SpecialFunctions.Pow.Real
import Mathlib.Analysis.SpecialFunctions.Trigonometric.Basic
import Mathlib.Tactic.Ring
import Mathlib.Tactic.Linarith
/-
  C10, part 1.  A total real-valued semantics `evalR` of expression trees and the soundness of
  the overloaded operators, of plain Python constant arithmetic and of
  `flattened_sum` / `flattened_product` with respect to it (the analogue over ℝ, with division and
  powers, of `PV/Proofs/OpsRing.lean`).

  Environments map *leaves* (variables and subscripted variables, as trees) to reals.
-/
namespace PV

open Real

/-- the real number a constant denotes (non-numbers: 0) -/
noncomputable def Const.toReal : Const → ℝ
  | .int n => (n : ℝ)
  | .bool b => if b then 1 else 0
  | .flt _ n d => (n : ℝ) / (d : ℝ)
  | _ => 0

def CmpOp.holds : CmpOp → ℝ → ℝ → Prop
  | .eq, a, b => a = b
  | .ne, a, b => a ≠ b
  | .lt, a, b => a < b
  | .le, a, b => a ≤ b
  | .gt, a, b => b < a
  | .ge, a, b => b ≤ a

/-- the function a call applies: `math.<name>`, or the bare variable `log` the power rule emits -/
def callFn? : Expr → Option MathFn
  | .var n => if n = "log" then some .log else none
  | f => mathFn? f

open Classical in
/-- the meaning of the functions of the table -/
noncomputable def evalCall : Option MathFn → List ℝ → ℝ
  | some .sin, [a] => Real.sin a
  | some .cos, [a] => Real.cos a
  | some .tan, [a] => Real.tan a
  | some .log, [a] => Real.log a
  | some .exp, [a] => Real.exp a
  | some .sinh, [a] => Real.sinh a
  | some .cosh, [a] => Real.cosh a
  | some .tanh, [a] => Real.tanh a
  | some .expm1, [a] => Real.exp a - 1
  | some .fabs, [a] => |a|
  | some .copysign, [a, b] => if 0 < b then |a| else if b < 0 then -|a| else 0
  | _, _ => 0

open Classical in
mutual
/-- real-valued meaning of a tree; nodes outside the differentiable fragment denote 0 -/
noncomputable def evalR (ρ : Expr → ℝ) : Expr → ℝ
  | .const c => c.toReal
  | .var n => ρ (.var n)
  | .subscript a i => ρ (.subscript a i)
  | .nary .sum cs => evalSum ρ cs
  | .nary .prod cs => evalProd ρ cs
  | .nary .lor cs => evalOr ρ cs
  | .nary .land cs => evalAnd ρ cs
  | .nary _ _ => 0
  | .bin .quot a b => evalR ρ a / evalR ρ b
  | .bin .pow a b => evalR ρ a ^ evalR ρ b
  | .bin _ _ _ => 0
  | .un .lnot a => if evalR ρ a = 0 then 1 else 0
  | .un _ _ => 0
  | .cmp o a b => if o.holds (evalR ρ a) (evalR ρ b) then 1 else 0
  | .ite c t e => if evalR ρ c = 0 then evalR ρ e else evalR ρ t
  | .call f args => evalCall (callFn? f) (evalArgs ρ args)
  | .cse c _ _ => evalR ρ c
  | _ => 0
noncomputable def evalSum (ρ : Expr → ℝ) : List Expr → ℝ
  | [] => 0
  | c :: cs => evalR ρ c + evalSum ρ cs
noncomputable def evalProd (ρ : Expr → ℝ) : List Expr → ℝ
  | [] => 1
  | c :: cs => evalR ρ c * evalProd ρ cs
noncomputable def evalOr (ρ : Expr → ℝ) : List Expr → ℝ
  | [] => 0
  | c :: cs => if evalR ρ c = 0 then evalOr ρ cs else 1
noncomputable def evalAnd (ρ : Expr → ℝ) : List Expr → ℝ
  | [] => 1
  | c :: cs => if evalR ρ c = 0 then 0 else evalAnd ρ cs
noncomputable def evalArgs (ρ : Expr → ℝ) : List Expr → List ℝ
  | [] => []
  | c :: cs => evalR ρ c :: evalArgs ρ cs
end

section
variable (ρ : Expr → ℝ)

@[simp] theorem evalR_zero : evalR ρ zero = 0 := by simp [zero, evalR, Const.toReal]
@[simp] theorem evalR_one : evalR ρ one = 1 := by simp [one, evalR, Const.toReal]
@[simp] theorem evalR_negOne : evalR ρ negOne = -1 := by simp [negOne, evalR, Const.toReal]
@[simp] theorem evalR_two : evalR ρ two = 2 := by simp [two, evalR, Const.toReal]

theorem evalSum_append : ∀ (xs ys : List Expr),
    evalSum ρ (xs ++ ys) = evalSum ρ xs + evalSum ρ ys
  | [], ys => by simp [evalSum]
  | x :: xs, ys => by simp [evalSum, evalSum_append xs ys, add_assoc]

theorem evalProd_append : ∀ (xs ys : List Expr),
    evalProd ρ (xs ++ ys) = evalProd ρ xs * evalProd ρ ys
  | [], ys => by simp [evalProd]
  | x :: xs, ys => by simp [evalProd, evalProd_append xs ys, mul_assoc]

/-! ### truthiness -/

theorem Const.falsy_toReal {c : Const} (h : c.truthy = false) : c.toReal = 0 := by
  cases c with
  | int n => simp [Const.truthy] at h; simp [Const.toReal, h]
  | bool b => simp [Const.truthy] at h; simp [Const.toReal, h]
  | flt r n d =>
    simp [Const.truthy] at h
    simp [Const.toReal, h.2]
  | str s => simp [Const.toReal]
  | none => simp [Const.toReal]

theorem Const.isOne_toReal {c : Const} (h : c.isOne = true) : c.toReal = 1 := by
  cases c with
  | int n => simp [Const.isOne] at h; simp [Const.toReal, h]
  | bool b => simp [Const.isOne] at h; simp [Const.toReal, h]
  | flt r n d =>
    simp [Const.isOne] at h
    obtain ⟨hd, hn⟩ := h
    have hd' : (d : ℝ) ≠ 0 := by exact_mod_cast hd
    simp [Const.toReal, hn, hd']
  | str s => simp [Const.isOne] at h
  | none => simp [Const.isOne] at h

mutual
theorem falsy_eval : ∀ (e : Expr), e.truthy = false → evalR ρ e = 0
  | .const c, h => by
      simp only [Expr.truthy] at h
      simp only [evalR]; exact Const.falsy_toReal h
  | .nary .sum cs, h => by
      simp only [Expr.truthy] at h
      simp only [evalR]; exact falsySum_eval cs h
  | .nary .prod cs, h => by
      simp only [Expr.truthy] at h
      simp only [evalR]; exact falsyProd_eval cs h
  | .bin .quot a b, h => by
      simp only [Expr.truthy] at h
      simp only [evalR, falsy_eval a h, zero_div]
  | .bin .floordiv _ _, _ | .bin .rem _ _, _ => by simp only [evalR]
  | .tuple _, _ | .list _, _ => by simp only [evalR]
  | .var _, h | .nary .bor _, h | .nary .bxor _, h | .nary .band _, h | .nary .lor _, h
  | .nary .land _, h | .nary .min _, h | .nary .max _, h | .bin .pow _ _, h
  | .bin .lshift _ _, h | .bin .rshift _ _, h | .un _ _, h | .cmp _ _ _, h | .ite _ _ _, h
  | .call _ _, h | .callKw _ _ _ _, h | .subscript _ _, h | .lookup _ _, h | .cse _ _ _, h
  | .subst _ _ _, h | .deriv _ _, h | .slice _, h | .nan, h | .wildcard, h | .dotWild _, h
  | .starWild _, h | .funcSym, h => by simp [Expr.truthy] at h
theorem falsySum_eval : ∀ (cs : List Expr), Expr.truthySum cs = false → evalSum ρ cs = 0
  | [], h => by simp [Expr.truthySum] at h
  | [c], h => by
      simp only [Expr.truthySum] at h
      simp only [evalSum, falsy_eval c h, add_zero]
  | _ :: _ :: _, h => by simp [Expr.truthySum] at h
theorem falsyProd_eval : ∀ (cs : List Expr), Expr.truthyProd cs = false → evalProd ρ cs = 0
  | [], h => by simp [Expr.truthyProd] at h
  | c :: cs, h => by
      simp only [Expr.truthyProd, Bool.and_eq_false_iff] at h
      simp only [evalProd]
      rcases h with h | h
      · rw [falsy_eval c h, zero_mul]
      · rw [falsyProd_eval cs h, mul_zero]
end

theorem isZero_eval {e : Expr} (h : e.isZero = true) : evalR ρ e = 0 := by
  simp only [Expr.isZero, Bool.not_eq_true'] at h
  exact falsy_eval ρ e h

theorem not_truthy_eval {e : Expr} (h : (!e.truthy) = true) : evalR ρ e = 0 := by
  simp only [Bool.not_eq_true'] at h
  exact falsy_eval ρ e h

theorem isOne_eval {e : Expr} (h : e.isOne = true) : evalR ρ e = 1 := by
  cases e <;> simp only [Expr.isOne] at h <;> try contradiction
  simp only [evalR]; exact Const.isOne_toReal h

/-! ### the dunder methods -/

theorem evalR_sum (cs : List Expr) : evalR ρ (.nary .sum cs) = evalSum ρ cs := by simp only [evalR]
theorem evalR_prod (cs : List Expr) : evalR ρ (.nary .prod cs) = evalProd ρ cs := by
  simp only [evalR]

theorem rmulD_eval {self other t : Expr} (h : rmulD self other = .ret t) :
    evalR ρ t = evalR ρ other * evalR ρ self := by
  unfold rmulD at h
  split at h
  · contradiction
  · split at h
    · split at h
      · injection h with h; subst h
        rw [isZero_eval ρ ‹other.isZero = true›, zero_mul, evalR_zero]
      · split at h
        · injection h with h; subst h
          rw [isOne_eval ρ ‹other.isOne = true›, one_mul]
        · injection h with h; subst h
          simp only [evalR, evalProd]
    · split at h
      · injection h with h; subst h
        rw [isOne_eval ρ ‹other.isOne = true›, one_mul]
      · split at h
        · injection h with h; subst h
          rw [isZero_eval ρ ‹other.isZero = true›, zero_mul, evalR_zero]
        · injection h with h; subst h
          simp only [evalR, evalProd, mul_one]

theorem mulD_eval {self other t : Expr} (h : mulD self other = .ret t) :
    evalR ρ t = evalR ρ self * evalR ρ other := by
  unfold mulD at h
  split at h
  · contradiction
  · split at h
    · split at h
      · injection h with h; subst h
        simp only [evalR, evalProd_append]
      · split at h
        · injection h with h; subst h
          rw [isZero_eval ρ ‹other.isZero = true›, mul_zero, evalR_zero]
        · split at h
          · injection h with h; subst h
            rw [isOne_eval ρ ‹other.isOne = true›, mul_one]
          · injection h with h; subst h
            simp only [evalR, evalProd_append, evalProd, mul_one]
    · split at h
      · injection h with h; subst h
        rw [isOne_eval ρ ‹other.isOne = true›, mul_one]
      · split at h
        · injection h with h; subst h
          rw [isZero_eval ρ ‹other.isZero = true›, mul_zero, evalR_zero]
        · injection h with h; subst h
          simp only [evalR, evalProd, mul_one]

theorem Const.neg_toReal {c c' : Const} (h : c.neg = some c') : c'.toReal = -c.toReal := by
  cases c with
  | int n => simp [Const.neg] at h; subst h; simp [Const.toReal]
  | bool b =>
    simp [Const.neg] at h; subst h
    cases b <;> simp [Const.toReal]
  | flt r n d => simp [Const.neg] at h; subst h; simp [Const.toReal, neg_div]
  | str s => simp [Const.neg] at h
  | none => simp [Const.neg] at h

theorem negE_eval {e n : Expr} (h : negE e = .ok n) : evalR ρ n = -evalR ρ e := by
  unfold negE at h
  split at h
  · split at h
    · simp only [pure, Except.pure] at h
      injection h with h; subst h
      simp only [evalR]; exact Const.neg_toReal ‹_›
    · simp only [throw, throwThe, MonadExceptOf.throw] at h; contradiction
  · split at h
    · split at h
      · rename_i r hr
        simp only [pure, Except.pure] at h
        injection h with h; subst h
        rw [rmulD_eval ρ hr, evalR_negOne, neg_one_mul]
      · simp only [throw, throwThe, MonadExceptOf.throw] at h; contradiction
    · simp only [throw, throwThe, MonadExceptOf.throw] at h; contradiction

theorem exprAdd_eval {self other t : Expr} (h : exprAdd self other = .ret t) :
    evalR ρ t = evalR ρ self + evalR ρ other := by
  unfold exprAdd at h
  split at h
  · contradiction
  · split at h
    · split at h
      · split at h
        · injection h with h; subst h
          simp only [evalR, evalSum]
        · injection h with h; subst h
          simp only [evalR, evalSum, add_zero]
      · injection h with h; subst h
        rename_i hst
        simp only [Bool.not_eq_true] at hst
        rw [falsy_eval ρ _ hst, zero_add]
    · injection h with h; subst h
      rename_i hot
      simp only [Bool.not_eq_true] at hot
      rw [falsy_eval ρ _ hot, add_zero]

theorem addD_eval {self other t : Expr} (h : addD self other = .ret t) :
    evalR ρ t = evalR ρ self + evalR ρ other := by
  unfold addD at h
  split at h
  · split at h
    · contradiction
    · split at h
      · injection h with h; subst h
        simp only [evalR, evalSum_append]
      · split at h
        · injection h with h; subst h
          rename_i hot
          simp only [Bool.not_eq_true'] at hot
          rw [falsy_eval ρ _ hot, add_zero]
        · injection h with h; subst h
          simp only [evalR, evalSum_append, evalSum, add_zero]
  · exact exprAdd_eval ρ h

theorem raddD_eval {self other t : Expr} (h : raddD self other = .ret t) :
    evalR ρ t = evalR ρ other + evalR ρ self := by
  unfold raddD at h
  split at h
  · split at h
    · contradiction
    · split at h
      · injection h with h; subst h
        rename_i hot
        simp only [Bool.not_eq_true'] at hot
        rw [falsy_eval ρ _ hot, zero_add]
      · injection h with h; subst h
        simp only [evalR, evalSum]
  · split at h
    · contradiction
    · split at h
      · split at h
        · injection h with h; subst h
          simp only [evalR, evalSum, add_zero]
        · injection h with h; subst h
          rename_i hst
          simp only [Bool.not_eq_true] at hst
          rw [falsy_eval ρ _ hst, add_zero]
      · injection h with h; subst h
        rename_i hot
        simp only [Bool.not_eq_true] at hot
        rw [falsy_eval ρ _ hot, zero_add]

theorem subD_eval {self other t : Expr} (h : subD self other = .ret t) :
    evalR ρ t = evalR ρ self - evalR ρ other := by
  unfold subD at h
  split at h
  · split at h
    · contradiction
    · split at h
      · injection h with h; subst h
        rename_i hot
        simp only [Bool.not_eq_true'] at hot
        rw [falsy_eval ρ _ hot, sub_zero]
      · split at h
        · rename_i n hn
          injection h with h; subst h
          simp only [evalR, evalSum_append, evalSum, add_zero, negE_eval ρ hn]
          ring
        · contradiction
  · split at h
    · contradiction
    · split at h
      · split at h
        · rename_i n hn
          rw [exprAdd_eval ρ h, negE_eval ρ hn]; ring
        · contradiction
      · injection h with h; subst h
        rename_i hot
        simp only [Bool.not_eq_true] at hot
        rw [falsy_eval ρ _ hot, sub_zero]

theorem rsubD_eval {self other t : Expr} (h : rsubD self other = .ret t) :
    evalR ρ t = evalR ρ other - evalR ρ self := by
  unfold rsubD at h
  split at h
  · contradiction
  · split at h
    · contradiction
    · rename_i n hn
      have hn' := negE_eval ρ hn
      split at h
      · injection h with h; subst h
        simp only [evalR, evalSum, add_zero, hn']; ring
      · injection h with h; subst h
        rename_i hot
        simp only [Bool.not_eq_true] at hot
        rw [falsy_eval ρ _ hot, zero_sub, hn']

theorem divD_eval {self other t : Expr} (h : divD self other = .ret t) :
    evalR ρ t = evalR ρ self / evalR ρ other := by
  unfold divD at h
  split at h
  · contradiction
  · split at h
    · injection h with h; subst h
      rw [isOne_eval ρ ‹other.isOne = true›, div_one]
    · injection h with h; subst h
      simp only [evalR]

theorem rdivD_eval {self other t : Expr} (h : rdivD self other = .ret t) :
    evalR ρ t = evalR ρ other / evalR ρ self := by
  unfold rdivD at h
  split at h
  · contradiction
  · split at h
    · injection h with h; subst h
      rw [isZero_eval ρ ‹other.isZero = true›, zero_div, evalR_zero]
    · injection h with h; subst h
      simp only [evalR]

theorem powD_eval {self other t : Expr} (h : powD self other = .ret t) :
    evalR ρ t = evalR ρ self ^ evalR ρ other := by
  unfold powD at h
  split at h
  · contradiction
  · split at h
    · injection h with h; subst h
      rw [isZero_eval ρ ‹other.isZero = true›, Real.rpow_zero, evalR_one]
    · split at h
      · injection h with h; subst h
        rw [isOne_eval ρ ‹other.isOne = true›, Real.rpow_one]
      · injection h with h; subst h
        simp only [evalR]

/-- `0 ** x` is folded to `0` (known finding of C03): sound only where the exponent is not 0 -/
theorem rpowD_eval {self other t : Expr} (h : rpowD self other = .ret t)
    (hne : evalR ρ other ≠ 0 ∨ evalR ρ self ≠ 0) :
    evalR ρ t = evalR ρ other ^ evalR ρ self := by
  unfold rpowD at h
  split at h
  · contradiction
  · split at h
    · injection h with h; subst h
      have h0 := isZero_eval ρ ‹other.isZero = true›
      rcases hne with hne | hne
      · exact absurd h0 hne
      · rw [h0, Real.zero_rpow hne, evalR_zero]
    · split at h
      · injection h with h; subst h
        rw [isOne_eval ρ ‹other.isOne = true›, Real.one_rpow, evalR_one]
      · injection h with h; subst h
        simp only [evalR]

theorem dispatch_eval {fwd refl : Expr → Expr → Dunder} (g : ℝ → ℝ → ℝ) {x y t : Expr}
    (hf : ∀ {t : Expr}, fwd x y = .ret t → evalR ρ t = g (evalR ρ x) (evalR ρ y))
    (hr : ∀ {t : Expr}, refl y x = .ret t → evalR ρ t = g (evalR ρ x) (evalR ρ y))
    (h : dispatch fwd refl x y = .ok t) :
    evalR ρ t = g (evalR ρ x) (evalR ρ y) := by
  unfold dispatch at h
  simp only [pure, Except.pure, throw, throwThe, MonadExceptOf.throw] at h
  split at h
  · split at h
    · rename_i r hr'
      injection h with h; subst h
      exact hf hr'
    · contradiction
    · split at h
      · split at h
        · rename_i r hr'
          injection h with h; subst h
          exact hr hr'
        · contradiction
        · contradiction
      · contradiction
  · split at h
    · split at h
      · split at h
        · rename_i r hr'
          injection h with h; subst h
          exact hr hr'
        · contradiction
        · contradiction
      · contradiction
    · contradiction

theorem bin_add_eval {x y t : Expr} (h : Ops.bin .add x y = .ok t) :
    evalR ρ t = evalR ρ x + evalR ρ y :=
  dispatch_eval ρ (· + ·) (addD_eval ρ) (raddD_eval ρ) h

theorem bin_sub_eval {x y t : Expr} (h : Ops.bin .sub x y = .ok t) :
    evalR ρ t = evalR ρ x - evalR ρ y :=
  dispatch_eval ρ (· - ·) (subD_eval ρ) (rsubD_eval ρ) h

theorem bin_mul_eval {x y t : Expr} (h : Ops.bin .mul x y = .ok t) :
    evalR ρ t = evalR ρ x * evalR ρ y :=
  dispatch_eval ρ (· * ·) (mulD_eval ρ) (rmulD_eval ρ) h

theorem bin_div_eval {x y t : Expr} (h : Ops.bin .truediv x y = .ok t) :
    evalR ρ t = evalR ρ x / evalR ρ y :=
  dispatch_eval ρ (· / ·) (divD_eval ρ) (rdivD_eval ρ) h

theorem bin_pow_eval {x y t : Expr} (h : Ops.bin .pow x y = .ok t)
    (hne : evalR ρ x ≠ 0 ∨ evalR ρ y ≠ 0) :
    evalR ρ t = evalR ρ x ^ evalR ρ y :=
  dispatch_eval ρ (· ^ ·) (powD_eval ρ) (fun h => rpowD_eval ρ h hne) h

/-! ### plain Python arithmetic on two constants -/

/-- integer a constant operand of `constBin` stands for -/
def Const.asInt? : Const → Option Int
  | .int n => some n
  | .bool b => some (if b then 1 else 0)
  | _ => Option.none

theorem Const.asInt_toReal {c : Const} {n : Int} (h : c.asInt? = some n) : c.toReal = n := by
  cases c with
  | int m => simp [Const.asInt?] at h; subst h; simp [Const.toReal]
  | bool b => simp [Const.asInt?] at h; subst h; cases b <;> simp [Const.toReal]
  | flt r m d => simp [Const.asInt?] at h
  | str s => simp [Const.asInt?] at h
  | none => simp [Const.asInt?] at h

theorem constBin_add_eval {a b : Const} {t : Expr} (h : constBin .add a b = .ok t) :
    evalR ρ t = a.toReal + b.toReal := by
  cases a <;> cases b <;>
    simp [constBin, Const.toValue?, PyBinOp.onValues, Value.add, arith, Value.isInexact,
      Value.isSeq, Value.num?, addN, Value.toConst?, pure, Except.pure, throw, throwThe,
      MonadExceptOf.throw] at h
  all_goals (subst h; simp [evalR, Const.toReal])

theorem constBin_sub_eval {a b : Const} {t : Expr} (h : constBin .sub a b = .ok t) :
    evalR ρ t = a.toReal - b.toReal := by
  cases a <;> cases b <;>
    simp [constBin, Const.toValue?, PyBinOp.onValues, Value.sub, arith, Value.isInexact,
      Value.isSeq, Value.num?, subN, Value.toConst?, pure, Except.pure, throw, throwThe,
      MonadExceptOf.throw] at h
  all_goals (subst h; simp [evalR, Const.toReal])

theorem constBin_mul_eval {a b : Const} {t : Expr} (h : constBin .mul a b = .ok t) :
    evalR ρ t = a.toReal * b.toReal := by
  cases a <;> cases b <;>
    simp [constBin, Const.toValue?, PyBinOp.onValues, Value.mul, arith, Value.isInexact,
      Value.isSeq, Value.num?, mulN, Value.toConst?, pure, Except.pure, throw, throwThe,
      MonadExceptOf.throw] at h
  all_goals (subst h; simp [evalR, Const.toReal])

theorem constBin_div_ne {a b : Const} {t : Expr} : constBin .truediv a b ≠ .ok t := by
  intro h
  cases a <;> cases b <;>
    simp [constBin, Const.toValue?, PyBinOp.onValues, Value.div, arith, Value.isInexact,
      Value.isSeq, Value.num?, divN, Value.toConst?, pure, Except.pure, throw, throwThe,
      MonadExceptOf.throw] at h
  all_goals
    split at h
    · rename_i heq
      split at heq
      · simp at heq
      · simp at heq; subst heq; simp at h
    · simp at h
    · simp at h

theorem constBin_pow_int {m n : Int} {t : Expr} (h : constBin .pow (.int m) (.int n) = .ok t) :
    0 ≤ n ∧ t = .const (.int (m ^ n.toNat)) := by
  simp [constBin, Const.toValue?, PyBinOp.onValues, Value.pow, arith, Value.isInexact,
      Value.isSeq, Value.num?, powN, Value.toConst?, pure, Except.pure, throw, throwThe,
      MonadExceptOf.throw] at h
  split at h
  · rename_i v heq
    split at heq
    · simp at heq
    · split at heq
      · simp at heq; subst heq; simp at h
        exact ⟨‹0 ≤ n›, h.symm⟩
      · split at heq
        · simp at heq
        · simp at heq; subst heq; simp at h
  · simp at h
  · simp at h

theorem constBin_pow_eval {a b : Const} {t : Expr} (h : constBin .pow a b = .ok t) :
    evalR ρ t = a.toReal ^ b.toReal := by
  have key : ∀ m n : Int, constBin .pow (.int m) (.int n) = .ok t →
      evalR ρ t = (m : ℝ) ^ (n : ℝ) := by
    intro m n h
    obtain ⟨h0, rfl⟩ := constBin_pow_int h
    simp only [evalR, Const.toReal, Int.cast_pow]
    rw [← Real.rpow_natCast]
    congr 1
    exact_mod_cast (Int.toNat_of_nonneg h0)
  cases a with
  | int m =>
    cases b with
    | int n => simpa [Const.toReal] using key m n h
    | bool c =>
      cases c
      · have h' : constBin .pow (.int m) (.int 0) = .ok t := h
        simpa [Const.toReal] using key m 0 h'
      · have h' : constBin .pow (.int m) (.int 1) = .ok t := h
        simpa [Const.toReal] using key m 1 h'
    | _ => simp [constBin, Const.toValue?] at h
  | bool d =>
    have hd : (Const.bool d).toReal = ((if d then 1 else 0 : Int) : ℝ) := by
      cases d <;> simp [Const.toReal]
    cases b with
    | int n =>
      have h' : constBin .pow (.int (if d then 1 else 0)) (.int n) = .ok t := by
        cases d <;> exact h
      rw [hd]; simpa [Const.toReal] using key _ n h'
    | bool c =>
      have hc : (Const.bool c).toReal = ((if c then 1 else 0 : Int) : ℝ) := by
        cases c <;> simp [Const.toReal]
      have h' : constBin .pow (.int (if d then 1 else 0)) (.int (if c then 1 else 0)) = .ok t := by
        cases d <;> cases c <;> exact h
      rw [hd, hc]; exact key _ _ h'
    | _ => simp [constBin, Const.toValue?] at h
  | _ => simp [constBin, Const.toValue?] at h

/-! ### Python `a <op> b`, `-a` -/

theorem pyBin_add_eval {a b t : Expr} (h : pyBin .add a b = .ok t) :
    evalR ρ t = evalR ρ a + evalR ρ b := by
  unfold pyBin at h
  split at h
  · simp only [evalR]; exact constBin_add_eval ρ h
  · exact bin_add_eval ρ h

theorem pyBin_sub_eval {a b t : Expr} (h : pyBin .sub a b = .ok t) :
    evalR ρ t = evalR ρ a - evalR ρ b := by
  unfold pyBin at h
  split at h
  · simp only [evalR]; exact constBin_sub_eval ρ h
  · exact bin_sub_eval ρ h

theorem pyBin_mul_eval {a b t : Expr} (h : pyBin .mul a b = .ok t) :
    evalR ρ t = evalR ρ a * evalR ρ b := by
  unfold pyBin at h
  split at h
  · simp only [evalR]; exact constBin_mul_eval ρ h
  · exact bin_mul_eval ρ h

theorem pyBin_div_eval {a b t : Expr} (h : pyBin .truediv a b = .ok t) :
    evalR ρ t = evalR ρ a / evalR ρ b := by
  unfold pyBin at h
  split at h
  · exact absurd h constBin_div_ne
  · exact bin_div_eval ρ h

theorem pyBin_pow_eval {a b t : Expr} (h : pyBin .pow a b = .ok t)
    (hne : evalR ρ a ≠ 0 ∨ evalR ρ b ≠ 0) :
    evalR ρ t = evalR ρ a ^ evalR ρ b := by
  unfold pyBin at h
  split at h
  · simp only [evalR]; exact constBin_pow_eval ρ h
  · exact bin_pow_eval ρ h hne

theorem pyNeg_eval {a t : Expr} (h : pyNeg a = .ok t) : evalR ρ t = -evalR ρ a := by
  unfold pyNeg at h
  split at h
  · rename_i c
    cases c <;> simp [Const.toValue?, pure, Except.pure, throw, throwThe, MonadExceptOf.throw] at h
    · subst h; simp [evalR, Const.toReal]
    · subst h; rename_i b; cases b <;> simp [evalR, Const.toReal]
  · split at h
    · exact negE_eval ρ h
    · simp [throw, throwThe, MonadExceptOf.throw] at h

/-! ### `flattened_sum`, `flattened_product` -/

theorem Expr.size_pos (e : Expr) : 0 < e.size := by
  cases e <;> simp only [Expr.size] <;> omega

theorem Expr.sizeL_append : ∀ (xs ys : List Expr),
    Expr.sizeL (xs ++ ys) = Expr.sizeL xs + Expr.sizeL ys
  | [], ys => by simp [Expr.sizeL]
  | x :: xs, ys => by simp [Expr.sizeL, Expr.sizeL_append xs ys, Nat.add_assoc]

theorem flattenedSumLoop_eval : ∀ (fuel : Nat) (queue done : List Expr),
    Expr.sizeL queue < fuel →
    evalSum ρ (flattenedSumLoop fuel queue done) = evalSum ρ done + evalSum ρ queue
  | 0, _, _, h => by omega
  | fuel + 1, [], done, _ => by simp [flattenedSumLoop, evalSum]
  | fuel + 1, item :: queue, done, h => by
      have hp := Expr.size_pos item
      simp only [Expr.sizeL] at h
      simp only [flattenedSumLoop]
      split
      · rename_i hz
        rw [flattenedSumLoop_eval fuel queue done (by omega)]
        simp only [evalSum, isZero_eval ρ hz, zero_add]
      · split
        · rename_i cs hnz
          simp only [Expr.size] at h
          rw [flattenedSumLoop_eval fuel (cs ++ queue) done
            (by rw [Expr.sizeL_append]; omega)]
          simp only [evalSum, evalSum_append, evalR]
        · rw [flattenedSumLoop_eval fuel queue (done ++ [item]) (by omega)]
          simp only [evalSum, evalSum_append, add_zero]; ring

theorem flattenedSum_eval (ts : List Expr) : evalR ρ (flattenedSum ts) = evalSum ρ ts := by
  have h := flattenedSumLoop_eval ρ (Expr.sizeL ts + ts.length + 1) ts [] (by omega)
  unfold flattenedSum
  split
  · rename_i heq; rw [heq] at h
    simpa [evalSum] using h
  · rename_i x heq; rw [heq] at h
    simpa [evalSum] using h
  · rename_i xs _ _
    simpa [evalSum, evalR] using h

/-- what `flattenedProductLoop` returns: `none` marks the early `return 0` -/
def prodSpec (target : ℝ) : Option (List Expr) → Prop
  | Option.none => target = 0
  | some r => evalProd ρ r = target

theorem flattenedProductLoop_eval : ∀ (fuel : Nat) (queue done : List Expr),
    Expr.sizeL queue < fuel →
    prodSpec ρ (evalProd ρ done * evalProd ρ queue) (flattenedProductLoop fuel queue done)
  | 0, _, _, h => by omega
  | fuel + 1, [], done, _ => by simp [flattenedProductLoop, evalProd, prodSpec]
  | fuel + 1, item :: queue, done, h => by
      have hp := Expr.size_pos item
      simp only [Expr.sizeL] at h
      simp only [flattenedProductLoop]
      split
      · rename_i hz
        simp only [prodSpec, evalProd, isZero_eval ρ hz, zero_mul, mul_zero]
      · split
        · rename_i h1
          have ih := flattenedProductLoop_eval fuel queue done (by omega)
          simp only [evalProd, isOne_eval ρ h1, one_mul]
          exact ih
        · split
          · rename_i cs hnz hn1
            simp only [Expr.size] at h
            have ih := flattenedProductLoop_eval fuel (cs ++ queue) done
              (by rw [Expr.sizeL_append]; omega)
            have e : evalProd ρ done * evalProd ρ (cs ++ queue) =
                evalProd ρ done * evalProd ρ (Expr.nary NaryOp.prod cs :: queue) := by
              simp only [evalProd, evalProd_append, evalR]
            rw [e] at ih; exact ih
          · have ih := flattenedProductLoop_eval fuel queue (done ++ [item]) (by omega)
            have e : evalProd ρ (done ++ [item]) * evalProd ρ queue =
                evalProd ρ done * evalProd ρ (item :: queue) := by
              simp only [evalProd, evalProd_append, mul_one]; ring
            rw [e] at ih; exact ih

theorem flattenedProduct_eval (ts : List Expr) :
    evalR ρ (flattenedProduct ts) = evalProd ρ ts := by
  have h := flattenedProductLoop_eval ρ (Expr.sizeL ts + ts.length + 1) ts [] (by omega)
  unfold flattenedProduct
  split
  · rename_i heq; rw [heq] at h
    simp only [prodSpec, evalProd, one_mul] at h
    rw [h, evalR_zero]
  · rename_i heq; rw [heq] at h
    simpa [prodSpec, evalProd] using h
  · rename_i x heq; rw [heq] at h
    simpa [prodSpec, evalProd] using h
  · rename_i xs _ _ heq; rw [heq] at h
    simpa [prodSpec, evalProd, evalR] using h

end

end PV
