import PV.Model.AlgoTable
/-
  C19 (T-gen): symbolic execution of the table interpreter of PV/Model/AlgoTable.lean.

  The interpreter is run by rewriting: the lemmas below say what each helper does on values in
  constructor form, the tactic `c19_run [extra]` rewrites with all of them (and the equation lemmas
  of the recursive interpreters, which fire on constructor-headed syntax only), and the three
  `c19While_succ_*` lemmas unroll one iteration of a loop.
-/
namespace PV.Algo

variable {α : Type}

/-- the context of a body that runs at call depth `n` with loop budget `k` -/
def c19CxAt (ops : C19Ops α) (tbl : C19Table) (ext : String → List (C19V α) → C19R (C19V α))
    (n k : Nat) : C19Cx α := ⟨ops, tbl, c19RunFn ops tbl ext n, k⟩

@[simp] theorem c19CxAt_ops (ops : C19Ops α) (tbl : C19Table)
    (ext : String → List (C19V α) → C19R (C19V α)) (n k : Nat) : (c19CxAt ops tbl ext n k).ops = ops := rfl
@[simp] theorem c19CxAt_tbl (ops : C19Ops α) (tbl : C19Table)
    (ext : String → List (C19V α) → C19R (C19V α)) (n k : Nat) : (c19CxAt ops tbl ext n k).tbl = tbl := rfl
@[simp] theorem c19CxAt_calls (ops : C19Ops α) (tbl : C19Table)
    (ext : String → List (C19V α) → C19R (C19V α)) (n k : Nat) :
    (c19CxAt ops tbl ext n k).calls = c19RunFn ops tbl ext n := rfl
@[simp] theorem c19CxAt_fuel (ops : C19Ops α) (tbl : C19Table)
    (ext : String → List (C19V α) → C19R (C19V α)) (n k : Nat) : (c19CxAt ops tbl ext n k).fuel = k := rfl

/-- one call of a table function: parameters bound, body run one level deeper -/
theorem c19RunFn_succ (ops : C19Ops α) (tbl : C19Table)
    (ext : String → List (C19V α) → C19R (C19V α)) (n : Nat) (name : String) (args : List (C19V α))
    (f : C19Fn) (σ : C19Store α) (hf : c19FindFn tbl name = some f)
    (hb : c19BindParams f.params args = some σ) :
    c19RunFn ops tbl ext (n + 1) name args
      = c19Finish f.kind (c19ExecL (c19CxAt ops tbl ext n (n + 1)) f.body σ) := by
  simp only [c19RunFn, hf, hb, c19CxAt]

/-- a name outside the table goes to `ext` -/
theorem c19RunFn_ext (ops : C19Ops α) (tbl : C19Table)
    (ext : String → List (C19V α) → C19R (C19V α)) (n : Nat) (name : String) (args : List (C19V α))
    (hf : c19FindFn tbl name = none) :
    c19RunFn ops tbl ext (n + 1) name args = ext name args := by
  simp only [c19RunFn, hf]

@[simp] theorem c19Finish_ret (kind : C19Kind) (h : kind ≠ .init) (v : C19V α) :
    c19Finish kind (.ret v) = .ok v := by simp [c19Finish, h]
@[simp] theorem c19Finish_raise (kind : C19Kind) (k : String) :
    c19Finish kind (.raise k : C19O α) = .raise k := rfl

/-! ### results -/

@[simp] theorem C19R.bind_ok {β γ : Type} (v : β) (f : β → C19R γ) : (C19R.ok v).bind f = f v := rfl
@[simp] theorem C19R.bind_raise {β γ : Type} (k : String) (f : β → C19R γ) :
    (C19R.raise k : C19R β).bind f = .raise k := rfl
@[simp] theorem C19R.bind_fuel {β γ : Type} (f : β → C19R γ) : (C19R.fuel : C19R β).bind f = .fuel := rfl
@[simp] theorem C19R.bind_stuck {β γ : Type} (w : String) (f : β → C19R γ) :
    (C19R.stuck w : C19R β).bind f = .stuck w := rfl

@[simp] theorem C19O.ofR_ok {β : Type} (v : β) (f : β → C19O α) : C19O.ofR (.ok v) f = f v := rfl
@[simp] theorem C19O.ofR_raise {β : Type} (k : String) (f : β → C19O α) :
    C19O.ofR (.raise k) f = .raise k := rfl
@[simp] theorem C19O.ofR_fuel {β : Type} (f : β → C19O α) : C19O.ofR .fuel f = .fuel := rfl
@[simp] theorem C19O.ofR_stuck {β : Type} (w : String) (f : β → C19O α) :
    C19O.ofR (.stuck w) f = .stuck w := rfl

@[simp] theorem C19O.andThen_next (σ : C19Store α) (f : C19Store α → C19O α) :
    (C19O.next σ).andThen f = f σ := rfl
@[simp] theorem C19O.andThen_ret (v : C19V α) (f : C19Store α → C19O α) :
    (C19O.ret v).andThen f = .ret v := rfl
@[simp] theorem C19O.andThen_raise (k : String) (f : C19Store α → C19O α) :
    (C19O.raise k : C19O α).andThen f = .raise k := rfl
@[simp] theorem C19O.andThen_fuel (f : C19Store α → C19O α) :
    (C19O.fuel : C19O α).andThen f = .fuel := rfl
@[simp] theorem C19O.andThen_stuck (w : String) (f : C19Store α → C19O α) :
    (C19O.stuck w : C19O α).andThen f = .stuck w := rfl

/-! ### binding -/

theorem c19Bind_name (x : String) (v : C19V α) (σ : C19Store α) :
    c19Bind (.name x) v σ = some (c19Set x v σ) := by simp [c19Bind]
theorem c19Bind_tuple (ps : List C19P) (vs : List (C19V α)) (σ : C19Store α) :
    c19Bind (.tuple ps) (.tup vs) σ = c19BindL ps vs σ := by simp [c19Bind]
theorem c19BindL_nil (σ : C19Store α) : c19BindL [] ([] : List (C19V α)) σ = some σ := by
  simp [c19BindL]
theorem c19BindL_cons (p : C19P) (ps : List C19P) (v : C19V α) (vs : List (C19V α))
    (σ : C19Store α) :
    c19BindL (p :: ps) (v :: vs) σ = (c19Bind p v σ).bind (c19BindL ps vs) := by
  simp only [c19BindL]; cases c19Bind p v σ <;> rfl

/-! ### stores -/

/- the equation lemmas of `c19Get` / `c19Set` as PROPER rewrite rules (not `rfl` lemmas): with the
definitional versions `simp` ends up comparing string literals by `whnf`, which is very slow for
long names -/
theorem c19Get_cons (x y : String) (v : C19V α) (r : C19Store α) :
    c19Get x ((y, v) :: r) = if x = y then some v else c19Get x r := by rw [c19Get]
theorem c19Get_nil (x : String) : c19Get x ([] : C19Store α) = none := by rw [c19Get]
theorem c19Set_cons (x y : String) (v w : C19V α) (r : C19Store α) :
    c19Set x v ((y, w) :: r) = if x = y then (y, v) :: r else (y, w) :: c19Set x v r := by
  rw [c19Set]
theorem c19Set_nil (x : String) (v : C19V α) : c19Set x v ([] : C19Store α) = [(x, v)] := by
  rw [c19Set]

theorem c19Get_set (x y : String) (v : C19V α) (σ : C19Store α) :
    c19Get x (c19Set y v σ) = if x = y then some v else c19Get x σ := by
  induction σ with
  | nil => simp only [c19Set, c19Get]
  | cons p r ih =>
    obtain ⟨z, w⟩ := p
    simp only [c19Set]
    by_cases hyz : y = z
    · subst hyz
      simp only [if_true, c19Get]
      split <;> simp_all
    · simp only [hyz, if_false, c19Get, ih]
      by_cases hxz : x = z
      · subst hxz
        have : ¬ x = y := fun h => hyz h.symm
        simp [this]
      · simp [hxz]

theorem c19Get_set_same (x : String) (v : C19V α) (σ : C19Store α) :
    c19Get x (c19Set x v σ) = some v := by simp [c19Get_set]

/-! ### attributes -/

theorem c19AttrGet_cons (name k : String) (ks : List String) (v : C19V α) (vs : List (C19V α)) :
    c19AttrGet name (k :: ks) (v :: vs) = if name = k then some v else c19AttrGet name ks vs := by
  simp [c19AttrGet]
theorem c19AttrGet_nil (name : String) (vs : List (C19V α)) :
    c19AttrGet name [] vs = none := by simp [c19AttrGet]
theorem c19AttrSet_cons (name k : String) (ks : List String) (v w : C19V α) (ws : List (C19V α)) :
    c19AttrSet name v (k :: ks) (w :: ws) = if name = k then (k :: ks, v :: ws)
      else (k :: (c19AttrSet name v ks ws).1, w :: (c19AttrSet name v ks ws).2) := by
  simp [c19AttrSet]
theorem c19AttrSet_nil (name : String) (v : C19V α) (ws : List (C19V α)) :
    c19AttrSet name v [] ws = ([name], [v]) := by simp [c19AttrSet]

/-! ### truth values -/

@[simp] theorem c19Truthy_none : c19Truthy (C19V.none : C19V α) = .ok false := rfl
@[simp] theorem c19Truthy_bool (b : Bool) : c19Truthy (C19V.bool b : C19V α) = .ok b := rfl
@[simp] theorem c19Truthy_int (i : Int) : c19Truthy (C19V.int i : C19V α) = .ok (i != 0) := rfl
@[simp] theorem c19Truthy_tup (vs : List (C19V α)) : c19Truthy (C19V.tup vs) = .ok (!vs.isEmpty) := rfl

@[simp] theorem c19TruthyM_none (cx : C19Cx α) : c19TruthyM cx C19V.none = .ok false := rfl
@[simp] theorem c19TruthyM_bool (cx : C19Cx α) (b : Bool) : c19TruthyM cx (.bool b) = .ok b := rfl
@[simp] theorem c19TruthyM_int (cx : C19Cx α) (i : Int) : c19TruthyM cx (.int i) = .ok (i != 0) := rfl
@[simp] theorem c19Truthy_obj (c : String) (ks : List String) (vs : List (C19V α)) :
    c19Truthy (C19V.obj c ks vs) = .ok true := rfl
@[simp] theorem c19TruthyM_tup (cx : C19Cx α) (vs : List (C19V α)) :
    c19TruthyM cx (.tup vs) = .ok (!vs.isEmpty) := rfl

/-! ### operators on integers -/

@[simp] theorem c19BinOp_int (cx : C19Cx α) (op : C19Bin) (a : Int) (b : C19V α) :
    c19BinOp cx op (.int a) b = c19Arith cx.ops op (.int a) b := rfl
@[simp] theorem c19BinOp_elem (cx : C19Cx α) (op : C19Bin) (a : α) (b : C19V α) :
    c19BinOp cx op (.elem a) b = c19Arith cx.ops op (.elem a) b := rfl
@[simp] theorem c19BinOp_frac (cx : C19Cx α) (op : C19Bin) (a c : Int) (b : C19V α) :
    c19BinOp cx op (.frac a c) b = c19Arith cx.ops op (.frac a c) b := rfl
@[simp] theorem c19BinOp_vec (cx : C19Cx α) (op : C19Bin) (a : List (C19V α)) (b : C19V α) :
    c19BinOp cx op (.vec a) b = c19Arith cx.ops op (.vec a) b := rfl
@[simp] theorem c19BinOp_obj (cx : C19Cx α) (op : C19Bin) (c : String) (ks : List String)
    (vs : List (C19V α)) (b : C19V α) :
    c19BinOp cx op (.obj c ks vs) b = c19Method cx (.obj c ks vs) (c19Dunder op) [b] := rfl

@[simp] theorem c19Arith_int_int (ops : C19Ops α) (op : C19Bin) (a b : Int) :
    c19Arith ops op (.int a) (.int b) = c19Scalar ops op (.int a) (.int b) := rfl
@[simp] theorem c19Arith_elem_elem (ops : C19Ops α) (op : C19Bin) (a b : α) :
    c19Arith ops op (.elem a) (.elem b) = c19Scalar ops op (.elem a) (.elem b) := rfl

@[simp] theorem c19Scalar_add (ops : C19Ops α) (a b : Int) :
    c19Scalar ops .add (.int a) (.int b) = .ok (.int (a + b)) := rfl
@[simp] theorem c19Scalar_sub (ops : C19Ops α) (a b : Int) :
    c19Scalar ops .sub (.int a) (.int b) = .ok (.int (a - b)) := rfl
@[simp] theorem c19Scalar_mul (ops : C19Ops α) (a b : Int) :
    c19Scalar ops .mul (.int a) (.int b) = .ok (.int (a * b)) := rfl
@[simp] theorem c19Scalar_floordiv (ops : C19Ops α) (a b : Int) :
    c19Scalar ops .floordiv (.int a) (.int b) =
      if b = 0 then .raise "ZeroDivisionError" else .ok (.int (Int.fdiv a b)) := rfl
@[simp] theorem c19Scalar_mod (ops : C19Ops α) (a b : Int) :
    c19Scalar ops .mod (.int a) (.int b) =
      if b = 0 then .raise "ZeroDivisionError" else .ok (.int (Int.fmod a b)) := rfl
@[simp] theorem c19Scalar_truediv (ops : C19Ops α) (a b : Int) :
    c19Scalar ops .truediv (.int a) (.int b) =
      if b = 0 then .raise "ZeroDivisionError" else .ok (.frac a b) := rfl
@[simp] theorem c19Scalar_pow (ops : C19Ops α) (a b : Int) :
    c19Scalar ops .pow (.int a) (.int b) =
      if b < 0 then .stuck "int ** negative leaves the integers" else .ok (.int (a ^ b.toNat)) := rfl
@[simp] theorem c19Scalar_bitand (ops : C19Ops α) (a b : Int) :
    c19Scalar ops .bitand (.int a) (.int b) =
      if 0 ≤ a ∧ 0 ≤ b then .ok (.int ((a.toNat &&& b.toNat : Nat) : Int))
      else .stuck "& on a negative integer" := rfl
@[simp] theorem c19Scalar_add_elem (ops : C19Ops α) (a b : α) :
    c19Scalar ops .add (.elem a) (.elem b) = .ok (.elem (ops.add a b)) := rfl
@[simp] theorem c19Scalar_mul_elem (ops : C19Ops α) (a b : α) :
    c19Scalar ops .mul (.elem a) (.elem b) = .ok (.elem (ops.mul a b)) := rfl

@[simp] theorem c19Cmp_lt (a b : Int) :
    c19Cmp .lt (.int a : C19V α) (.int b) = .ok (.bool (decide (a < b))) := rfl
@[simp] theorem c19Cmp_gt (a b : Int) :
    c19Cmp .gt (.int a : C19V α) (.int b) = .ok (.bool (decide (a > b))) := rfl
@[simp] theorem c19Cmp_le (a b : Int) :
    c19Cmp .le (.int a : C19V α) (.int b) = .ok (.bool (decide (a ≤ b))) := rfl
@[simp] theorem c19Cmp_ge (a b : Int) :
    c19Cmp .ge (.int a : C19V α) (.int b) = .ok (.bool (decide (a ≥ b))) := rfl
@[simp] theorem c19Cmp_eq_int (a b : Int) :
    c19Cmp .eq (.int a : C19V α) (.int b) = .ok (.bool (a == b)) := rfl
@[simp] theorem c19Cmp_ne_int (a b : Int) :
    c19Cmp .ne (.int a : C19V α) (.int b) = .ok (.bool (!(a == b))) := rfl
@[simp] theorem c19Cmp_eq_none_int (b : Int) :
    c19Cmp .eq (.none : C19V α) (.int b) = .ok (.bool false) := rfl
@[simp] theorem c19Cmp_eq_none_none :
    c19Cmp .eq (.none : C19V α) .none = .ok (.bool true) := rfl
@[simp] theorem c19Cmp_is_none_none : c19Cmp .is (.none : C19V α) .none = .ok (.bool true) := rfl
@[simp] theorem c19Cmp_is_int_none (a : Int) :
    c19Cmp .is (.int a : C19V α) .none = .ok (.bool false) := rfl
@[simp] theorem c19Cmp_is_tup_none (a : List (C19V α)) :
    c19Cmp .is (.tup a : C19V α) .none = .ok (.bool false) := rfl
@[simp] theorem c19Cmp_is_obj_none (c : String) (ks : List String) (vs : List (C19V α)) :
    c19Cmp .is (.obj c ks vs : C19V α) .none = .ok (.bool false) := rfl
@[simp] theorem c19Cmp_is_sym (a b : String) :
    c19Cmp .is (.sym a : C19V α) (.sym b) = .ok (.bool (a == b)) := rfl
@[simp] theorem c19Cmp_eq_sym (a b : String) :
    c19Cmp .eq (.sym a : C19V α) (.sym b) = .ok (.bool (a == b)) := rfl
@[simp] theorem c19Cmp_ne_sym (a b : String) :
    c19Cmp .ne (.sym a : C19V α) (.sym b) = .ok (.bool (!(a == b))) := rfl

@[simp] theorem c19Neg_int (cx : C19Cx α) (i : Int) : c19Neg cx (.int i) = .ok (.int (-i)) := rfl

/-! ### indexing -/

@[simp] theorem c19Index_zero (v : C19V α) (vs : List (C19V α)) : c19Index (v :: vs) 0 = .ok v := by
  simp [c19Index, c19NormIndex]
@[simp] theorem c19Index_one (a b : C19V α) (vs : List (C19V α)) :
    c19Index (a :: b :: vs) 1 = .ok b := by
  simp [c19Index, c19NormIndex]
theorem c19Index_last (xs : List (C19V α)) (y : C19V α) : c19Index (xs ++ [y]) (-1) = .ok y := by
  simp [c19Index, c19NormIndex]
theorem c19Index_nil (i : Int) : c19Index ([] : List (C19V α)) i = .raise "IndexError" := by
  unfold c19Index c19NormIndex
  split <;> simp_all
theorem c19Index_nat (vs : List (C19V α)) (k : Nat) (h : k < vs.length) :
    c19Index vs (k : Int) = .ok vs[k] := by
  have : c19NormIndex vs.length (k : Int) = some k := by
    simp [c19NormIndex, h]
  simp [c19Index, this, h]

/-! ### calls -/

@[simp] theorem c19ItemsOf_tup (vs : List (C19V α)) : c19ItemsOf (.tup vs) = .ok vs := rfl
@[simp] theorem c19ItemsOf_vec (vs : List (C19V α)) : c19ItemsOf (.vec vs) = .ok vs := rfl

theorem c19Call_builtin (cx : C19Cx α) (fn : String) (vs : List (C19V α)) (r : C19R (C19V α))
    (h : c19Builtin cx.ops fn vs = some r) : c19Call cx fn vs = r := by
  simp [c19Call, h]

theorem c19Call_table (cx : C19Cx α) (fn : String) (vs : List (C19V α))
    (h : c19Builtin cx.ops fn vs = none) : c19Call cx fn vs = cx.calls fn vs := by
  simp [c19Call, h]

@[simp] theorem c19Call_len (cx : C19Cx α) (vs : List (C19V α)) :
    c19Call cx "len" [.tup vs] = .ok (.int vs.length) := rfl
@[simp] theorem c19Call_len_vec (cx : C19Cx α) (vs : List (C19V α)) :
    c19Call cx "len" [.vec vs] = .ok (.int vs.length) := rfl
@[simp] theorem c19Call_abs (cx : C19Cx α) (i : Int) :
    c19Call cx "abs" [.int i] = .ok (.int (i.natAbs : Int)) := rfl
@[simp] theorem c19Call_int (cx : C19Cx α) (i : Int) :
    c19Call cx "int" [.int i] = .ok (.int i) := rfl
@[simp] theorem c19Call_tuple (cx : C19Cx α) (vs : List (C19V α)) :
    c19Call cx "tuple" [.tup vs] = .ok (.tup vs) := rfl
@[simp] theorem c19Call_divmod (cx : C19Cx α) (a b : Int) :
    c19Call cx "divmod" [.int a, .int b] =
      if b = 0 then .raise "ZeroDivisionError"
      else .ok (.tup [.int (Int.fdiv a b), .int (Int.fmod a b)]) := rfl
theorem c19Call_divmod_ne (cx : C19Cx α) (a b : Int) (h : b ≠ 0) :
    c19Call cx "divmod" [.int a, .int b] = .ok (.tup [.int (Int.fdiv a b), .int (Int.fmod a b)]) := by
  rw [c19Call_divmod, if_neg h]
theorem c19Call_divmod_zero (cx : C19Cx α) (a : Int) :
    c19Call cx "divmod" [.int a, .int 0] = .raise "ZeroDivisionError" := rfl
theorem c19Scalar_floordiv_ne (ops : C19Ops α) (a b : Int) (h : b ≠ 0) :
    c19Scalar ops .floordiv (.int a) (.int b) = .ok (.int (Int.fdiv a b)) := by
  rw [c19Scalar_floordiv, if_neg h]
theorem c19Scalar_mod_ne (ops : C19Ops α) (a b : Int) (h : b ≠ 0) :
    c19Scalar ops .mod (.int a) (.int b) = .ok (.int (Int.fmod a b)) := by
  rw [c19Scalar_mod, if_neg h]
theorem c19Scalar_truediv_ne (ops : C19Ops α) (a b : Int) (h : b ≠ 0) :
    c19Scalar ops .truediv (.int a) (.int b) = .ok (.frac a b) := by
  rw [c19Scalar_truediv, if_neg h]

@[simp] theorem c19Call_isqrt (cx : C19Cx α) (n : Int) :
    c19Call cx "isqrt" [.int n] =
      if n < 0 then .raise "ValueError" else .ok (.int (Nat.sqrt n.toNat : Nat)) := rfl
@[simp] theorem c19Call_range (cx : C19Cx α) (b : Int) :
    c19Call cx "range" [.int b] = .ok (.tup (c19Range 0 b)) := rfl
@[simp] theorem c19Call_enumerate (cx : C19Cx α) (vs : List (C19V α)) :
    c19Call cx "enumerate" [.tup vs] = .ok (.tup (c19Enumerate vs)) := rfl

/-! ### loops -/

theorem c19While_succ_true (test : C19Store α → C19R Bool) (body : C19Store α → C19O α)
    (k : Nat) (σ σ' : C19Store α) (ht : test σ = .ok true) (hb : body σ = .next σ') :
    c19While test body (k + 1) σ = c19While test body k σ' := by
  simp [c19While, ht, hb]

theorem c19While_succ_false (test : C19Store α → C19R Bool) (body : C19Store α → C19O α)
    (k : Nat) (σ : C19Store α) (ht : test σ = .ok false) :
    c19While test body (k + 1) σ = .next σ := by
  simp [c19While, ht]

theorem c19While_succ_ret (test : C19Store α → C19R Bool) (body : C19Store α → C19O α)
    (k : Nat) (σ : C19Store α) (v : C19V α) (ht : test σ = .ok true) (hb : body σ = .ret v) :
    c19While test body (k + 1) σ = .ret v := by
  simp [c19While, ht, hb]

theorem c19While_succ_raise (test : C19Store α → C19R Bool) (body : C19Store α → C19O α)
    (k : Nat) (σ : C19Store α) (e : String) (ht : test σ = .ok true) (hb : body σ = .raise e) :
    c19While test body (k + 1) σ = .raise e := by
  simp [c19While, ht, hb]

/-! ### statement lists -/

theorem c19ExecL_append (cx : C19Cx α) (pre rest : List C19S) (σ : C19Store α) :
    c19ExecL cx (pre ++ rest) σ = (c19ExecL cx pre σ).andThen (c19ExecL cx rest) := by
  induction pre generalizing σ with
  | nil => simp [c19ExecL]
  | cons s ss ih =>
    simp only [List.cons_append, c19ExecL]
    cases c19Exec cx s σ <;> simp [ih]

theorem c19ExecL_while (cx : C19Cx α) (c : C19E) (b rest : List C19S) (σ : C19Store α) :
    c19ExecL cx (.while c b :: rest) σ =
      (c19While (c19Test cx c) (c19ExecL cx b) cx.fuel σ).andThen (c19ExecL cx rest) := by
  simp only [c19ExecL, c19Exec]

theorem c19ExecL_for (cx : C19Cx α) (p : C19P) (it : C19E) (b rest : List C19S) (σ : C19Store α)
    (items : List (C19V α)) (h : (c19EvalE cx it σ).bind c19ItemsOf = .ok items) :
    c19ExecL cx (.for p it b :: rest) σ =
      (c19For (c19Bind p) (c19ExecL cx b) items σ).andThen (c19ExecL cx rest) := by
  simp only [c19ExecL, c19Exec]
  cases h1 : c19EvalE cx it σ with
  | ok v => rw [h1] at h; simp only [C19R.bind_ok] at h; simp [h]
  | raise k => rw [h1] at h; simp at h
  | fuel => rw [h1] at h; simp at h
  | stuck w => rw [h1] at h; simp at h

/-- rewriting with everything the interpreter does on constructor-headed data -/
syntax "c19_run" "[" Lean.Parser.Tactic.simpLemma,* "]" (Lean.Parser.Tactic.location)? : tactic
macro_rules
  | `(tactic| c19_run [$ts,*] $[$loc]?) =>
    `(tactic| simp only [c19CxAt_ops, c19CxAt_tbl, c19CxAt_calls, c19CxAt_fuel, c19ExecL, c19Exec, c19EvalE, c19EvalEs, c19Test, c19Get_cons, c19Get_nil, c19Set_cons, c19Set_nil, c19Bind_name,
        c19Bind_tuple, c19BindL_nil, c19BindL_cons, Option.bind_some, Option.bind_none, c19AssignT,
        c19Index_zero, c19Index_one, c19Get_set, c19AttrGet_cons, c19AttrGet_nil, c19AttrSet_cons,
        c19AttrSet_nil,
        C19R.bind_ok, C19R.bind_raise, C19R.bind_fuel, C19R.bind_stuck, C19O.ofR_ok, C19O.ofR_raise,
        C19O.ofR_fuel, C19O.ofR_stuck, C19O.andThen_next, C19O.andThen_ret, C19O.andThen_raise,
        C19O.andThen_fuel, C19O.andThen_stuck, c19Truthy_none, c19Truthy_bool, c19Truthy_int, c19Truthy_tup,
        c19TruthyM_none, c19TruthyM_bool, c19TruthyM_int, c19TruthyM_tup,
        c19BinOp_int, c19BinOp_elem, c19BinOp_frac, c19BinOp_vec, c19BinOp_obj, c19Arith_int_int,
        c19Arith_elem_elem, c19Scalar_add, c19Scalar_sub, c19Scalar_mul, c19Scalar_floordiv,
        c19Scalar_mod, c19Scalar_truediv, c19Scalar_pow, c19Scalar_add_elem,
        c19Scalar_mul_elem, c19Cmp_lt, c19Cmp_gt, c19Cmp_le, c19Cmp_ge, c19Cmp_eq_int, c19Cmp_ne_int,
        c19Cmp_eq_none_int, c19Cmp_eq_none_none, c19Cmp_is_none_none, c19Cmp_is_int_none,
        c19Cmp_is_tup_none, c19Cmp_is_obj_none, c19Cmp_eq_sym, c19Cmp_ne_sym, c19Neg_int,
        c19ItemsOf_tup, c19ItemsOf_vec, c19Call_len, c19Call_len_vec, c19Call_abs, c19Call_int,
        c19Call_tuple, c19Call_range, c19Call_enumerate,
        String.reduceEq, if_true, if_false, ite_true, ite_false, reduceIte, reduceCtorEq,
        Bool.not_true, Bool.not_false, decide_true, decide_false, Bool.true_eq_false,
        Bool.false_eq_true, List.length_cons, List.length_nil, Int.reduceBNe, Int.reduceBEq, Int.reduceLT,
        Int.reduceLE, Int.reduceGT, Int.reduceGE, Int.reduceAdd, Int.reduceSub, Int.reduceMul,
        Int.reduceNeg, Int.reduceToNat, Nat.reduceAdd, Nat.reduceSub, Nat.reduceLT, Nat.reduceGT, Nat.reduceLeDiff, Nat.reduceEqDiff, Nat.reduceMul,
        Int.reduceEq, Int.reduceNe, List.cons_append, List.nil_append, List.getElem?_cons_zero,
        List.getElem?_cons_succ, $ts,*] $[$loc]?)

end PV.Algo
