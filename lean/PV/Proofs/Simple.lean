import PV.Proofs.EvalSim
/-
  A large, syntactically defined universe: expressions without bool/float constants, keyword
  calls and Python lists.  On it Python `==` is structural identity.
-/
namespace PV

def Const.simple : Const → Bool
  | .int _ | .str _ | .none => true
  | _ => false

mutual
def Expr.simple : Expr → Bool
  | .const c => c.simple
  | .nary _ cs => Expr.simpleL cs
  | .bin _ a b => a.simple && b.simple
  | .un _ a => a.simple
  | .cmp _ a b => a.simple && b.simple
  | .ite c t e => c.simple && t.simple && e.simple
  | .call f as => f.simple && Expr.simpleL as
  | .callKw .. => false
  | .subscript a i => a.simple && i.simple
  | .lookup a _ => a.simple
  | .cse c _ _ => c.simple
  | .subst c _ xs => c.simple && Expr.simpleL xs
  | .deriv c _ => c.simple
  | .slice cs => Expr.simpleL cs
  | .tuple cs => Expr.simpleL cs
  | .list _ => false
  | _ => true
def Expr.simpleL : List Expr → Bool
  | [] => true
  | c :: cs => c.simple && Expr.simpleL cs
end

theorem simpleL_mem : ∀ {cs : List Expr}, Expr.simpleL cs = true → ∀ c ∈ cs, c.simple = true
  | [], _, c, hc => by simp at hc
  | d :: ds, h, c, hc => by
    simp only [Expr.simpleL, Bool.and_eq_true] at h
    simp only [List.mem_cons] at hc
    rcases hc with rfl | hc
    · exact h.1
    · exact simpleL_mem h.2 c hc

theorem simple_children {e : Expr} (h : e.simple = true) : ∀ c ∈ e.children, c.simple = true := by
  intro c hc
  cases e <;> simp only [Expr.children, List.mem_cons, List.mem_append, List.not_mem_nil,
    or_false] at hc <;> simp only [Expr.simple, Bool.and_eq_true] at h
  all_goals first
    | exact simpleL_mem h c hc
    | (rcases hc with rfl | rfl | rfl <;> simp_all)
    | (rcases hc with rfl | rfl <;> simp_all)
    | (rcases hc with rfl | hc
       · exact h.1
       · exact simpleL_mem h.2 c hc)
    | (subst hc; simp_all)
    | simp at h
    | simp at hc

mutual
theorem simple_nolist : ∀ (e : Expr), e.simple = true → e.hasList = false
  | .const _, _ => by simp [Expr.hasList]
  | .var _, _ => by simp [Expr.hasList]
  | .nary _ cs, h => by simp only [Expr.simple] at h; simp [Expr.hasList, simpleL_nolist cs h]
  | .bin _ a b, h => by
      simp only [Expr.simple, Bool.and_eq_true] at h
      simp [Expr.hasList, simple_nolist a h.1, simple_nolist b h.2]
  | .un _ a, h => by simp only [Expr.simple] at h; simp [Expr.hasList, simple_nolist a h]
  | .cmp _ a b, h => by
      simp only [Expr.simple, Bool.and_eq_true] at h
      simp [Expr.hasList, simple_nolist a h.1, simple_nolist b h.2]
  | .ite c t e, h => by
      simp only [Expr.simple, Bool.and_eq_true] at h
      simp [Expr.hasList, simple_nolist c h.1.1, simple_nolist t h.1.2, simple_nolist e h.2]
  | .call f as, h => by
      simp only [Expr.simple, Bool.and_eq_true] at h
      simp [Expr.hasList, simple_nolist f h.1, simpleL_nolist as h.2]
  | .callKw .., h => by simp [Expr.simple] at h
  | .subscript a i, h => by
      simp only [Expr.simple, Bool.and_eq_true] at h
      simp [Expr.hasList, simple_nolist a h.1, simple_nolist i h.2]
  | .lookup a _, h => by simp only [Expr.simple] at h; simp [Expr.hasList, simple_nolist a h]
  | .cse c _ _, h => by simp only [Expr.simple] at h; simp [Expr.hasList, simple_nolist c h]
  | .subst c _ xs, h => by
      simp only [Expr.simple, Bool.and_eq_true] at h
      simp [Expr.hasList, simple_nolist c h.1, simpleL_nolist xs h.2]
  | .deriv c _, h => by simp only [Expr.simple] at h; simp [Expr.hasList, simple_nolist c h]
  | .slice cs, h => by simp only [Expr.simple] at h; simp [Expr.hasList, simpleL_nolist cs h]
  | .nan, _ => by simp [Expr.hasList]
  | .wildcard, _ => by simp [Expr.hasList]
  | .dotWild _, _ => by simp [Expr.hasList]
  | .starWild _, _ => by simp [Expr.hasList]
  | .funcSym, _ => by simp [Expr.hasList]
  | .tuple cs, h => by simp only [Expr.simple] at h; simp [Expr.hasList, simpleL_nolist cs h]
  | .list _, h => by simp [Expr.simple] at h
theorem simpleL_nolist : ∀ (cs : List Expr), Expr.simpleL cs = true → Expr.hasListL cs = false
  | [], _ => by simp [Expr.hasListL]
  | c :: cs, h => by
      simp only [Expr.simpleL, Bool.and_eq_true] at h
      simp [Expr.hasListL, simple_nolist c h.1, simpleL_nolist cs h.2]
end

theorem Const.pyEq_eq_of_simple {a b : Const} (ha : a.simple = true) (hb : b.simple = true)
    (h : a.pyEq b = true) : a = b := by
  cases a <;> cases b <;> simp_all [Const.simple, Const.pyEq, Const.numVal?]

mutual
theorem pyEq_eq_of_simple : ∀ (a b : Expr), a.simple = true → b.simple = true →
    a.pyEq b = true → a = b
  | .const c, b, ha, hb, h => by
      cases b <;> simp only [Expr.pyEq, Bool.false_eq_true] at h
      simp only [Expr.simple] at ha hb
      rw [Const.pyEq_eq_of_simple ha hb h]
  | .var x, b, _, _, h => by
      cases b <;> simp_all [Expr.pyEq]
  | .nary o cs, b, ha, hb, h => by
      cases b <;> simp only [Expr.pyEq, Bool.false_eq_true, Bool.and_eq_true, beq_iff_eq] at h
      simp only [Expr.simple] at ha hb
      rw [h.1, pyEqL_eq_of_simple cs _ ha hb h.2]
  | .bin o a1 a2, b, ha, hb, h => by
      cases b <;> simp only [Expr.pyEq, Bool.false_eq_true, Bool.and_eq_true, beq_iff_eq] at h
      simp only [Expr.simple, Bool.and_eq_true] at ha hb
      rw [h.1.1, pyEq_eq_of_simple a1 _ ha.1 hb.1 h.1.2, pyEq_eq_of_simple a2 _ ha.2 hb.2 h.2]
  | .un o a1, b, ha, hb, h => by
      cases b <;> simp only [Expr.pyEq, Bool.false_eq_true, Bool.and_eq_true, beq_iff_eq] at h
      simp only [Expr.simple] at ha hb
      rw [h.1, pyEq_eq_of_simple a1 _ ha hb h.2]
  | .cmp o a1 a2, b, ha, hb, h => by
      cases b <;> simp only [Expr.pyEq, Bool.false_eq_true, Bool.and_eq_true, beq_iff_eq] at h
      simp only [Expr.simple, Bool.and_eq_true] at ha hb
      rw [h.1.1, pyEq_eq_of_simple a1 _ ha.1 hb.1 h.1.2, pyEq_eq_of_simple a2 _ ha.2 hb.2 h.2]
  | .ite a1 a2 a3, b, ha, hb, h => by
      cases b <;> simp only [Expr.pyEq, Bool.false_eq_true, Bool.and_eq_true] at h
      simp only [Expr.simple, Bool.and_eq_true] at ha hb
      rw [pyEq_eq_of_simple a1 _ ha.1.1 hb.1.1 h.1.1, pyEq_eq_of_simple a2 _ ha.1.2 hb.1.2 h.1.2,
        pyEq_eq_of_simple a3 _ ha.2 hb.2 h.2]
  | .call f as, b, ha, hb, h => by
      cases b <;> simp only [Expr.pyEq, Bool.false_eq_true, Bool.and_eq_true] at h
      simp only [Expr.simple, Bool.and_eq_true] at ha hb
      rw [pyEq_eq_of_simple f _ ha.1 hb.1 h.1, pyEqL_eq_of_simple as _ ha.2 hb.2 h.2]
  | .callKw .., _, ha, _, _ => by simp [Expr.simple] at ha
  | .subscript a1 a2, b, ha, hb, h => by
      cases b <;> simp only [Expr.pyEq, Bool.false_eq_true, Bool.and_eq_true] at h
      simp only [Expr.simple, Bool.and_eq_true] at ha hb
      rw [pyEq_eq_of_simple a1 _ ha.1 hb.1 h.1, pyEq_eq_of_simple a2 _ ha.2 hb.2 h.2]
  | .lookup a1 n, b, ha, hb, h => by
      cases b <;> simp only [Expr.pyEq, Bool.false_eq_true, Bool.and_eq_true, beq_iff_eq] at h
      simp only [Expr.simple] at ha hb
      rw [pyEq_eq_of_simple a1 _ ha hb h.1, h.2]
  | .cse a1 p s, b, ha, hb, h => by
      cases b <;> simp only [Expr.pyEq, Bool.false_eq_true, Bool.and_eq_true, beq_iff_eq] at h
      simp only [Expr.simple] at ha hb
      rw [pyEq_eq_of_simple a1 _ ha hb h.1.1, h.1.2, h.2]
  | .subst a1 vs xs, b, ha, hb, h => by
      cases b <;> simp only [Expr.pyEq, Bool.false_eq_true, Bool.and_eq_true, beq_iff_eq] at h
      simp only [Expr.simple, Bool.and_eq_true] at ha hb
      rw [pyEq_eq_of_simple a1 _ ha.1 hb.1 h.1.1, h.1.2, pyEqL_eq_of_simple xs _ ha.2 hb.2 h.2]
  | .deriv a1 vs, b, ha, hb, h => by
      cases b <;> simp only [Expr.pyEq, Bool.false_eq_true, Bool.and_eq_true, beq_iff_eq] at h
      simp only [Expr.simple] at ha hb
      rw [pyEq_eq_of_simple a1 _ ha hb h.1, h.2]
  | .slice cs, b, ha, hb, h => by
      cases b <;> simp only [Expr.pyEq, Bool.false_eq_true] at h
      simp only [Expr.simple] at ha hb
      rw [pyEqL_eq_of_simple cs _ ha hb h]
  | .nan, b, _, _, h => by cases b <;> simp_all [Expr.pyEq]
  | .wildcard, b, _, _, h => by cases b <;> simp_all [Expr.pyEq]
  | .dotWild _, b, _, _, h => by cases b <;> simp_all [Expr.pyEq]
  | .starWild _, b, _, _, h => by cases b <;> simp_all [Expr.pyEq]
  | .funcSym, b, _, _, h => by cases b <;> simp_all [Expr.pyEq]
  | .tuple cs, b, ha, hb, h => by
      cases b <;> simp only [Expr.pyEq, Bool.false_eq_true] at h
      simp only [Expr.simple] at ha hb
      rw [pyEqL_eq_of_simple cs _ ha hb h]
  | .list _, _, ha, _, _ => by simp [Expr.simple] at ha
theorem pyEqL_eq_of_simple : ∀ (as bs : List Expr), Expr.simpleL as = true →
    Expr.simpleL bs = true → Expr.pyEqL as bs = true → as = bs
  | [], bs, _, _, h => by cases bs <;> simp_all [Expr.pyEqL]
  | a :: as, bs, ha, hb, h => by
      cases bs with
      | nil => simp [Expr.pyEqL] at h
      | cons b bs =>
        simp only [Expr.pyEqL, Bool.and_eq_true] at h
        simp only [Expr.simpleL, Bool.and_eq_true] at ha hb
        rw [pyEq_eq_of_simple a b ha.1 hb.1 h.1, pyEqL_eq_of_simple as bs ha.2 hb.2 h.2]
end

theorem universe_simple : Universe (fun e => e.simple = true) where
  closed := fun _ h => simple_children h
  coherent := fun a b ha hb h => pyEq_eq_of_simple a b ha hb h
  nolist := fun e h => simple_nolist e h

end PV
