import PV.Model.AnalysisTable
import PV.Proofs.WalkTable
import PV.Proofs.UnionPy
/-
  C09 (T-gen) — the hand-written analysis models against the table-driven reading of the handlers
  (PV/Model/AnalysisTable.lean).

  `c09DepBody`, `c09FlopBody`, `c04WalkBody` state, per constructor of `Expr`, the closed handler
  body the hand-written models `deps`, `flopsG`, `c09CountWalk` were written from.  This file
  proves — for ALL expressions, flag settings, seen-sets and caches, by case analysis on the
  constructor — that the models are exactly the table-driven step functions run on these bodies,
  and the only functions that are.  That the bodies ARE what the regenerated tables of the current
  source resolve to is the `…_resolve_current` family in PV/Properties/C09.lean (`rfl` against
  lean/PV/Generated/Analysis.lean and lean/PV/Generated/Traversal.lean).
-/
set_option linter.unusedSimpArgs false
set_option linter.unusedVariables false
namespace PV

/-! ### handlers inherited from `CombineMapper` -/

/-- a node whose handler is `CombineMapper`'s (or a `Mapper` stub): the row of the C04 combine
table (`c04CombineBody`, tied to the source by `C04.combine_resolve_current`) -/
def c09Inherited (e : Expr) : Except DepErr C09Body :=
  match c04CombineBody e with
  | .ok b => .ok (.c04 b)
  | .error err => .error err

/-! ### the dependency mapper -/

/-- the closed `DependencyMapper` handler body `deps` was written from, per node -/
def c09DepBody : Expr → Except DepErr C09Body
  | .const (.str _) => .error .foreign
  | .const .none => .error .foreign
  | .const _ => .ok .empty                                  -- `Collector.map_constant`
  | .var _ => .ok .single
  | .wildcard => .ok .empty
  | .dotWild _ => .ok .empty
  | .starWild _ => .ok .empty
  | .funcSym => .ok .empty
  | .nan => .ok .empty
  | .call _ _ => .ok (.ifFlagEq "include_calls" "descend_args"
      (.combine [⟨"parameters", .each, true⟩])
      (.ifFlag "include_calls" .single
        (.c04 (.fold true [⟨"function", .one, true⟩, ⟨"parameters", .each, true⟩]))))
  | .callKw _ _ _ _ => .ok (.ifFlagEq "include_calls" "descend_args"
      (.combine [⟨"parameters", .each, true⟩, ⟨"kw_parameters", .eachValue, true⟩])
      (.ifFlag "include_calls" .single
        (.c04 (.fold true [⟨"function", .one, true⟩, ⟨"parameters", .each, true⟩,
          ⟨"kw_parameters", .eachValue, true⟩]))))
  | .lookup _ _ => .ok (.ifFlag "include_lookups" .single
      (.c04 (.fold false [⟨"aggregate", .one, true⟩])))
  | .subscript _ _ => .ok (.ifFlag "include_subscripts" .single
      (.c04 (.fold true [⟨"aggregate", .one, true⟩, ⟨"index", .one, true⟩])))
  | .cse _ _ _ => .ok (.hashed (.ifFlag "include_cses" .single
      (.c04 (.fold false [⟨"child", .one, true⟩]))))
  | .slice _ => .ok (.combine [⟨"children", .eachNotNone, true⟩])
  | e => c09Inherited e

theorem depsL_eq_c09SeqU (fl : DepFlags) : ∀ cs : List Expr,
    depsL fl cs = c09SeqU (deps fl) cs
  | [] => by simp [depsL, c09SeqU]
  | c :: cs => by simp [depsL, c09SeqU, depsL_eq_c09SeqU fl cs]

theorem depsSlice_cons (fl : DepFlags) (c : Expr) (cs : List Expr) :
    depsSlice fl (c :: cs) =
      if c.c04IsNone then depsSlice fl cs
      else (do let x ← deps fl c; let y ← depsSlice fl cs; pure (unionPy x y)) := by
  cases c with
  | const k => cases k <;> simp [depsSlice, Expr.c04IsNone]
  | _ => simp [depsSlice, Expr.c04IsNone]

theorem depsSlice_eq_c09SeqU (fl : DepFlags) : ∀ cs : List Expr,
    depsSlice fl cs = c09SeqU (deps fl) (cs.filter (fun c => !c.c04IsNone))
  | [] => by simp [depsSlice, c09SeqU]
  | c :: cs => by
    rw [depsSlice_cons, depsSlice_eq_c09SeqU fl cs, List.filter_cons]
    cases c.c04IsNone <;> simp [c09SeqU]

/-- a one-child site contributes the result of the child -/
theorem c09SeqU_one (rec : Expr → Except DepErr (List Expr)) (c : Expr) :
    c09SeqU rec [c] = rec c := by
  simp only [c09SeqU]
  cases rec c <;> simp [bind, Except.bind, pure, Except.pure, unionPy_nil]

macro "c09_deps_sites" : tactic =>
  `(tactic| simp only [c09DepsRun, c09UnionSites, c09UnionRest, c09SiteU, c04RecChildren,
      Expr.c04Field, Expr.c04Fields, c04Assoc, String.reduceBEq, ↓reduceIte, Bool.false_eq_true,
      c09SeqU_one, ← depsL_eq_c09SeqU, ← depsSlice_eq_c09SeqU])

macro "c09_except" : tactic =>
  `(tactic| simp [bind, Except.bind, pure, Except.pure])

/-- **`deps` solves the table-driven equations**: a call of `deps` on any node, under any flag
setting, is one handler call of the closed body `c09DepBody` gives for the node, recursing through
`deps` itself. -/
theorem deps_eq_stepB (fl : DepFlags) (e : Expr) :
    deps fl e = c09DepsStepB (c09DepBody e) fl (deps fl) e := by
  cases e with
  | const k => cases k <;> simp [c09DepBody, c09DepsStepB, c09DepsRun, deps] <;> rfl
  | var x => simp [c09DepBody, c09DepsStepB, c09DepsRun, deps, depSingle, Expr.hasList]
  | wildcard => simp [c09DepBody, c09DepsStepB, c09DepsRun, deps]
  | dotWild n => simp [c09DepBody, c09DepsStepB, c09DepsRun, deps]
  | starWild n => simp [c09DepBody, c09DepsStepB, c09DepsRun, deps]
  | funcSym => simp [c09DepBody, c09DepsStepB, c09DepsRun, deps]
  | nan => simp [c09DepBody, c09DepsStepB, c09DepsRun, deps]
  | subst c vs xs => simp [c09DepBody, c09Inherited, c04CombineBody, c09DepsStepB, deps]; rfl
  | deriv c vs => simp [c09DepBody, c09Inherited, c04CombineBody, c09DepsStepB, deps]; rfl
  | bin o a b =>
    cases o <;> simp only [c09DepBody, c09Inherited, c04CombineBody, c09DepsStepB, deps] <;>
      c09_deps_sites <;>
      cases deps fl a <;> cases deps fl b <;> c09_except
  | nary o cs =>
    simp only [c09DepBody, c09Inherited, c04CombineBody, c09DepsStepB, deps]
    c09_deps_sites
    cases depsL fl cs <;> c09_except
  | tuple cs =>
    simp only [c09DepBody, c09Inherited, c04CombineBody, c09DepsStepB, deps]
    c09_deps_sites
    cases depsL fl cs <;> c09_except
  | list cs =>
    simp only [c09DepBody, c09Inherited, c04CombineBody, c09DepsStepB, deps]
    c09_deps_sites
    cases depsL fl cs <;> c09_except
  | slice cs =>
    rw [deps, depsSlice_eq_c09SeqU]
    simp only [c09DepBody, c09DepsStepB, c09DepsRun, c09UnionSites, c09UnionRest, c09SiteU,
      c04RecChildren, Expr.c04Field, Expr.c04Fields, c04Assoc, String.reduceBEq, ↓reduceIte]
    cases c09SeqU (deps fl) (cs.filter fun c => !c.c04IsNone) <;> c09_except
  | un o a =>
    simp only [c09DepBody, c09Inherited, c04CombineBody, c09DepsStepB, deps]
    c09_deps_sites
    try (cases deps fl a <;> c09_except)
  | cmp o a b =>
    simp only [c09DepBody, c09Inherited, c04CombineBody, c09DepsStepB, deps]
    c09_deps_sites
    try (cases deps fl a <;> cases deps fl b <;> c09_except)
  | ite a b c =>
    simp only [c09DepBody, c09Inherited, c04CombineBody, c09DepsStepB, deps]
    c09_deps_sites
    try (cases deps fl a <;> cases deps fl b <;> cases deps fl c <;> c09_except)
  | lookup a n =>
    simp only [c09DepBody, c09DepsStepB, deps, c09DepsRun, DepFlags.c09Attrs, c04Assoc,
      String.reduceBEq, ↓reduceIte, Bool.false_eq_true, C09FlagVal.truthy]
    cases fl.lookups <;> simp only [↓reduceIte, Bool.false_eq_true]
    · c09_deps_sites
      try (cases deps fl a <;> c09_except)
  | subscript a i =>
    simp only [c09DepBody, c09DepsStepB, deps, c09DepsRun, DepFlags.c09Attrs, c04Assoc,
      String.reduceBEq, ↓reduceIte, Bool.false_eq_true, C09FlagVal.truthy]
    cases fl.subscripts <;> simp only [↓reduceIte, Bool.false_eq_true]
    · c09_deps_sites
      try (cases deps fl a <;> cases deps fl i <;> c09_except)
  | cse c p s =>
    simp only [c09DepBody, c09DepsStepB, deps, c09DepsRun, DepFlags.c09Attrs, c04Assoc,
      String.reduceBEq, ↓reduceIte, Bool.false_eq_true, C09FlagVal.truthy, Expr.hasList, depSingle]
    by_cases h : c.hasList = true
    · simp only [h, ↓reduceIte]; rfl
    · simp only [h, ↓reduceIte, Bool.false_eq_true]
      cases fl.cses <;> simp only [↓reduceIte, Bool.false_eq_true]
      · c09_deps_sites
        try (cases deps fl c <;> c09_except)
  | call f as =>
    simp only [c09DepBody, c09DepsStepB, deps, c09DepsRun, DepFlags.c09Attrs, c04Assoc,
      String.reduceBEq, ↓reduceIte, Bool.false_eq_true]
    cases fl.calls <;> simp only [C09FlagVal.eqStr, C09FlagVal.truthy, String.reduceBEq,
      String.reduceBNe, ↓reduceIte, Bool.false_eq_true]
    · c09_deps_sites
      try (cases deps fl f <;> cases depsL fl as <;> c09_except)
    · c09_deps_sites
      try (cases depsL fl as <;> c09_except)
  | callKw f as ns vs =>
    simp only [c09DepBody, c09DepsStepB, deps, c09DepsRun, DepFlags.c09Attrs, c04Assoc,
      String.reduceBEq, ↓reduceIte, Bool.false_eq_true]
    cases fl.calls <;> simp only [C09FlagVal.eqStr, C09FlagVal.truthy, String.reduceBEq,
      String.reduceBNe, ↓reduceIte, Bool.false_eq_true]
    · c09_deps_sites
      try (cases deps fl f <;> cases depsL fl as <;> cases depsL fl vs <;> c09_except)
    · c09_deps_sites
      try (cases depsL fl as <;> cases depsL fl vs <;> c09_except)

/-! #### the dependency equations have one solution -/

theorem c09SeqU_congr {f g : Expr → Except DepErr (List Expr)} :
    ∀ {cs : List Expr}, (∀ c ∈ cs, f c = g c) → c09SeqU f cs = c09SeqU g cs
  | [], _ => rfl
  | c :: cs, h => by
    have ih : c09SeqU f cs = c09SeqU g cs :=
      c09SeqU_congr (fun d hd => h d (List.mem_cons_of_mem _ hd))
    simp only [c09SeqU, h c (by simp), ih]

theorem c09SiteU_congr {f g : Expr → Except DepErr (List Expr)} {e : Expr}
    (h : ∀ c ∈ e.children, f c = g c) (r : C04Rec) : c09SiteU f e r = c09SiteU g e r := by
  unfold c09SiteU
  cases hr : c04RecChildren e r with
  | none => rfl
  | some cs => exact c09SeqU_congr (fun c hc => h c (c04RecChildren_sub hr c hc))

theorem c09UnionRest_congr {f g : Expr → Except DepErr (List Expr)} {e : Expr}
    (h : ∀ c ∈ e.children, f c = g c) :
    ∀ (recs : List C04Rec) (acc : List Expr), c09UnionRest f e acc recs = c09UnionRest g e acc recs
  | [], _ => rfl
  | r :: rs, acc => by
    simp only [c09UnionRest, c09SiteU_congr h r]
    cases c09SiteU g e r with
    | error err => rfl
    | ok y => exact c09UnionRest_congr h rs _

theorem c09UnionSites_congr {f g : Expr → Except DepErr (List Expr)} {e : Expr}
    (h : ∀ c ∈ e.children, f c = g c) (recs : List C04Rec) :
    c09UnionSites f e recs = c09UnionSites g e recs := by
  cases recs with
  | nil => rfl
  | cons r rs =>
    simp only [c09UnionSites, c09SiteU_congr h r]
    cases c09SiteU g e r with
    | error err => rfl
    | ok y => exact c09UnionRest_congr h rs _

theorem c09DepsRun_congr {fl : DepFlags} {f g : Expr → Except DepErr (List Expr)} {e : Expr}
    (h : ∀ c ∈ e.children, f c = g c) (b : C09Body) :
    c09DepsRun fl f e b = c09DepsRun fl g e b := by
  induction b with
  | c04 b => cases b <;> simp only [c09DepsRun, c09UnionSites_congr h]
  | combine recs => simp only [c09DepsRun, c09UnionSites_congr h]
  | hashed k ih => simp only [c09DepsRun, ih]
  | ifFlagEq fg l t e' iht ihe => simp only [c09DepsRun, iht, ihe]
  | ifFlag fg t e' iht ihe => simp only [c09DepsRun, iht, ihe]
  | _ => simp only [c09DepsRun]

theorem c09DepsStepB_congr {body : Except DepErr C09Body} {fl : DepFlags}
    {f g : Expr → Except DepErr (List Expr)} {e : Expr} (h : ∀ c ∈ e.children, f c = g c) :
    c09DepsStepB body fl f e = c09DepsStepB body fl g e := by
  unfold c09DepsStepB
  split
  · rfl
  · exact c09DepsRun_congr h _

/-- **The table-driven dependency equations have one solution.**  Whatever the closed handler
bodies `body` are: two functions that both run one handler call per node and recurse through
themselves agree on every tree (recursion only ever reaches direct children). -/
theorem c09Deps_unique (body : Expr → Except DepErr C09Body) (fl : DepFlags)
    (f g : Expr → Except DepErr (List Expr))
    (hf : ∀ e, f e = c09DepsStepB (body e) fl f e)
    (hg : ∀ e, g e = c09DepsStepB (body e) fl g e) : ∀ e, f e = g e := by
  intro e
  induction e using children_induct with
  | step e ih =>
    rw [hf, hg]
    exact c09DepsStepB_congr ih

/-! ### the flop counters -/

/-- `FlopCounterBase.map_sum` (= `map_product`) -/
def c09FlopNary : C09Body :=
  .ifField "children"
    (.num (.add (.sub (.len "children") (.lit 1)) (.recSum ⟨"children", .each, false⟩)))
    (.num (.lit 0))

/-- `FlopCounterBase.map_quotient` (= `map_floor_div`) / `map_power` -/
def c09FlopBin (f1 f2 : String) : C09Body :=
  .num (.add (.add (.lit 1) (.recSum ⟨f1, .one, false⟩)) (.recSum ⟨f2, .one, false⟩))

/-- `CSEAwareFlopCounter.map_common_subexpression` -/
def c09FlopCseBody : C09Body :=
  .ifSeen "cse_seen_set" (.num (.lit 0))
    (.addSeen "cse_seen_set" (.num (.recSum ⟨"child", .one, false⟩)))

/-- the closed flop-counter handler body `flopsG` was written from, per node (`aware`:
`CSEAwareFlopCounter`, else `FlopCounter` / `FlopCounterBase`) -/
def c09FlopBody (aware : Bool) : Expr → Except DepErr C09Body
  | .const (.str _) => .error .foreign
  | .const .none => .error .foreign
  | .const _ => .ok (.num (.lit 0))
  | .var _ => .ok (.num (.lit 0))
  | .nary .sum _ => .ok c09FlopNary
  | .nary .prod _ => .ok c09FlopNary
  | .bin .quot _ _ => .ok (c09FlopBin "numerator" "denominator")
  | .bin .floordiv _ _ => .ok (c09FlopBin "numerator" "denominator")
  | .bin .pow _ _ => .ok (c09FlopBin "base" "exponent")
  | .cse c p s => if aware then .ok c09FlopCseBody else c09Inherited (.cse c p s)
  -- no handler of their own in `CombineMapper`: `Mapper.map_algebraic_leaf` raises
  | .wildcard => .ok (.c04 .raises)
  | .dotWild _ => .ok (.c04 .raises)
  | .starWild _ => .ok (.c04 .raises)
  | .funcSym => .ok (.c04 .raises)
  | e => c09Inherited e

theorem c09Lift_ok (n : Nat) (s : List Expr) : c09Lift (.ok (n, s)) = .ok ((n : Int), s) := rfl
theorem c09Lift_error (err : DepErr) : c09Lift (.error err) = .error err := rfl

theorem flopsL_eq_c09SumL (aware : Bool) : ∀ (cs seen : List Expr),
    c09Lift (flopsL aware cs seen) = c09SumL (fun c s => c09Lift (flopsG aware c s)) cs seen
  | [], seen => by simp [flopsL, c09SumL, c09Lift, pure, Except.pure]
  | c :: cs, seen => by
    simp only [flopsL, c09SumL]
    rcases h1 : flopsG aware c seen with err | ⟨x, s1⟩
    · simp [c09Lift, bind, Except.bind]
    · simp only [c09Lift_ok, bind, Except.bind, ← flopsL_eq_c09SumL aware cs s1]
      rcases h2 : flopsL aware cs s1 with err | ⟨y, s2⟩ <;>
        simp [c09Lift, pure, Except.pure]

macro "c09_flop_unfold" : tactic =>
  `(tactic| simp only [flopsG, c09FlopBody, c09FlopNary, c09FlopBin, c09FlopCseBody, c09Inherited,
      c04CombineBody, c09FlopsStepB, c09FlopsRun, c09NumEval, c09SumSites, c04RecChildren,
      Expr.c04Field, Expr.c04Fields, c04Assoc, String.reduceBEq, ↓reduceIte, Bool.false_eq_true,
      c09SumL, ← flopsL_eq_c09SumL])

macro "c09_flop_close" : tactic =>
  `(tactic| ((try simp [*, c09Lift, bind, Except.bind, pure, Except.pure]) <;> (first | rfl | omega)))

/-- **`flopsG` solves the table-driven equations** (both counters): a call on any node with any
seen-set is one handler call of the closed body `c09FlopBody` gives for the node, recursing through
`flopsG` itself; counts are Python integers on the table side. -/
theorem flopsG_eq_stepB (aware : Bool) (e : Expr) (seen : List Expr) :
    c09Lift (flopsG aware e seen) =
      c09FlopsStepB (c09FlopBody aware e) (fun c s => c09Lift (flopsG aware c s)) e seen := by
  cases e with
  | const k => cases k <;> c09_flop_unfold <;> c09_flop_close
  | var x => c09_flop_unfold; c09_flop_close
  | wildcard => c09_flop_unfold; c09_flop_close
  | dotWild n => c09_flop_unfold; c09_flop_close
  | starWild n => c09_flop_unfold; c09_flop_close
  | funcSym => c09_flop_unfold; c09_flop_close
  | nan => c09_flop_unfold; c09_flop_close
  | subst c vs xs => c09_flop_unfold; c09_flop_close
  | deriv c vs => c09_flop_unfold; c09_flop_close
  | slice cs => c09_flop_unfold; c09_flop_close
  | un o a =>
    c09_flop_unfold
    rcases h1 : flopsG aware a seen with err | ⟨x, s1⟩ <;> c09_flop_close
  | lookup a n =>
    c09_flop_unfold
    rcases h1 : flopsG aware a seen with err | ⟨x, s1⟩ <;> c09_flop_close
  | bin o a b =>
    cases o <;> c09_flop_unfold <;>
    (rcases h1 : flopsG aware a seen with err | ⟨x, s1⟩
     · c09_flop_close
     · rcases h2 : flopsG aware b s1 with err | ⟨y, s2⟩ <;> c09_flop_close)
  | cmp o a b =>
    c09_flop_unfold
    rcases h1 : flopsG aware a seen with err | ⟨x, s1⟩
    · c09_flop_close
    · rcases h2 : flopsG aware b s1 with err | ⟨y, s2⟩ <;> c09_flop_close
  | subscript a b =>
    c09_flop_unfold
    rcases h1 : flopsG aware a seen with err | ⟨x, s1⟩
    · c09_flop_close
    · rcases h2 : flopsG aware b s1 with err | ⟨y, s2⟩ <;> c09_flop_close
  | ite a b c =>
    c09_flop_unfold
    rcases h1 : flopsG aware a seen with err | ⟨x, s1⟩
    · c09_flop_close
    · rcases h2 : flopsG aware b s1 with err | ⟨y, s2⟩
      · c09_flop_close
      · rcases h3 : flopsG aware c s2 with err | ⟨z, s3⟩ <;> c09_flop_close
  | tuple cs =>
    c09_flop_unfold
    rcases h1 : flopsL aware cs seen with err | ⟨x, s1⟩ <;> c09_flop_close
  | list cs =>
    c09_flop_unfold
    rcases h1 : flopsL aware cs seen with err | ⟨x, s1⟩ <;> c09_flop_close
  | call f as =>
    c09_flop_unfold
    rcases h1 : flopsG aware f seen with err | ⟨x, s1⟩
    · c09_flop_close
    · rcases h2 : flopsL aware as s1 with err | ⟨y, s2⟩ <;> c09_flop_close
  | callKw f as ns vs =>
    c09_flop_unfold
    rcases h1 : flopsG aware f seen with err | ⟨x, s1⟩
    · c09_flop_close
    · rcases h2 : flopsL aware as s1 with err | ⟨y, s2⟩
      · c09_flop_close
      · rcases h3 : flopsL aware vs s2 with err | ⟨z, s3⟩ <;> c09_flop_close
  | nary o cs =>
    have hsum : ∀ (cs : List Expr),
        (c09Lift do
          let __x ← flopsL aware cs seen
          pure (__x.fst + (cs.length - 1), __x.snd)) =
        c09FlopsRun (fun c s => c09Lift (flopsG aware c s)) (.nary o cs) c09FlopNary seen := by
      intro cs
      cases cs with
      | nil =>
        simp [c09FlopNary, c09FlopsRun, c09NumEval, Expr.c04Field, Expr.c04Fields, c04Assoc, flopsL,
          c09Lift, bind, Except.bind, pure, Except.pure]
      | cons c cs' =>
        simp only [c09FlopNary, c09FlopsRun, c09NumEval, c09SumSites, c04RecChildren,
          Expr.c04Field, Expr.c04Fields, c04Assoc, String.reduceBEq, ↓reduceIte,
          List.isEmpty_cons, Bool.false_eq_true, bind, Except.bind, pure, Except.pure,
          ← flopsL_eq_c09SumL]
        rcases h1 : flopsL aware (c :: cs') seen with err | ⟨x, s1⟩
        · simp [c09Lift]
        · simp [c09Lift]; omega
    cases o <;> first
      | (simp only [flopsG, c09FlopBody, c09FlopsStepB]; exact hsum cs)
      | (c09_flop_unfold
         rcases h1 : flopsL aware cs seen with err | ⟨x, s1⟩ <;> c09_flop_close)
  | cse c p s =>
    cases aware
    · c09_flop_unfold
      rcases h1 : flopsG false c seen with err | ⟨x, s1⟩ <;> c09_flop_close
    · simp only [flopsG, c09FlopBody, c09FlopCseBody, c09FlopsStepB, c09FlopsRun, c09NumEval,
        c09SumSites, c04RecChildren, Expr.c04Field, Expr.c04Fields, c04Assoc, String.reduceBEq,
        ↓reduceIte, c09SumL, Expr.hasList]
      by_cases hl : c.hasList = true
      · simp only [hl, ↓reduceIte]; rfl
      · simp only [hl, ↓reduceIte, Bool.false_eq_true]
        by_cases hs : (seen.any fun k => k.pyEq (c.cse p s)) = true
        · simp [hs, c09Lift, pure, Except.pure]
        · simp only [hs, ↓reduceIte, Bool.false_eq_true]
          rcases h1 : flopsG true c (seen ++ [c.cse p s]) with err | ⟨x, s1⟩ <;> c09_flop_close

/-! #### the flop equations have one solution -/

theorem c09SumL_congr {f g : Expr → List Expr → Except DepErr (Int × List Expr)} :
    ∀ {cs : List Expr}, (∀ c ∈ cs, f c = g c) → c09SumL f cs = c09SumL g cs
  | [], _ => by funext s; rfl
  | c :: cs, h => by
    have ih : c09SumL f cs = c09SumL g cs :=
      c09SumL_congr (fun d hd => h d (List.mem_cons_of_mem _ hd))
    funext s
    simp only [c09SumL, h c (by simp), ih]

theorem c09SumSites_congr {f g : Expr → List Expr → Except DepErr (Int × List Expr)} {e : Expr}
    (h : ∀ c ∈ e.children, f c = g c) :
    ∀ recs : List C04Rec, c09SumSites f e recs = c09SumSites g e recs
  | [] => by funext s; rfl
  | r :: rs => by
    funext s
    simp only [c09SumSites]
    cases hr : c04RecChildren e r with
    | none => rfl
    | some cs =>
      simp only [c09SumSites_congr h rs,
        c09SumL_congr (fun c hc => h c (c04RecChildren_sub hr c hc))]

theorem c09NumEval_congr {f g : Expr → List Expr → Except DepErr (Int × List Expr)} {e : Expr}
    (h : ∀ c ∈ e.children, f c = g c) (n : C09Num) : c09NumEval f e n = c09NumEval g e n := by
  induction n with
  | lit n => funext s; rfl
  | len fld => funext s; rfl
  | add a b iha ihb => funext s; simp only [c09NumEval, iha, ihb]
  | sub a b iha ihb => funext s; simp only [c09NumEval, iha, ihb]
  | max a b iha ihb => funext s; simp only [c09NumEval, iha, ihb]
  | recSum r => funext s; simp only [c09NumEval, c09SumSites_congr h]

theorem c09FlopsRun_congr {f g : Expr → List Expr → Except DepErr (Int × List Expr)} {e : Expr}
    (h : ∀ c ∈ e.children, f c = g c) (b : C09Body) : c09FlopsRun f e b = c09FlopsRun g e b := by
  induction b with
  | c04 b => funext s; cases b <;> simp only [c09FlopsRun, c09SumSites_congr h]
  | num n => funext s; simp only [c09FlopsRun, c09NumEval_congr h]
  | ifField fld t e' iht ihe => funext s; simp only [c09FlopsRun, iht, ihe]
  | ifSeen a t e' iht ihe => funext s; simp only [c09FlopsRun, iht, ihe]
  | addSeen a k ih => funext s; simp only [c09FlopsRun, ih]
  | _ => funext s; simp only [c09FlopsRun]

theorem c09FlopsStepB_congr {body : Except DepErr C09Body}
    {f g : Expr → List Expr → Except DepErr (Int × List Expr)} {e : Expr}
    (h : ∀ c ∈ e.children, f c = g c) (seen : List Expr) :
    c09FlopsStepB body f e seen = c09FlopsStepB body g e seen := by
  unfold c09FlopsStepB
  split
  · rfl
  · rw [c09FlopsRun_congr h]

/-- **The table-driven flop equations have one solution** (for every seen-set). -/
theorem c09Flops_unique (body : Expr → Except DepErr C09Body)
    (f g : Expr → List Expr → Except DepErr (Int × List Expr))
    (hf : ∀ e s, f e s = c09FlopsStepB (body e) f e s)
    (hg : ∀ e s, g e s = c09FlopsStepB (body e) g e s) : ∀ e s, f e s = g e s := by
  intro e
  induction e using children_induct with
  | step e ih =>
    intro s
    rw [hf, hg]
    exact c09FlopsStepB_congr (fun c hc => funext (ih c hc)) s

/-! ### the node counter -/

/-- `NodeCountMapper` / `CachedMapper.__call__` / `get_num_nodes` as `c09CountWalk` was written
from them: the memo is looked up first under the key `(type(expr), expr)`, every result is stored,
`visit` is `WalkMapper`'s (returns `True`, counts nothing), `post_visit` counts one, a fresh
mapper starts at zero. -/
def c09CountSpecHand : C09CountSpec :=
  { mro := ["NodeCountMapper", "CachedWalkMapper", "CachedMapper", "WalkMapper", "Mapper"],
    recOwner := "CachedMapper",
    memo := { lookupFirst := true, keyType := true, keyExpr := true, storeMethod := true,
              storeFallback := true },
    visit := { definedIn := "WalkMapper", incr := 0, returnsTrue := true },
    postVisit := { definedIn := "NodeCountMapper", incr := 1, returnsTrue := false },
    counter := "count", initial := 0, freshMapper := true, returnsCounter := true }

theorem c09CountWalkL_eq_seqL : ∀ (cs cache : List Expr),
    c09CountWalkL cs cache = c09CountSeqL c09CountWalk cs cache
  | [], cache => rfl
  | c :: cs, cache => by
    simp only [c09CountWalkL, c09CountSeqL]
    congr 1; funext c1; exact c09CountWalkL_eq_seqL cs c1

theorem c09CountWalkS_cons (c : Expr) (cs cache : List Expr) :
    c09CountWalkS (c :: cs) cache =
      if c.c04IsNone then c09CountWalkS cs cache
      else c09Seq (c09CountWalk c cache) (fun c1 => c09CountWalkS cs c1) := by
  cases c with
  | const k => cases k <;> simp [c09CountWalkS, Expr.c04IsNone]
  | _ => simp [c09CountWalkS, Expr.c04IsNone]

theorem c09CountWalkS_eq_seqL : ∀ (cs cache : List Expr),
    c09CountWalkS cs cache =
      c09CountSeqL c09CountWalk (cs.filter (fun c => !c.c04IsNone)) cache
  | [], cache => rfl
  | c :: cs, cache => by
    rw [c09CountWalkS_cons, List.filter_cons]
    cases c.c04IsNone
    · simp only [Bool.false_eq_true, ↓reduceIte, Bool.not_false, c09CountSeqL]
      congr 1; funext c1; exact c09CountWalkS_eq_seqL cs c1
    · simp only [↓reduceIte, Bool.not_true, Bool.false_eq_true]
      exact c09CountWalkS_eq_seqL cs cache

theorem c09Seq_zero (r : Except DepErr (Nat × List Expr)) :
    c09Seq r (fun c1 => .ok (0, c1)) = r := by
  rcases r with err | ⟨x, c⟩ <;> simp [c09Seq]

theorem c09Seq_assoc (r : Except DepErr (Nat × List Expr))
    (k1 k2 : List Expr → Except DepErr (Nat × List Expr)) :
    c09Seq (c09Seq r k1) k2 = c09Seq r (fun c => c09Seq (k1 c) k2) := by
  rcases r with err | ⟨x, c⟩
  · rfl
  · simp only [c09Seq]
    rcases k1 c with err | ⟨y, c'⟩
    · rfl
    · simp only []
      rcases k2 c' with err | ⟨z, c''⟩
      · rfl
      · simp [Nat.add_assoc]

theorem c09CountSeqL_one (rec : Expr → List Expr → Except DepErr (Nat × List Expr)) (a : Expr)
    (cache : List Expr) : c09CountSeqL rec [a] cache = rec a cache := by
  simp only [c09CountSeqL, c09Seq_zero]

/-- the bracket of a guarded / leaf walk handler under `c09CountSpecHand` is `c09Cached` -/
theorem c09CountStepB_walk (bm : Bool) (visit : C04Visit) (hv : visit ≠ .absent) (vf pf : Bool)
    (recs : List C04Rec) (rec : Expr → List Expr → Except DepErr (Nat × List Expr)) (e : Expr)
    (cache : List Expr) :
    c09CountStepB c09CountSpecHand bm (.ok (.walk visit vf recs true pf)) rec e cache =
      c09Cached cache e (fun _ => c09CountSites rec e recs cache) := by
  have hve : (visit == C04Visit.absent) = false := by cases visit <;> simp_all
  simp only [c09CountStepB, c09Cached, c09Hit, c09CountSpecHand, C09CountSpec.memoActive,
    c09MemoKeyEq, beq_self_eq_true, Bool.true_and, ↓reduceIte, Bool.not_true, Bool.and_false,
    Bool.false_eq_true, hve, if_true, ite_self]
  by_cases h : (cache.any fun k => k.keyEq e) = true
  · simp only [h, ↓reduceIte]
  · simp only [h, ↓reduceIte, Bool.false_eq_true]
    rcases c09CountSites rec e recs cache with err | ⟨n, c1⟩
    · rfl
    · simp [c09Store]

macro "c09_count_unfold" : tactic =>
  `(tactic| simp only [c09CountWalk, c04WalkBody, c09CountStepB_walk, c09CountSites,
      c04RecChildren, Expr.c04Field, Expr.c04Fields, c04Assoc, String.reduceBEq, ↓reduceIte,
      Bool.false_eq_true, c09CountSeqL_one, c09CountWalkL_eq_seqL, c09CountWalkS_eq_seqL,
      c09Seq_zero, ne_eq, reduceCtorEq, not_false_eq_true])

/-- **`c09CountWalk` solves the table-driven equations**: for every node and every cache, one
`NodeCountMapper.rec` call as the `WalkMapper` handler shape `c04WalkBody`, the memo protocol and
the hooks of `c09CountSpecHand` describe it, recursing through `c09CountWalk` itself. -/
theorem c09CountWalk_eq_stepB (bm : Bool) (e : Expr) (cache : List Expr) :
    c09CountWalk e cache =
      c09CountStepB c09CountSpecHand bm (c04WalkBody e) c09CountWalk e cache := by
  cases e with
  | const k =>
    cases k <;> c09_count_unfold
    all_goals
      simp [c09CountStepB, c09Hit, c09CountSpecHand, C09CountSpec.memoActive, c09MemoKeyEq]
  | bin o a b => cases o <;> c09_count_unfold
  | _ => c09_count_unfold

/-! #### the node-count equations have one solution -/

theorem c09CountSeqL_congr {f g : Expr → List Expr → Except DepErr (Nat × List Expr)} :
    ∀ {cs : List Expr}, (∀ c ∈ cs, f c = g c) → c09CountSeqL f cs = c09CountSeqL g cs
  | [], _ => by funext s; rfl
  | c :: cs, h => by
    have ih : c09CountSeqL f cs = c09CountSeqL g cs :=
      c09CountSeqL_congr (fun d hd => h d (List.mem_cons_of_mem _ hd))
    funext s
    simp only [c09CountSeqL, h c (by simp), ih]

theorem c09CountSites_congr {f g : Expr → List Expr → Except DepErr (Nat × List Expr)} {e : Expr}
    (h : ∀ c ∈ e.children, f c = g c) :
    ∀ recs : List C04Rec, c09CountSites f e recs = c09CountSites g e recs
  | [] => by funext s; rfl
  | r :: rs => by
    funext s
    simp only [c09CountSites]
    cases hr : c04RecChildren e r with
    | none => rfl
    | some cs =>
      simp only [c09CountSites_congr h rs,
        c09CountSeqL_congr (fun c hc => h c (c04RecChildren_sub hr c hc))]

theorem c09CountStepB_congr {sp : C09CountSpec} {bm : Bool} {body : Except DepErr C04Body}
    {f g : Expr → List Expr → Except DepErr (Nat × List Expr)} {e : Expr}
    (h : ∀ c ∈ e.children, f c = g c) (cache : List Expr) :
    c09CountStepB sp bm body f e cache = c09CountStepB sp bm body g e cache := by
  unfold c09CountStepB
  simp only [c09CountSites_congr h]

/-- **The table-driven node-count equations have one solution** (for every cache), whatever the
memo protocol, hooks and handler shapes are. -/
theorem c09Count_unique (sp : C09CountSpec) (bm : Expr → Bool) (body : Expr → Except DepErr C04Body)
    (f g : Expr → List Expr → Except DepErr (Nat × List Expr))
    (hf : ∀ e c, f e c = c09CountStepB sp (bm e) (body e) f e c)
    (hg : ∀ e c, g e c = c09CountStepB sp (bm e) (body e) g e c) : ∀ e c, f e c = g e c := by
  intro e
  induction e using children_induct with
  | step e ih =>
    intro c
    rw [hf, hg]
    exact c09CountStepB_congr (fun d hd => funext (ih d hd)) c

/-- `get_num_nodes` as coded is the entry point the spec describes, run with `c09CountWalk` -/
theorem c09NumNodesKeys_eq_T (e : Expr) :
    c09NumNodesKeys e = c09NumNodesT c09CountSpecHand c09CountWalk e := by
  simp only [c09NumNodesKeys, c09NumNodesT, c09CountSpecHand, C09CountSpec.memoActive,
    beq_self_eq_true, Bool.true_and, Bool.and_self, ↓reduceIte]
  split
  · rfl
  · rcases c09CountWalk e [] with err | ⟨n, c⟩ <;> simp

/-! ### `Collector.combine` read literally

`reduce(operator.or_, values, set())` is the LEFT fold from the empty set over the results of all
recursive calls.  `c09UnionSites` (and `deps`) compute the same set in another association.  For
lists that are duplicate-free under `==` and whose elements lie in a class on which `==` is an
equivalence (well-formed expressions: PV/Proofs/PyEqEquiv.lean) the two lists are EQUAL. -/

/-- a class of expressions on which Python `==` is reflexive, symmetric and transitive -/
structure C09EqClass (W : Expr → Prop) : Prop where
  refl : ∀ x, W x → x.pyEq x = true
  symm : ∀ x y, W x → W y → x.pyEq y = true → y.pyEq x = true
  trans : ∀ x y z, W x → W y → W z → x.pyEq y = true → y.pyEq z = true → x.pyEq z = true

/-- no earlier element is `==` a later one (a Python set as a list) -/
def c09Distinct : List Expr → Prop
  | [] => True
  | x :: xs => (∀ y ∈ xs, x.pyEq y = false) ∧ c09Distinct xs

theorem unionPy_append_singleton (a b : List Expr) (x : Expr) :
    unionPy a (b ++ [x]) = insPy (unionPy a b) x := by
  simp [unionPy, insPy, List.foldl_append]

theorem insPy_of_rep {a : List Expr} {x : Expr} (h : ∃ y ∈ a, y.pyEq x = true) : insPy a x = a := by
  obtain ⟨y, hy, hyx⟩ := h
  have : a.any (fun y => y.pyEq x) = true := List.any_eq_true.mpr ⟨y, hy, hyx⟩
  simp [insPy, this]

theorem insPy_of_not_rep {a : List Expr} {x : Expr} (h : ¬ ∃ y ∈ a, y.pyEq x = true) :
    insPy a x = a ++ [x] := by
  have : a.any (fun y => y.pyEq x) = false := by
    rw [Bool.eq_false_iff]; intro hc
    obtain ⟨y, hy, hyx⟩ := List.any_eq_true.mp hc
    exact h ⟨y, hy, hyx⟩
  simp [insPy, this]

variable {W : Expr → Prop}

/-- every element of either operand is represented in the union -/
theorem c09_rep_union (hW : C09EqClass W) {a b : List Expr} (ha : ∀ y ∈ a, W y) (hb : ∀ y ∈ b, W y)
    {x : Expr} (hx : x ∈ a ∨ x ∈ b) : ∃ y ∈ unionPy a b, y.pyEq x = true := by
  rcases hx with hx | hx
  · exact ⟨x, mem_unionPy_left hx, hW.refl x (ha x hx)⟩
  · obtain ⟨y, hy, hyx⟩ := mem_unionPy_right (a := a) hx
    rcases hyx with rfl | hyx
    · exact ⟨y, hy, hW.refl y (hb y hx)⟩
    · exact ⟨y, hy, hyx⟩

theorem c09_mem_union_W {a b : List Expr} (ha : ∀ y ∈ a, W y) (hb : ∀ y ∈ b, W y) :
    ∀ y ∈ unionPy a b, W y := by
  intro y hy
  rcases mem_unionPy hy with h | h
  · exact ha y h
  · exact hb y h

theorem c09_insPy_W {b : List Expr} {x : Expr} (hb : ∀ y ∈ b, W y) (hx : W x) :
    ∀ y ∈ insPy b x, W y := by
  intro y hy
  rcases mem_insPy hy with h | h
  · exact hb y h
  · exact h ▸ hx

/-- **`∪` on duplicate-free lists is associative** on a class where `==` is an equivalence -/
theorem unionPy_assoc (hW : C09EqClass W) (a : List Expr) (ha : ∀ y ∈ a, W y) :
    ∀ (c b : List Expr), (∀ y ∈ b, W y) → (∀ y ∈ c, W y) →
    unionPy (unionPy a b) c = unionPy a (unionPy b c)
  | [], b, _, _ => rfl
  | x :: c, b, hb, hc => by
    have hc' : ∀ y ∈ c, W y := fun y hy => hc y (by simp [hy])
    have hx : W x := hc x (by simp)
    rw [unionPy_cons, unionPy_cons, ← unionPy_assoc hW a ha c (insPy b x) (c09_insPy_W hb hx) hc']
    congr 1
    by_cases hr : ∃ y ∈ b, y.pyEq x = true
    · rw [insPy_of_rep hr]
      obtain ⟨y, hy, hyx⟩ := hr
      obtain ⟨z, hz, hzy⟩ := c09_rep_union hW ha hb (x := y) (.inr hy)
      have hzW : W z := c09_mem_union_W ha hb z hz
      exact insPy_of_rep ⟨z, hz, hW.trans z y x hzW (hb y hy) hx hzy hyx⟩
    · rw [insPy_of_not_rep hr, unionPy_append_singleton]

theorem unionPy_nil_left_of_distinct : ∀ (r : List Expr), c09Distinct r → unionPy [] r = r := by
  have key : ∀ (r acc : List Expr), c09Distinct r → (∀ y ∈ acc, ∀ x ∈ r, y.pyEq x = false) →
      unionPy acc r = acc ++ r := by
    intro r
    induction r with
    | nil => intro acc _ _; simp [unionPy_nil]
    | cons x xs ih =>
      intro acc hd hacc
      rw [unionPy_cons]
      have hn : ¬ ∃ y ∈ acc, y.pyEq x = true := by
        rintro ⟨y, hy, hyx⟩
        have := hacc y hy x (by simp)
        simp [this] at hyx
      rw [insPy_of_not_rep hn, ih (acc ++ [x]) hd.2]
      · simp
      · intro y hy z hz
        rcases List.mem_append.mp hy with hy | hy
        · exact hacc y hy z (by simp [hz])
        · simp only [List.mem_singleton] at hy
          subst hy
          exact hd.1 z hz
  intro r hd
  simpa using key r [] hd (by simp)

theorem c09Distinct_insPy {a : List Expr} {x : Expr} (ha : c09Distinct a) : c09Distinct (insPy a x) := by
  by_cases hr : ∃ y ∈ a, y.pyEq x = true
  · rw [insPy_of_rep hr]; exact ha
  · rw [insPy_of_not_rep hr]
    induction a with
    | nil => simp [c09Distinct]
    | cons y ys ih =>
      refine ⟨?_, ih ha.2 (fun ⟨z, hz, hzx⟩ => hr ⟨z, by simp [hz], hzx⟩)⟩
      intro z hz
      rcases List.mem_append.mp hz with hz | hz
      · exact ha.1 z hz
      · simp only [List.mem_singleton] at hz
        subst hz
        cases h : y.pyEq z
        · rfl
        · exact absurd ⟨y, by simp, h⟩ hr

/-- a union of duplicate-free lists is duplicate-free -/
theorem c09Distinct_unionPy : ∀ (b a : List Expr), c09Distinct a → c09Distinct (unionPy a b)
  | [], a, ha => ha
  | x :: b, a, ha => by rw [unionPy_cons]; exact c09Distinct_unionPy b _ (c09Distinct_insPy ha)

/-- `[self.rec(c, …) for c in cs]`: the results in order; the first exception ends it -/
def c09MapM (rec : Expr → Except DepErr (List Expr)) : List Expr → Except DepErr (List (List Expr))
  | [] => .ok []
  | c :: cs =>
    match rec c with
    | .error err => .error err
    | .ok x =>
      match c09MapM rec cs with
      | .error err => .error err
      | .ok xs => .ok (x :: xs)

/-- **`Collector.combine`, literally**: `reduce(operator.or_, values, set())` -/
def c09ReduceOr (vals : List (List Expr)) : List Expr := vals.foldl unionPy []

/-- the right-nested union `v₁ ∪ (v₂ ∪ (… ∪ ∅))` (the shape of `c09SeqU` / `depsL`) -/
def c09UnionR : List (List Expr) → List Expr
  | [] => []
  | v :: vs => unionPy v (c09UnionR vs)

theorem c09SeqU_eq_mapM (rec : Expr → Except DepErr (List Expr)) : ∀ cs : List Expr,
    c09SeqU rec cs = (c09MapM rec cs).map c09UnionR
  | [] => rfl
  | c :: cs => by
    simp only [c09SeqU, c09MapM, c09SeqU_eq_mapM rec cs]
    rcases rec c with err | x
    · rfl
    · rcases c09MapM rec cs with err | xs <;> rfl

theorem c09MapM_append (rec : Expr → Except DepErr (List Expr)) : ∀ (a b : List Expr),
    c09MapM rec (a ++ b) =
      match c09MapM rec a with
      | .error err => .error err
      | .ok v => match c09MapM rec b with
        | .error err => .error err
        | .ok w => .ok (v ++ w)
  | [], b => by
    simp only [List.nil_append, c09MapM]
    rcases c09MapM rec b with err | w <;> rfl
  | c :: a, b => by
    simp only [List.cons_append, c09MapM, c09MapM_append rec a b]
    rcases rec c with err | x
    · rfl
    · rcases c09MapM rec a with err | v
      · rfl
      · rcases c09MapM rec b with err | w <;> rfl

theorem c09MapM_mem {rec : Expr → Except DepErr (List Expr)} : ∀ {cs : List Expr}
    {vals : List (List Expr)}, c09MapM rec cs = .ok vals → ∀ v ∈ vals, ∃ c ∈ cs, rec c = .ok v
  | [], vals, h, v, hv => by simp [c09MapM] at h; subst h; simp at hv
  | c :: cs, vals, h, v, hv => by
    simp only [c09MapM] at h
    rcases hc : rec c with err | x
    · simp [hc] at h
    · rcases hcs : c09MapM rec cs with err | xs
      · simp [hc, hcs] at h
      · simp only [hc, hcs, Except.ok.injEq] at h
        subst h
        rcases List.mem_cons.mp hv with rfl | hv
        · exact ⟨c, by simp, hc⟩
        · obtain ⟨d, hd, hdv⟩ := c09MapM_mem hcs v hv
          exact ⟨d, by simp [hd], hdv⟩

/-- a list of result sets: each duplicate-free, all elements in `W` -/
def C09Good (W : Expr → Prop) (vals : List (List Expr)) : Prop :=
  ∀ v ∈ vals, c09Distinct v ∧ ∀ y ∈ v, W y

theorem c09UnionR_good {vals : List (List Expr)} (h : C09Good W vals) :
    c09Distinct (c09UnionR vals) ∧ ∀ y ∈ c09UnionR vals, W y := by
  induction vals with
  | nil => exact ⟨trivial, by simp [c09UnionR]⟩
  | cons v vs ih =>
    have hv := h v (by simp)
    have hvs := ih (fun w hw => h w (by simp [hw]))
    exact ⟨c09Distinct_unionPy _ _ hv.1, c09_mem_union_W hv.2 hvs.2⟩

theorem c09UnionR_append (hW : C09EqClass W) : ∀ {v w : List (List Expr)}, C09Good W v →
    C09Good W w → c09UnionR (v ++ w) = unionPy (c09UnionR v) (c09UnionR w)
  | [], w, _, hw => by
    simp only [List.nil_append, c09UnionR]
    exact (unionPy_nil_left_of_distinct _ (c09UnionR_good hw).1).symm
  | x :: v, w, hv, hw => by
    have hx := hv x (by simp)
    have hv' : C09Good W v := fun u hu => hv u (by simp [hu])
    simp only [List.cons_append, c09UnionR, c09UnionR_append hW hv' hw]
    exact (unionPy_assoc hW x hx.2 _ _ (c09UnionR_good hv').2 (c09UnionR_good hw).2).symm

theorem c09_foldl_union (hW : C09EqClass W) : ∀ {vals : List (List Expr)} {acc : List Expr},
    C09Good W vals → (∀ y ∈ acc, W y) →
    vals.foldl unionPy acc = unionPy acc (c09UnionR vals)
  | [], acc, _, _ => rfl
  | v :: vs, acc, hv, hacc => by
    have hx := hv v (by simp)
    have hvs : C09Good W vs := fun u hu => hv u (by simp [hu])
    simp only [List.foldl_cons, c09UnionR]
    rw [c09_foldl_union hW hvs (c09_mem_union_W hacc hx.2)]
    exact unionPy_assoc hW acc hacc _ _ hx.2 (c09UnionR_good hvs).2

/-- **Python's left fold from `set()` is the right-nested union** on good operands -/
theorem c09ReduceOr_eq_unionR (hW : C09EqClass W) {vals : List (List Expr)} (h : C09Good W vals) :
    c09ReduceOr vals = c09UnionR vals := by
  unfold c09ReduceOr
  rw [c09_foldl_union hW h (by simp)]
  exact unionPy_nil_left_of_distinct _ (c09UnionR_good h).1

/-- `c09UnionSites` over explicit children lists -/
def c09UnionRestL (rec : Expr → Except DepErr (List Expr)) :
    List Expr → List (List Expr) → Except DepErr (List Expr)
  | acc, [] => .ok acc
  | acc, l :: ls =>
    match c09SeqU rec l with
    | .error err => .error err
    | .ok y => c09UnionRestL rec (unionPy acc y) ls

theorem c09UnionRest_eq_L (rec : Expr → Except DepErr (List Expr)) (e : Expr) :
    ∀ (recs : List C04Rec) (css : List (List Expr)) (acc : List Expr),
    c04OptSeq (recs.map (c04RecChildren e)) = some css →
    c09UnionRest rec e acc recs = c09UnionRestL rec acc css
  | [], css, acc, h => by
    simp only [List.map_nil, c04OptSeq, Option.some.injEq] at h
    subst h; rfl
  | r :: rs, css, acc, h => by
    simp only [List.map_cons, c04OptSeq] at h
    rcases hr : c04RecChildren e r with _ | l
    · simp [hr, c04OptSeq] at h
    · rcases hrs : c04OptSeq (rs.map (c04RecChildren e)) with _ | ls
      · simp [hr, hrs, c04OptSeq] at h
      · simp only [hr, hrs, c04OptSeq, Option.some.injEq] at h
        subst h
        simp only [c09UnionRest, c09SiteU, hr, c09UnionRestL, bind, Except.bind]
        rcases c09SeqU rec l with err | y
        · rfl
        · exact c09UnionRest_eq_L rec e rs ls _ hrs

theorem c09UnionRestL_literal (hW : C09EqClass W) (rec : Expr → Except DepErr (List Expr)) :
    ∀ (css : List (List Expr)) (acc : List Expr),
    (∀ c ∈ css.flatten, ∀ r, rec c = .ok r → c09Distinct r ∧ ∀ y ∈ r, W y) →
    (∀ y ∈ acc, W y) →
    c09UnionRestL rec acc css =
      (c09MapM rec css.flatten).map (fun vals => unionPy acc (c09UnionR vals))
  | [], acc, _, _ => rfl
  | l :: ls, acc, hrec, hacc => by
    have hgood : ∀ {cs : List Expr} {vals}, (∀ c ∈ cs, c ∈ (l :: ls).flatten) →
        c09MapM rec cs = .ok vals → C09Good W vals := by
      intro cs vals hsub hm v hv
      obtain ⟨c, hc, hcv⟩ := c09MapM_mem hm v hv
      exact hrec c (hsub c hc) v hcv
    simp only [c09UnionRestL, List.flatten_cons, c09MapM_append, c09SeqU_eq_mapM]
    rcases hl : c09MapM rec l with err | v
    · rfl
    · have hv : C09Good W v := hgood (fun c hc => by simp [hc]) hl
      simp only [Except.map]
      rw [c09UnionRestL_literal hW rec ls _
        (fun c hc => hrec c (by simp [hc])) (c09_mem_union_W hacc (c09UnionR_good hv).2)]
      rcases hls : c09MapM rec ls.flatten with err | w
      · rfl
      · have hw : C09Good W w := hgood (fun c hc => by simp [hc]) hls
        simp only [Except.map]
        rw [c09UnionR_append hW hv hw,
          unionPy_assoc hW acc hacc _ _ (c09UnionR_good hv).2 (c09UnionR_good hw).2]

/-- **The union computed by the step function is Python's `reduce(operator.or_, values, set())`**
over the results of ALL recursive calls of the handler, in source order — when every recursion
site fits the node, and the recursive results are duplicate-free lists of elements on which `==`
is an equivalence. -/
theorem c09UnionSites_eq_literal (hW : C09EqClass W) (rec : Expr → Except DepErr (List Expr))
    (e : Expr) (recs : List C04Rec) (cs : List Expr) (hfit : c04RecsChildren e recs = some cs)
    (hrec : ∀ c ∈ cs, ∀ r, rec c = .ok r → c09Distinct r ∧ ∀ y ∈ r, W y) :
    c09UnionSites rec e recs = (c09MapM rec cs).map c09ReduceOr := by
  unfold c04RecsChildren at hfit
  rcases hcss : c04OptSeq (recs.map (c04RecChildren e)) with _ | css
  · simp [hcss] at hfit
  · simp only [hcss, Option.map_some, Option.some.injEq] at hfit
    subst hfit
    have hred : (c09MapM rec css.flatten).map c09ReduceOr =
        (c09MapM rec css.flatten).map c09UnionR := by
      rcases hm : c09MapM rec css.flatten with err | vals
      · rfl
      · simp only [Except.map]
        rw [c09ReduceOr_eq_unionR hW (fun v hv => by
          obtain ⟨c, hc, hcv⟩ := c09MapM_mem hm v hv
          exact hrec c hc v hcv)]
    rw [hred]
    cases recs with
    | nil =>
      simp only [List.map_nil, c04OptSeq, Option.some.injEq] at hcss
      subst hcss; rfl
    | cons r rs =>
      simp only [List.map_cons, c04OptSeq] at hcss
      rcases hr : c04RecChildren e r with _ | l
      · simp [hr, c04OptSeq] at hcss
      · rcases hrs : c04OptSeq (rs.map (c04RecChildren e)) with _ | ls
        · simp [hr, hrs, c04OptSeq] at hcss
        · simp only [hr, hrs, c04OptSeq, Option.some.injEq] at hcss
          subst hcss
          simp only [c09UnionSites, c09SiteU, hr, bind, Except.bind, List.flatten_cons,
            c09MapM_append, c09SeqU_eq_mapM]
          rcases hl : c09MapM rec l with err | v
          · rfl
          · have hv : C09Good W v := fun u hu => by
              obtain ⟨c, hc, hcv⟩ := c09MapM_mem hl u hu
              exact hrec c (by simp [hc]) u hcv
            simp only [Except.map]
            rw [c09UnionRest_eq_L rec e rs ls _ hrs,
              c09UnionRestL_literal hW rec ls _ (fun c hc => hrec c (by simp [hc]))
                (c09UnionR_good hv).2]
            rcases hls : c09MapM rec ls.flatten with err | w
            · rfl
            · have hw : C09Good W w := fun u hu => by
                obtain ⟨c, hc, hcv⟩ := c09MapM_mem hls u hu
                exact hrec c (by simp [hc]) u hcv
              simp only [Except.map]
              rw [c09UnionR_append hW hv hw]

/-! #### results of the dependency handlers are duplicate-free -/

theorem c09SeqU_distinct {rec : Expr → Except DepErr (List Expr)} :
    ∀ {cs : List Expr} {r : List Expr}, (∀ c ∈ cs, ∀ x, rec c = .ok x → c09Distinct x) →
    c09SeqU rec cs = .ok r → c09Distinct r
  | [], r, _, h => by simp [c09SeqU, pure, Except.pure] at h; subst h; trivial
  | c :: cs, r, hrec, h => by
    simp only [c09SeqU, bind, Except.bind] at h
    rcases hc : rec c with err | x
    · simp [hc] at h
    · rcases hcs : c09SeqU rec cs with err | y
      · simp [hc, hcs] at h
      · simp only [hc, hcs, pure, Except.pure, Except.ok.injEq] at h
        subst h
        exact c09Distinct_unionPy _ _ (hrec c (by simp) x hc)

theorem c09UnionRest_distinct {rec : Expr → Except DepErr (List Expr)} {e : Expr} :
    ∀ {recs : List C04Rec} {acc r : List Expr}, c09Distinct acc →
    c09UnionRest rec e acc recs = .ok r → c09Distinct r
  | [], acc, r, ha, h => by simp [c09UnionRest, pure, Except.pure] at h; subst h; exact ha
  | s :: rs, acc, r, ha, h => by
    simp only [c09UnionRest, bind, Except.bind] at h
    rcases hs : c09SiteU rec e s with err | y
    · simp [hs] at h
    · simp only [hs] at h
      exact c09UnionRest_distinct (c09Distinct_unionPy _ _ ha) h

theorem c09UnionSites_distinct {rec : Expr → Except DepErr (List Expr)} {e : Expr}
    (hrec : ∀ c ∈ e.children, ∀ x, rec c = .ok x → c09Distinct x) {recs : List C04Rec}
    {r : List Expr} (h : c09UnionSites rec e recs = .ok r) : c09Distinct r := by
  cases recs with
  | nil => simp [c09UnionSites, pure, Except.pure] at h; subst h; trivial
  | cons s rs =>
    simp only [c09UnionSites, bind, Except.bind] at h
    rcases hs : c09SiteU rec e s with err | y
    · simp [hs] at h
    · simp only [hs] at h
      refine c09UnionRest_distinct ?_ h
      unfold c09SiteU at hs
      rcases hc : c04RecChildren e s with _ | cs
      · simp [hc] at hs
      · simp only [hc] at hs
        exact c09SeqU_distinct (fun c hcm => hrec c (c04RecChildren_sub hc c hcm)) hs

theorem c09DepsRun_distinct {fl : DepFlags} {rec : Expr → Except DepErr (List Expr)} {e : Expr}
    (hrec : ∀ c ∈ e.children, ∀ x, rec c = .ok x → c09Distinct x) :
    ∀ (b : C09Body) {r : List Expr}, c09DepsRun fl rec e b = .ok r → c09Distinct r := by
  intro b
  induction b with
  | single =>
    intro r h
    simp only [c09DepsRun, depSingle] at h
    split at h
    · cases h
    · simp only [pure, Except.pure, Except.ok.injEq] at h; subst h; exact ⟨by simp, trivial⟩
  | empty => intro r h; simp only [c09DepsRun, pure, Except.pure, Except.ok.injEq] at h; subst h; trivial
  | combine recs => intro r h; exact c09UnionSites_distinct hrec (by simpa [c09DepsRun] using h)
  | c04 b =>
    intro r h
    cases b <;> simp only [c09DepsRun, reduceCtorEq] at h
    exact c09UnionSites_distinct hrec h
  | hashed k ih =>
    intro r h
    simp only [c09DepsRun] at h
    split at h
    · cases h
    · exact ih h
  | ifFlagEq fg l t e' iht ihe =>
    intro r h
    simp only [c09DepsRun] at h
    split at h
    · split at h
      · exact iht h
      · exact ihe h
    · cases h
  | ifFlag fg t e' iht ihe =>
    intro r h
    simp only [c09DepsRun] at h
    split at h
    · split at h
      · exact iht h
      · exact ihe h
    · cases h
  | _ => intro r h; simp [c09DepsRun] at h

/-- every set `deps` returns is duplicate-free under `==` (as a Python set is) -/
theorem deps_distinct (fl : DepFlags) (e : Expr) : ∀ {r : List Expr}, deps fl e = .ok r →
    c09Distinct r := by
  induction e using children_induct with
  | step e ih =>
    intro r h
    rw [deps_eq_stepB] at h
    unfold c09DepsStepB at h
    split at h
    · cases h
    · exact c09DepsRun_distinct (fun c hc x hx => ih c hc hx) _ h

end PV
