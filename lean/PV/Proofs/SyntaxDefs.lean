import PV.Model.Stringify
import PV.Proofs.SyntaxParse
import PV.Generated.Prec
/-
  C06.  The fragment of trees on which printing followed by parsing is proved to be the identity
  (up to the parser's normal form).  Everything here is computed from the two precedence tables:

  * `Kind`: the top constructor class of a tree, with the printer's own precedence `myPrec`, the
    guard `lguard` of its top operator in the parser (an operator is absorbed by a loop running
    at level `m` iff `guard > m`) and the level `rlevel` of the loop that is still open at its
    right end;
  * `Pos`: a child position of a node, with the printer's enclosing precedence `enc`, the forced
    parentheses, and the two demands on an unparenthesised child: `lguard ≥ lge`, `rlevel ≥ rge`;
  * `okTriple P S pos kind`: the local condition; `Printable P S e`: it holds at every node.
-/
namespace PV.Syntax
open PV

inductive Kind where
  | atom                  -- variable, non-negative number without sign, True/False: one token
  | neg                   -- negative integer / float constant: `-` literal
  | sfloat                -- non-negative float whose repr has a sign in the exponent (`1e-05`)
  | nary (o : NaryOp)
  | bin (o : BinOp)
  | un (o : UnOp)
  | cmp
  | ite
  | call                  -- `Call` and `CallWithKwargs`
  | subscript
  | lookup
  | tuple
  | list
  | slice
  deriving Repr, DecidableEq

/-- the repr of a negative float is `-` followed by a repr that Python's negation maps back to
it (a decidable check on the concrete string) -/
def negFloatOk (r : String) : Bool :=
  decide ("-" ++ (r.drop 1).toString = r) && !(r.drop 1).toString.startsWith "-"

/-- class of a float constant with repr `r` and denominator `d` (`d = 0`: inf / nan) -/
def fltKind (r : String) (d : Nat) : Option Kind :=
  if d = 0 then none
  else if r.startsWith "-" then (if negFloatOk r then some .neg else none)
  else if r.contains '+' || r.contains '-' then some .sfloat
  else some .atom

def kind : Expr → Option Kind
  | .const (.int n) => some (if n < 0 then .neg else .atom)
  | .const (.flt r _ d) => fltKind r d
  | .const (.bool _) => some .atom
  | .var _ => some .atom
  | .nary .min _ => none
  | .nary .max _ => none
  | .nary o _ => some (.nary o)
  | .bin o _ _ => some (.bin o)
  | .un o _ => some (.un o)
  | .cmp _ _ _ => some .cmp
  | .ite _ _ _ => some .ite
  | .call _ _ => some .call
  | .callKw _ _ _ _ => some .call
  | .subscript _ _ => some .subscript
  | .lookup _ _ => some .lookup
  | .tuple _ => some .tuple
  | .list _ => some .list
  | .slice _ => some .slice
  | _ => none

/-- second argument of `parenthesize_if_needed` for this class; `none`: never parenthesised -/
def Kind.myPrec (S : PrintPrec) : Kind → Option Nat
  | .atom => none
  | .neg => some S.sum
  | .sfloat => some S.sum
  | .nary .sum => some S.sum
  | .nary .prod => some S.product
  | .nary .bor => some S.bor
  | .nary .bxor => some S.bxor
  | .nary .band => some S.band
  | .nary .lor => some S.lor
  | .nary .land => some S.land
  | .nary _ => none
  | .bin .pow => some S.power
  | .bin .lshift | .bin .rshift => some S.shift
  | .bin _ => some S.product
  | .un _ => some S.unary
  | .cmp => some S.comparison
  | .ite => some S.ifp
  | .call => none
  | .subscript | .lookup => some S.call
  | .tuple | .list => none
  | .slice => some S.none

def naryInfix : NaryOp → Option Infix
  | .sum => some .plus | .prod => some .times | .bor => some .bor | .bxor => some .bxor
  | .band => some .band | .lor => some .lor | .land => some .land | _ => none

def binInfix : BinOp → Infix
  | .quot => .quot | .floordiv => .floordiv | .rem => .rem | .pow => .pow
  | .lshift => .lshift | .rshift => .rshift

/-- guard of the top operator (`none`: the tree starts with a prefix form, no operator on top) -/
def Kind.lguard (P : ParserPrec) : Kind → Option Nat
  | .nary o => (naryInfix o).map (Infix.guard P)
  | .bin o => some ((binInfix o).guard P)
  | .cmp => some P.comparison
  | .ite => some P.ifp
  | .call | .subscript | .lookup => some P.call
  | .slice => some (P.slice + 1)
  | _ => none

/-- level of the loop still open at the right end (`none`: closed) -/
def Kind.rlevel (P : ParserPrec) : Kind → Option Nat
  | .nary o => (naryInfix o).map (Infix.rhs P)
  | .bin o => some ((binInfix o).rhs P)
  | .cmp => some P.comparison
  | .ite => some 0
  | .un _ => some P.unary
  | .neg => some P.unary
  | .slice => some P.slice
  | _ => none

def geO (a : Option Nat) (m : Nat) : Prop := match a with | none => True | some x => x ≥ m
def gtO (a : Option Nat) (m : Nat) : Prop := match a with | none => True | some x => x > m
instance (a m) : Decidable (geO a m) := by unfold geO; split <;> infer_instance
instance (a m) : Decidable (gtO a m) := by unfold gtO; split <;> infer_instance

inductive Pos where
  | left (o : Infix)      -- left operand of `o` (first operand of a sum, non-last of a product)
  | right (o : Infix)     -- right operand (non-first operand of a sum, last of a product)
  | unArg                 -- operand of `~` / `not`
  | iteThen | iteCond | iteElse
  | top
  | callee                -- function of a call, aggregate of a subscript / look-up
  | arg                   -- positional argument or keyword value
  | index                 -- non-tuple index of a subscript, the element of a one-element list
  | elemFirst             -- first element of a tuple / list / index tuple
  | elemRest              -- further elements
  | slicePart             -- a part of a slice that is followed by `:`
  | sliceLast             -- the last part of a slice
  deriving Repr, DecidableEq

def encL (S : PrintPrec) : Infix → Nat
  | .plus => S.sum | .times | .quot | .floordiv | .rem => S.product | .pow => S.power + 1
  | .lshift | .rshift => S.shift + 1 | .band => S.band | .bxor => S.bxor | .bor => S.bor
  | .land => S.land | .lor => S.lor | .cmp _ => S.comparison + 1

def encR (S : PrintPrec) : Infix → Nat
  | .pow => S.power
  | o => encL S o

def Pos.enc (S : PrintPrec) : Pos → Nat
  | .left o => encL S o
  | .right o => encR S o
  | .unArg => S.unary
  | .iteThen | .iteCond | .iteElse => S.lor
  | .top => S.none
  | .callee => S.call
  | .arg | .index | .elemFirst | .elemRest | .slicePart | .sliceLast => S.none

def Kind.isMult : Kind → Bool
  | .nary .prod | .bin .quot | .bin .floordiv | .bin .rem => true
  | _ => false
def Kind.isDiv : Kind → Bool
  | .bin .quot | .bin .floordiv | .bin .rem => true
  | _ => false

/-- `rec_with_force_parens_around` -/
def Infix.forces : Infix → Kind → Bool
  | .times, k => k.isDiv
  | .quot, k | .floordiv, k | .rem, k => k.isMult
  | _, _ => false

def Pos.forces : Pos → Kind → Bool
  | .left o, k | .right o, k => o.forces k
  | _, _ => false

/-- demand on the guard of the top operator of an unparenthesised child -/
def Pos.lge (P : ParserPrec) : Pos → Nat
  | .left o => o.guard P
  | .right o => o.rhs P + 1
  | .unArg => P.unary + 1
  | .iteThen => P.ifp
  | .iteCond => P.ifp + 1
  | .iteElse => 1
  | .top => 1
  | .callee => P.call
  | .arg => P.comma + 1
  | .index => 1
  | .elemFirst => 1
  | .elemRest => P.comma + 1
  | .slicePart => P.slice + 1
  | .sliceLast => P.slice + 1

/-- demand on the open right-end level of an unparenthesised child -/
def Pos.rge (P : ParserPrec) : Pos → Nat
  | .left o => o.guard P
  | .right o => o.rhs P
  | .unArg => P.unary
  | .iteThen => P.ifp
  | .iteCond => 0
  | .iteElse => 0
  | .top => 0
  | .callee => P.call
  | .arg => P.comma
  | .index => 0
  | .elemFirst => P.comma
  | .elemRest => P.comma
  | .slicePart => P.slice + 1
  | .sliceLast => P.slice

/-- child classes that a position cannot hold at all: an index / a sole list element that is a
tuple is read as the index tuple / as the list of its elements -/
def Pos.excludes : Pos → Kind → Bool
  | .index, .tuple => true
  | .slicePart, .slice => true      -- a slice inside a slice prints as one longer slice
  | .sliceLast, .slice => true
  | _, _ => false

def wrappedK (S : PrintPrec) (enc : Nat) (k : Kind) : Bool :=
  match k.myPrec S with
  | some p => enc > p
  | none => false

/-- the printer puts the child in parentheses -/
def parenthesised (S : PrintPrec) (pos : Pos) (k : Kind) : Bool :=
  pos.forces k || wrappedK S (pos.enc S) k

/-- THE local condition: a parenthesised child is read at level 0 (every operator must be
absorbable there); an unparenthesised child must keep its top operator inside the parent's
operand (`lguard ≥ lge`) and must not swallow what follows (`rlevel ≥ rge`) -/
def okTriple (P : ParserPrec) (S : PrintPrec) (pos : Pos) (k : Kind) : Bool :=
  !pos.excludes k &&
  if parenthesised S pos k then decide (geO (k.lguard P) 1)
  else decide (geO (k.lguard P) (pos.lge P)) && decide (geO (k.rlevel P) (pos.rge P))

def okAt (P : ParserPrec) (S : PrintPrec) (pos : Pos) (c : Expr) : Bool :=
  match kind c with
  | some k => okTriple P S pos k
  | none => false

/-- keyword names are pairwise different (a repeated keyword overwrites the earlier value) -/
def nodupB : List String → Bool
  | [] => true
  | x :: xs => !xs.contains x && nodupB xs

mutual
/-- the fragment: every node has a covered shape and every child satisfies `okTriple` -/
def Printable (P : ParserPrec) (S : PrintPrec) : Expr → Bool
  | .const (.int _) => true
  | .const (.bool _) => true
  | .const (.flt r _ d) => (fltKind r d).isSome
  | .var _ => true
  | .nary .sum (c :: d :: cs) =>
      okAt P S (.left .plus) c && Printable P S c && PrintableAll P S (.right .plus) (d :: cs)
  | .nary .prod (c :: d :: cs) =>
      PrintableProd P S (c :: d :: cs) && (cs.isEmpty || decide (P.times > P.plus))
  | .nary o [a, b] =>
      match naryInfix o with
      | some i => okAt P S (.left i) a && okAt P S (.right i) b && Printable P S a && Printable P S b
      | none => false
  | .bin o a b =>
      okAt P S (.left (binInfix o)) a && okAt P S (.right (binInfix o)) b
        && Printable P S a && Printable P S b
  | .un _ a => okAt P S .unArg a && Printable P S a
  | .cmp o a b =>
      okAt P S (.left (.cmp o)) a && okAt P S (.right (.cmp o)) b
        && Printable P S a && Printable P S b
  | .ite c t e =>
      okAt P S .iteCond c && okAt P S .iteThen t && okAt P S .iteElse e
        && Printable P S c && Printable P S t && Printable P S e
  | .call f as => okAt P S .callee f && Printable P S f && PrintableAll P S .arg as
  | .callKw f as ns vs =>
      okAt P S .callee f && Printable P S f && PrintableAll P S .arg as
        && PrintableAll P S .arg vs && ns.length == vs.length && !ns.isEmpty && nodupB ns
  | .subscript a (.tuple (c :: d :: cs)) =>
      okAt P S .callee a && Printable P S a && okAt P S .elemFirst c && Printable P S c
        && PrintableAll P S .elemRest (d :: cs) && decide (P.comma > 0)
  | .subscript _ (.tuple _) => false
  | .subscript a i => okAt P S .callee a && Printable P S a && okAt P S .index i && Printable P S i
  | .lookup a _ => okAt P S .callee a && Printable P S a
  | .tuple [] => true
  | .tuple (c :: cs) =>
      okAt P S .elemFirst c && Printable P S c && PrintableAll P S .elemRest cs
        && decide (P.comma > 0)
  | .list [] => true
  | .list [c] => okAt P S .index c && Printable P S c
  | .list (c :: cs) =>
      okAt P S .elemFirst c && Printable P S c && PrintableAll P S .elemRest cs
        && decide (P.comma > 0)
  | .slice (c :: d :: cs) => PrintableSlice P S (c :: d :: cs)
  | _ => false
/-- parts of a slice: omitted parts (`None`) are allowed except in the last place -/
def PrintableSlice (P : ParserPrec) (S : PrintPrec) : List Expr → Bool
  | [] => false
  | [c] => okAt P S .sliceLast c && Printable P S c
  | .const .none :: cs => PrintableSlice P S cs
  | c :: cs => okAt P S .slicePart c && Printable P S c && PrintableSlice P S cs
def PrintableAll (P : ParserPrec) (S : PrintPrec) (pos : Pos) : List Expr → Bool
  | [] => true
  | c :: cs => okAt P S pos c && Printable P S c && PrintableAll P S pos cs
/-- operands of a product: the last one is the right operand of the last `*` -/
def PrintableProd (P : ParserPrec) (S : PrintPrec) : List Expr → Bool
  | [] => false
  | [c] => okAt P S (.right .times) c && Printable P S c
  | c :: cs => okAt P S (.left .times) c && Printable P S c && PrintableProd P S cs
end

/-! ### the parser's normal form of a printed tree -/

mutual
/-- what the parser returns for the printed form of a tree of the fragment: sums are spliced
into a left operand that is a sum, products come back right-nested -/
def pnf : Expr → Expr
  | .nary .sum (c :: cs) => pnfSum (pnf c) cs
  | .nary .prod cs => pnfProd cs
  | .nary o cs => .nary o (pnfL cs)
  | .bin o a b => .bin o (pnf a) (pnf b)
  | .un o a => .un o (pnf a)
  | .cmp o a b => .cmp o (pnf a) (pnf b)
  | .ite c t e => .ite (pnf c) (pnf t) (pnf e)
  | .call f as => .call (pnf f) (pnfL as)
  | .callKw f as ns vs => .callKw (pnf f) (pnfL as) ns (pnfL vs)
  | .subscript a i => .subscript (pnf a) (pnf i)
  | .lookup a n => .lookup (pnf a) n
  | .tuple cs => .tuple (pnfL cs)
  | .list cs => .list (pnfL cs)
  | .slice cs => .slice (pnfL cs)
  | e => e
def pnfL : List Expr → List Expr
  | [] => []
  | c :: cs => pnf c :: pnfL cs
def pnfSum (acc : Expr) : List Expr → Expr
  | [] => acc
  | c :: cs => pnfSum (spliceNary .sum acc (pnf c)) cs
def pnfProd : List Expr → Expr
  | [] => .nary .prod []
  | c :: cs =>
    match cs with
    | [] => pnf c
    | _ :: _ => spliceNary .prod (pnf c) (pnfProd cs)
end

/-- `FinalizedContainer`: a tuple or list literal is closed by its delimiter -/
def finOf : Expr → Bool
  | .tuple _ | .list _ => true
  | _ => false

/-! ### the finite table of triples -/

def allInfix : List Infix :=
  [.plus, .times, .quot, .floordiv, .rem, .pow, .lshift, .rshift, .band, .bxor, .bor, .land, .lor,
   .cmp .eq]

def allPos : List Pos :=
  allInfix.map .left ++ allInfix.map .right ++
    [.unArg, .iteThen, .iteCond, .iteElse, .top, .callee, .arg, .index, .elemFirst, .elemRest,
     .slicePart, .sliceLast]

def allKinds : List Kind :=
  [.atom, .neg, .sfloat, .nary .sum, .nary .prod, .nary .bor, .nary .bxor, .nary .band, .nary .lor,
   .nary .land, .bin .quot, .bin .floordiv, .bin .rem, .bin .pow, .bin .lshift, .bin .rshift,
   .un .bnot, .un .lnot, .cmp, .ite, .call, .subscript, .lookup, .tuple, .list, .slice]

/-- all (position, child class) pairs that fail the local condition -/
def badTriples (P : ParserPrec) (S : PrintPrec) : List (Pos × Kind) :=
  (allPos.flatMap fun p => allKinds.map fun k => (p, k)).filter fun pk => !okTriple P S pk.1 pk.2

end PV.Syntax

