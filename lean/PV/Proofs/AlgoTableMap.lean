import PV.Proofs.AlgoTablePoly
/-
  C19 (T-gen): the mapper handlers of polynomials (`EvaluationMapper.map_polynomial`,
  `IdentityMapper.map_polynomial`) and `Rational.__init__` — the hand-written model functions are
  what the table interpreter computes on the bodies regenerated from the current source.
-/
namespace PV.Algo
open PV.Generated
variable {α : Type}

/-! ## `EvaluationMapper.map_polynomial` (Horner) -/

def c19HoPre : List C19S := [
  .assign (.pat (.name "result")) (.int 0),
  .assign (.pat (.name "rev_data")) (.slice (.attr (.var "expr") "data") .none (.int (-1))),
  .assign (.pat (.name "ev_base")) (.method (.var "self") "rec" [(.attr (.var "expr") "base")])]
def c19HoPat : C19P := .tuple [(.name "i"), (.tuple [(.name "exp"), (.name "coeff")])]
def c19HoBody : List C19S := [
  .ite (.cmp .lt (.bin .add (.var "i") (.int 1)) (.call "len" [(.var "rev_data")])) [
    .assign (.pat (.name "next_exp")) (.index (.index (.var "rev_data") (.bin .add (.var "i") (.int 1))) (.int 0))] [
    .assign (.pat (.name "next_exp")) (.int 0)],
  .assign (.pat (.name "result")) (.bin .mul (.bin .add (.var "result") (.method (.var "self") "rec" [(.var "coeff")])) (.bin .pow (.var "ev_base") (.bin .sub (.var "exp") (.var "next_exp"))))]

/-- the body of `EvaluationMapper.map_polynomial` in the current source -/
theorem c19_horner_body_current :
    c19Fn_EvaluationMapper_map_polynomial = ⟨"EvaluationMapper.map_polynomial", .method,
      ["self", "expr"], [],
      c19HoPre ++ [.for c19HoPat (.call "enumerate" [(.var "rev_data")]) c19HoBody,
        .ret (.var "result")]⟩ := rfl

def c19HoInv (σ : C19Store α) (self : C19V α) (R : List Term) (x res : Int) : Prop :=
  c19Get "self" σ = some self ∧ c19Get "rev_data" σ = some (.tup (c19EncTerms R)) ∧
  c19Get "ev_base" σ = some (.int x) ∧ c19Get "result" σ = some (.int res)

def c19HoNext : List Term → Nat
  | [] => 0
  | (e', _) :: _ => e'

theorem c19_hornerLoopPy_cons (x res : Int) (e : Nat) (c : Int) (rest : List Term) :
    hornerLoopPy x res ((e, c) :: rest) =
      if e < c19HoNext rest then none
      else hornerLoopPy x ((res + c) * x ^ (e - c19HoNext rest)) rest := by
  cases rest with
  | nil => simp [hornerLoopPy, c19HoNext]
  | cons t r =>
    obtain ⟨e', c'⟩ := t
    rw [hornerLoopPy]
    rfl

def c19EnumItem (t : Term) (i : Nat) : C19V α := .tup [.int i, c19EncTerm t]

theorem c19_ho_step (cx : C19Cx α) (self : C19V α) (pre rest : List Term) (e : Nat) (c x res : Int)
    (hrec : ∀ c : Int, c19Method cx self "rec" [.int c] = .ok (.int c))
    (σ : C19Store α) (h : c19HoInv σ self (pre ++ (e, c) :: rest) x res)
    (hge : ¬ e < c19HoNext rest) :
    ∃ σ1 σ2, c19Bind c19HoPat (c19EnumItem (e, c) pre.length) σ = some σ1 ∧
      c19ExecL cx c19HoBody σ1 = .next σ2 ∧
      c19HoInv σ2 self (pre ++ (e, c) :: rest) x ((res + c) * x ^ (e - c19HoNext rest)) := by
  obtain ⟨h1, h2, h3, h4⟩ := h
  have hlen : (c19EncTerms (pre ++ (e, c) :: rest) : List (C19V α)).length
      = pre.length + 1 + rest.length := by
    simp [c19EncTerms]; omega
  have hcast : (pre.length : Int) + 1 = ((pre.length + 1 : Nat) : Int) := by omega
  unfold c19HoPat c19EnumItem c19EncTerm c19HoBody
  cases rest with
  | nil =>
    have hd : decide (((pre.length + 1 : Nat) : Int) < ((pre.length + 1 + 0 : Nat) : Int)) = false := by
      simp
    have hpow : ¬ ((e : Int) - 0 < 0) := by omega
    have ht : ((e : Int) - 0).toNat = e - c19HoNext [] := by simp [c19HoNext]
    refine ⟨_, _, by c19_run []; rfl, (by
      c19_run [h1, h2, h3, h4, hlen, hcast, hd, hrec, List.length_nil, hpow, ht]
      rfl), ?_⟩
    unfold c19HoInv
    c19_run [h1, h2, h3, h4]
    simp
  | cons t r =>
    obtain ⟨e', c'⟩ := t
    have hd : decide (((pre.length + 1 : Nat) : Int) < ((pre.length + 1 + (r.length + 1) : Nat) : Int))
        = true := by simp; omega
    have hidx : c19Index (c19EncTerms (pre ++ (e, c) :: (e', c') :: r) : List (C19V α))
        (((pre.length + 1 : Nat) : Int)) = .ok (.tup [.int e', .int c']) := by
      rw [c19Index_enc _ _ (by simp)]
      have : (pre ++ (e, c) :: (e', c') :: r)[pre.length + 1]'(by simp) = (e', c') := by
        simp [List.getElem_append_right]
      rw [this]
    have hge' : ¬ e < e' := by simpa [c19HoNext] using hge
    have hpow : ¬ ((e : Int) - (e' : Int) < 0) := by omega
    have ht : ((e : Int) - (e' : Int)).toNat = e - c19HoNext ((e', c') :: r) := by
      simp [c19HoNext]
    refine ⟨_, _, by c19_run []; rfl, (by
      c19_run [h1, h2, h3, h4, hlen, List.length_cons, hd, hcast, hidx, hrec, hpow, ht]
      rfl), ?_⟩
    unfold c19HoInv
    c19_run [h1, h2, h3, h4]
    simp


theorem c19_zipIdx_enum (rest : List Term) (i : Nat) :
    ((c19EncTerms rest : List (C19V α)).zipIdx i).map
        (fun (p : C19V α × Nat) => (.tup [.int p.2, p.1] : C19V α))
      = (rest.zipIdx i).map fun p => c19EnumItem p.1 p.2 := by
  induction rest generalizing i with
  | nil => rfl
  | cons t r ih =>
    simp only [c19EncTerms, List.map_cons, List.zipIdx_cons]
    simp only [c19EncTerms] at ih
    rw [ih]
    rfl

/-- the `for` loop of `map_polynomial` IS `hornerLoopPy` (whenever that one stays within the
integers) -/
theorem c19_ho_loop (cx : C19Cx α) (self : C19V α) (x : Int)
    (hrec : ∀ c : Int, c19Method cx self "rec" [.int c] = .ok (.int c)) :
    ∀ (rest pre : List Term) (res v : Int) (σ : C19Store α),
      c19HoInv σ self (pre ++ rest) x res → hornerLoopPy x res rest = some v →
      ∃ σ', c19For (c19Bind c19HoPat) (c19ExecL cx c19HoBody)
          ((rest.zipIdx pre.length).map fun p => c19EnumItem p.1 p.2) σ = .next σ' ∧
        c19Get "result" σ' = some (.int v) := by
  intro rest
  induction rest with
  | nil =>
    intro pre res v σ h hv
    simp only [hornerLoopPy, Option.some.injEq] at hv
    subst hv
    exact ⟨σ, rfl, h.2.2.2⟩
  | cons t rest ih =>
    intro pre res v σ h hv
    obtain ⟨e, c⟩ := t
    rw [c19_hornerLoopPy_cons] at hv
    by_cases hlt : e < c19HoNext rest
    · simp [hlt] at hv
    · simp only [hlt, if_false] at hv
      obtain ⟨σ1, σ2, hb, he, hinv⟩ := c19_ho_step cx self pre rest e c x res hrec σ h hlt
      have hinv' : c19HoInv σ2 self ((pre ++ [(e, c)]) ++ rest) x
          ((res + c) * x ^ (e - c19HoNext rest)) := by
        simpa using hinv
      obtain ⟨σ', hl, hres⟩ := ih (pre ++ [(e, c)]) _ v σ2 hinv' hv
      refine ⟨σ', ?_, hres⟩
      simp only [List.zipIdx_cons, List.map_cons]
      rw [c19For_cons _ _ _ _ _ _ _ hb he]
      simpa using hl

theorem c19_find_horner : c19FindFn c19Table "EvaluationMapper.map_polynomial"
    = some c19Fn_EvaluationMapper_map_polynomial := rfl

theorem c19_find_poly_data : c19FindFn c19Table "Polynomial.data" = some c19Fn_Polynomial_data := rfl
theorem c19_find_poly_base : c19FindFn c19Table "Polynomial.base" = some c19Fn_Polynomial_base := rfl

theorem c19_poly_data_run (ops : C19Ops α) (ext : String → List (C19V α) → C19R (C19V α))
    (b : C19V α) (ts : List (C19V α)) (n : Nat) :
    c19RunFn ops c19Table ext (n + 1) "Polynomial.data" [c19PolyObj b ts] = .ok (.tup ts) := by
  rw [c19RunFn_succ ops c19Table ext _ _ _ _ _ c19_find_poly_data rfl]
  simp only [c19Fn_Polynomial_data]
  c19_run [c19Attr_poly_data]
  rfl

theorem c19_poly_base_run (ops : C19Ops α) (ext : String → List (C19V α) → C19R (C19V α))
    (b : C19V α) (ts : List (C19V α)) (n : Nat) :
    c19RunFn ops c19Table ext (n + 1) "Polynomial.base" [c19PolyObj b ts] = .ok b := by
  rw [c19RunFn_succ ops c19Table ext _ _ _ _ _ c19_find_poly_base rfl]
  simp only [c19Fn_Polynomial_base]
  c19_run [c19Attr_poly_base]
  rfl

theorem c19Attr_poly_data_prop (ops : C19Ops α) (ext : String → List (C19V α) → C19R (C19V α))
    (n k : Nat) (b : C19V α) (ts : List (C19V α)) :
    c19Attr (c19CxAt ops c19Table ext n k) (c19PolyObj b ts) "data"
      = c19RunFn ops c19Table ext n "Polynomial.data" [c19PolyObj b ts] := rfl
theorem c19Attr_poly_base_prop (ops : C19Ops α) (ext : String → List (C19V α) → C19R (C19V α))
    (n k : Nat) (b : C19V α) (ts : List (C19V α)) :
    c19Attr (c19CxAt ops c19Table ext n k) (c19PolyObj b ts) "base"
      = c19RunFn ops c19Table ext n "Polynomial.base" [c19PolyObj b ts] := rfl

theorem c19Slice_reverse (vs : List (C19V α)) : c19Slice vs .none (.int (-1)) = .ok vs.reverse := rfl

/-- an `EvaluationMapper` instance (its attributes do not matter here) -/
def c19EvalMapper (ks : List String) (vs : List (C19V α)) : C19V α := .obj "EvaluationMapper" ks vs

theorem c19Method_eval_rec (ops : C19Ops α) (ext : String → List (C19V α) → C19R (C19V α))
    (n k : Nat) (ks : List String) (vs : List (C19V α)) (a : C19V α) :
    c19Method (c19CxAt ops c19Table ext (n + 1) k) (c19EvalMapper ks vs) "rec" [a]
      = ext "EvaluationMapper.rec" [c19EvalMapper ks vs, a] := by
  have hf : c19FindFn c19Table "EvaluationMapper.rec" = none := rfl
  have : c19Method (c19CxAt ops c19Table ext (n + 1) k) (c19EvalMapper ks vs) "rec" [a]
      = c19RunFn ops c19Table ext (n + 1) "EvaluationMapper.rec" [c19EvalMapper ks vs, a] := rfl
  rw [this, c19RunFn_ext ops c19Table ext n _ _ hf]

/-- **`EvaluationMapper.map_polynomial` as regenerated IS `evalHornerPy`** (integer base value,
integer coefficients; `self.rec` of the base gives `x`, of an integer coefficient the
coefficient), whenever `evalHornerPy` stays within the integers. -/
theorem c19_horner_run (ops : C19Ops α) (ext : String → List (C19V α) → C19R (C19V α))
    (ks : List String) (vs : List (C19V α)) (b : String) (x : Int)
    (hb : ext "EvaluationMapper.rec" [c19EvalMapper ks vs, .sym b] = .ok (.int x))
    (hc : ∀ c : Int, ext "EvaluationMapper.rec" [c19EvalMapper ks vs, .int c] = .ok (.int c))
    (p : Poly) (v : Int) (hv : evalHornerPy p x = some v) (n : Nat) :
    c19RunFn ops c19Table ext (n + 1 + 1) "EvaluationMapper.map_polynomial"
        [c19EvalMapper ks vs, c19EncPoly b p] = .ok (.int v) := by
  have hpre : c19ExecL (c19CxAt ops c19Table ext (n + 1) (n + 1 + 1)) c19HoPre
      [("self", c19EvalMapper ks vs), ("expr", c19EncPoly b p)]
      = .next [("self", c19EvalMapper ks vs), ("expr", c19EncPoly b p), ("result", .int 0),
          ("rev_data", .tup (c19EncTerms p.reverse)), ("ev_base", .int x)] := by
    have hrev : (c19EncTerms p : List (C19V α)).reverse = c19EncTerms p.reverse := by
      simp [c19EncTerms]
    unfold c19HoPre c19EncPoly
    c19_run [c19Attr_poly_data_prop, c19_poly_data_run, c19Slice_reverse, hrev,
      c19Attr_poly_base_prop, c19_poly_base_run, c19Method_eval_rec, hb]
  obtain ⟨σ', hl, hres⟩ := c19_ho_loop (c19CxAt ops c19Table ext (n + 1) (n + 1 + 1))
    (c19EvalMapper ks vs) x (fun c => by rw [c19Method_eval_rec, hc]) p.reverse [] 0 v
    [("self", c19EvalMapper ks vs), ("expr", c19EncPoly b p), ("result", .int 0),
      ("rev_data", .tup (c19EncTerms p.reverse)), ("ev_base", .int x)]
    ⟨rfl, rfl, rfl, rfl⟩ hv
  simp only [List.length_nil] at hl
  rw [c19RunFn_succ ops c19Table ext _ _ _ _ _ c19_find_horner
    (by rw [c19_horner_body_current]; rfl)]
  simp only [c19_horner_body_current]
  rw [c19ExecL_append, hpre, C19O.andThen_next,
    c19ExecL_for _ _ _ _ _ _ ((p.reverse.zipIdx 0).map fun t => c19EnumItem t.1 t.2) (by
      c19_run [c19Enumerate, c19_zipIdx_enum]),
    hl, C19O.andThen_next]
  c19_run [hres]
  rfl


/-! ## `IdentityMapper.map_polynomial` -/

def c19EncSTerm (t : Nat × String) : C19V α := .tup [.int t.1, .sym t.2]
def c19EncSTerms (l : List (Nat × String)) : List (C19V α) := l.map c19EncSTerm

def c19IdentMapper (ks : List String) (vs : List (C19V α)) : C19V α := .obj "IdentityMapper" ks vs

theorem c19Method_ident_rec (ops : C19Ops α) (ext : String → List (C19V α) → C19R (C19V α))
    (n k : Nat) (ks : List String) (vs : List (C19V α)) (a b c : C19V α) :
    c19Method (c19CxAt ops c19Table ext (n + 1) k) (c19IdentMapper ks vs) "rec" [a, b, c]
      = ext "IdentityMapper.rec" [c19IdentMapper ks vs, a, b, c] := by
  have hf : c19FindFn c19Table "IdentityMapper.rec" = none := rfl
  have : c19Method (c19CxAt ops c19Table ext (n + 1) k) (c19IdentMapper ks vs) "rec" [a, b, c]
      = c19RunFn ops c19Table ext (n + 1) "IdentityMapper.rec" [c19IdentMapper ks vs, a, b, c] := rfl
  rw [this, c19RunFn_ext ops c19Table ext n _ _ hf]

theorem c19Method_poly_class (ops : C19Ops α) (ext : String → List (C19V α) → C19R (C19V α))
    (n k : Nat) (b : C19V α) (ts : List (C19V α)) (x y : C19V α) :
    c19Method (c19CxAt ops c19Table ext n k) (c19PolyObj b ts) "__class__" [x, y]
      = c19RunFn ops c19Table ext n "Polynomial.__init__"
          [.obj "Polynomial" [] [], x, y, .int 1, .none] := rfl

theorem c19_find_ident : c19FindFn c19Table "IdentityMapper.map_polynomial"
    = some c19Fn_IdentityMapper_map_polynomial := rfl

theorem c19AllTruthy_bools {β : Type} (l : List β) (f : β → Bool) :
    c19AllTruthy (l.map fun t => (.bool (f t) : C19V α)) = .ok (l.all f) := by
  induction l with
  | nil => rfl
  | cons t r ih =>
    simp only [List.map_cons, c19AllTruthy, c19Truthy_bool, C19R.bind_ok, List.all_cons]
    cases f t <;> simp [ih]

theorem c19Zip_map {β : Type} (l : List β) (f g : β → C19V α) :
    c19Zip (l.map f) (l.map g) = l.map fun t => (.tup [f t, g t] : C19V α) := by
  induction l with
  | nil => rfl
  | cons t r ih => simp [c19Zip, ih]

theorem c19Call_zip (cx : C19Cx α) (a b : List (C19V α)) :
    c19Call cx "zip" [.tup a, .tup b] = .ok (.tup (c19Zip a b)) := rfl
theorem c19Call_all (cx : C19Cx α) (a : List (C19V α)) :
    c19Call cx "all" [.tup a] = (c19AllTruthy a).bind fun b => .ok (.bool b) := rfl

/-- **`IdentityMapper.map_polynomial` as regenerated IS `c19IdentMapPoly`**: `expr` itself only
when the base AND ALL coefficients came back identical, otherwise a new polynomial of the mapped
base and the mapped coefficients. -/
theorem c19_ident_map_polynomial_run (ops : C19Ops α) (ext : String → List (C19V α) → C19R (C19V α))
    (ks : List String) (vs : List (C19V α)) (args kwargs : C19V α) (rec : String → String)
    (hrec : ∀ s, ext "IdentityMapper.rec" [c19IdentMapper ks vs, .sym s, args, kwargs]
      = .ok (.sym (rec s)))
    (b : String) (data : List (Nat × String)) (n : Nat) :
    c19RunFn ops c19Table ext (n + 1 + 1) "IdentityMapper.map_polynomial"
        [c19IdentMapper ks vs, c19PolyObj (.sym b) (c19EncSTerms data), args, kwargs]
      = .ok (c19PolyObj (.sym (c19IdentMapPolyResult rec b data).1)
          (c19EncSTerms (c19IdentMapPolyResult rec b data).2)) := by
  rw [c19RunFn_succ ops c19Table ext _ _ _ _ _ c19_find_ident rfl]
  simp only [c19Fn_IdentityMapper_map_polynomial]
  c19_run [c19Attr_poly_base_prop, c19_poly_base_run, c19Method_ident_rec, hrec,
    c19Attr_poly_data_prop, c19_poly_data_run]
  simp only [c19EncSTerms]
  rw [c19MapM_enc _ c19EncSTerm (fun t => c19EncSTerm (t.1, rec t.2)) data
    (by intro t; unfold c19EncSTerm; c19_run [c19Method_ident_rec, hrec])]
  c19_run [c19Attr_poly_base_prop, c19_poly_base_run, c19Attr_poly_data_prop, c19_poly_data_run,
    c19Call_zip, c19Cmp_is_sym]
  rw [c19Zip_map]
  rw [c19MapM_enc _ (fun t : Nat × String => (.tup [c19EncSTerm (t.1, rec t.2), c19EncSTerm t] : C19V α))
    (fun t => .bool (rec t.2 == t.2)) data
    (by intro t; unfold c19EncSTerm; c19_run [c19Cmp_is_sym])]
  have hnew : ∀ (b' : String) (d : List (Nat × String)),
      c19RunFn ops c19Table ext (n + 1) "Polynomial.__init__"
        [.obj "Polynomial" [] [], .sym b', .tup (c19EncSTerms d), .int 1, .none]
      = .ok (c19PolyObj (.sym b') (c19EncSTerms d)) := fun b' d => c19_poly_init_run ops ext _ _ n
  have hmapd : (List.map (fun t : Nat × String => (c19EncSTerm (t.1, rec t.2) : C19V α)) data)
      = c19EncSTerms (data.map fun t => (t.1, rec t.2)) := by
    simp [c19EncSTerms, List.map_map, Function.comp_def]
  unfold c19IdentMapPolyResult c19IdentMapPoly
  by_cases hb : rec b = b
  · have hbb : (rec b == b) = true := by simp [hb]
    by_cases hall : data.all (fun t => rec t.2 == t.2) = true
    · c19_run [hbb, c19Call_all, c19AllTruthy_bools, hall]
      simp [hb]
    · have hall' : data.all (fun t => rec t.2 == t.2) = false := by simpa using hall
      c19_run [hbb, c19Call_all, c19AllTruthy_bools, hall', c19Method_poly_class, hmapd, hnew]
      simp [hb, c19EncSTerms]
  · have hbb : (rec b == b) = false := by simp [hb]
    c19_run [hbb, c19Method_poly_class, hmapd, hnew]
    simp [hb, c19EncSTerms]

/-! ## `Rational.__init__` -/

theorem c19_find_get_unit : c19FindFn c19Table "IntegerTraits.get_unit"
    = some c19Fn_IntegerTraits_get_unit := rfl

/-- `IntegerTraits.get_unit`: the sign, `RuntimeError` for `0` -/
theorem c19_get_unit_run (ops : C19Ops α) (ext : String → List (C19V α) → C19R (C19V α))
    (i : Int) (n : Nat) :
    c19RunFn ops c19Table ext (n + 1) "IntegerTraits.get_unit" [.int i]
      = if i < 0 then .ok (.int (-1)) else if i > 0 then .ok (.int 1) else .raise "RuntimeError" := by
  rw [c19RunFn_succ ops c19Table ext _ _ _ _ _ c19_find_get_unit rfl]
  simp only [c19Fn_IntegerTraits_get_unit]
  by_cases h1 : i < 0
  · have : decide (i < 0) = true := by simp [h1]
    c19_run [this]
    simp [h1]
  · have h1' : decide (i < 0) = false := by simp [h1]
    by_cases h2 : i > 0
    · have : decide (i > 0) = true := by simp [h2]
      c19_run [h1', this]
      simp [h1, h2]
    · have : decide (i > 0) = false := by simp [h2]
      c19_run [h1', this]
      simp [h1, h2]

theorem c19Method_get_unit (ops : C19Ops α) (ext : String → List (C19V α) → C19R (C19V α))
    (n k : Nat) (v : C19V α) :
    c19Method (c19CxAt ops c19Table ext n k) (.obj "IntegerTraits" [] []) "get_unit" [v]
      = c19RunFn ops c19Table ext n "IntegerTraits.get_unit" [v] := rfl

theorem c19_find_rational_init : c19FindFn c19Table "Rational.__init__"
    = some c19Fn_Rational___init__ := rfl

/-- what `Rational.__init__` leaves / raises -/
def c19EncRational : Option ((Int × Int) × (Int × Int)) → C19R (C19V α)
  | some r => .ok (.obj "Rational" ["Numerator", "Denominator"]
      [.frac r.1.1 r.1.2, .frac r.2.1 r.2.2])
  | none => .raise "RuntimeError"

/-- **`Rational.__init__` as regenerated IS `c19RationalInit`** on Python ints: numerator and
denominator divided (true division) by the sign of the denominator, `RuntimeError` for a zero
denominator, no reduction to lowest terms. -/
theorem c19_rational_init_run (ops : C19Ops α) (ext : String → List (C19V α) → C19R (C19V α))
    (num den : Int) (n : Nat) :
    c19RunFn ops c19Table ext (n + 1 + 1 + 1) "Rational.__init__"
        [.obj "Rational" [] [], .int num, .int den] = c19EncRational (c19RationalInit num den) := by
  rw [c19RunFn_succ ops c19Table ext _ _ _ _ _ c19_find_rational_init rfl]
  simp only [c19Fn_Rational___init__]
  unfold c19RationalInit c19EncRational
  by_cases h1 : den < 0
  · c19_run [c19Call_traits, c19_traits_int_run, c19Method_get_unit, c19_get_unit_run, h1]
    rfl
  · by_cases h2 : den > 0
    · c19_run [c19Call_traits, c19_traits_int_run, c19Method_get_unit, c19_get_unit_run, h1, h2]
      rfl
    · c19_run [c19Call_traits, c19_traits_int_run, c19Method_get_unit, c19_get_unit_run, h1, h2]
      rfl


end PV.Algo
