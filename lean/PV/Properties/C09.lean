import PV.Model.Traverse
import PV.Model.Eval
import PV.Proofs.Subterm
import PV.Proofs.UnionPy
import PV.Proofs.PyEqEquiv
import PV.Proofs.NodeCount
import PV.Proofs.AnalysisTable
import PV.Generated.Analysis
/-
  C09 — analyses: free variables / coincidence, `DependencyMapper` (`deps`), flop counters.
-/
set_option linter.unusedTactic false
set_option linter.unreachableTactic false
namespace PV.C09
open PV

/-! ### all variable names of a tree, and the coincidence lemma -/

mutual
def fv : Expr → List String
  | .var x => [x]
  | .nary _ cs => fvL cs
  | .bin _ a b => fv a ++ fv b
  | .un _ a => fv a
  | .cmp _ a b => fv a ++ fv b
  | .ite c t e => fv c ++ fv t ++ fv e
  | .call f as => fv f ++ fvL as
  | .callKw f as _ vs => fv f ++ fvL as ++ fvL vs
  | .subscript a i => fv a ++ fv i
  | .lookup a _ => fv a
  | .cse c _ _ => fv c
  | .subst c _ xs => fv c ++ fvL xs
  | .deriv c _ => fv c
  | .slice cs => fvL cs
  | .tuple cs => fvL cs
  | .list cs => fvL cs
  | _ => []
def fvL : List Expr → List String
  | [] => []
  | c :: cs => fv c ++ fvL cs
end

section
variable {env₁ env₂ : Env}

/-- agreement of two environments on a set of names -/
def Agree (env₁ env₂ : Env) (xs : List String) : Prop := ∀ x ∈ xs, env₁.get x = env₂.get x

theorem Agree.left {xs ys : List String} (h : Agree env₁ env₂ (xs ++ ys)) : Agree env₁ env₂ xs :=
  fun x hx => h x (List.mem_append_left _ hx)
theorem Agree.right {xs ys : List String} (h : Agree env₁ env₂ (xs ++ ys)) : Agree env₁ env₂ ys :=
  fun x hx => h x (List.mem_append_right _ hx)

mutual
/-- **Coincidence.**  Evaluation depends on the environment only through the variables that occur
in the tree: outside `fv e` no value is ever needed. -/
theorem coincidence : ∀ e : Expr, Agree env₁ env₂ (fv e) → den env₁ e = den env₂ e
  | .var x, h => by simp only [den, h x (by simp [fv])]
  | .const _, _ => by simp only [den]
  | .nan, _ => by simp only [den]
  | .wildcard, _ => by simp only [den]
  | .dotWild _, _ => by simp only [den]
  | .starWild _, _ => by simp only [den]
  | .funcSym, _ => by simp only [den]
  | .deriv _ _, _ => by simp only [den]
  | .subst _ _ _, _ => by simp only [den]
  | .slice _, _ => by simp only [den]
  | .subscript a b, h => by
      simp only [fv] at h
      simp only [den, coincidence a h.left, coincidence b h.right]
  | .lookup a n, h => by
      simp only [fv] at h
      simp only [den, coincidence a h]
  | .bin o a b, h => by
      simp only [fv] at h
      simp only [den, coincidence a h.left, coincidence b h.right]
  | .cmp o a b, h => by
      simp only [fv] at h
      simp only [den, coincidence a h.left, coincidence b h.right]
  | .un o a, h => by
      simp only [fv] at h
      cases o <;> simp only [den, coincidence a h]
  | .cse a p s, h => by
      simp only [fv] at h
      simp only [den, coincidence a h]
  | .ite a b c, h => by
      simp only [fv] at h
      simp only [den, coincidence a h.left.left, coincidence b h.left.right, coincidence c h.right]
  | .nary o cs, h => by
      simp only [fv] at h
      cases o <;> simp only [den]
      · exact denFold_coinc .sum _ cs h
      · exact denFold_coinc .prod _ cs h
      · exact denReduce_coinc .bor cs h
      · exact denReduce_coinc .bxor cs h
      · exact denReduce_coinc .band cs h
      · exact denAny_coinc cs h
      · exact denAll_coinc cs h
      · exact denMinMax_coinc true none cs h
      · exact denMinMax_coinc false none cs h
  | .tuple cs, h => by
      simp only [fv] at h
      simp only [den, denList_coinc cs h]
  | .list cs, h => by
      simp only [fv] at h
      simp only [den, denList_coinc cs h]
  | .call a cs, h => by
      simp only [fv] at h
      simp only [den, coincidence a h.left, denList_coinc cs h.right]
  | .callKw a bs ns cs, h => by
      simp only [fv] at h
      simp only [den, coincidence a h.left.left, denList_coinc bs h.left.right,
        denList_coinc cs h.right]
theorem denFold_coinc (o : NaryOp) : ∀ (acc : Value) (cs : List Expr), Agree env₁ env₂ (fvL cs) →
    denFold env₁ o acc cs = denFold env₂ o acc cs
  | _, [], _ => by simp only [denFold]
  | acc, c :: cs, h => by
      simp only [fvL] at h
      simp only [denFold, coincidence c h.left]
      cases den env₂ c with
      | error e => rfl
      | ok v =>
        simp only [bind, Except.bind]
        cases o.apply acc v with
        | error e => rfl
        | ok acc' => exact denFold_coinc o acc' cs h.right
theorem denReduce_coinc (o : NaryOp) : ∀ (cs : List Expr), Agree env₁ env₂ (fvL cs) →
    denReduce env₁ o cs = denReduce env₂ o cs
  | [], _ => by simp only [denReduce]
  | c :: cs, h => by
      simp only [fvL] at h
      simp only [denReduce, coincidence c h.left]
      cases den env₂ c with
      | error e => rfl
      | ok v => exact denFold_coinc o v cs h.right
theorem denAny_coinc : ∀ (cs : List Expr), Agree env₁ env₂ (fvL cs) →
    denAny env₁ cs = denAny env₂ cs
  | [], _ => by simp only [denAny]
  | c :: cs, h => by
      simp only [fvL] at h
      simp only [denAny, coincidence c h.left, denAny_coinc cs h.right]
theorem denAll_coinc : ∀ (cs : List Expr), Agree env₁ env₂ (fvL cs) →
    denAll env₁ cs = denAll env₂ cs
  | [], _ => by simp only [denAll]
  | c :: cs, h => by
      simp only [fvL] at h
      simp only [denAll, coincidence c h.left, denAll_coinc cs h.right]
theorem denMinMax_coinc (isMin : Bool) : ∀ (cur : Option Value) (cs : List Expr),
    Agree env₁ env₂ (fvL cs) → denMinMax env₁ isMin cur cs = denMinMax env₂ isMin cur cs
  | _, [], _ => by simp only [denMinMax]
  | cur, c :: cs, h => by
      simp only [fvL] at h
      simp only [denMinMax, coincidence c h.left]
      cases den env₂ c with
      | error e => rfl
      | ok v =>
        simp only [bind, Except.bind]
        cases cur with
        | none => exact denMinMax_coinc isMin (some v) cs h.right
        | some m =>
          simp only
          cases Value.better isMin v m with
          | error e => rfl
          | ok b => exact denMinMax_coinc isMin _ cs h.right
theorem denList_coinc : ∀ (cs : List Expr), Agree env₁ env₂ (fvL cs) →
    denList env₁ cs = denList env₂ cs
  | [], _ => by simp only [denList]
  | c :: cs, h => by
      simp only [fvL] at h
      simp only [denList, coincidence c h.left, denList_coinc cs h.right]
end
end

/-! ### `DependencyMapper` with all composite flags off computes exactly the variables -/

def offFlags : DepFlags := { subscripts := false, lookups := false, calls := .no, cses := false }

/-- `r` is a list of variable nodes whose names are exactly `names` (as sets) -/
def VarSet (r : List Expr) (names : List String) : Prop :=
  (∀ y ∈ r, ∃ x, y = .var x) ∧ ∀ x, .var x ∈ r ↔ x ∈ names

theorem VarSet.nil : VarSet [] [] := ⟨by simp, by simp⟩

theorem VarSet.single (x : String) : VarSet [.var x] [x] := ⟨by simp, by simp⟩

theorem VarSet.union {a b : List Expr} {n m : List String} (ha : VarSet a n) (hb : VarSet b m) :
    VarSet (unionPy a b) (n ++ m) := by
  constructor
  · intro y hy
    rcases mem_unionPy hy with h | h
    · exact ha.1 y h
    · exact hb.1 y h
  · intro x
    rw [mem_unionPy_var, ha.2, hb.2, List.mem_append]

mutual
theorem deps_off : ∀ (e : Expr) (r : List Expr), deps offFlags e = .ok r → VarSet r (fv e)
  | .const c, r, h => by
      cases c <;> simp only [deps] at h <;> cases h <;> exact VarSet.nil
  | .var x, r, h => by cases h; exact VarSet.single x
  | .nan, r, h => by cases h; exact VarSet.nil
  | .wildcard, r, h => by cases h; exact VarSet.nil
  | .dotWild _, r, h => by cases h; exact VarSet.nil
  | .starWild _, r, h => by cases h; exact VarSet.nil
  | .funcSym, r, h => by cases h; exact VarSet.nil
  | .subst .., r, h => by cases h
  | .deriv .., r, h => by cases h
  | .bin o a b, r, h => by
      simp only [deps] at h
      obtain ⟨x, hx, h⟩ := except_bind_ok h
      obtain ⟨y, hy, h⟩ := except_bind_ok h
      cases h
      exact (deps_off a x hx).union (deps_off b y hy)
  | .cmp o a b, r, h => by
      simp only [deps] at h
      obtain ⟨x, hx, h⟩ := except_bind_ok h
      obtain ⟨y, hy, h⟩ := except_bind_ok h
      cases h
      exact (deps_off a x hx).union (deps_off b y hy)
  | .subscript a b, r, h => by
      simp only [deps, offFlags, Bool.false_eq_true, if_false] at h
      obtain ⟨x, hx, h⟩ := except_bind_ok h
      obtain ⟨y, hy, h⟩ := except_bind_ok h
      cases h
      exact (deps_off a x hx).union (deps_off b y hy)
  | .ite a b c, r, h => by
      simp only [deps] at h
      obtain ⟨x, hx, h⟩ := except_bind_ok h
      obtain ⟨y, hy, h⟩ := except_bind_ok h
      obtain ⟨z, hz, h⟩ := except_bind_ok h
      cases h
      exact ((deps_off a x hx).union (deps_off b y hy)).union (deps_off c z hz)
  | .un o a, r, h => by
      simp only [deps] at h
      exact deps_off a r h
  | .lookup a n, r, h => by
      simp only [deps, offFlags, Bool.false_eq_true, if_false] at h
      exact deps_off a r h
  | .cse a p s, r, h => by
      simp only [deps, offFlags, Bool.false_eq_true, if_false] at h
      split at h
      · cases h
      · exact deps_off a r h
  | .nary o cs, r, h => by
      simp only [deps] at h
      exact depsL_off cs r h
  | .tuple cs, r, h => by
      simp only [deps] at h
      exact depsL_off cs r h
  | .list cs, r, h => by
      simp only [deps] at h
      exact depsL_off cs r h
  | .slice cs, r, h => by
      simp only [deps] at h
      exact depsSlice_off cs r h
  | .call a cs, r, h => by
      simp only [deps, offFlags] at h
      obtain ⟨x, hx, h⟩ := except_bind_ok h
      obtain ⟨y, hy, h⟩ := except_bind_ok h
      cases h
      exact (deps_off a x hx).union (depsL_off cs y hy)
  | .callKw a bs ns cs, r, h => by
      simp only [deps, offFlags] at h
      obtain ⟨x, hx, h⟩ := except_bind_ok h
      obtain ⟨y, hy, h⟩ := except_bind_ok h
      obtain ⟨z, hz, h⟩ := except_bind_ok h
      cases h
      exact ((deps_off a x hx).union (depsL_off bs y hy)).union (depsL_off cs z hz)
theorem depsL_off : ∀ (cs : List Expr) (r : List Expr), depsL offFlags cs = .ok r →
    VarSet r (fvL cs)
  | [], r, h => by cases h; exact VarSet.nil
  | c :: cs, r, h => by
      simp only [depsL] at h
      obtain ⟨x, hx, h⟩ := except_bind_ok h
      obtain ⟨y, hy, h⟩ := except_bind_ok h
      cases h
      exact (deps_off c x hx).union (depsL_off cs y hy)
theorem depsSlice_off : ∀ (cs : List Expr) (r : List Expr), depsSlice offFlags cs = .ok r →
    VarSet r (fvL cs)
  | [], r, h => by cases h; exact VarSet.nil
  | c :: cs, r, h => by
      by_cases hc : c = .const .none
      · subst hc
        simp only [depsSlice] at h
        simpa [fvL, fv] using depsSlice_off cs r h
      · rw [depsSlice.eq_3 _ _ _ hc] at h
        obtain ⟨x, hx, h⟩ := except_bind_ok h
        obtain ⟨y, hy, h⟩ := except_bind_ok h
        cases h
        exact (deps_off c x hx).union (depsSlice_off cs y hy)
end

/-- With subscripts, lookups, calls and CSEs all switched off, a successful `DependencyMapper` run
returns variable nodes only, and their names are exactly the variables occurring in the tree. -/
theorem deps_off_eq_fv (e : Expr) (r : List Expr) (h : deps offFlags e = .ok r) :
    (∀ y ∈ r, ∃ x, y = .var x) ∧ ∀ x, .var x ∈ r ↔ x ∈ fv e :=
  deps_off e r h

/-! ### flop counting -/

/-- arithmetic operations performed AT a node: an n-ary sum/product (n ≥ 1) performs n − 1,
quotient / floor division / power perform one, everything else none -/
def opWeight : Expr → Nat
  | .nary .sum cs => cs.length - 1
  | .nary .prod cs => cs.length - 1
  | .bin .quot _ _ => 1
  | .bin .floordiv _ _ => 1
  | .bin .pow _ _ => 1
  | _ => 0

mutual
/-- independent specification: the operations of the node plus those of all its children -/
def countOps : Expr → Nat
  | .nary o cs => opWeight (.nary o cs) + countOpsL cs
  | .bin o a b => opWeight (.bin o a b) + countOps a + countOps b
  | .un _ a => countOps a
  | .cmp _ a b => countOps a + countOps b
  | .ite c t e => countOps c + countOps t + countOps e
  | .call f as => countOps f + countOpsL as
  | .callKw f as _ vs => countOps f + countOpsL as + countOpsL vs
  | .subscript a i => countOps a + countOps i
  | .lookup a _ => countOps a
  | .cse c _ _ => countOps c
  | .subst c _ xs => countOps c + countOpsL xs
  | .deriv c _ => countOps c
  | .slice cs => countOpsL cs
  | .tuple cs => countOpsL cs
  | .list cs => countOpsL cs
  | _ => 0
def countOpsL : List Expr → Nat
  | [] => 0
  | c :: cs => countOps c + countOpsL cs
end

theorem except_pair_bind_ok {ε α β γ : Type} {x : Except ε (α × β)} {f : α × β → Except ε γ}
    {r : γ} (h : (x >>= f) = .ok r) : ∃ a b, x = .ok (a, b) ∧ f (a, b) = .ok r := by
  cases x with
  | error e => cases h
  | ok p => exact ⟨p.1, p.2, rfl, h⟩

mutual
theorem flops_spec : ∀ (e : Expr) (seen : List Expr) (n : Nat) (seen' : List Expr),
    flopsG false e seen = .ok (n, seen') → n = countOps e ∧ seen' = seen
  | .const c, seen, n, seen', h => by
      cases c <;> simp only [flopsG] at h <;> cases h <;> simp [countOps]
  | .var x, seen, n, seen', h => by cases h; simp [countOps]
  | .nary o cs, seen, n, seen', h => by
      cases o <;> simp only [flopsG] at h
      case sum | prod =>
        obtain ⟨m, s1, h1, h⟩ := except_pair_bind_ok h
        cases h
        obtain ⟨rfl, rfl⟩ := flopsL_spec cs seen m s1 h1
        refine ⟨?_, rfl⟩
        simp only [countOps, opWeight]; omega
      all_goals
        obtain ⟨rfl, rfl⟩ := flopsL_spec cs seen n seen' h
        simp [countOps, opWeight]
  | .bin o a b, seen, n, seen', h => by
      cases o <;> simp only [flopsG] at h <;>
      · obtain ⟨x, s1, h1, h⟩ := except_pair_bind_ok h
        obtain ⟨y, s2, h2, h⟩ := except_pair_bind_ok h
        cases h
        obtain ⟨rfl, rfl⟩ := flops_spec a seen x s1 h1
        obtain ⟨rfl, rfl⟩ := flops_spec b _ y s2 h2
        refine ⟨?_, rfl⟩
        simp only [countOps, opWeight] <;> omega
  | .cmp o a b, seen, n, seen', h => by
      simp only [flopsG] at h
      obtain ⟨x, s1, h1, h⟩ := except_pair_bind_ok h
      obtain ⟨y, s2, h2, h⟩ := except_pair_bind_ok h
      cases h
      obtain ⟨rfl, rfl⟩ := flops_spec a seen x s1 h1
      obtain ⟨rfl, rfl⟩ := flops_spec b _ y s2 h2
      simp [countOps]
  | .subscript a b, seen, n, seen', h => by
      simp only [flopsG] at h
      obtain ⟨x, s1, h1, h⟩ := except_pair_bind_ok h
      obtain ⟨y, s2, h2, h⟩ := except_pair_bind_ok h
      cases h
      obtain ⟨rfl, rfl⟩ := flops_spec a seen x s1 h1
      obtain ⟨rfl, rfl⟩ := flops_spec b _ y s2 h2
      simp [countOps]
  | .ite a b c, seen, n, seen', h => by
      simp only [flopsG] at h
      obtain ⟨x, s1, h1, h⟩ := except_pair_bind_ok h
      obtain ⟨y, s2, h2, h⟩ := except_pair_bind_ok h
      obtain ⟨z, s3, h3, h⟩ := except_pair_bind_ok h
      cases h
      obtain ⟨rfl, rfl⟩ := flops_spec a seen x s1 h1
      obtain ⟨rfl, rfl⟩ := flops_spec b _ y s2 h2
      obtain ⟨rfl, rfl⟩ := flops_spec c _ z s3 h3
      simp [countOps]
  | .un o a, seen, n, seen', h => by
      simp only [flopsG] at h
      simpa [countOps] using flops_spec a seen n seen' h
  | .lookup a _, seen, n, seen', h => by
      simp only [flopsG] at h
      simpa [countOps] using flops_spec a seen n seen' h
  | .cse a _ _, seen, n, seen', h => by
      simp only [flopsG, Bool.false_eq_true, if_false] at h
      simpa [countOps] using flops_spec a seen n seen' h
  | .tuple cs, seen, n, seen', h => by
      simp only [flopsG] at h
      simpa [countOps] using flopsL_spec cs seen n seen' h
  | .list cs, seen, n, seen', h => by
      simp only [flopsG] at h
      simpa [countOps] using flopsL_spec cs seen n seen' h
  | .call a cs, seen, n, seen', h => by
      simp only [flopsG] at h
      obtain ⟨x, s1, h1, h⟩ := except_pair_bind_ok h
      obtain ⟨y, s2, h2, h⟩ := except_pair_bind_ok h
      cases h
      obtain ⟨rfl, rfl⟩ := flops_spec a seen x s1 h1
      obtain ⟨rfl, rfl⟩ := flopsL_spec cs _ y s2 h2
      simp [countOps]
  | .callKw a bs _ cs, seen, n, seen', h => by
      simp only [flopsG] at h
      obtain ⟨x, s1, h1, h⟩ := except_pair_bind_ok h
      obtain ⟨y, s2, h2, h⟩ := except_pair_bind_ok h
      obtain ⟨z, s3, h3, h⟩ := except_pair_bind_ok h
      cases h
      obtain ⟨rfl, rfl⟩ := flops_spec a seen x s1 h1
      obtain ⟨rfl, rfl⟩ := flopsL_spec bs _ y s2 h2
      obtain ⟨rfl, rfl⟩ := flopsL_spec cs _ z s3 h3
      simp [countOps]
  | .subst .., seen, n, seen', h => by simp [flopsG] at h
  | .deriv .., seen, n, seen', h => by simp [flopsG] at h
  | .slice _, seen, n, seen', h => by simp [flopsG] at h
  | .nan, seen, n, seen', h => by simp [flopsG] at h
  | .wildcard, seen, n, seen', h => by simp [flopsG] at h
  | .dotWild _, seen, n, seen', h => by simp [flopsG] at h
  | .starWild _, seen, n, seen', h => by simp [flopsG] at h
  | .funcSym, seen, n, seen', h => by simp [flopsG] at h
theorem flopsL_spec : ∀ (cs : List Expr) (seen : List Expr) (n : Nat) (seen' : List Expr),
    flopsL false cs seen = .ok (n, seen') → n = countOpsL cs ∧ seen' = seen
  | [], seen, n, seen', h => by cases h; simp [countOpsL]
  | c :: cs, seen, n, seen', h => by
      simp only [flopsL] at h
      obtain ⟨x, s1, h1, h⟩ := except_pair_bind_ok h
      obtain ⟨y, s2, h2, h⟩ := except_pair_bind_ok h
      cases h
      obtain ⟨rfl, rfl⟩ := flops_spec c seen x s1 h1
      obtain ⟨rfl, rfl⟩ := flopsL_spec cs _ y s2 h2
      simp [countOpsL]
end

/-- The plain `FlopCounter` returns exactly the independently specified operation count and does
not touch the seen-set. -/
theorem flops_eq_count (e : Expr) (seen : List Expr) (n : Nat) (seen' : List Expr)
    (h : flopsG false e seen = .ok (n, seen')) : n = countOps e ∧ seen' = seen :=
  flops_spec e seen n seen' h

/-- `CSEAwareFlopCounter`: a common subexpression already seen (up to Python `==`) costs nothing
and leaves the seen-set alone. -/
theorem flopsCse_once (c : Expr) (p : Option String) (s : String) (seen : List Expr)
    (hl : c.hasList = false) (h : seen.any (fun k => k.pyEq (.cse c p s)) = true) :
    flopsG true (.cse c p s) seen = .ok (0, seen) := by
  simp [flopsG, hl, h]; rfl

/-- … and the first time it costs what its child costs, and is recorded. -/
theorem flopsCse_first (c : Expr) (p : Option String) (s : String) (seen : List Expr)
    (hl : c.hasList = false) (h : seen.any (fun k => k.pyEq (.cse c p s)) = false) :
    flopsG true (.cse c p s) seen = flopsG true c (seen ++ [.cse c p s]) := by
  simp [flopsG, hl, h]

mutual
theorem flopsCse_le_aux : ∀ (e : Expr) (seen : List Expr) (n : Nat) (seen' : List Expr),
    flopsG true e seen = .ok (n, seen') → n ≤ countOps e
  | .const c, seen, n, seen', h => by
      cases c <;> simp only [flopsG] at h <;> cases h <;> simp
  | .var x, seen, n, seen', h => by cases h; simp
  | .nary o cs, seen, n, seen', h => by
      cases o <;> simp only [flopsG] at h
      case sum | prod =>
        obtain ⟨m, s1, h1, h⟩ := except_pair_bind_ok h
        cases h
        have := flopsCseL_le_aux cs seen m s1 h1
        simp only [countOps, opWeight]; omega
      all_goals
        have := flopsCseL_le_aux cs seen n seen' h
        simp only [countOps, opWeight]; omega
  | .bin o a b, seen, n, seen', h => by
      cases o <;> simp only [flopsG] at h <;>
      · obtain ⟨x, s1, h1, h⟩ := except_pair_bind_ok h
        obtain ⟨y, s2, h2, h⟩ := except_pair_bind_ok h
        cases h
        have := flopsCse_le_aux a seen x s1 h1
        have := flopsCse_le_aux b _ y s2 h2
        simp only [countOps, opWeight]; omega
  | .cmp o a b, seen, n, seen', h => by
      simp only [flopsG] at h
      obtain ⟨x, s1, h1, h⟩ := except_pair_bind_ok h
      obtain ⟨y, s2, h2, h⟩ := except_pair_bind_ok h
      cases h
      have := flopsCse_le_aux a seen x s1 h1
      have := flopsCse_le_aux b _ y s2 h2
      simp only [countOps]; omega
  | .subscript a b, seen, n, seen', h => by
      simp only [flopsG] at h
      obtain ⟨x, s1, h1, h⟩ := except_pair_bind_ok h
      obtain ⟨y, s2, h2, h⟩ := except_pair_bind_ok h
      cases h
      have := flopsCse_le_aux a seen x s1 h1
      have := flopsCse_le_aux b _ y s2 h2
      simp only [countOps]; omega
  | .ite a b c, seen, n, seen', h => by
      simp only [flopsG] at h
      obtain ⟨x, s1, h1, h⟩ := except_pair_bind_ok h
      obtain ⟨y, s2, h2, h⟩ := except_pair_bind_ok h
      obtain ⟨z, s3, h3, h⟩ := except_pair_bind_ok h
      cases h
      have := flopsCse_le_aux a seen x s1 h1
      have := flopsCse_le_aux b _ y s2 h2
      have := flopsCse_le_aux c _ z s3 h3
      simp only [countOps]; omega
  | .un o a, seen, n, seen', h => by
      simp only [flopsG] at h
      simpa [countOps] using flopsCse_le_aux a seen n seen' h
  | .lookup a _, seen, n, seen', h => by
      simp only [flopsG] at h
      simpa [countOps] using flopsCse_le_aux a seen n seen' h
  | .cse a _ _, seen, n, seen', h => by
      simp only [flopsG, if_true] at h
      split at h
      · cases h
      · split at h
        · cases h; simp
        · simpa [countOps] using flopsCse_le_aux a _ n seen' h
  | .tuple cs, seen, n, seen', h => by
      simp only [flopsG] at h
      simpa [countOps] using flopsCseL_le_aux cs seen n seen' h
  | .list cs, seen, n, seen', h => by
      simp only [flopsG] at h
      simpa [countOps] using flopsCseL_le_aux cs seen n seen' h
  | .call a cs, seen, n, seen', h => by
      simp only [flopsG] at h
      obtain ⟨x, s1, h1, h⟩ := except_pair_bind_ok h
      obtain ⟨y, s2, h2, h⟩ := except_pair_bind_ok h
      cases h
      have := flopsCse_le_aux a seen x s1 h1
      have := flopsCseL_le_aux cs _ y s2 h2
      simp only [countOps]; omega
  | .callKw a bs _ cs, seen, n, seen', h => by
      simp only [flopsG] at h
      obtain ⟨x, s1, h1, h⟩ := except_pair_bind_ok h
      obtain ⟨y, s2, h2, h⟩ := except_pair_bind_ok h
      obtain ⟨z, s3, h3, h⟩ := except_pair_bind_ok h
      cases h
      have := flopsCse_le_aux a seen x s1 h1
      have := flopsCseL_le_aux bs _ y s2 h2
      have := flopsCseL_le_aux cs _ z s3 h3
      simp only [countOps]; omega
  | .subst .., seen, n, seen', h => by simp [flopsG] at h
  | .deriv .., seen, n, seen', h => by simp [flopsG] at h
  | .slice _, seen, n, seen', h => by simp [flopsG] at h
  | .nan, seen, n, seen', h => by simp [flopsG] at h
  | .wildcard, seen, n, seen', h => by simp [flopsG] at h
  | .dotWild _, seen, n, seen', h => by simp [flopsG] at h
  | .starWild _, seen, n, seen', h => by simp [flopsG] at h
  | .funcSym, seen, n, seen', h => by simp [flopsG] at h
theorem flopsCseL_le_aux : ∀ (cs : List Expr) (seen : List Expr) (n : Nat) (seen' : List Expr),
    flopsL true cs seen = .ok (n, seen') → n ≤ countOpsL cs
  | [], seen, n, seen', h => by cases h; simp
  | c :: cs, seen, n, seen', h => by
      simp only [flopsL] at h
      obtain ⟨x, s1, h1, h⟩ := except_pair_bind_ok h
      obtain ⟨y, s2, h2, h⟩ := except_pair_bind_ok h
      cases h
      have := flopsCse_le_aux c seen x s1 h1
      have := flopsCseL_le_aux cs _ y s2 h2
      simp only [countOpsL]; omega
end

/-- The CSE-aware counter never reports more than the plain operation count. -/
theorem flopsCse_le (e : Expr) (seen : List Expr) (n : Nat) (seen' : List Expr)
    (h : flopsG true e seen = .ok (n, seen')) : n ≤ countOps e :=
  flopsCse_le_aux e seen n seen' h

/-- non-vacuity: `(x + 1) * (x + 1) / y` with a shared CSE: plain count 4, CSE-aware count 3 -/
example :
    let c := Expr.cse (.nary .sum [.var "x", .const (.int 1)]) none "s"
    let e := Expr.bin .quot (.nary .prod [c, c]) (.var "y")
    flopsG false e [] = .ok (4, []) ∧ countOps e = 4 ∧ flopsG true e [] = .ok (3, [c]) :=
  ⟨rfl, rfl, rfl⟩

/-! ### what `DependencyMapper` reports, for arbitrary flags -/

/-- the node kinds the flags select as atomic dependencies (variables always) -/
def Selected (fl : DepFlags) : Expr → Prop
  | .var _ => True
  | .subscript .. => fl.subscripts = true
  | .lookup .. => fl.lookups = true
  | .call .. => fl.calls = .yes
  | .callKw .. => fl.calls = .yes
  | .cse .. => fl.cses = true
  | _ => False

/-- `Occurs fl e x`: `x` is a variable occurrence of `e`, or an OUTERMOST selected
subscript / lookup / call / CSE of `e`.  Inside a selected composite nothing is reported; with
`calls = .descend` the function of a call is skipped and only its arguments are searched. -/
inductive Occurs (fl : DepFlags) : Expr → Expr → Prop
  | var (x : String) : Occurs fl (.var x) (.var x)
  | call_sel {f : Expr} {as : List Expr} : fl.calls = .yes → Occurs fl (.call f as) (.call f as)
  | call_fn {f : Expr} {as : List Expr} {x : Expr} : fl.calls = .no → Occurs fl f x →
      Occurs fl (.call f as) x
  | call_arg {f : Expr} {as : List Expr} {c x : Expr} : fl.calls ≠ .yes → c ∈ as → Occurs fl c x →
      Occurs fl (.call f as) x
  | callKw_sel {f : Expr} {as : List Expr} {ns : List String} {vs : List Expr} : fl.calls = .yes →
      Occurs fl (.callKw f as ns vs) (.callKw f as ns vs)
  | callKw_fn {f : Expr} {as : List Expr} {ns : List String} {vs : List Expr} {x : Expr} :
      fl.calls = .no → Occurs fl f x → Occurs fl (.callKw f as ns vs) x
  | callKw_arg {f : Expr} {as : List Expr} {ns : List String} {vs : List Expr} {c x : Expr} :
      fl.calls ≠ .yes → c ∈ as → Occurs fl c x → Occurs fl (.callKw f as ns vs) x
  | callKw_kwarg {f : Expr} {as : List Expr} {ns : List String} {vs : List Expr} {c x : Expr} :
      fl.calls ≠ .yes → c ∈ vs → Occurs fl c x → Occurs fl (.callKw f as ns vs) x
  | lookup_sel {a : Expr} {n : String} : fl.lookups = true → Occurs fl (.lookup a n) (.lookup a n)
  | lookup_in {a : Expr} {n : String} {x : Expr} : fl.lookups = false → Occurs fl a x →
      Occurs fl (.lookup a n) x
  | subscript_sel {a i : Expr} : fl.subscripts = true → Occurs fl (.subscript a i) (.subscript a i)
  | subscript_l {a i x : Expr} : fl.subscripts = false → Occurs fl a x →
      Occurs fl (.subscript a i) x
  | subscript_r {a i x : Expr} : fl.subscripts = false → Occurs fl i x →
      Occurs fl (.subscript a i) x
  | cse_sel {c : Expr} {p : Option String} {s : String} : fl.cses = true →
      Occurs fl (.cse c p s) (.cse c p s)
  | cse_in {c : Expr} {p : Option String} {s : String} {x : Expr} : fl.cses = false →
      Occurs fl c x → Occurs fl (.cse c p s) x
  | nary {o : NaryOp} {cs : List Expr} {c x : Expr} : c ∈ cs → Occurs fl c x →
      Occurs fl (.nary o cs) x
  | bin_l {o : BinOp} {a b x : Expr} : Occurs fl a x → Occurs fl (.bin o a b) x
  | bin_r {o : BinOp} {a b x : Expr} : Occurs fl b x → Occurs fl (.bin o a b) x
  | un {o : UnOp} {a x : Expr} : Occurs fl a x → Occurs fl (.un o a) x
  | cmp_l {o : CmpOp} {a b x : Expr} : Occurs fl a x → Occurs fl (.cmp o a b) x
  | cmp_r {o : CmpOp} {a b x : Expr} : Occurs fl b x → Occurs fl (.cmp o a b) x
  | ite_c {c t e x : Expr} : Occurs fl c x → Occurs fl (.ite c t e) x
  | ite_t {c t e x : Expr} : Occurs fl t x → Occurs fl (.ite c t e) x
  | ite_e {c t e x : Expr} : Occurs fl e x → Occurs fl (.ite c t e) x
  | slice {cs : List Expr} {c x : Expr} : c ∈ cs → Occurs fl c x → Occurs fl (.slice cs) x
  | tuple {cs : List Expr} {c x : Expr} : c ∈ cs → Occurs fl c x → Occurs fl (.tuple cs) x
  | list {cs : List Expr} {c x : Expr} : c ∈ cs → Occurs fl c x → Occurs fl (.list cs) x

/-- an occurrence is a subterm of a selected kind -/
theorem Occurs.subterm_selected {fl : DepFlags} {e x : Expr} (h : Occurs fl e x) :
    Subterm x e ∧ Selected fl x := by
  induction h with
  | var x => exact ⟨.refl _, trivial⟩
  | call_sel h => exact ⟨.refl _, h⟩
  | callKw_sel h => exact ⟨.refl _, h⟩
  | lookup_sel h => exact ⟨.refl _, h⟩
  | subscript_sel h => exact ⟨.refl _, h⟩
  | cse_sel h => exact ⟨.refl _, h⟩
  | call_arg _ hc _ ih | callKw_arg _ hc _ ih | callKw_kwarg _ hc _ ih | nary hc _ ih
  | slice hc _ ih | tuple hc _ ih | list hc _ ih =>
      exact ⟨ih.1.trans (.child (by simp [Expr.children, hc])), ih.2⟩
  | call_fn _ _ ih | callKw_fn _ _ ih | lookup_in _ _ ih | subscript_l _ _ ih
  | subscript_r _ _ ih | cse_in _ _ ih | bin_l _ ih | bin_r _ ih | un _ ih | cmp_l _ ih
  | cmp_r _ ih | ite_c _ ih | ite_t _ ih | ite_e _ ih =>
      exact ⟨ih.1.trans (.child (by simp [Expr.children])), ih.2⟩

theorem depSingle_mem {e y : Expr} {r : List Expr} (h : depSingle e = .ok r) (hy : y ∈ r) :
    y = e := by
  unfold depSingle at h
  split at h
  · cases h
  · cases h; simpa using hy

section
variable {fl : DepFlags}

mutual
theorem deps_occ : ∀ (e : Expr) (r : List Expr), deps fl e = .ok r → ∀ y ∈ r, Occurs fl e y
  | .const c, r, h, y, hy => by
      cases c <;> simp only [deps] at h <;> cases h <;> simp at hy
  | .var x, r, h, y, hy => by
      cases h; simp only [List.mem_singleton] at hy; subst hy; exact .var x
  | .nan, r, h, y, hy => by cases h; simp at hy
  | .wildcard, r, h, y, hy => by cases h; simp at hy
  | .dotWild _, r, h, y, hy => by cases h; simp at hy
  | .starWild _, r, h, y, hy => by cases h; simp at hy
  | .funcSym, r, h, y, hy => by cases h; simp at hy
  | .subst .., r, h, _, _ => by cases h
  | .deriv .., r, h, _, _ => by cases h
  | .bin o a b, r, h, y, hy => by
      simp only [deps] at h
      obtain ⟨x, hx, h⟩ := except_bind_ok h
      obtain ⟨z, hz, h⟩ := except_bind_ok h
      cases h
      rcases mem_unionPy hy with hy | hy
      · exact .bin_l (deps_occ a x hx y hy)
      · exact .bin_r (deps_occ b z hz y hy)
  | .cmp o a b, r, h, y, hy => by
      simp only [deps] at h
      obtain ⟨x, hx, h⟩ := except_bind_ok h
      obtain ⟨z, hz, h⟩ := except_bind_ok h
      cases h
      rcases mem_unionPy hy with hy | hy
      · exact .cmp_l (deps_occ a x hx y hy)
      · exact .cmp_r (deps_occ b z hz y hy)
  | .subscript a b, r, h, y, hy => by
      simp only [deps] at h
      cases hs : fl.subscripts <;> simp only [hs, Bool.false_eq_true, if_false, if_true] at h
      · obtain ⟨x, hx, h⟩ := except_bind_ok h
        obtain ⟨z, hz, h⟩ := except_bind_ok h
        cases h
        rcases mem_unionPy hy with hy | hy
        · exact .subscript_l hs (deps_occ a x hx y hy)
        · exact .subscript_r hs (deps_occ b z hz y hy)
      · rw [depSingle_mem h hy]; exact .subscript_sel hs
  | .ite a b c, r, h, y, hy => by
      simp only [deps] at h
      obtain ⟨x, hx, h⟩ := except_bind_ok h
      obtain ⟨z, hz, h⟩ := except_bind_ok h
      obtain ⟨w, hw, h⟩ := except_bind_ok h
      cases h
      rcases mem_unionPy hy with hy | hy
      · rcases mem_unionPy hy with hy | hy
        · exact .ite_c (deps_occ a x hx y hy)
        · exact .ite_t (deps_occ b z hz y hy)
      · exact .ite_e (deps_occ c w hw y hy)
  | .un o a, r, h, y, hy => by
      simp only [deps] at h
      exact .un (deps_occ a r h y hy)
  | .lookup a n, r, h, y, hy => by
      simp only [deps] at h
      cases hs : fl.lookups <;> simp only [hs, Bool.false_eq_true, if_false, if_true] at h
      · exact .lookup_in hs (deps_occ a r h y hy)
      · rw [depSingle_mem h hy]; exact .lookup_sel hs
  | .cse a p s, r, h, y, hy => by
      simp only [deps] at h
      split at h
      · cases h
      · cases hs : fl.cses <;> simp only [hs, Bool.false_eq_true, if_false, if_true] at h
        · exact .cse_in hs (deps_occ a r h y hy)
        · cases h; simp only [List.mem_singleton] at hy; subst hy; exact .cse_sel hs
  | .nary o cs, r, h, y, hy => by
      simp only [deps] at h
      obtain ⟨c, hc, ho⟩ := depsL_occ cs r h y hy
      exact .nary hc ho
  | .tuple cs, r, h, y, hy => by
      simp only [deps] at h
      obtain ⟨c, hc, ho⟩ := depsL_occ cs r h y hy
      exact .tuple hc ho
  | .list cs, r, h, y, hy => by
      simp only [deps] at h
      obtain ⟨c, hc, ho⟩ := depsL_occ cs r h y hy
      exact .list hc ho
  | .slice cs, r, h, y, hy => by
      simp only [deps] at h
      obtain ⟨c, hc, ho⟩ := depsSlice_occ cs r h y hy
      exact .slice hc ho
  | .call a cs, r, h, y, hy => by
      simp only [deps] at h
      cases hs : fl.calls <;> simp only [hs] at h
      · rw [depSingle_mem h hy]; exact .call_sel hs
      · obtain ⟨x, hx, h⟩ := except_bind_ok h
        obtain ⟨z, hz, h⟩ := except_bind_ok h
        cases h
        rcases mem_unionPy hy with hy | hy
        · exact .call_fn hs (deps_occ a x hx y hy)
        · obtain ⟨c, hc, ho⟩ := depsL_occ cs z hz y hy
          exact .call_arg (by simp [hs]) hc ho
      · obtain ⟨c, hc, ho⟩ := depsL_occ cs r h y hy
        exact .call_arg (by simp [hs]) hc ho
  | .callKw a bs ns cs, r, h, y, hy => by
      simp only [deps] at h
      cases hs : fl.calls <;> simp only [hs] at h
      · rw [depSingle_mem h hy]; exact .callKw_sel hs
      · obtain ⟨x, hx, h⟩ := except_bind_ok h
        obtain ⟨z, hz, h⟩ := except_bind_ok h
        obtain ⟨w, hw, h⟩ := except_bind_ok h
        cases h
        rcases mem_unionPy hy with hy | hy
        · rcases mem_unionPy hy with hy | hy
          · exact .callKw_fn hs (deps_occ a x hx y hy)
          · obtain ⟨c, hc, ho⟩ := depsL_occ bs z hz y hy
            exact .callKw_arg (by simp [hs]) hc ho
        · obtain ⟨c, hc, ho⟩ := depsL_occ cs w hw y hy
          exact .callKw_kwarg (by simp [hs]) hc ho
      · obtain ⟨z, hz, h⟩ := except_bind_ok h
        obtain ⟨w, hw, h⟩ := except_bind_ok h
        cases h
        rcases mem_unionPy hy with hy | hy
        · obtain ⟨c, hc, ho⟩ := depsL_occ bs z hz y hy
          exact .callKw_arg (by simp [hs]) hc ho
        · obtain ⟨c, hc, ho⟩ := depsL_occ cs w hw y hy
          exact .callKw_kwarg (by simp [hs]) hc ho
theorem depsL_occ : ∀ (cs : List Expr) (r : List Expr), depsL fl cs = .ok r →
    ∀ y ∈ r, ∃ c ∈ cs, Occurs fl c y
  | [], r, h, y, hy => by cases h; simp at hy
  | c :: cs, r, h, y, hy => by
      simp only [depsL] at h
      obtain ⟨x, hx, h⟩ := except_bind_ok h
      obtain ⟨z, hz, h⟩ := except_bind_ok h
      cases h
      rcases mem_unionPy hy with hy | hy
      · exact ⟨c, by simp, deps_occ c x hx y hy⟩
      · obtain ⟨d, hd, ho⟩ := depsL_occ cs z hz y hy
        exact ⟨d, by simp [hd], ho⟩
theorem depsSlice_occ : ∀ (cs : List Expr) (r : List Expr), depsSlice fl cs = .ok r →
    ∀ y ∈ r, ∃ c ∈ cs, Occurs fl c y
  | [], r, h, y, hy => by cases h; simp at hy
  | c :: cs, r, h, y, hy => by
      by_cases hc : c = .const .none
      · subst hc
        simp only [depsSlice] at h
        obtain ⟨d, hd, ho⟩ := depsSlice_occ cs r h y hy
        exact ⟨d, by simp [hd], ho⟩
      · rw [depsSlice.eq_3 _ _ _ hc] at h
        obtain ⟨x, hx, h⟩ := except_bind_ok h
        obtain ⟨z, hz, h⟩ := except_bind_ok h
        cases h
        rcases mem_unionPy hy with hy | hy
        · exact ⟨c, by simp, deps_occ c x hx y hy⟩
        · obtain ⟨d, hd, ho⟩ := depsSlice_occ cs z hz y hy
          exact ⟨d, by simp [hd], ho⟩
end

/-- **Soundness (exact form).**  Everything `DependencyMapper` returns is an occurrence in the
sense of `Occurs`. -/
theorem deps_sound_occurs (e : Expr) (r : List Expr) (h : deps fl e = .ok r) (y : Expr)
    (hy : y ∈ r) : Occurs fl e y :=
  deps_occ e r h y hy

/-- **Soundness.**  Every reported dependency is a subterm of the input, and it is a variable or
a node of a kind the flags select. -/
theorem deps_mem_subterm (e : Expr) (r : List Expr) (h : deps fl e = .ok r) (y : Expr)
    (hy : y ∈ r) : Subterm y e ∧ Selected fl y :=
  (deps_occ e r h y hy).subterm_selected

end

/-! ### completeness of `DependencyMapper` up to Python `==` -/

/-- a class of expressions closed under children on which Python `==` is reflexive and transitive
(instantiated with well-formed expressions via `PV/Proofs/PyEqEquiv.lean`) -/
structure EqUniverse (W : Expr → Prop) : Prop where
  child : ∀ e c, W e → c ∈ e.children → W c
  refl : ∀ a, W a → a.pyEq a = true
  trans : ∀ a b c, W a → W b → W c → a.pyEq b = true → b.pyEq c = true → a.pyEq c = true

/-- `x` is represented in `r` up to Python `==` -/
def Rep (r : List Expr) (x : Expr) : Prop := ∃ y ∈ r, y.pyEq x = true

section
set_option linter.unusedSectionVars false
variable {fl : DepFlags} {W : Expr → Prop} (hW : EqUniverse W)
include hW

theorem EqUniverse.subterm {t e : Expr} (h : Subterm t e) : W e → W t := by
  induction h with
  | refl => exact id
  | step _ hc ih => exact fun he => ih (hW.child _ _ he hc)

theorem EqUniverse.deps_mem {e : Expr} {r : List Expr} (he : W e) (h : deps fl e = .ok r) :
    ∀ y ∈ r, W y :=
  fun y hy => hW.subterm (deps_mem_subterm e r h y hy).1 he

omit hW in
theorem Rep.union_left {a b : List Expr} {x : Expr} (h : Rep a x) : Rep (unionPy a b) x := by
  obtain ⟨y, hy, hyx⟩ := h
  exact ⟨y, mem_unionPy_left hy, hyx⟩

theorem Rep.union_right {a b : List Expr} {x : Expr} (hb : ∀ y ∈ b, W y)
    (hab : ∀ y ∈ unionPy a b, W y) (hx : W x) (h : Rep b x) : Rep (unionPy a b) x := by
  obtain ⟨y, hy, hyx⟩ := h
  obtain ⟨y', hy', rfl | h'⟩ := mem_unionPy_right (a := a) hy
  · exact ⟨y', hy', hyx⟩
  · exact ⟨y', hy', hW.trans y' y x (hab y' hy') (hb y hy) hx h' hyx⟩

theorem mem_union_W {a b : List Expr} (ha : ∀ y ∈ a, W y) (hb : ∀ y ∈ b, W y) :
    ∀ y ∈ unionPy a b, W y := by
  intro y hy
  rcases mem_unionPy hy with h | h
  · exact ha y h
  · exact hb y h

theorem depsL_mem : ∀ (cs : List Expr) (r : List Expr), (∀ c ∈ cs, W c) → depsL fl cs = .ok r →
    ∀ y ∈ r, W y
  | [], r, _, h => by cases h; simp
  | c :: cs, r, hc, h => by
      simp only [depsL] at h
      obtain ⟨x, hx, h⟩ := except_bind_ok h
      obtain ⟨z, hz, h⟩ := except_bind_ok h
      cases h
      exact mem_union_W hW (hW.deps_mem (hc c (by simp)) hx)
        (depsL_mem cs z (fun c h => hc c (by simp [h])) hz)

theorem depsSlice_mem : ∀ (cs : List Expr) (r : List Expr), (∀ c ∈ cs, W c) →
    depsSlice fl cs = .ok r → ∀ y ∈ r, W y
  | [], r, _, h => by cases h; simp
  | c :: cs, r, hc, h => by
      by_cases hn : c = .const .none
      · subst hn
        simp only [depsSlice] at h
        exact depsSlice_mem cs r (fun c h => hc c (by simp [h])) h
      · rw [depsSlice.eq_3 _ _ _ hn] at h
        obtain ⟨x, hx, h⟩ := except_bind_ok h
        obtain ⟨z, hz, h⟩ := except_bind_ok h
        cases h
        exact mem_union_W hW (hW.deps_mem (hc c (by simp)) hx)
          (depsSlice_mem cs z (fun c h => hc c (by simp [h])) hz)

theorem depsL_rep {c x : Expr} (hx : W x)
    (ih : ∀ r', deps fl c = .ok r' → Rep r' x) : ∀ (cs : List Expr) (r : List Expr),
    (∀ c ∈ cs, W c) → depsL fl cs = .ok r → c ∈ cs → Rep r x
  | [], r, _, _, hc => by simp at hc
  | d :: cs, r, hw, h, hc => by
      simp only [depsL] at h
      obtain ⟨a, ha, h⟩ := except_bind_ok h
      obtain ⟨b, hb, h⟩ := except_bind_ok h
      cases h
      simp only [List.mem_cons] at hc
      rcases hc with rfl | hc
      · exact (ih a ha).union_left
      · have hbW := depsL_mem hW cs b (fun c h => hw c (by simp [h])) hb
        exact Rep.union_right hW hbW (mem_union_W hW (hW.deps_mem (hw _ (by simp)) ha) hbW) hx
          (depsL_rep hx ih cs b (fun c h => hw c (by simp [h])) hb hc)

theorem depsSlice_rep {c x : Expr} (hx : W x) (hcn : c ≠ .const .none)
    (ih : ∀ r', deps fl c = .ok r' → Rep r' x) : ∀ (cs : List Expr) (r : List Expr),
    (∀ c ∈ cs, W c) → depsSlice fl cs = .ok r → c ∈ cs → Rep r x
  | [], r, _, _, hc => by simp at hc
  | d :: cs, r, hw, h, hc => by
      by_cases hn : d = .const .none
      · subst hn
        simp only [depsSlice] at h
        simp only [List.mem_cons] at hc
        rcases hc with rfl | hc
        · exact absurd rfl hcn
        · exact depsSlice_rep hx hcn ih cs r (fun c h => hw c (by simp [h])) h hc
      · rw [depsSlice.eq_3 _ _ _ hn] at h
        obtain ⟨a, ha, h⟩ := except_bind_ok h
        obtain ⟨b, hb, h⟩ := except_bind_ok h
        cases h
        simp only [List.mem_cons] at hc
        rcases hc with rfl | hc
        · exact (ih a ha).union_left
        · have hbW := depsSlice_mem hW cs b (fun c h => hw c (by simp [h])) hb
          exact Rep.union_right hW hbW (mem_union_W hW (hW.deps_mem (hw _ (by simp)) ha) hbW) hx
            (depsSlice_rep hx hcn ih cs b (fun c h => hw c (by simp [h])) hb hc)

/-- **Completeness.**  Every occurrence (variable, or outermost selected composite) is reported, up
to Python `==` (the result is a set under `==`, so an `==`-equal representative may stand for it). -/
theorem deps_complete_gen {e x : Expr} (ho : Occurs fl e x) :
    ∀ (r : List Expr), W e → deps fl e = .ok r → Rep r x := by
  induction ho with
  | var x =>
    intro r hw h; cases h
    exact ⟨.var x, by simp, hW.refl _ hw⟩
  | @call_sel f as hs =>
    intro r hw h
    simp only [deps, hs, depSingle] at h
    split at h
    · cases h
    · cases h; exact ⟨_, by simp, hW.refl _ hw⟩
  | @callKw_sel f as ns vs hs =>
    intro r hw h
    simp only [deps, hs, depSingle] at h
    split at h
    · cases h
    · cases h; exact ⟨_, by simp, hW.refl _ hw⟩
  | @lookup_sel a n hs =>
    intro r hw h
    simp only [deps, hs, depSingle, if_true] at h
    split at h
    · cases h
    · cases h; exact ⟨_, by simp, hW.refl _ hw⟩
  | @subscript_sel a i hs =>
    intro r hw h
    simp only [deps, hs, depSingle, if_true] at h
    split at h
    · cases h
    · cases h; exact ⟨_, by simp, hW.refl _ hw⟩
  | @cse_sel c p s hs =>
    intro r hw h
    simp only [deps, hs, if_true] at h
    split at h
    · cases h
    · cases h; exact ⟨_, by simp, hW.refl _ hw⟩
  | @call_fn f as x hs ho ih =>
    intro r hw h
    simp only [deps, hs] at h
    obtain ⟨a, ha, h⟩ := except_bind_ok h
    obtain ⟨b, hb, h⟩ := except_bind_ok h
    cases h
    exact (ih a (hW.child _ _ hw (by simp [Expr.children])) ha).union_left
  | @call_arg f as c x hs hc ho ih =>
    intro r hw h
    have hx : W x := hW.subterm ho.subterm_selected.1 (hW.child _ _ hw (by simp [Expr.children, hc]))
    have hwas : ∀ c ∈ as, W c := fun c hc => hW.child _ _ hw (by simp [Expr.children, hc])
    have hwc := hwas c hc
    simp only [deps] at h
    cases hcs : fl.calls <;> simp only [hcs] at h
    · exact absurd hcs hs
    · obtain ⟨a, ha, h⟩ := except_bind_ok h
      obtain ⟨b, hb, h⟩ := except_bind_ok h
      cases h
      have hbW := depsL_mem hW as b hwas hb
      exact Rep.union_right hW hbW
        (mem_union_W hW (hW.deps_mem (hW.child _ _ hw (by simp [Expr.children])) ha) hbW) hx
        (depsL_rep hW hx (fun r' h' => ih r' hwc h') as b hwas hb hc)
    · exact depsL_rep hW hx (fun r' h' => ih r' hwc h') as r hwas h hc
  | @callKw_fn f as ns vs x hs ho ih =>
    intro r hw h
    simp only [deps, hs] at h
    obtain ⟨a, ha, h⟩ := except_bind_ok h
    obtain ⟨b, hb, h⟩ := except_bind_ok h
    obtain ⟨c, hc, h⟩ := except_bind_ok h
    cases h
    exact (ih a (hW.child _ _ hw (by simp [Expr.children])) ha).union_left.union_left
  | @callKw_arg f as ns vs c x hs hc ho ih =>
    intro r hw h
    have hx : W x := hW.subterm ho.subterm_selected.1 (hW.child _ _ hw (by simp [Expr.children, hc]))
    have hwas : ∀ c ∈ as, W c := fun c hc => hW.child _ _ hw (by simp [Expr.children, hc])
    have hwvs : ∀ c ∈ vs, W c := fun c hc => hW.child _ _ hw (by simp [Expr.children, hc])
    have hwc := hwas c hc
    simp only [deps] at h
    cases hcs : fl.calls <;> simp only [hcs] at h
    · exact absurd hcs hs
    · obtain ⟨a, ha, h⟩ := except_bind_ok h
      obtain ⟨b, hb, h⟩ := except_bind_ok h
      obtain ⟨d, hd, h⟩ := except_bind_ok h
      cases h
      have hbW := depsL_mem hW as b hwas hb
      exact (Rep.union_right hW hbW
        (mem_union_W hW (hW.deps_mem (hW.child _ _ hw (by simp [Expr.children])) ha) hbW) hx
        (depsL_rep hW hx (fun r' h' => ih r' hwc h') as b hwas hb hc)).union_left
    · obtain ⟨b, hb, h⟩ := except_bind_ok h
      obtain ⟨d, hd, h⟩ := except_bind_ok h
      cases h
      exact (depsL_rep hW hx (fun r' h' => ih r' hwc h') as b hwas hb hc).union_left
  | @callKw_kwarg f as ns vs c x hs hc ho ih =>
    intro r hw h
    have hx : W x := hW.subterm ho.subterm_selected.1 (hW.child _ _ hw (by simp [Expr.children, hc]))
    have hwas : ∀ c ∈ as, W c := fun c hc => hW.child _ _ hw (by simp [Expr.children, hc])
    have hwvs : ∀ c ∈ vs, W c := fun c hc => hW.child _ _ hw (by simp [Expr.children, hc])
    have hwc := hwvs c hc
    simp only [deps] at h
    cases hcs : fl.calls <;> simp only [hcs] at h
    · exact absurd hcs hs
    · obtain ⟨a, ha, h⟩ := except_bind_ok h
      obtain ⟨b, hb, h⟩ := except_bind_ok h
      obtain ⟨d, hd, h⟩ := except_bind_ok h
      cases h
      have hbW := depsL_mem hW as b hwas hb
      have hdW := depsL_mem hW vs d hwvs hd
      have haW := hW.deps_mem (hW.child _ _ hw (by simp [Expr.children])) ha
      exact Rep.union_right hW hdW (mem_union_W hW (mem_union_W hW haW hbW) hdW) hx
        (depsL_rep hW hx (fun r' h' => ih r' hwc h') vs d hwvs hd hc)
    · obtain ⟨b, hb, h⟩ := except_bind_ok h
      obtain ⟨d, hd, h⟩ := except_bind_ok h
      cases h
      have hbW := depsL_mem hW as b hwas hb
      have hdW := depsL_mem hW vs d hwvs hd
      exact Rep.union_right hW hdW (mem_union_W hW hbW hdW) hx
        (depsL_rep hW hx (fun r' h' => ih r' hwc h') vs d hwvs hd hc)
  | @lookup_in a n x hs ho ih =>
    intro r hw h
    simp only [deps, hs, Bool.false_eq_true, if_false] at h
    exact ih r (hW.child _ _ hw (by simp [Expr.children])) h
  | @cse_in c p s x hs ho ih =>
    intro r hw h
    simp only [deps, hs, Bool.false_eq_true, if_false] at h
    split at h
    · cases h
    · exact ih r (hW.child _ _ hw (by simp [Expr.children])) h
  | @un o a x ho ih =>
    intro r hw h
    simp only [deps] at h
    exact ih r (hW.child _ _ hw (by simp [Expr.children])) h
  | @subscript_l a i x hs ho ih =>
    intro r hw h
    simp only [deps, hs, Bool.false_eq_true, if_false] at h
    obtain ⟨p, hp, h⟩ := except_bind_ok h
    obtain ⟨q, hq, h⟩ := except_bind_ok h
    cases h
    exact (ih p (hW.child _ _ hw (by simp [Expr.children])) hp).union_left
  | @subscript_r a i x hs ho ih =>
    intro r hw h
    have hwi : W i := hW.child _ _ hw (by simp [Expr.children])
    simp only [deps, hs, Bool.false_eq_true, if_false] at h
    obtain ⟨p, hp, h⟩ := except_bind_ok h
    obtain ⟨q, hq, h⟩ := except_bind_ok h
    cases h
    have hqW := hW.deps_mem hwi hq
    exact Rep.union_right hW hqW
      (mem_union_W hW (hW.deps_mem (hW.child _ _ hw (by simp [Expr.children])) hp) hqW)
      (hW.subterm ho.subterm_selected.1 hwi) (ih q hwi hq)
  | @bin_l o a b x ho ih =>
    intro r hw h
    simp only [deps] at h
    obtain ⟨p, hp, h⟩ := except_bind_ok h
    obtain ⟨q, hq, h⟩ := except_bind_ok h
    cases h
    exact (ih p (hW.child _ _ hw (by simp [Expr.children])) hp).union_left
  | @bin_r o a b x ho ih =>
    intro r hw h
    have hwi : W b := hW.child _ _ hw (by simp [Expr.children])
    simp only [deps] at h
    obtain ⟨p, hp, h⟩ := except_bind_ok h
    obtain ⟨q, hq, h⟩ := except_bind_ok h
    cases h
    have hqW := hW.deps_mem hwi hq
    exact Rep.union_right hW hqW
      (mem_union_W hW (hW.deps_mem (hW.child _ _ hw (by simp [Expr.children])) hp) hqW)
      (hW.subterm ho.subterm_selected.1 hwi) (ih q hwi hq)
  | @cmp_l o a b x ho ih =>
    intro r hw h
    simp only [deps] at h
    obtain ⟨p, hp, h⟩ := except_bind_ok h
    obtain ⟨q, hq, h⟩ := except_bind_ok h
    cases h
    exact (ih p (hW.child _ _ hw (by simp [Expr.children])) hp).union_left
  | @cmp_r o a b x ho ih =>
    intro r hw h
    have hwi : W b := hW.child _ _ hw (by simp [Expr.children])
    simp only [deps] at h
    obtain ⟨p, hp, h⟩ := except_bind_ok h
    obtain ⟨q, hq, h⟩ := except_bind_ok h
    cases h
    have hqW := hW.deps_mem hwi hq
    exact Rep.union_right hW hqW
      (mem_union_W hW (hW.deps_mem (hW.child _ _ hw (by simp [Expr.children])) hp) hqW)
      (hW.subterm ho.subterm_selected.1 hwi) (ih q hwi hq)
  | @ite_c c t e x ho ih =>
    intro r hw h
    simp only [deps] at h
    obtain ⟨p, hp, h⟩ := except_bind_ok h
    obtain ⟨q, hq, h⟩ := except_bind_ok h
    obtain ⟨u, hu, h⟩ := except_bind_ok h
    cases h
    exact (ih p (hW.child _ _ hw (by simp [Expr.children])) hp).union_left.union_left
  | @ite_t c t e x ho ih =>
    intro r hw h
    have hwi : W t := hW.child _ _ hw (by simp [Expr.children])
    simp only [deps] at h
    obtain ⟨p, hp, h⟩ := except_bind_ok h
    obtain ⟨q, hq, h⟩ := except_bind_ok h
    obtain ⟨u, hu, h⟩ := except_bind_ok h
    cases h
    have hqW := hW.deps_mem hwi hq
    exact (Rep.union_right hW hqW
      (mem_union_W hW (hW.deps_mem (hW.child _ _ hw (by simp [Expr.children])) hp) hqW)
      (hW.subterm ho.subterm_selected.1 hwi) (ih q hwi hq)).union_left
  | @ite_e c t e x ho ih =>
    intro r hw h
    have hwi : W e := hW.child _ _ hw (by simp [Expr.children])
    simp only [deps] at h
    obtain ⟨p, hp, h⟩ := except_bind_ok h
    obtain ⟨q, hq, h⟩ := except_bind_ok h
    obtain ⟨u, hu, h⟩ := except_bind_ok h
    cases h
    have huW := hW.deps_mem hwi hu
    have hpW := hW.deps_mem (hW.child _ _ hw (by simp [Expr.children])) hp
    have hqW := hW.deps_mem (hW.child _ _ hw (by simp [Expr.children])) hq
    exact Rep.union_right hW huW (mem_union_W hW (mem_union_W hW hpW hqW) huW)
      (hW.subterm ho.subterm_selected.1 hwi) (ih u hwi hu)
  | @nary o cs c x hc ho ih =>
    intro r hw h
    have hwcs : ∀ c ∈ cs, W c := fun c hc => hW.child _ _ hw (by simp [Expr.children, hc])
    simp only [deps] at h
    exact depsL_rep hW (hW.subterm ho.subterm_selected.1 (hwcs c hc))
      (fun r' h' => ih r' (hwcs c hc) h') cs r hwcs h hc
  | @tuple cs c x hc ho ih =>
    intro r hw h
    have hwcs : ∀ c ∈ cs, W c := fun c hc => hW.child _ _ hw (by simp [Expr.children, hc])
    simp only [deps] at h
    exact depsL_rep hW (hW.subterm ho.subterm_selected.1 (hwcs c hc))
      (fun r' h' => ih r' (hwcs c hc) h') cs r hwcs h hc
  | @list cs c x hc ho ih =>
    intro r hw h
    have hwcs : ∀ c ∈ cs, W c := fun c hc => hW.child _ _ hw (by simp [Expr.children, hc])
    simp only [deps] at h
    exact depsL_rep hW (hW.subterm ho.subterm_selected.1 (hwcs c hc))
      (fun r' h' => ih r' (hwcs c hc) h') cs r hwcs h hc
  | @slice cs c x hc ho ih =>
    intro r hw h
    have hwcs : ∀ c ∈ cs, W c := fun c hc => hW.child _ _ hw (by simp [Expr.children, hc])
    have hcn : c ≠ .const .none := by rintro rfl; cases ho
    simp only [deps] at h
    exact depsSlice_rep hW (hW.subterm ho.subterm_selected.1 (hwcs c hc)) hcn
      (fun r' h' => ih r' (hwcs c hc) h') cs r hwcs h hc

end

/-! ### completeness, instantiated: well-formed expressions -/

theorem wf_children {e c : Expr} (h : e.wf = true) (hc : c ∈ e.children) : c.wf = true := by
  cases e <;> simp only [Expr.children, List.mem_cons, List.mem_append, List.not_mem_nil,
    or_false] at hc <;> simp only [Expr.wf, Bool.and_eq_true, wfL_iff] at h
  all_goals first
    | exact h c hc
    | (rcases hc with rfl | rfl | rfl <;> simp_all)
    | (rcases hc with rfl | rfl <;> simp_all)
    | (rcases hc with rfl | hc | hc
       · exact h.1.1.1.1
       · exact h.1.1.1.2 c hc
       · exact h.2 c hc)
    | (rcases hc with rfl | hc
       · exact h.1
       · exact h.2 c hc)
    | (subst hc; simp_all)
    | simp at hc

/-- well-formed expressions (duplicate-free parallel keyword lists, no nan constant) form an
`EqUniverse`: this is part A (`pyEq_refl`, `pyEq_trans`) -/
theorem eqUniverse_wf : EqUniverse (fun e => e.wf = true) where
  child := fun _ _ h hc => wf_children h hc
  refl := pyEq_refl
  trans := pyEq_trans

/-- **Completeness.**  On a well-formed expression, every occurrence `x` — a variable, or an
outermost subscript / lookup / call / CSE the flags select — is reported by `DependencyMapper` up
to Python `==`: the result contains some `y` with `y == x`. -/
theorem deps_complete {fl : DepFlags} {e x : Expr} {r : List Expr} (hwf : e.wf = true)
    (ho : Occurs fl e x) (h : deps fl e = .ok r) : ∃ y ∈ r, y.pyEq x = true :=
  deps_complete_gen eqUniverse_wf ho r hwf h

/-- Soundness and completeness together: the reported set and the set of occurrences are equal
modulo Python `==`. -/
theorem deps_exact {fl : DepFlags} {e : Expr} {r : List Expr} (hwf : e.wf = true)
    (h : deps fl e = .ok r) :
    (∀ y ∈ r, Occurs fl e y) ∧ (∀ x, Occurs fl e x → ∃ y ∈ r, y.pyEq x = true) :=
  ⟨fun y hy => deps_sound_occurs e r h y hy, fun _ ho => deps_complete hwf ho h⟩

/-- For variables the representative is the variable itself. -/
theorem deps_complete_var {fl : DepFlags} {e : Expr} {n : String} {r : List Expr}
    (hwf : e.wf = true) (ho : Occurs fl e (.var n)) (h : deps fl e = .ok r) : .var n ∈ r := by
  obtain ⟨y, hy, hyx⟩ := deps_complete hwf ho h
  rw [← pyEq_var_right hyx]; exact hy

/-! ### witnesses -/

def demoE : Expr :=
  .nary .sum [.subscript (.var "x") (.var "i"),
    .lookup (.call (.var "f") [.var "y", .var "x"]) "a", .const (.flt "1.0" 1 1)]

example : deps offFlags demoE = .ok [.var "x", .var "i", .var "f", .var "y"] := rfl
example : fv demoE = ["x", "i", "f", "y", "x"] := rfl
example : deps {} demoE =
    .ok [.subscript (.var "x") (.var "i"), .lookup (.call (.var "f") [.var "y", .var "x"]) "a"] :=
  rfl
example : deps { lookups := false, calls := .descend } demoE =
    .ok [.subscript (.var "x") (.var "i"), .var "y", .var "x"] := rfl
/-- the result is a set under Python `==`: `1` and `True` subscripts collapse to the first one -/
example : deps {} (.nary .sum [.subscript (.var "x") (.const (.int 1)),
      .subscript (.var "x") (.const (.bool true))]) =
    .ok [.subscript (.var "x") (.const (.int 1))] := rfl
example : Occurs { lookups := false, calls := .descend } demoE (.var "y") :=
  .nary (c := .lookup (.call (.var "f") [.var "y", .var "x"]) "a") (by simp)
    (.lookup_in rfl (.call_arg (by simp) (by simp) (.var "y")))
/-- why completeness needs well-formedness: a selected node containing nan is reported, but is not
`==` to itself -/
example :
    let e := Expr.subscript (.var "x") (.const (.flt "nan" 0 0))
    deps {} e = .ok [e] ∧ Occurs {} e e ∧ e.pyEq e = false :=
  ⟨rfl, .subscript_sel rfl, by decide⟩
/-- coincidence in action: the value of `z` is irrelevant for `demoE` -/
example (v w : Value) (env : Env) :
    den (("z", v) :: env) demoE = den (("z", w) :: env) demoE :=
  coincidence demoE (fun x hx => by
    have : x ≠ "z" := by
      simp only [demoE, fv, fvL, List.mem_append, List.mem_cons, List.not_mem_nil] at hx
      rintro rfl; simp at hx
    simp [Env.get, Ne.symm this])

/-! ### the node counter: `get_num_nodes` as coded (`c09NumNodes`, an exact cached walk) and the
number of distinct subexpressions -/

/-- **No two subterms of `e` are confusable** (decidable): among the subterms of `e`, the cache
key of `CachedMapper` — `(type(expr), expr)`, compared with Python `==` — identifies exactly the
structurally identical ones.  Fails when `1` / `1.0` / `True` (or `0.0` / `-0.0`) sit below
otherwise equal parents, and for a nan constant (which is not `==` to itself). -/
def unconfusable (e : Expr) : Bool :=
  (c09Subterms e).all fun a => (c09Subterms e).all fun b => a.keyEq b == decide (a = b)

/-- the Boolean test says what it should: for all subterms `a`, `b` of `e`: `keyEq a b ↔ a = b` -/
theorem unconfusable_iff (e : Expr) : unconfusable e = true ↔ C09Unconf e := by
  simp only [unconfusable, List.all_eq_true, beq_iff_eq, C09Unconf]
  constructor
  · intro h a ha b hb
    have := h a ha b hb
    by_cases hab : a = b <;> simp_all
  · intro h a ha b hb
    by_cases hab : a = b
    · simp [hab, (h b hb b hb).2 rfl]
    · have : a.keyEq b ≠ true := fun hk => hab ((h a ha b hb).1 hk)
      simp [hab, Bool.eq_false_iff.2 this]

example : unconfusable (.nary .sum [.const (.int 1), .const (.bool true), .const (.flt "1.0" 1 1)]) = true ∧
    unconfusable (.nary .sum [.un .bnot (.const (.int 1)), .un .bnot (.const (.bool true))]) = false := by
  decide

/-- the number of DISTINCT subexpressions of `e` (structural identity, the Python type of every
constant included): independent of any traversal order, cache or counter -/
def numDistinct (e : Expr) : Nat := (c09Subterms e).toFinset.card

/-- the same number, computed by erasing duplicates from the list of subterms -/
theorem numDistinct_eq_dedup_length (e : Expr) : numDistinct e = (c09Subterms e).dedup.length :=
  List.card_toFinset _

/-- the reading of a node-counter result: with a fresh cache, `n` keys were stored -/
theorem numNodes_keys {e : Expr} {n : Nat} (h : c09NumNodes e = .ok n) :
    ∃ keys, c09NumNodesKeys e = .ok (n, keys) ∧ keys.length = n ∧ e.hasList = false ∧
      ∀ k ∈ keys, k ∈ c09Subterms e ∧ k.isRejectedConst = false := by
  unfold c09NumNodes at h
  split at h
  · rename_i m keys hk
    simp only [Except.ok.injEq] at h
    subst h
    refine ⟨keys, hk, ?_⟩
    unfold c09NumNodesKeys at hk
    split at hk
    · simp at hk
    · rename_i hl
      obtain ⟨new, rfl, hlen, hn⟩ := c09Shape e [] _ _ hk
      exact ⟨by simpa using hlen, by simpa using hl, by simpa using hn⟩
  · simp at h

/-- **The counted nodes, exactly.**  On a tree without confusable subterms the keys stored by the
cached walk are the subterms of the tree, each exactly once. -/
theorem numNodes_keys_exact {e : Expr} (hU : unconfusable e = true) {n : Nat} {keys : List Expr}
    (h : c09NumNodesKeys e = .ok (n, keys)) :
    keys.Nodup ∧ ∀ s, s ∈ keys ↔ s ∈ c09Subterms e := by
  have hU' := (unconfusable_iff e).1 hU
  unfold c09NumNodesKeys at h
  split at h
  · simp at h
  · obtain ⟨new, rfl, -, hn⟩ := c09Shape e [] _ _ h
    have hnd := c09Nodup e (fun s hs => (hU' s hs s hs).2 rfl) [] _ _ List.nodup_nil h
    have hfull := (c09Full hU' e (self_mem_c09Subterms e) [] _ _ (by simp)
      (by intro k hk; simp at hk) h).2
    exact ⟨hnd, fun s => ⟨fun hs => (hn s (by simpa using hs)).1, hfull s⟩⟩

example : (c09NumNodesKeys (.bin .lshift (.var "x") (.nary .sum [.var "x", .const (.int 1)]))).toOption.map
    (·.2) = some [.var "x", .const (.int 1), .nary .sum [.var "x", .const (.int 1)],
      .bin .lshift (.var "x") (.nary .sum [.var "x", .const (.int 1)])] := by decide

/-- **The node counter equals the number of distinct subexpressions** (the property's sentence).
If no two subterms of `e` are confusable and the walk reaches no rejected constant (a string or
`None` outside a slice) and `e` is hashable (no Python list inside), then `get_num_nodes(e)`
returns exactly the number of distinct subterms of `e`. -/
theorem numNodes_eq_distinct (e : Expr) (hU : unconfusable e = true) (hL : e.hasList = false)
    (hOK : walkOK [] e = true) : c09NumNodes e = .ok (numDistinct e) := by
  obtain ⟨n, keys, h⟩ := c09CountWalk_ok_of e ((walkOK_nil_iff e).1 hOK) []
  have hk : c09NumNodesKeys e = .ok (n, keys) := by simp [c09NumNodesKeys, hL, h]
  obtain ⟨hnd, hmem⟩ := numNodes_keys_exact hU hk
  obtain ⟨new, hnew, hlen, -⟩ := c09Shape e [] _ _ h
  have hcard : numDistinct e = n := by
    unfold numDistinct
    rw [← List.toFinset.ext hmem, List.toFinset_card_of_nodup hnd]
    simpa [hnew] using hlen
  simp [c09NumNodes, hk, hcard]

example : c09NumNodes (.nary .sum [.var "x", .bin .pow (.var "x") (.const (.int 2)),
    .const (.int 2), .const (.flt "2.0" 2 1)]) = .ok 5 := by decide
example : unconfusable (.nary .sum [.var "x", .bin .pow (.var "x") (.const (.int 2)),
    .const (.int 2), .const (.flt "2.0" 2 1)]) = true := by decide

/-- **Upper bound, any well-formed tree** (confusable or not): no node is counted twice, so the
count never exceeds the number of structurally distinct subterms. -/
theorem numNodes_le_distinct {e : Expr} (hwf : e.wf = true) {n : Nat}
    (h : c09NumNodes e = .ok n) : n ≤ numDistinct e := by
  obtain ⟨keys, hk, hlen, hL, hn⟩ := numNodes_keys h
  have hw : c09CountWalk e [] = .ok (n, keys) := by
    simpa [c09NumNodesKeys, hL] using hk
  have hnd := c09Nodup e (fun s hs => keyEq_refl s (c09Subterms_wf hwf hs)) [] _ _ List.nodup_nil hw
  unfold numDistinct
  rw [← hlen, ← List.toFinset_card_of_nodup hnd]
  exact Finset.card_le_card (fun k hk' => by
    simp only [List.mem_toFinset] at hk' ⊢
    exact (hn k hk').1)

/-- **Lower bound, any well-formed tree**: every subterm has a representative among the counted
nodes that is `==` to it.  Hence any family of subterms that are pairwise not `==` (in particular
a system of representatives of the `==`-classes) is at most as large as the count. -/
theorem numNodes_ge_eqClasses {e : Expr} (hwf : e.wf = true) {n : Nat}
    (h : c09NumNodes e = .ok n) (D : List Expr) (hD : ∀ d ∈ D, d ∈ c09Subterms e)
    (hP : D.Pairwise (fun a b => a.pyEq b = false)) : D.length ≤ n := by
  obtain ⟨keys, hk, hlen, hL, hn⟩ := numNodes_keys h
  have hw : c09CountWalk e [] = .ok (n, keys) := by
    simpa [c09NumNodesKeys, hL] using hk
  have hrep := (c09Rep e hwf [] _ _ (by simp) (by intro k hk; simp at hk) hw).2
  have hDwf : ∀ d ∈ D, d.wf = true := fun d hd => c09Subterms_wf hwf (hD d hd)
  have hDnd : D.Nodup := by
    refine hP.imp_of_mem ?_
    intro a b ha _ hab heq
    subst heq
    rw [pyEq_refl a (hDwf a ha)] at hab
    exact Bool.noConfusion hab
  rw [← hlen]
  refine length_le_of_reps (fun r d => r.pyEq d = true) hDnd (fun d hd => hrep d (hD d hd)) ?_
  intro r hr d1 hd1 d2 hd2 h1 h2
  by_contra hne
  have hrwf : r.wf = true := c09Subterms_wf hwf (hn r hr).1
  have h12 : d1.pyEq d2 = true :=
    pyEq_trans d1 r d2 (hDwf d1 hd1) hrwf (hDwf d2 hd2)
      (pyEq_symm r d1 hrwf (hDwf d1 hd1) h1) h2
  have h21 : d2.pyEq d1 = true := pyEq_symm d1 d2 (hDwf d1 hd1) (hDwf d2 hd2) h12
  rcases pairwise_or_flip hP d1 hd1 d2 hd2 hne with h | h
  · rw [h12] at h; exact Bool.noConfusion h
  · rw [h21] at h; exact Bool.noConfusion h

/-- the lower bound with the classes counted by the model's own `dedupBy`: the number of
subterms left when duplicates under Python `==` alone (no type tag) are removed -/
theorem numNodes_ge_dedup_pyEq {e : Expr} (hwf : e.wf = true) {n : Nat}
    (h : c09NumNodes e = .ok n) : (dedupBy Expr.pyEq (c09Subterms e)).length ≤ n :=
  numNodes_ge_eqClasses hwf h _ (dedupBy_pairwise _ _).2 (dedupBy_pairwise _ _).1

/-- both bounds at once: between the coarsest (`==` alone) and the finest (structure and constant
types) reading of "distinct" -/
theorem numNodes_between {e : Expr} (hwf : e.wf = true) {n : Nat} (h : c09NumNodes e = .ok n) :
    (dedupBy Expr.pyEq (c09Subterms e)).length ≤ n ∧ n ≤ numDistinct e :=
  ⟨numNodes_ge_dedup_pyEq hwf h, numNodes_le_distinct hwf h⟩

/-- on the confusable witness below: 3 ≤ 3 ≤ 5 -/
example : (dedupBy Expr.pyEq (c09Subterms (.cmp .ne (.nary .sum [.const (.flt "2.0" 2 1)])
      (.nary .sum [.const (.int 2)])))).length ≤ 3 ∧ 3 ≤ numDistinct (.cmp .ne
      (.nary .sum [.const (.flt "2.0" 2 1)]) (.nary .sum [.const (.int 2)])) :=
  numNodes_between (by decide) (by decide)

/-- `Comparison(Sum((2.0,)), "!=", Sum((2,)))`: the second `Sum` is a cache hit (it is `==` to the
first and of the same class), so the walk never reaches the int `2` -/
def confusableE : Expr :=
  .cmp .ne (.nary .sum [.const (.flt "2.0" 2 1)]) (.nary .sum [.const (.int 2)])

/-- **Confusable trees: neither bound is the count.**  On `confusableE` the counter says 3, while
there are 5 structurally distinct subterms and 4 classes under the cache-key equality
`(type, ==)` (what the dedup-after-the-walk definition `numNodes` answers) — only the classes under
`==` alone are 3.  On `Sum((2, 2.0))` the counter says 3 = number of distinct subterms, while the
classes under `==` alone are 2.  So on confusable trees the count is not a function of any of
the three notions of "distinct". -/
theorem numNodes_confusable_cex :
    c09NumNodes confusableE = .ok 3 ∧ numDistinct confusableE = 5 ∧
    numNodes confusableE = .ok 4 ∧
    (dedupBy Expr.pyEq (c09Subterms confusableE)).length = 3 ∧
    unconfusable confusableE = false ∧ confusableE.wf = true ∧
    (let e2 := Expr.nary .sum [.const (.int 2), .const (.flt "2.0" 2 1)]
     c09NumNodes e2 = .ok 3 ∧ numDistinct e2 = 3 ∧
       (dedupBy Expr.pyEq (c09Subterms e2)).length = 2 ∧ unconfusable e2 = true) := by
  have hold : numNodes confusableE = .ok 4 := by
    simp [numNodes, confusableE, Expr.hasList, Expr.hasListL, walk, walkL, wrapWalk, leafWalk,
      bind, Except.bind, pure, Except.pure, Expr.kind]
    decide
  refine ⟨by decide, by decide, hold, by decide, by decide, by decide, ?_⟩
  exact ⟨by decide, by decide, by decide, by decide⟩

/-- the counted nodes of `confusableE`, in `post_visit` order: the float, the first `Sum`, the
comparison -/
example : c09NumNodesKeys confusableE =
    .ok (3, [.const (.flt "2.0" 2 1), .nary .sum [.const (.flt "2.0" 2 1)], confusableE]) := by
  decide

/-- **Why "unconfusable" includes `a == a`.**  Two nan constants are never a cache hit (each
occurrence is its own Python object, and nan is not `==` to itself), so `Sum((nan, nan))` counts
3 nodes although there are only 2 structurally distinct subterms: the upper bound needs
well-formedness. -/
theorem numNodes_nan_cex :
    let e := Expr.nary .sum [.const (.flt "nan" 0 0), .const (.flt "nan" 0 0)]
    c09NumNodes e = .ok 3 ∧ numDistinct e = 2 ∧ e.wf = false ∧ unconfusable e = false := by
  exact ⟨by decide, by decide, by decide, by decide⟩

/-- **What the counter can raise.**  `TypeError` exactly when a Python list occurs in the tree
(the first key is unhashable); otherwise only the rejection of a string / `None` constant, and
that only if such a constant is a subterm. -/
theorem numNodes_error {e : Expr} {err : DepErr} (h : c09NumNodes e = .error err) :
    (err = .unhashable ∧ e.hasList = true) ∨
    (err = .foreign ∧ e.hasList = false ∧ ∃ s ∈ c09Subterms e, s.isRejectedConst = true) := by
  unfold c09NumNodes c09NumNodesKeys at h
  cases hL : e.hasList
  · right
    simp only [hL, Bool.false_eq_true, if_false] at h
    rcases c09CountWalk_total e [] with ⟨n, c', hw⟩ | hw
    · simp [hw] at h
    · simp only [hw, Except.error.injEq] at h
      refine ⟨h.symm, rfl, ?_⟩
      by_contra hno
      obtain ⟨n, c', hok⟩ := c09CountWalk_ok_of e (fun s hs => by
        by_contra hr
        exact hno ⟨s, hs, by simpa using hr⟩) []
      rw [hok] at hw
      cases hw
  · left
    simp only [hL, if_true, Except.error.injEq] at h
    exact ⟨h.symm, rfl⟩

example : c09NumNodes (.nary .sum [.var "x", .list [.var "y"]]) = .error .unhashable := by decide
example : c09NumNodes (.nary .sum [.var "x", .const (.str "abc")]) = .error .foreign := by decide
/-- the `None` parts of a slice are absent children, not rejected constants -/
example : c09NumNodes (.slice [.var "x", .const .none, .const .none]) = .ok 2 := by decide

/-- **Relation to the previous definition.**  `numNodes` walks the whole tree without a cache and
removes duplicates under the cache-key equality afterwards.  On every tree without confusable
subterms the two definitions agree — same count, same exception. -/
theorem numNodes_old_eq (e : Expr) (hU : unconfusable e = true) : numNodes e = c09NumNodes e := by
  have hU' := (unconfusable_iff e).1 hU
  cases hL : e.hasList
  · cases hOK : walkOK [] e
    · -- a rejected constant is a subterm; without confusable subterms it is reached
      have hold : numNodes e = .error .foreign := by
        simp [numNodes, hL, walk_total, hOK, okIf]
      rw [hold]
      rcases c09CountWalk_total e [] with ⟨n, keys, hw⟩ | hw
      · exfalso
        have hk : c09NumNodesKeys e = .ok (n, keys) := by simp [c09NumNodesKeys, hL, hw]
        obtain ⟨-, hmem⟩ := numNodes_keys_exact hU hk
        obtain ⟨new, hnew, -, hn⟩ := c09Shape e [] _ _ hw
        have hall : ∀ s ∈ c09Subterms e, s.isRejectedConst = false := fun s hs =>
          (hn s (by simpa [hnew] using (hmem s).2 hs)).2
        rw [(walkOK_nil_iff e).2 hall] at hOK
        exact Bool.noConfusion hOK
      · simp [c09NumNodes, c09NumNodesKeys, hL, hw]
    · rw [numNodes_eq_distinct e hU hL hOK]
      have hR : ∀ a ∈ c09PostNodes e, ∀ b ∈ c09PostNodes e, (a.keyEq b = true ↔ a = b) :=
        fun a ha b hb => hU' a (mem_c09PostNodes.1 ha) b (mem_c09PostNodes.1 hb)
      have hlen := dedupBy_length_of_eq hR
      have hset : (c09PostNodes e).toFinset = (c09Subterms e).toFinset :=
        List.toFinset.ext (fun _ => mem_c09PostNodes)
      simp only [numNodes, hL, Bool.false_eq_true, if_false, walk_total, hOK, okIf, if_true]
      show (Except.ok (walkSpec [] false e) >>= fun ev =>
        pure (dedupBy Expr.keyEq ((ev.filter (·.post)).map (·.node))).length) = _
      simp only [bind, Except.bind, pure, Except.pure]
      rw [show (List.map (fun x => x.node) (List.filter (fun x => x.post) (walkSpec [] false e)))
        = c09PostNodes e from rfl, hlen, hset]
      rfl
  · simp [numNodes, c09NumNodes, c09NumNodesKeys, hL]; rfl

example : numNodes (.nary .sum [.var "x", .bin .pow (.var "x") (.const (.int 2)),
    .const (.int 2), .const (.flt "2.0" 2 1)]) = .ok 5 := by
  rw [numNodes_old_eq _ (by decide)]; decide

/-! ## The handlers of the CURRENT source (T-gen)

`Generated.c09DepLayers`, `c09FlopLayers`, `c09FlopCseLayers`, `c09CountSpec`, `c09DepInit`, … are
regenerated by extract/analysis.py from the live source of pymbolic/mapper/dependency.py,
flop_counter.py, analysis.py (and, through extract/traversal.py, `c04CombineTable`,
`c04WalkTable`, `c04Classes` from pymbolic/mapper/__init__.py and primitives.py) on every check.
The theorems below tie the hand-written models `deps`, `flopsG`, `c09CountWalk` to those tables for
ALL expressions, flag settings, seen-sets and caches: an edit of the source that drops a variable
under one flag, tests the flags in another order, recurses into other children, counts `n`
instead of `n - 1` additions, forgets the seen-set update, looks the cache up after dispatching or
counts in another hook changes a table and breaks them. -/

section TGen
open Generated

/-- **Dependency handler bodies.**  For every node the closed body the current source runs —
`Mapper.__call__` dispatch through the class MRO against the handler names of `DependencyMapper`'s
MRO, `super()` / `Collector.…(self, …)` / `Mapper` stubs / the CSE memo wrapper followed through
the layers, the layers of `CombineMapper` and `Mapper` being the rows of the C04 combine table — is
exactly the body `deps` was written from: same flag tests in the same order, same returned sets,
same recursion sites. -/
theorem deps_resolve_current (e : Expr) :
    c09Resolve c04Classes c09DepLayers e = c09DepBody e := by
  cases e with
  | const k => cases k <;> rfl
  | nary o cs => cases o <;> rfl
  | bin o a b => cases o <;> rfl
  | un o a => cases o <;> rfl
  | _ => rfl

example : c09Resolve c04Classes c09DepLayers (.lookup (.var "r") "u") =
    .ok (.ifFlag "include_lookups" .single (.c04 (.fold false [⟨"aggregate", .one, true⟩]))) := rfl

/-- **`deps` is the table-driven dependency analysis of the current source**: on every node and
under every flag setting, one handler call as the regenerated tables describe it (`c09DepsStep`),
recursing through `deps`. -/
theorem deps_table_step_current (fl : DepFlags) (e : Expr) :
    deps fl e = c09DepsStep c04Classes c09DepLayers fl (deps fl) e := by
  rw [c09DepsStep, deps_resolve_current]; exact deps_eq_stepB fl e

example : c09DepsStep c04Classes c09DepLayers { lookups := false } (deps { lookups := false })
    (.lookup (.var "r") "u") = .ok [.var "r"] := by decide

/-- … and the only such function: anything that makes one table-driven handler call per node and
recurses through itself IS `deps` (so `deps_exact`, `deps_off_eq_fv`, `deps_complete`,
`deps_sound_occurs`, … are theorems about what the current source says). -/
theorem deps_unique_current (fl : DepFlags) (f : Expr → Except DepErr (List Expr))
    (hf : ∀ e, f e = c09DepsStep c04Classes c09DepLayers fl f e) : ∀ e, f e = deps fl e :=
  c09Deps_unique (fun e => c09Resolve c04Classes c09DepLayers e) fl f (deps fl) hf
    (deps_table_step_current fl)

/-- the hypothesis of `deps_unique_current` is satisfiable (by `deps` itself) -/
example (fl : DepFlags) : ∀ e, deps fl e = deps fl e :=
  deps_unique_current fl (deps fl) (deps_table_step_current fl)

/-- `deps_exact` read on the current source: ANY function satisfying the handler equations of the
regenerated `DependencyMapper` tables reports, on a well-formed expression, exactly the occurrences
the flags select (modulo Python `==`). -/
theorem deps_exact_current {fl : DepFlags} (f : Expr → Except DepErr (List Expr))
    (hf : ∀ e, f e = c09DepsStep c04Classes c09DepLayers fl f e)
    {e : Expr} {r : List Expr} (hwf : e.wf = true) (h : f e = .ok r) :
    (∀ y ∈ r, Occurs fl e y) ∧ (∀ x, Occurs fl e x → ∃ y ∈ r, y.pyEq x = true) :=
  deps_exact hwf (deps_unique_current fl f hf e ▸ h)

example : (deps {} demoE).isOk = true := by decide

/-- well-formed expressions form a class on which Python `==` is an equivalence -/
theorem wf_eqClass : C09EqClass (fun e : Expr => e.wf = true) where
  refl := pyEq_refl
  symm := pyEq_symm
  trans := pyEq_trans

/-- every set `DependencyMapper` returns is duplicate-free under `==`, as a Python set is -/
theorem deps_result_distinct (fl : DepFlags) (e : Expr) (r : List Expr) (h : deps fl e = .ok r) :
    c09Distinct r := deps_distinct fl e h

/-- **`combine` read literally.**  For a well-formed node `e` and any handler shape `recs` that
fits it, the set the table-driven step computes from the recursion sites (`c09UnionSites`, the
association `deps` uses) is — as a list, element for element — Python's
`reduce(operator.or_, values, set())` (`combine_current`) applied to the list of the results of
ALL recursive calls in source order. -/
theorem deps_combine_literal {fl : DepFlags} {e : Expr} (hwf : e.wf = true) (recs : List C04Rec)
    (cs : List Expr) (hfit : c04RecsChildren e recs = some cs) :
    c09UnionSites (deps fl) e recs = (c09MapM (deps fl) cs).map c09ReduceOr := by
  refine c09UnionSites_eq_literal wf_eqClass (deps fl) e recs cs hfit ?_
  intro c hc r hr
  have hcw : c.wf = true := by
    unfold c04RecsChildren at hfit
    rcases hcss : c04OptSeq (recs.map (c04RecChildren e)) with _ | css
    · simp [hcss] at hfit
    · simp only [hcss, Option.map_some, Option.some.injEq] at hfit
      subst hfit
      obtain ⟨l, hl, hcl⟩ := List.mem_flatten.mp hc
      have : ∀ (recs : List C04Rec) (css : List (List Expr)),
          c04OptSeq (recs.map (c04RecChildren e)) = some css → ∀ l ∈ css, ∀ c ∈ l, c ∈ e.children := by
        intro recs
        induction recs with
        | nil => intro css h; simp [c04OptSeq] at h; subst h; simp
        | cons r rs ih =>
          intro css h l hl c hc
          rcases hr : c04RecChildren e r with _ | l0
          · simp [hr, c04OptSeq] at h
          · rcases hrs : c04OptSeq (rs.map (c04RecChildren e)) with _ | ls
            · simp [hr, hrs, c04OptSeq] at h
            · simp only [List.map_cons, hr, hrs, c04OptSeq, Option.some.injEq] at h
              subst h
              rcases List.mem_cons.mp hl with rfl | hl
              · exact c04RecChildren_sub hr c hc
              · exact ih ls hrs l hl c hc
      exact wf_children hwf (this recs css hcss l hl c hcl)
  exact ⟨deps_distinct fl c hr, eqUniverse_wf.deps_mem hcw hr⟩

example : c09ReduceOr [[.var "x"], [.var "y", .var "x"], [.const (.int 1)]] =
    [.var "x", .var "y", .const (.int 1)] := by decide

/-- **Flop handler bodies** of the current source, for both counters (`aware`:
`CSEAwareFlopCounter`, else `FlopCounter` = `CachedMapper` over `FlopCounterBase`): which handlers
add how many operations (as expressions in `len(expr.children)`), which children are recursed in
which order, the seen-set test and update, and the handlers inherited from `CombineMapper` (rows
of the C04 combine table, `combine = sum`). -/
theorem flops_resolve_current (aware : Bool) (e : Expr) :
    c09Resolve c04Classes (if aware then c09FlopCseLayers else c09FlopLayers) e =
      c09FlopBody aware e := by
  cases aware <;> cases e with
  | const k => cases k <;> rfl
  | nary o cs => cases o <;> rfl
  | bin o a b => cases o <;> rfl
  | un o a => cases o <;> rfl
  | _ => rfl

/-- **`flopsG` is the table-driven flop counter of the current source** (both variants, every
seen-set), counts read as Python integers. -/
theorem flops_table_step_current (aware : Bool) (e : Expr) (seen : List Expr) :
    c09Lift (flopsG aware e seen) =
      c09FlopsStep c04Classes (if aware then c09FlopCseLayers else c09FlopLayers)
        (fun c s => c09Lift (flopsG aware c s)) e seen := by
  rw [c09FlopsStep, flops_resolve_current]; exact flopsG_eq_stepB aware e seen

example : c09FlopsStep c04Classes c09FlopLayers (fun c s => c09Lift (flopsG false c s))
    (.nary .sum [.var "x", .var "y", .var "z"]) [] = .ok (2, []) := by decide

/-- … and the only one (so `flops_eq_count`, `flopsCse_once`, `flopsCse_first`, `flopsCse_le`
speak about the current source). -/
theorem flops_unique_current (aware : Bool)
    (f : Expr → List Expr → Except DepErr (Int × List Expr))
    (hf : ∀ e s, f e s =
      c09FlopsStep c04Classes (if aware then c09FlopCseLayers else c09FlopLayers) f e s) :
    ∀ e s, f e s = c09Lift (flopsG aware e s) :=
  c09Flops_unique
    (fun e => c09Resolve c04Classes (if aware then c09FlopCseLayers else c09FlopLayers) e)
    f (fun c s => c09Lift (flopsG aware c s)) hf (flops_table_step_current aware)

example (aware : Bool) : ∀ e s, c09Lift (flopsG aware e s) = c09Lift (flopsG aware e s) :=
  flops_unique_current aware (fun e s => c09Lift (flopsG aware e s)) (flops_table_step_current aware)

example : c09FlopsStep c04Classes c09FlopCseLayers (fun c s => c09Lift (flopsG true c s))
    (.cse (.nary .prod [.var "x", .var "y"]) none "s") [] =
    .ok (1, [.cse (.nary .prod [.var "x", .var "y"]) none "s"]) := by decide

/-- `flops_eq_count` read on the current source: any solution of the handler equations of the
regenerated `FlopCounter` tables returns the independent operation count and leaves the seen-set
alone. -/
theorem flops_eq_count_current (f : Expr → List Expr → Except DepErr (Int × List Expr))
    (hf : ∀ e s, f e s = c09FlopsStep c04Classes c09FlopLayers f e s)
    (e : Expr) (seen : List Expr) (n : Int) (seen' : List Expr) (h : f e seen = .ok (n, seen')) :
    n = (countOps e : Int) ∧ seen' = seen := by
  have h' := flops_unique_current false f hf e seen
  rw [h] at h'
  rcases hg : flopsG false e seen with err | ⟨m, s'⟩
  · rw [hg] at h'; cases h'
  · rw [hg, c09Lift_ok] at h'
    obtain ⟨rfl, rfl⟩ := flops_eq_count e seen m s' hg
    cases h'; exact ⟨rfl, rfl⟩

/-- `flopsCse_once` read on the current source. -/
theorem flopsCse_once_current (f : Expr → List Expr → Except DepErr (Int × List Expr))
    (hf : ∀ e s, f e s = c09FlopsStep c04Classes c09FlopCseLayers f e s)
    (c : Expr) (p : Option String) (s : String) (seen : List Expr)
    (hl : c.hasList = false) (h : seen.any (fun k => k.pyEq (.cse c p s)) = true) :
    f (.cse c p s) seen = .ok (0, seen) := by
  rw [flops_unique_current true f hf, flopsCse_once c p s seen hl h]; rfl

/-- every seen-set operation of the current `CSEAwareFlopCounter` handlers is on the attribute
`__init__` initialises with `set()` (a fresh counter starts with an empty seen-set) -/
theorem flop_seen_attr_current :
    (c09FlopCseLayers.flatMap (fun l => l.rows.flatMap (fun r => r.body.seenAttrs))).all
      (· == c09FlopSeenAttr) = true ∧
    (c09FlopLayers.flatMap (fun l => l.rows.flatMap (fun r => r.body.seenAttrs))) = [] := by
  decide

/-- **`combine`** as the current source resolves it: `Collector.combine` =
`reduce(operator.or_, values, set())` for the dependency mapper, `FlopCounterBase.combine` =
`sum(values)` for all three flop counters. -/
theorem combine_current :
    c09DepCombine = ("Collector", .reduceOr) ∧ c09FlopCombine = ("FlopCounterBase", .sum) ∧
    c09FlopCseCombine = ("FlopCounterBase", .sum) ∧
    c09FlopCachedCombine = ("FlopCounterBase", .sum) := by decide

/-- **Which `__call__` recurses.**  `DependencyMapper` and `CSEAwareFlopCounter` recurse through
`Mapper.__call__`; `CachedDependencyMapper`, `FlopCounter` and `NodeCountMapper` through
`CachedMapper.__call__` (memoised; the cached dependency mapper has `DependencyMapper`'s
handlers). -/
theorem rec_owners_current :
    c09RecOwners = [("DependencyMapper", "Mapper"), ("CachedDependencyMapper", "CachedMapper"),
      ("FlopCounter", "CachedMapper"), ("CSEAwareFlopCounter", "Mapper"),
      ("NodeCountMapper", "CachedMapper")] ∧
    c09CachedDepMro = ["CachedDependencyMapper", "CachedMapper"] ++ c09DepLayers.map (·.cls) := by
  decide

/-- **`DependencyMapper.__init__`** of the current source: `composite_leaves=b` is equivalent to
setting `include_subscripts`, `include_lookups`, `include_calls` to `b` (and leaves `include_cses`
alone); without it the four flags are stored as given; the defaults are the model's defaults. -/
theorem dep_init_current (given : DepFlags) :
    c09InitFlags c09DepInit given none = given ∧
    c09InitFlags c09DepInit given (some true) =
      { given with subscripts := true, lookups := true, calls := .yes } ∧
    c09InitFlags c09DepInit given (some false) =
      { given with subscripts := false, lookups := false, calls := .no } ∧
    c09DepInit.params = [("include_subscripts", "True"), ("include_lookups", "True"),
      ("include_calls", "True"), ("include_cses", "False"), ("composite_leaves", "None")] ∧
    c09DepInit.callsDomain = ["True", "False", "'descend_args'"] := by
  refine ⟨?_, ?_, ?_, by decide, by decide⟩ <;> cases given <;> rfl

example : ({} : DepFlags) = { subscripts := true, lookups := true, calls := .yes, cses := false } :=
  rfl

/-- every recursive call in a handler defined by `DependencyMapper` / `Collector` hands the extra
arguments on -/
def c09BodyFwd : C09Body → Bool
  | .combine recs => recs.all (·.fwd)
  | .ifFlagEq _ _ t e => c09BodyFwd t && c09BodyFwd e
  | .ifFlag _ t e => c09BodyFwd t && c09BodyFwd e
  | _ => true

theorem dep_rows_forward_current :
    (c09DepLayers.all fun l => l.rows.all fun r => c09BodyFwd r.body) = true := by decide

/-- **`WalkMapper` handler shapes** of the current source (as `C04.walk_resolve_current`; restated
here because `NodeCountMapper` runs these handlers — extract/analysis.py checks that every
`map_*` of `NodeCountMapper` IS `WalkMapper`'s function). -/
theorem nodecount_handlers_current (e : Expr) :
    c04Resolve c04Classes c04WalkTable e = c04WalkBody e := by
  cases e with
  | const k => cases k <;> rfl
  | nary o cs => cases o <;> rfl
  | bin o a b => cases o <;> rfl
  | un o a => cases o <;> rfl
  | _ => rfl

/-- **`NodeCountMapper`, `CachedMapper.__call__`, `get_num_nodes`** of the current source: the MRO,
the memo protocol (lookup before dispatch under `(type(expr), expr)`, store after the handler, on
both paths), `visit` inherited from `WalkMapper` (returns `True`, counts nothing), `post_visit`
counting one, a fresh mapper per `get_num_nodes` call starting at zero. -/
theorem count_spec_current : c09CountSpec = c09CountSpecHand := by decide

/-- **`c09CountWalk` is the table-driven node counter of the current source**: for every node and
cache, one `NodeCountMapper.rec` call as the regenerated tables describe it (`c09CountStep`),
recursing through `c09CountWalk`. -/
theorem nodecount_table_step_current (e : Expr) (cache : List Expr) :
    c09CountWalk e cache =
      c09CountStep c04Classes c04WalkTable c09CountSpec c09CountWalk e cache := by
  rw [c09CountStep, nodecount_handlers_current, count_spec_current]
  exact c09CountWalk_eq_stepB _ e cache

example : c09CountStep c04Classes c04WalkTable c09CountSpec c09CountWalk
    (.nary .sum [.var "x", .var "x"]) [] = .ok (2, [.var "x", .nary .sum [.var "x", .var "x"]]) := by
  decide

/-- … and the only one (so `numNodes_eq_distinct`, `numNodes_between`, `numNodes_error`, … speak
about the current source). -/
theorem nodecount_unique_current (f : Expr → List Expr → Except DepErr (Nat × List Expr))
    (hf : ∀ e c, f e c = c09CountStep c04Classes c04WalkTable c09CountSpec f e c) :
    ∀ e c, f e c = c09CountWalk e c :=
  c09Count_unique c09CountSpec
    (fun e => c09StoredByMethod c04Classes (c04WalkTable.map (fun (h : C04Handler) => h.name)) e)
    (fun e => c04Resolve c04Classes c04WalkTable e) f c09CountWalk hf nodecount_table_step_current

example : ∀ e c, c09CountWalk e c = c09CountWalk e c :=
  nodecount_unique_current c09CountWalk nodecount_table_step_current

/-- `get_num_nodes` as modelled is the entry point of the current source (hash the first key, a
fresh mapper, the counter returned) run with the table-driven `rec`. -/
theorem numNodes_entry_current (e : Expr) :
    c09NumNodesKeys e = c09NumNodesT c09CountSpec c09CountWalk e := by
  rw [count_spec_current]; exact c09NumNodesKeys_eq_T e

/-- `numNodes_eq_distinct` read on the current source: for ANY `rec` satisfying the equations of
the regenerated tables, `get_num_nodes` returns the number of distinct subexpressions of an
unconfusable, hashable tree without rejected constants. -/
theorem numNodes_eq_distinct_current
    (f : Expr → List Expr → Except DepErr (Nat × List Expr))
    (hf : ∀ e c, f e c = c09CountStep c04Classes c04WalkTable c09CountSpec f e c)
    (e : Expr) (hU : unconfusable e = true) (hL : e.hasList = false) (hOK : walkOK [] e = true) :
    ∃ keys, c09NumNodesT c09CountSpec f e = .ok (numDistinct e, keys) := by
  have hfe : f = c09CountWalk := funext fun e => funext fun c => nodecount_unique_current f hf e c
  have h := numNodes_eq_distinct e hU hL hOK
  rw [hfe, ← numNodes_entry_current]
  simp only [c09NumNodes] at h
  rcases hk : c09NumNodesKeys e with err | ⟨n, keys⟩
  · rw [hk] at h; cases h
  · rw [hk] at h; cases h; exact ⟨keys, rfl⟩

end TGen

end PV.C09
