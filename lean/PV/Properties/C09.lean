import PV.Model.Traverse
