import PV.Model.Traverse
import PV.Model.Dispatch
import PV.Proofs.Subterm
import PV.Proofs.WalkDispatch
import PV.Proofs.WalkSpec
import PV.Proofs.WalkFacts
import PV.Proofs.WalkCombine
import PV.Proofs.WalkIdentity
import PV.Properties.C08
/-
  C04 — mapper dispatch (`Mapper.__call__`, `rec_fallback`, `CachedMapper.__call__`, `map_foreign`),
  handler names of expression dataclasses, and the contracts of the stock traversals
  (`WalkMapper` = `walk`, `CombineMapper` = `combineL`, `IdentityMapper` = `substM {}`).
-/
namespace PV.C04
open PV

/-! ## 1. Dispatch -/

/-- **Nearest handler.**  `Mapper.__call__` returns the handler picked by the specification
`firstImplemented`: the own class's handler name if the mapper implements it, else the first
ancestor entry (MRO order) whose non-empty name the mapper implements, else the
unsupported-expression hook. -/
theorem dispatch_nearest (hs : List String) (mro : List (Option String)) :
    dispatchExpr hs mro =
      match firstImplemented hs mro with
      | some m => .handler m
      | none => .unsupported := by
  rw [dispatchExpr_first]; cases firstImplemented hs mro <;> rfl

/-- the specification, spelled out with `List.find?`: own entry first, then the first ancestor -/
theorem firstImplemented_cons (hs : List String) (own : Option String)
    (rest : List (Option String)) :
    firstImplemented hs (own :: rest) =
      if mroImplements hs true own then own
      else (rest.find? (mroImplements hs false)).join := rfl

/-- **Nearest handler, index form.**  The result is `handler m` exactly when `m` is the entry at
the FIRST position `i` of the MRO (position 0 = own class) whose name the mapper implements
(ancestor names must be non-empty): no earlier position qualifies. -/
theorem dispatch_handler_iff (hs : List String) (mro : List (Option String)) (m : String) :
    dispatchExpr hs mro = .handler m ↔
      ∃ i : Nat, mro[i]? = some (some m) ∧ m ∈ hs ∧ (i ≠ 0 → m ≠ "") ∧
        ∀ j : Nat, j < i → ∀ m', mro[j]? = some (some m') → ¬ (m' ∈ hs ∧ (j ≠ 0 → m' ≠ "")) :=
  dispatchExpr_handler_iff hs mro m

/-- … and the unsupported-expression hook is invoked exactly when NO position qualifies. -/
theorem dispatch_unsupported_iff (hs : List String) (mro : List (Option String)) :
    dispatchExpr hs mro = .unsupported ↔
      ∀ (i : Nat) (m : String), mro[i]? = some (some m) → ¬ (m ∈ hs ∧ (i ≠ 0 → m ≠ "")) :=
  dispatchExpr_unsupported_iff hs mro

/-- **Never silent.**  Dispatch on an expression yields a handler the mapper really implements and
the class hierarchy really names, or the unsupported hook — there is no default result. -/
theorem dispatch_never_silent (hs : List String) (mro : List (Option String)) :
    (∃ m, dispatchExpr hs mro = .handler m ∧ m ∈ hs ∧ some m ∈ mro) ∨
      dispatchExpr hs mro = .unsupported :=
  dispatchExpr_cases hs mro

/-- `rec_fallback` is `Mapper.__call__` on the same MRO with the own class's name blanked out. -/
theorem dispatch_fallback_skips_own (hs : List String) (own : Option String)
    (rest : List (Option String)) :
    dispatchFallback hs (own :: rest) = dispatchExpr hs (none :: rest) := rfl

/-- **The copies of the dispatch logic agree**, unconditionally: `CachedMapper.__call__` (own
handler, else `rec_fallback`) picks what `Mapper.__call__` picks, for every handler set and MRO. -/
theorem dispatch_copies_agree (hs : List String) (mro : List (Option String)) :
    dispatchCached hs mro = dispatchExpr hs mro := by
  cases mro with
  | nil => rfl
  | cons own rest => cases own <;> rfl

/-- **Foreign objects**: numbers, arrays, lists and tuples go to their own handlers, anything else
is rejected (`ValueError`); a foreign object never reaches an expression handler nor the
unsupported hook. -/
theorem foreign_routing :
    dispatchForeign .number = .foreign "map_constant" ∧
    dispatchForeign .numpyArray = .foreign "map_numpy_array" ∧
    dispatchForeign .list = .foreign "map_list" ∧
    dispatchForeign .tuple = .foreign "map_tuple" ∧
    dispatchForeign .other = .invalidForeign ∧
    (∀ k, dispatchForeign k = .invalidForeign ↔ k = .other) ∧
    (∀ k m, dispatchForeign k ≠ .handler m) ∧ (∀ k, dispatchForeign k ≠ .unsupported) := by
  refine ⟨rfl, rfl, rfl, rfl, rfl, ?_, ?_, ?_⟩
  · intro k; cases k <;> simp [dispatchForeign]
  · intro k m; cases k <;> simp [dispatchForeign]
  · intro k; cases k <;> simp [dispatchForeign]

/-- own class unimplemented, first ancestor has no name, second is implemented -/
example : dispatchExpr ["map_sum", "map_foo"] [some "map_bar", none, some "map_foo", some "map_sum"]
    = .handler "map_foo" := by decide
example : firstImplemented ["map_sum", "map_foo"] [some "map_bar", none, some "map_foo", some "map_sum"]
    = some "map_foo" := by decide
/-- nothing implemented: the hook -/
example : dispatchExpr ["map_x"] [some "map_bar", some "map_foo"] = .unsupported := by decide
/-- an empty name counts for the own class, not for an ancestor (as coded) -/
example : dispatchExpr [""] [some ""] = .handler "" ∧ dispatchExpr [""] [none, some ""] = .unsupported := by
  decide
example : dispatchFallback ["map_bar", "map_foo"] [some "map_bar", some "map_foo"] = .handler "map_foo" := by
  decide
example : dispatchCached ["map_foo"] [some "map_bar", some "map_foo"] = .handler "map_foo" := by decide

/-! ## 2. Handler names -/

/-- **Decorated classes get the derived name** unless they set one themselves — whatever value is
inherited from the parent. -/
theorem decorated_default_name (n : String) (parent : Option String) :
    effectiveMethod n (.decorated none) parent = some ("map_" ++ camelToSnake n) := rfl

/-- a name set in the class body is kept, decorated or not -/
theorem own_name_kept (n m : String) (parent : Option String) :
    effectiveMethod n (.decorated (some m)) parent = some m ∧
    effectiveMethod n (.legacy (some m)) parent = some m := ⟨rfl, rfl⟩

/-- an undecorated class that sets nothing inherits the parent's name -/
theorem legacy_inherits (n : String) (parent : Option String) :
    effectiveMethod n (.legacy none) parent = parent := rfl

/-- the derived name only ever inserts underscores -/
theorem camelToSnake_length_ge (s : String) : s.length ≤ (camelToSnake s).length :=
  camelToSnake_length_le s

/-- a name that is already snake case (lower-case ASCII letters, digits, underscores) is unchanged -/
theorem camelToSnake_snake (s : String)
    (h : ∀ c ∈ s.toList, isLowerAscii c = true ∨ c = '_' ∨ c.isDigit = true) :
    camelToSnake s = s :=
  camelToSnake_of_snake s h

example : camelToSnake "CallWithKwargs" = "call_with_kwargs" := by decide
example : camelToSnake "HTTPServer" = "http_server" := by decide
example : camelToSnake "Sum" = "sum" ∧ camelToSnake "FloorDiv" = "floor_div" := by decide
example : camelToSnake "map_2d" = "map_2d" := camelToSnake_snake _ (by decide)
example : effectiveMethod "MyNode" (.decorated none) (some "map_sum") = some "map_my_node" := by decide
/-- base sets a name, a legacy subclass inherits it, a decorated sub-subclass gets its own -/
example : effectiveChain [("Base", .legacy (some "map_base")), ("Mid", .legacy none),
    ("LeafNode", .decorated none)] none = [some "map_leaf_node", some "map_base", some "map_base"] := by
  decide

/-! ## 3. The walk mapper -/

/-- **The coded walk is the specification** `walkSpec` (visit, the children's traces once each in
traversal order unless skipped, post-visit) whenever the walk reaches no string / `None` constant
outside slice parts (`walkOK`, decidable) … -/
theorem walk_eq_spec (skip : List String) (args : Bool) (e : Expr) (h : walkOK skip e = true) :
    walk skip args e = .ok (walkSpec skip args e) := by
  rw [walk_total, h]; rfl

/-- … and otherwise it raises (`map_foreign` rejects the object): exactly then. -/
theorem walk_foreign_iff (skip : List String) (args : Bool) (e : Expr) :
    walk skip args e = .error .foreign ↔ walkOK skip e = false := by
  rw [walk_total]; cases walkOK skip e <;> simp [okIf]

/-- in particular the walk succeeds on every tree free of string / `None` constants -/
theorem walk_eq_spec_clean (skip : List String) (args : Bool) (e : Expr)
    (h : ∀ t, Subterm t e → t.isRejectedConst = false) :
    walk skip args e = .ok (walkSpec skip args e) :=
  walk_eq_spec skip args e (walkOK_of_clean skip e h)

/-- the walk never returns a silently shortened trace -/
theorem walk_never_silent (skip : List String) (args : Bool) (e : Expr) :
    walk skip args e = .ok (walkSpec skip args e) ∨ walk skip args e = .error .foreign := by
  rw [walk_total]; cases walkOK skip e
  · exact .inr rfl
  · exact .inl rfl

theorem walk_ok_spec {skip : List String} {args : Bool} {e : Expr} {evs : List Event}
    (h : walk skip args e = .ok evs) : evs = walkSpec skip args e ∧ walkOK skip e = true := by
  rw [walk_total] at h
  cases hk : walkOK skip e <;> simp [okIf, hk] at h
  exact ⟨h.symm, rfl⟩

/-- the side condition, generically: the node is no string / `None`, and unless its children are
skipped every child the walk descends into satisfies it -/
theorem walkOK_step (skip : List String) (e : Expr) :
    walkOK skip e = (!e.isRejectedConst &&
      ((!e.isLeafNode && skip.contains e.kind) || (walkChildren e).all (walkOK skip))) :=
  walkOK_eq skip e

/-- **Once per node occurrence.**  With a `visit` that never returns `False`: the visited nodes are
the node occurrences in pre-order (a node before its children), the post-visited nodes are the same
occurrences in post-order (a node after its children); each list has `walkCount e` entries. -/
theorem walk_visits_once (args : Bool) (e : Expr) (evs : List Event)
    (h : walk [] args e = .ok evs) :
    (evs.filter (fun ev => !ev.post)).map (·.node) = preorder e ∧
    (evs.filter (fun ev => ev.post)).map (·.node) = postorder e ∧
    (evs.filter (fun ev => !ev.post)).length = walkCount e ∧
    (evs.filter (fun ev => ev.post)).length = walkCount e := by
  obtain ⟨rfl, -⟩ := walk_ok_spec h
  have h1 := walkSpec_visit_nodes args e
  have h2 := walkSpec_post_nodes args e
  refine ⟨h1, h2, ?_, ?_⟩
  · rw [← preorder_length, ← h1, List.length_map]
  · rw [← postorder_length, ← h2, List.length_map]

/-- the occurrences reached are ALL nodes of the tree (`Expr.size`), unless a slice has `None`
parts (which are not nodes to visit) -/
theorem walkCount_all_nodes (e : Expr) (h : NoNoneParts e) : walkCount e = e.size :=
  walkCount_eq_size e h

/-- **Extra arguments pass through unchanged**: every `visit` / `post_visit` call of the traversal
receives exactly the extra arguments of the top-level call. -/
theorem walk_args_unchanged (skip : List String) (args : Bool) (e : Expr) (evs : List Event)
    (h : walk skip args e = .ok evs) : ∀ ev ∈ evs, ev.args = args := by
  obtain ⟨rfl, -⟩ := walk_ok_spec h
  exact walkSpec_args skip args e

/-- **Visit before the children, post-visit after them.**  A successful walk starts with the
`visit` of the root; if the root is not skipped the rest is the concatenation of the walks of its
children (`mapM`: each child exactly once, in traversal order, each a successful walk of that
child with the same arguments) followed by the root's `post_visit`. -/
theorem walk_pre_post (skip : List String) (args : Bool) (e : Expr) (evs : List Event)
    (h : walk skip args e = .ok evs) :
    evs.head? = some ⟨false, e, args⟩ ∧
    ((e.isLeafNode = true ∨ skip.contains e.kind = false) →
      ∃ traces : List (List Event),
        (walkChildren e).mapM (walk skip args) = .ok traces ∧
        evs = ⟨false, e, args⟩ :: (traces.flatten ++ [⟨true, e, args⟩])) := by
  obtain ⟨rfl, hok⟩ := walk_ok_spec h
  cases hl : e.isLeafNode with
  | true =>
    rw [walkSpec_leaf _ _ hl]
    refine ⟨rfl, fun _ => ⟨[], ?_, rfl⟩⟩
    rw [walkChildren_leaf hl]; rfl
  | false =>
    rw [walkSpec_node _ _ hl]
    cases hs : skip.contains e.kind with
    | true => simp
    | false =>
      refine ⟨by simp, fun _ => ⟨(walkChildren e).map (walkSpec skip args), ?_, ?_⟩⟩
      · rw [walkOK_eq, hl, hs] at hok
        simp only [Bool.not_false, Bool.and_false, Bool.false_or, Bool.and_eq_true,
          List.all_eq_true] at hok
        exact mapM_ok_of_mem _ _ (fun c hc => walk_eq_spec skip args c (hok.2 c hc))
      · simp [List.flatMap_def]

/-- **`visit` returning `False` skips the children** (and the post-visit): the trace of a skipped
inner node is its `visit` alone — whatever is below it. -/
theorem walk_skip (skip : List String) (args : Bool) (e : Expr) (hl : e.isLeafNode = false)
    (hs : skip.contains e.kind = true) : walk skip args e = .ok [⟨false, e, args⟩] := by
  have hr : e.isRejectedConst = false := by
    cases e <;> simp_all [Expr.isLeafNode, Expr.isRejectedConst]
  have hok : walkOK skip e = true := by rw [walkOK_eq, hr, hl, hs]; rfl
  rw [walk_eq_spec skip args e hok, walkSpec_node _ _ hl, if_pos hs]

section examples
/-- `x << (y + 1)` with extra arguments: the shift count `y + 1` is walked before `x` -/
def shiftE : Expr := .bin .lshift (.var "x") (.nary .sum [.var "y", .const (.int 1)])

example : walkOK [] shiftE = true := by decide
example : walk [] true shiftE = .ok
    [⟨false, shiftE, true⟩,
      ⟨false, .nary .sum [.var "y", .const (.int 1)], true⟩,
        ⟨false, .var "y", true⟩, ⟨true, .var "y", true⟩,
        ⟨false, .const (.int 1), true⟩, ⟨true, .const (.int 1), true⟩,
      ⟨true, .nary .sum [.var "y", .const (.int 1)], true⟩,
      ⟨false, .var "x", true⟩, ⟨true, .var "x", true⟩,
     ⟨true, shiftE, true⟩] := by
  simp [shiftE, walk, wrapWalk, leafWalk, walkL, bind, Except.bind, pure, Except.pure]
example : walkChildren shiftE = [.nary .sum [.var "y", .const (.int 1)], .var "x"] := by
  simp [shiftE, walkChildren, BinOp.isShift]
example : preorder shiftE =
    [shiftE, .nary .sum [.var "y", .const (.int 1)], .var "y", .const (.int 1), .var "x"] := by
  simp [shiftE, preorder_eq, walkChildren, BinOp.isShift, Expr.children]
example : postorder shiftE =
    [.var "y", .const (.int 1), .nary .sum [.var "y", .const (.int 1)], .var "x", shiftE] := by
  simp [shiftE, postorder_eq, walkChildren, BinOp.isShift, Expr.children]
example : walkCount shiftE = 5 ∧ shiftE.size = 5 :=
  ⟨by simp [shiftE, walkCount_eq, walkChildren, BinOp.isShift, Expr.children], by decide⟩
example : walkCount shiftE = shiftE.size :=
  walkCount_all_nodes _ (noNoneParts_of_check (by decide))
/-- a `None` slice part is not a node occurrence -/
example : walkCount (.slice [.const .none]) = 1 ∧ (Expr.slice [.const .none]).size = 2 :=
  ⟨by simp [walkCount_eq, walkChildren, Expr.isNoneConst], by decide⟩
/-- skipping sums: the children `y`, `1` are not visited, the sum gets no post-visit -/
example : walk ["Sum"] false (.nary .sum [.var "y", .const (.str "oops")]) =
    .ok [⟨false, .nary .sum [.var "y", .const (.str "oops")], false⟩] :=
  walk_skip _ _ _ rfl (by decide)
/-- a slice with a `None` part: the part is not visited; elsewhere `None` is rejected -/
example : walkOK [] (.slice [.var "a", .const .none]) = true ∧
    walkOK [] (.nary .sum [.var "a", .const .none]) = false := by decide
example : walk [] false (.nary .sum [.var "a", .const .none]) = .error .foreign :=
  (walk_foreign_iff _ _ _).2 (by decide)
example : walkChildren (.slice [.var "a", .const .none, .var "b"]) = [.var "a", .var "b"] := by
  simp [walkChildren, Expr.isNoneConst]
end examples

/-! ## 4. The combine mapper -/

/-- **Every child is folded in.**  When the combine mapper returns, its result is the list of ALL
leaf occurrences of the tree (constants, variables, wildcards, function symbols), in field order
through every child — nothing is dropped. -/
theorem combineL_eq_leaves (e : Expr) (xs : List Expr) (h : combineL e = .ok xs) :
    xs = leavesOf e := by
  have := combineL_total e
  cases hb : combineBad e <;> simp [CombineOutcome, hb, h] at this
  exact this

/-- **Reported by raising, never silently skipped**: the combine mapper raises exactly when the
tree contains a node type it has no handler for (slice, substitution, derivative, NaN) or a
string / `None` constant. -/
theorem combineL_unsupported_iff (e : Expr) :
    (∃ err, combineL e = .error err) ↔ ∃ t, Subterm t e ∧ t.combineUnhandled = true := by
  rw [← combineBad_iff]
  have := combineL_total e
  cases hb : combineBad e <;> simp only [CombineOutcome, hb, if_true, Bool.false_eq_true,
    if_false] at this
  · simp [this]
  · obtain ⟨err, he, -⟩ := this
    simp [he]

/-- the two outcomes: the full fold, or an unsupported-expression / foreign-object error -/
theorem combineL_never_silent (e : Expr) :
    combineL e = .ok (leavesOf e) ∨
      ∃ err, combineL e = .error err ∧ (err = .unsupported ∨ err = .foreign) := by
  have := combineL_total e
  cases hb : combineBad e <;> simp only [CombineOutcome, hb, if_true, Bool.false_eq_true,
    if_false] at this
  · exact .inl this
  · exact .inr this

/-- **One step of the fold**: the result at an inner node is the concatenation of the results of
ALL its children (`mapM`: each child once, in field order, each a successful fold of that child). -/
theorem combineL_folds_children (e : Expr) (xs : List Expr) (h : combineL e = .ok xs)
    (hl : e.isCombineLeaf = false) :
    ∃ parts : List (List Expr),
      e.children.mapM combineL = .ok parts ∧ xs = parts.flatten := by
  have hb : combineBad e = false := by
    have := combineL_total e
    cases hb : combineBad e <;> simp [CombineOutcome, hb, h] at this
    rfl
  have hx := combineL_eq_leaves e xs h
  rw [leavesOf_eq, hl] at hx
  refine ⟨e.children.map leavesOf, mapM_ok_of_mem _ _ (fun c hc => ?_), by simp [hx, List.flatMap_def]⟩
  rw [combineBad_eq, Bool.or_eq_false_iff, List.any_eq_false] at hb
  have hc' : combineBad c = false := by simpa using hb.2 c hc
  have := combineL_total c
  simpa [CombineOutcome, hc'] using this

section examples
def combE : Expr :=
  .ite (.cmp .lt (.var "x") (.const (.int 0))) (.call .funcSym [.var "y", .wildcard])
    (.callKw (.var "f") [.var "a"] ["k"] [.cse (.var "b") none "s"])

example : combineL combE =
    .ok [.var "x", .const (.int 0), .funcSym, .var "y", .wildcard, .var "f", .var "a", .var "b"] := by
  simp [combE, combineL, combineLL, bind, Except.bind, pure, Except.pure]
example : combineL (.nary .sum [.var "x", .deriv (.var "y") ["y"]]) = .error .unsupported := by
  simp [combineL, combineLL, bind, Except.bind, pure, Except.pure]; rfl
example : ∃ t, Subterm t (.nary .sum [.var "x", .nan]) ∧ t.combineUnhandled = true :=
  ⟨.nan, .child (by simp [Expr.children]), rfl⟩
end examples

/-! ## 5. The identity mapper -/

/-- **Equal tree.**  The identity mapper returns a tree equal to its input — provided no
`CommonSubexpression` wrapper has a zero child (see `identity_equal_cex`). -/
theorem identity_equal_partial (e : Expr) (h : NoZeroCseChild e) : (substM {} e).1 = e := by
  rw [(substM_spec {} e).1]; exact substE_empty e h

/-- **Same object.**  If moreover the tree contains no Python list (`map_list` always builds a new
list), the identity mapper returns the very same object. -/
theorem identity_same_object_partial (e : Expr) (hl : ∀ cs, ¬ Subterm (.list cs) e)
    (hz : NoZeroCseChild e) : substM {} e = (e, false) :=
  C08.subst_untouched_same {} e ⟨fun t _ => SubstMap.empty_apply t, hl, hz⟩

/-- whenever the mapper claims "same object" the tree is the same (no hypothesis) -/
theorem identity_flag_sound (e : Expr) (h : (substM {} e).2 = false) : (substM {} e).1 = e :=
  C08.subst_flag_sound {} e h

/-- `IdentityMapper()(CommonSubexpression(0))` is the constant `0`: not an equal tree. -/
theorem identity_equal_cex :
    substM {} (.cse (.const (.int 0)) none "s") = (.const (.int 0), true) ∧
    (substM {} (.cse (.const (.int 0)) none "s")).1 ≠ .cse (.const (.int 0)) none "s" := by
  constructor
  · rfl
  · intro h; cases h

/-- a list below the root: an equal tree, but reported as a new object although nothing changed -/
theorem identity_same_object_cex :
    substM {} (.call (.var "f") [.list [.var "x"]]) = (.call (.var "f") [.list [.var "x"]], true) := by
  rfl

example : substM {} combE = (combE, false) :=
  identity_same_object_partial _ (noList_of_check (by decide)) (noZeroCseChild_of_check (by decide))
example : (substM {} (.list [combE, .cse (.const (.int 1)) none "s"])).1 =
    .list [combE, .cse (.const (.int 1)) none "s"] :=
  identity_equal_partial _ (noZeroCseChild_of_check (by decide))

end PV.C04
