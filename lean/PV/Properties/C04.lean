import PV.Model.Traverse
import PV.Model.Dispatch
import PV.Proofs.Subterm
import PV.Proofs.WalkDispatch
import PV.Proofs.WalkSpec
import PV.Proofs.WalkFacts
import PV.Proofs.WalkCombine
import PV.Proofs.WalkIdentity
import PV.Properties.C08
import PV.Proofs.WalkTable
import PV.Proofs.WalkCallback
import PV.Generated.Traversal
import PV.Proofs.DispatchTable
import PV.Generated.Dispatch
import PV.Proofs.ForeignTable
/-
  C04 — mapper dispatch (`Mapper.__call__`, `rec_fallback`, `CachedMapper.__call__`, `map_foreign`),
  handler names of expression dataclasses, and the contracts of the stock traversals
  (`WalkMapper` = `walk`, `CombineMapper` = `combineL`, `IdentityMapper` = `substM {}`).
-/
namespace PV.C04
open PV

/-! ## 1. Dispatch -/

/-- **Nearest handler.**  `Mapper.__call__` returns the handler picked by the specification
`firstImplemented`: the own class's handler name if the mapper implements it, else the first
ancestor entry (MRO order) whose non-empty name the mapper implements, else the
unsupported-expression hook. -/
theorem dispatch_nearest (hs : List String) (mro : List (Option String)) :
    dispatchExpr hs mro =
      match firstImplemented hs mro with
      | some m => .handler m
      | none => .unsupported := by
  rw [dispatchExpr_first]; cases firstImplemented hs mro <;> rfl

/-- the specification, spelled out with `List.find?`: own entry first, then the first ancestor -/
theorem firstImplemented_cons (hs : List String) (own : Option String)
    (rest : List (Option String)) :
    firstImplemented hs (own :: rest) =
      if mroImplements hs true own then own
      else (rest.find? (mroImplements hs false)).join := rfl

/-- **Nearest handler, index form.**  The result is `handler m` exactly when `m` is the entry at
the FIRST position `i` of the MRO (position 0 = own class) whose name the mapper implements
(ancestor names must be non-empty): no earlier position qualifies. -/
theorem dispatch_handler_iff (hs : List String) (mro : List (Option String)) (m : String) :
    dispatchExpr hs mro = .handler m ↔
      ∃ i : Nat, mro[i]? = some (some m) ∧ m ∈ hs ∧ (i ≠ 0 → m ≠ "") ∧
        ∀ j : Nat, j < i → ∀ m', mro[j]? = some (some m') → ¬ (m' ∈ hs ∧ (j ≠ 0 → m' ≠ "")) :=
  dispatchExpr_handler_iff hs mro m

/-- … and the unsupported-expression hook is invoked exactly when NO position qualifies. -/
theorem dispatch_unsupported_iff (hs : List String) (mro : List (Option String)) :
    dispatchExpr hs mro = .unsupported ↔
      ∀ (i : Nat) (m : String), mro[i]? = some (some m) → ¬ (m ∈ hs ∧ (i ≠ 0 → m ≠ "")) :=
  dispatchExpr_unsupported_iff hs mro

/-- **Never silent.**  Dispatch on an expression yields a handler the mapper really implements and
the class hierarchy really names, or the unsupported hook — there is no default result. -/
theorem dispatch_never_silent (hs : List String) (mro : List (Option String)) :
    (∃ m, dispatchExpr hs mro = .handler m ∧ m ∈ hs ∧ some m ∈ mro) ∨
      dispatchExpr hs mro = .unsupported :=
  dispatchExpr_cases hs mro

/-- `rec_fallback` is `Mapper.__call__` on the same MRO with the own class's name blanked out. -/
theorem dispatch_fallback_skips_own (hs : List String) (own : Option String)
    (rest : List (Option String)) :
    dispatchFallback hs (own :: rest) = dispatchExpr hs (none :: rest) := rfl

/-- **The copies of the dispatch logic agree**, unconditionally: `CachedMapper.__call__` (own
handler, else `rec_fallback`) picks what `Mapper.__call__` picks, for every handler set and MRO. -/
theorem dispatch_copies_agree (hs : List String) (mro : List (Option String)) :
    dispatchCached hs mro = dispatchExpr hs mro := by
  cases mro with
  | nil => rfl
  | cons own rest => cases own <;> rfl

/-- **Foreign objects**: numbers, arrays, lists and tuples go to their own handlers, anything else
is rejected (`ValueError`); a foreign object never reaches an expression handler nor the
unsupported hook. -/
theorem foreign_routing :
    dispatchForeign .number = .foreign "map_constant" ∧
    dispatchForeign .numpyArray = .foreign "map_numpy_array" ∧
    dispatchForeign .list = .foreign "map_list" ∧
    dispatchForeign .tuple = .foreign "map_tuple" ∧
    dispatchForeign .other = .invalidForeign ∧
    (∀ k, dispatchForeign k = .invalidForeign ↔ k = .other) ∧
    (∀ k m, dispatchForeign k ≠ .handler m) ∧ (∀ k, dispatchForeign k ≠ .unsupported) := by
  refine ⟨rfl, rfl, rfl, rfl, rfl, ?_, ?_, ?_⟩
  · intro k; cases k <;> simp [dispatchForeign]
  · intro k m; cases k <;> simp [dispatchForeign]
  · intro k; cases k <;> simp [dispatchForeign]

/-- own class unimplemented, first ancestor has no name, second is implemented -/
example : dispatchExpr ["map_sum", "map_foo"] [some "map_bar", none, some "map_foo", some "map_sum"]
    = .handler "map_foo" := by decide
example : firstImplemented ["map_sum", "map_foo"] [some "map_bar", none, some "map_foo", some "map_sum"]
    = some "map_foo" := by decide
/-- nothing implemented: the hook -/
example : dispatchExpr ["map_x"] [some "map_bar", some "map_foo"] = .unsupported := by decide
/-- an empty name counts for the own class, not for an ancestor (as coded) -/
example : dispatchExpr [""] [some ""] = .handler "" ∧ dispatchExpr [""] [none, some ""] = .unsupported := by
  decide
example : dispatchFallback ["map_bar", "map_foo"] [some "map_bar", some "map_foo"] = .handler "map_foo" := by
  decide
example : dispatchCached ["map_foo"] [some "map_bar", some "map_foo"] = .handler "map_foo" := by decide

/-! ## 2. Handler names -/

/-- **Decorated classes get the derived name** unless they set one themselves — whatever value is
inherited from the parent. -/
theorem decorated_default_name (n : String) (parent : Option String) :
    effectiveMethod n (.decorated none) parent = some ("map_" ++ camelToSnake n) := rfl

/-- a name set in the class body is kept, decorated or not -/
theorem own_name_kept (n m : String) (parent : Option String) :
    effectiveMethod n (.decorated (some m)) parent = some m ∧
    effectiveMethod n (.legacy (some m)) parent = some m := ⟨rfl, rfl⟩

/-- an undecorated class that sets nothing inherits the parent's name -/
theorem legacy_inherits (n : String) (parent : Option String) :
    effectiveMethod n (.legacy none) parent = parent := rfl

/-- the derived name only ever inserts underscores -/
theorem camelToSnake_length_ge (s : String) : s.length ≤ (camelToSnake s).length :=
  camelToSnake_length_le s

/-- a name that is already snake case (lower-case ASCII letters, digits, underscores) is unchanged -/
theorem camelToSnake_snake (s : String)
    (h : ∀ c ∈ s.toList, isLowerAscii c = true ∨ c = '_' ∨ c.isDigit = true) :
    camelToSnake s = s :=
  camelToSnake_of_snake s h

example : camelToSnake "CallWithKwargs" = "call_with_kwargs" := by decide
example : camelToSnake "HTTPServer" = "http_server" := by decide
example : camelToSnake "Sum" = "sum" ∧ camelToSnake "FloorDiv" = "floor_div" := by decide
example : camelToSnake "map_2d" = "map_2d" := camelToSnake_snake _ (by decide)
example : effectiveMethod "MyNode" (.decorated none) (some "map_sum") = some "map_my_node" := by decide
/-- base sets a name, a legacy subclass inherits it, a decorated sub-subclass gets its own -/
example : effectiveChain [("Base", .legacy (some "map_base")), ("Mid", .legacy none),
    ("LeafNode", .decorated none)] none = [some "map_leaf_node", some "map_base", some "map_base"] := by
  decide

/-! ## 3. The walk mapper -/

/-- **The coded walk is the specification** `walkSpec` (visit, the children's traces once each in
traversal order unless skipped, post-visit) whenever the walk reaches no string / `None` constant
outside slice parts (`walkOK`, decidable) … -/
theorem walk_eq_spec (skip : List String) (args : Bool) (e : Expr) (h : walkOK skip e = true) :
    walk skip args e = .ok (walkSpec skip args e) := by
  rw [walk_total, h]; rfl

/-- … and otherwise it raises (`map_foreign` rejects the object): exactly then. -/
theorem walk_foreign_iff (skip : List String) (args : Bool) (e : Expr) :
    walk skip args e = .error .foreign ↔ walkOK skip e = false := by
  rw [walk_total]; cases walkOK skip e <;> simp [okIf]

/-- in particular the walk succeeds on every tree free of string / `None` constants -/
theorem walk_eq_spec_clean (skip : List String) (args : Bool) (e : Expr)
    (h : ∀ t, Subterm t e → t.isRejectedConst = false) :
    walk skip args e = .ok (walkSpec skip args e) :=
  walk_eq_spec skip args e (walkOK_of_clean skip e h)

/-- the walk never returns a silently shortened trace -/
theorem walk_never_silent (skip : List String) (args : Bool) (e : Expr) :
    walk skip args e = .ok (walkSpec skip args e) ∨ walk skip args e = .error .foreign := by
  rw [walk_total]; cases walkOK skip e
  · exact .inr rfl
  · exact .inl rfl

theorem walk_ok_spec {skip : List String} {args : Bool} {e : Expr} {evs : List Event}
    (h : walk skip args e = .ok evs) : evs = walkSpec skip args e ∧ walkOK skip e = true := by
  rw [walk_total] at h
  cases hk : walkOK skip e <;> simp [okIf, hk] at h
  exact ⟨h.symm, rfl⟩

/-- the side condition, generically: the node is no string / `None`, and unless its children are
skipped every child the walk descends into satisfies it -/
theorem walkOK_step (skip : List String) (e : Expr) :
    walkOK skip e = (!e.isRejectedConst &&
      ((!e.isLeafNode && skip.contains e.kind) || (walkChildren e).all (walkOK skip))) :=
  walkOK_eq skip e

/-- **Once per node occurrence.**  With a `visit` that never returns `False`: the visited nodes are
the node occurrences in pre-order (a node before its children), the post-visited nodes are the same
occurrences in post-order (a node after its children); each list has `walkCount e` entries. -/
theorem walk_visits_once (args : Bool) (e : Expr) (evs : List Event)
    (h : walk [] args e = .ok evs) :
    (evs.filter (fun ev => !ev.post)).map (·.node) = preorder e ∧
    (evs.filter (fun ev => ev.post)).map (·.node) = postorder e ∧
    (evs.filter (fun ev => !ev.post)).length = walkCount e ∧
    (evs.filter (fun ev => ev.post)).length = walkCount e := by
  obtain ⟨rfl, -⟩ := walk_ok_spec h
  have h1 := walkSpec_visit_nodes args e
  have h2 := walkSpec_post_nodes args e
  refine ⟨h1, h2, ?_, ?_⟩
  · rw [← preorder_length, ← h1, List.length_map]
  · rw [← postorder_length, ← h2, List.length_map]

/-- the occurrences reached are ALL nodes of the tree (`Expr.size`), unless a slice has `None`
parts (which are not nodes to visit) -/
theorem walkCount_all_nodes (e : Expr) (h : NoNoneParts e) : walkCount e = e.size :=
  walkCount_eq_size e h

/-- **Extra arguments pass through unchanged**: every `visit` / `post_visit` call of the traversal
receives exactly the extra arguments of the top-level call. -/
theorem walk_args_unchanged (skip : List String) (args : Bool) (e : Expr) (evs : List Event)
    (h : walk skip args e = .ok evs) : ∀ ev ∈ evs, ev.args = args := by
  obtain ⟨rfl, -⟩ := walk_ok_spec h
  exact walkSpec_args skip args e

/-- **Visit before the children, post-visit after them.**  A successful walk starts with the
`visit` of the root; if the root is not skipped the rest is the concatenation of the walks of its
children (`mapM`: each child exactly once, in traversal order, each a successful walk of that
child with the same arguments) followed by the root's `post_visit`. -/
theorem walk_pre_post (skip : List String) (args : Bool) (e : Expr) (evs : List Event)
    (h : walk skip args e = .ok evs) :
    evs.head? = some ⟨false, e, args⟩ ∧
    ((e.isLeafNode = true ∨ skip.contains e.kind = false) →
      ∃ traces : List (List Event),
        (walkChildren e).mapM (walk skip args) = .ok traces ∧
        evs = ⟨false, e, args⟩ :: (traces.flatten ++ [⟨true, e, args⟩])) := by
  obtain ⟨rfl, hok⟩ := walk_ok_spec h
  cases hl : e.isLeafNode with
  | true =>
    rw [walkSpec_leaf _ _ hl]
    refine ⟨rfl, fun _ => ⟨[], ?_, rfl⟩⟩
    rw [walkChildren_leaf hl]; rfl
  | false =>
    rw [walkSpec_node _ _ hl]
    cases hs : skip.contains e.kind with
    | true => simp
    | false =>
      refine ⟨by simp, fun _ => ⟨(walkChildren e).map (walkSpec skip args), ?_, ?_⟩⟩
      · rw [walkOK_eq, hl, hs] at hok
        simp only [Bool.not_false, Bool.and_false, Bool.false_or, Bool.and_eq_true,
          List.all_eq_true] at hok
        exact mapM_ok_of_mem _ _ (fun c hc => walk_eq_spec skip args c (hok.2 c hc))
      · simp [List.flatMap_def]

/-- **`visit` returning `False` skips the children** (and the post-visit): the trace of a skipped
inner node is its `visit` alone — whatever is below it. -/
theorem walk_skip (skip : List String) (args : Bool) (e : Expr) (hl : e.isLeafNode = false)
    (hs : skip.contains e.kind = true) : walk skip args e = .ok [⟨false, e, args⟩] := by
  have hr : e.isRejectedConst = false := by
    cases e <;> simp_all [Expr.isLeafNode, Expr.isRejectedConst]
  have hok : walkOK skip e = true := by rw [walkOK_eq, hr, hl, hs]; rfl
  rw [walk_eq_spec skip args e hok, walkSpec_node _ _ hl, if_pos hs]

section examples
/-- `x << (y + 1)` with extra arguments: the shift count `y + 1` is walked before `x` -/
def shiftE : Expr := .bin .lshift (.var "x") (.nary .sum [.var "y", .const (.int 1)])

example : walkOK [] shiftE = true := by decide
example : walk [] true shiftE = .ok
    [⟨false, shiftE, true⟩,
      ⟨false, .nary .sum [.var "y", .const (.int 1)], true⟩,
        ⟨false, .var "y", true⟩, ⟨true, .var "y", true⟩,
        ⟨false, .const (.int 1), true⟩, ⟨true, .const (.int 1), true⟩,
      ⟨true, .nary .sum [.var "y", .const (.int 1)], true⟩,
      ⟨false, .var "x", true⟩, ⟨true, .var "x", true⟩,
     ⟨true, shiftE, true⟩] := by
  simp [shiftE, walk, wrapWalk, leafWalk, walkL, bind, Except.bind, pure, Except.pure]
example : walkChildren shiftE = [.nary .sum [.var "y", .const (.int 1)], .var "x"] := by
  simp [shiftE, walkChildren, BinOp.isShift]
example : preorder shiftE =
    [shiftE, .nary .sum [.var "y", .const (.int 1)], .var "y", .const (.int 1), .var "x"] := by
  simp [shiftE, preorder_eq, walkChildren, BinOp.isShift, Expr.children]
example : postorder shiftE =
    [.var "y", .const (.int 1), .nary .sum [.var "y", .const (.int 1)], .var "x", shiftE] := by
  simp [shiftE, postorder_eq, walkChildren, BinOp.isShift, Expr.children]
example : walkCount shiftE = 5 ∧ shiftE.size = 5 :=
  ⟨by simp [shiftE, walkCount_eq, walkChildren, BinOp.isShift, Expr.children], by decide⟩
example : walkCount shiftE = shiftE.size :=
  walkCount_all_nodes _ (noNoneParts_of_check (by decide))
/-- a `None` slice part is not a node occurrence -/
example : walkCount (.slice [.const .none]) = 1 ∧ (Expr.slice [.const .none]).size = 2 :=
  ⟨by simp [walkCount_eq, walkChildren, Expr.isNoneConst], by decide⟩
/-- skipping sums: the children `y`, `1` are not visited, the sum gets no post-visit -/
example : walk ["Sum"] false (.nary .sum [.var "y", .const (.str "oops")]) =
    .ok [⟨false, .nary .sum [.var "y", .const (.str "oops")], false⟩] :=
  walk_skip _ _ _ rfl (by decide)
/-- a slice with a `None` part: the part is not visited; elsewhere `None` is rejected -/
example : walkOK [] (.slice [.var "a", .const .none]) = true ∧
    walkOK [] (.nary .sum [.var "a", .const .none]) = false := by decide
example : walk [] false (.nary .sum [.var "a", .const .none]) = .error .foreign :=
  (walk_foreign_iff _ _ _).2 (by decide)
example : walkChildren (.slice [.var "a", .const .none, .var "b"]) = [.var "a", .var "b"] := by
  simp [walkChildren, Expr.isNoneConst]
end examples

/-! ## 4. The combine mapper -/

/-- **Every child is folded in.**  When the combine mapper returns, its result is the list of ALL
leaf occurrences of the tree (constants, variables, wildcards, function symbols), in field order
through every child — nothing is dropped. -/
theorem combineL_eq_leaves (e : Expr) (xs : List Expr) (h : combineL e = .ok xs) :
    xs = leavesOf e := by
  have := combineL_total e
  cases hb : combineBad e <;> simp [CombineOutcome, hb, h] at this
  exact this

/-- **Reported by raising, never silently skipped**: the combine mapper raises exactly when the
tree contains a node type it has no handler for (slice, substitution, derivative, NaN) or a
string / `None` constant. -/
theorem combineL_unsupported_iff (e : Expr) :
    (∃ err, combineL e = .error err) ↔ ∃ t, Subterm t e ∧ t.combineUnhandled = true := by
  rw [← combineBad_iff]
  have := combineL_total e
  cases hb : combineBad e <;> simp only [CombineOutcome, hb, if_true, Bool.false_eq_true,
    if_false] at this
  · simp [this]
  · obtain ⟨err, he, -⟩ := this
    simp [he]

/-- the two outcomes: the full fold, or an unsupported-expression / foreign-object error -/
theorem combineL_never_silent (e : Expr) :
    combineL e = .ok (leavesOf e) ∨
      ∃ err, combineL e = .error err ∧ (err = .unsupported ∨ err = .foreign) := by
  have := combineL_total e
  cases hb : combineBad e <;> simp only [CombineOutcome, hb, if_true, Bool.false_eq_true,
    if_false] at this
  · exact .inl this
  · exact .inr this

/-- **One step of the fold**: the result at an inner node is the concatenation of the results of
ALL its children (`mapM`: each child once, in field order, each a successful fold of that child). -/
theorem combineL_folds_children (e : Expr) (xs : List Expr) (h : combineL e = .ok xs)
    (hl : e.isCombineLeaf = false) :
    ∃ parts : List (List Expr),
      e.children.mapM combineL = .ok parts ∧ xs = parts.flatten := by
  have hb : combineBad e = false := by
    have := combineL_total e
    cases hb : combineBad e <;> simp [CombineOutcome, hb, h] at this
    rfl
  have hx := combineL_eq_leaves e xs h
  rw [leavesOf_eq, hl] at hx
  refine ⟨e.children.map leavesOf, mapM_ok_of_mem _ _ (fun c hc => ?_), by simp [hx, List.flatMap_def]⟩
  rw [combineBad_eq, Bool.or_eq_false_iff, List.any_eq_false] at hb
  have hc' : combineBad c = false := by simpa using hb.2 c hc
  have := combineL_total c
  simpa [CombineOutcome, hc'] using this

section examples
def combE : Expr :=
  .ite (.cmp .lt (.var "x") (.const (.int 0))) (.call .funcSym [.var "y", .wildcard])
    (.callKw (.var "f") [.var "a"] ["k"] [.cse (.var "b") none "s"])

example : combineL combE =
    .ok [.var "x", .const (.int 0), .funcSym, .var "y", .wildcard, .var "f", .var "a", .var "b"] := by
  simp [combE, combineL, combineLL, bind, Except.bind, pure, Except.pure]
example : combineL (.nary .sum [.var "x", .deriv (.var "y") ["y"]]) = .error .unsupported := by
  simp [combineL, combineLL, bind, Except.bind, pure, Except.pure]; rfl
example : ∃ t, Subterm t (.nary .sum [.var "x", .nan]) ∧ t.combineUnhandled = true :=
  ⟨.nan, .child (by simp [Expr.children]), rfl⟩
end examples

/-! ## 5. The identity mapper -/

/-- **Equal tree.**  The identity mapper returns a tree equal to its input — provided no
`CommonSubexpression` wrapper has a zero child (see `identity_equal_cex`). -/
theorem identity_equal_partial (e : Expr) (h : NoZeroCseChild e) : (substM {} e).1 = e := by
  rw [(substM_spec {} e).1]; exact substE_empty e h

/-- **Same object.**  If moreover the tree contains no Python list (`map_list` always builds a new
list), the identity mapper returns the very same object. -/
theorem identity_same_object_partial (e : Expr) (hl : ∀ cs, ¬ Subterm (.list cs) e)
    (hz : NoZeroCseChild e) : substM {} e = (e, false) :=
  C08.subst_untouched_same {} e ⟨fun t _ => SubstMap.empty_apply t, hl, hz⟩

/-- whenever the mapper claims "same object" the tree is the same (no hypothesis) -/
theorem identity_flag_sound (e : Expr) (h : (substM {} e).2 = false) : (substM {} e).1 = e :=
  C08.subst_flag_sound {} e h

/-- `IdentityMapper()(CommonSubexpression(0))` is the constant `0`: not an equal tree. -/
theorem identity_equal_cex :
    substM {} (.cse (.const (.int 0)) none "s") = (.const (.int 0), true) ∧
    (substM {} (.cse (.const (.int 0)) none "s")).1 ≠ .cse (.const (.int 0)) none "s" := by
  constructor
  · rfl
  · intro h; cases h

/-- a list below the root: an equal tree, but reported as a new object although nothing changed -/
theorem identity_same_object_cex :
    substM {} (.call (.var "f") [.list [.var "x"]]) = (.call (.var "f") [.list [.var "x"]], true) := by
  rfl

example : substM {} combE = (combE, false) :=
  identity_same_object_partial _ (noList_of_check (by decide)) (noZeroCseChild_of_check (by decide))
example : (substM {} (.list [combE, .cse (.const (.int 1)) none "s"])).1 =
    .list [combE, .cse (.const (.int 1)) none "s"] :=
  identity_equal_partial _ (noZeroCseChild_of_check (by decide))

/-! ## 6. The handlers of the CURRENT source (T-gen)

`Generated.c04WalkTable`, `c04IdentityTable`, `c04CombineTable`, `c04Classes`, … are regenerated
by extract/traversal.py from the live source of pymbolic/mapper/__init__.py on every check.  The
theorems below tie the hand-written models (`walk`, `walkChildren`, `combineL`, `Expr.children`,
`substM`) to those tables for ALL expressions; an edit of the source that reorders, drops or adds
a child, drops a `visit` / `post_visit`, stops forwarding the extra arguments or permutes
constructor arguments changes the table and breaks them. -/

open Generated

/-- **Walk handler shapes.**  For every node the `WalkMapper` handler the current source
dispatches it to (class MRO against the handler names, `Mapper` stubs and aliases followed) has
exactly the shape `walk` was written from: same bracket, same recursion sites in the same order,
extra arguments forwarded everywhere. -/
theorem walk_resolve_current (e : Expr) :
    c04Resolve c04Classes c04WalkTable e = c04WalkBody e := by
  cases e with
  | const k => cases k <;> rfl
  | nary o cs => cases o <;> rfl
  | bin o a b => cases o <;> rfl
  | un o a => cases o <;> rfl
  | _ => rfl

/-- **Combine handler shapes** of the current source, for a subclass that makes the leaves
`Collector` makes (`c04CollectorLeaves`) leaves; node kinds without a handler (slice,
substitution, derivative: unsupported; NaN: the `Mapper` stub raises) included. -/
theorem combine_resolve_current (e : Expr) :
    c04Resolve c04Classes (c04WithLeaves c04CollectorLeaves c04CombineTable) e =
      c04CombineBody e := by
  cases e with
  | const k => cases k <;> rfl
  | nary o cs => cases o <;> rfl
  | bin o a b => cases o <;> rfl
  | un o a => cases o <;> rfl
  | _ => rfl

/-- **Identity handler shapes** of the current source: recursion sites in evaluation order, the
fields the "same object" test compares, the zero-collapse quirk of `map_common_subexpression`,
constructor arguments in source order. -/
theorem identity_resolve_current (e : Expr) :
    c04Resolve c04Classes c04IdentityTable e = c04IdentBody e := by
  cases e with
  | const k => cases k <;> rfl
  | nary o cs => cases o <;> rfl
  | bin o a b => cases o <;> rfl
  | un o a => cases o <;> rfl
  | _ => rfl

/-- **Field names.**  The field names (and their order) the model reads a node under are the
dataclass fields of the node's class in the current pymbolic/primitives.py, and the model treats
a field as one expression / a tuple of expressions / a mapping to expressions / plain data exactly
as its declared type says. -/
theorem fields_current (e : Expr) (h : e.c04IsNode = true) :
    (c04FindClass c04Classes e.kind).map (fun c => (c.fields, c.kinds)) =
      some (e.c04Fields.map (·.1), e.c04Fields.map (·.2.kindName)) := by
  cases e with
  | const k => simp [Expr.c04IsNode] at h
  | tuple cs => simp [Expr.c04IsNode] at h
  | list cs => simp [Expr.c04IsNode] at h
  | nary o cs => cases o <;> rfl
  | bin o a b => cases o <;> rfl
  | un o a => cases o <;> rfl
  | _ => rfl

/-- `Expr.children` = the expression content of the dataclass fields, in field order -/
theorem children_eq_fields (e : Expr) :
    e.children = e.c04Fields.flatMap (fun p => p.2.exprs) :=
  Expr.children_eq_c04Fields e

/-- **`walkChildren` is what the current `WalkMapper` source recurses into**, in that order, for
every node the mapper accepts. -/
theorem walkChildren_eq_table_current (e : Expr) (h : e.isRejectedConst = false) :
    c04TableChildren c04Classes c04WalkTable e = some (walkChildren e) := by
  have hb := walkChildren_eq_recs e
  rw [c04TableChildren, walk_resolve_current]
  cases e with
  | const k => cases k <;> simp_all [Expr.isRejectedConst, c04WalkBody, c04BodyRecs]
  | bin o a b => cases o <;> simpa [c04WalkBody, c04BodyRecs] using hb
  | _ => simpa [c04WalkBody, c04BodyRecs] using hb

/-- **`walk` is the table-driven walk of the current source**: on every node, one handler call as
the regenerated `WalkMapper` table describes it (`c04WalkStep`), recursing through `walk`. -/
theorem walk_table_step_current (skip : List String) (args : Bool) (e : Expr) :
    walk skip args e = c04WalkStep c04Classes c04WalkTable (walk skip) skip args e := by
  rw [c04WalkStep, walk_resolve_current]; exact walk_eq_stepB skip args e

/-- … and the only such function: anything that makes one table-driven handler call per node and
recurses through itself IS `walk` (so `walk_eq_spec`, `walk_visits_once`, `walk_args_unchanged`, …
are theorems about what the current source says). -/
theorem walk_unique_current (skip : List String)
    (f : Bool → Expr → Except DepErr (List Event))
    (hf : ∀ a e, f a e = c04WalkStep c04Classes c04WalkTable f skip a e) :
    ∀ args e, f args e = walk skip args e := by
  intro args e
  exact c04Walk_unique (fun e => c04Resolve c04Classes c04WalkTable e) skip f (walk skip) hf
    (fun a e => walk_table_step_current skip a e) e args

/-- **Every `WalkMapper` handler of the current source** — those of node kinds outside the model
(numpy arrays, multivectors, polynomials, `map_if_positive`) included — calls `visit` first and
`post_visit` last with the extra arguments, forwards them to every recursive call, and only
childless handlers ignore the answer of `visit`. -/
theorem walkTable_rows_ok_current : c04WalkTable.all (fun h => c04WalkRowOk h.body) = true := by
  decide

/-- **Every expression-bearing field once — all node classes.**  For every node class of the
current primitives (whether the model has a constructor for it or not) the `WalkMapper` handler of
the class recurses into exactly the fields declared to hold expressions, each once, enumerating
each as its declared type demands; likewise the `CombineMapper` and `IdentityMapper` handlers. -/
theorem fields_once_current :
    c04FieldsOnceOk c04Classes c04WalkTable = true ∧
    c04FieldsOnceOk c04Classes c04CombineTable = true ∧
    c04FieldsOnceOk c04Classes c04IdentityTable = true := by
  decide

/-- **`Expr.children` in field order is what the current `CombineMapper` source folds**, for every
node that has a handler. -/
theorem combineChildren_eq_table_current (e : Expr) (hl : e.isCombineLeaf = false)
    (hu : e.combineUnhandled = false) :
    c04TableChildren c04Classes (c04WithLeaves c04CollectorLeaves c04CombineTable) e =
      some e.children := by
  have hb := combineChildren_eq_recs e hl hu
  rw [c04TableChildren, combine_resolve_current]
  cases e with
  | const k => cases k <;> simp_all [Expr.isCombineLeaf]
  | bin o a b => cases o <;> simpa [c04CombineBody, c04BodyRecs] using hb
  | _ => simp_all [c04CombineBody, c04BodyRecs, Expr.isCombineLeaf, Expr.combineUnhandled]

/-- **`combineL` is the table-driven fold of the current source.** -/
theorem combineL_table_step_current (e : Expr) :
    combineL e = c04CombineStep c04Classes c04CombineTable c04CollectorLeaves combineL e := by
  rw [c04CombineStep, combine_resolve_current]; exact combineL_eq_stepB e

/-- … and the only one (so `combineL_eq_leaves`, `combineL_unsupported_iff`, … speak about the
current source). -/
theorem combineL_unique_current (f : Expr → Except DepErr (List Expr))
    (hf : ∀ e, f e = c04CombineStep c04Classes c04CombineTable c04CollectorLeaves f e) :
    ∀ e, f e = combineL e :=
  c04Combine_unique
    (fun e => c04Resolve c04Classes (c04WithLeaves c04CollectorLeaves c04CombineTable) e)
    f combineL hf combineL_table_step_current

/-- every `CombineMapper` handler of the current source forwards the extra arguments to every
recursive call -/
theorem combineTable_rows_ok_current : c04CombineTable.all (fun h => c04FoldRowOk h.body) = true := by
  decide

/-- **The children the current `IdentityMapper` source maps** are all direct children in field
order (for a slice: its non-`None` parts; `None` stays in place). -/
theorem identityChildren_eq_table_current (e : Expr) (h : e.isRejectedConst = false) :
    c04TableChildren c04Classes c04IdentityTable e =
      some (match e with
        | .slice cs => cs.filter (fun c => !c.c04IsNone)
        | e => e.children) := by
  have hb := identChildren_eq_recs e
  rw [c04TableChildren, identity_resolve_current]
  cases e with
  | const k =>
    cases k <;> first
      | (simp [Expr.isRejectedConst] at h; done)
      | simpa [c04IdentBody, c04BodyRecs] using hb
  | bin o a b => cases o <;> simpa [c04IdentBody, c04BodyRecs] using hb
  | _ => simpa [c04IdentBody, c04BodyRecs] using hb

/-- **`substM` is the table-driven rebuild of the current source** wherever the substitution
function does not answer: children mapped in the order of the source, the node itself returned iff
every field the source's test compares is unchanged, otherwise `type(expr)(…)` with the arguments
in the order of the source (zero-collapse quirk of `map_common_subexpression` included). -/
theorem substM_table_step_current (σ : SubstMap) (e : Expr) (hr : e.isRejectedConst = false)
    (hh : c04SubstHook σ e = none) :
    c04IdentStep c04Classes c04IdentityTable (substM σ) e = some (.ok (substM σ e)) := by
  rw [c04IdentStep, identity_resolve_current]; exact substM_eq_stepB σ e hr hh

/-- the plain identity mapper (`substM {}`): no hypothesis on the substitution function -/
theorem identity_table_step_current (e : Expr) (hr : e.isRejectedConst = false) :
    c04IdentStep c04Classes c04IdentityTable (substM {}) e = some (.ok (substM {} e)) :=
  substM_table_step_current {} e hr (by cases e <;> simp [c04SubstHook, SubstMap.empty_apply])

/-- … and on trees free of string / `None` constants `substM {}` is the only function that is,
on every node, one table-driven `IdentityMapper` handler call of the current source recursing
through itself (so `identity_equal_partial`, `identity_same_object_partial`, `identity_flag_sound`
speak about the current source). -/
theorem identity_unique_current (f : Expr → Expr × Bool)
    (hf : ∀ e, e.isRejectedConst = false →
      c04IdentStep c04Classes c04IdentityTable f e = some (.ok (f e))) :
    ∀ e, c04NoRejected e → f e = substM {} e :=
  c04Ident_unique (fun e => c04Resolve c04Classes c04IdentityTable e) f (substM {}) hf
    identity_table_step_current

/-- when the substitution function answers, its answer is returned as a new object -/
theorem substM_hook_answer (σ : SubstMap) (e r : Expr) (h : c04SubstHook σ e = some r) :
    substM σ e = (r, true) :=
  substM_hook h

/-- **The hooked node kinds are those the current `SubstitutionMapper` overrides**: a node's
identity handler is in `c04SubstHooks` exactly for variables, subscripts and look-ups; and each
hook falls back to `IdentityMapper`'s handler of the same name (or returns `expr` where that
handler does). -/
theorem substHooks_current :
    (∀ e : Expr, e.isRejectedConst = false →
      (match c04HandlerName c04Classes c04IdentityTable e with
        | some n => c04SubstHooks.any (fun h => h.1 == n)
        | none => false) = e.c04Hooked) ∧
    c04HooksOk c04SubstHooks c04IdentityTable = true := by
  refine ⟨fun e h => ?_, by decide⟩
  cases e with
  | const k => cases k <;> first | rfl | simp [Expr.isRejectedConst] at h
  | nary o cs => cases o <;> rfl
  | bin o a b => cases o <;> rfl
  | un o a => cases o <;> rfl
  | _ => rfl

/-- **Constructor argument order.**  For every node class of the current primitives whose identity
handler rebuilds with `type(expr)(…)`, the positional arguments are the class's dataclass fields
in declaration order. -/
theorem identity_ctor_order_current : c04CtorOrderOk c04Classes c04IdentityTable = true := by
  decide

/-- **Every `IdentityMapper` handler of the current source** (unmodelled ones included) forwards
the extra arguments, compares in its "same object" test exactly the fields it mapped, and passes
exactly the mapped fields to the constructor in the order it mapped them. -/
theorem identityTable_rows_ok_current :
    c04IdentityTable.all (fun h => c04RebuildRowOk h.body) = true := by
  decide

section examples
/-- the shift handler of the current source recurses into `shift` before `shiftee` -/
example : c04TableChildren c04Classes c04WalkTable shiftE =
    some [.nary .sum [.var "y", .const (.int 1)], .var "x"] := by
  rw [walkChildren_eq_table_current _ rfl]; simp [shiftE, walkChildren, BinOp.isShift]
example : c04FindHandler c04WalkTable "map_right_shift" =
    some ⟨"map_right_shift", "WalkMapper", "map_left_shift",
      .walk .guard true [⟨"shift", .one, true⟩, ⟨"shiftee", .one, true⟩] true true⟩ := by decide
/-- a table that drops the `shift` child is NOT the current one: the step differs from `walk` -/
example : c04WalkStepB (.ok (.walk .guard true [⟨"shiftee", .one, true⟩] true true))
    (walk []) [] false shiftE ≠ walk [] false shiftE := by
  simp [shiftE, c04WalkStepB, c04SeqSites, c04RecChildren, Expr.c04Field, Expr.c04Fields, c04Assoc,
    c04SeqL, walk, wrapWalk, leafWalk, walkL, Expr.kind, BinOp.name, bind, Except.bind, pure,
    Except.pure]
example : c04TableChildren c04Classes (c04WithLeaves c04CollectorLeaves c04CombineTable) combE =
    some combE.children := combineChildren_eq_table_current _ rfl rfl
example : c04Resolve c04Classes (c04WithLeaves c04CollectorLeaves c04CombineTable) (.slice []) =
    .error .unsupported := by rfl
example : c04IdentStep c04Classes c04IdentityTable (substM {}) combE = some (.ok (combE, false)) := by
  rw [identity_table_step_current _ rfl]
  exact congrArg _ (congrArg _ (identity_same_object_partial _ (noList_of_check (by decide))
    (noZeroCseChild_of_check (by decide))))
/-- swapped constructor arguments are not the current table: the rebuilt node differs -/
example : c04IdentStepB (.ok (.rebuild [⟨"aggregate", .one, true⟩, ⟨"index", .one, true⟩] true
      ["aggregate", "index"] false (.sameClass [.rebuilt "index", .rebuilt "aggregate"] false)))
    (fun e => (e, true)) (.subscript (.var "a") (.var "i")) =
    some (.ok (.subscript (.var "i") (.var "a"), true)) := by
  simp [c04IdentStepB, c04MapRecs, c04MapRec, Expr.c04Field, Expr.c04Fields, c04Assoc, c04Rebuild,
    c04OptSeq, c04ArgVal, Expr.c04Construct]
example : (Expr.var "x").c04Hooked = true ∧ (Expr.nan).c04Hooked = false := ⟨rfl, rfl⟩
end examples

/-! ## 7. The callback mapper -/

/-- **Callback handler shapes of the current source**: the `CallbackMapper` of the current source
hands a node to `function` (with the extra arguments) for exactly the node kinds
`c04CallbackBody` says; for every other kind dispatch ends at a raising `Mapper` stub or finds no
handler at all. -/
theorem callback_resolve_current (e : Expr) :
    c04Resolve c04Classes c04CallbackTable e = c04CallbackBody e := by
  cases e with
  | const k => cases k <;> rfl
  | nary o cs => cases o <;> rfl
  | bin o a b => cases o <;> rfl
  | un o a => cases o <;> rfl
  | _ => rfl

/-- **`function` is called on exactly the listed kinds.**  One call of the current
`CallbackMapper` on a node of a listed kind is `function(expr, self, *args, **kwargs)` … -/
theorem callback_calls_function {β : Type} (function : Bool → Expr → Except DepErr β)
    (args : Bool) (e : Expr) (h : e.c04CallbackListed = true) :
    c04CallbackStep c04Classes c04CallbackTable function args e = function args e := by
  rw [c04CallbackStep, callback_resolve_current, c04CallbackBody_listed h]
  simp [c04CallbackStepB]

/-- … and on a node of any other kind it raises, whatever `function` is: never a silent default,
never a call of `function`. -/
theorem callback_unlisted_never_silent {β : Type} (function : Bool → Expr → Except DepErr β)
    (args : Bool) (e : Expr) (h : e.c04CallbackListed = false) :
    ∃ err, c04CallbackStep c04Classes c04CallbackTable function args e = .error err := by
  rw [c04CallbackStep, callback_resolve_current]
  rcases c04CallbackBody_unlisted h with hb | ⟨err, hb⟩ <;> rw [hb]
  · exact ⟨_, rfl⟩
  · exact ⟨_, rfl⟩

/-- every handler `CallbackMapper` defines in the current source (those of node kinds outside the
model included) is the callback with the extra arguments forwarded, and `__init__` points the
fallback mapper's `rec` back at the callback mapper -/
theorem callbackTable_rows_ok_current :
    c04CallbackTable.all (fun h => h.definedIn != "CallbackMapper" || h.body == .callback true) = true ∧
    c04CallbackRedirectsRec = true := by
  decide

/-- **The delegating callback sees every node once.**  `CallbackMapper(function,
IdentityMapper())` with a `function` that answers `mapper.fallback_mapper(expr, …)`: when every
node of the tree is of a listed kind, `function` is called on every node occurrence exactly once,
in pre-order through ALL children in field order, each time with the extra arguments … -/
theorem callbackTrace_all_nodes (args : Bool) (e : Expr)
    (h : ∀ t, Subterm t e → t.c04CallbackListed = true) :
    callbackTrace args e = .ok ((c04Pre e).map (fun n => (n, args))) := by
  have hall : allSub Expr.c04CallbackListed e = true := by
    induction e using children_induct with
    | step e ih =>
      rw [allSub_eq, Bool.and_eq_true, List.all_eq_true]
      exact ⟨h e (.refl e), fun c hc => ih c hc (fun t ht => h t (ht.trans (.child hc)))⟩
  have := callbackTrace_total args e
  simpa [C04Outcome, hall] using this

/-- … and when some node is of a kind the callback mapper does not list, the traversal raises. -/
theorem callbackTrace_never_silent (args : Bool) (e t : Expr) (ht : Subterm t e)
    (h : t.c04CallbackListed = false) : ∃ err, callbackTrace args e = .error err := by
  have hall : allSub Expr.c04CallbackListed e = false := by
    cases hb : allSub Expr.c04CallbackListed e with
    | false => rfl
    | true => exact absurd (allSub_sound hb t ht) (by simp [h])
  have := callbackTrace_total args e
  simpa [C04Outcome, hall] using this

section examples
example : callbackTrace true shiftE = .ok
    [(shiftE, true), (.var "x", true), (.nary .sum [.var "y", .const (.int 1)], true),
     (.var "y", true), (.const (.int 1), true)] := by
  rw [callbackTrace_all_nodes _ _ (allSub_sound (by decide))]
  simp [shiftE, c04Pre_eq, Expr.children]
example : ∃ err, callbackTrace false (.nary .sum [.var "x", .nary .min [.var "y"]]) = .error err :=
  callbackTrace_never_silent _ _ (.nary .min [.var "y"]) (.child (by simp [Expr.children])) rfl
example : (Expr.callKw (.var "f") [] [] []).c04CallbackListed = false ∧
    (Expr.call (.var "f") []).c04CallbackListed = true := ⟨rfl, rfl⟩
end examples

/-! ## 8. The dispatch CODE and the fold step of the current source (T-gen)

`Generated.c04DispatchSource` is `Mapper.__call__` / `Mapper.rec_fallback` of the tree under test,
read statement by statement by extract/dispatch.py (a statement the reader does not know — any
statement touching something else than the locals `method_name`, `method`, `result`, `cls`, e.g. a
memo table shared between calls / instances / mapper classes — is an extraction error).  `dRun` is
the interpreter of that statement language (`PV/Model/DispatchTable.lean`). -/

/-- **The dispatch source is the one the model was written against**: the table regenerated from
the source on this run is, statement for statement, `dispatchSourceLit`. -/
theorem dispatch_source_current : c04DispatchSource = dispatchSourceLit := rfl

/-- **`Mapper.__call__` of the current source IS `dispatchExpr`**: the statements of the
regenerated table, run by the interpreter on an expression whose class has MRO `mro` for a mapper
implementing `hs`, return exactly what the dispatch model says — for all handler sets and MROs. -/
theorem dispatch_call_eq_table_current (hs : List String) (mro : List (Option String)) :
    dRun c04DispatchSource.call hs (.expr mro) = .ret (dispatchExpr hs mro) := by
  rw [dispatch_source_current]; exact dRun_call_lit_expr hs mro

/-- **`Mapper.rec_fallback` of the current source IS `dispatchFallback`.** -/
theorem dispatch_fallback_eq_table_current (hs : List String) (mro : List (Option String)) :
    dRun c04DispatchSource.fallback hs (.expr mro) = .ret (dispatchFallback hs mro) := by
  rw [dispatch_source_current]; exact dRun_fallback_lit_expr hs mro

/-- **Foreign objects** leave both routines of the current source through `map_foreign`. -/
theorem dispatch_foreign_eq_table_current (hs : List String) (k : ForeignKind) :
    dRun c04DispatchSource.call hs (.foreign k) = .ret (dispatchForeign k) ∧
    dRun c04DispatchSource.fallback hs (.foreign k) = .ret (dispatchForeign k) := by
  rw [dispatch_source_current]
  exact ⟨dRun_call_lit_foreign hs k, dRun_fallback_lit_foreign hs k⟩

/-- **Nearest handler, for the current source**: the statements of `Mapper.__call__` as they are
in the tree under test pick the own class's handler if the mapper implements it, else the first
ancestor's (MRO order) it implements, else the unsupported-expression hook — and nothing else
enters: the outcome is a function of the handler set and the MRO alone (no state survives a
call). -/
theorem dispatch_nearest_table_current (hs : List String) (mro : List (Option String)) :
    dRun c04DispatchSource.call hs (.expr mro) =
      .ret (match firstImplemented hs mro with
        | some m => .handler m
        | none => .unsupported) := by
  rw [dispatch_call_eq_table_current, dispatch_nearest]

/-- the recursive entry point `rec` is `__call__` itself, both routines take
`(self, expr, *args, **kwargs)`, and the only classes of `pymbolic.mapper` with a dispatch routine
of their own are `Mapper`, `CachedMapper` (`dispatchCached`) and `CachingMapperMixin`. -/
theorem dispatch_entry_points_current :
    c04DispatchSource.recIsCall = true ∧ c04DispatchSource.callSig = true ∧
    c04DispatchSource.fallbackSig = true ∧
    c04DispatchSource.overriders =
      [("CachedMapper", "__call__"), ("CachedMapper", "rec"), ("CachingMapperMixin", "__call__"),
       ("CachingMapperMixin", "rec"), ("Mapper", "__call__"), ("Mapper", "rec"),
       ("Mapper", "rec_fallback")] := by decide

/-- a table whose ancestor loop starts one class too late is NOT the current one: on a class whose
direct parent's handler is the only one implemented it reaches the hook. -/
theorem dispatch_table_edit_cex :
    dRun [.ifS .isExpression [.forMro 2 dispatchLoopBodyLit [.returnHook]] [.returnForeign]]
        ["map_b"] (.expr [some "map_c", some "map_b", some "map_a"]) = .ret .unsupported ∧
    dRun c04DispatchSource.fallback ["map_b"] (.expr [some "map_c", some "map_b", some "map_a"])
      = .ret (.handler "map_b") := by
  constructor
  · decide
  · rw [dispatch_fallback_eq_table_current]; decide

/-- **The fold step of the stock collectors, current source**: `Collector.combine` is
`reduce(operator.or_, values, set())` — a NEW set per call, the children's result sets are only
read (`|`, never `|=`) — `CombineMapper.combine` is the `NotImplementedError` stub, and the cached
flavours add nothing but `CachedMapper` in front.  (The same source fact as `PV.C09.combine_current`,
here as an obligation of C04: an in-place union into a child's set changes the table.) -/
theorem collector_combine_current :
    c04CollectorCombine = .reduceOr ∧ c04CombineMapperCombine = .notImplemented ∧
    c04CachedCollectorMro = ["CachedCollector", "CachedMapper", "Collector", "CombineMapper", "Mapper"] ∧
    c04CachedCombineMro = ["CachedCombineMapper", "CachedMapper", "CombineMapper", "Mapper"] := by
  decide

section examples
example : dRun c04DispatchSource.call ["map_sum", "map_foo"]
    (.expr [some "map_bar", none, some "map_foo", some "map_sum"]) = .ret (.handler "map_foo") := by
  rw [dispatch_call_eq_table_current]; decide
example : dRun c04DispatchSource.call [""] (.expr [some ""]) = .ret (.handler "") ∧
    dRun c04DispatchSource.call [""] (.expr [none, some ""]) = .ret .unsupported := by
  rw [dispatch_call_eq_table_current, dispatch_call_eq_table_current]; decide
example : dRun c04DispatchSource.call [] (.foreign .tuple) = .ret (.foreign "map_tuple") :=
  (dispatch_foreign_eq_table_current [] .tuple).1
end examples

/-! ## 9. `Mapper.map_foreign` of the current source and the run-time registry of number classes

`Generated.c04ForeignSource` is `Mapper.map_foreign` of the tree under test read test by test, each
test with WHAT IT REFERS TO: `.constLive` = `pymbolic.primitives.VALID_CONSTANT_CLASSES` looked up
through the module attribute when the mapper is called — the global that
`register_constant_class` / `unregister_constant_class` rebind (also read, statement by statement)
— as opposed to `.constCaptured`, a value computed from it when `pymbolic.mapper` was imported.
`fRun` runs the chain for a registry at call time (`live`) and one at import time (`captured`). -/

/-- **The source of `map_foreign` and of the registry functions is the one the model was written
against**, test for test. -/
theorem foreign_source_current : c04ForeignSource = foreignSourceLit := rfl

/-- **`map_foreign` of the current source IS `dispatchForeign`, on the kind the object has under
the registry AT CALL TIME**: numbers (instances of a class registered right now) to
`map_constant`, else arrays, lists, tuples to their handlers, anything else rejected — for every
registry, every object, and whatever the registry was when the module was imported. -/
theorem foreign_chain_eq_table_current (live captured : Registry) (o : FObj) :
    fRun c04ForeignSource.chain live captured o = dispatchForeign (o.kind live) := by
  rw [foreign_source_current]; exact fRun_lit live captured o

/-- **Routing follows a registration**: right after `register_constant_class(c)` every instance
of `c` goes to `map_constant`, whatever was registered before. -/
theorem foreign_follows_registration_current (reg captured : Registry) (c : String) (o : FObj)
    (h : c ∈ o.classes) :
    fRun c04ForeignSource.chain (reg.register c) captured o = .foreign "map_constant" := by
  have hc : o.isConst (reg.register c) = true := by
    rw [isConst_register]; simp [List.contains_eq_mem, h]
  rw [foreign_chain_eq_table_current]
  simp [FObj.kind, hc, dispatchForeign]

/-- **Routing follows an unregistration**: an object that is no instance of a class still
registered is routed by its shape alone, and rejected when it is no array, list or tuple. -/
theorem foreign_follows_unregistration_current (reg captured : Registry) (c : String) (o : FObj)
    (h : o.isConst (reg.unregister c) = false) :
    fRun c04ForeignSource.chain (reg.unregister c) captured o = dispatchForeign (o.kind []) ∧
    (o.isArray = false → o.isList = false → o.isTuple = false →
      fRun c04ForeignSource.chain (reg.unregister c) captured o = .invalidForeign) := by
  rw [foreign_chain_eq_table_current]
  have h0 : o.isConst [] = false := by simp [FObj.isConst]
  constructor
  · simp [FObj.kind, h, h0]
  · intro ha hl ht; simp [FObj.kind, h, ha, hl, ht, dispatchForeign]

/-- … in particular an instance of exactly the class `c`, registered once: rejected again. -/
theorem foreign_unregistered_rejected_current (reg captured : Registry) (c : String)
    (hn : reg.Nodup) :
    fRun c04ForeignSource.chain (reg.unregister c) captured { classes := [c] } = .invalidForeign := by
  have h : ({ classes := [c] } : FObj).isConst (reg.unregister c) = false := by
    simp only [FObj.isConst, List.any_cons, List.any_nil, Bool.or_false]
    exact unregister_removes reg c hn
  exact (foreign_follows_unregistration_current reg captured c _ h).2 rfl rfl rfl

/-- **Histories**: registrations, unregistrations and dispatches in any order — every dispatch of
the current source goes where the object's kind under the registry OF THAT MOMENT says
(`fHistorySpec`), independently of the registry at import time. -/
theorem foreign_history_current (captured live : Registry) (steps : List FStep) :
    fHistory c04ForeignSource.chain captured live steps = fHistorySpec live steps := by
  rw [foreign_source_current]; exact fHistory_lit captured steps live

/-- the registry functions of `pymbolic.primitives` rebind ONE module global — the one the first
test of the chain reads — `register` by appending to a new tuple, `unregister` by removing the
first occurrence, `is_constant` tests against the same global; `map_foreign` takes
`(self, expr, *args, **kwargs)`, rejects with `ValueError`, and no stock mapper replaces it
(`CompileMapper.map_foreign` re-routes to `Mapper.map_foreign` with its own argument). -/
theorem foreign_registry_fns_current :
    c04ForeignSource.sig = true ∧ c04ForeignSource.elseRaises = "ValueError" ∧
    c04ForeignSource.registryGlobal = "VALID_CONSTANT_CLASSES" ∧
    c04ForeignSource.register = .appendOne c04ForeignSource.registryGlobal ∧
    c04ForeignSource.unregister = .removeFirst c04ForeignSource.registryGlobal ∧
    c04ForeignSource.isConstant = .isinstanceOf c04ForeignSource.registryGlobal ∧
    c04ForeignSource.overriders = ["CompileMapper", "Mapper"] := by decide

/-- a chain whose first test refers to a value captured at import time is NOT the current one: a
class registered later is rejected, a class unregistered later is still accepted — while the
chain of the current source follows the registry both times. -/
theorem foreign_captured_table_cex :
    let captured : List (FTest × String) :=
      [(.constCaptured, "map_constant"), (.numpyArray, "map_numpy_array"),
       (.builtinList, "map_list"), (.builtinTuple, "map_tuple")]
    let frac : FObj := { classes := ["Fraction", "numbers.Rational"] }
    let flt : FObj := { classes := ["float"] }
    fRun captured (baseRegistry.register "Fraction") baseRegistry frac = .invalidForeign ∧
    fRun c04ForeignSource.chain (baseRegistry.register "Fraction") baseRegistry frac
      = .foreign "map_constant" ∧
    fRun captured (baseRegistry.unregister "float") baseRegistry flt = .foreign "map_constant" ∧
    fRun c04ForeignSource.chain (baseRegistry.unregister "float") baseRegistry flt
      = .invalidForeign := by
  decide

section examples
example : fHistory c04ForeignSource.chain baseRegistry baseRegistry
    [.call { classes := ["Fraction"] }, .op (.register "Fraction"), .call { classes := ["Fraction"] },
     .op (.register "Decimal"), .call { classes := ["Decimal"] }, .op (.unregister "Fraction"),
     .call { classes := ["Fraction"] }, .call { classes := [], isTuple := true }]
    = [.invalidForeign, .foreign "map_constant", .foreign "map_constant", .invalidForeign,
       .foreign "map_tuple"] := by
  rw [foreign_history_current]; decide
example : ({ classes := ["int", "numbers.Rational"] } : FObj).kind baseRegistry = .number := by decide
end examples

end PV.C04
