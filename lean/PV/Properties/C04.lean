import PV.Model.Traverse
import PV.Model.Dispatch
