import PV.Proofs.Compile
import PV.Properties.C09
import PV.Generated.Prec
import PV.Proofs.C13Groups
import PV.Properties.C06
import PV.Properties.C07
/-
  C13 — property theorems.

  The four translation paths are modelled in PV/Model/Compile.lean; agreement of each model with
  the real code (source text and argument list of `compile`, the AST of `to_python_ast`, the tree
  of `ASTToPymbolic`, and the meaning `denAst` against CPython executing the AST) is checked by the
  correspondence streams of harness/props/c13.py on every run.  What CPython does with source TEXT:
  for `compile` the GROUPING of the text under Python's grammar is proved (section "The compiled
  SOURCE under Python's grammar": the parser model of C06/C07 with the hand-written Python table
  `pythonPrec`, tied to CPython's `ast.parse` by the stream `py-table`); what the grouped
  operators compute, and `ast.unparse`, are covered by executing every generated program (oracle
  streams).
-/
namespace PV.C13
open PV

/-! ## The fragment on which expression → AST preserves the value exactly -/

mutual
/-- Syntactic fragment + operand typing under which `to_python_ast` preserves the value:
  * constants are ints / bools; no keyword calls (their values are visited in name order), slices,
    or node types the mapper refuses;
  * every operand of a sum / product that evaluates is an exact number (and not a `bool` when it is
    the only operand); every operand of a bitwise chain that evaluates is an int or a bool;
    `or` / `and` have at least two operands, all boolean. -/
def AstOk (env : Env) : Expr → Prop
  | .const (.int _) => True
  | .const (.bool _) => True
  | .var _ => True
  | .nary .sum cs => AstOkL env cs ∧ OperandsOk env (ArithOperand cs.length) cs
  | .nary .prod cs => AstOkL env cs ∧ OperandsOk env (ArithOperand cs.length) cs
  | .nary .bor cs => AstOkL env cs ∧ OperandsOk env BitOperand cs
  | .nary .bxor cs => AstOkL env cs ∧ OperandsOk env BitOperand cs
  | .nary .band cs => AstOkL env cs ∧ OperandsOk env BitOperand cs
  | .nary .lor cs => 2 ≤ cs.length ∧ AstOkL env cs ∧ OperandsOk env BoolOperand cs
  | .nary .land cs => 2 ≤ cs.length ∧ AstOkL env cs ∧ OperandsOk env BoolOperand cs
  | .bin _ a b => AstOk env a ∧ AstOk env b
  | .un _ a => AstOk env a
  | .ite c t e => AstOk env c ∧ AstOk env t ∧ AstOk env e
  | .call f as => AstOk env f ∧ AstOkL env as
  | .subscript a i => AstOk env a ∧ AstOk env i
  | .lookup a _ => AstOk env a
  | .tuple cs => AstOkL env cs
  | .list cs => AstOkL env cs
  | _ => False
def AstOkL (env : Env) : List Expr → Prop
  | [] => True
  | c :: cs => AstOk env c ∧ AstOkL env cs
end

mutual
/-- **`to_python_ast` preserves the value** (and the error, and the order in which operands are
evaluated): CPython's meaning of the generated AST is the evaluator's meaning of the expression —
on the fragment `AstOk`.  The n-ary operators of the expression become right-nested binary
operators; for sums and products of ANY length this is value-preserving on exact ints, bools and
Fractions (associativity and the unit law of exact arithmetic), for `| ^ &` chains of any length
on ints and bools (associativity of the two's-complement operators). -/
theorem toAst_value (env : Env) : ∀ (e : Expr) (a : PyAst), toAst e = .ok a → AstOk env e →
    denAst env a = den env e
  | .const (.int n), a, h, _ => by
      simp only [toAst, constToAst] at h
      split at h
      · simp only [pure, Except.pure, Except.ok.injEq] at h
        subst h
        simp [denAst, Const.denAst, den, Const.den, Value.neg, Value.isInexact, Value.num?,
          pure, Except.pure, bind, Except.bind]
      · simp only [pure, Except.pure, Except.ok.injEq] at h
        subst h
        simp [denAst, Const.denAst, den, Const.den]
  | .const (.bool b), a, h, _ => by
      simp only [toAst, constToAst, pure, Except.pure, Except.ok.injEq] at h
      subst h
      simp [denAst, Const.denAst, den, Const.den]
  | .var x, a, h, _ => by
      simp only [toAst, pure, Except.pure, Except.ok.injEq] at h
      subst h
      simp only [denAst, den]
      cases env.get x <;> rfl
  | .nary .sum cs, a, h, hok => by
      simp only [toAst] at h
      obtain ⟨xs, hxs, hfold⟩ := except_bind_ok h
      have hrel := toAstL_value env cs xs hxs hok.1
      simp only [den]
      exact nary_fold_value (o := .sum) (op := .add) (f := addNum) (u := .i 0) rfl
        (fun ha hb => add_num ha hb) addNum_assoc addNum_zero hrel hfold hok.2
  | .nary .prod cs, a, h, hok => by
      simp only [toAst] at h
      obtain ⟨xs, hxs, hfold⟩ := except_bind_ok h
      have hrel := toAstL_value env cs xs hxs hok.1
      simp only [den]
      exact nary_fold_value (o := .prod) (op := .mult) (f := mulNum) (u := .i 1) rfl
        (fun ha hb => mul_num ha hb) mulNum_assoc mulNum_one hrel hfold hok.2
  | .nary .bor cs, a, h, hok => by
      simp only [toAst] at h
      obtain ⟨xs, hxs, hfold⟩ := except_bind_ok h
      simp only [den]
      exact reduce_fold_value (o := .bor) (op := .bitor) rfl (fun ha hb => bor_ib ha hb) ibOr_assoc
        (toAstL_value env cs xs hxs hok.1) hfold hok.2
  | .nary .bxor cs, a, h, hok => by
      simp only [toAst] at h
      obtain ⟨xs, hxs, hfold⟩ := except_bind_ok h
      simp only [den]
      exact reduce_fold_value (o := .bxor) (op := .bitxor) rfl (fun ha hb => bxor_ib ha hb) ibXor_assoc
        (toAstL_value env cs xs hxs hok.1) hfold hok.2
  | .nary .band cs, a, h, hok => by
      simp only [toAst] at h
      obtain ⟨xs, hxs, hfold⟩ := except_bind_ok h
      simp only [den]
      exact reduce_fold_value (o := .band) (op := .bitand) rfl (fun ha hb => band_ib ha hb) ibAnd_assoc
        (toAstL_value env cs xs hxs hok.1) hfold hok.2
  | .nary .lor cs, a, h, hok => by
      simp only [toAst] at h
      obtain ⟨xs, hxs, ha⟩ := except_bind_ok h
      simp only [pure, Except.pure, Except.ok.injEq] at ha
      subst ha
      have hrel := toAstL_value env cs xs hxs hok.2.1
      simp only [denAst, den]
      cases xs with
      | nil =>
        cases cs with
        | nil => simp [AstOk] at hok
        | cons _ _ => simp [RelL] at hrel
      | cons x xs' => simpa using boolop_value true (x :: xs') cs hrel (by simp) hok.2.2
  | .nary .land cs, a, h, hok => by
      simp only [toAst] at h
      obtain ⟨xs, hxs, ha⟩ := except_bind_ok h
      simp only [pure, Except.pure, Except.ok.injEq] at ha
      subst ha
      have hrel := toAstL_value env cs xs hxs hok.2.1
      simp only [denAst, den]
      cases xs with
      | nil =>
        cases cs with
        | nil => simp [AstOk] at hok
        | cons _ _ => simp [RelL] at hrel
      | cons x xs' => simpa using boolop_value false (x :: xs') cs hrel (by simp) hok.2.2
  | .nary .min _, _, h, _ => by simp [toAst, throw, throwThe, MonadExceptOf.throw] at h
  | .nary .max _, _, h, _ => by simp [toAst, throw, throwThe, MonadExceptOf.throw] at h
  | .bin o x y, a, h, hok => by
      simp only [toAst] at h
      obtain ⟨x', hx, h⟩ := except_bind_ok h
      obtain ⟨y', hy, h⟩ := except_bind_ok h
      simp only [pure, Except.pure, Except.ok.injEq] at h
      subst h
      simp only [denAst, den, toAst_value env x x' hx hok.1, toAst_value env y y' hy hok.2,
        pyBin_apply]
  | .un .bnot x, a, h, hok => by
      simp only [toAst] at h
      obtain ⟨x', hx, h⟩ := except_bind_ok h
      simp only [pure, Except.pure, Except.ok.injEq] at h
      subst h
      simp only [denAst, den, toAst_value env x x' hx hok]
  | .un .lnot x, a, h, hok => by
      simp only [toAst] at h
      obtain ⟨x', hx, h⟩ := except_bind_ok h
      simp only [pure, Except.pure, Except.ok.injEq] at h
      subst h
      simp only [denAst, den, toAst_value env x x' hx hok]
  | .ite c t e, a, h, hok => by
      simp only [toAst] at h
      obtain ⟨c', hc, h⟩ := except_bind_ok h
      obtain ⟨t', ht, h⟩ := except_bind_ok h
      obtain ⟨e', he, h⟩ := except_bind_ok h
      simp only [pure, Except.pure, Except.ok.injEq] at h
      subst h
      simp only [denAst, den, toAst_value env c c' hc hok.1, toAst_value env t t' ht hok.2.1,
        toAst_value env e e' he hok.2.2]
  | .call f as, a, h, hok => by
      simp only [toAst] at h
      obtain ⟨g, hg, h⟩ := except_bind_ok h
      obtain ⟨xs, hxs, h⟩ := except_bind_ok h
      simp only [pure, Except.pure, Except.ok.injEq] at h
      subst h
      simp only [denAst, den, toAst_value env f g hg hok.1,
        relL_denList _ _ (toAstL_value env as xs hxs hok.2), denAstL, bind, Except.bind, pure,
        Except.pure]
  | .subscript x i, a, h, hok => by
      simp only [toAst] at h
      obtain ⟨x', hx, h⟩ := except_bind_ok h
      obtain ⟨i', hi, h⟩ := except_bind_ok h
      simp only [pure, Except.pure, Except.ok.injEq] at h
      subst h
      simp only [denAst, den, toAst_value env x x' hx hok.1, toAst_value env i i' hi hok.2]
  | .lookup x n, a, h, hok => by
      simp only [toAst] at h
      obtain ⟨x', hx, h⟩ := except_bind_ok h
      simp only [pure, Except.pure, Except.ok.injEq] at h
      subst h
      simp only [denAst, den, toAst_value env x x' hx hok]
  | .tuple cs, a, h, hok => by
      simp only [toAst] at h
      obtain ⟨xs, hxs, h⟩ := except_bind_ok h
      simp only [pure, Except.pure, Except.ok.injEq] at h
      subst h
      simp only [denAst, den, relL_denList _ _ (toAstL_value env cs xs hxs hok)]
  | .list cs, a, h, hok => by
      simp only [toAst] at h
      obtain ⟨xs, hxs, h⟩ := except_bind_ok h
      simp only [pure, Except.pure, Except.ok.injEq] at h
      subst h
      simp only [denAst, den, relL_denList _ _ (toAstL_value env cs xs hxs hok)]
  | .const (.flt ..), _, _, hok => by simp [AstOk] at hok
  | .const (.str _), _, _, hok => by simp [AstOk] at hok
  | .const .none, _, _, hok => by simp [AstOk] at hok
  | .cmp .., _, _, hok => by simp [AstOk] at hok
  | .callKw .., _, _, hok => by simp [AstOk] at hok
  | .cse .., _, _, hok => by simp [AstOk] at hok
  | .subst .., _, _, hok => by simp [AstOk] at hok
  | .deriv .., _, _, hok => by simp [AstOk] at hok
  | .slice _, _, _, hok => by simp [AstOk] at hok
  | .nan, _, _, hok => by simp [AstOk] at hok
  | .wildcard, _, _, hok => by simp [AstOk] at hok
  | .dotWild _, _, _, hok => by simp [AstOk] at hok
  | .starWild _, _, _, hok => by simp [AstOk] at hok
  | .funcSym, _, _, hok => by simp [AstOk] at hok
/-- operands: pointwise -/
theorem toAstL_value (env : Env) : ∀ (cs : List Expr) (xs : List PyAst), toAstL cs = .ok xs →
    AstOkL env cs → RelL env xs cs
  | [], xs, h, _ => by
      simp only [toAstL, pure, Except.pure, Except.ok.injEq] at h
      subst h
      trivial
  | c :: cs, xs, h, hok => by
      simp only [toAstL] at h
      obtain ⟨x, hx, h⟩ := except_bind_ok h
      obtain ⟨xs', hxs, h⟩ := except_bind_ok h
      simp only [pure, Except.pure, Except.ok.injEq] at h
      subst h
      exact ⟨toAst_value env c x hx hok.1, toAstL_value env cs xs' hxs hok.2⟩
end

/-! ## The generated AST is one CPython accepts -/

theorem foldBin_wellFormed (op : PyBin) : ∀ (xs : List PyAst) (a : PyAst),
    PyAst.wellFormedL xs = true → foldBin op xs = .ok a → a.wellFormed = true
  | [], _, _, h => by simp [foldBin, throw, throwThe, MonadExceptOf.throw] at h
  | [x], a, hw, h => by
      simp only [foldBin, pure, Except.pure, Except.ok.injEq] at h
      subst h
      simpa [PyAst.wellFormedL] using hw
  | x :: y :: rest, a, hw, h => by
      simp only [foldBin] at h
      obtain ⟨r, hr, ha⟩ := except_bind_ok h
      simp only [pure, Except.pure, Except.ok.injEq] at ha
      subst ha
      simp only [PyAst.wellFormedL, Bool.and_eq_true] at hw
      simp only [PyAst.wellFormed, Bool.and_eq_true]
      exact ⟨hw.1, foldBin_wellFormed op (y :: rest) r (by simp [PyAst.wellFormedL, hw.2]) hr⟩

theorem toAstL_length : ∀ (cs : List Expr) (xs : List PyAst), toAstL cs = .ok xs →
    xs.length = cs.length
  | [], xs, h => by
      simp only [toAstL, pure, Except.pure, Except.ok.injEq] at h
      subst h; rfl
  | c :: cs, xs, h => by
      simp only [toAstL] at h
      obtain ⟨x, _, h⟩ := except_bind_ok h
      obtain ⟨xs', hxs, h⟩ := except_bind_ok h
      simp only [pure, Except.pure, Except.ok.injEq] at h
      subst h
      simp [toAstL_length cs xs' hxs]

mutual
/-- on the fragment the AST passes CPython's validator (`BoolOp` nodes have two or more operands) -/
theorem toAst_wellFormed (env : Env) : ∀ (e : Expr) (a : PyAst), toAst e = .ok a → AstOk env e →
    a.wellFormed = true
  | .const (.int n), a, h, _ => by
      simp only [toAst, constToAst] at h
      split at h <;> (simp only [pure, Except.pure, Except.ok.injEq] at h; subst h; rfl)
  | .const (.bool b), a, h, _ => by
      simp only [toAst, constToAst, pure, Except.pure, Except.ok.injEq] at h
      subst h; rfl
  | .var x, a, h, _ => by
      simp only [toAst, pure, Except.pure, Except.ok.injEq] at h
      subst h; rfl
  | .nary .sum cs, a, h, hok => by
      simp only [toAst] at h
      obtain ⟨xs, hxs, hfold⟩ := except_bind_ok h
      exact foldBin_wellFormed _ xs a (toAstL_wellFormed env cs xs hxs hok.1) hfold
  | .nary .prod cs, a, h, hok => by
      simp only [toAst] at h
      obtain ⟨xs, hxs, hfold⟩ := except_bind_ok h
      exact foldBin_wellFormed _ xs a (toAstL_wellFormed env cs xs hxs hok.1) hfold
  | .nary .bor cs, a, h, hok => by
      simp only [toAst] at h
      obtain ⟨xs, hxs, hfold⟩ := except_bind_ok h
      exact foldBin_wellFormed _ xs a (toAstL_wellFormed env cs xs hxs hok.1) hfold
  | .nary .bxor cs, a, h, hok => by
      simp only [toAst] at h
      obtain ⟨xs, hxs, hfold⟩ := except_bind_ok h
      exact foldBin_wellFormed _ xs a (toAstL_wellFormed env cs xs hxs hok.1) hfold
  | .nary .band cs, a, h, hok => by
      simp only [toAst] at h
      obtain ⟨xs, hxs, hfold⟩ := except_bind_ok h
      exact foldBin_wellFormed _ xs a (toAstL_wellFormed env cs xs hxs hok.1) hfold
  | .nary .lor cs, a, h, hok => by
      simp only [toAst] at h
      obtain ⟨xs, hxs, ha⟩ := except_bind_ok h
      simp only [pure, Except.pure, Except.ok.injEq] at ha
      subst ha
      simp only [PyAst.wellFormed, Bool.and_eq_true, decide_eq_true_eq]
      exact ⟨by rw [toAstL_length cs xs hxs]; exact hok.1, toAstL_wellFormed env cs xs hxs hok.2.1⟩
  | .nary .land cs, a, h, hok => by
      simp only [toAst] at h
      obtain ⟨xs, hxs, ha⟩ := except_bind_ok h
      simp only [pure, Except.pure, Except.ok.injEq] at ha
      subst ha
      simp only [PyAst.wellFormed, Bool.and_eq_true, decide_eq_true_eq]
      exact ⟨by rw [toAstL_length cs xs hxs]; exact hok.1, toAstL_wellFormed env cs xs hxs hok.2.1⟩
  | .nary .min _, _, h, _ => by simp [toAst, throw, throwThe, MonadExceptOf.throw] at h
  | .nary .max _, _, h, _ => by simp [toAst, throw, throwThe, MonadExceptOf.throw] at h
  | .bin o x y, a, h, hok => by
      simp only [toAst] at h
      obtain ⟨x', hx, h⟩ := except_bind_ok h
      obtain ⟨y', hy, h⟩ := except_bind_ok h
      simp only [pure, Except.pure, Except.ok.injEq] at h
      subst h
      simp only [PyAst.wellFormed, toAst_wellFormed env x x' hx hok.1,
        toAst_wellFormed env y y' hy hok.2, Bool.and_self]
  | .un .bnot x, a, h, hok => by
      simp only [toAst] at h
      obtain ⟨x', hx, h⟩ := except_bind_ok h
      simp only [pure, Except.pure, Except.ok.injEq] at h
      subst h
      simp only [PyAst.wellFormed, toAst_wellFormed env x x' hx hok]
  | .un .lnot x, a, h, hok => by
      simp only [toAst] at h
      obtain ⟨x', hx, h⟩ := except_bind_ok h
      simp only [pure, Except.pure, Except.ok.injEq] at h
      subst h
      simp only [PyAst.wellFormed, toAst_wellFormed env x x' hx hok]
  | .ite c t e, a, h, hok => by
      simp only [toAst] at h
      obtain ⟨c', hc, h⟩ := except_bind_ok h
      obtain ⟨t', ht, h⟩ := except_bind_ok h
      obtain ⟨e', he, h⟩ := except_bind_ok h
      simp only [pure, Except.pure, Except.ok.injEq] at h
      subst h
      simp only [PyAst.wellFormed, toAst_wellFormed env c c' hc hok.1,
        toAst_wellFormed env t t' ht hok.2.1, toAst_wellFormed env e e' he hok.2.2, Bool.and_self]
  | .call f as, a, h, hok => by
      simp only [toAst] at h
      obtain ⟨g, hg, h⟩ := except_bind_ok h
      obtain ⟨xs, hxs, h⟩ := except_bind_ok h
      simp only [pure, Except.pure, Except.ok.injEq] at h
      subst h
      simp only [PyAst.wellFormed, toAst_wellFormed env f g hg hok.1,
        toAstL_wellFormed env as xs hxs hok.2, PyAst.wellFormedL, Bool.and_self]
  | .subscript x i, a, h, hok => by
      simp only [toAst] at h
      obtain ⟨x', hx, h⟩ := except_bind_ok h
      obtain ⟨i', hi, h⟩ := except_bind_ok h
      simp only [pure, Except.pure, Except.ok.injEq] at h
      subst h
      simp only [PyAst.wellFormed, toAst_wellFormed env x x' hx hok.1,
        toAst_wellFormed env i i' hi hok.2, Bool.and_self]
  | .lookup x n, a, h, hok => by
      simp only [toAst] at h
      obtain ⟨x', hx, h⟩ := except_bind_ok h
      simp only [pure, Except.pure, Except.ok.injEq] at h
      subst h
      simp only [PyAst.wellFormed, toAst_wellFormed env x x' hx hok]
  | .tuple cs, a, h, hok => by
      simp only [toAst] at h
      obtain ⟨xs, hxs, h⟩ := except_bind_ok h
      simp only [pure, Except.pure, Except.ok.injEq] at h
      subst h
      simp only [PyAst.wellFormed, toAstL_wellFormed env cs xs hxs hok]
  | .list cs, a, h, hok => by
      simp only [toAst] at h
      obtain ⟨xs, hxs, h⟩ := except_bind_ok h
      simp only [pure, Except.pure, Except.ok.injEq] at h
      subst h
      simp only [PyAst.wellFormed, toAstL_wellFormed env cs xs hxs hok]
  | .const (.flt ..), _, _, hok => by simp [AstOk] at hok
  | .const (.str _), _, _, hok => by simp [AstOk] at hok
  | .const .none, _, _, hok => by simp [AstOk] at hok
  | .cmp .., _, _, hok => by simp [AstOk] at hok
  | .callKw .., _, _, hok => by simp [AstOk] at hok
  | .cse .., _, _, hok => by simp [AstOk] at hok
  | .subst .., _, _, hok => by simp [AstOk] at hok
  | .deriv .., _, _, hok => by simp [AstOk] at hok
  | .slice _, _, _, hok => by simp [AstOk] at hok
  | .nan, _, _, hok => by simp [AstOk] at hok
  | .wildcard, _, _, hok => by simp [AstOk] at hok
  | .dotWild _, _, _, hok => by simp [AstOk] at hok
  | .starWild _, _, _, hok => by simp [AstOk] at hok
  | .funcSym, _, _, hok => by simp [AstOk] at hok
theorem toAstL_wellFormed (env : Env) : ∀ (cs : List Expr) (xs : List PyAst),
    toAstL cs = .ok xs → AstOkL env cs → PyAst.wellFormedL xs = true
  | [], xs, h, _ => by
      simp only [toAstL, pure, Except.pure, Except.ok.injEq] at h
      subst h; rfl
  | c :: cs, xs, h, hok => by
      simp only [toAstL] at h
      obtain ⟨x, hx, h⟩ := except_bind_ok h
      obtain ⟨xs', hxs, h⟩ := except_bind_ok h
      simp only [pure, Except.pure, Except.ok.injEq] at h
      subst h
      simp only [PyAst.wellFormedL, toAst_wellFormed env c x hx hok.1,
        toAstL_wellFormed env cs xs' hxs hok.2, Bool.and_self]
end

/-- **Executing the generated AST gives the evaluator's result** (value or error): `runAst` is
`eval(compile(ast.Expression(a)))`, validator included.  Partial: the hypothesis `AstOk` excludes
the shapes on which the real code differs from the evaluator — `or` / `and` with non-boolean or
fewer than two operands (`toAst_and_operand_cex`, `toAst_single_boolop_cex`), a one-operand sum of a
bool (`toAst_single_bool_cex`), operands of the wrong type together with a later failing operand
(`toAst_error_order_cex`) — and keyword calls, floats and slices, which are covered by the
executing oracle only. -/
theorem toAst_run_value_partial (env : Env) (e : Expr) (a : PyAst) (h : toAst e = .ok a)
    (hok : AstOk env e) : runAst env a = den env e := by
  simp only [runAst, toAst_wellFormed env e a h hok, if_true]
  exact toAst_value env e a h hok

/-! ## expression → AST → expression -/

mutual
/-- the fragment both mappers support: int / bool constants, variables, the five associative
operators with two or more operands, binary and unary operators, conditionals, calls, subscripts,
attribute lookups, tuples.  (`or` / `and`, comparisons, keyword calls, slices and lists are
refused by one of the two mappers or do not come back in the same shape.) -/
def RtOk : Expr → Prop
  | .const (.int _) => True
  | .const (.bool _) => True
  | .var _ => True
  | .nary o cs => o.isAssoc = true ∧ 2 ≤ cs.length ∧ RtOkL cs
  | .bin _ a b => RtOk a ∧ RtOk b
  | .un _ a => RtOk a
  | .ite c t e => RtOk c ∧ RtOk t ∧ RtOk e
  | .call f as => RtOk f ∧ RtOkL as
  | .subscript a i => RtOk a ∧ RtOk i
  | .lookup a _ => RtOk a
  | .tuple cs => RtOkL cs
  | _ => False
def RtOkL : List Expr → Prop
  | [] => True
  | c :: cs => RtOk c ∧ RtOkL cs
end

theorem fromAstL_length : ∀ (xs : List PyAst) (es : List Expr), fromAstL xs = .ok es →
    es.length = xs.length
  | [], es, h => by
      simp only [fromAstL, pure, Except.pure, Except.ok.injEq] at h
      subst h; rfl
  | x :: xs, es, h => by
      simp only [fromAstL] at h
      obtain ⟨e, _, h⟩ := except_bind_ok h
      obtain ⟨es', hes, h⟩ := except_bind_ok h
      simp only [pure, Except.pure, Except.ok.injEq] at h
      subst h
      simp [fromAstL_length xs es' hes]

/-- the n-ary case of the round trip -/
theorem nary_roundtrip {o : NaryOp} {op : PyBin} (ho : o.isAssoc = true)
    (hc : op.construct = some fun x y => .nary o [x, y])
    {cs es : List Expr} {xs : List PyAst} {a : PyAst} (hlen : 2 ≤ cs.length)
    (hxs : toAstL cs = .ok xs) (hes : fromAstL xs = .ok es)
    (hflat : flattenNestL es = flattenNestL cs) (hfold : foldBin op xs = .ok a) :
    ∃ e', fromAst a = .ok e' ∧ flattenNest e' = flattenNest (.nary o cs) := by
  have hl1 := toAstL_length cs xs hxs
  have hl2 := fromAstL_length xs es hes
  have hxne : xs ≠ [] := by
    intro h; rw [h] at hl1; simp at hl1; omega
  refine ⟨nestExpr o es, fromAst_foldBin hc xs es a hxne hes hfold, ?_⟩
  match es, hl2 with
  | x :: y :: rest, _ =>
    rw [flattenNest_nestExpr o ho, flattenNest]
    simp only [ho, if_true]
    rw [flattenNestInto_congr o _ _ hflat]
  | [], h => simp at h; omega
  | [_], h => simp at h; omega

mutual
/-- a slice that imports (so: not the `None` of a hand-made node) is mapped first, then the
aggregate -/
theorem fromAst_subscript_of_ok {v s : PyAst} {i : Expr} (h : fromAst s = .ok i) :
    fromAst (.subscript v s) = (do
      let i ← fromAst s
      let x ← fromAst v
      pure (.subscript x i)) := by
  cases s <;> first | (simp [fromAst] at h; done) | rfl

/-- **Importing the generated AST gives the expression back, up to binary nesting**: on the
fragment both mappers support, `ASTToPymbolic()(to_python_ast(e))` succeeds and differs from `e`
only in that an n-ary `+ * | ^ &` node has become a right-nested chain of two-operand nodes. -/
theorem fromAst_toAst : ∀ (e : Expr) (a : PyAst), toAst e = .ok a → RtOk e →
    ∃ e', fromAst a = .ok e' ∧ flattenNest e' = flattenNest e
  | .const (.int n), a, h, _ => by
      simp only [toAst, constToAst] at h
      split at h
      · simp only [pure, Except.pure, Except.ok.injEq] at h
        subst h
        refine ⟨.const (.int n), ?_, rfl⟩
        simp [fromAst, astNeg, negE, Const.neg, bind, Except.bind, pure, Except.pure]
      · simp only [pure, Except.pure, Except.ok.injEq] at h
        subst h
        exact ⟨_, rfl, rfl⟩
  | .const (.bool b), a, h, _ => by
      simp only [toAst, constToAst, pure, Except.pure, Except.ok.injEq] at h
      subst h
      exact ⟨_, rfl, rfl⟩
  | .var x, a, h, _ => by
      simp only [toAst, pure, Except.pure, Except.ok.injEq] at h
      subst h
      exact ⟨_, rfl, rfl⟩
  | .nary .sum cs, a, h, hok => by
      simp only [toAst] at h
      obtain ⟨xs, hxs, hfold⟩ := except_bind_ok h
      obtain ⟨es, hes, hflat⟩ := fromAstL_toAstL cs xs hxs hok.2.2
      exact nary_roundtrip rfl rfl hok.2.1 hxs hes hflat hfold
  | .nary .prod cs, a, h, hok => by
      simp only [toAst] at h
      obtain ⟨xs, hxs, hfold⟩ := except_bind_ok h
      obtain ⟨es, hes, hflat⟩ := fromAstL_toAstL cs xs hxs hok.2.2
      exact nary_roundtrip rfl rfl hok.2.1 hxs hes hflat hfold
  | .nary .bor cs, a, h, hok => by
      simp only [toAst] at h
      obtain ⟨xs, hxs, hfold⟩ := except_bind_ok h
      obtain ⟨es, hes, hflat⟩ := fromAstL_toAstL cs xs hxs hok.2.2
      exact nary_roundtrip rfl rfl hok.2.1 hxs hes hflat hfold
  | .nary .bxor cs, a, h, hok => by
      simp only [toAst] at h
      obtain ⟨xs, hxs, hfold⟩ := except_bind_ok h
      obtain ⟨es, hes, hflat⟩ := fromAstL_toAstL cs xs hxs hok.2.2
      exact nary_roundtrip rfl rfl hok.2.1 hxs hes hflat hfold
  | .nary .band cs, a, h, hok => by
      simp only [toAst] at h
      obtain ⟨xs, hxs, hfold⟩ := except_bind_ok h
      obtain ⟨es, hes, hflat⟩ := fromAstL_toAstL cs xs hxs hok.2.2
      exact nary_roundtrip rfl rfl hok.2.1 hxs hes hflat hfold
  | .nary .lor _, _, _, hok => by simp [RtOk, NaryOp.isAssoc] at hok
  | .nary .land _, _, _, hok => by simp [RtOk, NaryOp.isAssoc] at hok
  | .nary .min _, _, _, hok => by simp [RtOk, NaryOp.isAssoc] at hok
  | .nary .max _, _, _, hok => by simp [RtOk, NaryOp.isAssoc] at hok
  | .bin o x y, a, h, hok => by
      simp only [toAst] at h
      obtain ⟨x', hx, h⟩ := except_bind_ok h
      obtain ⟨y', hy, h⟩ := except_bind_ok h
      simp only [pure, Except.pure, Except.ok.injEq] at h
      subst h
      obtain ⟨ex, hex, hfx⟩ := fromAst_toAst x x' hx hok.1
      obtain ⟨ey, hey, hfy⟩ := fromAst_toAst y y' hy hok.2
      refine ⟨.bin o ex ey, ?_, by simp only [flattenNest, hfx, hfy]⟩
      simp only [fromAst, pyBin_construct, hex, hey, bind, Except.bind, pure, Except.pure]
  | .un .bnot x, a, h, hok => by
      simp only [toAst] at h
      obtain ⟨x', hx, h⟩ := except_bind_ok h
      simp only [pure, Except.pure, Except.ok.injEq] at h
      subst h
      obtain ⟨ex, hex, hfx⟩ := fromAst_toAst x x' hx hok
      refine ⟨.un .bnot ex, ?_, by simp only [flattenNest, hfx]⟩
      simp only [fromAst, hex, bind, Except.bind, pure, Except.pure]
  | .un .lnot x, a, h, hok => by
      simp only [toAst] at h
      obtain ⟨x', hx, h⟩ := except_bind_ok h
      simp only [pure, Except.pure, Except.ok.injEq] at h
      subst h
      obtain ⟨ex, hex, hfx⟩ := fromAst_toAst x x' hx hok
      refine ⟨.un .lnot ex, ?_, by simp only [flattenNest, hfx]⟩
      simp only [fromAst, hex, bind, Except.bind, pure, Except.pure]
  | .ite c t e, a, h, hok => by
      simp only [toAst] at h
      obtain ⟨c', hc, h⟩ := except_bind_ok h
      obtain ⟨t', ht, h⟩ := except_bind_ok h
      obtain ⟨e', he, h⟩ := except_bind_ok h
      simp only [pure, Except.pure, Except.ok.injEq] at h
      subst h
      obtain ⟨ec, hec, hfc⟩ := fromAst_toAst c c' hc hok.1
      obtain ⟨et, het, hft⟩ := fromAst_toAst t t' ht hok.2.1
      obtain ⟨ee, hee, hfe⟩ := fromAst_toAst e e' he hok.2.2
      refine ⟨.ite ec et ee, ?_, by simp only [flattenNest, hfc, hft, hfe]⟩
      simp only [fromAst, hec, het, hee, bind, Except.bind, pure, Except.pure]
  | .call f as, a, h, hok => by
      simp only [toAst] at h
      obtain ⟨g, hg, h⟩ := except_bind_ok h
      obtain ⟨xs, hxs, h⟩ := except_bind_ok h
      simp only [pure, Except.pure, Except.ok.injEq] at h
      subst h
      obtain ⟨ef, hef, hff⟩ := fromAst_toAst f g hg hok.1
      obtain ⟨es, hes, hfl⟩ := fromAstL_toAstL as xs hxs hok.2
      refine ⟨.call ef es, ?_, by simp only [flattenNest, hff, hfl]⟩
      simp [fromAst, hef, hes, bind, Except.bind, pure, Except.pure]
  | .subscript x i, a, h, hok => by
      simp only [toAst] at h
      obtain ⟨x', hx, h⟩ := except_bind_ok h
      obtain ⟨i', hi, h⟩ := except_bind_ok h
      simp only [pure, Except.pure, Except.ok.injEq] at h
      subst h
      obtain ⟨ex, hex, hfx⟩ := fromAst_toAst x x' hx hok.1
      obtain ⟨ei, hei, hfi⟩ := fromAst_toAst i i' hi hok.2
      refine ⟨.subscript ex ei, ?_, by simp only [flattenNest, hfx, hfi]⟩
      rw [fromAst_subscript_of_ok hei]
      simp only [hex, hei, bind, Except.bind, pure, Except.pure]
  | .lookup x n, a, h, hok => by
      simp only [toAst] at h
      obtain ⟨x', hx, h⟩ := except_bind_ok h
      simp only [pure, Except.pure, Except.ok.injEq] at h
      subst h
      obtain ⟨ex, hex, hfx⟩ := fromAst_toAst x x' hx hok
      refine ⟨.lookup ex n, ?_, by simp only [flattenNest, hfx]⟩
      simp only [fromAst, hex, bind, Except.bind, pure, Except.pure]
  | .tuple cs, a, h, hok => by
      simp only [toAst] at h
      obtain ⟨xs, hxs, h⟩ := except_bind_ok h
      simp only [pure, Except.pure, Except.ok.injEq] at h
      subst h
      obtain ⟨es, hes, hfl⟩ := fromAstL_toAstL cs xs hxs hok
      refine ⟨.tuple es, ?_, by simp only [flattenNest, hfl]⟩
      simp only [fromAst, hes, bind, Except.bind, pure, Except.pure]
  | .const (.flt ..), _, _, hok => by simp [RtOk] at hok
  | .const (.str _), _, _, hok => by simp [RtOk] at hok
  | .const .none, _, _, hok => by simp [RtOk] at hok
  | .cmp .., _, _, hok => by simp [RtOk] at hok
  | .callKw .., _, _, hok => by simp [RtOk] at hok
  | .cse .., _, _, hok => by simp [RtOk] at hok
  | .subst .., _, _, hok => by simp [RtOk] at hok
  | .deriv .., _, _, hok => by simp [RtOk] at hok
  | .slice _, _, _, hok => by simp [RtOk] at hok
  | .list _, _, _, hok => by simp [RtOk] at hok
  | .nan, _, _, hok => by simp [RtOk] at hok
  | .wildcard, _, _, hok => by simp [RtOk] at hok
  | .dotWild _, _, _, hok => by simp [RtOk] at hok
  | .starWild _, _, _, hok => by simp [RtOk] at hok
  | .funcSym, _, _, hok => by simp [RtOk] at hok
theorem fromAstL_toAstL : ∀ (cs : List Expr) (xs : List PyAst), toAstL cs = .ok xs → RtOkL cs →
    ∃ es, fromAstL xs = .ok es ∧ flattenNestL es = flattenNestL cs
  | [], xs, h, _ => by
      simp only [toAstL, pure, Except.pure, Except.ok.injEq] at h
      subst h
      exact ⟨[], rfl, rfl⟩
  | c :: cs, xs, h, hok => by
      simp only [toAstL] at h
      obtain ⟨x, hx, h⟩ := except_bind_ok h
      obtain ⟨xs', hxs, h⟩ := except_bind_ok h
      simp only [pure, Except.pure, Except.ok.injEq] at h
      subst h
      obtain ⟨e, he, hfe⟩ := fromAst_toAst c x hx hok.1
      obtain ⟨es, hes, hfl⟩ := fromAstL_toAstL cs xs' hxs hok.2
      refine ⟨e :: es, ?_, by simp only [flattenNestL, hfe, hfl]⟩
      simp only [fromAstL, he, hes, bind, Except.bind, pure, Except.pure]
end

/-! ## `compile`: argument order and pickling -/

/-- **Argument order, for any number of variables.**  The argument list is the listed variables
followed by a tail that (a) is sorted by name, (b) consists exactly of the used variables that are
neither listed nor context names (`math`, `numpy`), and (c) is strictly increasing — no argument
twice — when the dependency set has no duplicates (which `deps` guarantees: `compile_args`). -/
theorem arg_order_spec (listed : List String) (used : List Expr) :
    ∃ tail, argOrder listed used = listed ++ tail ∧ StrSorted tail ∧
      (∀ x, x ∈ tail ↔ (Expr.var x ∈ used ∧ x ∉ listed ∧ x ∉ contextNames)) ∧
      (PyNodup used → tail.Pairwise (· < ·)) := by
  refine ⟨_, rfl, sortStrings_sorted _, ?_, ?_⟩
  · intro x
    rw [mem_sortStrings, List.mem_filter, mem_varNames]
    simp
  · intro hn
    exact sortStrings_strict ((varNames_nodup hn).filter _)

/-- the listed variables come first, in the order given -/
theorem arg_order_listed_first (listed : List String) (used : List Expr) :
    (argOrder listed used).take listed.length = listed := by
  simp [argOrder]

/-- **The order does not depend on how the dependency set happens to be iterated** (Python sets
have no order): any permutation of the set gives the same argument list. -/
theorem arg_order_perm (listed : List String) {used used' : List Expr} (h : used.Perm used') :
    argOrder listed used = argOrder listed used' := by
  unfold argOrder
  rw [sortStrings_perm_eq ((varNames_perm h).filter _)]

/-- What `_compile` stores and passes to `eval`: the expression, the listed variables, and an
argument list `listed ++ tail` whose tail is strictly increasing and is exactly the set of
variables occurring in the expression that are neither listed nor context names. -/
theorem compile_args (S : PrintPrec) (e : Expr) (listed : List String) (c : Compiled)
    (h : compileModel S e listed = .ok c) :
    c.expr = e ∧ c.vars = listed ∧ ∃ tail, c.args = listed ++ tail ∧ tail.Pairwise (· < ·) ∧
      ∀ x, x ∈ tail ↔ (x ∈ C09.fv e ∧ x ∉ listed ∧ x ∉ contextNames) := by
  unfold compileModel at h
  split at h
  · cases h
  · rename_i used hused
    split at h
    · cases h
    · rename_i s _
      simp only [pure, Except.pure, Except.ok.injEq] at h
      subst h
      refine ⟨rfl, rfl, ?_⟩
      obtain ⟨tail, htail, _, hmem, hstrict⟩ := arg_order_spec listed used
      refine ⟨tail, htail, hstrict (deps_pyNodup _ e used hused), ?_⟩
      intro x
      rw [hmem x, (C09.deps_off_eq_fv e used hused).2 x]

/-- **Pickling.**  The pickled state is `(expression, variables)` and `__setstate__` compiles it
again: the unpickled object has the same argument list and the same source. -/
theorem pickle_same (S : PrintPrec) (e : Expr) (listed : List String) (c : Compiled)
    (h : compileModel S e listed = .ok c) : setstate S c.getstate = .ok c := by
  obtain ⟨he, hv, _⟩ := compile_args S e listed c h
  simp only [setstate, Compiled.getstate, he, hv, h]

/-- the printer `compile` uses is the C06 stringifier except for constants -/
theorem compile_printer_is_stringifier (S : PrintPrec) (e : Expr) (enc : Nat) :
    strG S (constPieces S) false e enc = strE S e enc := strG_eq_strE S e enc

/-- … and since the repair of `CompileMapper.map_constant` (`repr` + the base class's sign
parenthesisation) its constant printer is the stringifier's too: with the base class's handler
for common subexpressions, `CompileMapper.rec` IS `StringifyMapper.rec` on the modelled fragment -/
theorem compile_printer_is_stringifier_repaired (S : PrintPrec) (e : Expr) (enc : Nat) :
    strG S (constPiecesRepr S) false e enc = strE S e enc := by
  rw [constPiecesRepr_eq]; exact strG_eq_strE S e enc

/-- **`CompileMapper` prints a tree as the stringifier prints the tree WITHOUT its
`CommonSubexpression` wrappers** (`map_common_subexpression`: the child at the enclosing
precedence) — on `cseShapeOk`: no wrapper stands where the base class looks at the node TYPE of a
child (a product / division operand whose parent forces parentheses, a tuple index, a `None`
slice part). -/
theorem compile_printer_strips_cse (S : PrintPrec) (e : Expr) (enc : Nat)
    (h : cseShapeOk e = true) :
    strG S (constPiecesRepr S) true e enc = strE S (stripCse e) enc := by
  rw [strG_bare_eq S _ e enc h]
  exact compile_printer_is_stringifier_repaired S (stripCse e) enc

/-- on a tree without wrappers the compile printer is the stringifier -/
theorem compile_printer_is_stringifier_cse_free (S : PrintPrec) (e : Expr) (enc : Nat)
    (h : cseShapeOk e = true) (hfree : stripCse e = e) :
    strG S (constPiecesRepr S) true e enc = strE S e enc := by
  rw [compile_printer_strips_cse S e enc h, hfree]

/-- **a wrapper means its child**: the wrapper-free tree has the value (or error) of the tree,
in every environment -/
theorem strip_cse_value (env : Env) (e : Expr) : den env (stripCse e) = den env e :=
  den_stripCse env e


/-! ## The compiled SOURCE under Python's grammar

`compile` hands CPython a TEXT.  The parser model of C06/C07 is generic in its precedence table;
run with `pythonPrec` (PV/Model/PyPrec.lean) it groups the way Python's expression grammar does —
that is the hand-written reference of DESIGN.md §3.4, tied to CPython's `ast.parse` on every run
by the stream `py-table` (all skeletons with ≤ 2 operators, sampled / all 3-operator skeletons,
random deeper strings) EXCEPT on four shapes that the SCHEME of the parser model cannot express
whatever the numbers; they are pinned down below (`python_table_grouping`, `python_table_prefix`,
and the else-branch, read at the lowest level).  The compile printer is the stringifier
(`compile_text_is_str`); the round-trip theorem of C06, instantiated with
(`pythonPrec`, stringifier table), then says: the source text of a tree of the fragment is read
back, under the Python table, as the tree itself. -/

section source
open PV.Syntax PV.Generated

/-- Python binds every pair of binary operators the way the parser model with `pythonPrec` does,
EXCEPT (a) `*` followed by `* / // %`: the scheme reads the right operand of `*` at the level of a
sum (`a*b/c` is `a*(b/c)`; for `a*b*c` the difference disappears once products are flattened),
(b) two comparisons: the scheme nests them, Python chains them.  Both shapes never occur in a
compiled source of the fragment (divisions next to products are force-parenthesised, comparison
operands of comparisons are parenthesised) and are excluded from the `py-table` tie. -/
theorem python_table_grouping :
    (C07.groupingDeviations pythonPrec).map (fun p => (p.1.sym, p.2.sym)) =
      [("*", "*"), ("*", "/"), ("*", "//"), ("*", "%"),
       ("==", "=="), ("==", "<"), ("<", "=="), ("<", "<")] := by
  decide

/-- a prefix `-` / `~` against every binary operator: as Python (in particular `-a**b` is
`-(a**b)`).  The keyword `not` cannot be ranked by the scheme (one level for all prefix
operators): `not a o b` is read `(not a) o b` for every binary `o` but `**`, Python reads
`not (a o b)` unless `o` is `and` / `or`. -/
theorem python_table_prefix :
    (C07.prefixDeviations pythonPrec).map (fun p => (p.1.sym, p.2.sym)) =
      [("not", "+"), ("not", "-"), ("not", "*"), ("not", "/"), ("not", "//"), ("not", "%"),
       ("not", "<<"), ("not", ">>"), ("not", "&"), ("not", "|"), ("not", "^"),
       ("not", "=="), ("not", "<")] := by
  decide

theorem python_table_guards_positive : C07.guardsPositive pythonPrec = true := by decide

/-- on every other pair of binary operators the parser model with the Python table returns
Python's grouping (`C07.pyGroup`, written down from the language reference) -/
theorem python_table_agrees (o1 o2 : BinTok) (h1 : o1 ∈ C07.binToks) (h2 : o2 ∈ C07.binToks)
    (hd : (o1, o2) ∉ C07.groupingDeviations pythonPrec) (a b c : String) :
    parseTop pythonPrec 0 [.ident a, .sym o1.sym, .ident b, .sym o2.sym, .ident c] =
      match C07.pyGroup o1 o2 with
      | .right => o2.build (.var b) (.var c) >>= o1.build (.var a)
      | _ => o1.build (.var a) (.var b) >>= fun l => o2.build l (.var c) := by
  rw [C07.two_operator_grouping python_table_guards_positive]
  have hmem : (o1, o2) ∈ C07.allPairs := by
    simp only [C07.allPairs, List.mem_flatMap, List.mem_map]
    exact ⟨o1, h1, o2, h2, rfl⟩
  have : C07.parserGroup pythonPrec o1 o2 = C07.pyGroup o1 o2 := by
    by_cases hne : C07.parserGroup pythonPrec o1 o2 = C07.pyGroup o1 o2
    · exact hne
    · exact absurd (List.mem_filter.mpr ⟨hmem, by simpa using hne⟩) hd
  have hnc : C07.pyGroup o1 o2 ≠ .chain := by
    rw [← this]; unfold C07.parserGroup; split <;> simp
  unfold C07.parserGroup at this
  split at this
  · rw [← this]; simp [*]
  · revert hnc
    rw [← this]; simp [*]

/-- the same for a prefix `-` / `~` (every binary operator) and for `not` before `**`, `and`,
`or` -/
theorem python_table_prefix_agrees (p : PreTok) (o : BinTok) (ho : o ∈ C07.binToks)
    (hd : (p, o) ∉ C07.prefixDeviations pythonPrec) (a b : String) :
    parseTop pythonPrec 0 [.sym p.sym, .ident a, .sym o.sym, .ident b] =
      if C07.pyPrefixWide p o then o.build (.var a) (.var b) >>= p.build
      else p.build (.var a) >>= fun l => o.build l (.var b) := by
  rw [C07.prefix_operator_grouping python_table_guards_positive]
  have hmem : (p, o) ∈ [PreTok.neg, .bnot, .lnot].flatMap fun p => C07.binToks.map fun o => (p, o) := by
    simp only [List.mem_flatMap, List.mem_map]
    exact ⟨p, by cases p <;> simp, o, ho, rfl⟩
  have : C07.absorbsPre pythonPrec o = C07.pyPrefixWide p o := by
    by_cases hne : C07.absorbsPre pythonPrec o = C07.pyPrefixWide p o
    · exact hne
    · exact absurd (List.mem_filter.mpr ⟨hmem, by simpa using hne⟩) hd
  rw [this]

example : parseTop pythonPrec 0 [.sym "-", .ident "a", .sym "**", .ident "b"]
    = .ok (.nary .prod [.const (.int (-1)), .bin .pow (.var "a") (.var "b")]) := by decide +kernel
example : parseTop pythonPrec 0 [.ident "a", .sym "&", .ident "b", .sym "==", .ident "c"]
    = .ok (.cmp .eq (.nary .band [.var "a", .var "b"]) (.var "c")) := by decide +kernel
example : parseTop pythonPrec 0 [.ident "a", .sym "|", .ident "b", .sym "^", .ident "c"]
    = .ok (.nary .bor [.var "a", .nary .bxor [.var "b", .var "c"]]) := by decide +kernel

/-- **The compiled source IS the stringifier's text of the wrapper-free tree** (since the
repairs of `CompileMapper.map_constant` and `map_common_subexpression`). -/
theorem compile_text_is_str (S : PrintPrec) (e : Expr) (h : cseShapeOk e = true) :
    compilePieces S e = strTop S (stripCse e) :=
  compile_printer_strips_cse S e S.none h

/-- **The compiled source groups the way the tree does, for ANY parser table and printer table**:
the round-trip theorem of C06 applied to the compiled source.  Let no wrapper of `e` stand where
the base class looks at a child's node type (`cseShapeOk`) and let the wrapper-free tree
`stripCse e` be in the C06 fragment `InFragment P S`.  Then the compiled source exists, its token
list is parsed — completely, with the fuel `parseTop` really uses — to the parser's normal form
`pnf (stripCse e)`, which is `stripCse e` once nested sums and products are flattened and which
prints to the same source; and `stripCse e` has the value of `e` in every environment. -/
theorem compile_source_groups_partial {P : ParserPrec} {S : PrintPrec} {e : Expr}
    (hs : cseShapeOk e = true) (h : InFragment P S (stripCse e) = true) :
    ∃ ps, compilePieces S e = .ok ps ∧ parseTop P 0 (toks ps) = .ok (pnf (stripCse e)) ∧
      flattenAssoc (pnf (stripCse e)) = flattenAssoc (stripCse e) ∧
      strTop S (pnf (stripCse e)) = .ok ps ∧ ∀ env, den env (stripCse e) = den env e := by
  obtain ⟨ps, hps⟩ := C06.print_total h
  have hp := C06.roundtrip_normal_form h hps
  simp only [InFragment, Bool.and_eq_true] at h
  refine ⟨ps, by rw [compile_text_is_str S e hs]; exact hps, hp, flatten_pnf h.1, ?_,
    fun env => den_stripCse env e⟩
  rw [← hps]
  exact str_pnf h.1 S.none

/-- the compiler's printer does not see the nesting of sums and products (nor the wrappers) -/
theorem compile_flatten_invariant (S : PrintPrec) {e : Expr} (hs : cseShapeOk e = true)
    (h : nonemptyNary (stripCse e) = true) :
    strTop S (flattenAssoc (stripCse e)) = compilePieces S e := by
  rw [compile_text_is_str S e hs]
  exact C06.str_flatten_invariant S h

/-- the same with sums and products nested in any way (the local conditions are checked on the
flattened wrapper-free tree) -/
theorem compile_source_groups_flat_partial {P : ParserPrec} {S : PrintPrec} {e : Expr}
    (hs : cseShapeOk e = true) (h : InFragmentFlat P S (stripCse e) = true) :
    ∃ ps e', compilePieces S e = .ok ps ∧ parseTop P 0 (toks ps) = .ok e' ∧
      flattenAssoc e' = flattenAssoc (stripCse e) ∧ ∀ env, den env (stripCse e) = den env e := by
  have h' := h
  simp only [InFragmentFlat, Bool.and_eq_true] at h'
  obtain ⟨ps, hps⟩ := C06.print_total h'.2
  rw [C06.str_flatten_invariant S h'.1] at hps
  obtain ⟨e', hp, hf, _⟩ := C06.roundtrip_flat_partial h hps
  exact ⟨ps, e', by rw [compile_text_is_str S e hs]; exact hps, hp, hf,
    fun env => den_stripCse env e⟩

/-- what `compile` stores as the body of the lambda is the rendering of `compilePieces` -/
theorem compile_src_is_render {S : PrintPrec} {e : Expr} {listed : List String} {c : Compiled}
    {ps : Pieces} (hc : compileModel S e listed = .ok c) (hps : compilePieces S e = .ok ps) :
    c.src = render ps ∧
      c.lambdaSrc = "lambda " ++ ",".intercalate c.args ++ ": " ++ render ps := by
  have hsrc : c.src = render ps := by
    unfold compileModel at hc
    split at hc
    · cases hc
    · split at hc
      · cases hc
      · rename_i s hs
        simp only [pure, Except.pure, Except.ok.injEq] at hc
        subst hc
        simp only [compileStr, hps, Except.map, Except.ok.injEq] at hs
        exact hs.symm
  exact ⟨hsrc, by simp only [Compiled.lambdaSrc, hsrc]⟩

/-- **C13 for the source text of the current code.**  Let `e` be in the fragment `InFragmentPy`
computed from the Python table and the REGENERATED stringifier table (covered node shapes, the
local condition `gOk` at every child: C06's condition with `repr` constants, and every `not`
operand parenthesised or where Python's grammar admits it), and let `compile(e, listed)`
succeed.  Then the body of the lambda handed to `eval` is the rendering of a piece list whose
tokens the parser model with the Python table reads — all of them — as a tree that is `e` without
its `CommonSubexpression` wrappers, once nested sums and products are flattened, and that tree
has the value of `e` in every environment: executing the source evaluates a tree that means what
the evaluator's tree means.  (The `not` condition is not used by the proof: it delimits the texts on which the
parser model with the Python table is tied to CPython.) -/
theorem compile_source_groups_current {e : Expr} {listed : List String} {c : Compiled}
    (h : InFragmentPy pythonPrec printPrec e = true)
    (hc : compileModel printPrec e listed = .ok c) :
    ∃ ps e', compilePieces printPrec e = .ok ps ∧ c.src = render ps ∧
      c.lambdaSrc = "lambda " ++ ",".intercalate c.args ++ ": " ++ render ps ∧
      parseTop pythonPrec 0 (toks ps) = .ok e' ∧ flattenAssoc e' = flattenAssoc (stripCse e) ∧
      ∀ env, den env (stripCse e) = den env e := by
  simp only [InFragmentPy, Bool.and_eq_true] at h
  obtain ⟨ps, hps, hparse, hflat, _, hden⟩ := compile_source_groups_partial h.1.1 h.1.2
  obtain ⟨h1, h2⟩ := compile_src_is_render hc hps
  exact ⟨ps, pnf (stripCse e), hps, h1, h2, hparse, hflat, hden⟩

/-- the same for trees whose sums and products are nested in any way -/
theorem compile_source_groups_flat_current {e : Expr} {listed : List String} {c : Compiled}
    (h : InFragmentPyFlat pythonPrec printPrec e = true)
    (hc : compileModel printPrec e listed = .ok c) :
    ∃ ps e', compilePieces printPrec e = .ok ps ∧ c.src = render ps ∧
      parseTop pythonPrec 0 (toks ps) = .ok e' ∧ flattenAssoc e' = flattenAssoc (stripCse e) ∧
      ∀ env, den env (stripCse e) = den env e := by
  simp only [InFragmentPyFlat, Bool.and_eq_true] at h
  obtain ⟨ps, e', hps, hparse, hflat, hden⟩ := compile_source_groups_flat_partial h.1.1 h.1.2
  exact ⟨ps, e', hps, (compile_src_is_render hc hps).1, hparse, hflat, hden⟩

/-- **Which (position, child class) pairs fail the local condition of C13** for the Python table
and the regenerated stringifier table — exactly these 40:
* GENUINE DEFECTS (known findings `compile:<Parent>>LogicalNot`, 12 parent classes): an
  unparenthesised `not …` as an operand of `+ * / // % << >> & ^ |`, of a comparison, or of `~`
  (the printer ranks `not` with the unary operators; Python reads `not a == b` as
  `not (a == b)` and rejects `a * not b`);
* NO LONGER in the list since the repair of `CompileMapper.map_constant` (findings
  `compile:Power>negative-int`, `compile:Power>negative-float`, now fixed): a negative constant
  as the base of a power or as a callee — `neg_const_pairs_ok`;
* NO DEFECT, the reparsed tree is nested differently but has the same value: a product as a
  non-last operand of a product / a sum as a non-first operand of a sum (equal once flattened;
  `compile_source_groups_flat_current`); a `& ^ | and or` node as the RIGHT operand of the same
  operator (`a & (b & c)` prints `a & b & c`, Python nests to the left: associative);
* NO DEFECT, an artefact of the local condition: a power under `~` / `not` (`~a**b`: read
  correctly by Python and by the parser model; the condition does not see that nothing can follow
  that a loop at the level of `*` would absorb);
* NO DEFECT in `compile`, a limit of the parser SCHEME (the else-branch is read at the lowest
  level): a conditional as an argument, element or slice part — Python reads
  `f(x if c else y, z)` correctly;
* shapes outside the value property (tuple as a non-tuple index, slice inside a slice). -/
theorem source_bad_pairs_current : gBadPairs pythonPrec printPrec =
    [(.std (.left .plus), .un .lnot),
     (.std (.left .times), .nary .prod), (.std (.left .times), .un .lnot),
     (.std (.left .quot), .un .lnot), (.std (.left .floordiv), .un .lnot),
     (.std (.left .rem), .un .lnot),
     (.std (.left .lshift), .un .lnot), (.std (.left .rshift), .un .lnot),
     (.std (.left .band), .un .lnot), (.std (.left .bxor), .un .lnot),
     (.std (.left .bor), .un .lnot), (.std (.left (.cmp .eq)), .un .lnot),
     (.std (.right .plus), .nary .sum), (.std (.right .plus), .un .lnot),
     (.std (.right .times), .un .lnot), (.std (.right .quot), .un .lnot),
     (.std (.right .floordiv), .un .lnot), (.std (.right .rem), .un .lnot),
     (.std (.right .lshift), .un .lnot), (.std (.right .rshift), .un .lnot),
     (.std (.right .band), .nary .band), (.std (.right .band), .un .lnot),
     (.std (.right .bxor), .nary .bxor), (.std (.right .bxor), .un .lnot),
     (.std (.right .bor), .nary .bor), (.std (.right .bor), .un .lnot),
     (.std (.right .land), .nary .land), (.std (.right .lor), .nary .lor),
     (.std (.right (.cmp .eq)), .un .lnot),
     (.std .unArg, .bin .pow), (.std .unArg, .un .lnot),
     (.std .arg, .ite), (.std .index, .tuple), (.std .elemFirst, .ite), (.std .elemRest, .ite),
     (.std .slicePart, .ite), (.std .slicePart, .slice), (.std .sliceLast, .ite),
     (.std .sliceLast, .slice),
     (.notArg, .bin .pow)] := by
  decide

private abbrev sa : Expr := .var "a"
private abbrev sb : Expr := .var "b"
private abbrev sz : Expr := .var "z"

/-- a tree of the fragment using every covered operator, with negative constants in loose and
in tight positions (`(-1)*a`, `b**(-2)`: parenthesised like `str` does) -/
def sourceSample : Expr :=
  .ite (.nary .lor [.un .lnot (.cmp .lt sa (.const (.int (-1)))), .nary .band [sa, sb]])
    (.nary .sum [.bin .quot (.nary .prod [.const (.int (-1)), sa, .bin .pow sb (.const (.int (-2)))])
        (.nary .sum [sa, .const (.int (-3))]),
      .bin .floordiv sa sb])
    (.bin .lshift (.un .bnot (.call (.var "f") [sa, .nary .bxor [sb, sz]])) (.const (.int 1)))

example : InFragmentPy pythonPrec printPrec sourceSample = true := by decide +kernel
example : (compilePieces printPrec sourceSample).map render
    = .ok ("((-1)*a*b**(-2)) / (a + -3) + a // b if not (a < -1) or a & b else ~f(a, b ^ z) << 1") := by
  decide +kernel

/-- **every position admits a signed constant** (the repaired printer parenthesises it exactly
where the context binds tighter than a sum): the local condition holds for the classes `neg` and
`sfloat` at ALL positions — in particular (base of a power, negative constant), the former
finding `compile:Power>negative-int` -/
theorem neg_const_pairs_ok (g : GPos) (hg : g ∈ allGPos) :
    gOk pythonPrec printPrec g .neg = true ∧ gOk pythonPrec printPrec g .sfloat = true := by
  revert g; decide

/-- the repaired source of `compile(Power(-2, a))` is `(-2)**a`; the tree is in the fragment and
the Python table reads the source as the tree -/
theorem compile_neg_base_source_ok :
    InFragmentPy pythonPrec printPrec (.bin .pow (.const (.int (-2))) sa) = true ∧
    (compilePieces printPrec (.bin .pow (.const (.int (-2))) sa)).map render = .ok "(-2)**a" ∧
    ∃ ps, compilePieces printPrec (.bin .pow (.const (.int (-2))) sa) = .ok ps ∧
      parseTop pythonPrec 0 (toks ps) = .ok (.bin .pow (.const (.int (-2))) sa) :=
  ⟨by decide +kernel, by decide +kernel, _, rfl, by decide +kernel⟩

/-- WHAT THE DEFECT WAS (the printer before the repair: `repr(c)`, never parenthesised —
`constPiecesReprBare`): `compile(Power(-2, a))` had the source `-2**a`, which the Python table
(like Python) reads as `-(2**a)` -/
theorem compile_neg_base_source_cex :
    ∃ ps e', strG printPrec constPiecesReprBare false (.bin .pow (.const (.int (-2))) sa) printPrec.none
        = .ok ps ∧
      render ps = "-2**a" ∧
      parseTop pythonPrec 0 (toks ps) = .ok e' ∧
      e' = .nary .prod [.const (.int (-1)), .bin .pow (.const (.int 2)) sa] ∧
      flattenAssoc e' ≠ flattenAssoc (.bin .pow (.const (.int (-2))) sa) :=
  ⟨_, _, rfl, by decide +kernel, by decide +kernel, rfl, by decide +kernel⟩

/-- negative constants in tight positions are inside the fragment: `a**(-2)`, `(-1)*a`,
`a / (-2)`, `~(-2)` -/
example : InFragmentPy pythonPrec printPrec
    (.nary .prod [.const (.int (-1)), .bin .quot (.bin .pow sa (.const (.int (-2)))) (.const (.int (-2))),
      .un .bnot (.const (.int (-2)))]) = true := by decide +kernel

/-- wrappers (with and without prefix, nested) are inside the fragment where the base class does
not look at the child's node type: `CSE(a + b)*c` has the source `(a + b)*c` -/
example : InFragmentPy pythonPrec printPrec
    (.nary .prod [.cse (.cse (.nary .sum [sa, sb]) (some "t") "e") none "e", .cse sz none "e"]) = true ∧
    (compilePieces printPrec
      (.nary .prod [.cse (.cse (.nary .sum [sa, sb]) (some "t") "e") none "e", .cse sz none "e"])).map render
      = .ok "(a + b)*z" := ⟨by decide +kernel, by decide +kernel⟩

/-- the forced parentheses look through wrappers (`CompileMapper.rec_with_force_parens_around`):
`compile(Quotient(z, CommonSubexpression(Product((a, b)))))` has the source `z / (a*b)` and is in
the fragment.  (A first version of the repair printed the child bare, `z / a*b` — Python:
`(z / a)*b`, 18 instead of 2 at a = 2, b = 3, z = 12; it was rejected because the proof of
`compile_printer_strips_cse` got stuck at exactly this shape.) -/
theorem compile_cse_forced_parens_ok :
    InFragmentPy pythonPrec printPrec (.bin .quot sz (.cse (.nary .prod [sa, sb]) none "e")) = true ∧
    (compilePieces printPrec (.bin .quot sz (.cse (.nary .prod [sa, sb]) none "e"))).map render
      = .ok "z / (a*b)" ∧
    (compilePieces printPrec (.nary .prod [sz, .cse (.cse (.bin .floordiv sa sb) (some "t") "e") none "e"])).map
      render = .ok "z*(a // b)" :=
  ⟨by decide +kernel, by decide +kernel, by decide +kernel⟩

/-- the two shapes `cseShapeOk` excludes: a wrapper around a tuple index prints `a[(b, z)]`
(the stringifier's text of the wrapper-free tree is `a[b, z]`: the same Python value, the same
parse), a wrapper around `None` in a slice is a foreign object -/
theorem compile_cse_index_tuple_witness :
    cseShapeOk (.subscript sa (.cse (.tuple [sb, sz]) none "e")) = false ∧
    (compilePieces printPrec (.subscript sa (.cse (.tuple [sb, sz]) none "e"))).map render
      = .ok "a[(b, z)]" ∧
    (strTop printPrec (stripCse (.subscript sa (.cse (.tuple [sb, sz]) none "e")))).map render
      = .ok "a[b, z]" ∧
    ∃ ps, compilePieces printPrec (.subscript sa (.cse (.tuple [sb, sz]) none "e")) = .ok ps ∧
      parseTop pythonPrec 0 (toks ps) = .ok (.subscript sa (.tuple [sb, sz])) :=
  ⟨by decide +kernel, by decide +kernel, by decide +kernel, _, rfl, by decide +kernel⟩

/-- the `not` condition is needed for the tie to Python, not for the parser model: the scheme
reads `not a == b` as `(not a) == b` (one level for all prefix operators), Python as
`not (a == b)`; `notOk` excludes the tree -/
theorem compile_not_scheme_cex :
    InFragment pythonPrec printPrec (.cmp .eq (.un .lnot sa) sb) = true ∧
    notOk pythonPrec printPrec (.cmp .eq (.un .lnot sa) sb) = false ∧
    parseTop pythonPrec 0 [.sym "not", .ident "a", .sym "==", .ident "b"]
      = .ok (.cmp .eq (.un .lnot sa) sb) :=
  ⟨by decide +kernel, by decide +kernel, by decide +kernel⟩

/-- where Python admits `not`: operands of `and` / `or`, parts of a conditional, arguments, the
operand of another `not` -/
example : notOk pythonPrec printPrec
    (.ite (.un .lnot sa) (.nary .land [.un .lnot sa, .un .lnot (.un .lnot sb)])
      (.call (.var "f") [.un .lnot sa])) = true := by decide +kernel

end source

/-! ## The mapper's memo table is transparent -/

section
variable {U : Expr → Prop}

mutual
theorem astNode_sim (hU : Universe U) : ∀ e, U e → SimA U (toAstNode e) (toAst e)
  | .const c, _ => by simp only [toAstNode, toAst]; exact SimA.lift _
  | .var x, _ => by simp only [toAstNode, toAst]; exact SimA.pure _
  | .nary .lor cs, h => by
      simp only [toAstNode, toAst]
      exact SimA.bind (astList_sim hU cs (hU.closed _ h)) fun xs => SimA.pure _
  | .nary .land cs, h => by
      simp only [toAstNode, toAst]
      exact SimA.bind (astList_sim hU cs (hU.closed _ h)) fun xs => SimA.pure _
  | .nary .min _, _ => by simp only [toAstNode, toAst]; exact SimA.throw _
  | .nary .max _, _ => by simp only [toAstNode, toAst]; exact SimA.throw _
  | .nary .sum cs, h => by
      simp only [toAstNode, toAst]
      exact SimA.bind (astList_sim hU cs (hU.closed _ h)) fun xs => SimA.lift _
  | .nary .prod cs, h => by
      simp only [toAstNode, toAst]
      exact SimA.bind (astList_sim hU cs (hU.closed _ h)) fun xs => SimA.lift _
  | .nary .bor cs, h => by
      simp only [toAstNode, toAst]
      exact SimA.bind (astList_sim hU cs (hU.closed _ h)) fun xs => SimA.lift _
  | .nary .bxor cs, h => by
      simp only [toAstNode, toAst]
      exact SimA.bind (astList_sim hU cs (hU.closed _ h)) fun xs => SimA.lift _
  | .nary .band cs, h => by
      simp only [toAstNode, toAst]
      exact SimA.bind (astList_sim hU cs (hU.closed _ h)) fun xs => SimA.lift _
  | .bin o a b, h => by
      have ha : U a := hU.closed _ h a (by simp [Expr.children])
      have hb : U b := hU.closed _ h b (by simp [Expr.children])
      simp only [toAstNode, toAst]
      exact SimA.bind (SimA.memo hU ha (astNode_sim hU a ha)) fun x =>
        SimA.bind (SimA.memo hU hb (astNode_sim hU b hb)) fun y => SimA.pure _
  | .un .bnot a, h => by
      have ha : U a := hU.closed _ h a (by simp [Expr.children])
      simp only [toAstNode, toAst]
      exact SimA.bind (SimA.memo hU ha (astNode_sim hU a ha)) fun x => SimA.pure _
  | .un .lnot a, h => by
      have ha : U a := hU.closed _ h a (by simp [Expr.children])
      simp only [toAstNode, toAst]
      exact SimA.bind (SimA.memo hU ha (astNode_sim hU a ha)) fun x => SimA.pure _
  | .cmp .., _ => by simp only [toAstNode, toAst]; exact SimA.throw _
  | .ite c t e, h => by
      have hc : U c := hU.closed _ h c (by simp [Expr.children])
      have ht : U t := hU.closed _ h t (by simp [Expr.children])
      have he : U e := hU.closed _ h e (by simp [Expr.children])
      simp only [toAstNode, toAst]
      exact SimA.bind (SimA.memo hU hc (astNode_sim hU c hc)) fun x =>
        SimA.bind (SimA.memo hU ht (astNode_sim hU t ht)) fun y =>
          SimA.bind (SimA.memo hU he (astNode_sim hU e he)) fun z => SimA.pure _
  | .call f as, h => by
      have hf : U f := hU.closed _ h f (by simp [Expr.children])
      have has : ∀ c ∈ as, U c := fun c hc => hU.closed _ h c (by simp [Expr.children, hc])
      simp only [toAstNode, toAst]
      exact SimA.bind (SimA.memo hU hf (astNode_sim hU f hf)) fun g =>
        SimA.bind (astList_sim hU as has) fun xs => SimA.pure _
  | .callKw f as ns vs, h => by
      have hf : U f := hU.closed _ h f (by simp [Expr.children])
      have has : ∀ c ∈ as, U c := fun c hc => hU.closed _ h c (by simp [Expr.children, hc])
      have hvs : ∀ c ∈ vs, U c := fun c hc => hU.closed _ h c (by simp [Expr.children, hc])
      simp only [toAstNode, toAst]
      exact SimA.bind (SimA.memo hU hf (astNode_sim hU f hf)) fun g =>
        SimA.bind (astList_sim hU as has) fun xs =>
          SimA.bind (SimA.mapIdx (fun i => astNth_sim hU vs hvs i) _) fun ys => SimA.pure _
  | .subscript a i, h => by
      have ha : U a := hU.closed _ h a (by simp [Expr.children])
      have hi : U i := hU.closed _ h i (by simp [Expr.children])
      simp only [toAstNode, toAst]
      exact SimA.bind (SimA.memo hU ha (astNode_sim hU a ha)) fun x =>
        SimA.bind (SimA.memo hU hi (astNode_sim hU i hi)) fun y => SimA.pure _
  | .lookup a n, h => by
      have ha : U a := hU.closed _ h a (by simp [Expr.children])
      simp only [toAstNode, toAst]
      exact SimA.bind (SimA.memo hU ha (astNode_sim hU a ha)) fun x => SimA.pure _
  | .tuple cs, h => by
      simp only [toAstNode, toAst]
      exact SimA.bind (astList_sim hU cs (hU.closed _ h)) fun xs => SimA.pure _
  | .list cs, h => by
      simp only [toAstNode, toAst]
      exact SimA.bind (astList_sim hU cs (hU.closed _ h)) fun xs => SimA.pure _
  | .slice cs, h => by
      simp only [toAstNode, toAst]
      exact SimA.bind (astList_sim hU cs (hU.closed _ h)) fun xs => SimA.lift _
  | .nan, _ => by simp only [toAstNode, toAst]; exact SimA.throw _
  | .cse .., _ => by simp only [toAstNode, toAst]; exact SimA.throw _
  | .subst .., _ => by simp only [toAstNode, toAst]; exact SimA.throw _
  | .deriv .., _ => by simp only [toAstNode, toAst]; exact SimA.throw _
  | .wildcard, _ => by simp only [toAstNode, toAst]; exact SimA.throw _
  | .dotWild _, _ => by simp only [toAstNode, toAst]; exact SimA.throw _
  | .starWild _, _ => by simp only [toAstNode, toAst]; exact SimA.throw _
  | .funcSym, _ => by simp only [toAstNode, toAst]; exact SimA.throw _
theorem astList_sim (hU : Universe U) : ∀ cs : List Expr, (∀ c ∈ cs, U c) →
    SimA U (toAstCL cs) (toAstL cs)
  | [], _ => by simp only [toAstCL, toAstL]; exact SimA.pure _
  | c :: cs, h => by
      have hc : U c := h c (by simp)
      simp only [toAstCL, toAstL]
      exact SimA.bind (SimA.memo hU hc (astNode_sim hU c hc)) fun x =>
        SimA.bind (astList_sim hU cs fun d hd => h d (by simp [hd])) fun xs => SimA.pure _
theorem astNth_sim (hU : Universe U) : ∀ cs : List Expr, (∀ c ∈ cs, U c) → ∀ i : Nat,
    SimA U (toAstCNth cs i) (toAstNth cs i)
  | [], _, _ => by simp only [toAstCNth, toAstNth]; exact SimA.throw _
  | c :: _, h, 0 => by
      have hc : U c := h c (by simp)
      simp only [toAstCNth, toAstNth]
      exact SimA.memo hU hc (astNode_sim hU c hc)
  | _ :: cs, h, i + 1 => by
      simp only [toAstCNth, toAstNth]
      exact astNth_sim hU cs (fun d hd => h d (by simp [hd])) i
end

/-- **`to_python_ast` as coded (a `CachedMapper`) computes the memo-free mapping** — same AST, same
refusal — on every set of expressions closed under children on which Python `==` is structural
identity and which contains no Python list (`Universe`, as for the caching evaluator of C02).
Outside such a universe the memo table aliases `==`-equal subterms (`toAstC_alias_witness`). -/
theorem toAstC_eq_toAst (hU : Universe U) (e : Expr) (he : U e) : toAstC e = toAst e := by
  have h := SimA.memo hU he (astNode_sim hU e he) [] (fun _ _ hm => by simp at hm)
  unfold toAstC
  cases hm : withAstCache e (toAstNode e) [] with
  | error err => rw [hm] at h; simp only [h]
  | ok p =>
    obtain ⟨r, s⟩ := p
    rw [hm] at h
    simp only [h.1]

/-- instance: expressions without bool / float constants, keyword calls and lists -/
theorem toAstC_eq_toAst_simple (e : Expr) (he : e.simple = true) : toAstC e = toAst e :=
  toAstC_eq_toAst universe_simple e he

end

/-! ## Witnesses: where the hypotheses are needed, and the open defects mirrored in the model -/

private def va : Expr := .var "a"
private def vb : Expr := .var "b"

/-- `compile(Power(-2, a))` has the source `(-2)**a`, like the generic stringifier and the AST
path (before the repair of `CompileMapper.map_constant` it was `-2**a`, Python: `-(2**a)`) -/
theorem compile_neg_base_witness :
    compilePieces Generated.printPrec (.bin .pow (.const (.int (-2))) va)
      = .ok [sy "(", sy "-", .tok (.int 2), sy ")", sy "**", .tok (.ident "a")]
    ∧ strG Generated.printPrec constPiecesReprBare false (.bin .pow (.const (.int (-2))) va)
        Generated.printPrec.none
      = .ok [sy "-", .tok (.int 2), sy "**", .tok (.ident "a")]
    ∧ strTop Generated.printPrec (.bin .pow (.const (.int (-2))) va)
      = .ok [sy "(", sy "-", .tok (.int 2), sy ")", sy "**", .tok (.ident "a")]
    ∧ toAst (.bin .pow (.const (.int (-2))) va)
      = .ok (.binop (.unop .usub (.const (.int 2))) .pow (.name "a")) := by
  refine ⟨rfl, rfl, rfl, rfl⟩

/-- `compile(Comparison(LogicalNot(a), "==", b))` has the source `not a == b`; Python reads it as
`not (a == b)` -/
theorem compile_not_source_witness :
    compilePieces Generated.printPrec (.cmp .eq (.un .lnot va) vb)
      = .ok [sy "not", .sp, .tok (.ident "a"), .sp, sy "==", .sp, .tok (.ident "b")] := rfl

/-- `and` returns an operand: without the boolean-operand hypothesis the values differ -/
theorem toAst_and_operand_cex :
    ∃ env e a, toAst e = .ok a ∧ denAst env a = .ok (.int 3) ∧ den env e = .ok (.bool true) :=
  ⟨[("a", .int 2), ("b", .int 3)], .nary .land [va, vb], _, rfl, rfl, rfl⟩

/-- a one-operand sum of a `bool`: the evaluator computes `0 + True = 1`, the AST is the operand -/
theorem toAst_single_bool_cex :
    ∃ env e a, toAst e = .ok a ∧ denAst env a = .ok (.bool true) ∧ den env e = .ok (.int 1) :=
  ⟨[("a", .bool true)], .nary .sum [va], _, rfl, rfl, rfl⟩

/-- a one-operand `or`: the AST is a `BoolOp` with a single value, which CPython rejects -/
theorem toAst_single_boolop_cex :
    ∃ env e a, toAst e = .ok a ∧ runAst env a = .error .valueError ∧ den env e = .ok (.bool true) :=
  ⟨[("a", .int 2)], .nary .lor [va], _, rfl, rfl, rfl⟩

/-- right nesting changes WHICH error is raised when an operand is not of the operator's type:
the evaluator fails at `a | b` before looking at the third operand, the AST evaluates all
operands first -/
theorem toAst_error_order_cex :
    ∃ env e a, toAst e = .ok a ∧ denAst env a = .error .zeroDiv ∧ den env e = .error .typeError :=
  ⟨[("a", .none), ("b", .int 1)],
   .nary .bor [va, vb, .bin .floordiv (.const (.int 1)) (.const (.int 0))], _, rfl, rfl, rfl⟩

/-- the memo table of the real mapper aliases `==`-equal subterms: `(1 + x, True + x)` -/
theorem toAstC_alias_witness :
    toAstC (.tuple [.nary .sum [.const (.int 1), va], .nary .sum [.const (.bool true), va]])
      = .ok (.tuple [.binop (.const (.int 1)) .add (.name "a"),
                     .binop (.const (.int 1)) .add (.name "a")])
    ∧ toAst (.tuple [.nary .sum [.const (.int 1), va], .nary .sum [.const (.bool true), va]])
      = .ok (.tuple [.binop (.const (.int 1)) .add (.name "a"),
                     .binop (.const (.bool true)) .add (.name "a")]) := ⟨rfl, rfl⟩

/-! ## Non-vacuity -/

example : AstOk [("a", .frac (1/2)), ("b", .int 3)] (.nary .sum [va, vb, .nary .prod [va, vb]]) := by
  simp only [AstOk, AstOkL, OperandsOk, ArithOperand, Value.isExactNum, va, vb, den, denFold, Env.get]
  simp [Value.num?, Value.isBoolV, NaryOp.apply, Value.mul, arith, Value.isInexact, Value.isSeq,
    mulN, pure, Except.pure, bind, Except.bind]

example : AstOk [("a", .bool true), ("b", .int 6)] (.nary .bxor [va, vb, .nary .band [va, va], vb]) := by
  simp only [AstOk, AstOkL, OperandsOk, BitOperand, va, vb, den, denReduce, denFold, Env.get]
  simp [Value.ib?, NaryOp.apply, Value.band, bitop, pure, Except.pure, bind, Except.bind]

example : RtOk (.nary .sum [va, vb, .nary .prod [va, .const (.int (-2))]]) := by
  simp [RtOk, RtOkL, NaryOp.isAssoc, va, vb]

example : (compileModel Generated.printPrec (.nary .sum [.var "z", .var "y", va]) ["y"]).map (·.args)
    = .ok ["y", "a", "z"] := by decide

/-- a variable that occurs only inside a `CommonSubexpression` wrapper is an argument like any
other (the dependency scan enters wrappers; `compile_args` speaks about the ORIGINAL tree), and
the source is that of the wrapper-free tree -/
example : (compileModel Generated.printPrec
      (.nary .sum [.cse (.var "z") none "e", va, .cse (.cse (.nary .prod [vb, .const (.int 2)]) (some "t") "e") none "e"])
      ["b"]).map (fun c => (c.args, c.src))
    = .ok (["b", "a", "z"], "z + a + b*2") := by decide +kernel

end PV.C13
