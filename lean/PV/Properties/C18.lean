import PV.Proofs.GAPow
import Mathlib.Algebra.Ring.Rat
import Mathlib.Algebra.Field.Rat
import Mathlib.Algebra.Polynomial.Basic
import Mathlib.Data.ZMod.Defs
/-
  C18 — property theorems: multivectors obey the Clifford-algebra axioms.

  The model (`PV/Model/GA.lean`) mirrors `pymbolic/geometric_algebra/__init__.py` loop by loop;
  blades are `Nat` bitmaps, so every statement below holds for ALL bitmaps, i.e. in every dimension.
  `g : Nat → R` is the diagonal of the metric.  `pc` is the clean binary-recursive popcount
  (`PV/Proofs/GABits.lean`), `prodBits g s = ∏ {g i | bit i of s set}` (`PV/Proofs/GA.lean`),
  `coeff d k = d.get(k, 0)`, `NodupKeys d` = distinct keys (every Python dict), `Pruned d` = distinct
  keys and no stored zero (`PV/Proofs/GAMV.lean`).

  COEFFICIENTS.  The multivector model is generic in the coefficient type; every multivector-level
  theorem below is stated for an arbitrary commutative ring `R` (Mathlib `CommRing R`) — integers,
  exact rationals (`Rat`, Python `Fraction`), polynomial rings (symbolic coefficients modulo ring
  equality), `ZMod n`, … .  `[DecidableEq R]` is the zero test `is_zero(x)` = `x == 0` deciding
  equality with zero.  The section "which zero test is needed" states the same facts for an
  ARBITRARY zero test `z : R → Bool`: everything about WHAT a result denotes (coefficient formula,
  bilinearity, associativity, reverse) needs only `ZSound z` (`z x → x = 0`); that the result is
  stored WITHOUT zeros — and with it everything phrased with `==`, `bool`, `hash` — needs
  `ZComplete z` (`x = 0 → z x`) in addition.
-/
namespace PV.C18
open PV.GA

/-! ### (a) `bit_count` -/

/-- the Kernighan loop `while i: i &= i-1; count += 1` returns the number of set bits -/
theorem bitCount_eq_popcount (i : Nat) : bitCount i = pc i := PV.GA.bitCount_eq_popcount i

example : bitCount 0b101101 = pc 0b101101 := bitCount_eq_popcount _
example : pc 0b101101 = 4 := by decide +kernel
example : bitCount 0b101101 = 4 := by decide +kernel

/-! ### (b) `canonical_reordering_sign`: inversion count, bilinear mod 2 -/

/-- the accumulated `s` is the number of inversions between the two blades -/
theorem reorderSignExp_eq_inversions (n a b : Nat) (ha : a < 2 ^ n) (hb : b < 2 ^ n) :
    reorderSignExp a b = inversions n a b := PV.GA.reorderSignExp_eq_inversions n a b ha hb

/-- …and satisfies the one-bit recursion that characterises the inversion count -/
theorem reorderSignExp_halve (a b : Nat) :
    reorderSignExp a b = (b % 2) * pc (a / 2) + reorderSignExp (a / 2) (b / 2) :=
  PV.GA.reorderSignExp_halve a b

theorem reorderSignExp_xor_right (a b c : Nat) :
    reorderSignExp a (b ^^^ c) % 2 = (reorderSignExp a b + reorderSignExp a c) % 2 :=
  PV.GA.reorderSignExp_xor_right a b c

theorem reorderSignExp_xor_left (a b c : Nat) :
    reorderSignExp (a ^^^ b) c % 2 = (reorderSignExp a c + reorderSignExp b c) % 2 :=
  PV.GA.reorderSignExp_xor_left a b c

/-- `sign_is_inversion_parity` -/
theorem sign_is_inversion_parity (n a b : Nat) (ha : a < 2 ^ n) (hb : b < 2 ^ n) :
    reorderSign a b = if inversions n a b % 2 = 0 then 1 else -1 := by
  rw [reorderSign_eq_sgn, PV.GA.reorderSignExp_eq_inversions n a b ha hb]; rfl

example : reorderSignExp 0b110 0b011 = inversions 3 0b110 0b011 :=
  reorderSignExp_eq_inversions 3 _ _ (by decide) (by decide)
example : inversions 3 0b110 0b011 = 3 := by decide
example : reorderSignExp 0b1011 (0b0110 ^^^ 0b1100) % 2
    = (reorderSignExp 0b1011 0b0110 + reorderSignExp 0b1011 0b1100) % 2 :=
  reorderSignExp_xor_right _ _ _

/-! ### (c) sign cocycle, (d) metric cocycle, blade associativity -/

theorem sign_cocycle (a b c : Nat) :
    reorderSign a b * reorderSign (a ^^^ b) c = reorderSign b c * reorderSign a (b ^^^ c) :=
  PV.GA.sign_cocycle a b c

/-- `_shared_metric_coeff` is the product of the diagonal metric entries over the set bits -/
theorem sharedMetricCoeff_eq_prodBits {R : Type} [CommMonoid R] (g : Nat → R) (s : Nat) :
    sharedMetricCoeff g s = prodBits g s := PV.GA.sharedMetricCoeff_eq_prodBits g s

theorem wGeometric_eq_prodBits {R : Type} [CommMonoid R] (g : Nat → R) (a b : Nat) :
    wGeometric g a b = prodBits g (a &&& b) := PV.GA.wGeometric_eq_prodBits g a b

theorem metric_cocycle {R : Type} [CommMonoid R] (g : Nat → R) (a b c : Nat) :
    wGeometric g a b * wGeometric g (a ^^^ b) c = wGeometric g b c * wGeometric g a (b ^^^ c) :=
  PV.GA.wGeometric_cocycle g a b c

/-- `(e_a e_b) e_c = e_a (e_b e_c)` on basis blades, over any commutative ring -/
theorem blade_cocycle {R : Type} [CommRing R] (g : Nat → R) (a b c : Nat) :
    ((reorderSign a b : Int) : R) * ((reorderSign (a ^^^ b) c : Int) : R)
        * (wGeometric g a b * wGeometric g (a ^^^ b) c)
      = ((reorderSign b c : Int) : R) * ((reorderSign a (b ^^^ c) : Int) : R)
        * (wGeometric g b c * wGeometric g a (b ^^^ c)) :=
  PV.GA.blade_cocycle g a b c

example : reorderSign 0b011 0b110 * reorderSign (0b011 ^^^ 0b110) 0b101
    = reorderSign 0b110 0b101 * reorderSign 0b011 (0b110 ^^^ 0b101) := sign_cocycle _ _ _
example (g : Nat → Int) : wGeometric g 3 6 * wGeometric g (3 ^^^ 6) 5
    = wGeometric g 6 5 * wGeometric g 3 (6 ^^^ 5) := metric_cocycle g 3 6 5
example : blade_cocycle (fun i => if i = 0 then (-1 : Int) else 1) 3 6 5 = blade_cocycle _ 3 6 5 :=
  rfl

/-! ### (e) basis vectors -/

/-- `e_i * e_i = g i` (a null vector gives the empty dict), over any commutative ring -/
theorem basis_square {R : Type} [CommRing R] [DecidableEq R] (g : Nat → R) (i : Nat) :
    mvMul g [(2 ^ i, 1)] [(2 ^ i, 1)] = if g i = 0 then [] else [(0, g i)] :=
  basis_square_mv g i

/-- blade level: sign `+1`, result blade `0`, weight `g i` -/
theorem basis_square_blade {R : Type} [CommMonoid R] (g : Nat → R) (i : Nat) :
    reorderSign (2 ^ i) (2 ^ i) = 1 ∧ 2 ^ i ^^^ 2 ^ i = 0 ∧ wGeometric g (2 ^ i) (2 ^ i) = g i :=
  ⟨(basis_square_sign i).1, (basis_square_sign i).2, wGeometric_basis_self g i⟩

/-- `e_i * e_j = -(e_j * e_i)` for `i ≠ j`, with a single term of weight 1 (in the zero ring every
    product is the empty dict, hence `Nontrivial`) -/
theorem basis_anticommute {R : Type} [CommRing R] [DecidableEq R] [Nontrivial R] (g : Nat → R)
    {i j : Nat} (h : i ≠ j) :
    mvMul g [(2 ^ i, 1)] [(2 ^ j, 1)] = [(2 ^ i ^^^ 2 ^ j, reorderSignR (2 ^ i) (2 ^ j))]
    ∧ mvMul g [(2 ^ i, 1)] [(2 ^ j, 1)] = mvNeg (mvMul g [(2 ^ j, 1)] [(2 ^ i, 1)]) :=
  basis_anticommute_mv g h

theorem basis_anticommute_blade {i j : Nat} (h : i ≠ j) :
    reorderSign (2 ^ i) (2 ^ j) = - reorderSign (2 ^ j) (2 ^ i) := basis_anticommute_sign h

/-- `e_i e_j` is already in canonical order iff `i ≤ j` -/
theorem reorderSignExp_basis (i j : Nat) :
    reorderSignExp (2 ^ i) (2 ^ j) = if j < i then 1 else 0 := reorderSignExp_two_pow i j

/-- the sign the products multiply by is the integer sign, in every ring -/
theorem reorderSignR_eq_sign {R : Type} [CommRing R] (a b : Nat) :
    (reorderSignR a b : R) = ((reorderSign a b : Int) : R) := reorderSignR_eq_cast a b

example : mvMul (fun i => if i = 2 then (-1 : Int) else 1) [(2 ^ 2, 1)] [(2 ^ 2, 1)] = [(0, -1)] :=
  basis_square _ 2
example (g : Nat → Int) : mvMul g [(2 ^ 1, 1)] [(2 ^ 4, 1)]
    = mvNeg (mvMul g [(2 ^ 4, 1)] [(2 ^ 1, 1)]) := (basis_anticommute g (by decide)).2
example (g : Nat → Rat) : mvMul g [(2 ^ 1, 1)] [(2 ^ 4, 1)]
    = mvNeg (mvMul g [(2 ^ 4, 1)] [(2 ^ 1, 1)]) := (basis_anticommute g (by decide)).2

/-! ### (f) the other five products are grade parts of the geometric product

For any coefficient type with `*`, `0`, `1` (no laws needed). -/

section
variable {R : Type} [Mul R] [OfNat R 0] [OfNat R 1] (g : Nat → R) (a b : Nat)

theorem outer_is_grade_part :
    wOuter g a b =
      if bitCount (a ^^^ b) = bitCount a + bitCount b then wGeometric g a b else 0 :=
  wOuter_eq_grade_part g a b

/-- the inner product as coded is the "fat dot": grade `| |a| - |b| |`, scalars NOT excluded -/
theorem inner_is_grade_part :
    wInner g a b =
      if bitCount (a ^^^ b) = max (bitCount a - bitCount b) (bitCount b - bitCount a)
      then wGeometric g a b else 0 :=
  wInner_eq_grade_part g a b

theorem lc_is_grade_part :
    wLeftContraction g a b =
      if bitCount a ≤ bitCount b ∧ bitCount (a ^^^ b) = bitCount b - bitCount a
      then wGeometric g a b else 0 :=
  wLeftContraction_eq_grade_part g a b

theorem rc_is_grade_part :
    wRightContraction g a b =
      if bitCount b ≤ bitCount a ∧ bitCount (a ^^^ b) = bitCount a - bitCount b
      then wGeometric g a b else 0 :=
  wRightContraction_eq_grade_part g a b

theorem scalar_is_grade_part :
    wScalar g a b = if bitCount (a ^^^ b) = 0 then wGeometric g a b else 0 :=
  wScalar_eq_grade_part g a b

end

/-- the set-theoretic side of the grade conditions -/
theorem grade_conditions (a b : Nat) :
    (a &&& b = 0 ↔ pc (a ^^^ b) = pc a + pc b)
    ∧ (a &&& b = a ↔ pc a ≤ pc b ∧ pc (a ^^^ b) = pc b - pc a)
    ∧ (a &&& b = b ↔ pc b ≤ pc a ∧ pc (a ^^^ b) = pc a - pc b)
    ∧ (a = b ↔ pc (a ^^^ b) = 0)
    ∧ ((a &&& b = a ∨ a &&& b = b) ↔ pc (a ^^^ b) = max (pc a - pc b) (pc b - pc a))
    ∧ pc (a ^^^ b) + 2 * pc (a &&& b) = pc a + pc b :=
  ⟨disjoint_iff_grade a b, subset_iff_grade a b, supset_iff_grade a b, eq_iff_grade a b,
    nested_iff_grade a b, pc_xor_add a b⟩

example (g : Nat → Int) : wLeftContraction g 0b010 0b110
    = if bitCount 0b010 ≤ bitCount 0b110 ∧ bitCount (0b010 ^^^ 0b110) = bitCount 0b110 - bitCount 0b010
      then wGeometric g 0b010 0b110 else 0 := lc_is_grade_part g _ _
example (g : Nat → Int) : wInner g 0 0b110 = wGeometric g 0 0b110 := by
  rw [inner_is_grade_part, if_pos (by decide +kernel)]

/-! ### (g) `rev`, `invol`, commutation -/

/-- `rev` multiplies a grade-`k` blade by `(-1)^(k(k-1)/2)`, which is the reordering sign of the
    blade against itself -/
theorem rev_sign (a : Nat) :
    revSign a = (if pc a * (pc a - 1) / 2 % 2 = 0 then 1 else -1) ∧ revSign a = reorderSign a a := by
  refine ⟨?_, revSign_eq_reorderSign_self a⟩
  unfold revSign; rw [PV.GA.bitCount_eq_popcount]

/-- `e_b e_a = (-1)^(|a||b| - |a ∩ b|) e_a e_b` -/
theorem reorderSign_swap (a b : Nat) :
    reorderSign b a = sgn (pc a * pc b - pc (a &&& b)) * reorderSign a b :=
  PV.GA.reorderSign_swap a b

/-- blade level: `rev (e_a e_b) = rev e_b * rev e_a` -/
theorem rev_antiauto_blade (a b : Nat) :
    revSign (a ^^^ b) * reorderSign a b = reorderSign b a * (revSign b * revSign a) :=
  rev_antiauto_sign a b

/-- blade level: `invol (e_a e_b) = invol e_a * invol e_b` -/
theorem invol_auto_blade (a b : Nat) : involSign (a ^^^ b) = involSign a * involSign b :=
  invol_auto_sign a b

/-- `(A * B).rev() == B.rev() * A.rev()` for all multivectors over any commutative ring -/
theorem rev_antiauto {R : Type} [CommRing R] [DecidableEq R] (g : Nat → R) (a b : MVOf R) :
    mvEq (rev (mvMul g a b)) (mvMul g (rev b) (rev a)) = true :=
  (mvEq_iff_coeffwise (pruned_rev (genericProduct_pruned _ _ _)) (genericProduct_pruned _ _ _)).2
    (coeff_rev_mul isZeroD_sound g a b)

/-- `(A · B).invol() == A.invol() · B.invol()` for each of the six products -/
theorem invol_auto {R : Type} [CommRing R] [DecidableEq R] (w : Nat → Nat → R) (a b : MVOf R) :
    mvEq (invol (genericProduct w a b)) (genericProduct w (invol a) (invol b)) = true :=
  (mvEq_iff_coeffwise (pruned_invol (genericProduct_pruned _ _ _)) (genericProduct_pruned _ _ _)).2
    (coeff_invol_genericProductZ isZeroD_sound w a b)

/-- `rev` and `invol` are involutions and act blade-wise by the signs `(-1)^(k(k-1)/2)`, `(-1)^k` -/
theorem rev_invol_spec {R : Type} [CommRing R] (a : MVOf R) :
    rev (rev a) = a ∧ invol (invol a) = a
    ∧ (∀ k, coeff (rev a) k = ((revSign k : Int) : R) * coeff a k)
    ∧ (∀ k, coeff (invol a) k = ((involSign k : Int) : R) * coeff a k) :=
  ⟨rev_rev a, invol_invol a, coeff_rev a, coeff_invol a⟩

example : reorderSign 0b0110 0b1011
    = sgn (pc 0b1011 * pc 0b0110 - pc (0b1011 &&& 0b0110)) * reorderSign 0b1011 0b0110 :=
  reorderSign_swap _ _
example : revSign 0b111 = -1 := by rw [(rev_sign _).1]; decide +kernel
example (g : Nat → Rat) (a b : MVOf Rat) :
    mvEq (rev (mvMul g a b)) (mvMul g (rev b) (rev a)) = true := rev_antiauto g a b

/-! ### (h) multivectors: pruning, coefficient formula, bilinearity, associativity

For every commutative ring `R` with decidable equality. -/

section
variable {R : Type} [CommRing R] [DecidableEq R]

/-- whatever the operands, a product never stores a zero coefficient or a duplicate key -/
theorem product_pruned (w : Nat → Nat → R) (a b : MVOf R) : Pruned (genericProduct w a b) :=
  genericProduct_pruned w a b

/-- the coefficient of blade `k` in `_generic_product` -/
theorem product_coeff (w : Nat → Nat → R) (a b : MVOf R) (k : Nat) :
    coeff (genericProduct w a b) k
      = lsum (fun s => lsum (fun o =>
          if s.1 ^^^ o.1 = k then w s.1 o.1 * reorderSignR s.1 o.1 * s.2 * o.2 else 0) b) a :=
  coeff_genericProduct w a b k

/-- `product_bilinear`, left argument -/
theorem product_bilinear_left (w : Nat → Nat → R) {a a1 a2 : MVOf R} (x y : R) (c : MVOf R)
    (ha : NodupKeys a) (ha1 : NodupKeys a1) (ha2 : NodupKeys a2)
    (h : ∀ k, coeff a k = x * coeff a1 k + y * coeff a2 k) (k : Nat) :
    coeff (genericProduct w a c) k
      = x * coeff (genericProduct w a1 c) k + y * coeff (genericProduct w a2 c) k :=
  coeff_genericProductZ_lin_left isZeroD_sound w x y c ha ha1 ha2 h k

/-- `product_bilinear`, right argument -/
theorem product_bilinear_right (w : Nat → Nat → R) (a : MVOf R) {c c1 c2 : MVOf R} (x y : R)
    (hc : NodupKeys c) (hc1 : NodupKeys c1) (hc2 : NodupKeys c2)
    (h : ∀ k, coeff c k = x * coeff c1 k + y * coeff c2 k) (k : Nat) :
    coeff (genericProduct w a c) k
      = x * coeff (genericProduct w a c1) k + y * coeff (genericProduct w a c2) k :=
  coeff_genericProductZ_lin_right isZeroD_sound w a x y hc hc1 hc2 h k

/-- `A + B` is pruned and denotes the pointwise sum -/
theorem add_spec {a b : MVOf R} (ha : NodupKeys a) (hb : NodupKeys b) :
    Pruned (mvAdd a b) ∧ ∀ k, coeff (mvAdd a b) k = coeff a k + coeff b k :=
  ⟨mvAdd_pruned ha hb, coeff_mvAddZ isZeroD_sound ha hb⟩

/-- `A - B` and `-A` denote the pointwise difference / negation -/
theorem sub_neg_spec {a b : MVOf R} (ha : NodupKeys a) (hb : NodupKeys b) :
    (∀ k, coeff (mvSub a b) k = coeff a k - coeff b k) ∧ (∀ k, coeff (mvNeg a) k = - coeff a k) :=
  ⟨coeff_mvSubZ isZeroD_sound ha hb, coeff_mvNeg a⟩

/-- `(A + B) * C == A * C + B * C` and `A * (B + C) == A * B + A * C` as Python evaluates them,
    for each of the six products -/
theorem product_distrib (w : Nat → Nat → R) {a b c : MVOf R}
    (ha : NodupKeys a) (hb : NodupKeys b) (hc : NodupKeys c) :
    mvEq (genericProduct w (mvAdd a b) c) (mvAdd (genericProduct w a c) (genericProduct w b c))
      = true
    ∧ mvEq (genericProduct w a (mvAdd b c)) (mvAdd (genericProduct w a b) (genericProduct w a c))
      = true := by
  constructor
  · obtain ⟨hp, hs⟩ := add_spec ha hb
    obtain ⟨hp', hs'⟩ := add_spec (product_pruned w a c).1 (product_pruned w b c).1
    rw [mvEq_iff_coeffwise (product_pruned _ _ _) hp']
    intro k
    rw [hs' k, product_bilinear_left w 1 1 c hp.1 ha hb (by intro k; rw [hs k]; ring)]
    ring
  · obtain ⟨hp, hs⟩ := add_spec hb hc
    obtain ⟨hp', hs'⟩ := add_spec (product_pruned w a b).1 (product_pruned w a c).1
    rw [mvEq_iff_coeffwise (product_pruned _ _ _) hp']
    intro k
    rw [hs' k, product_bilinear_right w a 1 1 hp.1 hb hc (by intro k; rw [hs k]; ring)]
    ring

/-- `product_assoc`: `(A * B) * C == A * (B * C)` for the geometric product as coded, for all
    multivectors, all diagonal metrics over any commutative ring, all dimensions -/
theorem product_assoc (g : Nat → R) (a b c : MVOf R) :
    mvEq (mvMul g (mvMul g a b) c) (mvMul g a (mvMul g b c)) = true :=
  (mvEq_iff_coeffwise (product_pruned _ _ _) (product_pruned _ _ _)).2
    (coeff_genericProductZ_assoc isZeroD_sound (cocycle_wGeometric g) a b c)

/-- the outer product is associative, too -/
theorem outer_assoc (g : Nat → R) (a b c : MVOf R) :
    mvEq (mvOuter g (mvOuter g a b) c) (mvOuter g a (mvOuter g b c)) = true :=
  (mvEq_iff_coeffwise (product_pruned _ _ _) (product_pruned _ _ _)).2
    (coeff_genericProductZ_assoc isZeroD_sound (cocycle_wOuter g) a b c)

/-- `blade_inv`: when `inv` succeeds on `{bits: c}` its result `numer / denom` is a two-sided
    inverse, `denom = g-norm² ≠ 0` -/
theorem blade_inv (g : Nat → R) (dims bits : Nat) (c : R) (numer : MVOf R) (denom : R)
    (h : inv g dims [(bits, c)] = .ok numer denom) :
    denom ≠ 0 ∧ denom = sharedMetricCoeff g bits * c * c ∧
    mvMul g [(bits, c)] numer = [(0, denom)] ∧ mvMul g numer [(bits, c)] = [(0, denom)] :=
  PV.GA.blade_inv g dims bits c numer denom h

/-- `norm_sq` of a blade: the product of the metric entries of its factors times `c²` -/
theorem norm_sq (g : Nat → R) (bits : Nat) (c : R) :
    normSquared g [(bits, c)] = some (sharedMetricCoeff g bits * c * c)
    ∧ sharedMetricCoeff g bits = prodBits g bits :=
  ⟨normSquared_blade g bits c, sharedMetricCoeff_eq_prodBits g bits⟩

end

example (g : Nat → Int) :
    mvEq (mvMul g (mvMul g [(1, 2), (6, -3)] [(3, 5), (0, 7)]) [(5, 1), (2, 4)])
      (mvMul g [(1, 2), (6, -3)] (mvMul g [(3, 5), (0, 7)] [(5, 1), (2, 4)])) = true :=
  product_assoc g _ _ _
example (g : Nat → Int) : Pruned (mvMul g [(1, 2), (1, -2), (0, 0)] [(3, 5), (0, 0)]) :=
  product_pruned _ _ _
/-- the instance the driver runs for `Fraction` coefficients -/
example (g : Nat → Rat) (a b c : MVOf Rat) :
    mvEq (mvMul g (mvMul g a b) c) (mvMul g a (mvMul g b c)) = true := product_assoc g a b c
section
open scoped Fin.CommRing
/-- the instance the driver runs for the ring `Z/6` (zero divisors; `Fin 6` with Mathlib's ring
    structure on the core operations) -/
example (g : Nat → Fin 6) (a b c : MVOf (Fin 6)) :
    mvEq (mvMul g (mvMul g a b) c) (mvMul g a (mvMul g b c)) = true := product_assoc g a b c
end
/-- symbolic (polynomial) coefficients, for any decision procedure of polynomial equality -/
example [DecidableEq (Polynomial ℚ)] (g : Nat → Polynomial ℚ) (a b c : MVOf (Polynomial ℚ)) :
    mvEq (mvMul g (mvMul g a b) c) (mvMul g a (mvMul g b c)) = true := product_assoc g a b c

/-! ### which zero test is needed

`z : R → Bool` is the test the code prunes with.  What a result DENOTES needs a sound test only;
how it is STORED (and so `==`, `bool`, `hash`) needs a complete one, too. -/

section
variable {R : Type} [CommRing R] {z : R → Bool}

/-- coefficient formula of `_generic_product` for any sound zero test -/
theorem product_coeff_sound (hz : ZSound z) (w : Nat → Nat → R) (a b : MVOf R) (k : Nat) :
    coeff (genericProductZ z w a b) k
      = lsum (fun s => lsum (fun o =>
          if s.1 ^^^ o.1 = k then w s.1 o.1 * reorderSignR s.1 o.1 * s.2 * o.2 else 0) b) a :=
  coeff_genericProductZ hz w a b k

/-- associativity of the geometric (and outer) product, as an identity between the denoted
    coefficient functions, for any sound zero test and ANY operands -/
theorem product_assoc_sound (hz : ZSound z) (g : Nat → R) (a b c : MVOf R) (k : Nat) :
    coeff (genericProductZ z (wGeometric g) (genericProductZ z (wGeometric g) a b) c) k
      = coeff (genericProductZ z (wGeometric g) a (genericProductZ z (wGeometric g) b c)) k
    ∧ coeff (genericProductZ z (wOuter g) (genericProductZ z (wOuter g) a b) c) k
      = coeff (genericProductZ z (wOuter g) a (genericProductZ z (wOuter g) b c)) k :=
  ⟨coeff_genericProductZ_assoc hz (cocycle_wGeometric g) a b c k,
    coeff_genericProductZ_assoc hz (cocycle_wOuter g) a b c k⟩

/-- bilinearity (both arguments) and additivity for any sound zero test -/
theorem product_linear_sound (hz : ZSound z) (w : Nat → Nat → R) {a a1 a2 : MVOf R} (x y : R)
    (c : MVOf R) (ha : NodupKeys a) (ha1 : NodupKeys a1) (ha2 : NodupKeys a2)
    (h : ∀ k, coeff a k = x * coeff a1 k + y * coeff a2 k) (k : Nat) :
    coeff (genericProductZ z w a c) k
      = x * coeff (genericProductZ z w a1 c) k + y * coeff (genericProductZ z w a2 c) k
    ∧ coeff (genericProductZ z w c a) k
      = x * coeff (genericProductZ z w c a1) k + y * coeff (genericProductZ z w c a2) k
    ∧ coeff (mvAddZ z a1 a2) k = coeff a1 k + coeff a2 k :=
  ⟨coeff_genericProductZ_lin_left hz w x y c ha ha1 ha2 h k,
    coeff_genericProductZ_lin_right hz w c x y ha ha1 ha2 h k, coeff_mvAddZ hz ha1 ha2 k⟩

/-- `rev` is an anti-automorphism, `invol` an automorphism — sound zero test -/
theorem rev_invol_sound (hz : ZSound z) (g : Nat → R) (w : Nat → Nat → R) (a b : MVOf R) (k : Nat) :
    coeff (rev (genericProductZ z (wGeometric g) a b)) k
      = coeff (genericProductZ z (wGeometric g) (rev b) (rev a)) k
    ∧ coeff (invol (genericProductZ z w a b)) k
      = coeff (genericProductZ z w (invol a) (invol b)) k :=
  ⟨coeff_rev_mul hz g a b k, coeff_invol_genericProductZ hz w a b k⟩

/-- results have distinct keys whatever the zero test; with a COMPLETE zero test no zero is ever
    stored by a product or a sum -/
theorem product_pruned_complete (hc : ZComplete z) (w : Nat → Nat → R) (a b : MVOf R)
    {c d : MVOf R} (hcd : NodupKeys c) (hd : NodupKeys d) :
    NodupKeys (genericProductZ (fun _ => false) w a b)
    ∧ Pruned (genericProductZ z w a b) ∧ Pruned (mvAddZ z c d) :=
  ⟨genericProductZ_nodup _ w a b, genericProductZ_pruned hc w a b, mvAddZ_pruned hc hcd hd⟩

/-- `x == 0` as the zero test is sound and complete -/
theorem decidable_zero_test [DecidableEq R] :
    ZSound (isZeroD : R → Bool) ∧ ZComplete (isZeroD : R → Bool) :=
  ⟨isZeroD_sound, isZeroD_complete⟩

end

/-- with an INCOMPLETE zero test (here: never recognises a zero — what `is_zero` is for a symbolic
    expression `x - x`) the difference `e0 - e0` stores a zero: it still denotes the zero function
    but `== 0` and `bool` see the stored dict -/
theorem eq_needs_complete_zero_test_cex :
    let z : Int → Bool := fun _ => false
    ZSound z ∧ (∀ k, coeff (mvSubZ z [(1, 1)] [(1, 1)]) k = 0)
      ∧ mvEq (mvSubZ z [(1, 1)] [(1, 1)]) [] = false ∧ mvBool (mvSubZ z [(1, 1)] [(1, 1)]) = true := by
  refine ⟨fun x h => by simp at h, fun k => ?_, by decide, by decide⟩
  have : mvSubZ (fun _ => false) [(1, (1 : Int))] [(1, 1)] = [(1, 0)] := by decide
  rw [this, coeff_cons]; simp

/-- with an UNSOUND zero test (calls `2` zero) even the denoted coefficients are wrong -/
theorem coeff_needs_sound_zero_test_cex :
    let z : Int → Bool := fun x => x = 0 ∨ x = 2
    coeff (mvAddZ z [(1, 1)] [(1, 1)]) 1 ≠ coeff [(1, (1 : Int))] 1 + coeff [(1, 1)] 1 := by
  decide

/-! ### equality, truth value and hash -/

section
variable {R : Type} [CommRing R] [DecidableEq R]

/-- `eq_iff_coeffwise`: on pruned dicts Python's `==` is equality of coefficient functions -/
theorem eq_iff_coeffwise {a b : MVOf R} (ha : Pruned a) (hb : Pruned b) :
    mvEq a b = true ↔ ∀ k, coeff a k = coeff b k := mvEq_iff_coeffwise ha hb

omit [DecidableEq R] in
/-- `bool(A)` on pruned dicts is "some coefficient is non-zero" -/
theorem bool_iff_nonzero {a : MVOf R} (ha : Pruned a) : mvBool a = true ↔ ∃ k, coeff a k ≠ 0 :=
  mvBool_iff_of_pruned ha

omit [CommRing R] in
/-- `hash_respects_eq`: multivectors that compare equal hash equal — for any hash functions of
    bitmaps and coefficients, any insertion orders (the XOR fold of `__hash__` is order-free) -/
theorem hash_respects_eq (hspace : Nat) (hb : Nat → Nat) (hc : R → Nat) {a b : MVOf R}
    (ha : NodupKeys a) (h : mvEq a b = true) :
    mvHash hspace hb hc a = mvHash hspace hb hc b := mvHash_eq_of_mvEq hspace hb hc ha h

/-! #### the scalar zero (repaired in /repo by the `fix:` commit "MultiVector(0) stores no
    coefficient"; before it `MultiVector(0)` stored `{0: 0}`, `(e0-e0)==0` was `False` and
    `bool(MultiVector(0))` was `True`) -/

/-- `MultiVector(x)` is pruned for every scalar `x`; the scalar zero is the empty dict and falsy -/
theorem scalar_pruned (x : R) : Pruned (ofScalar x) := ofScalar_pruned x

theorem scalar_zero_falsy :
    mvBool (ofScalar (0 : R)) = false ∧ mvEq ([] : MVOf R) (ofScalar 0) = true := by
  have h0 : (ofScalar (0 : R)) = [] := by simp [ofScalar, ofScalarZ, isZeroD]
  rw [h0]; constructor <;> rfl

/-- `x == 0` on every pruned dict (all results of `+`, `-` and the products) is coefficient-wise -/
theorem eq_scalar_zero_iff {a : MVOf R} (ha : Pruned a) :
    mvEqScalar a 0 = true ↔ ∀ k, coeff a k = 0 :=
  mvEqScalar_zero_iff_of_pruned ha

/-- `MultiVector(0) * A` is the empty dict -/
theorem product_scalar_zero (w : Nat → Nat → R) (a : MVOf R) :
    genericProduct w (ofScalar 0) a = [] ∧ genericProduct w a (ofScalar 0) = [] :=
  genericProduct_ofScalar_zero w a

end

example : mvEqScalar (mvSub [(1, (1 : Int))] [(1, 1)]) 0 = true := by decide
example : mvSub [(1, (1 : Int))] [(1, 1)] = [] := by decide
example : mvHash 7 id Int.natAbs [(1, (2 : Int)), (2, 3)] = mvHash 7 id Int.natAbs [(2, 3), (1, 2)] :=
  hash_respects_eq 7 id Int.natAbs (by simp [NodupKeys, keys]) (by decide)

/-! ### `norm_squared`, `scalar_product`, `as_scalar` of general multivectors -/

section
variable {R : Type} [CommRing R] [DecidableEq R]

/-- `norm_sq_general`: `norm_squared` never raises; it is `Σ_k g(k) · a_k²` where `g(k)` is the
    product of the metric entries of the factors of blade `k` -/
theorem norm_sq_general (g : Nat → R) {a : MVOf R} (ha : NodupKeys a) :
    normSquared g a = some (lsum (fun p => prodBits g p.1 * p.2 * p.2) a) := normSquared_eq g ha

/-- `scalar_product(A, B)` never raises and is the scalar part of the geometric product `A * B`;
    in particular `norm_squared(A)` is the scalar part of `A.rev() * A` -/
theorem scalar_product_is_scalar_part (g : Nat → R) (a b : MVOf R) :
    scalarProduct g a b = some (coeff (mvMul g a b) 0)
    ∧ normSquared g a = some (coeff (mvMul g (rev a) a) 0) := by
  have h : ∀ a b : MVOf R, scalarProduct g a b = some (coeff (mvMul g a b) 0) := by
    intro a b
    unfold scalarProduct
    rw [scalarProductZ_eq isZeroD_sound isZeroD_complete,
      coeff_scalar_eq_geometric isZeroD_sound]
  exact ⟨h a b, h (rev a) a⟩

omit [DecidableEq R] in
/-- `as_scalar`: raises exactly when a non-scalar key is stored; otherwise returns the scalar
    coefficient -/
theorem as_scalar_spec {a : MVOf R} (ha : NodupKeys a) :
    (asScalar a = none ↔ ∃ k ∈ keys a, k ≠ 0)
    ∧ ((∀ k ∈ keys a, k = 0) → asScalar a = some (coeff a 0)) :=
  ⟨asScalar_eq_none_iff a, asScalar_eq_coeff_zero ha⟩

end

example : normSquared (fun i => if i = 0 then (-1 : Int) else 2) [(1, 3), (2, 1), (3, 2)]
    = some (-1 * 9 + 2 * 1 + -2 * 4) := by decide +kernel

/-! ### `inv`, `__truediv__` -/

section
variable {R : Type} [CommRing R] [DecidableEq R]

/-- `inv_mul_self`: on every well-formed multivector (distinct keys, all below `2^dims`) on which
    `MultiVector.inv` RETURNS (`numer / denom`): `denom = norm_squared ≠ 0` and
    `numer * A == denom == A * numer`.  `inv` returns exactly for one-item dicts with non-zero
    norm² and for dicts of ≥ 2 items of a single grade 0, 1 or `dims` with non-zero norm² — of
    which only grade 1 (vectors) exists among well-formed dicts. -/
theorem inv_mul_self (g : Nat → R) (dims : Nat) {a : MVOf R} (numer : MVOf R) (denom : R)
    (ha : NodupKeys a) (hr : ∀ k ∈ keys a, k < 2 ^ dims)
    (h : inv g dims a = .ok numer denom) :
    denom ≠ 0 ∧ normSquared g a = some denom
    ∧ mvEq (mvMul g numer a) (ofScalar denom) = true
    ∧ mvEq (mvMul g a numer) (ofScalar denom) = true := by
  obtain ⟨h1, h2, _, h4, h5⟩ := PV.GA.inv_mul_self g dims numer denom ha hr h
  refine ⟨h1, h2, ?_, ?_⟩
  · rw [mvEq_iff_coeffwise (genericProduct_pruned _ _ _) (ofScalar_pruned _)]
    intro k; rw [h4 k, coeff_ofScalar]
  · rw [mvEq_iff_coeffwise (genericProduct_pruned _ _ _) (ofScalar_pruned _)]
    intro k; rw [h5 k, coeff_ofScalar]

end

/-- `inv_domain`: the exact precondition of `MultiVector.inv` on well-formed dicts — it returns iff
    norm² is non-zero and the dict has exactly one item (a basis blade times a coefficient) or
    consists of ≥ 2 basis VECTORS; everything else raises -/
theorem inv_domain {R : Type} [CommRing R] [DecidableEq R] (g : Nat → R) (dims : Nat) {a : MVOf R}
    (ha : NodupKeys a) (hr : ∀ k ∈ keys a, k < 2 ^ dims) :
    (∃ numer denom, inv g dims a = .ok numer denom) ↔
      (∃ q, normSquared g a = some q ∧ q ≠ 0)
      ∧ (a.length = 1 ∨ (2 ≤ a.length ∧ ∀ k ∈ keys a, bitCount k = 1)) :=
  inv_ok_iff g dims ha hr

/-- `inv` REFUSES non-null blades that are neither basis blades nor vectors: `(e0 + e1) ^ e2` is a
    2-blade of the Euclidean 3-space with norm² 2 and inverse `rev(B) / 2`, yet `inv` answers
    `NotImplementedError("division by non-blades")` (confirmed on the real code) -/
theorem inv_refuses_blade_cex :
    let g : Nat → Int := fun _ => 1
    let b : MV := [(5, 1), (6, 1)]
    mvOuter g [(1, 1), (2, 1)] [(4, 1)] = b ∧ inv g 3 b = .notImplemented
    ∧ normSquared g b = some 2 ∧ mvMul g (rev b) b = [(0, 2)] ∧ mvMul g b (rev b) = [(0, 2)] := by
  decide +kernel

/-- the hypothesis "keys below `2^dims`" of `inv_mul_self` is needed in the MODEL: `e01 + e02`
    passed off as a grade-`dims` element of a 2-dimensional space is returned unreversed, and
    `numer * A = -denom`.  (The real code cannot get there: norm² indexes the metric matrix with
    the out-of-range basis index and raises `IndexError`.) -/
theorem inv_out_of_range_cex :
    inv (fun _ => (1 : Int)) 2 [(3, 1), (5, 1)] = .ok [(3, 1), (5, 1)] 2
    ∧ mvMul (fun _ => (1 : Int)) [(3, 1), (5, 1)] [(3, 1), (5, 1)] = [(0, -2)] := by
  decide +kernel

section
variable {R : Type} [Field R] [DecidableEq R]

/-- `inv_field`: with coefficients in a field (Python `Fraction`s) the multivector `inv` returns —
    `{bits: coeff / nsqr}` — satisfies `A.inv() * A == 1 == A * A.inv()` -/
theorem inv_field (g : Nat → R) (dims : Nat) {a ai : MVOf R}
    (ha : NodupKeys a) (hr : ∀ k ∈ keys a, k < 2 ^ dims) (h : mvInvDiv g dims a = .ok ai) :
    mvEq (mvMul g ai a) mvOne = true ∧ mvEq (mvMul g a ai) mvOne = true :=
  mvInvDiv_mul_self g dims ha hr h

/-- `truediv_mul_cancel`: `(A / B) * B` denotes `A` whenever `A / B` (`A * B.inv()`) returns -/
theorem truediv_mul_cancel (g : Nat → R) (dims : Nat) {a b q : MVOf R}
    (ha : NodupKeys a) (hb : NodupKeys b) (hr : ∀ k ∈ keys b, k < 2 ^ dims)
    (h : mvTrueDiv g dims a b = .ok q) (k : Nat) :
    coeff (mvMul g q b) k = coeff a k := mvTrueDiv_mul_cancel g dims ha hb hr h k

end

example : mvInvDiv (fun _ => (1 : Rat)) 2 [(1, 3), (2, 4)] = .ok [(1, 3 / 25), (2, 4 / 25)] := by
  decide +kernel
example : mvInvDiv (fun i => if i = 0 then (0 : Rat) else 1) 2 [(1, 3)]
    = .error .zeroDivision := by decide +kernel
example : mvInvDiv (fun _ => (1 : Rat)) 3 [(1, 1), (6, 1)] = .error .notImplemented := by
  decide +kernel

/-! ### `dual`, the pseudoscalar `I` -/

section
variable {R : Type} [CommRing R] [DecidableEq R]

/-- `dual_coeff`: `A.dual()` (coded `A | I.rev()`) has the coefficient
    `g(k') · σ(k', I) · rev(I) · A[k']` at blade `k`, `k' = k ⊕ I` the complementary blade -/
theorem dual_coeff (g : Nat → R) (dims : Nat) {a : MVOf R} (ha : NodupKeys a) (k : Nat) :
    coeff (dual g dims a) k
      = wInner g (k ^^^ (2 ^ dims - 1)) (2 ^ dims - 1)
        * reorderSignR (k ^^^ (2 ^ dims - 1)) (2 ^ dims - 1)
        * coeff a (k ^^^ (2 ^ dims - 1)) * (((revSign (2 ^ dims - 1) : Int) : R) * 1) :=
  coeff_dualZ isZeroD_sound g dims ha k

/-- `dual_linear` -/
theorem dual_linear (g : Nat → R) (dims : Nat) {a a1 a2 : MVOf R} (x y : R)
    (ha : NodupKeys a) (ha1 : NodupKeys a1) (ha2 : NodupKeys a2)
    (h : ∀ k, coeff a k = x * coeff a1 k + y * coeff a2 k) (k : Nat) :
    coeff (dual g dims a) k = x * coeff (dual g dims a1) k + y * coeff (dual g dims a2) k :=
  coeff_genericProductZ_lin_left isZeroD_sound _ x y _ ha ha1 ha2 h k

/-- `dual_dual`: `A.dual().dual() == (-1)^(n(n-1)/2) · det(g) · A` for every well-formed
    multivector of an `n`-dimensional space; the sign and the determinant are spelled out by
    `pseudoscalar_sign_metric` -/
theorem dual_dual (g : Nat → R) (dims : Nat) {a : MVOf R}
    (ha : NodupKeys a) (hr : ∀ k ∈ keys a, k < 2 ^ dims) (k : Nat) :
    coeff (dual g dims (dual g dims a)) k
      = ((revSign (2 ^ dims - 1) : Int) : R) * prodBits g (2 ^ dims - 1) * coeff a k :=
  coeff_dualZ_dualZ isZeroD_sound g dims ha hr k

omit [DecidableEq R] in
/-- the two factors of `dual_dual` and of `I * I`: `rev` sign of the pseudoscalar
    `(-1)^(n(n-1)/2)`, metric weight `∏_{i<n} g i` -/
theorem pseudoscalar_sign_metric (g : Nat → R) (n : Nat) :
    revSign (2 ^ n - 1) = (if n * (n - 1) / 2 % 2 = 0 then 1 else -1)
    ∧ prodBits g (2 ^ n - 1) = ((List.range n).map g).prod
    ∧ bitCount (2 ^ n - 1) = n :=
  ⟨revSign_full n, prodBits_full g n, by rw [PV.GA.bitCount_eq_popcount, pc_full]⟩

/-- `I * I = (-1)^(n(n-1)/2) · det(g)` as computed by `__mul__` -/
theorem pseudoscalar_sq (g : Nat → R) (dims : Nat) :
    mvMul g (pseudoscalar dims) (pseudoscalar dims)
      = ofScalar (((revSign (2 ^ dims - 1) : Int) : R) * prodBits g (2 ^ dims - 1)) :=
  PV.GA.pseudoscalar_sq g dims

/-- on well-formed multivectors the inner product with `I.rev()` that `dual` is coded with is the
    geometric product `A * I.rev()` (`= A * I⁻¹ · det g`) -/
theorem dual_eq_mul_rev_I (g : Nat → R) (dims : Nat) {a : MVOf R}
    (hr : ∀ k ∈ keys a, k < 2 ^ dims) :
    mvEq (dual g dims a) (mvMul g a (rev (pseudoscalar dims))) = true :=
  (mvEq_iff_coeffwise (genericProduct_pruned _ _ _) (genericProduct_pruned _ _ _)).2
    (coeff_dualZ_eq_mul isZeroD_sound g dims hr)

end

example : dual (fun _ => (1 : Int)) 3 [(1, 2), (6, 5)] = [(6, -2), (1, 5)] := by decide +kernel
example : dual (fun _ => (1 : Int)) 3 (dual (fun _ => (1 : Int)) 3 [(1, 2), (6, 5)])
    = [(1, -2), (6, -5)] := by decide +kernel

/-! ### grade projections, `gen_blades`, `xproject` -/

section
variable {R : Type} [CommRing R] [DecidableEq R]

omit [DecidableEq R] in
/-- `project_coeff`: `A.project(r)` keeps exactly the coefficients of the grade-`r` blades
    (and so is linear: `project_linear`) -/
theorem project_coeff (a : MVOf R) (r k : Nat) :
    coeff (project a r) k = if bitCount k = r then coeff a k else 0 := coeff_project a r k

omit [DecidableEq R] in
theorem project_linear {a a1 a2 : MVOf R} (x y : R)
    (h : ∀ k, coeff a k = x * coeff a1 k + y * coeff a2 k) (r k : Nat) :
    coeff (project a r) k = x * coeff (project a1 r) k + y * coeff (project a2 r) k := by
  simp only [coeff_project]; split
  · exact h k
  · ring

omit [CommRing R] [DecidableEq R] in
/-- `project_idempotent`: projections are idempotent and mutually orthogonal (as dicts) -/
theorem project_idempotent (a : MVOf R) (r s : Nat) :
    project (project a r) r = project a r ∧ (r ≠ s → project (project a r) s = []) := by
  constructor
  · rw [project_project]; simp
  · intro h; rw [project_project]; simp [h]

/-- `project_sum`: the grade projections of a well-formed multivector of a `dims`-dimensional
    space add up to it: `sum(A.project(r) for r in range(dims+1)) == A` -/
theorem project_sum {a : MVOf R} {dims : Nat} (ha : Pruned a) (hr : ∀ k ∈ keys a, k < 2 ^ dims) :
    (∀ k, lsum (fun r => coeff (project a r) k) (List.range (dims + 1)) = coeff a k)
    ∧ mvEq (mvSum ((List.range (dims + 1)).map (project a))) a = true := by
  refine ⟨lsum_coeff_project hr, ?_⟩
  have hl : ∀ m ∈ (List.range (dims + 1)).map (project a), NodupKeys m := by
    intro m hm
    obtain ⟨r, _, rfl⟩ := List.mem_map.1 hm
    exact nodupKeys_filter _ ha.1
  rw [mvEq_iff_coeffwise (mvSum_pruned _ hl) ha]
  intro k
  rw [coeff_mvSum _ hl, lsum_map]
  exact lsum_coeff_project hr k

omit [DecidableEq R] in
/-- `even`/`odd` split the multivector -/
theorem even_odd_sum (a : MVOf R) (k : Nat) : coeff (even a) k + coeff (odd a) k = coeff a k := by
  rw [coeff_even, coeff_odd]; split <;> simp_all

omit [DecidableEq R] in
/-- `gen_blades_sum`: `gen_blades()` yields one single-term multivector per stored item, they add
    up to the multivector, and `gen_blades(grade)` is `gen_blades()` of the projection -/
theorem gen_blades_sum {a : MVOf R} (ha : NodupKeys a) (r : Nat) :
    (∀ m ∈ genBlades a, m.length = 1)
    ∧ (∀ k, lsum (fun m => coeff m k) (genBlades a) = coeff a k)
    ∧ genBladesGrade a r = genBlades (project a r) := by
  refine ⟨?_, lsum_coeff_genBlades ha, genBladesGrade_eq a r⟩
  intro m hm
  obtain ⟨p, _, rfl⟩ := List.mem_map.1 hm
  rfl

omit [DecidableEq R] in
/-- `xproject`: grade 0 returns the scalar coefficient, grade 1 the list of the `dims` vector
    coefficients, any other grade the projection; it never raises on a well-formed multivector -/
theorem xproject_spec (dims : Nat) {a : MVOf R} (ha : NodupKeys a)
    (hr : ∀ k ∈ keys a, k < 2 ^ dims) :
    xproject dims a 0 = .scalar (coeff a 0)
    ∧ (∃ v, xproject dims a 1 = .vector v ∧ v.length = dims
        ∧ ∀ i, i < dims → v[i]? = some (coeff a (2 ^ i)))
    ∧ ∀ r, 2 ≤ r → xproject dims a r = .mv (project a r) := by
  refine ⟨xproject_zero dims ha, xproject_one dims ha hr, fun r h => ?_⟩
  unfold xproject
  rw [if_neg (by omega), if_neg (by omega)]

end

example : project [(1, (2 : Int)), (3, 4), (4, 1)] 1 = [(1, 2), (4, 1)] := by decide +kernel
example : xproject 3 [(0, (7 : Int)), (2, 5), (3, 4)] 1 = .vector [0, 5, 0] := by decide +kernel

/-! ### `__pow__` -/

section
variable {R : Type} [CommRing R] [DecidableEq R]

/-- `pow_eq_npow`: `A ** n` (`integer_power` with `MultiVector.__mul__`, `one = MultiVector({0: 1})`)
    returns for every `n ≥ 0` and `==` the `n`-fold product `((1 * A) * A) * … * A`; a negative
    exponent raises.  Rests on `clifford_monoid`. -/
theorem pow_eq_npow (g : Nat → R) (a : MVOf R) (n : Nat) :
    (∃ p, mvPow g a n = some p ∧ mvEq p (mvNPow g a n) = true
        ∧ ∀ k, coeff p k = coeff (mvNPow g a n) k)
    ∧ mvPow g a (-(n : Int) - 1) = none := by
  constructor
  · refine ⟨_, ?_, mvPow_eq_npow g a n, coeff_mvPow g a n⟩
    unfold mvPow mvPowWith
    rw [if_neg (by omega)]; rfl
  · unfold mvPow mvPowWith
    rw [if_pos (by omega)]

/-- `clifford_monoid`: modulo "denote the same formal sum" the dicts of the model form a monoid
    under `__mul__` as coded with unit `MultiVector({0: 1})`, and `A ↦ [A]` turns `**` into the
    monoid power -/
theorem clifford_monoid (g : Nat → R) (a b : MVOf R) (n : Nat) :
    CliffQ.mk g (mvMul g a b) = CliffQ.mk g a * CliffQ.mk g b
    ∧ CliffQ.mk g (mvOne : MVOf R) = 1
    ∧ CliffQ.mk g (PV.Algo.integerPower (mvMul g) mvOne a n) = CliffQ.mk g a ^ n :=
  ⟨rfl, rfl, PV.Algo.integerPower_hom (CliffQ.mk g) (mvMul g) mvOne (CliffQ.mk_mul g)
    (CliffQ.mk_one g) a n⟩

end

example : mvPow (fun _ => (1 : Int)) [(0, 1), (1, 2)] 3 = some [(0, 13), (1, 14)] := by
  decide +kernel
example : mvNPow (fun _ => (1 : Int)) [(0, 1), (1, 2)] 3 = [(0, 13), (1, 14)] := by decide +kernel

/-! ### `permutation_sign`, `bits_and_sign` -/

theorem permutationSign_id (n : Nat) : permutationSign? (List.range n) = some 1 :=
  permutationSign_range n

theorem bitsAndSign_two {i j : Nat} (h : i ≠ j) :
    bitsAndSign [i, j] = (2 ^ i ||| 2 ^ j, reorderSign (2 ^ i) (2 ^ j)) := bitsAndSign_pair h

/-- all 24 permutations of `0..3`: `permutation_sign` is the parity of the inversion number -/
def invCount : List Nat → Nat
  | [] => 0
  | x :: xs => (xs.filter (· < x)).length + invCount xs

def insertEverywhere (x : Nat) : List Nat → List (List Nat)
  | [] => [[x]]
  | y :: ys => (x :: y :: ys) :: (insertEverywhere x ys).map (y :: ·)

def perms : List Nat → List (List Nat)
  | [] => [[]]
  | x :: xs => (perms xs).flatMap (insertEverywhere x)

theorem permutationSign_small :
    ∀ p ∈ perms [0, 1, 2, 3], permutationSign? p = some (if invCount p % 2 = 0 then 1 else -1) := by
  decide

example : permutationSign? [1, 0, 3] = none := by decide  -- IndexError in Python

end PV.C18
