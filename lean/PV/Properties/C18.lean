import PV.Proofs.GAMV
/-
  C18 — property theorems: multivectors obey the Clifford-algebra axioms.

  The model (`PV/Model/GA.lean`) mirrors `pymbolic/geometric_algebra/__init__.py` loop by loop;
  blades are `Nat` bitmaps, so every statement below holds for ALL bitmaps, i.e. in every dimension.
  `g : Nat → R` is the diagonal of the metric.  `pc` is the clean binary-recursive popcount
  (`PV/Proofs/GABits.lean`), `prodBits g s = ∏ {g i | bit i of s set}` (`PV/Proofs/GA.lean`),
  `coeff d k = d.get(k, 0)`, `Pruned d` = distinct keys and no stored zero (`PV/Proofs/GAMV.lean`).
-/
namespace PV.C18
open PV.GA

/-! ### (a) `bit_count` -/

/-- the Kernighan loop `while i: i &= i-1; count += 1` returns the number of set bits -/
theorem bitCount_eq_popcount (i : Nat) : bitCount i = pc i := PV.GA.bitCount_eq_popcount i

example : bitCount 0b101101 = pc 0b101101 := bitCount_eq_popcount _
example : pc 0b101101 = 4 := by decide +kernel
example : bitCount 0b101101 = 4 := by decide +kernel

/-! ### (b) `canonical_reordering_sign`: inversion count, bilinear mod 2 -/

/-- the accumulated `s` is the number of inversions between the two blades -/
theorem reorderSignExp_eq_inversions (n a b : Nat) (ha : a < 2 ^ n) (hb : b < 2 ^ n) :
    reorderSignExp a b = inversions n a b := PV.GA.reorderSignExp_eq_inversions n a b ha hb

/-- …and satisfies the one-bit recursion that characterises the inversion count -/
theorem reorderSignExp_halve (a b : Nat) :
    reorderSignExp a b = (b % 2) * pc (a / 2) + reorderSignExp (a / 2) (b / 2) :=
  PV.GA.reorderSignExp_halve a b

theorem reorderSignExp_xor_right (a b c : Nat) :
    reorderSignExp a (b ^^^ c) % 2 = (reorderSignExp a b + reorderSignExp a c) % 2 :=
  PV.GA.reorderSignExp_xor_right a b c

theorem reorderSignExp_xor_left (a b c : Nat) :
    reorderSignExp (a ^^^ b) c % 2 = (reorderSignExp a c + reorderSignExp b c) % 2 :=
  PV.GA.reorderSignExp_xor_left a b c

/-- `sign_is_inversion_parity` -/
theorem sign_is_inversion_parity (n a b : Nat) (ha : a < 2 ^ n) (hb : b < 2 ^ n) :
    reorderSign a b = if inversions n a b % 2 = 0 then 1 else -1 := by
  rw [reorderSign_eq_sgn, PV.GA.reorderSignExp_eq_inversions n a b ha hb]; rfl

example : reorderSignExp 0b110 0b011 = inversions 3 0b110 0b011 :=
  reorderSignExp_eq_inversions 3 _ _ (by decide) (by decide)
example : inversions 3 0b110 0b011 = 3 := by decide
example : reorderSignExp 0b1011 (0b0110 ^^^ 0b1100) % 2
    = (reorderSignExp 0b1011 0b0110 + reorderSignExp 0b1011 0b1100) % 2 :=
  reorderSignExp_xor_right _ _ _

/-! ### (c) sign cocycle, (d) metric cocycle, blade associativity -/

theorem sign_cocycle (a b c : Nat) :
    reorderSign a b * reorderSign (a ^^^ b) c = reorderSign b c * reorderSign a (b ^^^ c) :=
  PV.GA.sign_cocycle a b c

/-- `_shared_metric_coeff` is the product of the diagonal metric entries over the set bits -/
theorem sharedMetricCoeff_eq_prodBits {R : Type} [CommMonoid R] (g : Nat → R) (s : Nat) :
    sharedMetricCoeff g s = prodBits g s := PV.GA.sharedMetricCoeff_eq_prodBits g s

theorem wGeometric_eq_prodBits {R : Type} [CommMonoid R] (g : Nat → R) (a b : Nat) :
    wGeometric g a b = prodBits g (a &&& b) := PV.GA.wGeometric_eq_prodBits g a b

theorem metric_cocycle {R : Type} [CommMonoid R] (g : Nat → R) (a b c : Nat) :
    wGeometric g a b * wGeometric g (a ^^^ b) c = wGeometric g b c * wGeometric g a (b ^^^ c) :=
  PV.GA.wGeometric_cocycle g a b c

/-- `(e_a e_b) e_c = e_a (e_b e_c)` on basis blades, over any commutative ring -/
theorem blade_cocycle {R : Type} [CommRing R] (g : Nat → R) (a b c : Nat) :
    ((reorderSign a b : Int) : R) * ((reorderSign (a ^^^ b) c : Int) : R)
        * (wGeometric g a b * wGeometric g (a ^^^ b) c)
      = ((reorderSign b c : Int) : R) * ((reorderSign a (b ^^^ c) : Int) : R)
        * (wGeometric g b c * wGeometric g a (b ^^^ c)) :=
  PV.GA.blade_cocycle g a b c

example : reorderSign 0b011 0b110 * reorderSign (0b011 ^^^ 0b110) 0b101
    = reorderSign 0b110 0b101 * reorderSign 0b011 (0b110 ^^^ 0b101) := sign_cocycle _ _ _
example (g : Nat → Int) : wGeometric g 3 6 * wGeometric g (3 ^^^ 6) 5
    = wGeometric g 6 5 * wGeometric g 3 (6 ^^^ 5) := metric_cocycle g 3 6 5
example : blade_cocycle (fun i => if i = 0 then (-1 : Int) else 1) 3 6 5 = blade_cocycle _ 3 6 5 :=
  rfl

/-! ### (e) basis vectors -/

/-- `e_i * e_i = g i` (a null vector gives the empty dict) -/
theorem basis_square (g : Nat → Int) (i : Nat) :
    mvMul g [(2 ^ i, 1)] [(2 ^ i, 1)] = if g i = 0 then [] else [(0, g i)] :=
  basis_square_mv g i

/-- blade level: sign `+1`, result blade `0`, weight `g i` -/
theorem basis_square_blade {R : Type} [CommMonoid R] (g : Nat → R) (i : Nat) :
    reorderSign (2 ^ i) (2 ^ i) = 1 ∧ 2 ^ i ^^^ 2 ^ i = 0 ∧ wGeometric g (2 ^ i) (2 ^ i) = g i :=
  ⟨(basis_square_sign i).1, (basis_square_sign i).2, wGeometric_basis_self g i⟩

/-- `e_i * e_j = -(e_j * e_i)` for `i ≠ j`, with a single term of weight 1 -/
theorem basis_anticommute (g : Nat → Int) {i j : Nat} (h : i ≠ j) :
    mvMul g [(2 ^ i, 1)] [(2 ^ j, 1)] = [(2 ^ i ^^^ 2 ^ j, reorderSign (2 ^ i) (2 ^ j))]
    ∧ mvMul g [(2 ^ i, 1)] [(2 ^ j, 1)] = mvNeg (mvMul g [(2 ^ j, 1)] [(2 ^ i, 1)]) :=
  basis_anticommute_mv g h

theorem basis_anticommute_blade {i j : Nat} (h : i ≠ j) :
    reorderSign (2 ^ i) (2 ^ j) = - reorderSign (2 ^ j) (2 ^ i) := basis_anticommute_sign h

/-- `e_i e_j` is already in canonical order iff `i ≤ j` -/
theorem reorderSignExp_basis (i j : Nat) :
    reorderSignExp (2 ^ i) (2 ^ j) = if j < i then 1 else 0 := reorderSignExp_two_pow i j

example : mvMul (fun i => if i = 2 then -1 else 1) [(2 ^ 2, 1)] [(2 ^ 2, 1)] = [(0, -1)] :=
  basis_square _ 2
example (g : Nat → Int) : mvMul g [(2 ^ 1, 1)] [(2 ^ 4, 1)]
    = mvNeg (mvMul g [(2 ^ 4, 1)] [(2 ^ 1, 1)]) := (basis_anticommute g (by decide)).2

/-! ### (f) the other five products are grade parts of the geometric product

For any coefficient type with `*`, `0`, `1` (no laws needed). -/

section
variable {R : Type} [Mul R] [OfNat R 0] [OfNat R 1] (g : Nat → R) (a b : Nat)

theorem outer_is_grade_part :
    wOuter g a b =
      if bitCount (a ^^^ b) = bitCount a + bitCount b then wGeometric g a b else 0 :=
  wOuter_eq_grade_part g a b

/-- the inner product as coded is the "fat dot": grade `| |a| - |b| |`, scalars NOT excluded -/
theorem inner_is_grade_part :
    wInner g a b =
      if bitCount (a ^^^ b) = max (bitCount a - bitCount b) (bitCount b - bitCount a)
      then wGeometric g a b else 0 :=
  wInner_eq_grade_part g a b

theorem lc_is_grade_part :
    wLeftContraction g a b =
      if bitCount a ≤ bitCount b ∧ bitCount (a ^^^ b) = bitCount b - bitCount a
      then wGeometric g a b else 0 :=
  wLeftContraction_eq_grade_part g a b

theorem rc_is_grade_part :
    wRightContraction g a b =
      if bitCount b ≤ bitCount a ∧ bitCount (a ^^^ b) = bitCount a - bitCount b
      then wGeometric g a b else 0 :=
  wRightContraction_eq_grade_part g a b

theorem scalar_is_grade_part :
    wScalar g a b = if bitCount (a ^^^ b) = 0 then wGeometric g a b else 0 :=
  wScalar_eq_grade_part g a b

end

/-- the set-theoretic side of the grade conditions -/
theorem grade_conditions (a b : Nat) :
    (a &&& b = 0 ↔ pc (a ^^^ b) = pc a + pc b)
    ∧ (a &&& b = a ↔ pc a ≤ pc b ∧ pc (a ^^^ b) = pc b - pc a)
    ∧ (a &&& b = b ↔ pc b ≤ pc a ∧ pc (a ^^^ b) = pc a - pc b)
    ∧ (a = b ↔ pc (a ^^^ b) = 0)
    ∧ ((a &&& b = a ∨ a &&& b = b) ↔ pc (a ^^^ b) = max (pc a - pc b) (pc b - pc a))
    ∧ pc (a ^^^ b) + 2 * pc (a &&& b) = pc a + pc b :=
  ⟨disjoint_iff_grade a b, subset_iff_grade a b, supset_iff_grade a b, eq_iff_grade a b,
    nested_iff_grade a b, pc_xor_add a b⟩

example (g : Nat → Int) : wLeftContraction g 0b010 0b110
    = if bitCount 0b010 ≤ bitCount 0b110 ∧ bitCount (0b010 ^^^ 0b110) = bitCount 0b110 - bitCount 0b010
      then wGeometric g 0b010 0b110 else 0 := lc_is_grade_part g _ _
example (g : Nat → Int) : wInner g 0 0b110 = wGeometric g 0 0b110 := by
  rw [inner_is_grade_part, if_pos (by decide +kernel)]

/-! ### (g) `rev`, `invol`, commutation -/

/-- `rev` multiplies a grade-`k` blade by `(-1)^(k(k-1)/2)`, which is the reordering sign of the
    blade against itself -/
theorem rev_sign (a : Nat) :
    revSign a = (if pc a * (pc a - 1) / 2 % 2 = 0 then 1 else -1) ∧ revSign a = reorderSign a a := by
  refine ⟨?_, revSign_eq_reorderSign_self a⟩
  unfold revSign; rw [PV.GA.bitCount_eq_popcount]

/-- `e_b e_a = (-1)^(|a||b| - |a ∩ b|) e_a e_b` -/
theorem reorderSign_swap (a b : Nat) :
    reorderSign b a = sgn (pc a * pc b - pc (a &&& b)) * reorderSign a b :=
  PV.GA.reorderSign_swap a b

/-- blade level: `rev (e_a e_b) = rev e_b * rev e_a` -/
theorem rev_antiauto_blade (a b : Nat) :
    revSign (a ^^^ b) * reorderSign a b = reorderSign b a * (revSign b * revSign a) :=
  rev_antiauto_sign a b

/-- blade level: `invol (e_a e_b) = invol e_a * invol e_b` -/
theorem invol_auto_blade (a b : Nat) : involSign (a ^^^ b) = involSign a * involSign b :=
  invol_auto_sign a b

/-- `(A * B).rev() == B.rev() * A.rev()` for all multivectors -/
theorem rev_antiauto (g : Nat → Int) (a b : MV) :
    mvEq (rev (mvMul g a b)) (mvMul g (rev b) (rev a)) = true := rev_mvMul g a b

/-- `(A · B).invol() == A.invol() · B.invol()` for each of the six products -/
theorem invol_auto (w : Nat → Nat → Int) (a b : MV) :
    mvEq (invol (genericProduct w a b)) (genericProduct w (invol a) (invol b)) = true :=
  invol_genericProduct w a b

example : reorderSign 0b0110 0b1011
    = sgn (pc 0b1011 * pc 0b0110 - pc (0b1011 &&& 0b0110)) * reorderSign 0b1011 0b0110 :=
  reorderSign_swap _ _
example : revSign 0b111 = -1 := by rw [(rev_sign _).1]; decide +kernel

/-! ### (h) multivectors: pruning, coefficient formula, bilinearity, associativity -/

/-- whatever the operands, a product never stores a zero coefficient or a duplicate key -/
theorem product_pruned (w : Nat → Nat → Int) (a b : MV) : Pruned (genericProduct w a b) :=
  genericProduct_pruned w a b

/-- the coefficient of blade `k` in `_generic_product` -/
theorem product_coeff (w : Nat → Nat → Int) (a b : MV) (k : Nat) :
    coeff (genericProduct w a b) k
      = lsum (fun s => lsum (fun o =>
          if s.1 ^^^ o.1 = k then w s.1 o.1 * reorderSign s.1 o.1 * s.2 * o.2 else 0) b) a :=
  coeff_genericProduct w a b k

/-- `product_bilinear`, left argument -/
theorem product_bilinear_left (w : Nat → Nat → Int) {a a1 a2 : MV} (x y : Int) (c : MV)
    (ha : NodupKeys a) (ha1 : NodupKeys a1) (ha2 : NodupKeys a2)
    (h : ∀ k, coeff a k = x * coeff a1 k + y * coeff a2 k) (k : Nat) :
    coeff (genericProduct w a c) k
      = x * coeff (genericProduct w a1 c) k + y * coeff (genericProduct w a2 c) k :=
  coeff_genericProduct_lin_left w x y c ha ha1 ha2 h k

/-- `product_bilinear`, right argument -/
theorem product_bilinear_right (w : Nat → Nat → Int) (a : MV) {c c1 c2 : MV} (x y : Int)
    (hc : NodupKeys c) (hc1 : NodupKeys c1) (hc2 : NodupKeys c2)
    (h : ∀ k, coeff c k = x * coeff c1 k + y * coeff c2 k) (k : Nat) :
    coeff (genericProduct w a c) k
      = x * coeff (genericProduct w a c1) k + y * coeff (genericProduct w a c2) k :=
  coeff_genericProduct_lin_right w a x y hc hc1 hc2 h k

/-- `(A + B) * C == A * C + B * C` and `A * (B + C) == A * B + A * C` as Python evaluates them,
    for each of the six products -/
theorem product_distrib (w : Nat → Nat → Int) {a b c : MV}
    (ha : NodupKeys a) (hb : NodupKeys b) (hc : NodupKeys c) :
    mvEq (genericProduct w (mvAdd a b) c) (mvAdd (genericProduct w a c) (genericProduct w b c))
      = true
    ∧ mvEq (genericProduct w a (mvAdd b c)) (mvAdd (genericProduct w a b) (genericProduct w a c))
      = true :=
  ⟨genericProduct_add_left w c ha hb, genericProduct_add_right w a hb hc⟩

/-- `product_assoc`: `(A * B) * C == A * (B * C)` for the geometric product as coded, for all
    multivectors, all diagonal integer metrics, all dimensions -/
theorem product_assoc (g : Nat → Int) (a b c : MV) :
    mvEq (mvMul g (mvMul g a b) c) (mvMul g a (mvMul g b c)) = true := mvMul_assoc g a b c

/-- the outer product is associative, too -/
theorem outer_assoc (g : Nat → Int) (a b c : MV) :
    mvEq (mvOuter g (mvOuter g a b) c) (mvOuter g a (mvOuter g b c)) = true :=
  mvOuter_assoc g a b c

/-- `A + B` is pruned and denotes the pointwise sum -/
theorem add_spec {a b : MV} (ha : NodupKeys a) (hb : NodupKeys b) :
    Pruned (mvAdd a b) ∧ ∀ k, coeff (mvAdd a b) k = coeff a k + coeff b k := mvAdd_spec ha hb

/-- `blade_inv`: when `inv` succeeds on `{bits: c}` its result `numer / denom` is a two-sided
    inverse, `denom = g-norm² ≠ 0` -/
theorem blade_inv (g : Nat → Int) (dims bits : Nat) (c : Int) (numer : MV) (denom : Int)
    (h : inv g dims [(bits, c)] = .ok numer denom) :
    denom ≠ 0 ∧ denom = sharedMetricCoeff g bits * c * c ∧
    mvMul g [(bits, c)] numer = [(0, denom)] ∧ mvMul g numer [(bits, c)] = [(0, denom)] :=
  PV.GA.blade_inv g dims bits c numer denom h

/-- `norm_sq` of a blade -/
theorem norm_sq (g : Nat → Int) (bits : Nat) (c : Int) :
    normSquared g [(bits, c)] = some (sharedMetricCoeff g bits * c * c) :=
  normSquared_blade g bits c

example (g : Nat → Int) :
    mvEq (mvMul g (mvMul g [(1, 2), (6, -3)] [(3, 5), (0, 7)]) [(5, 1), (2, 4)])
      (mvMul g [(1, 2), (6, -3)] (mvMul g [(3, 5), (0, 7)] [(5, 1), (2, 4)])) = true :=
  product_assoc g _ _ _
example (g : Nat → Int) : Pruned (mvMul g [(1, 2), (1, -2), (0, 0)] [(3, 5), (0, 0)]) :=
  product_pruned _ _ _

/-! ### equality and truth value -/

/-- `eq_iff_coeffwise`: on pruned dicts Python's `==` is equality of coefficient functions -/
theorem eq_iff_coeffwise {a b : MV} (ha : Pruned a) (hb : Pruned b) :
    mvEq a b = true ↔ ∀ k, coeff a k = coeff b k := mvEq_iff_coeffwise ha hb

/-- `bool(A)` on pruned dicts is "some coefficient is non-zero" -/
theorem bool_iff_nonzero {a : MV} (ha : Pruned a) : mvBool a = true ↔ ∃ k, coeff a k ≠ 0 :=
  mvBool_iff_of_pruned ha

/-! #### the scalar zero (repaired in /repo by the `fix:` commit "MultiVector(0) stores no
    coefficient"; before it `MultiVector(0)` stored `{0: 0}`, `(e0-e0)==0` was `False` and
    `bool(MultiVector(0))` was `True`) -/

/-- `MultiVector(x)` is pruned for every scalar `x`; the scalar zero is the empty dict and falsy -/
theorem scalar_pruned (x : Int) : Pruned (ofScalar x) := ofScalar_pruned x

theorem scalar_zero_falsy : mvBool (ofScalar 0) = false ∧ mvEq [] (ofScalar 0) = true := by
  constructor <;> rfl

/-- `x == 0` on every pruned dict (all results of `+`, `-` and the products) is coefficient-wise -/
theorem eq_scalar_zero_iff {a : MV} (ha : Pruned a) :
    mvEqScalar a 0 = true ↔ ∀ k, coeff a k = 0 :=
  mvEqScalar_zero_iff_of_pruned ha

example : mvEqScalar (mvSub [(1, 1)] [(1, 1)]) 0 = true := by decide
example : mvSub [(1, 1)] [(1, 1)] = [] := by decide

/-- `MultiVector(0) * A` is the empty dict -/
theorem product_scalar_zero (w : Nat → Nat → Int) (a : MV) :
    genericProduct w (ofScalar 0) a = [] ∧ genericProduct w a (ofScalar 0) = [] :=
  genericProduct_ofScalar_zero w a

/-! ### `permutation_sign`, `bits_and_sign` -/

theorem permutationSign_id (n : Nat) : permutationSign? (List.range n) = some 1 :=
  permutationSign_range n

theorem bitsAndSign_two {i j : Nat} (h : i ≠ j) :
    bitsAndSign [i, j] = (2 ^ i ||| 2 ^ j, reorderSign (2 ^ i) (2 ^ j)) := bitsAndSign_pair h

/-- all 24 permutations of `0..3`: `permutation_sign` is the parity of the inversion number -/
def invCount : List Nat → Nat
  | [] => 0
  | x :: xs => (xs.filter (· < x)).length + invCount xs

def insertEverywhere (x : Nat) : List Nat → List (List Nat)
  | [] => [[x]]
  | y :: ys => (x :: y :: ys) :: (insertEverywhere x ys).map (y :: ·)

def perms : List Nat → List (List Nat)
  | [] => [[]]
  | x :: xs => (perms xs).flatMap (insertEverywhere x)

theorem permutationSign_small :
    ∀ p ∈ perms [0, 1, 2, 3], permutationSign? p = some (if invCount p % 2 = 0 then 1 else -1) := by
  decide

example : permutationSign? [1, 0, 3] = none := by decide  -- IndexError in Python

end PV.C18
