import PV.Proofs.Pickle
import PV.Proofs.PickleDigest
/-
  C17 — pickles and persistent keys are stable across processes: property theorems.

  Model: lean/PV/Model/Pickle.lean.  An object (`Obj`) is a tree of builtin values and INSTANCES
  (class name, kind of class, field values, `_hash_value` slot); every instance at every depth has
  its own slot.  A process is a `HashParams` (`str` is the seed-dependent part).  `hashC`, `eqC`,
  `memberC`, `pickle`, `unpickle` follow the generated `__hash__`, `__eq__`, `__getstate__`,
  `__setstate__` (and `Expression.__eq__/__hash__/__getstate__/__setstate__` for legacy classes);
  `run`/`crossRun` are histories of these operations in a producer process followed by a consumer
  process.  The agreement of all of this with the real code — results and which slots are set
  after every operation, in real interpreter processes with different PYTHONHASHSEED / -O, pickle
  protocols 0–5, stock, user and legacy classes — is checked by harness/props/c17.py on every run.

  Hypotheses used below and why:
    `P.Ok`           the process hashes numbers by value and mappings independently of order
                     (true of CPython; needed so that `==` objects have equal hashes);
    `o.wf`           no float nan inside (nan != nan, so such an expression is not == to its own
                     copy), keyword names duplicate-free (always true of a dict);
    `l.coherent P`   the locally built object may itself have been hashed already — in ITS process.
  No hypothesis relates the producer's hash parameters to the consumer's.
-/
namespace PV.C17
open PV PV.Pickle

/-! ### hash parameters exist, are seed dependent, and satisfy `Ok` (non-vacuity of what follows) -/

/-- a small process: strings hash differently for different seeds, numbers by value -/
def exP (seed : Nat) : HashParams where
  num := fun _ _ => 0
  str := fun s => seed + s.length
  none := 0
  tuple := fun _ hs => hs.sum + 1
  mapping := fun l => l.length

theorem exP_ok (seed : Nat) : (exP seed).Ok :=
  ⟨fun _ _ _ _ _ _ _ => rfl, fun _ _ h => h.length_eq⟩

example : (exP 0).str "x" ≠ (exP 1).str "x" := by decide

/-- `Variable("x")`, freshly built -/
def varX : Obj := .inst "Variable" .dataclass [strAtom "x"] none

/-! ### 1. The pickle never contains the cached hash -/

/-- **pickle_drops_cache.**  Two object graphs with the same fields have the same pickle, whatever
`_hash_value` slots are set, anywhere in the graph, to whatever values: the pickle is a function of
the fields alone (the generated `__getstate__` returns the field tuple only, at every level). -/
theorem pickle_drops_cache (a b : Obj) (h : a.erase = b.erase) : a.pickle = b.pickle := by
  rw [← pickle_erase a, ← pickle_erase b, h]

/-- in particular: hashing (in any process) before pickling changes nothing in the pickle -/
theorem pickle_after_hash (P : HashParams) (o : Obj) (ho : o.coherent P) :
    (o.hashC P).2.pickle = o.pickle :=
  pickle_drops_cache _ _ (hashC_spec P o ho).2.2

/-- what is excluded: with default pickling (state = `__dict__`) the slot travels -/
example : (varX.hashC (exP 0)).2.pickleNaive.unpickleNaive.bits = [true] := by decide
example : (varX.hashC (exP 0)).2.pickle.unpickle.bits = [false] := by decide

/-- **unpickle_fresh.**  Whatever the bytes, an unpickled object has no slot set, at any depth
(the generated `__setstate__` sets the fields only). -/
theorem unpickle_fresh (p : Pk) : p.unpickle.noCache = true := unpickle_noCache p

/-- the round trip returns the fields: a new object equal to the cache-free original -/
theorem unpickle_pickle (o : Obj) : o.pickle.unpickle = o.erase := Pickle.unpickle_pickle o

/-! ### 2. The consumer computes ITS hash -/

/-- **unpickle_hash_local.**  `o` is an object in ANY state (slots filled by any producer process,
coherent or not); `l` is the object built from the same source in the consumer process `P₂`,
possibly hashed there already.  Then `hash` of the unpickled object in the consumer is the
consumer's structural hash of the fields, which is what `hash(l)` returns. -/
theorem unpickle_hash_local (P₂ : HashParams) (o l : Obj) (hl : l.coherent P₂)
    (hsrc : l.erase = o.erase) :
    (o.pickle.unpickle.hashC P₂).1 = o.erase.hash P₂ ∧
      (o.pickle.unpickle.hashC P₂).1 = (l.hashC P₂).1 := by
  have hu := hashC_spec P₂ o.pickle.unpickle (noCache_coherent P₂ _ (unpickle_fresh _))
  rw [Pickle.unpickle_pickle] at hu ⊢
  refine ⟨hu.1, ?_⟩
  rw [hu.1, (hashC_spec P₂ l hl).1, hash_erase]
  exact (hash_congr P₂ hsrc).symm

/-- the same with the producer explicit: built from source and hashed under `P₁`, pickled,
unpickled and hashed under `P₂`: the result is `P₂`'s hash, for all `P₁ P₂` -/
theorem hashed_then_pickled (P₁ P₂ : HashParams) (src : Obj) (hs : src.noCache = true) :
    ((src.hashC P₁).2.pickle.unpickle.hashC P₂).1 = src.hash P₂ := by
  have h1 := hashC_spec P₁ src (noCache_coherent P₁ src hs)
  have := (unpickle_hash_local P₂ (src.hashC P₁).2 src (noCache_coherent P₂ src hs) h1.2.2.symm).1
  rw [this, hash_erase]
  exact hash_congr P₂ h1.2.2

/-- … and it is the hash of ANY locally built object that is `==` to the original (keyword
arguments in another order, `1` for `1.0`, …) -/
theorem unpickle_hash_local_eq {P₂ : HashParams} (hP : P₂.Ok) (o l : Obj) (hl : l.coherent P₂)
    (wo : o.wf = true) (wl : l.wf = true) (heq : l.pyEq o = true) :
    (o.pickle.unpickle.hashC P₂).1 = (l.hashC P₂).1 := by
  have hu := hashC_spec P₂ o.pickle.unpickle (noCache_coherent P₂ _ (unpickle_fresh _))
  rw [hu.1, (hashC_spec P₂ l hl).1, Pickle.unpickle_pickle, hash_erase]
  exact (Obj.eq_hash hP l o wl wo heq).symm

/-- the stale-hash failure the mechanism prevents really is expressible in the model: with naive
pickling the consumer (`exP 1`) would return the producer's (`exP 0`) hash -/
example :
    ((varX.hashC (exP 0)).2.pickleNaive.unpickleNaive.hashC (exP 1)).1 ≠ varX.hash (exP 1) := by
  decide
example : ((varX.hashC (exP 0)).2.pickle.unpickle.hashC (exP 1)).1 = varX.hash (exP 1) := by
  decide

/-! ### 3. The unpickled object is `==` to the locally built one and finds it -/

/-- **unpickle_eq.**  In the consumer the unpickled object and the one built from the same source
compare equal, in both directions, through the generated `__eq__` (hash comparison included). -/
theorem unpickle_eq {P₂ : HashParams} (hP : P₂.Ok) (o l : Obj) (hl : l.coherent P₂)
    (wo : o.wf = true) (hsrc : l.erase = o.erase) :
    (eqC P₂ o.pickle.unpickle l).1 = true ∧ (eqC P₂ l o.pickle.unpickle).1 = true := by
  have hu := noCache_coherent P₂ _ (unpickle_fresh o.pickle)
  have wu : o.pickle.unpickle.wf = true := by rw [Pickle.unpickle_pickle, wf_erase]; exact wo
  have wl : l.wf = true := by rw [wf_congr hsrc]; exact wo
  have e1 := (eqC_spec hP _ l hu hl wu wl).ans
  have e2 := (eqC_spec hP l _ hl hu wl wu).ans
  rw [Pickle.unpickle_pickle] at e1 e2
  rw [Pickle.unpickle_pickle, e1, e2]
  exact ⟨by rw [pyEq_congr (erase_erase o) hsrc]; exact Obj.pyEq_refl o wo,
    by rw [pyEq_congr hsrc (erase_erase o)]; exact Obj.pyEq_refl o wo⟩

/-- a locally built object that is `==` to the original (not necessarily from the same source:
keyword arguments in another order, `1.0` for `1`, …) is `==` to the unpickled one, both ways -/
theorem unpickle_eq_of_pyEq {P₂ : HashParams} (hP : P₂.Ok) (o l : Obj) (hl : l.coherent P₂)
    (wo : o.wf = true) (wl : l.wf = true) (heq : l.pyEq o = true) :
    (eqC P₂ l o.pickle.unpickle).1 = true ∧ (eqC P₂ o.pickle.unpickle l).1 = true := by
  have hu := noCache_coherent P₂ _ (unpickle_fresh o.pickle)
  have wu : o.pickle.unpickle.wf = true := by rw [Pickle.unpickle_pickle, wf_erase]; exact wo
  rw [(eqC_spec hP l _ hl hu wl wu).ans, (eqC_spec hP _ l hu hl wu wl).ans,
    Pickle.unpickle_pickle, pyEq_erase_right, pyEq_erase_left]
  exact ⟨heq, Obj.pyEq_symm l o wl wo heq⟩

/-- … and each finds the other in sets and dicts -/
theorem unpickle_member_of_pyEq {P₂ : HashParams} (hP : P₂.Ok) (o l : Obj) (hl : l.coherent P₂)
    (wo : o.wf = true) (wl : l.wf = true) (heq : l.pyEq o = true) :
    (memberC P₂ o.pickle.unpickle l).1 = true ∧ (memberC P₂ l o.pickle.unpickle).1 = true := by
  have hu := noCache_coherent P₂ _ (unpickle_fresh o.pickle)
  have wu : o.pickle.unpickle.wf = true := by rw [Pickle.unpickle_pickle, wf_erase]; exact wo
  rw [(memberC_spec hP _ l hu hl wu wl).ans, (memberC_spec hP l _ hl hu wl wu).ans,
    Pickle.unpickle_pickle, pyEq_erase_right, pyEq_erase_left]
  exact ⟨heq, Obj.pyEq_symm l o wl wo heq⟩

/-- **unpickle_member.**  `unpickled in {local}` / `{local: 1}` and `local in {unpickled}` /
`{unpickled: 1}` are both true in the consumer. -/
theorem unpickle_member {P₂ : HashParams} (hP : P₂.Ok) (o l : Obj) (hl : l.coherent P₂)
    (wo : o.wf = true) (hsrc : l.erase = o.erase) :
    (memberC P₂ o.pickle.unpickle l).1 = true ∧ (memberC P₂ l o.pickle.unpickle).1 = true := by
  have hu := noCache_coherent P₂ _ (unpickle_fresh o.pickle)
  have wu : o.pickle.unpickle.wf = true := by rw [Pickle.unpickle_pickle, wf_erase]; exact wo
  have wl : l.wf = true := by rw [wf_congr hsrc]; exact wo
  have e1 := (memberC_spec hP _ l hu hl wu wl).ans
  have e2 := (memberC_spec hP l _ hl hu wl wu).ans
  rw [Pickle.unpickle_pickle] at e1 e2
  rw [Pickle.unpickle_pickle, e1, e2]
  exact ⟨by rw [pyEq_congr hsrc (erase_erase o)]; exact Obj.pyEq_refl o wo,
    by rw [pyEq_congr (erase_erase o) hsrc]; exact Obj.pyEq_refl o wo⟩

/-- non-vacuity: a user node type `Norm(Variable("x"), 2)` hashed under seed 0, pickled, looked up
under seed 1 -/
example :
    let o : Obj := .inst "Norm" .dataclass [varX, .atom (.int 2)] none
    (memberC (exP 1) ((o.hashC (exP 0)).2.pickle.unpickle) o).1 = true := by decide

/-- **expr_unpickle_found.**  Stock node classes: `a` is any well-formed expression, `o` its object
in the producer in ANY slot state; `b` is an expression built in the consumer with `b == a`
(Python `==`, C01).  Then the unpickled object hashes, in the consumer, to `hash(b)`,
`b == unpickled` holds, and each is found in a set / dict holding the other. -/
theorem expr_unpickle_found {P₂ : HashParams} (hP : P₂.Ok) (a b : Expr) (ha : a.wf = true)
    (hb : b.wf = true) (heq : b.pyEq a = true) (o : Obj) (ho : o.erase = ofExpr a) :
    (o.pickle.unpickle.hashC P₂).1 = ((ofExpr b).hashC P₂).1 ∧
      (eqC P₂ (ofExpr b) o.pickle.unpickle).1 = true ∧
      (memberC P₂ o.pickle.unpickle (ofExpr b)).1 = true ∧
      (memberC P₂ (ofExpr b) o.pickle.unpickle).1 = true := by
  have wo : o.wf = true := by
    rw [← wf_erase, ho]; exact ofExpr_wf a ha
  have wl := ofExpr_wf b hb
  have hl := noCache_coherent P₂ _ (ofExpr_noCache b)
  have hq : (ofExpr b).pyEq o = true := by
    rw [← pyEq_erase_right, ho]; exact ofExpr_pyEq b a heq
  exact ⟨unpickle_hash_local_eq hP o _ hl wo wl hq, (unpickle_eq_of_pyEq hP o _ hl wo wl hq).1,
    unpickle_member_of_pyEq hP o _ hl wo wl hq⟩

/-! ### 4. All operation orders: histories in a producer and a consumer process -/

/-- **history_refines.**  From any coherent state of a process, any sequence of `hash`, `==`,
`in`, `pickle`, `unpickle` operations (a) keeps every slot coherent with this process, and (b)
answers exactly as the slot-free, process-free reference semantics does. -/
theorem history_refines {P : HashParams} (hP : P.Ok) (w : World) (hc : w.coherent P) (hw : w.wf)
    (ops : List Op) :
    (run P w ops).1.coherent P ∧ (run P w ops).2.map Out.core = (runRef w.erased ops).2 := by
  obtain ⟨h1, _, _, h4⟩ := run_sim hP ops w hc hw
  exact ⟨h1, h4⟩

/-- **cross_process_independent.**  Producer with hash parameters `P₁`, consumer with `P₂`, the
same pool built from source in both, arbitrary operation sequences `ops₁` / `ops₂` (the consumer
reads the producer's pickles): every answer — in both processes — is the answer of the reference
run, which mentions neither `P₁` nor `P₂`. -/
theorem cross_process_independent {P₁ P₂ : HashParams} (h₁ : P₁.Ok) (h₂ : P₂.Ok) (src : List Obj)
    (hsrc : ∀ o ∈ src, o.wf = true) (ops₁ ops₂ : List Op) :
    (crossRun P₁ P₂ src ops₁ ops₂).1.map Out.core = (crossRef src ops₁ ops₂).1 ∧
      (crossRun P₁ P₂ src ops₁ ops₂).2.map Out.core = (crossRef src ops₁ ops₂).2 := by
  have coh : ∀ (P : HashParams) (bl : List Pk), World.coherent P ⟨Obj.eraseL src, bl⟩ := by
    intro P bl o ho
    obtain ⟨s, _, rfl⟩ := eraseL_mem ho
    exact noCache_coherent P _ (erase_noCache s)
  have wfp : ∀ o ∈ Obj.eraseL src, o.wf = true := by
    intro o ho
    obtain ⟨s, hs, rfl⟩ := eraseL_mem ho
    rw [wf_erase]; exact hsrc s hs
  have er : ∀ bl : List Pk, World.erased ⟨Obj.eraseL src, bl⟩ = ⟨Obj.eraseL src, bl⟩ := by
    intro bl
    simp only [World.erased, eraseL_eq_map, List.map_map]
    congr 1
    apply List.map_congr_left
    intro o _
    exact erase_erase o
  obtain ⟨_, a2, a3, a4⟩ := run_sim h₁ ops₁ ⟨Obj.eraseL src, []⟩ (coh P₁ [])
    ⟨wfp, by simp⟩
  rw [er] at a3 a4
  have hb : (run P₁ ⟨Obj.eraseL src, []⟩ ops₁).1.blobs =
      (runRef ⟨Obj.eraseL src, []⟩ ops₁).1.blobs := by
    have := congrArg World.blobs a3
    simpa [World.erased] using this
  obtain ⟨_, _, _, b4⟩ := run_sim h₂ ops₂
    ⟨Obj.eraseL src, (run P₁ ⟨Obj.eraseL src, []⟩ ops₁).1.blobs⟩ (coh P₂ _) ⟨wfp, a2.2⟩
  rw [er] at b4
  refine ⟨a4, ?_⟩
  show List.map Out.core (run P₂ ⟨Obj.eraseL src, (run P₁ ⟨Obj.eraseL src, []⟩ ops₁).1.blobs⟩ ops₂).2
    = (runRef ⟨Obj.eraseL src, (runRef ⟨Obj.eraseL src, []⟩ ops₁).1.blobs⟩ ops₂).2
  rw [← hb]
  exact b4

/-- the answers do not depend on the hash seeds of the two processes -/
theorem cross_process_seed_free {P₁ P₂ Q₁ Q₂ : HashParams} (h₁ : P₁.Ok) (h₂ : P₂.Ok) (k₁ : Q₁.Ok)
    (k₂ : Q₂.Ok) (src : List Obj) (hsrc : ∀ o ∈ src, o.wf = true) (ops₁ ops₂ : List Op) :
    (crossRun P₁ P₂ src ops₁ ops₂).2.map Out.core = (crossRun Q₁ Q₂ src ops₁ ops₂).2.map Out.core := by
  rw [(cross_process_independent h₁ h₂ src hsrc ops₁ ops₂).2,
    (cross_process_independent k₁ k₂ src hsrc ops₁ ops₂).2]

/-- **cross_hash_fresh.**  In every cross-process history every `hash` call of the consumer (and
of the producer) returns that process's hash of a freshly built object with the same fields —
for all `P₁`, `P₂` and all orders of operations. -/
theorem cross_hash_fresh {P₁ P₂ : HashParams} (h₁ : P₁.Ok) (h₂ : P₂.Ok) (src : List Obj)
    (hsrc : ∀ o ∈ src, o.wf = true) (ops₁ ops₂ : List Op) :
    (∀ o ∈ (crossRun P₁ P₂ src ops₁ ops₂).1, Out.hashFresh o = true) ∧
      (∀ o ∈ (crossRun P₁ P₂ src ops₁ ops₂).2, Out.hashFresh o = true) := by
  obtain ⟨e1, e2⟩ := cross_process_independent h₁ h₂ src hsrc ops₁ ops₂
  constructor
  · intro o ho
    rw [← core_fresh]
    apply runRef_fresh ops₁ ⟨Obj.eraseL src, []⟩
    have : o.core ∈ (crossRun P₁ P₂ src ops₁ ops₂).1.map Out.core := List.mem_map_of_mem ho
    rw [e1] at this
    exact this
  · intro o ho
    rw [← core_fresh]
    apply runRef_fresh ops₂ ⟨Obj.eraseL src, (runRef ⟨Obj.eraseL src, []⟩ ops₁).1.blobs⟩
    have : o.core ∈ (crossRun P₁ P₂ src ops₁ ops₂).2.map Out.core := List.mem_map_of_mem ho
    rw [e2] at this
    exact this

/-- the processes the compiled driver executes in the correspondence runs (`toyParams seed`) are
instances of the theorems above, for every pair of seeds -/
theorem driver_instance (s₁ s₂ : Nat) (src : List Obj) (hsrc : ∀ o ∈ src, o.wf = true)
    (ops₁ ops₂ : List Op) :
    (crossRun (toyParams s₁) (toyParams s₂) src ops₁ ops₂).1.map Out.core = (crossRef src ops₁ ops₂).1 ∧
      (crossRun (toyParams s₁) (toyParams s₂) src ops₁ ops₂).2.map Out.core
        = (crossRef src ops₁ ops₂).2 :=
  cross_process_independent (toyParams_ok s₁) (toyParams_ok s₂) src hsrc ops₁ ops₂

/-- a decidable view of an output: (kind, answer, slots, slots) -/
def Out.view : Out → Nat × Bool × List Bool × List Bool
  | .hash f b => (0, f, b, [])
  | .eq r a b => (1, r, a, b)
  | .member r a b => (2, r, a, b)
  | .pickled => (3, true, [], [])
  | .unpickled o => (4, o.noCache, o.bits, [])
  | .bad => (5, false, [], [])

/-- non-vacuity: hash, pickle (producer, seed 0); unpickle, look up, hash (consumer, seed 1) -/
example :
    ((crossRun (exP 0) (exP 1) [varX] [.hash 0, .pickle 0 2]
        [.unpickle 0, .member 1 0, .hash 1]).2).map Out.view
      = [(4, true, [false], []), (2, true, [true], [true]), (0, true, [true], [])] := by decide

/-! ### 5. Compiled expressions -/

/-- **compiled_roundtrip.**  A compiled expression pickles `(expression, variables)` and
re-compiles: after the round trip into process `P₂` it holds the same expression and variables
(so the same code, a function of the two), and every slot the re-compilation set is `P₂`'s. -/
theorem compiled_roundtrip (P₂ : HashParams) (c : Compiled) :
    (Compiled.unpickle P₂ c.pickle).expr.erase = c.expr.erase ∧
      (Compiled.unpickle P₂ c.pickle).vars = c.vars ∧
      (Compiled.unpickle P₂ c.pickle).expr.coherent P₂ := by
  have h := hashVars_spec P₂ c.expr.pickle.unpickle (noCache_coherent P₂ _ (unpickle_fresh _))
  refine ⟨?_, rfl, h.1⟩
  show (c.expr.pickle.unpickle.hashVars P₂).erase = c.expr.erase
  rw [h.2, Pickle.unpickle_pickle, erase_erase]

/-! ### 6. The persistent-hash digest -/

/-- **digest_structural_partial.**  Trees that are `==`, whose constants at corresponding
positions have the same Python type (and, for floats, the same `repr`: the digest hashes `repr`, so
`1`, `1.0`, `True` — or `0.0`, `-0.0` — are `==` but digest differently; "equal" in the property's
sense is "same structure"), and whose keyword arguments — if there are any — were inserted in the
same order (`sameShape`), feed the same byte strings to the key hash.

    Full-strength target (keyword mappings compared as mappings), NOT provable today:
      theorem digest_structural (a b) : a.wf → b.wf → a.pyEq b → sameShapeModuloKwOrder a b →
        digest a = digest b
    see `digest_kwargs_order_cex`. -/
theorem digest_structural_partial (a b : Expr) (ha : a.wf = true) (hb : b.wf = true)
    (heq : a.pyEq b = true) (hs : sameShape a b = true) : digest a = digest b :=
  digest_ok a b ha hb heq hs

/-- the hypothesis is satisfiable and the conclusion non-trivial -/
example :
    let a := Expr.callKw (.var "f") [.const (.int 1)] ["k", "j"] [.var "x", .const (.flt "0.5" 1 2)]
    sameShape a a = true ∧ a.pyEq a = true ∧
      (digest a).toOption = some ["CallWithKwargs", "f", "1", "x", "0.5"] := by decide

/-- **digest_kwargs_order_cex** (known finding `persistent-hash-kwargs-order`).
`f(b, k=c, j=x)` and `f(b, j=x, k=c)` are `==` but their digest streams differ: keyword values are
walked in insertion order and keyword names are not hashed at all. -/
theorem digest_kwargs_order_cex :
    let a := Expr.callKw (.var "f") [.var "b"] ["k", "j"] [.var "c", .var "x"]
    let b := Expr.callKw (.var "f") [.var "b"] ["j", "k"] [.var "x", .var "c"]
    a.wf = true ∧ b.wf = true ∧ a.pyEq b = true ∧ digest a ≠ digest b := by
  refine ⟨by decide, by decide, by decide, fun h => ?_⟩
  have := congrArg Except.toOption h
  revert this
  decide

/-- expected, not a finding: numerically equal constants of different type digest differently -/
example : (Expr.const (.int 1)).pyEq (.const (.bool true)) = true ∧
    (digest (.const (.int 1))).toOption ≠ (digest (.const (.bool true))).toOption := by decide

/-- **digest_process_independent.**  The digest computed in a process with hash parameters `P₁`,
optimised or not, is the digest computed in any other: the digest model has no hash parameter, no
object identity and no set iteration. -/
theorem digest_process_independent (P₁ P₂ : HashParams) (o₁ o₂ : Bool) (e : Expr) :
    digestIn P₁ o₁ e = digestIn P₂ o₂ e := rfl

/-- with the previous theorem: structurally equal trees get the same digest in any two processes -/
theorem digest_cross_process (P₁ P₂ : HashParams) (o₁ o₂ : Bool) (a b : Expr) (ha : a.wf = true)
    (hb : b.wf = true) (heq : a.pyEq b = true) (hs : sameShape a b = true) :
    digestIn P₁ o₁ a = digestIn P₂ o₂ b :=
  digest_structural_partial a b ha hb heq hs

end PV.C17
