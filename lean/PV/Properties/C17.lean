import PV.Proofs.Pickle
import PV.Proofs.PickleDigest
import PV.Proofs.PersistentHashInj
import PV.Proofs.SyntaxBEq
import PV.Generated.Traversal
import PV.Generated.PersistentHash
/-
  C17 — pickles and persistent keys are stable across processes: property theorems.

  Model: lean/PV/Model/Pickle.lean.  An object (`Obj`) is a tree of builtin values and INSTANCES
  (class name, kind of class, field values, `_hash_value` slot); every instance at every depth has
  its own slot.  A process is a `HashParams` (`str` is the seed-dependent part).  `hashC`, `eqC`,
  `memberC`, `pickle`, `unpickle` follow the generated `__hash__`, `__eq__`, `__getstate__`,
  `__setstate__` (and `Expression.__eq__/__hash__/__getstate__/__setstate__` for legacy classes);
  `run`/`crossRun` are histories of these operations in a producer process followed by a consumer
  process.  The agreement of all of this with the real code — results and which slots are set
  after every operation, in real interpreter processes with different PYTHONHASHSEED / -O, pickle
  protocols 0–5, stock, user and legacy classes — is checked by harness/props/c17.py on every run.

  Hypotheses used below and why:
    `P.Ok`           the process hashes numbers by value and mappings independently of order
                     (true of CPython; needed so that `==` objects have equal hashes);
    `o.wf`           no float nan inside (nan != nan, so such an expression is not == to its own
                     copy), keyword names duplicate-free (always true of a dict);
    `l.coherent P`   the locally built object may itself have been hashed already — in ITS process.
  No hypothesis relates the producer's hash parameters to the consumer's.

  Persistent-hash digest (sections 6–8): `digest` (PV/Model/Pickle.lean) is the list of byte strings
  `PersistentHashWalkMapper` feeds to its hash object.  Section 7 proves it equal, for all
  expressions, to the interpreter `c17DigestT` of the class body re-read from the source on every
  run (lean/PV/Generated/PersistentHash.lean) on top of the regenerated `WalkMapper` rows.
  Section 8 states what the feed determines: hypotheses `c17Sep ar a` (every variadic node has the
  number of children the rank discipline `ar` gives its class; variable names read as names,
  float reprs as floats — PV/Model/PersistentHashSep.lean) and, for the concatenated bytes, a
  self-delimiting piece encoding; conclusion up to the never-fed fields (`c17Erase`).
-/
namespace PV.C17
open PV PV.Pickle

/-! ### hash parameters exist, are seed dependent, and satisfy `Ok` (non-vacuity of what follows) -/

/-- a small process: strings hash differently for different seeds, numbers by value -/
def exP (seed : Nat) : HashParams where
  num := fun _ _ => 0
  str := fun s => seed + s.length
  none := 0
  tuple := fun _ hs => hs.sum + 1
  mapping := fun l => l.length

theorem exP_ok (seed : Nat) : (exP seed).Ok :=
  ⟨fun _ _ _ _ _ _ _ => rfl, fun _ _ h => h.length_eq⟩

example : (exP 0).str "x" ≠ (exP 1).str "x" := by decide

/-- `Variable("x")`, freshly built -/
def varX : Obj := .inst "Variable" .dataclass [strAtom "x"] none

/-! ### 1. The pickle never contains the cached hash -/

/-- **pickle_drops_cache.**  Two object graphs with the same fields have the same pickle, whatever
`_hash_value` slots are set, anywhere in the graph, to whatever values: the pickle is a function of
the fields alone (the generated `__getstate__` returns the field tuple only, at every level). -/
theorem pickle_drops_cache (a b : Obj) (h : a.erase = b.erase) : a.pickle = b.pickle := by
  rw [← pickle_erase a, ← pickle_erase b, h]

/-- in particular: hashing (in any process) before pickling changes nothing in the pickle -/
theorem pickle_after_hash (P : HashParams) (o : Obj) (ho : o.coherent P) :
    (o.hashC P).2.pickle = o.pickle :=
  pickle_drops_cache _ _ (hashC_spec P o ho).2.2

/-- what is excluded: with default pickling (state = `__dict__`) the slot travels -/
example : (varX.hashC (exP 0)).2.pickleNaive.unpickleNaive.bits = [true] := by decide
example : (varX.hashC (exP 0)).2.pickle.unpickle.bits = [false] := by decide

/-- **unpickle_fresh.**  Whatever the bytes, an unpickled object has no slot set, at any depth
(the generated `__setstate__` sets the fields only). -/
theorem unpickle_fresh (p : Pk) : p.unpickle.noCache = true := unpickle_noCache p

/-- the round trip returns the fields: a new object equal to the cache-free original -/
theorem unpickle_pickle (o : Obj) : o.pickle.unpickle = o.erase := Pickle.unpickle_pickle o

/-! ### 2. The consumer computes ITS hash -/

/-- **unpickle_hash_local.**  `o` is an object in ANY state (slots filled by any producer process,
coherent or not); `l` is the object built from the same source in the consumer process `P₂`,
possibly hashed there already.  Then `hash` of the unpickled object in the consumer is the
consumer's structural hash of the fields, which is what `hash(l)` returns. -/
theorem unpickle_hash_local (P₂ : HashParams) (o l : Obj) (hl : l.coherent P₂)
    (hsrc : l.erase = o.erase) :
    (o.pickle.unpickle.hashC P₂).1 = o.erase.hash P₂ ∧
      (o.pickle.unpickle.hashC P₂).1 = (l.hashC P₂).1 := by
  have hu := hashC_spec P₂ o.pickle.unpickle (noCache_coherent P₂ _ (unpickle_fresh _))
  rw [Pickle.unpickle_pickle] at hu ⊢
  refine ⟨hu.1, ?_⟩
  rw [hu.1, (hashC_spec P₂ l hl).1, hash_erase]
  exact (hash_congr P₂ hsrc).symm

/-- the same with the producer explicit: built from source and hashed under `P₁`, pickled,
unpickled and hashed under `P₂`: the result is `P₂`'s hash, for all `P₁ P₂` -/
theorem hashed_then_pickled (P₁ P₂ : HashParams) (src : Obj) (hs : src.noCache = true) :
    ((src.hashC P₁).2.pickle.unpickle.hashC P₂).1 = src.hash P₂ := by
  have h1 := hashC_spec P₁ src (noCache_coherent P₁ src hs)
  have := (unpickle_hash_local P₂ (src.hashC P₁).2 src (noCache_coherent P₂ src hs) h1.2.2.symm).1
  rw [this, hash_erase]
  exact hash_congr P₂ h1.2.2

/-- … and it is the hash of ANY locally built object that is `==` to the original (keyword
arguments in another order, `1` for `1.0`, …) -/
theorem unpickle_hash_local_eq {P₂ : HashParams} (hP : P₂.Ok) (o l : Obj) (hl : l.coherent P₂)
    (wo : o.wf = true) (wl : l.wf = true) (heq : l.pyEq o = true) :
    (o.pickle.unpickle.hashC P₂).1 = (l.hashC P₂).1 := by
  have hu := hashC_spec P₂ o.pickle.unpickle (noCache_coherent P₂ _ (unpickle_fresh _))
  rw [hu.1, (hashC_spec P₂ l hl).1, Pickle.unpickle_pickle, hash_erase]
  exact (Obj.eq_hash hP l o wl wo heq).symm

/-- the stale-hash failure the mechanism prevents really is expressible in the model: with naive
pickling the consumer (`exP 1`) would return the producer's (`exP 0`) hash -/
example :
    ((varX.hashC (exP 0)).2.pickleNaive.unpickleNaive.hashC (exP 1)).1 ≠ varX.hash (exP 1) := by
  decide
example : ((varX.hashC (exP 0)).2.pickle.unpickle.hashC (exP 1)).1 = varX.hash (exP 1) := by
  decide

/-! ### 3. The unpickled object is `==` to the locally built one and finds it -/

/-- **unpickle_eq.**  In the consumer the unpickled object and the one built from the same source
compare equal, in both directions, through the generated `__eq__` (hash comparison included). -/
theorem unpickle_eq {P₂ : HashParams} (hP : P₂.Ok) (o l : Obj) (hl : l.coherent P₂)
    (wo : o.wf = true) (hsrc : l.erase = o.erase) :
    (eqC P₂ o.pickle.unpickle l).1 = true ∧ (eqC P₂ l o.pickle.unpickle).1 = true := by
  have hu := noCache_coherent P₂ _ (unpickle_fresh o.pickle)
  have wu : o.pickle.unpickle.wf = true := by rw [Pickle.unpickle_pickle, wf_erase]; exact wo
  have wl : l.wf = true := by rw [wf_congr hsrc]; exact wo
  have e1 := (eqC_spec hP _ l hu hl wu wl).ans
  have e2 := (eqC_spec hP l _ hl hu wl wu).ans
  rw [Pickle.unpickle_pickle] at e1 e2
  rw [Pickle.unpickle_pickle, e1, e2]
  exact ⟨by rw [pyEq_congr (erase_erase o) hsrc]; exact Obj.pyEq_refl o wo,
    by rw [pyEq_congr hsrc (erase_erase o)]; exact Obj.pyEq_refl o wo⟩

/-- a locally built object that is `==` to the original (not necessarily from the same source:
keyword arguments in another order, `1.0` for `1`, …) is `==` to the unpickled one, both ways -/
theorem unpickle_eq_of_pyEq {P₂ : HashParams} (hP : P₂.Ok) (o l : Obj) (hl : l.coherent P₂)
    (wo : o.wf = true) (wl : l.wf = true) (heq : l.pyEq o = true) :
    (eqC P₂ l o.pickle.unpickle).1 = true ∧ (eqC P₂ o.pickle.unpickle l).1 = true := by
  have hu := noCache_coherent P₂ _ (unpickle_fresh o.pickle)
  have wu : o.pickle.unpickle.wf = true := by rw [Pickle.unpickle_pickle, wf_erase]; exact wo
  rw [(eqC_spec hP l _ hl hu wl wu).ans, (eqC_spec hP _ l hu hl wu wl).ans,
    Pickle.unpickle_pickle, pyEq_erase_right, pyEq_erase_left]
  exact ⟨heq, Obj.pyEq_symm l o wl wo heq⟩

/-- … and each finds the other in sets and dicts -/
theorem unpickle_member_of_pyEq {P₂ : HashParams} (hP : P₂.Ok) (o l : Obj) (hl : l.coherent P₂)
    (wo : o.wf = true) (wl : l.wf = true) (heq : l.pyEq o = true) :
    (memberC P₂ o.pickle.unpickle l).1 = true ∧ (memberC P₂ l o.pickle.unpickle).1 = true := by
  have hu := noCache_coherent P₂ _ (unpickle_fresh o.pickle)
  have wu : o.pickle.unpickle.wf = true := by rw [Pickle.unpickle_pickle, wf_erase]; exact wo
  rw [(memberC_spec hP _ l hu hl wu wl).ans, (memberC_spec hP l _ hl hu wl wu).ans,
    Pickle.unpickle_pickle, pyEq_erase_right, pyEq_erase_left]
  exact ⟨heq, Obj.pyEq_symm l o wl wo heq⟩

/-- **unpickle_member.**  `unpickled in {local}` / `{local: 1}` and `local in {unpickled}` /
`{unpickled: 1}` are both true in the consumer. -/
theorem unpickle_member {P₂ : HashParams} (hP : P₂.Ok) (o l : Obj) (hl : l.coherent P₂)
    (wo : o.wf = true) (hsrc : l.erase = o.erase) :
    (memberC P₂ o.pickle.unpickle l).1 = true ∧ (memberC P₂ l o.pickle.unpickle).1 = true := by
  have hu := noCache_coherent P₂ _ (unpickle_fresh o.pickle)
  have wu : o.pickle.unpickle.wf = true := by rw [Pickle.unpickle_pickle, wf_erase]; exact wo
  have wl : l.wf = true := by rw [wf_congr hsrc]; exact wo
  have e1 := (memberC_spec hP _ l hu hl wu wl).ans
  have e2 := (memberC_spec hP l _ hl hu wl wu).ans
  rw [Pickle.unpickle_pickle] at e1 e2
  rw [Pickle.unpickle_pickle, e1, e2]
  exact ⟨by rw [pyEq_congr hsrc (erase_erase o)]; exact Obj.pyEq_refl o wo,
    by rw [pyEq_congr (erase_erase o) hsrc]; exact Obj.pyEq_refl o wo⟩

/-- non-vacuity: a user node type `Norm(Variable("x"), 2)` hashed under seed 0, pickled, looked up
under seed 1 -/
example :
    let o : Obj := .inst "Norm" .dataclass [varX, .atom (.int 2)] none
    (memberC (exP 1) ((o.hashC (exP 0)).2.pickle.unpickle) o).1 = true := by decide

/-- **expr_unpickle_found.**  Stock node classes: `a` is any well-formed expression, `o` its object
in the producer in ANY slot state; `b` is an expression built in the consumer with `b == a`
(Python `==`, C01).  Then the unpickled object hashes, in the consumer, to `hash(b)`,
`b == unpickled` holds, and each is found in a set / dict holding the other. -/
theorem expr_unpickle_found {P₂ : HashParams} (hP : P₂.Ok) (a b : Expr) (ha : a.wf = true)
    (hb : b.wf = true) (heq : b.pyEq a = true) (o : Obj) (ho : o.erase = ofExpr a) :
    (o.pickle.unpickle.hashC P₂).1 = ((ofExpr b).hashC P₂).1 ∧
      (eqC P₂ (ofExpr b) o.pickle.unpickle).1 = true ∧
      (memberC P₂ o.pickle.unpickle (ofExpr b)).1 = true ∧
      (memberC P₂ (ofExpr b) o.pickle.unpickle).1 = true := by
  have wo : o.wf = true := by
    rw [← wf_erase, ho]; exact ofExpr_wf a ha
  have wl := ofExpr_wf b hb
  have hl := noCache_coherent P₂ _ (ofExpr_noCache b)
  have hq : (ofExpr b).pyEq o = true := by
    rw [← pyEq_erase_right, ho]; exact ofExpr_pyEq b a heq
  exact ⟨unpickle_hash_local_eq hP o _ hl wo wl hq, (unpickle_eq_of_pyEq hP o _ hl wo wl hq).1,
    unpickle_member_of_pyEq hP o _ hl wo wl hq⟩

/-! ### 4. All operation orders: histories in a producer and a consumer process -/

/-- **history_refines.**  From any coherent state of a process, any sequence of `hash`, `==`,
`in`, `pickle`, `unpickle` operations (a) keeps every slot coherent with this process, and (b)
answers exactly as the slot-free, process-free reference semantics does. -/
theorem history_refines {P : HashParams} (hP : P.Ok) (w : World) (hc : w.coherent P) (hw : w.wf)
    (ops : List Op) :
    (run P w ops).1.coherent P ∧ (run P w ops).2.map Out.core = (runRef w.erased ops).2 := by
  obtain ⟨h1, _, _, h4⟩ := run_sim hP ops w hc hw
  exact ⟨h1, h4⟩

/-- **cross_process_independent.**  Producer with hash parameters `P₁`, consumer with `P₂`, the
same pool built from source in both, arbitrary operation sequences `ops₁` / `ops₂` (the consumer
reads the producer's pickles): every answer — in both processes — is the answer of the reference
run, which mentions neither `P₁` nor `P₂`. -/
theorem cross_process_independent {P₁ P₂ : HashParams} (h₁ : P₁.Ok) (h₂ : P₂.Ok) (src : List Obj)
    (hsrc : ∀ o ∈ src, o.wf = true) (ops₁ ops₂ : List Op) :
    (crossRun P₁ P₂ src ops₁ ops₂).1.map Out.core = (crossRef src ops₁ ops₂).1 ∧
      (crossRun P₁ P₂ src ops₁ ops₂).2.map Out.core = (crossRef src ops₁ ops₂).2 := by
  have coh : ∀ (P : HashParams) (bl : List Pk), World.coherent P ⟨Obj.eraseL src, bl⟩ := by
    intro P bl o ho
    obtain ⟨s, _, rfl⟩ := eraseL_mem ho
    exact noCache_coherent P _ (erase_noCache s)
  have wfp : ∀ o ∈ Obj.eraseL src, o.wf = true := by
    intro o ho
    obtain ⟨s, hs, rfl⟩ := eraseL_mem ho
    rw [wf_erase]; exact hsrc s hs
  have er : ∀ bl : List Pk, World.erased ⟨Obj.eraseL src, bl⟩ = ⟨Obj.eraseL src, bl⟩ := by
    intro bl
    simp only [World.erased, eraseL_eq_map, List.map_map]
    congr 1
    apply List.map_congr_left
    intro o _
    exact erase_erase o
  obtain ⟨_, a2, a3, a4⟩ := run_sim h₁ ops₁ ⟨Obj.eraseL src, []⟩ (coh P₁ [])
    ⟨wfp, by simp⟩
  rw [er] at a3 a4
  have hb : (run P₁ ⟨Obj.eraseL src, []⟩ ops₁).1.blobs =
      (runRef ⟨Obj.eraseL src, []⟩ ops₁).1.blobs := by
    have := congrArg World.blobs a3
    simpa [World.erased] using this
  obtain ⟨_, _, _, b4⟩ := run_sim h₂ ops₂
    ⟨Obj.eraseL src, (run P₁ ⟨Obj.eraseL src, []⟩ ops₁).1.blobs⟩ (coh P₂ _) ⟨wfp, a2.2⟩
  rw [er] at b4
  refine ⟨a4, ?_⟩
  show List.map Out.core (run P₂ ⟨Obj.eraseL src, (run P₁ ⟨Obj.eraseL src, []⟩ ops₁).1.blobs⟩ ops₂).2
    = (runRef ⟨Obj.eraseL src, (runRef ⟨Obj.eraseL src, []⟩ ops₁).1.blobs⟩ ops₂).2
  rw [← hb]
  exact b4

/-- the answers do not depend on the hash seeds of the two processes -/
theorem cross_process_seed_free {P₁ P₂ Q₁ Q₂ : HashParams} (h₁ : P₁.Ok) (h₂ : P₂.Ok) (k₁ : Q₁.Ok)
    (k₂ : Q₂.Ok) (src : List Obj) (hsrc : ∀ o ∈ src, o.wf = true) (ops₁ ops₂ : List Op) :
    (crossRun P₁ P₂ src ops₁ ops₂).2.map Out.core = (crossRun Q₁ Q₂ src ops₁ ops₂).2.map Out.core := by
  rw [(cross_process_independent h₁ h₂ src hsrc ops₁ ops₂).2,
    (cross_process_independent k₁ k₂ src hsrc ops₁ ops₂).2]

/-- **cross_hash_fresh.**  In every cross-process history every `hash` call of the consumer (and
of the producer) returns that process's hash of a freshly built object with the same fields —
for all `P₁`, `P₂` and all orders of operations. -/
theorem cross_hash_fresh {P₁ P₂ : HashParams} (h₁ : P₁.Ok) (h₂ : P₂.Ok) (src : List Obj)
    (hsrc : ∀ o ∈ src, o.wf = true) (ops₁ ops₂ : List Op) :
    (∀ o ∈ (crossRun P₁ P₂ src ops₁ ops₂).1, Out.hashFresh o = true) ∧
      (∀ o ∈ (crossRun P₁ P₂ src ops₁ ops₂).2, Out.hashFresh o = true) := by
  obtain ⟨e1, e2⟩ := cross_process_independent h₁ h₂ src hsrc ops₁ ops₂
  constructor
  · intro o ho
    rw [← core_fresh]
    apply runRef_fresh ops₁ ⟨Obj.eraseL src, []⟩
    have : o.core ∈ (crossRun P₁ P₂ src ops₁ ops₂).1.map Out.core := List.mem_map_of_mem ho
    rw [e1] at this
    exact this
  · intro o ho
    rw [← core_fresh]
    apply runRef_fresh ops₂ ⟨Obj.eraseL src, (runRef ⟨Obj.eraseL src, []⟩ ops₁).1.blobs⟩
    have : o.core ∈ (crossRun P₁ P₂ src ops₁ ops₂).2.map Out.core := List.mem_map_of_mem ho
    rw [e2] at this
    exact this

/-- the processes the compiled driver executes in the correspondence runs (`toyParams seed`) are
instances of the theorems above, for every pair of seeds -/
theorem driver_instance (s₁ s₂ : Nat) (src : List Obj) (hsrc : ∀ o ∈ src, o.wf = true)
    (ops₁ ops₂ : List Op) :
    (crossRun (toyParams s₁) (toyParams s₂) src ops₁ ops₂).1.map Out.core = (crossRef src ops₁ ops₂).1 ∧
      (crossRun (toyParams s₁) (toyParams s₂) src ops₁ ops₂).2.map Out.core
        = (crossRef src ops₁ ops₂).2 :=
  cross_process_independent (toyParams_ok s₁) (toyParams_ok s₂) src hsrc ops₁ ops₂

/-- a decidable view of an output: (kind, answer, slots, slots) -/
def Out.view : Out → Nat × Bool × List Bool × List Bool
  | .hash f b => (0, f, b, [])
  | .eq r a b => (1, r, a, b)
  | .member r a b => (2, r, a, b)
  | .pickled => (3, true, [], [])
  | .unpickled o => (4, o.noCache, o.bits, [])
  | .bad => (5, false, [], [])

/-- non-vacuity: hash, pickle (producer, seed 0); unpickle, look up, hash (consumer, seed 1) -/
example :
    ((crossRun (exP 0) (exP 1) [varX] [.hash 0, .pickle 0 2]
        [.unpickle 0, .member 1 0, .hash 1]).2).map Out.view
      = [(4, true, [false], []), (2, true, [true], [true]), (0, true, [true], [])] := by decide

/-! ### 5. Compiled expressions -/

/-- **compiled_roundtrip.**  A compiled expression pickles `(expression, variables)` and
re-compiles: after the round trip into process `P₂` it holds the same expression and variables
(so the same code, a function of the two), and every slot the re-compilation set is `P₂`'s. -/
theorem compiled_roundtrip (P₂ : HashParams) (c : Compiled) :
    (Compiled.unpickle P₂ c.pickle).expr.erase = c.expr.erase ∧
      (Compiled.unpickle P₂ c.pickle).vars = c.vars ∧
      (Compiled.unpickle P₂ c.pickle).expr.coherent P₂ := by
  have h := hashVars_spec P₂ c.expr.pickle.unpickle (noCache_coherent P₂ _ (unpickle_fresh _))
  refine ⟨?_, rfl, h.1⟩
  show (c.expr.pickle.unpickle.hashVars P₂).erase = c.expr.erase
  rw [h.2, Pickle.unpickle_pickle, erase_erase]

/-! ### 6. The persistent-hash digest -/

/-- **digest_structural_partial.**  Trees that are `==`, whose constants at corresponding
positions have the same Python type (and, for floats, the same `repr`: the digest hashes `repr`, so
`1`, `1.0`, `True` — or `0.0`, `-0.0` — are `==` but digest differently; "equal" in the property's
sense is "same structure"), and whose keyword arguments — if there are any — were inserted in the
same order (`sameShape`), feed the same byte strings to the key hash.

    Full-strength target (keyword mappings compared as mappings), NOT provable today:
      theorem digest_structural (a b) : a.wf → b.wf → a.pyEq b → sameShapeModuloKwOrder a b →
        digest a = digest b
    see `digest_kwargs_order_cex`. -/
theorem digest_structural_partial (a b : Expr) (ha : a.wf = true) (hb : b.wf = true)
    (heq : a.pyEq b = true) (hs : sameShape a b = true) : digest a = digest b :=
  digest_ok a b ha hb heq hs

/-- the hypothesis is satisfiable and the conclusion non-trivial -/
example :
    let a := Expr.callKw (.var "f") [.const (.int 1)] ["k", "j"] [.var "x", .const (.flt "0.5" 1 2)]
    sameShape a a = true ∧ a.pyEq a = true ∧
      (digest a).toOption = some ["CallWithKwargs", "f", "1", "x", "0.5"] := by decide

/-- **digest_kwargs_order_cex** (known finding `persistent-hash-kwargs-order`).
`f(b, k=c, j=x)` and `f(b, j=x, k=c)` are `==` but their digest streams differ: keyword values are
walked in insertion order and keyword names are not hashed at all. -/
theorem digest_kwargs_order_cex :
    let a := Expr.callKw (.var "f") [.var "b"] ["k", "j"] [.var "c", .var "x"]
    let b := Expr.callKw (.var "f") [.var "b"] ["j", "k"] [.var "x", .var "c"]
    a.wf = true ∧ b.wf = true ∧ a.pyEq b = true ∧ digest a ≠ digest b := by
  refine ⟨by decide, by decide, by decide, fun h => ?_⟩
  have := congrArg Except.toOption h
  revert this
  decide

/-- expected, not a finding: numerically equal constants of different type digest differently -/
example : (Expr.const (.int 1)).pyEq (.const (.bool true)) = true ∧
    (digest (.const (.int 1))).toOption ≠ (digest (.const (.bool true))).toOption := by decide

/-- **digest_process_independent.**  The digest computed in a process with hash parameters `P₁`,
optimised or not, is the digest computed in any other: the digest model has no hash parameter, no
object identity and no set iteration. -/
theorem digest_process_independent (P₁ P₂ : HashParams) (o₁ o₂ : Bool) (e : Expr) :
    digestIn P₁ o₁ e = digestIn P₂ o₂ e := rfl

/-- with the previous theorem: structurally equal trees get the same digest in any two processes -/
theorem digest_cross_process (P₁ P₂ : HashParams) (o₁ o₂ : Bool) (a b : Expr) (ha : a.wf = true)
    (hb : b.wf = true) (heq : a.pyEq b = true) (hs : sameShape a b = true) :
    digestIn P₁ o₁ a = digestIn P₂ o₂ b :=
  digest_structural_partial a b ha hb heq hs

/-! ### 7. The digest model IS the current source (T-gen)

`lean/PV/Generated/PersistentHash.lean` is rewritten on every run by extract/persistent_hash.py
from the class body of `PersistentHashWalkMapper` (what `visit` feeds and returns, every `map_*`
override: which pieces go to `self.key_hash.update`, by `repr` or by value, in which order, between
which recursive calls) and `lean/PV/Generated/Traversal.lean` by extract/traversal.py from
`WalkMapper`.  `c17DigestT` (PV/Model/PersistentHashTable.lean) interprets the two tables. -/

open PV.Generated in
/-- **Handler shapes of the current source.**  For every node the function that runs — an override
of `PersistentHashWalkMapper` if the class body has one for the handler the node is dispatched to
(class MRO against the `map_*` names, `Mapper` stubs followed), otherwise the inherited `WalkMapper`
handler — is the one `digest` was written from: `map_constant` feeds `repr(expr)` (after the numpy
normalisation) and does not call `visit`; `map_variable` feeds `expr.name` by value and does not
call `visit`; `map_comparison` feeds `repr(expr.operator)` between its operands under
`if self.visit(expr):`; everything else is `WalkMapper`'s row. -/
theorem digest_resolve_current (e : Expr) :
    c17Resolve c04Classes c04WalkTable c17HashTable e = c17HandBody e := by
  cases e with
  | const k => cases k <;> rfl
  | nary o cs => cases o <;> rfl
  | bin o a b => cases o <;> rfl
  | un o a => cases o <;> rfl
  | _ => rfl

open PV.Generated in
/-- `visit` feeds `type(expr).__name__` and returns `True`; `post_visit` feeds nothing -/
theorem hash_table_std_current : c17HashTable.Std := ⟨rfl, rfl, rfl⟩

open PV.Generated in
/-- the rest of the class body: `__init__` stores the hash object as `self.key_hash`; the only
base is `WalkMapper`; `map_constant` normalises numpy scalars before `repr`; every override
replaces a handler `WalkMapper` has; `Expression.update_persistent_hash` is not defined (pytools'
`KeyBuilder` keys expression dataclasses itself — this mapper runs only where it is called) -/
theorem hash_table_rows_current :
    c17HashTable.storesKeyHash = true ∧ c17HashTable.base = "WalkMapper" ∧
      c17HashTable.exprUpdate = .absent ∧
      (c17FindOverride c17HashTable "map_constant").map (·.numpyItem) = some true ∧
      c17HashTable.overrides.all (fun h => (c04WalkTable.map (·.name)).contains h.name) = true := by
  decide

open PV.Generated in
/-- **`digest` is one table-driven handler call per node of the current source**, recursing
through `digest`. -/
theorem digest_table_step_current (e : Expr) :
    digest e = c17DigestStep c04Classes c04WalkTable c17HashTable digest e := by
  rw [c17DigestStep, digest_resolve_current]
  exact digest_eq_stepB hash_table_std_current e

open PV.Generated in
/-- … and the only such function -/
theorem digest_unique_current (f : Expr → Except DepErr (List String))
    (hf : ∀ e, f e = c17DigestStep c04Classes c04WalkTable c17HashTable f e) :
    ∀ e, f e = digest e :=
  c17Digest_unique c17HashTable (fun e => c17Resolve c04Classes c04WalkTable c17HashTable e) f
    digest hf digest_table_step_current

open PV.Generated in
/-- **digest_eq_table_current.**  For ALL expressions the hand-written `digest` is the
table-driven digest `c17DigestT` of the tables regenerated from the source on this run: the byte
strings prescribed by the regenerated rows of `PersistentHashWalkMapper`, in the traversal order of
the regenerated rows of `WalkMapper`.  Every theorem about `digest` in this file is therefore a
theorem about what the current source says. -/
theorem digest_eq_table_current (e : Expr) :
    digest e = c17DigestT c04Classes c04WalkTable c17HashTable e :=
  (c17DigestFuel_eq c04Classes c04WalkTable c17HashTable digest digest_table_step_current
    e.size e (Nat.le_refl _)).symm

open PV.Generated in
/-- non-vacuity: the table interpreter run on the regenerated tables -/
example :
    (c17DigestT c04Classes c04WalkTable c17HashTable
      (.cmp .lt (.var "x") (.bin .lshift (.const (.int 1)) (.var "n")))).toOption
      = some ["Comparison", "x", "'<'", "LeftShift", "n", "1"] := by decide

open PV.Generated in
/-- `digest_structural_partial` about the table-driven digest of the current source -/
theorem digest_structural_table_partial (a b : Expr) (ha : a.wf = true) (hb : b.wf = true)
    (heq : a.pyEq b = true) (hs : sameShape a b = true) :
    c17DigestT c04Classes c04WalkTable c17HashTable a =
      c17DigestT c04Classes c04WalkTable c17HashTable b := by
  rw [← digest_eq_table_current, ← digest_eq_table_current]
  exact digest_structural_partial a b ha hb heq hs

/-- a class body that no longer feeds the variable name -/
def noNameTable : C17Table :=
  { PV.Generated.c17HashTable with
    overrides := [c17CmpRow, c17ConstRow, ⟨"map_variable", false, false, []⟩] }

/-- a class body that feeds `repr(expr.name)` instead of the name -/
def reprNameTable : C17Table :=
  { PV.Generated.c17HashTable with
    overrides := [c17CmpRow, c17ConstRow,
      ⟨"map_variable", false, false, [.feed (.reprField "name")]⟩] }

/-- a class body whose `map_comparison` no longer feeds the operator -/
def noOperatorTable : C17Table :=
  { PV.Generated.c17HashTable with
    overrides := [⟨"map_comparison", true, false,
        [.recur ⟨"left", .one, false⟩, .recur ⟨"right", .one, false⟩]⟩, c17ConstRow, c17VarRow] }

open PV.Generated in
/-- **table_edit_cex.**  The table is load-bearing: for class bodies that differ from the current
one in a single fed piece the table-driven digest differs from `digest` (so
`digest_eq_table_current` cannot survive such an edit of the source). -/
theorem table_edit_cex :
    (c17DigestT c04Classes c04WalkTable noNameTable (.var "x")).toOption = some [] ∧
    (c17DigestT c04Classes c04WalkTable reprNameTable (.var "x")).toOption = some ["'x'"] ∧
    (c17DigestT c04Classes c04WalkTable noOperatorTable (.cmp .lt (.var "x") (.var "y"))).toOption
      = some ["Comparison", "x", "y"] ∧
    (digest (.var "x")).toOption = some ["x"] ∧
    (digest (.cmp .lt (.var "x") (.var "y"))).toOption = some ["Comparison", "x", "'<'", "y"] := by
  decide

/-! ### 8. What the feed determines: injectivity up to the known deviations

The feed is a preorder listing without arity marks, the leaves carry no class name, several fields
are never fed, and the hash object concatenates the pieces.  `digest_injective_partial` states
exactly under which assumptions two trees with the same feed are the same tree; the `…_cex`
theorems show that none of the assumptions can be dropped — each is a pair of DIFFERENT (`!=`)
expressions that get the same persistent key from the real code (known findings
`persistent-hash-collision:*`). -/

/-- **digest_injective_partial.**  `ar` is a rank discipline (class name ↦ number of children).
`a` and `b` are SEPARABLE for it (`c17Sep`): every variadic node (`Sum`, `Product`, …, `Call`,
`CallWithKwargs` positional / keyword values, `Substitution` values, non-`None` `Slice` parts,
tuples, lists) has the number of children `ar` prescribes for its class, every variable name reads
as a name (not as a class name, a number, `True`/`False`, `inf`/`nan`) and every float `repr` as a
float.  If `PersistentHashWalkMapper` feeds the same sequence of byte strings for both, then `a`
and `b` are the same tree up to the fields that are never fed (`c17Erase`: look-up names, CSE
prefix and scope, substitution and derivative variable names, keyword names, wildcard names,
`None` slice parts, the value behind a float `repr`): same classes, same operators, same variable
names, same comparison operators, same constant types and reprs, same keyword-value order.

    Full-strength target, NOT true of the code:
      theorem digest_injective (a b) : digest a = digest b → a = b
    see `digest_arity_collision_cex`, `digest_leaf_token_collision_cex`,
    `digest_unfed_field_collision_cex`, `digest_concat_collision_cex`. -/
theorem digest_injective_partial (ar : String → Nat) (a b : Expr) (l : List String)
    (sa : c17Sep ar a = true) (sb : c17Sep ar b = true) (da : digest a = .ok l)
    (db : digest b = .ok l) : c17Erase a = c17Erase b :=
  c17_digest_inj ar a b l sa sb da db

/-- the decidable form: `c17CommonSep a b` computes a rank discipline from the two trees -/
theorem digest_injective_common_partial (a b : Expr) (l : List String)
    (hs : c17CommonSep a b = true) (da : digest a = .ok l) (db : digest b = .ok l) :
    c17Erase a = c17Erase b := by
  simp only [c17CommonSep, Bool.and_eq_true] at hs
  exact c17_digest_inj _ a b l hs.1 hs.2 da db

/-- non-vacuity: binary sums / products over names, ints, floats, comparisons, calls of rank 2 -/
example :
    let a := Expr.cmp .le (.nary .sum [.var "x", .const (.flt "0.5" 1 2)])
      (.call (.var "f") [.const (.int (-3)), .lookup (.var "s") "fld"])
    c17CommonSep a a = true ∧
      (digest a).toOption = some ["Comparison", "Sum", "x", "0.5", "'<='", "Call", "f", "-3",
        "Lookup", "s"] := by decide

/-- **digest_erase_invariant.**  Conversely — unconditionally — the feed does not see what
`c17Erase` removes: trees with the same erasure have the same digest. -/
theorem digest_erase_invariant (a b : Expr) (h : c17Erase a = c17Erase b) : digest a = digest b :=
  digest_of_c17Erase_eq h

/-- **digest_separates_iff_partial.**  On separable trees the digest separates exactly what
`c17Erase` keeps. -/
theorem digest_separates_iff_partial (ar : String → Nat) (a b : Expr) (l : List String)
    (sa : c17Sep ar a = true) (sb : c17Sep ar b = true) (da : digest a = .ok l) :
    digest b = .ok l ↔ c17Erase a = c17Erase b :=
  ⟨fun db => c17_digest_inj ar a b l sa sb da db,
   fun h => by rw [← digest_of_c17Erase_eq h]; exact da⟩

open PV.Generated in
/-- `digest_injective_partial` about the table-driven digest of the current source -/
theorem digest_injective_table_partial (ar : String → Nat) (a b : Expr) (l : List String)
    (sa : c17Sep ar a = true) (sb : c17Sep ar b = true)
    (da : c17DigestT c04Classes c04WalkTable c17HashTable a = .ok l)
    (db : c17DigestT c04Classes c04WalkTable c17HashTable b = .ok l) :
    c17Erase a = c17Erase b := by
  rw [← digest_eq_table_current] at da db
  exact c17_digest_inj ar a b l sa sb da db

/-- structurally equal trees (`sameShape`, `==`) are the same tree after erasure, on the separable
class: what `digest_structural_partial` identifies is within what `c17Erase` identifies -/
theorem structural_erase_partial (ar : String → Nat) (a b : Expr) (l : List String)
    (ha : a.wf = true) (hb : b.wf = true) (heq : a.pyEq b = true) (hs : sameShape a b = true)
    (sa : c17Sep ar a = true) (sb : c17Sep ar b = true) (da : digest a = .ok l) :
    c17Erase a = c17Erase b :=
  c17_digest_inj ar a b l sa sb da (by rw [← digest_structural_partial a b ha hb heq hs]; exact da)

/-- **digest_flat_injective_partial.**  What the hash object sees is the CONCATENATION of the
pieces.  If every piece went through a self-delimiting encoding `enc` (`C17PrefixFree`: an encoded
piece followed by anything decodes in one way), equal byte streams would mean equal trees on the
separable class. -/
theorem digest_flat_injective_partial (enc : String → List Char) (hp : C17PrefixFree enc)
    (ar : String → Nat) (a b : Expr) (la lb : List String)
    (sa : c17Sep ar a = true) (sb : c17Sep ar b = true) (da : digest a = .ok la)
    (db : digest b = .ok lb) (h : c17Flat enc la = c17Flat enc lb) :
    c17Erase a = c17Erase b := by
  have := c17_flat_inj hp la lb h
  subst this
  exact c17_digest_inj ar a b la sa sb da db

/-- a self-delimiting encoding: every character behind a `1`, then a `0` -/
def markEnc (s : String) : List Char := s.toList.flatMap (fun c => ['1', c]) ++ ['0']

theorem markEnc_aux : ∀ (x y u v : List Char),
    x.flatMap (fun c => ['1', c]) ++ '0' :: u = y.flatMap (fun c => ['1', c]) ++ '0' :: v →
    x = y ∧ u = v
  | [], [], u, v, h => by simpa using h
  | [], d :: y, u, v, h => by simp at h
  | c :: x, [], u, v, h => by simp at h
  | c :: x, d :: y, u, v, h => by
    simp only [List.flatMap_cons, List.cons_append, List.nil_append, List.cons.injEq,
      true_and] at h
    obtain ⟨rfl, h⟩ := h
    obtain ⟨rfl, rfl⟩ := markEnc_aux x y u v h
    exact ⟨rfl, rfl⟩

/-- the assumption of `digest_flat_injective_partial` is satisfiable -/
theorem markEnc_prefixFree : C17PrefixFree markEnc := by
  intro s t u v h
  simp only [markEnc, List.append_assoc, List.cons_append, List.nil_append] at h
  obtain ⟨h1, h2⟩ := markEnc_aux _ _ _ _ h
  exact ⟨String.ext h1, h2⟩

/-- **digest_concat_collision_cex** (known finding `persistent-hash-collision:concatenation`).
The real pieces are fed as they are (`enc = String.toList`, not self-delimiting):
`Power(Variable("a"), Variable("bc"))` and `Power(Variable("ab"), Variable("c"))` — and
`Sum((1, 23))` and `Sum((12, 3))` — are separable under one rank discipline, are different trees
even after erasure, have different chunk sequences, and the hash object sees the same bytes. -/
theorem digest_concat_collision_cex :
    (let a := Expr.bin .pow (.var "a") (.var "bc")
     let b := Expr.bin .pow (.var "ab") (.var "c")
     c17CommonSep a b = true ∧ c17Erase a ≠ c17Erase b ∧
       (digest a).toOption = some ["Power", "a", "bc"] ∧
       (digest b).toOption = some ["Power", "ab", "c"] ∧
       c17Flat String.toList ["Power", "a", "bc"] = c17Flat String.toList ["Power", "ab", "c"]) ∧
    (let a := Expr.nary .sum [.const (.int 1), .const (.int 23)]
     let b := Expr.nary .sum [.const (.int 12), .const (.int 3)]
     c17CommonSep a b = true ∧ c17Erase a ≠ c17Erase b ∧
       (digest a).toOption = some ["Sum", "1", "23"] ∧
       (digest b).toOption = some ["Sum", "12", "3"] ∧
       c17Flat String.toList ["Sum", "1", "23"] = c17Flat String.toList ["Sum", "12", "3"]) := by
  decide

/-- **digest_arity_collision_cex** (known finding `persistent-hash-collision:arity`).
`f(a + b, c)` and `f(a + b + c)`: all names read as names, the chunk sequences are EQUAL, the
trees differ — and no rank discipline fits both (`Call` with two arguments and with one). -/
theorem digest_arity_collision_cex :
    let a := Expr.call (.var "f") [.nary .sum [.var "a", .var "b"], .var "c"]
    let b := Expr.call (.var "f") [.nary .sum [.var "a", .var "b", .var "c"]]
    (digest a).toOption = some ["Call", "f", "Sum", "a", "b", "c"] ∧
      (digest b).toOption = some ["Call", "f", "Sum", "a", "b", "c"] ∧
      c17Erase a ≠ c17Erase b ∧ a.pyEq b = false ∧
      ∀ ar, ¬ (c17Sep ar a = true ∧ c17Sep ar b = true) := by
  refine ⟨by decide, by decide, by decide, by decide, ?_⟩
  rintro ar ⟨h1, h2⟩
  simp only [c17Sep, c17SepL, Bool.and_eq_true, beq_iff_eq, List.length_cons, List.length_nil]
    at h1 h2
  omega

/-- **digest_leaf_token_collision_cex** (known finding `persistent-hash-collision:leaf-token`).
Leaves carry no class name: `Sum((Variable("1"), x))` and `Sum((1, x))`, `Variable("NaN")` and
`NaN()`, `Variable("Sum")` and `Sum(())` have equal chunk sequences and fit one rank discipline;
the variable names do not read as names. -/
theorem digest_leaf_token_collision_cex :
    (let a := Expr.nary .sum [.var "1", .var "x"]
     let b := Expr.nary .sum [.const (.int 1), .var "x"]
     (digest a).toOption = (digest b).toOption ∧ (digest a).toOption = some ["Sum", "1", "x"] ∧
       c17Erase a ≠ c17Erase b ∧ a.pyEq b = false ∧ c17TokClass "1" ≠ (0, 0)) ∧
    ((digest (.var "NaN")).toOption = (digest .nan).toOption ∧ c17TokClass "NaN" ≠ (0, 0)) ∧
    ((digest (.var "Sum")).toOption = (digest (.nary .sum [])).toOption ∧
       c17TokClass "Sum" ≠ (0, 0)) := by
  decide

/-- **digest_unfed_field_collision_cex** (known finding `persistent-hash-collision:unfed-field`).
Fields that are never fed: `x.a` and `x.b`, `Derivative(x, ("a",))` and `Derivative(x, ("b",))`,
`f(k=x)` and `f(j=x)`, `Slice((x, None))` and `Slice((None, x))` are different (`!=`) expressions
with the same erasure, hence the same digest. -/
theorem digest_unfed_field_collision_cex :
    (let a := Expr.lookup (.var "x") "a"
     let b := Expr.lookup (.var "x") "b"
     a.pyEq b = false ∧ c17Erase a = c17Erase b ∧ (digest a).toOption = (digest b).toOption) ∧
    (let a := Expr.deriv (.var "x") ["a"]
     let b := Expr.deriv (.var "x") ["b"]
     a.pyEq b = false ∧ c17Erase a = c17Erase b) ∧
    (let a := Expr.callKw (.var "f") [] ["k"] [.var "x"]
     let b := Expr.callKw (.var "f") [] ["j"] [.var "x"]
     a.pyEq b = false ∧ c17Erase a = c17Erase b) ∧
    (let a := Expr.slice [.var "x", .const .none]
     let b := Expr.slice [.const .none, .var "x"]
     a.pyEq b = false ∧ c17Erase a = c17Erase b) := by
  decide

end PV.C17
