import PV.Properties.C02
import PV.Proofs.EvalTable
import PV.Generated.Evaluator
/-
  C02 — T-gen tie of the evaluator model to the source.

  `PV.Generated.c02EvalTable` is rewritten on every run by `extract/evaluator.py` from the source
  text of the working tree: for every node class the handler the dispatch reaches, and for every
  handler its body in the handler language of PV/Model/EvalTable.lean (operator, attribute on each
  side, fold operator and start value, lazily evaluated branches, order of callee / arguments /
  keyword arguments, the CSE dictionary, the comparison table, the memo protocol of
  `CachedMapper.__call__`, …).

  `c02EvalT T` RUNS a table: it knows no handler, only the language.  The theorems below prove that
  the hand-written model `evalNode` / `evalG` / `runHist` (PV/Model/Eval.lean) — the one the driver
  executes and the theorems of PV/Properties/C02.lean are about — IS the interpreter applied to the
  regenerated table, for all expressions, environments, evaluator states and both mapper classes.
  Hence the C02 theorems restated at the end speak about what the current source text says.  An
  edit of a handler that changes its table entry (operand order of `map_floor_div`, `or_` ↦ `xor`,
  both branches of `map_if` evaluated, a fold's start value, a dropped cache store, …) makes the
  corresponding case below fail to check.
-/
namespace PV.C02
open PV

/-- the table regenerated from the working tree -/
abbrev tableCurrent : C02EvalTable := Generated.c02EvalTable

/-- **The memo protocol read from `CachedMapper.__call__` / `get_cache_key` is the modelled one**:
the plain mapper's `rec` is `Mapper.__call__` (no memo); the cached mapper's is
`CachedMapper.__call__`: key `(type(expr), expr, …)` (hashing it raises on lists), looked up before
dispatch, result stored after the handler and after the fallback, nothing stored on exceptions. -/
theorem withMemo_eq_table_current (cached : Bool) (e : Expr) (k : EvM Value) :
    withMemo cached e k = c02WithMemo tableCurrent cached e k := by
  cases cached
  · rfl
  · funext s
    cases e <;> rfl

mutual
/-- **The hand-written handlers are the regenerated table, run.**  For every node (every
constructor, every operator), both mapper classes, every environment and — the two sides being
state transformers — every evaluator state: `evalNode` equals the table interpreter on the table of
the current tree.  Case analysis on the constructor; in each case the right-hand side is computed
from the table entry alone (dispatch: class ↦ handler; handler ↦ body; body run on the node's
attributes), so operator, operand order, start values, laziness and cache behaviour are all read
from the table. -/
theorem evalNode_eq_table_current (cached : Bool) (env : Env) :
    ∀ e, evalNode cached env e = c02EvalT tableCurrent cached env e
  | .const c => by simp only [evalNode, c02EvalT]; cases c <;> rfl
  | .var x => by simp only [evalNode, c02EvalT]; rfl
  | .nary o cs => by
      simp only [c02EvalT, ← runs_eq_table_current cached env cs]
      cases o <;>
        simp only [evalNode, evalFold_eq_runs, evalReduce_eq_runs, evalAny_eq_runs,
          evalAll_eq_runs, evalMinMax_eq_runs] <;> rfl
  | .bin o a b => by
      simp only [c02EvalT, ← withMemo_eq_table_current, ← evalNode_eq_table_current cached env a,
        ← evalNode_eq_table_current cached env b, evalNode]
      cases o <;> rfl
  | .un o a => by
      simp only [c02EvalT, ← withMemo_eq_table_current, ← evalNode_eq_table_current cached env a]
      cases o <;> simp only [evalNode] <;> rfl
  | .cmp o a b => by
      simp only [c02EvalT, ← withMemo_eq_table_current, ← evalNode_eq_table_current cached env a,
        ← evalNode_eq_table_current cached env b, evalNode]
      cases o <;> rfl
  | .ite c t e => by
      simp only [c02EvalT, ← withMemo_eq_table_current, ← evalNode_eq_table_current cached env c,
        ← evalNode_eq_table_current cached env t, ← evalNode_eq_table_current cached env e,
        evalNode]
      rfl
  | .call f as => by
      simp only [c02EvalT, ← withMemo_eq_table_current, ← evalNode_eq_table_current cached env f,
        ← runs_eq_table_current cached env as, evalNode, evalList_eq_runs]
      rfl
  | .callKw f as ns vs => by
      simp only [c02EvalT, ← withMemo_eq_table_current, ← evalNode_eq_table_current cached env f,
        ← runs_eq_table_current cached env as, ← runs_eq_table_current cached env vs, evalNode,
        evalList_eq_runs]
      rfl
  | .subscript a i => by
      simp only [c02EvalT, ← withMemo_eq_table_current, ← evalNode_eq_table_current cached env a,
        ← evalNode_eq_table_current cached env i, evalNode]
      rfl
  | .lookup a n => by
      simp only [c02EvalT, ← withMemo_eq_table_current, ← evalNode_eq_table_current cached env a,
        evalNode]
      rfl
  | .cse c p sc => by
      simp only [c02EvalT, ← withMemo_eq_table_current, ← evalNode_eq_table_current cached env c,
        evalNode]
      rfl
  | .subst c vars vals => by simp only [c02EvalT, evalNode]; rfl
  | .deriv c vars => by simp only [c02EvalT, evalNode]; rfl
  | .slice cs => by simp only [c02EvalT, evalNode]; rfl
  | .nan => by simp only [c02EvalT, evalNode]; rfl
  | .wildcard => by simp only [c02EvalT, evalNode]; rfl
  | .dotWild n => by simp only [c02EvalT, evalNode]; rfl
  | .starWild n => by simp only [c02EvalT, evalNode]; rfl
  | .funcSym => by simp only [c02EvalT, evalNode]; rfl
  | .tuple cs => by
      simp only [c02EvalT, ← runs_eq_table_current cached env cs, evalNode, evalList_eq_runs]
      rfl
  | .list cs => by
      simp only [c02EvalT, ← runs_eq_table_current cached env cs, evalNode, evalList_eq_runs]
      rfl
/-- the suspended recursive calls on the elements of a tuple-valued attribute agree -/
theorem runs_eq_table_current (cached : Bool) (env : Env) :
    ∀ cs, c02ModelRuns cached env cs = c02RunsT tableCurrent cached env cs
  | [] => by simp only [c02ModelRuns, c02RunsT]
  | c :: cs => by
      simp only [c02ModelRuns, c02RunsT, ← withMemo_eq_table_current,
        ← evalNode_eq_table_current cached env c, runs_eq_table_current cached env cs]
end

/-- calling the mapper instance (`__call__` is `rec`): model = table, run -/
theorem evalG_eq_table_current (cached : Bool) (env : Env) (e : Expr) :
    evalG cached env e = c02EvalGT tableCurrent cached env e := by
  simp only [evalG, c02EvalGT, ← withMemo_eq_table_current, ← evalNode_eq_table_current]

/-- any history of calls on one instance, from any state: model = table, run -/
theorem runHist_eq_table_current (cached : Bool) (env : Env) :
    ∀ (es : List Expr) (s : EvState),
      runHist cached env es s = c02RunHistT tableCurrent cached env es s
  | [], _ => by simp only [runHist, c02RunHistT]
  | e :: es, s => by
      simp only [runHist, c02RunHistT, ← evalG_eq_table_current]
      rw [runHist_eq_table_current cached env es]

/-! ### The C02 theorems, about the regenerated table -/

variable {env : Env} {U : Expr → Prop}

/-- **What the current source says is the standard meaning.**  The handler bodies read from the
working tree, run by the table interpreter — plain or memoizing mapper, from any evaluator state
whose caches hold denotations — return exactly `den env e` (value or error) and keep the caches
sound.  (`evalG_eq_den` transported along `evalG_eq_table_current`.) -/
theorem table_eq_den_current (hU : Universe U) (cached : Bool) (e : Expr) (he : U e) (s : EvState)
    (hs : EvInv env U s) :
    ∃ s', c02EvalGT tableCurrent cached env e s = (den env e, s') ∧ EvInv env U s' := by
  rw [← evalG_eq_table_current]
  exact evalG_eq_den hU cached e he s hs

/-- every call of any history on one instance of the evaluator described by the current source
returns the standard meaning -/
theorem table_history_eq_den_current (hU : Universe U) (cached : Bool) (es : List Expr)
    (s : EvState) (h : ∀ e ∈ es, U e) (hs : EvInv env U s) :
    c02RunHistT tableCurrent cached env es s = es.map (den env) := by
  rw [← runHist_eq_table_current]
  exact history_eq_den hU cached es s h hs

/-- the plain and the memoizing evaluator described by the current source agree on every history -/
theorem table_plain_eq_cached_current (hU : Universe U) (es : List Expr) (h : ∀ e ∈ es, U e) :
    c02RunHistT tableCurrent false env es {} = c02RunHistT tableCurrent true env es {} := by
  rw [← runHist_eq_table_current, ← runHist_eq_table_current]
  exact plain_eq_cached hU es h

/-- the `map_if` of the current source evaluates only the selected branch: with a true condition
the result is the meaning of `t`, whatever `e` is (e.g. erroring) -/
theorem table_if_lazy_current (hU : Universe U) (cached : Bool) (c t e : Expr)
    (h : U (.ite c t e)) (s : EvState) (hs : EvInv env U s) (cv : Value)
    (hc : den env c = .ok cv) (ht : cv.truthy = .ok true) :
    (c02EvalGT tableCurrent cached env (.ite c t e) s).1 = den env t := by
  obtain ⟨s', h1, _⟩ := table_eq_den_current hU cached (.ite c t e) h s hs
  rw [h1]
  exact if_lazy_then c t e cv hc ht

/-! ### numpy object arrays -/

/-- **The numpy-array handler of the current source is the recognised fill loop**: `map_foreign`
sends `numpy.ndarray` objects to `map_numpy_array`, whose body is `result = numpy.empty(expr.shape,
dtype=object); for i in numpy.ndindex(expr.shape): result[i] = self.rec(expr[i]); return result`
(read statement by statement by `extract/evaluator.py: read_array_handler`; any other body is
`.other src` and this obligation breaks). -/
theorem array_handler_current :
    tableCurrent.arrayBody = .ndindexFill "map_numpy_array"
      ∧ tableCurrent.foreign.lookup "numpy" = some "map_numpy_array" := by decide

/-- the handler applies: the table interpreter runs `c02ArrayRun` on arrays -/
theorem array_dispatch_current (cached : Bool) (a : C02Array Expr) :
    c02ArrayT tableCurrent cached env a = some (c02ArrayRun tableCurrent cached env a) := by
  simp only [c02ArrayT, array_handler_current.1]

/-- **Arrays mean their entries**: the plain evaluator of the current table, run on an object
array (any shape, entries in row-major order) from any state reachable in a history, returns the
array of the SAME shape whose entries are the standard meanings `den` of the entries — or the first
error in row-major order — and re-establishes the history invariant. -/
theorem array_eq_den_current (hU : Universe U) (a : C02Array Expr) (h : ∀ e ∈ a.flat, U e)
    (s : EvState) (hs : EvInv env U s) :
    ∃ s', c02ArrayRun tableCurrent false env a s
        = ((denList env a.flat).map (fun vs => (⟨a.shape, vs⟩ : C02Array Value)), s')
      ∧ EvInv env U s' := by
  obtain ⟨s', h1, i1⟩ := list_sim hU false a.flat h s hs
  rw [evalList_eq_runs, runs_eq_table_current] at h1
  refine ⟨s', ?_, i1⟩
  have hm : (c02MemoActive tableCurrent false && tableCurrent.memo.keyExpr) = false := by decide
  simp only [c02ArrayRun, hm, h1]
  cases denList env a.flat <;> rfl

/-- the memoizing evaluator cannot take an array at all: building the cache key hashes the
ndarray (known finding `unhashable-ndarray`, like `unhashable-list`) -/
theorem array_cached_raises_current (a : C02Array Expr) (s : EvState) :
    c02ArrayRun tableCurrent true env a s = (.error .typeError, s) := by
  have hm : (c02MemoActive tableCurrent true && tableCurrent.memo.keyExpr) = true := by decide
  simp only [c02ArrayRun, hm]
  rfl

/-! ### Decidable facts about the regenerated table -/

/-- the attribute names the IR (and `harness/sexp.py`) assumes for every node class are the
dataclass fields of the live classes, in order -/
theorem ir_fields_current :
    tableCurrent.classes.map (fun c => (c.cls, c.fields)) = c02IRFields := by decide

/-- `evaluate` and `evaluate_kw` instantiate the memoizing mapper by default; its `rec` goes
through the memo table, the plain mapper's does not -/
theorem entry_points_current :
    tableCurrent.entryPoints = [("evaluate", c02MapperClass true), ("evaluate_kw", c02MapperClass true)]
      ∧ c02MemoActive tableCurrent true = true ∧ c02MemoActive tableCurrent false = false := by
  decide

/-- every node class of the IR that the evaluator handles is dispatched to a handler whose body
was read (no dangling handler name), delegations included -/
theorem handlers_present_current :
    (tableCurrent.classes.all fun c => match c.handler with
      | none => true
      | some h => (tableCurrent.handlerBody h).isSome) = true
    ∧ (tableCurrent.handlerBody "map_common_subexpression_uncached").isSome = true := by decide

/-! ### Non-vacuity: the interpreter really reads the table -/

/-- a table that differs from the current one only in the operand order of `map_floor_div` -/
def tableSwappedFloorDiv : C02EvalTable :=
  { tableCurrent with
    handlers := tableCurrent.handlers.map fun h =>
      if h.name = "map_floor_div" then
        { h with body := .ret (.bin .floordiv (.recF "denominator") (.recF "numerator")) }
      else h }

/-- … evaluates `7 // 2` to `0`, the current table to `3`: the interpreter takes the operand order
from the table, so `evalNode_eq_table_current` would not check against such a source. -/
theorem swapped_floor_div_table_cex :
    (c02EvalGT tableCurrent true [] (.bin .floordiv (.const (.int 7)) (.const (.int 2))) {}).1
      = .ok (.int 3) ∧
    (c02EvalGT tableSwappedFloorDiv true [] (.bin .floordiv (.const (.int 7)) (.const (.int 2))) {}).1
      = .ok (.int 0) ∧
    (evalG true [] (.bin .floordiv (.const (.int 7)) (.const (.int 2))) {}).1 = .ok (.int 3) := by
  refine ⟨by rfl, by rfl, by rfl⟩

/-- a table whose `map_if` evaluates both branches before testing the condition … -/
def tableEagerIf : C02EvalTable :=
  { tableCurrent with
    handlers := tableCurrent.handlers.map fun h =>
      if h.name = "map_if" then
        { h with body := .assign "t" (.recF "then") (.assign "e" (.recF "else_")
            (.ite (.recF "condition") (.ret (.var "t")) (.ret (.var "e")))) }
      else h }

/-- … raises on `If(True, 1, y)` with `y` unbound, where the current table (and the model) return
`1`. -/
theorem eager_if_table_cex :
    let e := Expr.ite (.const (.bool true)) (.const (.int 1)) (.var "y")
    (c02EvalGT tableCurrent false [] e {}).1 = .ok (.int 1) ∧
    (c02EvalGT tableEagerIf false [] e {}).1 = .error (.unknownVar "y") ∧
    (evalG false [] e {}).1 = .ok (.int 1) := by
  refine ⟨by rfl, by rfl, by rfl⟩

/-- the table interpreter on a non-trivial expression with a shared common subexpression, a
conditional, a comparison and a call, under both mappers -/
example :
    let cse := Expr.cse (.nary .sum [.var "x", .const (.int 1)]) none "s"
    let e := Expr.ite (.cmp .lt cse (.const (.int 5)))
               (.nary .prod [cse, cse]) (.call (.var "f") [cse])
    (c02EvalGT tableCurrent true [("x", .int 2)] e {}).1 = .ok (.int 9) ∧
    (c02EvalGT tableCurrent false [("x", .int 2)] e {}).1 = .ok (.int 9) ∧
    (c02EvalGT tableCurrent false [("x", .int 7), ("f", .func "f")] e {}).1
      = .ok (.app "f" [.int 8] [] []) := by
  refine ⟨by rfl, by rfl, by rfl⟩

end PV.C02
