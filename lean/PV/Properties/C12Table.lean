import PV.Proofs.CseTable
import PV.Generated.Cse
import PV.Properties.C12
/-
  C12 (T-gen) — the common-subexpression models against the tables REGENERATED from the source.

  `Generated.c12KeyTable`, `c12CountTable`, `c12MapTable`, `c12TagAllTable`, `c12CtorTable`,
  `c12WrapTree`, `c12MakeTree`, `c12HistTable`, `c12TagTable` are rewritten by extract/cse.py from
  the live source of pymbolic/cse.py, pymbolic/mapper/cse_tagger.py and pymbolic/primitives.py on
  every check (and, through extract/traversal.py, `c04WalkTable`, `c04IdentityTable`, `c04Classes`
  from pymbolic/mapper/__init__.py and the node classes).  The theorems below tie the hand-written
  models `normalizedKey`, `useCount`, `cseMap`, `tagAll`, `wrapInCse`, `makeCse` (PV/Model/Cse.lean)
  and `c12HistWalk`, `c12HistTag` (PV/Model/CseTagger.lean) to those tables for ALL expressions,
  dictionaries, sets `to_eliminate`, tables of canonical wrappers, prefixes and scopes: an edit of
  the source that drops the multiplicities from the key, normalises only sums, moves the
  elimination threshold, wraps a wrapper, lets `wrap_in_cse` skip other leaf kinds, counts before
  descending into an existing wrapper, forgets to store the canonical wrapper, aliases `map_sum`
  to another set of node classes, … changes a table and breaks them; the streams of
  harness/props/c12.py then name the failing input.

  What stays hand-written (tied by the correspondence streams only): Python `==` / `hash` of
  expressions (`Expr.pyEq`, `Expr.hasList`), dict / frozenset as association lists, `is_constant`
  / `is_zero` (`Expr.isConstant`, `Expr.isZero`; C03 reads their source), the componentwise
  branches of `make_common_subexpression` for object arrays and multivectors (recognised by their
  text; stream `wraparray`), derived wrapper classes (the `else` branch of
  `CSEMapper.map_common_subexpression` is read and interpreted but no node of the model reaches
  it), the evaluator's CSE cache (C02 / C05 read that source).
-/
namespace PV.C12
open PV Generated

/-! ### the regenerated tables are the tables the models were written against -/

/-- **`NormalizedKeyGetter`** of the current source: sums and products (and no other node class)
are normalised; operands are counted from 0 in steps of 1; the key is the pair of the class and
the frozenset of (operand, count) ITEMS; every other node is its own key. -/
theorem key_table_current : c12KeyTable = c12KeyHand := by decide

/-- **`UseCountMapper`** of the current source: `visit` counts the key and descends only on the
first occurrence; the only override is the wrapper handler (known key: count, do not descend;
unknown key: walk the child FIRST, then enter the key with count 1). -/
theorem count_table_current : c12CountTable = c12CountHand := by decide

/-- **`CSEMapper`** of the current source: `map_sum` (key test against `to_eliminate`, `get_cse`
on a hit, `IdentityMapper`'s handler otherwise) is bound to exactly sum, product, quotient, floor
division, remainder, power and call; the wrapper handler; `map_substitution`; `get_cse` looks the
table up first, wraps the rebuilt node with `wrap_in_cse` (no prefix) and stores it. -/
theorem map_table_current : c12MapTable = c12MapHand := by decide

/-- **`tag_common_subexpressions`** of the current source: one counter and one mapper for the
whole list, the same key getter for both, keys with count `> 1` are eliminated. -/
theorem tagall_table_current : c12TagAllTable = c12TagAllHand := by decide

/-- **`CommonSubexpression`**: fields `child, prefix, scope`; default scope and the value
`__post_init__` substitutes for `scope=None` are `cse_scope.EVALUATION = "pymbolic_eval"`. -/
theorem ctor_table_current : c12CtorTable = c12CtorHand := by decide

/-- **`wrap_in_cse`** of the current source, as a decision tree: variables and subscripts are
returned; a wrapper is returned, except that an exact `CommonSubexpression` without prefix gets the
requested prefix (same child — never a wrapper around a wrapper); everything else is wrapped. -/
theorem wrap_tree_current : c12WrapTree = c12WrapHand := by decide

/-- **`make_common_subexpression`** of the current source (scalar path): a wrapper is returned
when no scope / the evaluation scope / its own scope is requested; constants are returned;
everything else — wrappers of another scope included — is wrapped with prefix and scope. -/
theorem make_tree_current : c12MakeTree = c12MakeHand := by decide

/-- **`CSEWalkMapper`** of the current source: `visit` counts the node itself and always descends;
no handler is overridden. -/
theorem hist_table_current : c12HistTable = c12HistHand := by decide

/-- **`CSETagMapper`** of the current source: `map_call` (histogram count `> 1`: a fresh wrapper
around the ORIGINAL node, else `IdentityMapper`'s handler) is bound to exactly twenty handler
names; nothing else is overridden (so `IdentityMapper.map_common_subexpression` is inherited). -/
theorem tag_table_current : c12TagTable = c12TagHand := by decide

/-! ### which body runs for which node (dispatch through the class MRO, overrides first) -/

/-- for every node the handler body `UseCountMapper` runs — `Mapper.__call__` dispatch against
the handler names of the class and of `WalkMapper`, the class body searched first, `Mapper` stubs
followed — is the body `useCount` was written from -/
theorem count_resolve_current (e : Expr) :
    c12CResolve c04Classes c04WalkTable c12CountTable e = c12CountBody e := by
  cases e with
  | const k => cases k <;> rfl
  | nary o cs => cases o <;> rfl
  | bin o a b => cases o <;> rfl
  | un o a => cases o <;> rfl
  | _ => rfl

/-- … and the same for `CSEMapper` over `IdentityMapper` -/
theorem map_resolve_current (e : Expr) :
    c12MResolve c04Classes c04IdentityTable c12MapTable e = c12MapBody e := by
  cases e with
  | const k => cases k <;> rfl
  | nary o cs => cases o <;> rfl
  | bin o a b => cases o <;> rfl
  | un o a => cases o <;> rfl
  | _ => rfl

/-- `getattr(IdentityMapper, expr.mapper_method)` is the `IdentityMapper` row of the node's own
class (what `CSEMapper.map_sum` / `get_cse` and `CSETagMapper.map_call` fall back to) -/
theorem ident_own_current (e : Expr) :
    c12IdentOwn c04Classes c04IdentityTable e = c12IdentOwnHand e := by
  cases e with
  | const k => cases k <;> rfl
  | nary o cs => cases o <;> rfl
  | bin o a b => cases o <;> rfl
  | un o a => cases o <;> rfl
  | _ => rfl

theorem hist_resolve_current (e : Expr) :
    c12CResolve c04Classes c04WalkTable c12HistTable e = c12HistBody e := by
  cases e with
  | const k => cases k <;> rfl
  | nary o cs => cases o <;> rfl
  | bin o a b => cases o <;> rfl
  | un o a => cases o <;> rfl
  | _ => rfl

theorem tag_resolve_current (e : Expr) :
    c12MResolve c04Classes c04IdentityTable c12TagTable e = c12TagBody e := by
  cases e with
  | const k => cases k <;> rfl
  | nary o cs => cases o <;> rfl
  | bin o a b => cases o <;> rfl
  | un o a => cases o <;> rfl
  | _ => rfl

example : c12MResolve c04Classes c04IdentityTable c12MapTable (.bin .floordiv (.var "a") (.var "b"))
    = .ok (.own (.keyed .getCse (.expr .identity))) := rfl

example : c12MResolve c04Classes c04IdentityTable c12MapTable (.bin .lshift (.var "a") (.var "b"))
    = .ok (.inherited (.rebuild [⟨"shiftee", .one, true⟩, ⟨"shift", .one, true⟩] true
        ["shiftee", "shift"] false (.sameClass [.rebuilt "shiftee", .rebuilt "shift"] false))) := rfl

/-! ### the models ARE the table interpreters run on the regenerated tables -/

/-- **`normalizedKey` is `NormalizedKeyGetter.__call__` of the current source**, for every node. -/
theorem normalizedKey_eq_table_current (e : Expr) :
    c12KeyT c12KeyTable e = some (normalizedKey e) := by
  rw [key_table_current]; exact normalizedKey_eq_table e

example : c12KeyT c12KeyTable (.nary .sum [.var "a", .var "b", .var "a"]) =
    some (.comm .sum [(.var "a", 2), (.var "b", 1)]) := by
  rw [normalizedKey_eq_table_current]; rfl

/-- **`wrapInCse` is `wrap_in_cse` of the current source**, for every node and prefix. -/
theorem wrapInCse_eq_table_current (e : Expr) (p : Option String) :
    c12WTreeT c12CtorTable e [("prefix", p)] c12WrapTree = some (wrapInCse e p) := by
  rw [ctor_table_current, wrap_tree_current]; exact wrapInCse_eq_table e p

/-- **`makeCse` is `make_common_subexpression` of the current source** on scalar fields. -/
theorem makeCse_eq_table_current (e : Expr) (p sc : Option String) :
    c12WTreeT c12CtorTable e [("prefix", p), ("scope", sc)] c12MakeTree = some (makeCse e p sc) := by
  rw [ctor_table_current, make_tree_current]; exact makeCse_eq_table e p sc

example : c12WTreeT c12CtorTable (.const (.int 3)) [("prefix", none)] c12WrapTree =
    some (.cse (.const (.int 3)) none evalScope) := by
  rw [wrapInCse_eq_table_current]; rfl

/-- **`useCount` is the table-driven counting walk of the current source**: on every node and
dictionary, one handler call as the regenerated tables describe it (`c12CountStep`: the override
of `UseCountMapper` or the `WalkMapper` row, `UseCountMapper.visit`, `NormalizedKeyGetter`),
recursing through `useCount`. -/
theorem useCount_table_step_current (e : Expr) (c : Counts) :
    c12Lift (useCount e c) =
      c12CountStep c04Classes c04WalkTable c12KeyTable c12CountTable c12UC e c := by
  have hk : c12KeyT c12KeyTable = c12KeyH := funext normalizedKey_eq_table_current
  rw [c12CountStep, count_resolve_current, hk, count_table_current]
  exact useCount_eq_stepB e c

/-- … and the only such function (so the theorems about `useCount` — `repeats_are_eliminated`, …
— speak about what the current source says) -/
theorem useCount_unique_current (f : Expr → Counts → Except DepErr Counts)
    (hf : ∀ e c, f e c = c12CountStep c04Classes c04WalkTable c12KeyTable c12CountTable f e c) :
    ∀ e c, f e c = c12Lift (useCount e c) :=
  c12Count_unique (c12KeyT c12KeyTable) c12CountTable.visit
    (fun e => c12CResolve c04Classes c04WalkTable c12CountTable e) f c12UC hf
    useCount_table_step_current

/-- the hypothesis of `useCount_unique_current` is satisfiable (by `useCount` itself) -/
example : ∀ e c, c12UC e c = c12Lift (useCount e c) :=
  useCount_unique_current c12UC useCount_table_step_current

/-- the table-driven walk itself (the step iterated) computes `useCount` -/
theorem useCount_eq_table_current (e : Expr) (c : Counts) :
    c12CountT c04Classes c04WalkTable c12KeyTable c12CountTable e c = c12Lift (useCount e c) :=
  c12CountT_eq _ _ _ _ c12UC useCount_table_step_current e c

example : c12CountT c04Classes c04WalkTable c12KeyTable c12CountTable
    (.nary .sum [.var "a", .var "a"]) [] =
    .ok [(.comm .sum [(.var "a", 2)], 1), (.plain (.var "a"), 2)] := by
  rw [useCount_eq_table_current]; rfl

/-- what the handlers of `CSEMapper` consult, built from the regenerated tables, is what the model
consults -/
theorem map_env_current (rec : C12Rec) :
    ({ keyOf := c12KeyT c12KeyTable,
       wrap := fun r p => c12WTreeT c12CtorTable r [("prefix", p)] c12WrapTree,
       mkCse := fun x => c12MkCse c12CtorTable x none none,
       identOf := c12IdentOwn c04Classes c04IdentityTable,
       getCse := c12MapTable.getCse, recur := rec } : C12MEnv) =
      c12EnvHand rec (some c12GetCseHand) := by
  have hk : c12KeyT c12KeyTable = c12KeyH := funext normalizedKey_eq_table_current
  have hw : (fun r p => c12WTreeT c12CtorTable r [("prefix", p)] c12WrapTree) =
      fun r p => some (wrapInCse r p) := by
    funext r p; exact wrapInCse_eq_table_current r p
  have hi : c12IdentOwn c04Classes c04IdentityTable = c12IdentOwnHand := funext ident_own_current
  rw [hk, hw, hi, map_table_current, ctor_table_current]
  rfl

/-- **`cseMap` is the table-driven `CSEMapper` of the current source**: for every set
`to_eliminate`, node and table of canonical wrappers, one handler call as the regenerated tables
describe it (`c12MapStep`), recursing through `cseMap`. -/
theorem cseMap_table_step_current (elim : List CKey) (hist : Counts) (e : Expr) (T : Tbl) :
    c12Lift (cseMap elim e T) =
      c12MapStep c04Classes c04IdentityTable c12KeyTable c12CtorTable c12WrapTree c12MapTable
        elim hist (c12CM elim) e T := by
  rw [c12MapStep, map_env_current, map_resolve_current]
  exact cseMap_eq_stepB elim hist e T

/-- … and the only such function (so `tag_value`, `no_cse_of_cse`, `tag_shares`, … speak about
what the current source says) -/
theorem cseMap_unique_current (elim : List CKey) (hist : Counts) (f : C12Rec)
    (hf : ∀ e T, f e T = c12MapStep c04Classes c04IdentityTable c12KeyTable c12CtorTable
      c12WrapTree c12MapTable elim hist f e T) :
    ∀ e T, f e T = c12Lift (cseMap elim e T) := by
  have key := c12Map_unique
    { keyOf := c12KeyT c12KeyTable,
      wrap := fun r p => c12WTreeT c12CtorTable r [("prefix", p)] c12WrapTree,
      mkCse := fun x => c12MkCse c12CtorTable x none none,
      identOf := c12IdentOwn c04Classes c04IdentityTable,
      getCse := c12MapTable.getCse, recur := f } elim hist
    (fun e => c12MResolve c04Classes c04IdentityTable c12MapTable e) f (c12CM elim)
  exact key hf (cseMap_table_step_current elim hist)

/-- the hypothesis of `cseMap_unique_current` is satisfiable (by `cseMap` itself) -/
example (elim : List CKey) : ∀ e T, c12CM elim e T = c12Lift (cseMap elim e T) :=
  cseMap_unique_current elim [] (c12CM elim) (cseMap_table_step_current elim [])

/-- the table-driven mapper itself (the step iterated) computes `cseMap` -/
theorem cseMap_eq_table_current (elim : List CKey) (hist : Counts) (e : Expr) (T : Tbl) :
    c12MapT c04Classes c04IdentityTable c12KeyTable c12CtorTable c12WrapTree c12MapTable elim hist
      e T = c12Lift (cseMap elim e T) :=
  c12MapT_eq _ _ _ _ _ _ elim hist (c12CM elim) (cseMap_table_step_current elim hist) e T

/-- all the tables of the current source the tagger of pymbolic/cse.py is read into -/
def c12Current : C12Tables :=
  { classes := c04Classes, walk := c04WalkTable, ident := c04IdentityTable, key := c12KeyTable,
    count := c12CountTable, mapper := c12MapTable, tagAll := c12TagAllTable, ctor := c12CtorTable,
    wrap := c12WrapTree }

/-- **`tagAll` is `tag_common_subexpressions` of the current source**: the statement sequence of
the function (one counter, threshold, one mapper) run with the table-driven counting walk and the
table-driven rebuilding mapper — every ingredient re-read from the source on this run. -/
theorem tagAll_eq_table_current (es : List Expr) :
    c12TagAllRun c12Current es = c12Lift (tagAll es) := by
  have h1 : c12CountT c04Classes c04WalkTable c12KeyTable c12CountTable = c12UC := by
    funext e c; exact useCount_eq_table_current e c
  have h2 : (fun elim => c12MapT c04Classes c04IdentityTable c12KeyTable c12CtorTable c12WrapTree
      c12MapTable elim []) = c12CM := by
    funext elim e T; exact cseMap_eq_table_current elim [] e T
  simp only [c12TagAllRun, c12Current, h1, h2, tagall_table_current]
  exact (tagAll_eq_table es).symm

example :
    let x := Expr.var "x"; let f := Expr.var "f"; let one := Expr.const (.int 1)
    let w := Expr.cse (.nary .sum [x, one]) none evalScope
    c12TagAllRun c12Current
      [.call f [.nary .sum [x, one]], .bin .pow (.nary .sum [one, x]) (.const (.int 2))]
      = .ok [.call f [w], .bin .pow w (.const (.int 2))] := by
  intro x f one w; rw [tagAll_eq_table_current]; rfl

/-! ### the property theorems, read on the current source -/

theorem tagAll_of_table {es outs : List Expr} (h : c12TagAllRun c12Current es = .ok outs) :
    tagAll es = .ok outs := by
  rw [tagAll_eq_table_current] at h
  cases ht : tagAll es with
  | error err => rw [ht] at h; cases h
  | ok o =>
    rw [ht] at h
    simp only [c12Lift_ok, Except.ok.injEq] at h
    rw [h]

/-- `tag_value` for the table-driven tagger: whatever `tag_common_subexpressions` — as the
regenerated tables describe it — returns for a list of simple expressions evaluates, entry by
entry and in every environment, like the input. -/
theorem tag_value_current (env : Env) (es outs : List Expr) (hs : ∀ e ∈ es, e.simple = true)
    (h : c12TagAllRun c12Current es = .ok outs) :
    outs.length = es.length ∧
      ∀ (i : Nat) (h1 : i < es.length) (h2 : i < outs.length) (v : Value),
        den env outs[i] = .ok v ↔ den env es[i] = .ok v := by
  exact tag_value env es outs hs (tagAll_of_table h)

/-- `no_cse_of_cse` for the table-driven tagger -/
theorem no_cse_of_cse_current (es outs : List Expr) (hn : ∀ e ∈ es, e.noNest = true)
    (h : c12TagAllRun c12Current es = .ok outs) : ∀ o ∈ outs, o.noNest = true := by
  exact no_cse_of_cse es outs hn (tagAll_of_table h)

/-- `tag_shares` for the table-driven tagger: on the fragment of the property the outputs are the
inputs read through one final table of canonical wrappers, and the use counts are those of the
table-driven counting walk -/
theorem tag_shares_current (es outs : List Expr) (hf : Expr.fragL es = true)
    (h : c12TagAllRun c12Current es = .ok outs) :
    ∃ cnt Tf, c12CountSeqL (c12CountT c04Classes c04WalkTable c12KeyTable c12CountTable) es [] = .ok cnt ∧
      outs = applyTblL (elimKeys cnt) Tf es ∧ TblKeys Tf ∧
      ∀ p ∈ Tf, ∃ r, p.2 = .cse r none evalScope ∧ r.isCseOp = true := by
  obtain ⟨cnt, Tf, h1, h2, h3, h4⟩ := tag_shares es outs hf (tagAll_of_table h)
  refine ⟨cnt, Tf, ?_, h2, h3, h4⟩
  have : c12CountT c04Classes c04WalkTable c12KeyTable c12CountTable = c12UC := by
    funext e c; exact useCount_eq_table_current e c
  rw [this, useCountL_eq_seqL, h1]; rfl

/-! ### what the named edits would do (the interpreters run on EDITED tables) -/

/-- a key getter that drops the multiplicities (`frozenset(kid_count)`) identifies `a+a+b` with
`a+b+b`; the current one does not -/
theorem key_without_multiplicities_table_cex :
    let a := Expr.var "a"; let b := Expr.var "b"
    let e1 := Expr.nary .sum [a, a, b]; let e2 := Expr.nary .sum [a, b, b]
    let K' : C12KeyTable := { c12KeyHand with items := false }
    (match c12KeyT K' e1, c12KeyT K' e2 with
      | some k1, some k2 => k1.eq k2
      | _, _ => false) = true ∧
    (normalizedKey e1).eq (normalizedKey e2) = false := by
  decide

/-- a key getter that normalises only sums distinguishes `a*b` from `b*a`; the current one
identifies them -/
theorem key_only_sums_table_cex :
    let a := Expr.var "a"; let b := Expr.var "b"
    let e1 := Expr.nary .prod [a, b]; let e2 := Expr.nary .prod [b, a]
    let K' : C12KeyTable := { c12KeyHand with commClasses := ["Sum"] }
    (match c12KeyT K' e1, c12KeyT K' e2 with
      | some k1, some k2 => k1.eq k2
      | _, _ => true) = false ∧
    (normalizedKey e1).eq (normalizedKey e2) = true := by
  decide

/-- with the threshold `>= 1` every counted key would be eliminated; with `> 1` a key counted once
is not -/
theorem threshold_table_cex :
    let cnt : Counts := [(.plain (.var "a"), 1)]
    (c12ElimT { c12TagAllHand with threshold := ⟨.ge, 1⟩ } cnt).length = 1 ∧
    (c12ElimT c12TagAllHand cnt).length = 0 := by
  decide

/-- a `wrap_in_cse` that skipped constants as well would return `3`; the current one wraps it
(the known finding `wrap-in-cse-wraps-constant`) -/
theorem wrap_skips_constants_table_cex :
    let W' : C12WTree := .ite .isConstant .same c12WrapHand
    c12WTreeT c12CtorHand (.const (.int 3)) [("prefix", none)] W' = some (.const (.int 3)) ∧
    c12WTreeT c12CtorHand (.const (.int 3)) [("prefix", none)] c12WrapHand =
      some (.cse (.const (.int 3)) none evalScope) := by
  decide

/-! ### the histogram tagger of pymbolic/mapper/cse_tagger.py -/

/-- **`c12HistWalk` is the table-driven `CSEWalkMapper` of the current source** -/
theorem histWalk_table_step_current (e : Expr) (c : Counts) :
    c12Lift (c12HistWalk e c) =
      c12CountStep c04Classes c04WalkTable c12KeyTable c12HistTable c12HW e c := by
  rw [c12CountStep, hist_resolve_current, hist_table_current]
  exact histWalk_eq_stepB _ e c

theorem histWalk_unique_current (f : Expr → Counts → Except DepErr Counts)
    (hf : ∀ e c, f e c = c12CountStep c04Classes c04WalkTable c12KeyTable c12HistTable f e c) :
    ∀ e c, f e c = c12Lift (c12HistWalk e c) :=
  c12Count_unique (c12KeyT c12KeyTable) c12HistTable.visit
    (fun e => c12CResolve c04Classes c04WalkTable c12HistTable e) f c12HW hf
    histWalk_table_step_current

example : ∀ e c, c12HW e c = c12Lift (c12HistWalk e c) :=
  histWalk_unique_current c12HW histWalk_table_step_current

theorem histWalk_eq_table_current (e : Expr) (c : Counts) :
    c12CountT c04Classes c04WalkTable c12KeyTable c12HistTable e c = c12Lift (c12HistWalk e c) :=
  c12CountT_eq _ _ _ _ c12HW histWalk_table_step_current e c

theorem tag_env_current (rec : C12Rec) :
    ({ keyOf := c12KeyT c12KeyTable,
       wrap := fun r p => c12WTreeT c12CtorTable r [("prefix", p)] c12WrapTree,
       mkCse := fun x => c12MkCse c12CtorTable x none none,
       identOf := c12IdentOwn c04Classes c04IdentityTable,
       getCse := c12TagTable.getCse, recur := rec } : C12MEnv) =
      c12EnvHand rec none := by
  have hk : c12KeyT c12KeyTable = c12KeyH := funext normalizedKey_eq_table_current
  have hw : (fun r p => c12WTreeT c12CtorTable r [("prefix", p)] c12WrapTree) =
      fun r p => some (wrapInCse r p) := by
    funext r p; exact wrapInCse_eq_table_current r p
  have hi : c12IdentOwn c04Classes c04IdentityTable = c12IdentOwnHand := funext ident_own_current
  rw [hk, hw, hi, tag_table_current, ctor_table_current]
  rfl

/-- **`c12HistTag` is the table-driven `CSETagMapper` of the current source**, for every
histogram -/
theorem histTag_table_step_current (elim : List CKey) (hist : Counts) (e : Expr) (T : Tbl) :
    c12HT hist e T =
      c12MapStep c04Classes c04IdentityTable c12KeyTable c12CtorTable c12WrapTree c12TagTable
        elim hist (c12HT hist) e T := by
  rw [c12MapStep, tag_env_current, tag_resolve_current]
  exact histTag_eq_stepB elim hist e T

theorem histTag_unique_current (elim : List CKey) (hist : Counts) (f : C12Rec)
    (hf : ∀ e T, f e T = c12MapStep c04Classes c04IdentityTable c12KeyTable c12CtorTable
      c12WrapTree c12TagTable elim hist f e T) :
    ∀ e T, f e T = c12HT hist e T := by
  have key := c12Map_unique
    { keyOf := c12KeyT c12KeyTable,
      wrap := fun r p => c12WTreeT c12CtorTable r [("prefix", p)] c12WrapTree,
      mkCse := fun x => c12MkCse c12CtorTable x none none,
      identOf := c12IdentOwn c04Classes c04IdentityTable,
      getCse := c12TagTable.getCse, recur := f } elim hist
    (fun e => c12MResolve c04Classes c04IdentityTable c12TagTable e) f (c12HT hist)
  exact key hf (histTag_table_step_current elim hist)

example (hist : Counts) : ∀ e T, c12HT hist e T = c12HT hist e T :=
  histTag_unique_current [] hist (c12HT hist) (histTag_table_step_current [] hist)

/-- **`c12HistTagRun` is `w = CSEWalkMapper(); w(e); CSETagMapper(w)(e)` of the current source** -/
theorem histTagRun_eq_table_current (e : Expr) :
    c12HistRun c04Classes c04WalkTable c04IdentityTable c12KeyTable c12CtorTable c12WrapTree
      c12HistTable c12TagTable e = c12Lift (c12HistTagRun e) := by
  simp only [c12HistRun, histWalk_eq_table_current, c12HistTagRun, bind, Except.bind]
  cases h : c12HistWalk e [] with
  | error err => rfl
  | ok hist =>
    simp only [c12Lift_ok]
    rw [c12MapT_eq _ _ _ _ _ _ [] hist (c12HT hist) (histTag_table_step_current [] hist) e []]
    simp only [c12HT_apply]
    cases c12HistTag hist e with
    | error err => rfl
    | ok r => rfl

/-- a node whose class is among the twenty and whose histogram count exceeds 1 becomes a fresh
wrapper around the ORIGINAL node: its operands are not looked at -/
theorem histTag_hit (hist : Counts) (e : Expr) (hop : e.isTagOp = true) (hl : e.hasList = false)
    (hc : (hist.find (.plain e)).getD 0 > 1) :
    c12HistTag hist e = .ok (.cse e none evalScope) := by
  have hm : c12TagMode hist e = .ok (some (.cse e none evalScope)) := by
    simp [c12TagMode, hop, hl, hc]; rfl
  cases e <;> simp only [Expr.isTagOp, Bool.false_eq_true] at hop <;>
    simp only [c12HistTag, hm] <;> rfl

example : c12HistTag [(.plain (.nary .sum [.var "a", .var "b"]), 2)] (.nary .sum [.var "a", .var "b"]) =
    .ok (.cse (.nary .sum [.var "a", .var "b"]) none evalScope) :=
  histTag_hit _ _ rfl rfl (by decide)

/-- **finding** (`tagmapper-wrapper-around-wrapper`): a repeated node that is already the child
of a wrapper is wrapped again -/
theorem histTag_wrapper_around_wrapper_cex :
    let a := Expr.var "a"; let b := Expr.var "b"
    let ab := Expr.nary .prod [a, b]
    c12HistTagRun (.nary .sum [.cse ab none evalScope, ab]) =
      .ok (.nary .sum [.cse (.cse ab none evalScope) none evalScope, .cse ab none evalScope]) := by
  decide

/-- **finding** (`tagmapper-zero-wrapper-collapses`): a wrapper whose mapped child is falsy as an
expression is replaced by the constant 0 (`CSE(0/x)` raises at `x = 0`, the result does not) -/
theorem histTag_zero_collapse_cex :
    c12HistTagRun (.cse (.bin .quot (.const (.int 0)) (.var "x")) none evalScope) =
      .ok (.const (.int 0)) := by
  decide

end PV.C12
