import PV.Model.Ops
import PV.Model.Eval
import PV.Proofs.OpsSound
import PV.Proofs.OpsRing
import PV.Proofs.OpsTable
import PV.Proofs.FlattenOrder
/-
  C03 — property theorems.

  "For any computation written with Python's arithmetic/shift/bitwise/negation syntax over a mix of
  expressions and numbers, the tree that results evaluates, in every environment where the same
  computation on plain numbers is defined, to exactly the value of that plain computation.  The
  construction-time shortcuts never change that value and never reorder non-commuting operands."

  `Ops.bin` / `Ops.un` (PV/Model/Ops.lean) model the dunder methods and CPython's dispatch; their
  agreement with the real code is checked by the correspondence streams.  `den` is the standard
  meaning of a tree, `PyBinOp.onValues` plain Python arithmetic on exact values; `inexact` stands
  for any float, about which the model makes no claim.

  Three shortcuts are WRONG and stay visible below as `*_cex` theorems:
    x // 1 → x,  x % 1 → 0   (x = 1/2),      0 ** x → 0   (x = 0).

  Section 6 ties `Ops.bin` / `Ops.un` to the SOURCE: extract/operators.py reads every dunder of
  `Expression` / `Sum` / `Product`, the `__bool__` of every node class, the operand predicates,
  `quotient` and the two flatteners from
  the live pymbolic/primitives.py into the plain-data table `PV.Generated.c03Table`
  (lean/PV/Generated/Operators.lean, rewritten on every run), `opByTable` interprets such tables
  without knowing their content, and `ops_eq_table_current` proves that the hand-written model is
  that interpreter on the regenerated table.  An edit of a guard, a neutral-element test, an
  operand order or a constructor in the source changes the table and breaks these obligations.
-/
namespace PV.C03
open PV
universe u

variable {env : Env}

/-! ## 1. Neutral elements on the level of Python values -/

/-- `v + 0 == v` -/
theorem add_zero_right {v w : Value} (h : Value.add v (.int 0) = .ok w) : w.pyEq v = true := by
  obtain ⟨qa, fa, qb, fb, ha, hb, hw⟩ := add_view h
  obtain ⟨rfl, rfl⟩ := view_inj hb (int_view 0)
  exact (Refines.of_view (by simpa using hw) ha (by simp)).pyEq

/-- `0 + v == v` -/
theorem add_zero_left {v w : Value} (h : Value.add (.int 0) v = .ok w) : w.pyEq v = true := by
  obtain ⟨qa, fa, qb, fb, ha, hb, hw⟩ := add_view h
  obtain ⟨rfl, rfl⟩ := view_inj ha (int_view 0)
  exact (Refines.of_view (by simpa using hw) hb (by simp)).pyEq

/-- `v + False == v` -/
theorem add_false_right {v w : Value} (h : Value.add v (.bool false) = .ok w) : w.pyEq v = true := by
  obtain ⟨qa, fa, qb, fb, ha, hb, hw⟩ := add_view h
  obtain ⟨rfl, rfl⟩ := view_inj hb (show (Value.bool false).view = some (0, false) by simp [Value.view])
  exact (Refines.of_view (by simpa using hw) ha (by simp)).pyEq

/-- `v - 0 == v` -/
theorem sub_zero_right {v w : Value} (h : Value.sub v (.int 0) = .ok w) : w.pyEq v = true := by
  obtain ⟨qa, fa, qb, fb, ha, hb, hw⟩ := sub_view h
  obtain ⟨rfl, rfl⟩ := view_inj hb (int_view 0)
  exact (Refines.of_view (by simpa using hw) ha (by simp)).pyEq

/-- `v * 1 == v` -/
theorem mul_one_right {v w : Value} (h : Value.mul v (.int 1) = .ok w) : w.pyEq v = true := by
  obtain ⟨qa, fa, qb, fb, ha, hb, hw⟩ := mul_view h
  obtain ⟨rfl, rfl⟩ := view_inj hb (int_view 1)
  exact (Refines.of_view (by simpa using hw) ha (by simp)).pyEq

/-- `1 * v == v` -/
theorem mul_one_left {v w : Value} (h : Value.mul (.int 1) v = .ok w) : w.pyEq v = true := by
  obtain ⟨qa, fa, qb, fb, ha, hb, hw⟩ := mul_view h
  obtain ⟨rfl, rfl⟩ := view_inj ha (int_view 1)
  exact (Refines.of_view (by simpa using hw) hb (by simp)).pyEq

/-- `v * True == v` -/
theorem mul_true_right {v w : Value} (h : Value.mul v (.bool true) = .ok w) : w.pyEq v = true := by
  obtain ⟨qa, fa, qb, fb, ha, hb, hw⟩ := mul_view h
  obtain ⟨rfl, rfl⟩ := view_inj hb (show (Value.bool true).view = some (1, false) by simp [Value.view])
  exact (Refines.of_view (by simpa using hw) ha (by simp)).pyEq

/-- `v * 0 == 0` -/
theorem mul_zero_right {v w : Value} (h : Value.mul v (.int 0) = .ok w) :
    w.pyEq (.int 0) = true := by
  obtain ⟨qa, fa, qb, fb, ha, hb, hw⟩ := mul_view h
  obtain ⟨rfl, rfl⟩ := view_inj hb (int_view 0)
  exact pyEq_zero_iff.2 ⟨_, by simpa using hw⟩

/-- `0 * v == 0` -/
theorem mul_zero_left {v w : Value} (h : Value.mul (.int 0) v = .ok w) :
    w.pyEq (.int 0) = true := by
  obtain ⟨qa, fa, qb, fb, ha, hb, hw⟩ := mul_view h
  obtain ⟨rfl, rfl⟩ := view_inj ha (int_view 0)
  exact pyEq_zero_iff.2 ⟨_, by simpa using hw⟩

/-- `v * False == 0` -/
theorem mul_false_right {v w : Value} (h : Value.mul v (.bool false) = .ok w) :
    w.pyEq (.int 0) = true := by
  obtain ⟨qa, fa, qb, fb, ha, hb, hw⟩ := mul_view h
  obtain ⟨rfl, rfl⟩ := view_inj hb (show (Value.bool false).view = some (0, false) by simp [Value.view])
  exact pyEq_zero_iff.2 ⟨_, by simpa using hw⟩

/-- `v ** 0 == 1` -/
theorem pow_zero {v w : Value} (h : Value.pow v (.int 0) = .ok w) : w.pyEq (.int 1) = true := by
  obtain ⟨f, hw⟩ := pow_zero_right (int_view 0) h
  rw [pyEq_of_view hw (int_view 1)]; simp

/-- `v ** False == 1` -/
theorem pow_false {v w : Value} (h : Value.pow v (.bool false) = .ok w) :
    w.pyEq (.int 1) = true := by
  obtain ⟨f, hw⟩ := pow_zero_right (show (Value.bool false).view = some (0, false) by simp [Value.view]) h
  rw [pyEq_of_view hw (int_view 1)]; simp

/-- `v ** 1 == v` -/
theorem pow_one {v w : Value} (h : Value.pow v (.int 1) = .ok w) : w.pyEq v = true := by
  obtain ⟨x, y, _, _, _, hx, _⟩ := arith_ok_view h
  have hw := pow_one_right hx (int_view 1) h
  exact (Refines.of_view hw hx id).pyEq

/-- `v / 1 == v` whenever the quotient is exact (for an int `v` Python returns a float) -/
theorem div_one {v w : Value} (h : Value.div v (.int 1) = .ok w) (hex : w.isInexact = false) :
    w.pyEq v = true := by
  obtain ⟨x, y, _, _, _, hx, _⟩ := arith_ok_view h
  obtain ⟨hw, _⟩ := div_one_right hx (int_view 1) h hex
  rw [pyEq_of_view hw hx]; simp

/-- `0 / v == 0` whenever the quotient is exact -/
theorem zero_div {v w : Value} (h : Value.div (.int 0) v = .ok w) (hex : w.isInexact = false) :
    w.pyEq (.int 0) = true := by
  rcases div_zero_left (int_view 0) h with rfl | hw
  · simp [Value.isInexact] at hex
  · exact pyEq_zero_iff.2 ⟨_, hw⟩

/-- `n // 1 == n` for an int/bool `n` (FALSE for Fractions, see `floordiv_by_one_cex`) -/
theorem floordiv_one {v w : Value} (hv : v.isIntLike = true)
    (h : Value.floordiv v (.int 1) = .ok w) : w.pyEq v = true := by
  obtain ⟨q, hq⟩ := isIntLike_view hv
  have hw := floordiv_one_right hq (int_view 1) h
  rw [pyEq_of_view hw hq]; simp

/-- `n % 1 == 0` for an int/bool `n` (FALSE for Fractions, see `mod_by_one_cex`) -/
theorem mod_one {v w : Value} (hv : v.isIntLike = true)
    (h : Value.mod v (.int 1) = .ok w) : w.pyEq (.int 0) = true := by
  obtain ⟨q, hq⟩ := isIntLike_view hv
  exact pyEq_zero_iff.2 ⟨_, mod_one_right hq (int_view 1) h⟩

/-- `1 ** v == 1` whenever the power is exact -/
theorem one_pow {v w : Value} (h : Value.pow (.int 1) v = .ok w) (hex : w.isInexact = false) :
    w.pyEq (.int 1) = true := by
  obtain ⟨f, hw⟩ := one_pow_left (int_view 1) h hex
  rw [pyEq_of_view hw (int_view 1)]; simp

/-- `0 ** v == 0` for `v != 0`, whenever the power is exact (FALSE at `v = 0`, see `zero_pow_cex`) -/
theorem zero_pow {v w : Value} (hv : v.pyEq (.int 0) = false)
    (h : Value.pow (.int 0) v = .ok w) (hex : w.isInexact = false) : w.pyEq (.int 0) = true := by
  obtain ⟨x, y, _, _, _, _, hy⟩ := arith_ok_view h
  have hq : y.toRat ≠ 0 := by
    intro h0
    have : v.pyEq (.int 0) = true := pyEq_zero_iff.2 ⟨_, by rw [hy, h0]⟩
    rw [this] at hv; cases hv
  obtain ⟨f, hw⟩ := zero_pow_left (int_view 0) hy hq h hex
  exact pyEq_zero_iff.2 ⟨_, hw⟩

/-! ## 2. Falsy nodes evaluate to zero -/

/-- If Python's `bool(e)` is `False` (as computed by `Sum/Product/QuotientBase.__bool__`) and `e`
evaluates, then its value is a numeric zero, a float (no claim), or an empty foreign container. -/
theorem falsy_value (e : Expr) (v : Value) (ht : e.truthy = false) (hd : den env e = .ok v) :
    v.pyEq (.int 0) = true ∨ v = .inexact ∨ v = .tuple [] ∨ v = .list [] := by
  rcases falsy_den e v ht hd with h | h | h | h
  · exact Or.inr (Or.inl h)
  · exact Or.inr (Or.inr (Or.inl h))
  · exact Or.inr (Or.inr (Or.inr h))
  · exact Or.inl (pyEq_zero_iff.2 h)

/-! ## 3. Soundness of every operator -/

/-- Generic form: under the side condition `sideCond`, the tree refines the plain value. -/
theorem bin_refines (o : PyBinOp) (a b t : Expr) (va vb v : Value)
    (h : Ops.bin o a b = .ok t) (ha : den env a = .ok va) (hb : den env b = .ok vb)
    (hv : o.onValues va vb = .ok v) (hside : sideCond o a b va vb v = true) :
    ∃ w, den env t = .ok w ∧ Refines w v := bin_sound h ha hb hv hside

theorem add_sound (env : Env) (a b t : Expr) (va vb v : Value) :
    Ops.bin .add a b = .ok t → den env a = .ok va → den env b = .ok vb →
    PyBinOp.onValues .add va vb = .ok v → ∃ w, den env t = .ok w ∧ w.pyEq v = true :=
  fun h ha hb hv => (bin_sound h ha hb hv rfl).imp fun _ hw => ⟨hw.1, hw.2.pyEq⟩

theorem sub_sound (env : Env) (a b t : Expr) (va vb v : Value) :
    Ops.bin .sub a b = .ok t → den env a = .ok va → den env b = .ok vb →
    PyBinOp.onValues .sub va vb = .ok v → ∃ w, den env t = .ok w ∧ w.pyEq v = true :=
  fun h ha hb hv => (bin_sound h ha hb hv rfl).imp fun _ hw => ⟨hw.1, hw.2.pyEq⟩

theorem mul_sound (env : Env) (a b t : Expr) (va vb v : Value) :
    Ops.bin .mul a b = .ok t → den env a = .ok va → den env b = .ok vb →
    PyBinOp.onValues .mul va vb = .ok v → ∃ w, den env t = .ok w ∧ w.pyEq v = true :=
  fun h ha hb hv => (bin_sound h ha hb hv rfl).imp fun _ hw => ⟨hw.1, hw.2.pyEq⟩

/-- true division; `hex`: the plain quotient is exact (a Fraction, not a float) -/
theorem truediv_sound (env : Env) (a b t : Expr) (va vb v : Value) :
    Ops.bin .truediv a b = .ok t → den env a = .ok va → den env b = .ok vb →
    PyBinOp.onValues .truediv va vb = .ok v → v.isInexact = false →
    ∃ w, den env t = .ok w ∧ w.pyEq v = true :=
  fun h ha hb hv hex => (bin_sound h ha hb hv (by simp [sideCond, hex])).imp
    fun _ hw => ⟨hw.1, hw.2.pyEq⟩

/-- floor division, excluding the wrong fold: `b` is not the constant one, or `a` is int-valued -/
theorem floordiv_sound_partial (env : Env) (a b t : Expr) (va vb v : Value) :
    Ops.bin .floordiv a b = .ok t → den env a = .ok va → den env b = .ok vb →
    PyBinOp.onValues .floordiv va vb = .ok v → (b.isOne = false ∨ va.isIntLike = true) →
    ∃ w, den env t = .ok w ∧ w.pyEq v = true :=
  fun h ha hb hv hs => (bin_sound h ha hb hv (by
    rcases hs with hs | hs <;> simp [sideCond, hs])).imp fun _ hw => ⟨hw.1, hw.2.pyEq⟩

/-- remainder, excluding the wrong fold: `b` is not the constant one, or `a` is int-valued -/
theorem mod_sound_partial (env : Env) (a b t : Expr) (va vb v : Value) :
    Ops.bin .mod a b = .ok t → den env a = .ok va → den env b = .ok vb →
    PyBinOp.onValues .mod va vb = .ok v → (b.isOne = false ∨ va.isIntLike = true) →
    ∃ w, den env t = .ok w ∧ w.pyEq v = true :=
  fun h ha hb hv hs => (bin_sound h ha hb hv (by
    rcases hs with hs | hs <;> simp [sideCond, hs])).imp fun _ hw => ⟨hw.1, hw.2.pyEq⟩

/-- power with an expression base (`Expression.__pow__`): no side condition at all -/
theorem pow_sound (env : Env) (a b t : Expr) (va vb v : Value) :
    Ops.bin .pow a b = .ok t → a.isNode = true → den env a = .ok va → den env b = .ok vb →
    PyBinOp.onValues .pow va vb = .ok v → ∃ w, den env t = .ok w ∧ w.pyEq v = true :=
  fun h hn ha hb hv => (bin_sound h ha hb hv (by simp [sideCond, hn])).imp
    fun _ hw => ⟨hw.1, hw.2.pyEq⟩

/-- power with a constant base (`Expression.__rpow__`), excluding the wrong fold: the base is not
zero, or the exponent value is not zero; `hex`: the plain power is exact -/
theorem rpow_sound_partial (env : Env) (a b t : Expr) (va vb v : Value) :
    Ops.bin .pow a b = .ok t → den env a = .ok va → den env b = .ok vb →
    PyBinOp.onValues .pow va vb = .ok v → v.isInexact = false →
    (a.isZero = false ∨ vb.pyEq (.int 0) = false) →
    ∃ w, den env t = .ok w ∧ w.pyEq v = true :=
  fun h ha hb hv hex hs => (bin_sound h ha hb hv (by
    rcases hs with hs | hs <;> simp [sideCond, hs, hex])).imp fun _ hw => ⟨hw.1, hw.2.pyEq⟩

theorem lshift_sound (env : Env) (a b t : Expr) (va vb v : Value) :
    Ops.bin .lshift a b = .ok t → den env a = .ok va → den env b = .ok vb →
    PyBinOp.onValues .lshift va vb = .ok v → ∃ w, den env t = .ok w ∧ w.pyEq v = true :=
  fun h ha hb hv => (bin_sound h ha hb hv rfl).imp fun _ hw => ⟨hw.1, hw.2.pyEq⟩

theorem rshift_sound (env : Env) (a b t : Expr) (va vb v : Value) :
    Ops.bin .rshift a b = .ok t → den env a = .ok va → den env b = .ok vb →
    PyBinOp.onValues .rshift va vb = .ok v → ∃ w, den env t = .ok w ∧ w.pyEq v = true :=
  fun h ha hb hv => (bin_sound h ha hb hv rfl).imp fun _ hw => ⟨hw.1, hw.2.pyEq⟩

theorem band_sound (env : Env) (a b t : Expr) (va vb v : Value) :
    Ops.bin .band a b = .ok t → den env a = .ok va → den env b = .ok vb →
    PyBinOp.onValues .band va vb = .ok v → ∃ w, den env t = .ok w ∧ w.pyEq v = true :=
  fun h ha hb hv => (bin_sound h ha hb hv rfl).imp fun _ hw => ⟨hw.1, hw.2.pyEq⟩

theorem bor_sound (env : Env) (a b t : Expr) (va vb v : Value) :
    Ops.bin .bor a b = .ok t → den env a = .ok va → den env b = .ok vb →
    PyBinOp.onValues .bor va vb = .ok v → ∃ w, den env t = .ok w ∧ w.pyEq v = true :=
  fun h ha hb hv => (bin_sound h ha hb hv rfl).imp fun _ hw => ⟨hw.1, hw.2.pyEq⟩

theorem bxor_sound (env : Env) (a b t : Expr) (va vb v : Value) :
    Ops.bin .bxor a b = .ok t → den env a = .ok va → den env b = .ok vb →
    PyBinOp.onValues .bxor va vb = .ok v → ∃ w, den env t = .ok w ∧ w.pyEq v = true :=
  fun h ha hb hv => (bin_sound h ha hb hv rfl).imp fun _ hw => ⟨hw.1, hw.2.pyEq⟩

theorem neg_sound (env : Env) (e t : Expr) (ve v : Value) :
    Ops.un .neg e = .ok t → den env e = .ok ve → PyUnOp.onValue .neg ve = .ok v →
    ∃ w, den env t = .ok w ∧ w.pyEq v = true :=
  fun h he hv => (un_sound h he hv).imp fun _ hw => ⟨hw.1, hw.2.pyEq⟩

theorem pos_sound (env : Env) (e t : Expr) (ve v : Value) :
    Ops.un .pos e = .ok t → den env e = .ok ve → PyUnOp.onValue .pos ve = .ok v →
    ∃ w, den env t = .ok w ∧ w.pyEq v = true :=
  fun h he hv => (un_sound h he hv).imp fun _ hw => ⟨hw.1, hw.2.pyEq⟩

theorem invert_sound (env : Env) (e t : Expr) (ve v : Value) :
    Ops.un .invert e = .ok t → den env e = .ok ve → PyUnOp.onValue .invert ve = .ok v →
    ∃ w, den env t = .ok w ∧ w.pyEq v = true :=
  fun h he hv => (un_sound h he hv).imp fun _ hw => ⟨hw.1, hw.2.pyEq⟩

/-! ### The three wrong folds (confirmed on the real code), as theorems -/

def envHalf : Env := [("x", .frac (1/2))]
def envZero : Env := [("x", .int 0)]

theorem floordiv_half_one : Value.floordiv (.frac (1/2)) (.int 1) = .ok (.int 0) := by
  simp [Value.floordiv, arith, Value.isInexact, Value.isSeq, Value.num?, floordivN, Num.toRat,
    pure, Except.pure, rat_floor_eq]
  norm_num

theorem mod_half_one : Value.mod (.frac (1/2)) (.int 1) = .ok (.frac (1/2)) := by
  simp [Value.mod, arith, Value.isInexact, Value.isSeq, Value.num?, modN, Num.toRat,
    pure, Except.pure, rat_floor_eq]
  norm_num

theorem div_half_one : Value.div (.frac (1/2)) (.int 1) = .ok (.frac (1/2)) := by
  simp [Value.div, arith, Value.isInexact, Value.isSeq, Value.num?, divN, Num.toRat,
    pure, Except.pure]

/-- `x // 1` is folded to `x`; for `x = 1/2` plain Python gives `0`, the tree gives `1/2`. -/
theorem floordiv_by_one_cex : ∃ (env : Env) (a b t : Expr) (va vb v w : Value),
    Ops.bin .floordiv a b = .ok t ∧ den env a = .ok va ∧ den env b = .ok vb ∧
    PyBinOp.onValues .floordiv va vb = .ok v ∧ den env t = .ok w ∧ w.pyEq v = false := by
  refine ⟨envHalf, .var "x", .const (.int 1), .var "x", .frac (1/2), .int 1, .int 0, .frac (1/2),
    rfl, rfl, rfl, floordiv_half_one, rfl, ?_⟩
  simp [Value.pyEq, Value.num?, Num.toRat]

/-- `x % 1` is folded to `0`; for `x = 1/2` plain Python gives `1/2`. -/
theorem mod_by_one_cex : ∃ (env : Env) (a b t : Expr) (va vb v w : Value),
    Ops.bin .mod a b = .ok t ∧ den env a = .ok va ∧ den env b = .ok vb ∧
    PyBinOp.onValues .mod va vb = .ok v ∧ den env t = .ok w ∧ w.pyEq v = false := by
  refine ⟨envHalf, .var "x", .const (.int 1), .const (.int 0), .frac (1/2), .int 1, .frac (1/2),
    .int 0, rfl, rfl, rfl, mod_half_one, rfl, ?_⟩
  simp [Value.pyEq, Value.num?, Num.toRat]

/-- `0 ** x` is folded to `0`; for `x = 0` plain Python gives `1`. -/
theorem zero_pow_cex : ∃ (env : Env) (a b t : Expr) (va vb v w : Value),
    Ops.bin .pow a b = .ok t ∧ den env a = .ok va ∧ den env b = .ok vb ∧
    PyBinOp.onValues .pow va vb = .ok v ∧ den env t = .ok w ∧ w.pyEq v = false := by
  refine ⟨envZero, .const (.int 0), .var "x", .const (.int 0), .int 0, .int 0, .int 1, .int 0,
    rfl, rfl, rfl, ?_, rfl, ?_⟩
  · simp [PyBinOp.onValues, Value.pow, arith, Value.isInexact, Value.isSeq, Value.num?, powN,
      bigLimit, pure, Except.pure]
  · simp [Value.pyEq, Value.num?, Num.toRat]

/-! ### The added hypotheses are satisfiable by non-trivial instances -/

/-- `truediv_sound` with the fold `x / 1 → x` at `x = 1/2` (exact quotient) -/
example : ∃ (env : Env) (a b t : Expr) (va vb v : Value),
    Ops.bin .truediv a b = .ok t ∧ den env a = .ok va ∧ den env b = .ok vb ∧
    PyBinOp.onValues .truediv va vb = .ok v ∧ v.isInexact = false :=
  ⟨envHalf, .var "x", .const (.int 1), .var "x", .frac (1/2), .int 1, .frac (1/2),
    rfl, rfl, rfl, div_half_one, rfl⟩

/-- `floordiv_sound_partial` / `mod_sound_partial` with the fold `x // 1 → x` at the int `x = 0` -/
example : ∃ (env : Env) (a b t : Expr) (va vb v : Value),
    Ops.bin .floordiv a b = .ok t ∧ den env a = .ok va ∧ den env b = .ok vb ∧
    PyBinOp.onValues .floordiv va vb = .ok v ∧ (b.isOne = false ∨ va.isIntLike = true) :=
  ⟨envZero, .var "x", .const (.int 1), .var "x", .int 0, .int 1, .int 0,
    rfl, rfl, rfl, rfl, Or.inr rfl⟩

/-- `rpow_sound_partial` with the fold `1 ** x → 1` -/
example : ∃ (env : Env) (a b t : Expr) (va vb v : Value),
    Ops.bin .pow a b = .ok t ∧ den env a = .ok va ∧ den env b = .ok vb ∧
    PyBinOp.onValues .pow va vb = .ok v ∧ v.isInexact = false ∧
    (a.isZero = false ∨ vb.pyEq (.int 0) = false) := by
  refine ⟨envZero, .const (.int 1), .var "x", .const (.int 1), .int 1, .int 0, .int 1,
    rfl, rfl, rfl, ?_, rfl, Or.inl rfl⟩
  simp [PyBinOp.onValues, Value.pow, arith, Value.isInexact, Value.isSeq, Value.num?, powN,
    bigLimit, pure, Except.pure]

/-! ## 4. Whole operator programs -/

/-- A program written with Python operator syntax over expressions and numbers: if it builds the
tree `t`, if the same computation on plain numbers yields `v` (`OpProg.plain`: leaves evaluated by
`den`, operators applied to values), if no operator instance falls under a side condition
(`OpProg.sideOK`: the three wrong folds are not exercised; quotients, and powers of constants,
are exact) and the model does not abstain on the built trees (`OpProg.treeExact`: no built tree
evaluates to a float), then `t` evaluates to a value Python-equal to `v`. -/
theorem program_sound (env : Env) (p : OpProg) (t : Expr) (v : Value)
    (hb : p.build = .ok t) (hp : OpProg.plain env p = .ok v)
    (hs : OpProg.sideOK env p = true) (hte : OpProg.treeExact env p = true)
    (hv : (v.num?.isSome || v.isInexact) = true) :
    ∃ w, den env t = .ok w ∧ w.pyEq v = true := by
  have hv' : v.NumOrInexact := by
    simp only [Bool.or_eq_true] at hv
    rcases hv with hv | hv
    · cases hx : v.num? with
      | none => rw [hx] at hv; cases hv
      | some x => exact Or.inr ⟨_, _, num_some_view hx⟩
    · cases v <;> simp [Value.isInexact] at hv
      exact Or.inl rfl
  obtain ⟨w, hw, href⟩ := program_refines p t v hb hp hs hte hv'
  exact ⟨w, hw, href.pyEq⟩

/-- a non-trivial instance of the hypotheses of `program_sound`:  `(x * 0 + x) / 1 - (-x)` at
`x = 1/2` (folds `x*0 → 0`, `0 + x → x`, `x / 1 → x`, `-x → (-1)*x`) -/
def demoProg : OpProg :=
  .bin .sub
    (.bin .truediv (.bin .add (.bin .mul (.leaf (.var "x")) (.leaf (.const (.int 0)))) (.leaf (.var "x")))
      (.leaf (.const (.int 1))))
    (.un .neg (.leaf (.var "x")))

example : demoProg.build =
    .ok (.nary .sum [.var "x", .nary .prod [.const (.int (-1)), .const (.int (-1)), .var "x"]]) := rfl
example : OpProg.sideOK envHalf demoProg = true := by decide
example : OpProg.treeExact envHalf demoProg = true := by decide
example : (match OpProg.plain envHalf demoProg with
    | .ok v => v.num?.isSome || v.isInexact
    | _ => false) = true := by decide

/-! ## 5. Non-commuting operands are never reordered -/

/-- Over an arbitrary (possibly non-commutative) ring: a program over `+ - * neg pos` whose
leaves are int constants, variables, sums and products builds a tree with the same ring value.
`evalRing` folds sums from `0` and products from `1`, left to right, so any reordering of factors
would be visible in a non-commutative ring. -/
theorem no_reorder {K : Type u} [Ring K] (ρ : String → K) (p : OpProg) (t : Expr) (k : K) :
    p.build = .ok t → plainRing ρ p = some k → evalRing ρ t = some k :=
  PV.no_reorder ρ p t k

/-- **`flattened_product` does not change the order of the factors** (its docstring: "does not
require the product to be commutative").  Over an arbitrary — possibly NON-commutative — ring `K`
and any assignment `ρ`: if the ordered (left-to-right, from `1`) product of the values of `terms`
is `k`, then `flattened_product(terms)` has the value `k`.  `evalRing` multiplies the children of
a `Product` left to right, so a factor moved past another one would be visible.  (The zero
shortcut `return 0` and the dropped ones are covered: a zero factor makes the ordered product `0`
in every ring.) -/
theorem flattenedProduct_no_reorder {K : Type u} [Ring K] (ρ : String → K) (terms : List Expr)
    (k : K) (h : evalRingFold ρ (· * ·) 1 terms = some k) :
    evalRing ρ (flattenedProduct terms) = some k :=
  flattenedProduct_ring ρ h

/-- the `x, a*b, c` case: the tree is `x*a*b*c` — the spliced factors keep their place … -/
example : flattenedProduct [.var "x", .nary .prod [.var "a", .var "b"], .var "c"]
    = .nary .prod [.var "x", .var "a", .var "b", .var "c"] := rfl
/-- … and in every ring its value is the ordered product `x * (a * b) * c` -/
example {K : Type u} [Ring K] (ρ : String → K) :
    evalRing ρ (flattenedProduct [.var "x", .nary .prod [.var "a", .var "b"], .var "c"])
      = some (ρ "x" * (ρ "a" * ρ "b") * ρ "c") :=
  flattenedProduct_no_reorder ρ _ _ (by simp [evalRingFold, evalRing])

/-- **`flattened_product`, syntactically: the factors of the result are the factors of the terms
IN ORDER.**  `prodFactorsL terms` (PV/Proofs/FlattenOrder.lean) is the queue-free description: go
through `terms` left to right, descend into a nested (non-zero) `Product` in place, drop ones,
`none` as soon as a zero is met.  The result is `0` / `1` / the single factor / `Product` of
exactly that list. -/
theorem flattenedProduct_in_order (terms : List Expr) :
    flattenedProduct terms =
      match prodFactorsL terms with
      | none => zero
      | some [] => one
      | some [x] => x
      | some xs => .nary .prod xs :=
  flattenedProduct_eq_factors terms

example : prodFactorsL [.var "x", .nary .prod [.var "a", .const (.int 1), .var "b"], .var "c"]
    = some [.var "x", .var "a", .var "b", .var "c"] := rfl
example : prodFactorsL [.var "x", .nary .prod [.var "a", .var "b"], .const (.int 0)] = none := rfl

/-- **`flattened_sum` keeps the value in every ring** (ordered sum from `0`; addition commutes in
a ring, so this alone does not see the order — `flattenedSum_in_order` does). -/
theorem flattenedSum_no_reorder {K : Type u} [Ring K] (ρ : String → K) (terms : List Expr)
    (k : K) (h : evalRingFold ρ (· + ·) 0 terms = some k) :
    evalRing ρ (flattenedSum terms) = some k :=
  flattenedSum_ring ρ h

example {K : Type u} [Ring K] (ρ : String → K) :
    evalRing ρ (flattenedSum [.var "x", .nary .sum [.var "a", .var "b"], .var "c"])
      = some (ρ "x" + (ρ "a" + ρ "b") + ρ "c") :=
  flattenedSum_no_reorder ρ _ _ (by simp [evalRingFold, evalRing])

/-- **`flattened_sum`: the terms of the result are the non-zero terms of the arguments IN ORDER**
(`sumTermsL`: left to right, a nested non-zero `Sum` taken apart in place, zeros dropped) — the
form of "does not reorder" that is meaningful for a `+` that need not commute. -/
theorem flattenedSum_in_order (terms : List Expr) :
    flattenedSum terms =
      match sumTermsL terms with
      | [] => zero
      | [x] => x
      | xs => .nary .sum xs :=
  flattenedSum_eq_terms terms

example : flattenedSum [.var "x", .nary .sum [.var "a", .var "b"], .var "c"]
    = .nary .sum [.var "x", .var "a", .var "b", .var "c"] := rfl
example : sumTermsL [.var "x", .nary .sum [.var "a", .const (.int 0), .var "b"], .var "c"]
    = [.var "x", .var "a", .var "b", .var "c"] := rfl

/-! ## 6. The model is what the current source says (T-gen) -/

open PV.Generated in
/-- **The hand-written binary-operator model is the regenerated table.**  For every operator and
ALL operands, `Ops.bin` (what every `*_sound` theorem above speaks about) equals the generic table
interpreter `opByTable` run on `c03Table`, the decision trees extract/operators.py read from the
current source of `Expression.__add__ … __rxor__`, `Sum.__add__/__radd__/__sub__`,
`Product.__mul__/__rmul__`, `quotient` and the four operand predicates. -/
theorem ops_eq_table_current (o : PyBinOp) (a b : Expr) :
    Ops.bin o a b = opByTable c03Table o a b := c03_bin_eq_table o a b

open PV.Generated in
/-- `-e`, `+e`, `~e`: `Ops.un` equals the table interpreter on the regenerated
`__neg__` (= `-1*self`, through `__rmul__` of the operand's class), `__pos__`, `__invert__`. -/
theorem un_eq_table_current (o : PyUnOp) (e : Expr) :
    Ops.un o e = unByTable c03Table o e := c03_un_eq_table o e

open PV.Generated in
/-- the operand predicates of the model are the regenerated formulas over the run-time values of
`VALID_CONSTANT_CLASSES`, `_BOOL_CLASSES`, `VALID_OPERANDS` -/
theorem preds_eq_table_current (e : Expr) :
    c03PredEval c03Preds c03PredFuel .isConstant e = e.isConstant ∧
    c03PredEval c03Preds c03PredFuel .isNumber e = e.isNumber ∧
    c03PredEval c03Preds c03PredFuel .isValidOperand e = e.isValidOperand ∧
    c03PredEval c03Preds c03PredFuel .isArith e = e.isArith :=
  ⟨c03_isConstant e, c03_isNumber e, c03_isValidOperand e, c03_isArith e⟩

open PV.Generated in
/-- truthiness, which every zero shortcut (`is_zero(other)`, `if self:`, `not other`) rests on:
`Expr.truthy` is `bool(e)` as the `__bool__` methods of the CURRENT source define it — for every
node class the method CPython ends up calling along the MRO (`Sum`: by number of children,
`Product`: no zero child, `QuotientBase`: the numerator, everything else: always true), read into
`c03Preds.truth`. -/
theorem truthy_eq_table_current (e : Expr) : c03Truthy c03Preds.truth e = e.truthy :=
  c03_truthy e

open PV.Generated in
/-- whole operator programs: `OpProg.build` is the program run with every operator application
answered by the regenerated table -/
theorem build_eq_table_current (p : OpProg) : p.build = p.c03BuildByTable c03Table :=
  c03_build_eq_table p

open PV.Generated in
/-- `flattened_sum` / `flattened_product`: the hand-written loops are the generic loop
`c03Flatten` run on the records read from the source (zero test `continue` / `return 0`, the
`is_zero(item - 1)` skip, the flattened class, WHERE the children of a nested node re-enter the
queue — `spliceFront`: in place, `queue[0:0] = item.children` —, the empty result) -/
theorem flatten_eq_table_current (terms : List Expr) :
    flattenedSum terms = c03Flatten c03Preds c03FlatSum terms ∧
    flattenedProduct terms = c03Flatten c03Preds c03FlatProduct terms :=
  ⟨c03_flattenedSum_eq terms, c03_flattenedProduct_eq terms⟩

/-- The table language has ONE abbreviation: the test `is_zero(x - 1)` is the primitive `isOne`.
It is what the subtraction of the model gives: for a node `e` the tree built for `e - 1` is never
zero (and `Expr.isOne e = false`) … -/
theorem is_one_is_sub_one_zero_node (e r : Expr) (he : e.isNode = true)
    (h : Ops.bin .sub e one = .ok r) : r.isZero = e.isOne := c03_sub_one_node e r he h

/-- … and for an int / bool constant `c`, plain `c - 1` is zero exactly when `Const.isOne c`. -/
theorem is_one_is_sub_one_zero_const (c c' : Const)
    (h : constBin .sub c (.int 1) = .ok (.const c')) :
    (Expr.const c').isZero = (Expr.const c).isOne := c03_sub_one_const c c' h

/-- positional constructor parameters of the node classes the dunder bodies build, as the
dataclasses of the current source declare them (so `FloorDiv(other, self)` puts `other` in the
numerator, `Power(other, self)` in the base, …) -/
theorem ctor_fields_current : PV.Generated.c03CtorFields = [
    ("BitwiseAnd", ["children"]), ("BitwiseNot", ["child"]), ("BitwiseOr", ["children"]),
    ("BitwiseXor", ["children"]), ("FloorDiv", ["numerator", "denominator"]),
    ("LeftShift", ["shiftee", "shift"]), ("Power", ["base", "exponent"]),
    ("Product", ["children"]), ("Quotient", ["numerator", "denominator"]),
    ("Remainder", ["numerator", "denominator"]), ("RightShift", ["shiftee", "shift"]),
    ("Sum", ["children"])] := rfl

open PV.Generated in
/-- soundness stated directly on the regenerated table: under the side condition, the tree the
CURRENT SOURCE builds (as read into `c03Table`) refines the plain value -/
theorem table_sound_current (o : PyBinOp) (a b t : Expr) (va vb v : Value)
    (h : opByTable c03Table o a b = .ok t) (ha : den env a = .ok va) (hb : den env b = .ok vb)
    (hv : o.onValues va vb = .ok v) (hside : sideCond o a b va vb v = true) :
    ∃ w, den env t = .ok w ∧ Refines w v :=
  bin_sound (by rw [ops_eq_table_current]; exact h) ha hb hv hside

open PV.Generated in
/-- `program_sound` for programs run on the regenerated table -/
theorem program_sound_current (env : Env) (p : OpProg) (t : Expr) (v : Value)
    (hb : p.c03BuildByTable c03Table = .ok t) (hp : OpProg.plain env p = .ok v)
    (hs : OpProg.sideOK env p = true) (hte : OpProg.treeExact env p = true)
    (hv : (v.num?.isSome || v.isInexact) = true) :
    ∃ w, den env t = .ok w ∧ w.pyEq v = true :=
  program_sound env p t v (by rw [build_eq_table_current]; exact hb) hp hs hte hv

/-! the interpreter really runs the regenerated bodies: shortcuts, reflected operands, guards -/
section
open PV.Generated
/-- `x + 0 ↦ x` -/
example : opByTable c03Table .add (.var "x") (.const (.int 0)) = .ok (.var "x") := rfl
/-- `0 * x ↦ 0` -/
example : opByTable c03Table .mul (.const (.int 0)) (.var "x") = .ok (.const (.int 0)) := rfl
/-- `x // 1 ↦ x`, `x ** 0 ↦ 1` -/
example : opByTable c03Table .floordiv (.var "x") (.const (.int 1)) = .ok (.var "x") := rfl
example : opByTable c03Table .pow (.var "x") (.const (.int 0)) = .ok (.const (.int 1)) := rfl
/-- reflected operands keep their order: `2 // x`, `2 % x`, `2 << x` -/
example : opByTable c03Table .floordiv (.const (.int 2)) (.var "x")
    = .ok (.bin .floordiv (.const (.int 2)) (.var "x")) := rfl
example : opByTable c03Table .mod (.const (.int 2)) (.var "x")
    = .ok (.bin .rem (.const (.int 2)) (.var "x")) := rfl
example : opByTable c03Table .lshift (.const (.int 2)) (.var "x")
    = .ok (.bin .lshift (.const (.int 2)) (.var "x")) := rfl
/-- `x - y` goes through `__sub__ → __neg__ → __rmul__ → __add__` -/
example : opByTable c03Table .sub (.var "x") (.var "y")
    = .ok (.nary .sum [.var "x", .nary .prod [.const (.int (-1)), .var "y"]]) := rfl
/-- flattening in `Sum.__add__` / `Product.__mul__` -/
example : opByTable c03Table .add (.nary .sum [.var "x", .var "y"]) (.nary .sum [.var "z"])
    = .ok (.nary .sum [.var "x", .var "y", .var "z"]) := rfl
/-- `x + True` is refused (`is_arithmetic_expression`), `True + x` trips the `assert` -/
example : opByTable c03Table .add (.var "x") (.const (.bool true)) = .error .typeError := rfl
example : opByTable c03Table .add (.const (.bool true)) (.var "x") = .error .assertion := rfl
/-- `x / 1 ↦ x` and `2 / x` through `quotient` -/
example : opByTable c03Table .truediv (.var "x") (.const (.int 1)) = .ok (.var "x") := rfl
example : opByTable c03Table .truediv (.const (.int 2)) (.var "x")
    = .ok (.bin .quot (.const (.int 2)) (.var "x")) := rfl
/-- `Product((x, 0))` is falsy by the regenerated `Product.__bool__`: `y + x*0`-style folds -/
example : c03Truthy c03Preds.truth (.nary .prod [.var "x", .const (.int 0)]) = false := rfl
example : opByTable c03Table .add (.var "y") (.nary .prod [.var "x", .const (.int 0)])
    = .ok (.var "y") := rfl
example : unByTable c03Table .neg (.var "x")
    = .ok (.nary .prod [.const (.int (-1)), .var "x"]) := rfl
example : c03Flatten c03Preds c03FlatProduct [.var "x", .const (.int 1), .nary .prod [.var "y", .var "z"]]
    = .nary .prod [.var "x", .var "y", .var "z"] := rfl
/-- a non-trivial instance of `table_sound_current`: `x // 1` at the int `x = 0` -/
example : ∃ (a b t : Expr) (va vb v : Value),
    opByTable c03Table .floordiv a b = .ok t ∧ den envZero a = .ok va ∧ den envZero b = .ok vb ∧
    PyBinOp.onValues .floordiv va vb = .ok v ∧ sideCond .floordiv a b va vb v = true :=
  ⟨.var "x", .const (.int 1), .var "x", .int 0, .int 1, .int 0, rfl, rfl, rfl, rfl, by decide⟩
/-- `program_sound_current` applies to the demo program of section 4 -/
example : demoProg.c03BuildByTable c03Table =
    .ok (.nary .sum [.var "x", .nary .prod [.const (.int (-1)), .const (.int (-1)), .var "x"]]) := by
  rw [← build_eq_table_current]; rfl
end


end PV.C03
