import PV.Model.Ops
import PV.Model.Eval
