import PV.Properties.C02Table
import PV.Model.EvalProc
/-
  C02 — the meaning of an expression is a function of the expression and the environment ONLY:
  process histories (many evaluator objects, different environments), variables of any name,
  common subexpressions of any scope.
-/
namespace PV.C02
open PV

variable {U : Expr → Prop}

/-- every long-lived instance `k` (built around the environment `envOf k`) has sound caches -/
def ProcInv (U : Expr → Prop) (envOf : Nat → Env) (ps : ProcState) : Prop :=
  ∀ k s, (k, s) ∈ ps → EvInv (envOf k) U s

theorem procInv_empty (envOf : Nat → Env) : ProcInv U envOf [] := by
  intro k s h; simp at h

theorem stateOf_inv {envOf : Nat → Env} :
    ∀ (ps : ProcState), ProcInv U envOf ps → ∀ k, EvInv (envOf k) U (ProcState.stateOf ps k)
  | [], _, _ => evInv_empty
  | (k', s) :: rest, h, k => by
      simp only [ProcState.stateOf]
      by_cases hk : k' = k
      · simp only [hk, if_true]
        exact h k s (by simp [hk])
      · simp only [hk, if_false]
        exact stateOf_inv rest (fun k s hm => h k s (by simp [hm])) k

/-- **Process histories.**  Whatever was evaluated before in the same process — by fresh objects
(`evaluate`, `evaluate_kw`, a new mapper) in any environments, or on long-lived instances that each
keep their own environment — every evaluation, plain or memoizing, returns the standard meaning of
ITS expression in ITS environment (value or error). -/
theorem process_history_eq_den (hU : Universe U) (envOf : Nat → Env) :
    ∀ (steps : List ProcStep) (ps : ProcState),
      (∀ st ∈ steps, U st.e) →
      (∀ st ∈ steps, ∀ k, st.inst = some k → st.env = envOf k) →
      ProcInv U envOf ps →
      runProc steps ps = steps.map fun st => den st.env st.e
  | [], _, _, _, _ => by simp [runProc, runProcWith]
  | st :: rest, ps, hUs, henv, hps => by
      have hrest := fun ps' hps' => process_history_eq_den hU envOf rest ps'
        (fun t ht => hUs t (by simp [ht])) (fun t ht => henv t (by simp [ht])) hps'
      simp only [runProc] at hrest ⊢
      cases hi : st.inst with
      | none =>
        obtain ⟨s', h1, _⟩ := evalG_eq_den (env := st.env) hU st.cached st.e (hUs st (by simp)) {}
          evInv_empty
        simp only [runProcWith, hi, h1, List.map_cons]
        rw [hrest ps hps]
      | some k =>
        have hek : st.env = envOf k := henv st (by simp) k hi
        obtain ⟨s', h1, i1⟩ := evalG_eq_den (env := st.env) hU st.cached st.e (hUs st (by simp))
          (ProcState.stateOf ps k) (by rw [hek]; exact stateOf_inv ps hps k)
        simp only [runProcWith, hi, h1, List.map_cons]
        rw [hrest ((k, s') :: ps) (by
          intro k2 s2 hm
          simp only [List.mem_cons, Prod.mk.injEq] at hm
          rcases hm with ⟨rfl, rfl⟩ | hm
          · rw [← hek]; exact i1
          · exact hps k2 s2 hm)]

/-- model = table, run, over process histories -/
theorem runProc_eq_table_current (steps : List ProcStep) (ps : ProcState) :
    runProc steps ps = c02RunProcT tableCurrent steps ps := by
  have h : evalG = c02EvalGT tableCurrent := by
    funext c env e; exact evalG_eq_table_current c env e
  simp only [runProc, c02RunProcT, h]

/-- the evaluator described by the CURRENT SOURCE, over any process history -/
theorem process_history_table_eq_den_current (hU : Universe U) (envOf : Nat → Env)
    (steps : List ProcStep) (ps : ProcState) (hUs : ∀ st ∈ steps, U st.e)
    (henv : ∀ st ∈ steps, ∀ k, st.inst = some k → st.env = envOf k) (hps : ProcInv U envOf ps) :
    c02RunProcT tableCurrent steps ps = steps.map fun st => den st.env st.e := by
  rw [← runProc_eq_table_current]
  exact process_history_eq_den hU envOf steps ps hUs henv hps

/-- A missing variable — of ANY name — is reported as the unknown-variable error naming it, by the
plain and the memoizing evaluator, from any (sound) evaluator state. -/
theorem missing_var_reported (hU : Universe U) {env : Env} (cached : Bool) (x : String)
    (hx : env.get x = none) (hv : U (.var x)) (s : EvState) (hs : EvInv env U s) :
    (evalG cached env (.var x) s).1 = .error (.unknownVar x) := by
  obtain ⟨s', h1, _⟩ := evalG_eq_den hU cached (.var x) hv s hs
  rw [h1]; exact unknown_var_named x hx

/-- … and a name the caller binds means the caller's value. -/
theorem bound_var_value (hU : Universe U) {env : Env} (cached : Bool) (x : String) (v : Value)
    (hx : env.get x = some v) (hv : U (.var x)) (s : EvState) (hs : EvInv env U s) :
    (evalG cached env (.var x) s).1 = .ok v := by
  obtain ⟨s', h1, _⟩ := evalG_eq_den hU cached (.var x) hv s hs
  rw [h1]; simp [den, hx]; rfl

/-- A common subexpression of ANY scope and prefix means its child, through the evaluator as
coded, from any (sound) evaluator state. -/
theorem cse_any_scope_means_child (hU : Universe U) {env : Env} (cached : Bool) (c : Expr)
    (p : Option String) (sc : String) (hc : U (.cse c p sc)) (s : EvState) (hs : EvInv env U s) :
    (evalG cached env (.cse c p sc) s).1 = den env c := by
  obtain ⟨s', h1, _⟩ := evalG_eq_den hU cached (.cse c p sc) hc s hs
  rw [h1]; exact cse_means_child c p sc

/-- Non-vacuity: the same "global"-scope common subexpression evaluated by three objects in three
environments (one of them a long-lived memoizing instance used twice, one environment lacking the
variable) gives the meaning in each step's own environment. -/
example :
    let cse := Expr.cse (.nary .sum [.var "x", .const (.int 1)]) none "pymbolic_global"
    runProc [⟨none, true, [("x", .int 2)], cse⟩, ⟨some 0, true, [("x", .int 5)], cse⟩,
             ⟨none, false, [("x", .int 7)], cse⟩, ⟨some 0, true, [("x", .int 5)], cse⟩,
             ⟨none, true, [("math", .int 0)], cse⟩] []
      = [.ok (.int 3), .ok (.int 6), .ok (.int 8), .ok (.int 6), .error (.unknownVar "x")] := by
  rfl

end PV.C02
