import PV.Proofs.RewriteTableEntry
import PV.Generated.Rewrite
import PV.Properties.C11
/-
  C11, T-gen — the rewriting mappers against the table regenerated from the source.

  `extract/rewrite.py` re-reads, on every run, the LIVE source of `FlattenMapper`,
  `ConstantFoldingMapperBase.{fold,is_constant,evaluate,map_sum}`,
  `CommutativeConstantFoldingMapperBase.map_product`, the two folder classes (MRO, the CSE mix-in,
  `map_common_subexpression_uncached = IdentityMapper.map_common_subexpression`),
  `TermCollector.{__init__,get_dependencies,split_term,map_sum}`,
  `DistributeMapper.{__init__,collect,map_sum,map_product (with the nested dist),map_quotient,
  map_power}`, `flatten`, `distribute` (with its defaults) and which functions `pymbolic.flatten`,
  `pymbolic.expand`, `pymbolic.distribute` are, and writes them STATEMENT BY STATEMENT in the
  table language of PV/Model/RewriteTable.lean into PV/Generated/Rewrite.lean.

  Here: (1) `*_table_current` — the regenerated table is, literally, the table the proofs of
  PV/Proofs/RewriteTable*.lean were made for (`rfl`; any edit of the source that changes a
  statement, an operand order, a branch, a default or an alias changes the generated text and
  breaks these); (2) `*_eq_table_current` — for ALL inputs (every expression, every fuel, every
  parameter set / configuration) the hand-written models `flattenM`, `foldM`, `collectM`,
  `splitTerm`, `distLoop`, `distM` ARE the table interpreter run on the regenerated table, the
  inherited handlers going through the regenerated C04 rows of `IdentityMapper`; (3) the property
  theorems of C11.lean restated about the table-driven functions, i.e. about what the current
  source says.  Witnesses (`*_table_cex`): tables read from edited sources, interpreted, differ from
  the model on concrete inputs — the interpreter is sensitive to exactly the edits named there.
-/
namespace PV.C11
open PV
open PV.Generated (c04Classes c04IdentityTable)
universe u

/-! ### (1) the regenerated table is the one the proofs were made for -/

/-- `FlattenMapper` -/
theorem flatten_table_current : PV.Generated.c11Class_flatten = PV.C11Expected.c11Class_flatten := rfl

/-- `ConstantFoldingMapperBase.fold / is_constant / evaluate / map_sum` and the class
`ConstantFoldingMapper` (MRO, CSE mix-in, `_uncached` alias) -/
theorem plain_folder_table_current :
    PV.Generated.c11Class_plainFolder = PV.C11Expected.c11Class_plainFolder := rfl

/-- … and `CommutativeConstantFoldingMapper` with `map_product` -/
theorem comm_folder_table_current :
    PV.Generated.c11Class_commFolder = PV.C11Expected.c11Class_commFolder := rfl

/-- `TermCollector.__init__ / get_dependencies / split_term / map_sum` -/
theorem collector_table_current :
    PV.Generated.c11Class_collector = PV.C11Expected.c11Class_collector := rfl

/-- `DistributeMapper.__init__ / collect / map_sum / map_product (dist) / map_quotient / map_power` -/
theorem distributor_table_current :
    PV.Generated.c11Class_distributor = PV.C11Expected.c11Class_distributor := rfl

/-- `flatten`, `distribute` with the defaults `parameters=None`, `commutative=True`, and
`pymbolic.flatten` / `pymbolic.expand` / `pymbolic.distribute` being these functions -/
theorem entry_table_current :
    PV.Generated.c11Table.entries = PV.C11Expected.c11Table.entries ∧
    PV.Generated.c11Table.aliases = PV.C11Expected.c11Table.aliases := ⟨rfl, rfl⟩

/-- the whole table -/
theorem rewrite_table_current : PV.Generated.c11Table = PV.C11Expected.c11Table := rfl

/-- every mapper class dispatches with `Mapper.__call__` (no own `rec` / `__call__`) -/
theorem rec_is_dispatch_current :
    PV.Generated.c11Table.flatten.recIsDispatch = true ∧
    PV.Generated.c11Table.plainFolder.recIsDispatch = true ∧
    PV.Generated.c11Table.commFolder.recIsDispatch = true ∧
    PV.Generated.c11Table.collector.recIsDispatch = true ∧
    PV.Generated.c11Table.distributor.recIsDispatch = true := ⟨rfl, rfl, rfl, rfl, rfl⟩

/-! ### (2) the hand-written models ARE the table interpreter on the regenerated table -/

/-- **Inherited handlers.**  A handler none of the classes overrides is the regenerated C04 row of
`IdentityMapper` (read by `extract/traversal.py`), and that row, run with any `self.rec`, is
`idMap`: children in source order, constructor arguments in source order, the zero-collapse of
`map_common_subexpression`. -/
theorem inherited_eq_table_current (rec : Expr → RwR) (e : Expr) (n : String)
    (h : c11Dispatch c04Classes c04IdentityTable e = .ok n) :
    c11IdentRow c04IdentityTable n rec e = idMap rec e :=
  c11_inherited rec e n h

/-- **`FlattenMapper` / `pymbolic.flatten`**: for every expression and fuel. -/
theorem flatten_eq_table_current (fuel : Nat) (e : Expr) :
    c11RunPublic c04Classes c04IdentityTable PV.Generated.c11Table "flatten" [.expr e] fuel
      = flattenM fuel e ∧
    c11RunClass c04Classes c04IdentityTable PV.Generated.c11Table .flattenMapper [] e fuel
      = flattenM fuel e := by
  rw [rewrite_table_current]
  exact ⟨c11RunPublic_flatten e fuel, c11RunClass_flatten e fuel⟩

/-- **`ConstantFoldingMapper()(e)` / `CommutativeConstantFoldingMapper()(e)`** -/
theorem fold_eq_table_current (comm : Bool) (fuel : Nat) (e : Expr) :
    c11RunClass c04Classes c04IdentityTable PV.Generated.c11Table
      (if comm then .commFolder else .plainFolder) [] e fuel = foldM comm fuel e := by
  rw [rewrite_table_current]; exact c11RunClass_folder comm e fuel

/-- **`ConstantFoldingMapperBase.fold`** on its own: the `while queue:` loop (pop from the front,
children of a nested node of the folded class pushed to the FRONT, `is_constant` then `evaluate`,
`None` = not evaluable), `reduce(op, constants)` and `constructor((constant, *nonconstants))` — for
any `self.rec`, both operand classes. -/
theorem fold_loop_eq_table_current (ctx : C11Ctx) (h : C11FoldCtx ctx) (fuel : Nat) (isProd : Bool)
    (o : NaryOp) (cs : List Expr) :
    c11ToRw (c11RunFn ctx fuel PV.Generated.c11_ConstantFoldingMapperBase_fold
      [.expr (.nary o cs), c11FoldKlass isProd, .glob (c11FoldOp isProd), .glob (c11FoldCtor isProd)])
    = (do let (consts, non) ← foldLoop ctx.recur isProd fuel cs [] []
          foldFinish isProd consts non) :=
  c11_fold ctx h fuel isProd o cs

/-- **`TermCollector(parameters)(e)`** for every parameter set. -/
theorem collect_eq_table_current (params : List Expr) (fuel : Nat) (e : Expr) :
    c11RunClass c04Classes c04IdentityTable PV.Generated.c11Table .termCollector
      [.set (params.map .expr)] e fuel = collectM params fuel e := by
  rw [rewrite_table_current]; exact c11RunClass_collector params e fuel

/-- **`TermCollector.split_term`** on its own, for any `self.rec`: `base` / `exponent`, the
`isinstance` chain, `base2exp[mybase] += myexp` (the exponent of a repeated factor is ADDED), the
coefficient test `get_dependencies(term) <= self.parameters`, the frozenset of pairs. -/
theorem split_term_eq_table_current (ctx : C11Ctx) (params : List Expr) (h : C11CollCtx ctx params)
    (fuel : Nat) (t : Expr) :
    c11RunFn ctx fuel PV.Generated.c11_TermCollector_split_term [.expr t] =
      c11SplitResult (splitTerm ctx.recur params t) :=
  c11_split_term ctx params h fuel t

/-- **the nested function `dist` of `DistributeMapper.map_product`** is `distLoop`, for any
`self.collect`: `flattened_product(leading)` multiplies from the LEFT onto `dist(sumchild*rest)`. -/
theorem dist_eq_table_current (ctx : C11Ctx) (collect : Expr → RwR)
    (h : ∀ e, ctx.callSelf "collect" [.expr e] = c11LiftE (collect e)) (fuel : Nat) (p : Expr) :
    c11CallLocal ctx PV.Generated.c11_DistributeMapper_map_product.defs fuel "dist" [.expr p] =
      c11LiftE (distLoop collect fuel p) :=
  c11_dist_call ctx collect h fuel p

/-- **`DistributeMapper.map_power`**, for any `self.rec` / `self.map_product`: a product base that
stays a product gets the exponent on every factor; otherwise only an `int` exponent `> 0` over a
base that maps to a Sum is multiplied out; everything else is `IdentityMapper.map_power`. -/
theorem map_power_eq_table_current (ctx : C11Ctx) (collect : Expr → RwR) (hc : C11DistCtx ctx collect)
    (mapProduct : Expr → RwR)
    (hmp : ∀ e, ctx.callSelf "map_product" [.expr e] = c11LiftE (mapProduct e))
    (fuel : Nat) (base ex : Expr) :
    c11ToRw (c11RunFn ctx fuel PV.Generated.c11_DistributeMapper_map_power [.expr (.bin .pow base ex)])
      = c11PowStep ctx.recur mapProduct base ex :=
  c11_dist_map_power ctx collect hc mapProduct hmp fuel base ex

/-- **`pymbolic.expand(e[, parameters[, commutative]])` / `pymbolic.distribute(…)`**, end to end:
defaults filled in from the regenerated signature, `TermCollector(parameters)` or `lambda x: x`,
`DistributeMapper.__init__` with its defaults, then the mapper — is `distM` with the configuration
the arguments stand for, for every expression and fuel. -/
theorem expand_eq_table_current (name : String) (hn : name = "expand" ∨ name = "distribute")
    (e : Expr) (parameters : Option (List Expr)) (commutative : Option Bool) (fuel : Nat) :
    c11RunPublic c04Classes c04IdentityTable PV.Generated.c11Table name
      (c11DistributeArgs e parameters commutative) fuel
      = distM (c11DistributeCfg parameters commutative) fuel e := by
  rw [rewrite_table_current]; exact c11RunPublic_distribute name hn e parameters commutative fuel

/-- the defaults of the current source: `expand(e)` is commutative with no parameters -/
theorem expand_defaults_current (e : Expr) (fuel : Nat) :
    c11RunPublic c04Classes c04IdentityTable PV.Generated.c11Table "expand" [.expr e] fuel
      = distM {} fuel e :=
  expand_eq_table_current "expand" (Or.inl rfl) e none none fuel

/-! ### (3) the property theorems, about what the current source says -/

variable {K : Type u} [Field K] [DecidableEq K]

/-- flattening (the regenerated `flatten`) preserves the value … -/
theorem flatten_value_current (ρ : String → K) (fuel : Nat) (e e' : Expr) (v : K)
    (h : c11RunPublic c04Classes c04IdentityTable PV.Generated.c11Table "flatten" [.expr e] fuel
      = .ok e') (hv : evalK ρ e = some v) : evalK ρ e' = some v := by
  rw [(flatten_eq_table_current fuel e).1] at h
  exact flatten_value ρ fuel e e' v h hv

/-- … and reaches its normal form -/
theorem flatten_nf_current (fuel : Nat) (e e' : Expr)
    (h : c11RunPublic c04Classes c04IdentityTable PV.Generated.c11Table "flatten" [.expr e] fuel
      = .ok e') : e'.flatNF = true := by
  rw [(flatten_eq_table_current fuel e).1] at h
  exact flatten_nf fuel e e' h

/-- both regenerated constant folders preserve the value … -/
theorem fold_value_current (ρ : String → K) (comm : Bool) (fuel : Nat) (e e' : Expr) (v : K)
    (h : c11RunClass c04Classes c04IdentityTable PV.Generated.c11Table
      (if comm then .commFolder else .plainFolder) [] e fuel = .ok e')
    (hv : evalK ρ e = some v) : evalK ρ e' = some v := by
  rw [fold_eq_table_current] at h
  exact fold_value ρ comm fuel e e' v h hv

/-- … and leave at most one constant operand in a folded sum -/
theorem fold_one_const_current (comm : Bool) (fuel : Nat) (cs ds : List Expr)
    (h : c11RunClass c04Classes c04IdentityTable PV.Generated.c11Table
      (if comm then .commFolder else .plainFolder) [] (.nary .sum cs) fuel = .ok (.nary .sum ds)) :
    ds.countP Expr.isConstant ≤ 1 := by
  rw [fold_eq_table_current] at h
  exact fold_one_const comm fuel cs ds h

/-- the regenerated `TermCollector` preserves the value, for every parameter set -/
theorem collect_value_current (ρ : String → K) (params : List Expr) (fuel : Nat) (e e' : Expr)
    (v : K)
    (h : c11RunClass c04Classes c04IdentityTable PV.Generated.c11Table .termCollector
      [.set (params.map .expr)] e fuel = .ok e')
    (hv : evalK ρ e = some v) : evalK ρ e' = some v := by
  rw [collect_eq_table_current] at h
  exact collect_value ρ params fuel e e' v h hv

/-- the regenerated `expand` / `distribute` preserve the value, for every argument combination -/
theorem distribute_value_current (ρ : String → K) (name : String)
    (hn : name = "expand" ∨ name = "distribute") (parameters : Option (List Expr))
    (commutative : Option Bool) (fuel : Nat) (e e' : Expr) (v : K)
    (h : c11RunPublic c04Classes c04IdentityTable PV.Generated.c11Table name
      (c11DistributeArgs e parameters commutative) fuel = .ok e')
    (hv : evalK ρ e = some v) : evalK ρ e' = some v := by
  rw [expand_eq_table_current name hn] at h
  exact distribute_value ρ _ fuel e e' v h hv

/-! ### examples: the interpreter run on the regenerated table -/

private def x : Expr := .var "x"
private def y : Expr := .var "y"
private def i (n : Int) : Expr := .const (.int n)
private def S (l : List Expr) : Expr := .nary .sum l
private def P (l : List Expr) : Expr := .nary .prod l
private def pw (a : Expr) (n : Int) : Expr := .bin .pow a (i n)

example : c11RunPublic c04Classes c04IdentityTable PV.Generated.c11Table "expand"
    [.expr (pw (S [x, i 1]) 2)] 30 = .ok (S [i 1, P [i 2, x], pw x 2]) := by
  rw [expand_defaults_current]; rfl
example : c11RunPublic c04Classes c04IdentityTable PV.Generated.c11Table "flatten"
    [.expr (S [x, S [i 0, y]])] 10 = .ok (S [x, y]) := by
  rw [(flatten_eq_table_current _ _).1]; rfl
example : c11RunClass c04Classes c04IdentityTable PV.Generated.c11Table .commFolder [] 
    (P [x, i 2, P [i 3, y]]) 10 = .ok (P [i 6, x, y]) :=
  (fold_eq_table_current true 10 _).trans rfl
example : c11RunClass c04Classes c04IdentityTable PV.Generated.c11Table .termCollector
    [.set ([].map .expr)] (S [P [i 2, x, y], P [y, x]]) 10 = .ok (P [i 3, x, y]) := by
  rw [collect_eq_table_current]; rfl

/-- the hypotheses of the method-level theorems are what the class-level runs supply: e.g. inside a
folder instance `self.is_constant` / `self.evaluate` are the two table functions … -/
example (S : C11Self) (h : C11IsFolder S.cls) (fuel : Nat) : C11FoldCtx (c11CtxOf S fuel 2) :=
  c11_folder_ctx S h fuel
/-- … inside a `TermCollector(parameters)` `self.get_dependencies` / `self.parameters` are … -/
example (S : C11Self) (h : S.cls = PV.C11Expected.c11Class_collector) (ps : List Expr)
    (hp : S.selfAttrs = [("parameters", .set (ps.map .expr))]) (fuel : Nat) :
    C11CollCtx (c11CtxOf S fuel 2) ps :=
  c11_collector_ctx S h ps hp fuel
/-- … and inside a `DistributeMapper` `IdentityMapper.map_x(self, e)` and `self.collect` are. -/
example (S : C11Self) (cfg : DistCfg) (fuel : Nat) (h : C11IsDist S cfg fuel) :
    C11DistCtx (c11CtxOf S fuel 3) (distCollect cfg fuel) :=
  c11_distributor_ctx S cfg fuel h 2
example : c11SplitResult (splitTerm (collectM [] 5) [] (P [x, y, pw x 2, i 3])) =
    .ok (.list [.set (c11B2E [(x, i 3), (y, i 1)]), .expr (i 3)]) := rfl

/-! ### witnesses: tables read from EDITED sources

Each `c11Mut_*` below is what `extract/rewrite.py` wrote for the named function after the named
one-line edit of the source (taken from the mutation runs); the rest of the table is unchanged.
Interpreted, these tables differ from the model on a concrete input — so the `*_table_current` /
`*_eq_table_current` theorems cannot survive these edits — and agree there with the edited code
(stream `table-rewrites` of the mutation runs). -/

/-- `split_term` after `base2exp[mybase] += myexp` ↦ `base2exp[mybase] = myexp` -/
def c11Mut_split_term : C11Fn :=
  { name := "split_term", definedIn := "pymbolic.mapper.collector.TermCollector.split_term",
    params := ["mul_term"], defaults := [],
    locals := ["base", "exponent", "terms", "base2exp", "term", "mybase", "myexp", "coefficients", "cleaned_base2exp", "exp"],
    defs := [
      { name := "base", params := ["term"], locals := [], recursive := false,
        body := [
          .ifThen (.call (.glob .pyIsinstance) [(.var "term"), (.glob .clsPower)]) [
            .ret (.attr (.var "term") "base")]
            [
            .ret (.var "term")]] },
      { name := "exponent", params := ["term"], locals := [], recursive := false,
        body := [
          .ifThen (.call (.glob .pyIsinstance) [(.var "term"), (.glob .clsPower)]) [
            .ret (.attr (.var "term") "exponent")]
            [
            .ret (.int 1)]] }],
    body := [
      .defFn "base",
      .defFn "exponent",
      .ifThen (.call (.glob .pyIsinstance) [(.var "mul_term"), (.glob .clsProduct)]) [
        .assign "terms" (.attr (.var "mul_term") "children")]
        [
        .ifThen (.call (.glob .pyIsinstance) [(.var "mul_term"), (.seq [(.glob .clsPower), (.glob .clsAlgebraicLeaf)])]) [
          .assign "terms" (.seq [(.var "mul_term")])]
          [
          .ifThen (.not (.call (.glob .pyBool) [(.selfCall "get_dependencies" [(.var "mul_term")])])) [
            .assign "terms" (.seq [(.var "mul_term")])]
            [
            .raise .runtimeError]]],
      .assign "base2exp" .emptyDict,
      .for ["term"] (.var "terms") [
        .assign "mybase" (.call (.var "base") [(.var "term")]),
        .assign "myexp" (.call (.var "exponent") [(.var "term")]),
        .ifThen (.cmp .isIn (.var "mybase") (.var "base2exp")) [
          .setItem "base2exp" (.var "mybase") (.var "myexp")]
          [
          .setItem "base2exp" (.var "mybase") (.var "myexp")]],
      .assign "coefficients" (.seq []),
      .assign "cleaned_base2exp" .emptyDict,
      .for ["base", "exp"] (.method (.var "base2exp") "items" []) [
        .assign "term" (.bin .pow (.var "base") (.var "exp")),
        .ifThen (.cmp .le (.selfCall "get_dependencies" [(.var "term")]) (.selfAttr "parameters")) [
          .append "coefficients" (.var "term")]
          [
          .setItem "cleaned_base2exp" (.var "base") (.var "exp")]],
      .assign "term" (.call (.glob .pyFrozenset) [(.comp (.seq [(.var "base"), (.var "exp")]) ["base", "exp"] (.method (.var "cleaned_base2exp") "items" []))]),
      .ret (.seq [(.var "term"), (.selfCall "rec" [(.call (.glob .flattenedProduct) [(.var "coefficients")])])])] }

/-- `fold` after inserting `if not constant and nonconstants: return constructor(tuple(nonconstants))` -/
def c11Mut_fold : C11Fn :=
  { name := "fold", definedIn := "pymbolic.mapper.constant_folder.ConstantFoldingMapperBase.fold",
    params := ["expr", "klass", "op", "constructor"], defaults := [],
    locals := ["constants", "nonconstants", "queue", "queue.pop(0)", "child", "value", "constant"],
    defs := [],
    body := [
      .assign "constants" (.seq []),
      .assign "nonconstants" (.seq []),
      .assign "queue" (.call (.glob .pyList) [(.attr (.var "expr") "children")]),
      .while (.var "queue") [
        .popFront "queue.pop(0)" "queue",
        .assign "child" (.selfCall "rec" [(.var "queue.pop(0)")]),
        .ifThen (.call (.glob .pyIsinstance) [(.var "child"), (.var "klass")]) [
          .assign "queue" (.bin .add (.call (.glob .pyList) [(.attr (.var "child") "children")]) (.var "queue"))]
          [
          .ifThen (.selfCall "is_constant" [(.var "child")]) [
            .assign "value" (.selfCall "evaluate" [(.var "child")]),
            .ifThen (.cmp .is (.var "value") .pyNone) [
              .append "nonconstants" (.var "child")]
              [
              .append "constants" (.var "value")]]
            [
            .append "nonconstants" (.var "child")]]],
      .ifThen (.var "constants") [
        .assign "constant" (.call (.glob .reduce) [(.var "op"), (.var "constants")]),
        .ifThen (.and (.not (.var "constant")) (.var "nonconstants")) [
          .ret (.call (.var "constructor") [(.call (.glob .pyTuple) [(.var "nonconstants")])])]
          [],
        .ret (.call (.var "constructor") [(.seq [(.var "constant"), (.star (.var "nonconstants"))])])]
        [
        .ret (.call (.var "constructor") [(.call (.glob .pyTuple) [(.var "nonconstants")])])]] }

/-- `map_product` after `flattened_product(leading) * dist(sumchild*rest)` ↦
`dist(sumchild*rest) * flattened_product(leading)` -/
def c11Mut_map_product : C11Fn :=
  { name := "map_product", definedIn := "pymbolic.mapper.distributor.DistributeMapper.map_product",
    params := ["expr"], defaults := [],
    locals := ["dist"],
    defs := [
      { name := "dist", params := ["prod"], locals := ["leading", "i", "result", "sum", "rest"], recursive := true,
        body := [
          .ifThen (.not (.call (.glob .pyIsinstance) [(.var "prod"), (.glob .clsProduct)])) [
            .ret (.var "prod")]
            [],
          .assign "leading" (.seq []),
          .for ["i"] (.attr (.var "prod") "children") [
            .ifThen (.call (.glob .pyIsinstance) [(.var "i"), (.glob .clsSum)]) [
              .brk]
              [
              .append "leading" (.var "i")]],
          .ifThen (.cmp .eq (.call (.glob .pyLen) [(.var "leading")]) (.call (.glob .pyLen) [(.attr (.var "prod") "children")])) [
            .assign "result" (.call (.glob .flattenedProduct) [(.attr (.var "prod") "children")]),
            .ret (.var "result")]
            [
            .assign "sum" (.index (.attr (.var "prod") "children") (.call (.glob .pyLen) [(.var "leading")])),
            .assertS (.call (.glob .pyIsinstance) [(.var "sum"), (.glob .clsSum)]),
            .assign "rest" (.sliceFrom (.attr (.var "prod") "children") (.bin .add (.call (.glob .pyLen) [(.var "leading")]) (.int 1))),
            .ifThen (.var "rest") [
              .assign "rest" (.call (.var "dist") [(.call (.glob .clsProduct) [(.var "rest")])])]
              [
              .assign "rest" (.int 1)],
            .assign "result" (.selfCall "collect" [(.call (.glob .flattenedSum) [(.comp (.bin .mul (.call (.var "dist") [(.bin .mul (.var "sumchild") (.var "rest"))]) (.call (.glob .flattenedProduct) [(.var "leading")])) ["sumchild"] (.attr (.var "sum") "children"))])]),
            .ret (.var "result")]] }],
    body := [
      .defFn "dist",
      .ret (.call (.var "dist") [(.superCall .identityMapper "map_product" [(.var "expr")])])] }

/-- `distribute` after `commutative=True` ↦ `commutative=False` -/
def c11Mut_distribute : C11Fn :=
  { name := "distribute", definedIn := "pymbolic.mapper.distributor.distribute",
    params := ["expr", "parameters", "commutative"], defaults := [("parameters", .pyNone), ("commutative", (.pyBool false))],
    locals := [],
    defs := [],
    body := [
      .ifThen (.cmp .is (.var "parameters") .pyNone) [
        .assign "parameters" (.call (.glob .pyFrozenset) [])]
        [],
      .ifThen (.var "commutative") [
        .ret (.call (.call (.glob .distributeMapper) [(.call (.glob .termCollector) [(.var "parameters")])]) [(.var "expr")])]
        [
        .ret (.call (.call (.glob .distributeMapper) [.lambdaId]) [(.var "expr")])]] }

/-- replace the function behind one attribute of a class -/
def c11MutClass (C : C11Class) (name : String) (fn : C11Fn) : C11Class :=
  { C with methods := C.methods.map fun m => if m.name == name then { m with h := .own fn } else m }

/-- **split_term forgetting an exponent**: `TermCollector()(x*x)` of the edited table is `x`,
of the model `x**2`. -/
theorem split_term_forgets_exponent_table_cex :
    c11RunClass c04Classes c04IdentityTable
      { PV.C11Expected.c11Table with
        collector := c11MutClass PV.C11Expected.c11Class_collector "split_term" c11Mut_split_term }
      .termCollector [.set []] (S [P [x, x]]) 20 = .ok x ∧
    collectM [] 20 (S [P [x, x]]) = .ok (pw x 2) := ⟨by decide, rfl⟩

/-- **the folder dropping a falsy constant of a product**: `0*x` folds to `x` with the edited
table, to `0` in the model. -/
theorem fold_drops_falsy_constant_table_cex :
    c11RunClass c04Classes c04IdentityTable
      { PV.C11Expected.c11Table with
        commFolder := c11MutClass PV.C11Expected.c11Class_commFolder "fold" c11Mut_fold }
      .commFolder [] (P [i 0, x]) 20 = .ok x ∧
    foldM true 20 (P [i 0, x]) = .ok (i 0) := ⟨by decide, rfl⟩

/-- **`dist` multiplying on the wrong side**: `distribute(x*(y+1), commutative=False)` of the edited
table ends in `y*x`, of the model in `x*y`. -/
theorem dist_wrong_side_table_cex :
    c11RunPublic c04Classes c04IdentityTable
      { PV.C11Expected.c11Table with
        distributor := c11MutClass PV.C11Expected.c11Class_distributor "map_product"
          c11Mut_map_product }
      "distribute" [.expr (P [x, S [y, i 1]]), .none, .bool false] 20 = .ok (S [x, P [y, x]]) ∧
    distM { collector := none } 20 (P [x, S [y, i 1]]) = .ok (S [x, P [x, y]]) := ⟨by decide, rfl⟩

/-- **a changed default of `expand`**: with `commutative=False` as the default `expand(x + x)`
stays `x + x`; the model (and the current source) collect it to `2*x`. -/
theorem expand_default_table_cex :
    c11RunPublic c04Classes c04IdentityTable
      { PV.C11Expected.c11Table with entries := [PV.C11Expected.c11_entry_flatten, c11Mut_distribute] }
      "expand" [.expr (S [x, x])] 20 = .ok (S [x, x]) ∧
    distM {} 20 (S [x, x]) = .ok (P [i 2, x]) := ⟨by decide, rfl⟩

end PV.C11
