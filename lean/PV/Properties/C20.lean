import PV.Proofs.ImpFuse
import PV.Proofs.ImpReads
import PV.Proofs.ImpGen
import PV.Proofs.ImpGraph
import Mathlib.Data.List.Forall2
import Mathlib.Data.List.Nodup
/-
  C20 — property theorems: statement-stream utilities keep programs well-formed.

  Model: `PV/Model/Imperative.lean` (mirrors pymbolic/imperative/{statement,transform,analysis,
  utils}.py).  The name generator is a parameter `G : NameGen σ` with the contract `G.Fresh`
  (a generated name is not among the used ones, and is used from then on); `pyGen`, the mirror of
  pytools' `UniqueNameGenerator`, meets it (`pyGen_meets_contract`).
-/
namespace PV.C20
open PV PV.Imp

/-! ### (a) fusion of statement ids -/

section fuse
variable {σ : Type} {G : NameGen σ}

/-- the mirrored `UniqueNameGenerator` satisfies the freshness contract the theorems assume -/
theorem pyGen_meets_contract : pyGen.Fresh := pyGen_fresh

/-- **Ids stay distinct.**  If the ids of the first stream are pairwise distinct, so are the ids
of the fused stream — for every second stream whatsoever (its ids may clash with the first stream
and with each other) and every generator meeting the contract. -/
theorem fuse_ids_distinct (hG : G.Fresh) {A B out : List Stmt} {m : List (String × String)}
    (hA : (A.map (·.id)).Nodup) (h : fuseG G A B = .ok (out, m)) : (out.map (·.id)).Nodup := by
  obtain ⟨bs', rfl, hnd, hdisj, -⟩ := fuse_spec hG h
  rw [List.map_append, List.nodup_append]
  refine ⟨hA, hnd, ?_⟩
  intro a ha b hb hab
  subst hab
  exact hdisj a hb ha

/-- **Closed under repeated fusion**: fusing any number of further streams into an already fused
stream keeps the ids distinct (only the very first stream needs distinct ids). -/
theorem fuse_repeated_ids_distinct (hG : G.Fresh) :
    ∀ (rest : List (List Stmt)) (A out : List Stmt), (A.map (·.id)).Nodup →
      fuseAllG G A rest = .ok out → (out.map (·.id)).Nodup
  | [], A, out, hA, h => by
    simp only [fuseAllG, pure, Except.pure, Except.ok.injEq] at h
    exact h ▸ hA
  | S :: rest, A, out, hA, h => by
    simp only [fuseAllG] at h
    obtain ⟨r, hr, h⟩ := except_bind_ok h
    exact fuse_repeated_ids_distinct hG rest r.1 out (fuse_ids_distinct hG hA (m := r.2) hr) h

/-- **Prefix.**  The fused stream is the first stream, unchanged, followed by one statement per
statement of the second stream, of the same kind (same left-hand side, right-hand side and
condition). -/
theorem fuse_prefix (hG : G.Fresh) {A B out : List Stmt} {m : List (String × String)}
    (h : fuseG G A B = .ok (out, m)) :
    ∃ bs', out = A ++ bs' ∧ bs'.length = B.length ∧
      ∀ i (h₁ : i < B.length) (h₂ : i < bs'.length), bs'[i].kind = B[i].kind := by
  obtain ⟨bs', rfl, -, -, -, -, hf⟩ := fuse_spec hG h
  refine ⟨bs', rfl, hf.length_eq.symm, ?_⟩
  intro i h₁ h₂
  exact ((List.forall₂_iff_get.1 hf).2 i h₁ h₂).1

/-- **Renaming by the returned mapping.**  With distinct ids in the second stream, the i-th
appended statement carries the id the returned mapping assigns to the id of the i-th statement of
the second stream; the mapping is defined exactly on the ids of the second stream and is
injective on them. -/
theorem fuse_renames (hG : G.Fresh) {A B out : List Stmt} {m : List (String × String)}
    (hB : (B.map (·.id)).Nodup) (h : fuseG G A B = .ok (out, m)) :
    (∀ i (h₁ : i < B.length) (h₂ : A.length + i < out.length),
        m.lookup B[i].id = some out[A.length + i].id) ∧
    (∀ k, (m.lookup k).isSome ↔ k ∈ B.map (·.id)) ∧
    (∀ k k' v, m.lookup k = some v → m.lookup k' = some v → k = k') := by
  obtain ⟨bs', rfl, hnd, -, hout, hin, hf⟩ := fuse_spec hG h
  have hget := (List.forall₂_iff_get.1 hf).2
  have hlen := hf.length_eq
  have hkey : ∀ k, (m.lookup k).isSome ↔ k ∈ B.map (·.id) := by
    intro k
    constructor
    · intro hk
      by_contra hc
      rw [hout k hc] at hk
      cases hk
    · intro hk
      obtain ⟨v, -, hv⟩ := hin k hk
      simp [hv]
  refine ⟨?_, hkey, ?_⟩
  · intro i h₁ h₂
    have h₂' : i < bs'.length := hlen ▸ h₁
    have := (hget i h₁ h₂').2.1 hB
    simp only [List.get_eq_getElem] at this
    rw [this, List.getElem_append_right (by omega)]
    simp
  · intro k k' v hk hk'
    have hkB := (hkey k).1 (by simp [hk])
    have hk'B := (hkey k').1 (by simp [hk'])
    obtain ⟨i, hi, rfl⟩ := List.getElem_of_mem hkB
    obtain ⟨j, hj, rfl⟩ := List.getElem_of_mem hk'B
    simp only [List.length_map] at hi hj
    have hi' : i < bs'.length := hlen ▸ hi
    have hj' : j < bs'.length := hlen ▸ hj
    have e1 := (hget i hi hi').2.1 hB
    have e2 := (hget j hj hj').2.1 hB
    simp only [List.get_eq_getElem, List.getElem_map] at e1 e2 hk hk'
    rw [e1] at hk
    rw [e2] at hk'
    have hid : bs'[i].id = bs'[j].id := by
      rw [← hk'] at hk
      exact Option.some.inj hk
    have hij : i = j := by
      have hnd' := List.nodup_iff_injective_getElem.1 hnd
      have := @hnd' ⟨i, by simpa using hi'⟩ ⟨j, by simpa using hj'⟩ (by simpa using hid)
      exact Fin.mk.inj this
    subst hij
    rfl

/-- **Dependencies are remapped to the same original statement.**  With distinct ids in the second
stream: the renamed i-th statement depends on the renamed j-th statement exactly when the original
i-th statement depended on the original j-th statement; every dependency of a renamed statement is
the renamed id of some statement of the second stream; and the dependency set has no duplicates. -/
theorem fuse_deps_remapped (hG : G.Fresh) {A B out : List Stmt} {m : List (String × String)}
    (hB : (B.map (·.id)).Nodup) (h : fuseG G A B = .ok (out, m)) :
    ∀ i (h₁ : i < B.length) (h₂ : A.length + i < out.length),
      (∀ j (h₃ : j < B.length) (h₄ : A.length + j < out.length),
        out[A.length + j].id ∈ out[A.length + i].dependsOn ↔ B[j].id ∈ B[i].dependsOn) ∧
      (∀ x ∈ out[A.length + i].dependsOn, ∃ j, ∃ (h₃ : j < B.length) (h₄ : A.length + j < out.length),
        x = out[A.length + j].id ∧ B[j].id ∈ B[i].dependsOn) ∧
      out[A.length + i].dependsOn.Nodup := by
  obtain ⟨hren, hkey, hinj⟩ := fuse_renames hG hB h
  obtain ⟨bs', rfl, -, -, -, -, hf⟩ := fuse_spec hG h
  have hget := (List.forall₂_iff_get.1 hf).2
  have hlen := hf.length_eq
  intro i h₁ h₂
  have hi' : i < bs'.length := hlen ▸ h₁
  have hout : ∀ k (hk : A.length + k < (A ++ bs').length) (hk' : k < bs'.length),
      (A ++ bs')[A.length + k] = bs'[k] := by
    intro k hk hk'
    rw [List.getElem_append_right (by omega)]
    simp
  obtain ⟨-, -, hnd, hdep⟩ := hget i h₁ hi'
  simp only [List.get_eq_getElem] at hdep hnd
  rw [hout i h₂ hi']
  have hback : ∀ x ∈ bs'[i].dependsOn, ∃ j, ∃ (h₃ : j < B.length)
      (h₄ : A.length + j < (A ++ bs').length),
      x = (A ++ bs')[A.length + j].id ∧ B[j].id ∈ B[i].dependsOn := by
    intro x hx
    obtain ⟨d, hd, hl⟩ := (hdep x).1 hx
    have hdB := (hkey d).1 (by simp [hl])
    obtain ⟨j, hj, rfl⟩ := List.getElem_of_mem hdB
    simp only [List.length_map] at hj
    have hj4 : A.length + j < (A ++ bs').length := by simp; omega
    refine ⟨j, hj, hj4, ?_, by simpa using hd⟩
    have := hren j hj hj4
    simp only [List.getElem_map] at hl
    rw [this] at hl
    cases hl
    rfl
  refine ⟨?_, hback, hnd⟩
  intro j h₃ h₄
  have hj' : j < bs'.length := hlen ▸ h₃
  constructor
  · intro hx
    obtain ⟨j', h₃', h₄', hid, hmem⟩ := hback _ hx
    have e1 := hren j h₃ h₄
    have e2 := hren j' h₃' h₄'
    rw [← hid] at e2
    have := hinj _ _ _ e1 e2
    rw [this]
    exact hmem
  · intro hx
    rw [hdep]
    refine ⟨B[j].id, hx, ?_⟩
    rw [hren j h₃ h₄]

/-- **The only way fusion fails** (apart from the generator giving up): a statement of the second
stream depends on an id that is not the id of a statement of the second stream — Python raises
`KeyError` there. -/
theorem fuse_error_is_keyError (hG : G.Fresh) {A B : List Stmt} {e : ImpErr}
    (h : fuseG G A B = .error e) :
    e = .noName ∨ (e = .keyError ∧ ∃ b ∈ B, ∃ d ∈ b.dependsOn, d ∉ B.map (·.id)) := by
  unfold fuseG at h
  split at h
  · cases h
    exact Or.inl rfl
  · rename_i bs m₁ s' hren
    right
    obtain ⟨h1, -, -, -, -, h5', -⟩ := renameIds_spec hG B _ [] bs m₁ s' hren
    cases hre : remapAll m₁ bs with
    | ok r =>
      rw [hre] at h
      cases h
    | error e' =>
      obtain ⟨he, b', hb', d, hd, hnone⟩ := remapAll_error m₁ bs e' hre
      rw [hre] at h
      cases h
      refine ⟨he, ?_⟩
      have : ∃ b ∈ B, b.dependsOn = b'.dependsOn := by
        clear hren h5' hre
        induction h1 with
        | nil => cases hb'
        | cons hab _ ih =>
          rcases List.mem_cons.1 hb' with rfl | hb'
          · exact ⟨_, List.mem_cons_self .., hab.2.symm⟩
          · obtain ⟨b, hb, hbd⟩ := ih hb'
            exact ⟨b, List.mem_cons_of_mem _ hb, hbd⟩
      obtain ⟨b, hb, hbd⟩ := this
      refine ⟨b, hb, d, hbd ▸ hd, ?_⟩
      intro hdB
      obtain ⟨v, -, hv⟩ := h5' d hdB
      rw [hv] at hnone
      cases hnone

end fuse

/-! with the mirrored pytools generator: fusion fails only with `KeyError`, exactly when the second
stream has a dependency that names none of its statements -/

/-- the mirrored `UniqueNameGenerator` always produces a name (pigeonhole over `name_0 … name_n`) -/
theorem pyGen_never_gives_up (g : GenState) (b : String) : ∃ n g', g.call b = some (n, g') :=
  pyGen_total g b

/-- **Fusion succeeds** whenever every dependency of the second stream names a statement of the
second stream. -/
theorem fuse_succeeds {A B : List Stmt}
    (hdeps : ∀ b ∈ B, ∀ d ∈ b.dependsOn, d ∈ B.map (·.id)) : ∃ out m, fuse A B = .ok (out, m) := by
  cases h : fuse A B with
  | ok r => exact ⟨r.1, r.2, rfl⟩
  | error e =>
    exfalso
    rcases fuse_error_is_keyError pyGen_fresh h with rfl | ⟨-, b, hb, d, hd, hnot⟩
    · unfold fuse fuseG at h
      obtain ⟨r, hr⟩ := renameIds_pyGen_some B (pyGen.init (A.map (·.id))) []
      rw [hr] at h
      simp only at h
      cases hre : remapAll r.2.1 r.1 with
      | ok bs' => rw [hre] at h; cases h
      | error e' =>
        obtain ⟨he, -⟩ := remapAll_error _ _ _ hre
        rw [hre] at h
        cases h
        cases he
    · exact hnot (hdeps b hb d hd)

/-- … and otherwise it raises `KeyError` (never anything else). -/
theorem fuse_raises_only_keyError {A B : List Stmt} {e : ImpErr} (h : fuse A B = .error e) :
    e = .keyError ∧ ∃ b ∈ B, ∃ d ∈ b.dependsOn, d ∉ B.map (·.id) := by
  rcases fuse_error_is_keyError pyGen_fresh h with rfl | h'
  · exfalso
    unfold fuse fuseG at h
    obtain ⟨r, hr⟩ := renameIds_pyGen_some B (pyGen.init (A.map (·.id))) []
    rw [hr] at h
    simp only at h
    cases hre : remapAll r.2.1 r.1 with
    | ok bs' => rw [hre] at h; cases h
    | error e' =>
      obtain ⟨he, -⟩ := remapAll_error _ _ _ hre
      rw [hre] at h
      cases h
      cases he
  · exact h'

/-! non-vacuity: the run from the property's anchor — ids `s1`, `n` clash and are renamed, the
dependency of the renamed `s1` on `n` follows the renaming -/
def demoA : List Stmt :=
  [⟨"s1", [], .assign (.subscript (.var "a") (.var "x")) (.var "y") none⟩, ⟨"n", ["s1"], .nop⟩]
def demoB : List Stmt :=
  [⟨"s1", ["n"], .assign (.var "b") (.var "x") (some (.var "c"))⟩, ⟨"n", ["s1"], .nop⟩]

/-- ids, dependencies and the returned mapping of a fusion result -/
def summary (r : Except ImpErr (List Stmt × List (String × String))) :
    Option (List (String × List String) × List (String × String)) :=
  match r with
  | .ok (out, m) => some (out.map (fun s => (s.id, s.dependsOn)), m)
  | .error _ => none

example : summary (fuse demoA demoB) =
    some ([("s1", []), ("n", ["s1"]), ("s1_0", ["n_0"]), ("n_0", ["s1_0"])],
      [("s1", "s1_0"), ("n", "n_0")]) := by decide +kernel
example : (match fuse demoA [⟨"k", ["zz"], .nop⟩] with | .error .keyError => true | _ => false)
    = true := by decide +kernel
/-- repeated fusion: the same second stream fused in twice, then the first stream once more -/
example : (match fuseAllG pyGen demoA [demoB, demoB, demoA] with
      | .ok out => out.map (·.id) | .error _ => []) =
    ["s1", "n", "s1_0", "n_0", "s1_1", "n_1", "s1_2", "n_2"] := by decide +kernel
example : (demoA.map (·.id)).Nodup ∧ (demoB.map (·.id)).Nodup := by decide
example : ∃ out m, fuse demoA demoB = .ok (out, m) :=
  fuse_succeeds (by decide)


/-! ### (b) read and written variable sets against the independent scan

`scanVars e` (PV/Proofs/ImpReads.lean) lists the variables of `e` by plain structural recursion
(the function position of a call is not a variable).  `k.specReads` scans right-hand side,
condition and the index of a subscripted left-hand side; `k.specWritten` is the assigned variable
(or the aggregate of the assigned subscript). -/

/-- **Written set = scan**, for every left-hand side the property quantifies over (a variable or a
subscripted variable; a `Nop` writes nothing). -/
theorem written_scan {k : Kind} (h : k.LhsOk) : k.written = .ok k.specWritten := written_ok h

/-- … and `get_written_variables` succeeds for no other left-hand side (`TypeError`,
`AssertionError`). -/
theorem written_ok_only_lhsOk {k : Kind} {w : List String} (h : k.written = .ok w) :
    k.LhsOk ∧ w = k.specWritten := written_spec h

/-- **Reported reads are real reads**: everything `get_read_variables` reports is found by the
scan (it is a variable of the right-hand side or of the condition); no name is reported twice. -/
theorem reads_sound {k : Kind} {ns : List String} (h : k.reads = .ok ns) :
    ns.Nodup ∧ ∀ x ∈ ns, x ∈ k.specReads :=
  ⟨(reads_spec h).1, fun x hx => codedReads_sub_spec ((reads_spec h).2 x |>.1 hx)⟩

/-- **Read set = scan**, provided no variable occurs ONLY in the index of the left-hand side
(hypothesis `LhsCovered`; always true for assignments to plain variables). -/
theorem reads_scan_partial {k : Kind} {ns : List String} (hc : k.LhsCovered)
    (h : k.reads = .ok ns) : ∀ x, x ∈ ns ↔ x ∈ k.specReads :=
  fun x => ⟨fun hx => (reads_sound h).2 x hx,
    fun hx => ((reads_spec h).2 x).2 (specReads_sub_coded hc hx)⟩

/-- the hypothesis of `reads_scan_partial` is exactly what is needed: the reported read set equals
the scanned one if and only if every variable of the left-hand-side index also occurs in the
right-hand side or the condition -/
theorem reads_scan_iff_covered {k : Kind} {ns : List String} (h : k.reads = .ok ns) :
    (∀ x, x ∈ ns ↔ x ∈ k.specReads) ↔ k.LhsCovered := by
  constructor
  · intro hall
    cases k with
    | nop => trivial
    | assign l r c =>
      intro x hx
      have : x ∈ (Kind.assign l r c).specReads := by
        simp only [Kind.specReads, List.mem_append]
        exact Or.inr hx
      exact ((reads_spec h).2 x).1 ((hall x).2 this)
  · exact fun hc => reads_scan_partial hc h

/-- plain-variable targets are always covered: for `x <- rhs [if cond]` the read set is exact -/
theorem reads_scan_var_target {n : String} {r : Expr} {c : Option Expr} {ns : List String}
    (h : (Kind.assign (.var n) r c).reads = .ok ns) :
    ∀ x, x ∈ ns ↔ x ∈ scanVars r ++ condVars c := by
  intro x
  rw [reads_scan_partial (k := .assign (.var n) r c) (by intro y hy; cases hy) h x]
  simp [Kind.specReads, lhsIndexVars]

/-- the statement `a[x] <- y + 1` of the finding -/
def cexStmt : Kind :=
  .assign (.subscript (.var "a") (.var "x")) (.nary .sum [.var "y", .const (.int 1)]) none

/-- **KNOWN FINDING `assignment-reads-ignore-lhs`**: `a[x] <- y + 1` reports the reads `{y}`;
the scan of its left-hand side finds `x` as well. -/
theorem reads_scan_cex :
    cexStmt.reads = .ok ["y"] ∧ "x" ∈ cexStmt.specReads ∧
      ¬ (∀ x, x ∈ ["y"] ↔ x ∈ cexStmt.specReads) := by
  refine ⟨by decide +kernel, by decide +kernel, ?_⟩
  intro h
  have := (h "x").2 (by decide +kernel)
  simp at this

example : cexStmt.written = .ok ["a"] := by decide +kernel
example : cexStmt.LhsOk := trivial
/-- conditions are scanned: `a <- y if x < 1` reads `y` and `x` -/
example : (Kind.assign (.var "a") (.var "y")
    (some (.cmp .lt (.var "x") (.const (.int 1))))).reads = .ok ["y", "x"] := by decide +kernel

/-! ### (c) disambiguation of identifiers

`visibleIdents ss` are the identifiers the code collects (variables of right-hand sides and
conditions, written names); `specIdents ss` are those of the independent scan (in addition the
variables of left-hand-side indices).  The set-iteration order of Python (`order`) is arbitrary. -/

section disamb
variable {σ : Type} {G : NameGen σ}

/-- **Exactly the visible clashes are renamed**: the keys of the returned substitution are the
identifiers the code sees in both streams and that pass the filter — each once. -/
theorem disambiguate_exact (hG : G.Fresh) {filter : String → Bool} {order : List String}
    {A B B' : List Stmt} {m : List (String × String)}
    (h : disambiguateG G filter order A B = .ok (B', m)) :
    (m.map (·.1)).Nodup ∧
    ∀ x, x ∈ m.map (·.1) ↔ (x ∈ visibleIdents A ∧ x ∈ visibleIdents B ∧ filter x = true) := by
  obtain ⟨idA, idB, hA, hB, hperm, hun, -⟩ := disambiguate_unfold h
  obtain ⟨hkeys, -, -⟩ := unclash_spec hG _ _ _ hun
  rw [hkeys]
  constructor
  · refine hperm.nodup_iff.2 (List.Nodup.filter _ ?_)
    exact List.Nodup.filter _ (usedIdentifiers_spec hA).1
  · intro x
    rw [hperm.mem_iff, List.mem_filter, mem_interS, usedIdentifiers_visible hA,
      usedIdentifiers_visible hB, and_assoc]

/-- **Fresh names**: the new names are pairwise distinct and none of them is an identifier the
code sees in either stream. -/
theorem disambiguate_fresh (hG : G.Fresh) {filter : String → Bool} {order : List String}
    {A B B' : List Stmt} {m : List (String × String)}
    (h : disambiguateG G filter order A B = .ok (B', m)) :
    (m.map (·.2)).Nodup ∧ ∀ n ∈ m.map (·.2), n ∉ visibleIdents A ∧ n ∉ visibleIdents B := by
  obtain ⟨idA, idB, hA, hB, -, hun, -⟩ := disambiguate_unfold h
  obtain ⟨-, hnd, hfresh⟩ := unclash_spec hG _ _ _ hun
  refine ⟨hnd, fun n hn => ?_⟩
  have := hfresh n hn
  rw [hG.init_used, mem_unionS, usedIdentifiers_visible hA, usedIdentifiers_visible hB] at this
  exact ⟨fun h => this (Or.inl h), fun h => this (Or.inr h)⟩

/-- **Consistent renaming**: every statement of the second stream comes back with the same id and
dependencies and with ONE renaming `ρ = renamingFn m` applied to every variable of its left-hand
side, right-hand side and condition (`renameVars`, plain structural renaming). -/
theorem disambiguate_consistent {filter : String → Bool} {order : List String}
    {A B B' : List Stmt} {m : List (String × String)}
    (hz : ∀ s ∈ B, KindNoCseZero s.kind)
    (h : disambiguateG G filter order A B = .ok (B', m)) :
    B' = B.map (Stmt.mapExprs (renameVars (renamingFn m))) := by
  obtain ⟨idA, idB, -, -, -, -, rfl⟩ := disambiguate_unfold h
  apply List.map_congr_left
  intro s hs
  have := hz s hs
  unfold Stmt.mapExprs
  cases hk : s.kind with
  | nop => rfl
  | assign l r c =>
    rw [hk] at this
    obtain ⟨h1, h2, h3⟩ := this
    simp only [Kind.mapExprs, substM_rename m l h1, substM_rename m r h2]
    cases c with
    | none => rfl
    | some e => simp [substM_rename m e (h3 e rfl)]

/-- **Afterwards no visible identifier that passes the filter is shared**: what the code sees of
the first stream and of the renamed second stream is disjoint on the filter. -/
theorem disambiguate_disjoint (hG : G.Fresh) {filter : String → Bool} {order : List String}
    {A B B' : List Stmt} {m : List (String × String)}
    (hz : ∀ s ∈ B, KindNoCseZero s.kind)
    (h : disambiguateG G filter order A B = .ok (B', m)) :
    ∀ x ∈ visibleIdents A, filter x = true → x ∉ visibleIdents B' := by
  intro x hxA hf hxB
  rw [disambiguate_consistent hz h] at hxB
  obtain ⟨y, hy, rfl⟩ := mem_visible_rename hxB
  rcases renamingFn_cases m y with ⟨-, hv⟩ | ⟨hk, he⟩
  · exact ((disambiguate_fresh hG h).2 _ hv).1 hxA
  · rw [he] at hxA hf
    exact hk (((disambiguate_exact hG h).2 y).2 ⟨hxA, hy, hf⟩)

/-- **Exactly the clashing identifiers are renamed** (the property's wording, identifiers by the
independent scan) — when no identifier of either stream hides in a left-hand-side index. -/
theorem disambiguate_exact_partial (hG : G.Fresh) {filter : String → Bool} {order : List String}
    {A B B' : List Stmt} {m : List (String × String)} (hA : AllCovered A) (hB : AllCovered B)
    (h : disambiguateG G filter order A B = .ok (B', m)) :
    ∀ x, x ∈ m.map (·.1) ↔ (x ∈ specIdents A ∧ x ∈ specIdents B ∧ filter x = true) := by
  intro x
  rw [(disambiguate_exact hG h).2 x, visible_iff_spec hA, visible_iff_spec hB]

/-- **Fresh names and no shared identifier afterwards** (identifiers by the independent scan),
under the same hypothesis. -/
theorem disambiguate_disjoint_partial (hG : G.Fresh) {filter : String → Bool} {order : List String}
    {A B B' : List Stmt} {m : List (String × String)} (hA : AllCovered A) (hB : AllCovered B)
    (hz : ∀ s ∈ B, KindNoCseZero s.kind)
    (h : disambiguateG G filter order A B = .ok (B', m)) :
    (∀ n ∈ m.map (·.2), n ∉ specIdents A ∧ n ∉ specIdents B) ∧
    ∀ x ∈ specIdents A, filter x = true → x ∉ specIdents B' := by
  have hfresh : ∀ n ∈ m.map (·.2), n ∉ specIdents A ∧ n ∉ specIdents B := by
    intro n hn
    have := (disambiguate_fresh hG h).2 n hn
    rwa [visible_iff_spec hA, visible_iff_spec hB] at this
  refine ⟨hfresh, ?_⟩
  intro x hxA hf hxB
  rw [disambiguate_consistent hz h] at hxB
  obtain ⟨y, hy, rfl⟩ := mem_spec_rename hxB
  rcases renamingFn_cases m y with ⟨-, hv⟩ | ⟨hk, he⟩
  · exact (hfresh _ hv).1 hxA
  · rw [he] at hxA hf
    exact hk ((disambiguate_exact_partial hG hA hB h y).2 ⟨hxA, hy, hf⟩)

/-- `disambiguate_and_fuse` is disambiguation followed by fusion of the first stream with the
renamed second stream: all theorems of (a) and (c) apply to its result. -/
theorem disambiguate_and_fuse_composes {filter : String → Bool} {order : List String}
    {A B fused : List Stmt} {sub m : List (String × String)}
    (h : disambiguateAndFuseG G filter order A B = .ok (fused, sub, m)) :
    ∃ B', disambiguateG G filter order A B = .ok (B', sub) ∧ fuseG G A B' = .ok (fused, m) := by
  unfold disambiguateAndFuseG at h
  obtain ⟨⟨B', sub'⟩, h1, h⟩ := except_bind_ok h
  obtain ⟨⟨fused', m'⟩, h2, h⟩ := except_bind_ok h
  simp only [pure, Except.pure, Except.ok.injEq, Prod.mk.injEq] at h
  obtain ⟨rfl, rfl, rfl⟩ := h
  exact ⟨B', h1, h2⟩

end disamb

/-- renaming returned by a disambiguation run (`none` if it raised) -/
def renamingOf (r : Except ImpErr (List Stmt × List (String × String))) :
    Option (List (String × String)) :=
  match r with
  | .ok (_, m) => some m
  | .error _ => none

def cexA : List Stmt := [⟨"i", [], .assign (.subscript (.var "a") (.var "x")) (.const (.int 1)) none⟩]
def cexB : List Stmt := [⟨"j", [], .assign (.var "b") (.var "x") none⟩]

/-- **KNOWN FINDING `disambiguate-misses-lhs-only-identifier`**: `[a[x] <- 1]` and `[b <- x]` share
`x`, the filter accepts everything, and nothing is renamed. -/
theorem disambiguate_exact_cex :
    renamingOf (disambiguate (fun _ => true) [] cexA cexB) = some [] ∧
      "x" ∈ specIdents cexA ∧ "x" ∈ specIdents cexB ∧ ¬ AllCovered cexA := by
  refine ⟨by decide +kernel, by decide +kernel, by decide +kernel, ?_⟩
  intro h
  have := h _ (List.mem_cons_self ..) "x" (by decide +kernel)
  revert this
  decide +kernel

def cexA' : List Stmt := [⟨"i", [], .assign (.subscript (.var "a") (.var "x_0")) (.var "x") none⟩]

/-- **KNOWN FINDING `disambiguate-fresh-name-hits-lhs-only-identifier`**: with `[a[x_0] <- x]` and
`[b <- x]` the clash `x` is renamed to `x_0`, a name the first stream uses. -/
theorem disambiguate_fresh_cex :
    renamingOf (disambiguate (fun _ => true) ["x"] cexA' cexB) = some [("x", "x_0")] ∧
      "x_0" ∈ specIdents cexA' := by
  refine ⟨by decide +kernel, by decide +kernel⟩

/-- non-vacuity of the positive theorems: `[a <- x + y]`, `[x <- y; y_0 <- x]` with a filter that
protects `y`: only `x` is renamed, consistently -/
example :
    renamingOf (disambiguate (fun n => n != "y") ["x"]
      [⟨"i", [], .assign (.var "a") (.nary .sum [.var "x", .var "y"]) none⟩]
      [⟨"j", [], .assign (.var "x") (.var "y") none⟩, ⟨"k", ["j"], .assign (.var "y_0") (.var "x") none⟩])
    = some [("x", "x_0")] := by decide +kernel


/-! ### (d) the dependency-graph export

`DependsOn ss a b`: some statement with id `a` lists `b` in its `depends_on`.  `Reach` is its
transitive closure.  `dotEdges ss` are the `a -> b` lines of the dot text. -/

def DependsOn (ss : List Stmt) (a b : String) : Prop := ∃ s ∈ ss, s.id = a ∧ b ∈ s.dependsOn

def Reach (ss : List Stmt) : String → String → Prop := Relation.TransGen (DependsOn ss)

/-- an edge of the transitive reduction: `b` is reachable from `a` and nothing lies strictly
between them -/
def IsReductionEdge (ss : List Stmt) (a b : String) : Prop :=
  Reach ss a b ∧ ¬ ∃ m, Reach ss a m ∧ Reach ss m b

/-- **The fixed-point loop computes the transitive closure** of the dependency relation (whatever
the graph: cycles, dangling ids, repeated ids). -/
theorem closure_is_transitive_closure {ss : List Stmt} {fuel : Nat} {c : Graph}
    (h : closure fuel (buildGraph ss) = some c) : ∀ a b, b ∈ c.get a ↔ Reach ss a b := by
  intro a b
  rw [closure_transGen h a b]
  exact transGen_congr (fun a b => (buildGraph_spec ss).2 a b) a b

/-- the loop reaches its fixed point within the fuel the model supplies: the export never fails -/
theorem dot_export_total (ss : List Stmt) : ∃ es, dotEdges ss = .ok es := by
  unfold dotEdges
  obtain ⟨c, hc⟩ := closure_fuelFor (buildGraph_spec ss).1
  simp only [hc]
  exact ⟨_, rfl⟩

/-- **The export draws exactly the transitive reduction** of an acyclic dependency relation: an
edge `a -> b` is drawn iff `b` is reachable from `a` with nothing strictly between; no edge is
drawn twice. -/
theorem reduction_is_transitive_reduction {ss : List Stmt} {es : List (String × String)}
    (hac : ∀ a, ¬ Reach ss a a) (h : dotEdges ss = .ok es) :
    es.Nodup ∧ ∀ a b, (a, b) ∈ es ↔ IsReductionEdge ss a b := by
  obtain ⟨c, hc, rfl⟩ := dotEdges_unfold h
  have hcl := closure_is_transitive_closure hc
  obtain ⟨hkeys, hwf, -, -, -⟩ := closure_spec (buildGraph ss) _ _ _ hc
  have hwfc := hwf (buildGraph_spec ss).1
  have htrans : ∀ a b d, b ∈ c.get a → d ∈ c.get b → d ∈ c.get a := by
    intro a b d h1 h2
    rw [hcl] at h1 h2 ⊢
    exact h1.trans h2
  have hirr : ∀ a, a ∉ c.get a := fun a ha => hac a ((hcl a a).1 ha)
  obtain ⟨hk, hget⟩ := reduce_spec htrans hirr hwfc.1
  refine ⟨edges_nodup (reduce_WF hwfc), fun a b => ?_⟩
  rw [mem_edges (hk ▸ hwfc.1), hget]
  unfold Cover IsReductionEdge
  rw [hcl]
  constructor
  · rintro ⟨h1, h2⟩
    exact ⟨h1, fun ⟨m, hm1, hm2⟩ => h2 ⟨m, (hcl _ _).2 hm1, (hcl _ _).2 hm2⟩⟩
  · rintro ⟨h1, h2⟩
    exact ⟨h1, fun ⟨m, hm1, hm2⟩ => h2 ⟨m, (hcl _ _).1 hm1, (hcl _ _).1 hm2⟩⟩

/-- the drawn edges reach exactly what the dependency relation reaches … -/
theorem reduction_preserves_reachability {ss : List Stmt} {es : List (String × String)}
    (hac : ∀ a, ¬ Reach ss a a) (h : dotEdges ss = .ok es) :
    ∀ a b, Relation.TransGen (fun a b => (a, b) ∈ es) a b ↔ Reach ss a b := by
  have hred := (reduction_is_transitive_reduction hac h).2
  obtain ⟨c, hc, rfl⟩ := dotEdges_unfold h
  have hcl := closure_is_transitive_closure hc
  have htrans : ∀ a b d, b ∈ c.get a → d ∈ c.get b → d ∈ c.get a := by
    intro a b d h1 h2
    rw [hcl] at h1 h2 ⊢
    exact h1.trans h2
  have hirr : ∀ a, a ∉ c.get a := fun a ha => hac a ((hcl a a).1 ha)
  intro a b
  constructor
  · intro hp
    induction hp with
    | single hab => exact ((hred _ _).1 hab).1
    | tail _ hbc ih => exact Relation.TransGen.trans ih ((hred _ _).1 hbc).1
  · intro hp
    have := cover_transGen htrans hirr b a ((hcl a b).2 hp)
    refine (transGen_congr (fun a b => ?_) a b).1 this
    rw [hred]
    unfold Cover IsReductionEdge
    rw [hcl]
    constructor
    · rintro ⟨h1, h2⟩
      exact ⟨h1, fun ⟨m, hm1, hm2⟩ => h2 ⟨m, (hcl _ _).2 hm1, (hcl _ _).2 hm2⟩⟩
    · rintro ⟨h1, h2⟩
      exact ⟨h1, fun ⟨m, hm1, hm2⟩ => h2 ⟨m, (hcl _ _).1 hm1, (hcl _ _).1 hm2⟩⟩

/-- … and they are the LEAST such set of edges: every relation inside reachability that still
reaches everything contains every drawn edge.  Together: the unique transitive reduction. -/
theorem reduction_is_least {ss : List Stmt} {es : List (String × String)}
    (hac : ∀ a, ¬ Reach ss a a) (h : dotEdges ss = .ok es) (R' : String → String → Prop)
    (hsub : ∀ a b, R' a b → Reach ss a b)
    (hreach : ∀ a b, Reach ss a b → Relation.TransGen R' a b) :
    ∀ a b, (a, b) ∈ es → R' a b := by
  intro a b hab
  obtain ⟨h1, h2⟩ := ((reduction_is_transitive_reduction hac h).2 a b).1 hab
  cases hreach a b h1 with
  | single h' => exact h'
  | tail hp h' =>
    refine absurd ⟨_, ?_, hsub _ _ h'⟩ h2
    clear h2 hab h1 h'
    induction hp with
    | single h'' => exact hsub _ _ h''
    | tail _ h'' ih => exact Relation.TransGen.trans ih (hsub _ _ h'')

/-- non-vacuity: `a` depends on `b` and `c`, `b` on `c`: the edge `a -> c` is not drawn -/
def demoDag : List Stmt := [⟨"a", ["b", "c"], .nop⟩, ⟨"b", ["c"], .nop⟩, ⟨"c", [], .nop⟩]
example : dotEdges demoDag = .ok [("a", "b"), ("b", "c")] := by decide +kernel
example : ∀ a, ¬ Reach [⟨"a", ["b"], .nop⟩] a a := by
  intro a h
  have hstep : ∀ x y, DependsOn [⟨"a", ["b"], .nop⟩] x y → x = "a" ∧ y = "b" := by
    rintro x y ⟨s, hs, rfl, hy⟩
    simp only [List.mem_singleton] at hs
    subst hs
    simpa using hy
  have hreach : ∀ x y, Reach [⟨"a", ["b"], .nop⟩] x y → x = "a" ∧ y = "b" := by
    intro x y hp
    induction hp with
    | single h => exact hstep _ _ h
    | tail _ h ih =>
      have := hstep _ _ h
      rw [ih.2] at this
      exact absurd this.1 (by decide)
  have := hreach a a h
  rw [this.1] at this
  exact absurd this.2 (by decide)

end PV.C20
