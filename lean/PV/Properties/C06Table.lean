import PV.Proofs.StrTableSteps
import PV.Proofs.SyntaxBEq
import PV.Generated.Prec
/-
  C06 (shared by C13, C14) — T-gen tie of the printer model to the source.

  `PV.Generated.c06tTable` is rewritten on every run by `extract/stringifier.py` from the source
  text of `StringifyMapper` in the working tree: for every node class the handler the dispatch
  reaches, and for every handler its body in the handler language of PV/Model/StrTable.lean (format
  templates and separators, the attribute printed by every recursion, the precedence constant
  passed to it, `rec` vs `rec_with_force_parens_around`, the class tuple under
  `force_parens_around`, the own precedence handed to `parenthesize_if_needed`, the sign test of
  `map_constant`, the tuple test of `map_subscript`, the one-element comma of `map_tuple`, the loop
  of `map_slice`, …), the helper parameters, the default precedence of `__call__`.

  `c06tStr T` RUNS a table: it knows no handler, only the language.  `strE_eq_table_current` proves
  that the hand-written printer model `strE` (PV/Model/Stringify.lean) — the one the driver
  executes, the theorems of PV/Properties/C06.lean (round trip), C07, C13 (`strG`, the compile
  printer, is `strE` up to its two overrides) and the lexer proofs are about — IS the interpreter
  applied to the regenerated table, for all expressions, all enclosing precedences and all
  precedence tables `S`.  An edit of a handler that changes its table entry (`PREC_SHIFT + 1` ↦
  `PREC_SHIFT` for a shift operand, a power base printed at `PREC_POWER`, comparison operands at
  `PREC_COMPARISON`, a class dropped from `force_parens_around`, the one-element tuple comma
  dropped, another separator, …) makes the lemma of that entry (PV/Proofs/StrTable.lean) and the
  corresponding case below fail to check.

  `import PV.Properties.C06Table` is light (no Mathlib, none of the C06 round-trip proofs): C13 and
  C14 can state their own corollaries on top of it.
-/
namespace PV.C06
open PV PV.C06T PV.Syntax

mutual
/-- **The hand-written printer is the regenerated table, run.**  For every node (every
constructor, every operator), every enclosing precedence and every precedence table `S`: the
printer model `strE` equals the table interpreter on the table of the current tree (with the
model's limits `lim = true`: no claim about `Substitution` / `Derivative`).  Case analysis on the
constructor; in each case the left-hand side is computed from the table entry alone (dispatch:
class ↦ handler; handler ↦ body; body run on the node's attributes), so templates, separators,
child precedences, own precedence, forced classes and evaluation order are all read from the
table. -/
theorem strE_eq_table_current (S : PrintPrec) :
    ∀ e, c06tStr tableCurrent true S e = strE S e
  | .const (.int n) => by
      funext enc
      by_cases h : n < 0 <;> c06t_run
  | .const (.bool b) => by funext enc; c06t_run
  | .const (.flt r n d) => by funext enc; exact const_flt_step S r n d enc
  | .const (.str s) => by funext enc; c06t_run
  | .const .none => by funext enc; c06t_run
  | .var x => by
      funext enc
      c06t_run
  | .nary .sum cs => by
      funext enc
      have ih0 := kids_eq_table_current S cs
      c06t_run
  | .nary .prod cs => by
      funext enc
      have ih0 := kids_eq_table_current S cs
      c06t_run
  | .nary .bor cs => by
      funext enc
      have ih0 := kids_eq_table_current S cs
      c06t_run
  | .nary .bxor cs => by
      funext enc
      have ih0 := kids_eq_table_current S cs
      c06t_run
  | .nary .band cs => by
      funext enc
      have ih0 := kids_eq_table_current S cs
      c06t_run
  | .nary .lor cs => by
      funext enc
      have ih0 := kids_eq_table_current S cs
      c06t_run
  | .nary .land cs => by
      funext enc
      have ih0 := kids_eq_table_current S cs
      c06t_run
  | .nary .min cs => by
      funext enc
      have ih0 := kids_eq_table_current S cs
      c06t_run
  | .nary .max cs => by
      funext enc
      have ih0 := kids_eq_table_current S cs
      c06t_run
  | .bin .quot a b => by
      funext enc
      have ih0 := strE_eq_table_current S a
      have ih1 := strE_eq_table_current S b
      c06t_run
  | .bin .floordiv a b => by
      funext enc
      have ih0 := strE_eq_table_current S a
      have ih1 := strE_eq_table_current S b
      c06t_run
  | .bin .rem a b => by
      funext enc
      have ih0 := strE_eq_table_current S a
      have ih1 := strE_eq_table_current S b
      c06t_run
  | .bin .pow a b => by
      funext enc
      have ih0 := strE_eq_table_current S a
      have ih1 := strE_eq_table_current S b
      c06t_run
  | .bin .lshift a b => by
      funext enc
      have ih0 := strE_eq_table_current S a
      have ih1 := strE_eq_table_current S b
      c06t_run
  | .bin .rshift a b => by
      funext enc
      have ih0 := strE_eq_table_current S a
      have ih1 := strE_eq_table_current S b
      c06t_run
  | .un .bnot a => by
      funext enc
      have ih0 := strE_eq_table_current S a
      c06t_run
  | .un .lnot a => by
      funext enc
      have ih0 := strE_eq_table_current S a
      c06t_run
  | .cmp o a b => by
      funext enc
      have ih0 := strE_eq_table_current S a
      have ih1 := strE_eq_table_current S b
      c06t_run
  | .ite c t e => by
      funext enc
      have ih0 := strE_eq_table_current S c
      have ih1 := strE_eq_table_current S t
      have ih2 := strE_eq_table_current S e
      c06t_run
  | .call f as => by
      funext enc
      have ih0 := strE_eq_table_current S f
      have ih1 := kids_eq_table_current S as
      c06t_run
  | .callKw f as ns vs => by
      funext enc
      have ih0 := strE_eq_table_current S f
      have ih1 := kids_eq_table_current S as
      have ih2 := kids_eq_table_current S vs
      c06t_run
  | .subscript a (.tuple cs) => by
      funext enc
      have ih0 := strE_eq_table_current S a
      have ih1 := kids_eq_table_current S cs
      c06t_run
  | .subscript a i => by
      funext enc
      have ih0 := strE_eq_table_current S a
      have ih1 := strE_eq_table_current S i
      cases i with
      | tuple cs => have ih2 := kids_eq_table_current S cs; c06t_run
      | _ => exact subscript_nt_step S a _ (by intro cs h; cases h) ih0 ih1 enc
  | .lookup a n => by
      funext enc
      have ih0 := strE_eq_table_current S a
      c06t_run
  | .cse c p s => by
      funext enc
      have ih0 := strE_eq_table_current S c
      c06t_run
  | .subst c vs xs => by
      funext enc
      c06t_run
  | .deriv c vs => by
      funext enc
      c06t_run
  | .slice cs => by
      funext enc
      have ih0 := kids_eq_table_current S cs
      c06t_run
  | .nan => by
      funext enc
      c06t_run
  | .wildcard => by
      funext enc
      c06t_run
  | .dotWild n => by
      funext enc
      c06t_run
  | .starWild n => by
      funext enc
      c06t_run
  | .funcSym => by
      funext enc
      c06t_run
  | .tuple cs => by
      funext enc
      have ih0 := kids_eq_table_current S cs
      by_cases h : cs.length = 1 <;> c06t_run
  | .list cs => by
      funext enc
      have ih0 := kids_eq_table_current S cs
      c06t_run
/-- the suspended recursive calls on the elements of a tuple-valued attribute agree -/
theorem kids_eq_table_current (S : PrintPrec) :
    ∀ cs, c06tKids tableCurrent true S cs = kidsOf S cs
  | [] => by simp only [c06tKids, kidsOf]
  | c :: cs => by
      simp only [c06tKids, kidsOf, strE_eq_table_current S c, kids_eq_table_current S cs]
end

/-- the interpreter on a non-trivial tree: forced parentheses, a shift operand, a negative
constant under a power, a one-element tuple, a subscript with a tuple index and a slice -/
example :
    (c06tStrTop tableCurrent true Generated.printPrec (.nary .sum
      [.bin .quot (.var "a") (.nary .prod [.var "b", .bin .rem (.var "c") (.var "d")]),
       .bin .lshift (.var "x") (.bin .lshift (.var "y") (.const (.int 1))),
       .bin .pow (.const (.int (-2))) (.var "n"),
       .call (.var "f") [.tuple [.var "t"]],
       .subscript (.var "v") (.tuple [.var "i", .slice [.const .none, .var "j"]])])).map render
      = .ok "a / (b*(c % d)) + (x << (y << 1)) + (-2)**n + f((t,)) + v[i, :j]" := by
  decide +kernel

/-! ### corollaries: the other entry points of the model -/

/-- **`str(expr)`**: `StringifyMapper.__call__` with its default precedence (read from the
signature in the current source; `Expression.__str__` passes the same constant explicitly) is the
model's `strTop` -/
theorem strTop_eq_table_current (S : PrintPrec) (e : Expr) :
    c06tStrTop tableCurrent true S e = strTop S e := by
  simp only [c06tStrTop, strTop, ← strE_eq_table_current S e]
  rfl

example : (c06tStrTop tableCurrent true Generated.printPrec
    (.nary .prod [.var "a", .nary .sum [.var "b", .const (.int (-1))]])).map render
      = .ok "a*(b + -1)" := by decide +kernel

/-- **`map_constant`**: the sign parenthesisation of the model (`constPieces`, also used by the C
code printer) is what the current source prescribes -/
theorem constPieces_eq_table_current (S : PrintPrec) (c : Const) (enc : Nat) :
    c06tStr tableCurrent true S (.const c) enc = constPieces S c enc := by
  rw [strE_eq_table_current S (.const c)]
  simp only [strE]

example : (c06tStr tableCurrent true Generated.printPrec (.const (.int (-3))) 12).map render
    = .ok "(-3)" := by decide +kernel

/-- the list printers of the model (`join_rec` without / with the forced classes of
`map_product`, the loop of `map_slice`) are the interpreter's recursion over the child list -/
theorem strL_eq_table_current (S : PrintPrec) (cs : List Expr) (p : Nat) :
    c06tRunAll tableCurrent.helpers none (c06tKids tableCurrent true S cs) p = strL S cs p
    ∧ c06tRunAll tableCurrent.helpers (some ["Quotient", "FloorDiv", "Remainder"])
        (c06tKids tableCurrent true S cs) p = strForceL S false cs p
    ∧ c06tRunAllOpt [] (c06tKids tableCurrent true S cs) S.none = strSliceL S cs := by
  rw [kids_eq_table_current]
  exact ⟨runAll_plain _ S p cs, runAll_force_div S p cs, runAllOpt_eq S cs⟩

example : (strL Generated.printPrec [.var "a", .const (.int 1)] 0).map (·.map render)
    = .ok ["a", "1"] := by decide +kernel

/-- **`rec_with_force_parens_around`** of the current source is the model's `forceWrap`: the class
tuple of `map_product` is `isDivision`, `multiplicative_primitives` is `isMultiplicative` -/
theorem forceWrap_eq_table_current (S : PrintPrec) (c : Expr) (p : Nat) :
    c06tRecForce tableCurrent.helpers ["Quotient", "FloorDiv", "Remainder"]
        ⟨c.c06tCls, strE S c⟩ p = (do let r ← strE S c p; pure (forceWrap false c r))
    ∧ c06tRecForce tableCurrent.helpers ["Product", "Quotient", "FloorDiv", "Remainder"]
        ⟨c.c06tCls, strE S c⟩ p = (do let r ← strE S c p; pure (forceWrap true c r)) :=
  ⟨recForce_div S c p, recForce_mult S c p⟩

example : forceWrap true (.nary .prod [.var "a"]) [sy "a"] = [sy "(", sy "a", sy ")"] := by
  decide +kernel

/-! ### the handlers the model makes no claim about: `Substitution`, `Derivative` -/

/-- **The full table printer** (`lim = false`: every handler of the current source runs, the one
the `table-str` stream compares with the real printer) **is the model** on every tree without
`Substitution` / `Derivative` nodes -/
theorem table_full_eq_strE_current (S : PrintPrec) (e : Expr) (h : c06tPlain e = true) :
    c06tStr tableCurrent false S e = strE S e := by
  rw [full_eq_lim _ S e h, strE_eq_table_current]

example : c06tPlain (.nary .sum [.var "a", .cse (.var "b") none "s"]) = true := by decide +kernel

/-- the pieces of `d/dx d/dy` -/
def c06tDerivPieces (vars : List String) : Pieces :=
  joinWith [.sp] (vars.map fun v => [.tok (.ident "d"), sy "/", .tok (.ident "d"), .tok (.ident v)])

/-- **`map_derivative`** of the current source: `d/dx d/dy child`, the child at `PREC_PRODUCT`,
never parenthesised itself -/
theorem table_deriv_step_current (S : PrintPrec) (c : Expr) (vars : List String) (enc : Nat) :
    c06tStr tableCurrent false S (.deriv c vars) enc = (do
      let x ← c06tStr tableCurrent false S c S.product
      pure (c06tDerivPieces vars ++ [.sp] ++ x)) := by
  generalize hf : c06tStr tableCurrent false S c = f
  have := fillEach_deriv vars
  c06t_run
  simp [c06tDerivPieces]

example : (c06tStrTop tableCurrent false Generated.printPrec
    (.deriv (.nary .sum [.var "f", .const (.int 1)]) ["x", "y"])).map render
      = .ok "d/dx d/dy (f + 1)" := by decide +kernel

/-- **`map_substitution`** of the current source: `[child]{x=v, …}`; the values are printed (at
`PREC_NONE`) before the child -/
theorem table_subst_step_current (S : PrintPrec) (c : Expr) (vars : List String)
    (vals : List Expr) (enc : Nat) :
    c06tStr tableCurrent false S (.subst c vars vals) enc = (do
      let vs ← c06tRunAll tableCurrent.helpers none (c06tKids tableCurrent false S vals) S.none
      let x ← c06tStr tableCurrent false S c S.none
      pure (sy "[" :: x ++ [sy "]", sy "{"]
        ++ joinWith [sy ",", .sp]
            ((vars.zip vs).map fun p => (.tok (.ident p.1) : Piece) :: sy "=" :: p.2)
        ++ [sy "}"])) := by
  generalize hf : c06tStr tableCurrent false S c = f
  generalize hk : c06tKids tableCurrent false S vals = ks
  c06t_run

example : (c06tStrTop tableCurrent false Generated.printPrec
    (.subst (.nary .sum [.var "f", .const (.int 1)]) ["x", "y"]
      [.const (.int 1), .nary .prod [.var "z", .const (.int 2)]])).map render
      = .ok "[f + 1]{x=1, y=z*2}" := by decide +kernel

/-! ### decidable facts about the regenerated table -/

/-- the attribute names the IR (and `harness/sexp.py`) assumes for every node class are the
dataclass fields of the live classes, in order -/
theorem printer_ir_fields_current :
    tableCurrent.classes.map (fun c => (c.cls, c.fields)) = c06tIRFields := by decide +kernel

/-- every literal of the handler bodies and helper templates is in the printer's alphabet, and the
pieces it is read as spell it -/
theorem printer_literals_render_current :
    (tableCurrent.literals.all fun s => (c06tLit s).map render == some s) = true := by
  decide +kernel

example : (c06tLit " // ").map render = some " // " := by decide +kernel

/-- the helpers of the current source: `parenthesize(s)` = `(s)`;
`parenthesize_if_needed`: `(s)` iff `enclosing_prec > my_prec`;
`rec_with_force_parens_around`: keyword `force_parens_around`, default `()`, `(result)` -/
theorem printer_helpers_current : tableCurrent.helpers =
    { parenthesize := [.lit "(", .hole, .lit ")"], parenIfCmp := .gt,
      parenIfWrap := [.lit "(", .hole, .lit ")"], forceKw := "force_parens_around",
      forceDefault := [], forceWrap := [.lit "(", .hole, .lit ")"] } := c06t_helpers

example : C06TCmp.gt.holds 12 11 = true ∧ C06TCmp.gt.holds 11 11 = false := by decide

/-- `str(expr)` = `StringifyMapper()(expr, PREC_NONE)`; `__call__` defaults to `PREC_NONE` and
hands over to `Mapper.__call__`, which is `rec` -/
theorem printer_entry_points_current :
    tableCurrent.mapper = "StringifyMapper"
    ∧ tableCurrent.strEntry = ("StringifyMapper", ⟨"PREC_NONE", 0⟩)
    ∧ tableCurrent.callDefaultPrec = ⟨"PREC_NONE", 0⟩
    ∧ tableCurrent.recOwner = "Mapper" := by decide +kernel

/-- every node class of the IR is dispatched to a handler whose body was read (no dangling handler
name), and so are constants, tuples and lists -/
theorem printer_handlers_present_current :
    (tableCurrent.classes.all fun c => match c.handler with
      | none => false
      | some h => (tableCurrent.handlerBody h).isSome) = true
    ∧ (tableCurrent.foreign.all fun r =>
        r.1 == "numpy" || (tableCurrent.handlerBody r.2).isSome) = true := by
  refine ⟨by rfl, by rfl⟩

/-! ### Non-vacuity: the interpreter really reads the table -/

def c06tEdit (h : String) (body : C06TProg) : C06TTable :=
  { tableCurrent with
    handlers := tableCurrent.handlers.map fun e => if e.name = h then { e with body := body } else e }

/-- a table that differs from the current one only in the precedence `map_left_shift` passes to
its operands (`PREC_SHIFT` instead of `PREC_SHIFT + 1`) … -/
def tableShiftOperand : C06TTable :=
  c06tEdit "map_left_shift"
    (.ret (.parenIf (.fmt [.hole, .lit " << ", .hole]
      [.recF "shiftee" ⟨"PREC_SHIFT", 0⟩ false, .recF "shift" ⟨"PREC_SHIFT", 0⟩ false])
      ⟨"PREC_SHIFT", 0⟩))

/-- … prints `a << (b << c)` without its parentheses, the current table (and the model) with
them: the interpreter takes the operand precedence from the table, so
`strE_eq_table_current` would not check against such a source. -/
theorem shift_operand_table_cex :
    (c06tStrTop tableCurrent true Generated.printPrec
        (Expr.bin .lshift (.var "a") (.bin .lshift (.var "b") (.var "c")))).map render = .ok "a << (b << c)" ∧
    (c06tStrTop tableShiftOperand true Generated.printPrec
        (Expr.bin .lshift (.var "a") (.bin .lshift (.var "b") (.var "c")))).map render = .ok "a << b << c" ∧
    (strTop Generated.printPrec
        (Expr.bin .lshift (.var "a") (.bin .lshift (.var "b") (.var "c")))).map render = .ok "a << (b << c)" := by
  decide +kernel

/-- a table whose `map_tuple` lost the one-element comma … -/
def tableTupleComma : C06TTable :=
  c06tEdit "map_tuple"
    (.assign "el_str" (.join ", " (.recEach .self ⟨"PREC_NONE", 0⟩ false))
      (.ret (.fmt [.lit "(", .hole, .lit ")"] [.var "el_str"])))

/-- … prints the tuple `(a,)` as `(a)` -/
theorem tuple_comma_table_cex :
    (c06tStrTop tableCurrent true Generated.printPrec
        (Expr.tuple [.var "a"])).map render = .ok "(a,)" ∧
    (c06tStrTop tableTupleComma true Generated.printPrec
        (Expr.tuple [.var "a"])).map render = .ok "(a)" ∧
    (strTop Generated.printPrec
        (Expr.tuple [.var "a"])).map render = .ok "(a,)" := by
  decide +kernel

/-- a table whose `map_product` forces parentheses around `Quotient` and `FloorDiv` only … -/
def tableForceDropped : C06TTable :=
  c06tEdit "map_product"
    (.setForce ["Quotient", "FloorDiv"] ["Quotient", "FloorDiv"]
      (.ret (.parenIf (.join "*" (.recEach (.field "children") ⟨"PREC_PRODUCT", 0⟩ true))
        ⟨"PREC_PRODUCT", 0⟩)))

/-- … prints `a*(b % c)` as `a*b % c` -/
theorem force_dropped_table_cex :
    (c06tStrTop tableCurrent true Generated.printPrec
        (Expr.nary .prod [.var "a", .bin .rem (.var "b") (.var "c")])).map render = .ok "a*(b % c)" ∧
    (c06tStrTop tableForceDropped true Generated.printPrec
        (Expr.nary .prod [.var "a", .bin .rem (.var "b") (.var "c")])).map render = .ok "a*b % c" ∧
    (strTop Generated.printPrec
        (Expr.nary .prod [.var "a", .bin .rem (.var "b") (.var "c")])).map render = .ok "a*(b % c)" := by
  decide +kernel

end PV.C06
