/-
  PV/Properties/C05Collect.lean — C05, "any mapper class rewritten by the mapper optimizer returns
  exactly what its counterpart returns": the first step of `optimize_mapper`, gathering the methods
  of the class it flattens (model: `PV/Model/OptCollect.lean`).

  The flattened class must bind every method name to the body of the function that Python's
  attribute look-up resolves the name to ON THE CLASS AS WRITTEN.  In particular a name that a base
  class publishes as an alias (`map_product = map_sum` in `IdentityMapper`) stays bound to the BASE
  class's function when the user class overrides `map_sum`.

  * `flat_resolves`: the gathering loop of the model has that property for every class (any own
    definitions, any `dir` with distinct names, class-level assignments that agree with `dir`);
  * `collect_by_def_name_cex`, `collect_aliasing_cex`: two plausible short-cuts of the loop do not;
  * `collect_current`, `flattened_resolves_current`: the class bodies the LIVE `optimize_mapper()`
    emits for user classes of `harness/c05_subjects.py` (regenerated on every run by
    `extract/optcollect.py` into `PV/Generated/OptCollect.lean`) are the model's `collect` of the
    classes as written, and resolve every gathered name as Python does.
-/
import PV.Proofs.OptCollect
import PV.Generated.OptCollect

namespace PV.C05Collect
open PV.OptCollect

/-- **The flattened class resolves every gathered method name as Python resolves it on the class as
written** — for every class: any own definitions, any `dir(cls)` (names distinct), class-level
assignments that agree with it.  An alias of a base class keeps the base class's body even when the
class overrides the alias's target. -/
theorem flat_resolves {α : Type} (own : List (String × α)) (dir : List (DirRow α))
    (aliases : List (String × String)) (hd : dir.Pairwise (fun a b => a.name ≠ b.name))
    (ha : AliasesAgree dir aliases) (r : DirRow α) (hr : r ∈ dir) (ht : r.taken = true) :
    getD (flatNamespace (collect own dir) aliases) r.name = some r.body :=
  flatNamespace_keeps dir aliases _ ha (fun q hq hqt => collect_get dir own hd q hq hqt) r hr ht

/-- non-vacuity: a class that overrides `map_sum` (text 7) under a base class with
`map_product = map_sum` (text 3): products keep text 3 -/
example :
    let dir : List (DirRow Nat) := [⟨"map_product", false, 3, "map_sum"⟩, ⟨"map_sum", false, 7, "map_sum"⟩]
    getD (flatNamespace (collect [("map_sum", 7)] dir) []) "map_product" = some 3 ∧
    getD (flatNamespace (collect [("map_sum", 7)] dir) []) "map_sum" = some 7 := by
  decide +kernel

/-- … and a class that declares `map_max = map_sum` itself gets its own text for both -/
example :
    let dir : List (DirRow Nat) := [⟨"map_max", false, 7, "map_sum"⟩, ⟨"map_min", false, 4, "map_min"⟩,
                                   ⟨"map_sum", false, 7, "map_sum"⟩]
    getD (flatNamespace (collect [("map_sum", 7)] dir) [("map_max", "map_sum")]) "map_max" = some 7 := by
  decide +kernel

/-! ### two short-cuts that are not the loop -/

/-- **Re-using a definition collected under the function's `__name__` is wrong**: with the user's
`map_sum` already in `method_defs`, the base class's alias `map_product` (whose function is called
`map_sum` too) is given the user's text. -/
theorem collect_by_def_name_cex :
    ∃ (own : List (String × Nat)) (dir : List (DirRow Nat)) (r : DirRow Nat),
      r ∈ dir ∧ r.taken = true ∧ dir.Pairwise (fun a b => a.name ≠ b.name) ∧
      getD (collectByDefName own dir) r.name ≠ some r.body ∧
      getD (collect own dir) r.name = some r.body :=
  ⟨[("map_sum", 7)],
   [⟨"map_product", false, 3, "map_sum"⟩, ⟨"map_sum", false, 7, "map_sum"⟩],
   ⟨"map_product", false, 3, "map_sum"⟩, by decide +kernel, by decide +kernel, by decide +kernel, by decide +kernel,
   by decide +kernel⟩

/-- **Emitting `alias = <__name__>` assignments instead of separate definitions is wrong**: in the
flattened body the name `map_sum` is the user's override, not the base class's function the alias
pointed to. -/
theorem collect_aliasing_cex :
    ∃ (own : List (String × Nat)) (dir : List (DirRow Nat)) (r : DirRow Nat),
      r ∈ dir ∧ r.taken = true ∧ dir.Pairwise (fun a b => a.name ≠ b.name) ∧
      getD (flatNamespace (collectAliasing own dir).1 (collectAliasing own dir).2) r.name
        ≠ some r.body :=
  ⟨[("map_sum", 7)],
   [⟨"map_product", false, 3, "map_sum"⟩, ⟨"map_sum", false, 7, "map_sum"⟩],
   ⟨"map_product", false, 3, "map_sum"⟩, by decide +kernel, by decide +kernel, by decide +kernel, by decide +kernel⟩

/-! ### T-gen: what the live optimizer emits -/

open PV.Generated

/-- **The method gathering of the current source is `collect`.**  For each user class read by
`extract/optcollect.py`: the definitions of the class body that the live `optimize_mapper()` emitted
answer every name like the model's loop run on the class as written (its own definitions, `dir(cls)`
with what `getattr` resolves), the class-level assignments are carried over unchanged, `dir` lists
every name once and the assignments of the body agree with it (the hypotheses of `flat_resolves`).
A gathering loop that takes the body for a name from anywhere else than the resolved function
changes the regenerated table and breaks this theorem. -/
theorem collect_current :
    c05CollectRows.all (fun c =>
      agreeD c.flatDefs (collect c.own c.dir) && decide (c.flatAliases = c.aliases)
        && distinctNames c.dir && aliasesAgreeB c.dir c.aliases) = true := by
  decide +kernel

/-- **Every class the live optimizer rewrote binds every gathered method name to the body Python
resolves on the class as written** (base-class aliases of an overridden handler included): the
instance of `flat_resolves` on the regenerated tables, checked on what was emitted. -/
theorem flattened_resolves_current :
    c05CollectRows.all (fun c => resolvesB (flatNamespace c.flatDefs c.flatAliases) c.dir) = true := by
  decide +kernel

/-- non-vacuity: the tables hold classes that override an alias target (`map_sum` under
`map_product = map_sum`), with the alias bound to another text than the override -/
theorem collect_rows_nontrivial :
    c05CollectRows.any (fun c =>
      c.dir.any (fun r => r.name == "map_product" && r.defName == "map_sum" &&
        c.dir.any (fun q => q.name == "map_sum" && q.body != r.body))) = true := by
  decide +kernel

end PV.C05Collect
