import PV.Properties.C11Table
import PV.Proofs.RewriteHalf
/-
  C11 — two clauses that the rewriting mappers satisfy for reasons that are easy to lose in an
  "optimisation", stated on their own (model and regenerated table):

  (A) OPERATOR NODES UNDER `flatten`.  `FlattenMapper` has handlers for sums and products only;
      every other operator node (`/ // % ** << >>`) is rebuilt with the SAME operator over the
      flattened operands.  Hence the value clause "for all node types, all environments" holds at
      such a node in EVERY Python environment (values `int`, `bool`, `Fraction`, …) as soon as it
      holds for the operands: nothing is "simplified" there.  The witnesses show why nothing may
      be: `x // 1 = x`, `x % 1 = 0`, `x // -1 = -x` are identities on the integers only — at
      `x = 1/2` the two sides differ — so a rule dropping a unit divisor of `//` / `%` breaks the
      clause (such a rule cannot be added to the model without breaking `flatten_operator_den`).

  (B) THE COEFFICIENT TEST OF `TermCollector.split_term`.  A factor `base**exp` stays in the
      (frozenset) key of a monomial only if THE POWER BUILT FROM IT depends on something that is
      not a parameter.  A base whose exponents cancel to `0` builds the constant `1`, so it is
      filed with the coefficients and never separates a monomial from its like terms (`x**0*y`
      and `y` get the same key).  Deciding on the dependencies of base and exponent separately
      would keep `(x, 0)` in the key.
-/
namespace PV.C11
open PV
open PV.Generated (c04Classes c04IdentityTable)

/-! ### (A) operator nodes under `flatten` -/

/-- `FlattenMapper` on a binary operator node: flatten the operands (left, then right), rebuild
the node with the same operator — for every operator, every operand, every fuel. -/
theorem flatten_operator_node (fuel : Nat) (o : BinOp) (a b : Expr) :
    flattenM (fuel + 1) (.bin o a b) =
      (do let a' ← flattenM fuel a
          let b' ← flattenM fuel b
          pure (.bin o a' b')) := by
  simp only [flattenM, idMap]

/-- … so a result of flattening such a node IS that node over flattened operands -/
theorem flatten_operator_shape (fuel : Nat) (o : BinOp) (a b e' : Expr)
    (h : flattenM (fuel + 1) (.bin o a b) = .ok e') :
    ∃ a' b', flattenM fuel a = .ok a' ∧ flattenM fuel b = .ok b' ∧ e' = .bin o a' b' := by
  rw [flatten_operator_node] at h
  cases ha : flattenM fuel a with
  | error err => simp [ha, bind, Except.bind] at h
  | ok a' =>
    cases hb : flattenM fuel b with
    | error err => simp [ha, hb, bind, Except.bind] at h
    | ok b' =>
      simp [ha, hb, bind, Except.bind, pure, Except.pure] at h
      exact ⟨a', b', rfl, rfl, h.symm⟩

/-- **value at operator nodes, every Python environment**: if flattening preserves the denotation
of the two operands in `env` (the same value, or the same error), it preserves the denotation of
`a / b`, `a // b`, `a % b`, `a ** b`, `a << b`, `a >> b` — `env` may hold any values, rationals
that are not integers included. -/
theorem flatten_operator_den (env : Env) (fuel : Nat) (o : BinOp) (a b e' : Expr)
    (h : flattenM (fuel + 1) (.bin o a b) = .ok e')
    (ha : ∀ a', flattenM fuel a = .ok a' → den env a' = den env a)
    (hb : ∀ b', flattenM fuel b = .ok b' → den env b' = den env b) :
    den env e' = den env (.bin o a b) := by
  obtain ⟨a', b', h1, h2, rfl⟩ := flatten_operator_shape fuel o a b e' h
  simp only [den, ha a' h1, hb b' h2]

/-- the same about what the CURRENT source says (`pymbolic.flatten` run from the regenerated
table) -/
theorem flatten_operator_shape_current (fuel : Nat) (o : BinOp) (a b e' : Expr)
    (h : c11RunPublic c04Classes c04IdentityTable PV.Generated.c11Table "flatten"
      [.expr (.bin o a b)] (fuel + 1) = .ok e') :
    ∃ a' b',
      c11RunPublic c04Classes c04IdentityTable PV.Generated.c11Table "flatten" [.expr a] fuel
        = .ok a' ∧
      c11RunPublic c04Classes c04IdentityTable PV.Generated.c11Table "flatten" [.expr b] fuel
        = .ok b' ∧ e' = .bin o a' b' := by
  rw [(flatten_eq_table_current (fuel + 1) (.bin o a b)).1] at h
  rw [(flatten_eq_table_current fuel a).1, (flatten_eq_table_current fuel b).1]
  exact flatten_operator_shape fuel o a b e' h

theorem flatten_operator_den_current (env : Env) (fuel : Nat) (o : BinOp) (a b e' : Expr)
    (h : c11RunPublic c04Classes c04IdentityTable PV.Generated.c11Table "flatten"
      [.expr (.bin o a b)] (fuel + 1) = .ok e')
    (ha : ∀ a', c11RunPublic c04Classes c04IdentityTable PV.Generated.c11Table "flatten"
      [.expr a] fuel = .ok a' → den env a' = den env a)
    (hb : ∀ b', c11RunPublic c04Classes c04IdentityTable PV.Generated.c11Table "flatten"
      [.expr b] fuel = .ok b' → den env b' = den env b) :
    den env e' = den env (.bin o a b) := by
  rw [(flatten_eq_table_current (fuel + 1) (.bin o a b)).1] at h
  rw [(flatten_eq_table_current fuel a).1] at ha
  rw [(flatten_eq_table_current fuel b).1] at hb
  exact flatten_operator_den env fuel o a b e' h ha hb

/-- non-vacuity: `flatten((x + (y + 0)) // (1*1))` is `(x + y) // 1` — the operands are flattened,
the unit divisor stays -/
example : flattenM 5 (.bin .floordiv (.nary .sum [.var "x", .nary .sum [.var "y", zero]])
      (.nary .prod [one, one])) =
    .ok (.bin .floordiv (.nary .sum [.var "x", .var "y"]) one) := by decide

/-- why a unit divisor of `//` must stay: at `x = 1/2`, `x // 1` is `0` and `x` is `1/2` -/
theorem floordiv_one_not_identity_witness :
    den halfEnv (.bin .floordiv (.var "x") one) = .ok (.int 0) ∧
    den halfEnv (.var "x") = .ok (.frac (1 / 2)) ∧
    den halfEnv (.bin .floordiv (.var "x") one) ≠ den halfEnv (.var "x") := by
  have h1 : den halfEnv (.bin .floordiv (.var "x") one) = .ok (.int 0) := by
    rw [den_half_bin]; exact half_floordiv_one
  have h2 : den halfEnv (.var "x") = .ok (.frac (1 / 2)) := by rfl
  refine ⟨h1, h2, ?_⟩
  rw [h1, h2]
  intro h
  cases h

/-- … `x % 1` is `1/2` there, not `0` -/
theorem rem_one_not_zero_witness :
    den halfEnv (.bin .rem (.var "x") one) = .ok (.frac (1 / 2)) ∧
    den halfEnv (.bin .rem (.var "x") one) ≠ den halfEnv zero := by
  have h1 : den halfEnv (.bin .rem (.var "x") one) = .ok (.frac (1 / 2)) := by
    rw [den_half_bin]; exact half_mod_one
  have h2 : den halfEnv zero = .ok (.int 0) := by rfl
  refine ⟨h1, ?_⟩
  rw [h1, h2]
  intro h
  cases h

/-- … while `x / 1` is `x` there -/
example : den halfEnv (.bin .quot (.var "x") one) = den halfEnv (.var "x") := by
  rw [den_half_bin]; exact half_div_one

/-! ### (B) the coefficient test of `split_term` -/

/-- every pair `(base, exp)` that the second loop of `split_term` keeps in the key builds a power
`base**exp` that depends on something outside the parameters; every coefficient is such a power
that does not -/
theorem split_key_depends (params : List Expr) :
    ∀ (l : List (Expr × Expr)) (cs : List Expr) (cl : List (Expr × Expr)),
      b2eSplit params l = .ok (cs, cl) →
      ∀ be ∈ cl, ∃ term d, pyPow be.1 be.2 = .ok term ∧ depsR term = .ok d ∧
        subsetPy d params = false
  | [], cs, cl, h, be, hbe => by
      simp [b2eSplit, pure, Except.pure] at h
      rw [h.2] at hbe
      cases hbe
  | (b, e) :: rest, cs, cl, h, be, hbe => by
      simp only [b2eSplit, bind, Except.bind] at h
      cases hp : pyPow b e with
      | error err => simp [hp] at h
      | ok term =>
        simp only [hp] at h
        cases hd : depsR term with
        | error err => simp [hd] at h
        | ok d =>
          simp only [hd] at h
          cases hr : b2eSplit params rest with
          | error err => simp [hr] at h
          | ok r =>
            obtain ⟨cs', cl'⟩ := r
            simp only [hr] at h
            by_cases hs : subsetPy d params = true
            · simp [hs, pure, Except.pure] at h
              rw [← h.2] at hbe
              exact split_key_depends params rest cs' cl' hr be hbe
            · simp [hs, pure, Except.pure] at h
              rw [← h.2] at hbe
              cases hbe with
              | head => exact ⟨term, d, hp, hd, by simpa using hs⟩
              | tail _ hmem => exact split_key_depends params rest cs' cl' hr be hmem

/-- **a base whose exponents cancel never stays in the key**: no pair `(x, 0)` with a variable
base survives the coefficient test, whatever the parameters — `x**0` is the constant `1` -/
theorem split_key_no_zero_power (params : List Expr) (l : List (Expr × Expr)) (cs : List Expr)
    (cl : List (Expr × Expr)) (h : b2eSplit params l = .ok (cs, cl)) (x : String) :
    (Expr.var x, zero) ∉ cl := by
  intro hmem
  obtain ⟨term, d, hp, hd, hs⟩ := split_key_depends params l cs cl h _ hmem
  have h1 : pyPow (.var x) zero = .ok one := by rfl
  rw [h1] at hp
  cases hp
  have h2 : depsR one = .ok [] := by decide
  rw [h2] at hd
  cases hd
  simp [subsetPy] at hs

/-- the same for `split_term` as a whole, for any `self.rec`: the key it returns holds no `(x, 0)` -/
theorem split_term_no_zero_power (rec : Expr → RwR) (params : List Expr) (t : Expr)
    (k : List (Expr × Expr)) (c : Expr) (h : splitTerm rec params t = .ok (k, c)) (x : String) :
    (Expr.var x, zero) ∉ k := by
  simp only [splitTerm, bind, Except.bind] at h
  cases hf : splitFactors t with
  | error err => simp [hf] at h
  | ok fs =>
    simp only [hf] at h
    cases hb : b2eBuild fs [] with
    | error err => simp [hb] at h
    | ok b2e =>
      simp only [hb] at h
      cases hs : b2eSplit params b2e with
      | error err => simp [hs] at h
      | ok r =>
        obtain ⟨coeffs, cleaned⟩ := r
        simp only [hs] at h
        by_cases hl : cleaned.any (fun p => p.2.hasList) = true
        · simp [hl, throw, throwThe, MonadExceptOf.throw] at h
        · simp only [hl] at h
          cases hc : flatProd coeffs with
          | error err => simp [hc] at h
          | ok cf =>
            simp only [hc] at h
            cases hr : rec cf with
            | error err => simp [hr] at h
            | ok coeff =>
              simp [hr, pure, Except.pure] at h
              rw [← h.1]
              exact split_key_no_zero_power params b2e coeffs cleaned hs x

/-- … and about what the CURRENT source of `TermCollector.split_term` says (the regenerated method
body run by the table interpreter returns exactly that key) -/
theorem split_term_no_zero_power_current (ctx : C11Ctx) (params : List Expr)
    (hctx : C11CollCtx ctx params) (fuel : Nat) (t : Expr) (k : List (Expr × Expr)) (c : Expr)
    (h : splitTerm ctx.recur params t = .ok (k, c)) (x : String) :
    c11RunFn ctx fuel PV.Generated.c11_TermCollector_split_term [.expr t]
      = c11SplitResult (.ok (k, c)) ∧ (Expr.var x, zero) ∉ k := by
  refine ⟨?_, split_term_no_zero_power ctx.recur params t k c h x⟩
  rw [split_term_eq_table_current ctx params hctx fuel t, h]

/-- non-vacuity: the factors `x**0`, `y` split into the coefficient `1` and the key `{(y, 1)}` -/
example : b2eSplit [] [(.var "x", zero), (.var "y", one)] = .ok ([one], [(.var "y", one)]) := by
  decide

/-- `x**0*y + y` collects to `2*y` (one key for both terms) -/
example : collectM [] 6 (.nary .sum [.nary .prod [.bin .pow (.var "x") zero, .var "y"], .var "y"])
    = .ok (.nary .prod [.const (.int 2), .var "y"]) := by decide

end PV.C11
