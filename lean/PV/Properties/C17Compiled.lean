import PV.Proofs.CompiledOrder
import PV.Properties.C13Table
/-
  C17 — compiled expressions: the positional calling convention is the same in every process.

  A `CompiledExpression` pickles `(expression, variables)` and COMPILES AGAIN in the consumer
  (`compiled_roundtrip`, PV/Properties/C17.lean: the two fields survive).  The argument list of
  the re-compiled function is `variables` followed by the remaining free variables, which
  `_compile` takes out of a SET - iterated in an order that depends on the consumer's string-hash
  seed - and sorts.  The theorems below say when that list is the producer's.

  The sort key of the CURRENT source is the name itself: `compileModel_eq_table_current`
  (PV/Properties/C13Table.lean) proves `compileModel`, hence `argOrder`, equal to the interpreter
  of the statements of `_compile` re-read from pymbolic/compiler.py (`.sortByName` in
  PV/Generated/Codegen.lean).  What the real processes do is checked by the `compiled-expression`
  stream of harness/props/c17.py over names that differ only in case, digit runs, underscores,
  length and non-ASCII case - the names a "friendlier" key would tie.
-/
namespace PV.C17
open PV

/-- **compiled_args_cross_process.**  Whatever the iteration orders `used` (producer) and `used'`
(consumer) of the dependency set are, compiling the pickled state `(expression, listed)` again
gives the argument list the producer had: positional calls mean the same in both processes. -/
theorem compiled_args_cross_process (listed : List String) {used used' : List Expr}
    (h : used.Perm used') : argOrder listed used = argOrder listed used' :=
  C13.arg_order_perm listed h

/-- the model of the current source is the key-parameterised one at the key `name` -/
theorem argOrderBy_name (listed : List String) (used : List Expr) :
    argOrderBy id listed used = argOrder listed used := by
  simp only [argOrderBy, argOrder, sortByKey_id]

/-- **compiled_args_by_key_partial.**  For ANY sort key: if the key tells the free variables of
the expression apart (the explicit, decidable hypothesis), the argument list does not depend on
the iteration order of the set, so it is the same in producer and consumer.  Without the
hypothesis it is false: `compiled_args_key_tie_cex`. -/
theorem compiled_args_by_key_partial (key : String → String) (listed : List String)
    {used used' : List Expr}
    (hinj : ∀ a ∈ varNames used, ∀ b ∈ varNames used, key a = key b → a = b)
    (h : used.Perm used') : argOrderBy key listed used = argOrderBy key listed used' := by
  unfold argOrderBy
  rw [sortByKey_perm_eq key ?_ ((varNames_perm h).filter _)]
  intro a ha b hb
  exact hinj a (List.mem_filter.mp ha).1 b (List.mem_filter.mp hb).1

/-- **compiled_args_key_tie_cex** (what an edit of the key does).  With a case-insensitive key the
stable sort leaves `x` and `X` in the order the set happened to be iterated in: two processes that
iterate the same dependency set differently bind positional arguments differently. -/
theorem compiled_args_key_tie_cex :
    ∃ used used' : List Expr, used.Perm used' ∧
      argOrderBy asciiFold [] used ≠ argOrderBy asciiFold [] used' :=
  ⟨[.var "x", .var "X"], [.var "X", .var "x"], List.Perm.swap _ _ _, by decide⟩

example : argOrderBy asciiFold ["t"] [.var "x", .var "t", .var "X", .var "math"] = ["t", "x", "X"] := by
  decide
example : argOrderBy asciiFold ["t"] [.var "X", .var "t", .var "x", .var "math"] = ["t", "X", "x"] := by
  decide
example : argOrder ["t"] [.var "X", .var "t", .var "x"] = argOrder ["t"] [.var "x", .var "X", .var "t"] :=
  compiled_args_cross_process _ (by decide)
example : argOrderBy id ["t"] [.var "x", .var "t", .var "X"] = ["t", "X", "x"] := by decide

end PV.C17
