import PV.Properties.C18
import PV.Proofs.GATableLink
import PV.Proofs.GATableRefl
import PV.Generated.GATable
/-
  C18 — T-gen tie of the geometric-algebra model to the source.

  `PV.Generated.c18GAModule` is rewritten on every run by `extract/geometric_algebra.py` from the
  source text of `pymbolic/geometric_algebra/__init__.py` of the working tree: 55 functions /
  methods statement by statement in the small Python subset of PV/Model/GATable.lean (`C18Expr`,
  `C18Stmt`: loops, conditions, assignments, dict displays and comprehensions, calls), the class
  rows (bases, methods, aliases such as `orthogonal_blade_product_weight =
  generic_blade_product_weight`), the module imports, and every other definition as pinned text.

  `c18Call M Γ fuel q args kw` RUNS a function of such a table: it knows no function of the
  module, only the language (names resolve to locals, then to the functions / classes / imports
  OF THE TABLE, then builtins; operators on `MultiVector`s and attribute look-ups go through the
  class rows OF THE TABLE).  `Γ` is the space and coefficient type: zero test `z`, `==`, `/`,
  metric diagonal `g`, basis names, `is_orthogonal`, hash functions.

  `table_current` proves the regenerated table equal to the literal the proofs were made against
  (PV/Proofs/GATableExpected.lean); the theorems below prove that the hand-written model
  functions of PV/Model/GA.lean — the ones the driver executes and PV/Properties/C18.lean is
  about — ARE the interpreter run on the regenerated table, for all inputs (bitmaps below the
  loop bound `fuel`: a `while` loop may iterate `fuel` times; dict values with distinct keys,
  which every Python dict has).  An edit of the source that changes a translated statement (the
  reordering loop shifting `b_bits`, the inner-product weight taken over `a_bits`, the pruning
  `del` dropped from `_generic_product`, `rev` using `grade*(grade+1)`, another grade list in
  `inv`, …), a class row or a pinned definition makes `table_current` fail to check.
-/
namespace PV.C18
open PV PV.GA PV.GA.C18T

/-- the table regenerated from the working tree -/
abbrev gaTableCurrent : C18Module := Generated.c18GAModule

/-- **The regenerated function table is the one the model was written against**: every
translated statement of the 55 functions, their parameters, defaults, local variables and
decorators, the order of the function list, every class row, the module imports and the pinned
text of every definition that is not translated. -/
theorem table_current : gaTableCurrent = c18ExpectedModule := by rfl

/-- the function names the table lists are those of its function list, in order; no name
occurs twice (so look-up by name in a tail of the list is Python's look-up by name) -/
theorem table_names_current :
    gaTableCurrent.fns.map (·.qual) = gaTableCurrent.fnNames ∧ gaTableCurrent.fnNames.Nodup := by
  constructor
  · rfl
  · decide

section Generic
variable {R : Type} [Add R] [Mul R] [Neg R] [OfNat R 0] [OfNat R 1]
variable (Γ : C18Ctx R) (fuel : Nat)

/-- **`bit_count` of the current source is `bitCount`** (the Kernighan loop, statement by
statement) -/
theorem bit_count_eq_table_current (n : Nat) (h : n < fuel) :
    c18Call gaTableCurrent Γ fuel "bit_count" [.nat n] [] = .ok (.nat (bitCount n)) := by
  rw [table_current, c18Call_eq_tail]
  exact tail_bit_count Γ fuel 0 (by omega) n h

/-- **`canonical_reordering_sign` of the current source is `reorderSign`**: the shift loop over
`a_bits`, the popcount of `a_bits & b_bits` accumulated, the parity test, `-1` / `1` -/
theorem reorder_sign_eq_table_current (a b : Nat) (h : a < fuel) :
    c18Call gaTableCurrent Γ fuel "canonical_reordering_sign" [.nat a, .nat b] []
      = .ok (.ofInt (reorderSign a b)) := by
  rw [table_current, c18Call_eq_tail]
  exact tail_crs Γ fuel 0 (by omega) a b h

/-- **`_shared_metric_coeff` of the current source is `sharedMetricCoeff`**: the int `1` for the
empty bitmap, otherwise the coefficient the model computes (the model's own fuel never runs
out: `sharedMetricCoeff_eq_prodBits`) -/
theorem shared_metric_coeff_eq_table_current (sh : Nat) (h : sh < fuel) (h2 : 2 ≤ fuel) :
    ∃ v, c18Call gaTableCurrent Γ fuel "_shared_metric_coeff" [.nat sh, .space] [] = .ok v ∧
      c18ValR v = sharedMetricCoeff Γ.g sh := by
  rw [table_current, c18Call_eq_tail]
  exact ⟨_, tail_smc Γ fuel h2 0 (by omega) sh h, c18ValR_smcVal _ _⟩

/-- the function the class rows of the current source bind `Class.orthogonal_blade_product_weight`
to — `_OuterProduct` binds it to its `generic_blade_product_weight` by a class-body alias -/
theorem weight_rows_current :
    c18ClassAttr gaTableCurrent "_OuterProduct" "orthogonal_blade_product_weight"
      = some (.method "_OuterProduct.generic_blade_product_weight" "static") ∧
    c18ClassAttr gaTableCurrent "_GeometricProduct" "orthogonal_blade_product_weight"
      = some (.method "_GeometricProduct.orthogonal_blade_product_weight" "static") ∧
    c18ClassAttr gaTableCurrent "_InnerProduct" "orthogonal_blade_product_weight"
      = some (.method "_InnerProduct.orthogonal_blade_product_weight" "static") ∧
    c18ClassAttr gaTableCurrent "_LeftContractionProduct" "orthogonal_blade_product_weight"
      = some (.method "_LeftContractionProduct.orthogonal_blade_product_weight" "static") ∧
    c18ClassAttr gaTableCurrent "_RightContractionProduct" "orthogonal_blade_product_weight"
      = some (.method "_RightContractionProduct.orthogonal_blade_product_weight" "static") ∧
    c18ClassAttr gaTableCurrent "_ScalarProduct" "orthogonal_blade_product_weight"
      = some (.method "_ScalarProduct.orthogonal_blade_product_weight" "static") := by
  refine ⟨rfl, rfl, rfl, rfl, rfl, rfl⟩

/-- **The six `orthogonal_blade_product_weight`s of the current source are the model's weights**
`wOuter … wScalar`: each call returns an int `0`/`1` or a coefficient whose value as a
coefficient is the model's weight (conditions on `a_bits & b_bits`, which bitmap the metric
coefficient is taken over) -/
theorem weights_eq_table_current (a b : Nat) (h : a < fuel) (h2 : 2 ≤ fuel) :
    (∃ v, c18Call gaTableCurrent Γ fuel "_OuterProduct.generic_blade_product_weight"
        [.nat a, .nat b, .space] [] = .ok v ∧ c18ValR v = wOuter Γ.g a b) ∧
    (∃ v, c18Call gaTableCurrent Γ fuel "_GeometricProduct.orthogonal_blade_product_weight"
        [.nat a, .nat b, .space] [] = .ok v ∧ c18ValR v = wGeometric Γ.g a b) ∧
    (∃ v, c18Call gaTableCurrent Γ fuel "_InnerProduct.orthogonal_blade_product_weight"
        [.nat a, .nat b, .space] [] = .ok v ∧ c18ValR v = wInner Γ.g a b) ∧
    (∃ v, c18Call gaTableCurrent Γ fuel "_LeftContractionProduct.orthogonal_blade_product_weight"
        [.nat a, .nat b, .space] [] = .ok v ∧ c18ValR v = wLeftContraction Γ.g a b) ∧
    (∃ v, c18Call gaTableCurrent Γ fuel "_RightContractionProduct.orthogonal_blade_product_weight"
        [.nat a, .nat b, .space] [] = .ok v ∧ c18ValR v = wRightContraction Γ.g a b) ∧
    (∃ v, c18Call gaTableCurrent Γ fuel "_ScalarProduct.orthogonal_blade_product_weight"
        [.nat a, .nat b, .space] [] = .ok v ∧ c18ValR v = wScalar Γ.g a b) := by
  rw [table_current, c18Call_eq_tail]
  exact ⟨⟨_, (tail_wOuter Γ fuel 0 (by omega) a b h).1, c18ValR_wOuter Γ.g a b⟩,
    ⟨_, (tail_wGeometric Γ fuel h2 0 (by omega) a b h).1, c18ValR_wGeometric Γ.g a b⟩,
    ⟨_, (tail_wInner Γ fuel h2 0 (by omega) a b h).1, c18ValR_wInner Γ.g a b⟩,
    ⟨_, (tail_wLeft Γ fuel h2 0 (by omega) a b h).1, c18ValR_wLeft Γ.g a b⟩,
    ⟨_, (tail_wRight Γ fuel h2 0 (by omega) a b h).1, c18ValR_wRight Γ.g a b⟩,
    ⟨_, (tail_wScalar Γ fuel h2 0 (by omega) a b h).1, c18ValR_wScalar Γ.g a b⟩⟩

/-- in the current source the `generic_blade_product_weight` of every product but the outer one
(what `_generic_product` selects for a non-diagonal metric) raises `NotImplementedError` -/
theorem generic_weights_raise_current (a b : Nat) :
    c18Call gaTableCurrent Γ fuel "_GeometricProduct.generic_blade_product_weight"
        [.nat a, .nat b, .space] [] = .raise "NotImplementedError" ∧
    c18Call gaTableCurrent Γ fuel "_InnerProduct.generic_blade_product_weight"
        [.nat a, .nat b, .space] [] = .raise "NotImplementedError" ∧
    c18Call gaTableCurrent Γ fuel "_LeftContractionProduct.generic_blade_product_weight"
        [.nat a, .nat b, .space] [] = .raise "NotImplementedError" ∧
    c18Call gaTableCurrent Γ fuel "_RightContractionProduct.generic_blade_product_weight"
        [.nat a, .nat b, .space] [] = .raise "NotImplementedError" ∧
    c18Call gaTableCurrent Γ fuel "_ScalarProduct.generic_blade_product_weight"
        [.nat a, .nat b, .space] [] = .raise "NotImplementedError" := by
  rw [table_current, c18Call_eq_tail]
  have h := c18_wGeneric_raises Γ fuel
  refine ⟨?_, ?_, ?_, ?_, ?_⟩
  · rw [c18Tail_call Γ fuel "_GeometricProduct.generic_blade_product_weight" 41 c18X__GeometricProduct_generic_blade_product_weight rfl rfl
      (by c18first) 0 (by omega)]; exact (h _ a b).1
  · rw [c18Tail_call Γ fuel "_InnerProduct.generic_blade_product_weight" 43 c18X__InnerProduct_generic_blade_product_weight rfl rfl
      (by c18first) 0 (by omega)]; exact (h _ a b).2.1
  · rw [c18Tail_call Γ fuel "_LeftContractionProduct.generic_blade_product_weight" 45 c18X__LeftContractionProduct_generic_blade_product_weight rfl rfl
      (by c18first) 0 (by omega)]; exact (h _ a b).2.2.1
  · rw [c18Tail_call Γ fuel "_RightContractionProduct.generic_blade_product_weight" 47 c18X__RightContractionProduct_generic_blade_product_weight rfl rfl
      (by c18first) 0 (by omega)]; exact (h _ a b).2.2.2.1
  · rw [c18Tail_call Γ fuel "_ScalarProduct.generic_blade_product_weight" 49 c18X__ScalarProduct_generic_blade_product_weight rfl rfl
      (by c18first) 0 (by omega)]; exact (h _ a b).2.2.2.2

/-- **`MultiVector(d, space)` of the current source stores a bitmap dict as given** (`ofBitsDict`):
`__init__` run statement by statement — not an array, a dict, no tuple keys, the `assert`, the
two attribute assignments -/
theorem init_dict_eq_table_current (d : MVOf R) :
    c18Call gaTableCurrent Γ fuel "MultiVector.__init__" [.obj false none, .dict d, .space] []
      = .ok (.mv (ofBitsDict d)) := by
  rw [table_current, c18Call_eq_tail]
  exact tail_init Γ fuel 0 (by omega) d

/-- **`rev`, `invol`, `project`, `odd`, `even` of the current source are the model's**: the loop
over `self.data.items()`, `bit_count`, the sign condition (`grade*(grade-1)//2 % 2 == 0` for
`rev`, `grade % 2 == 0` for `invol`) resp. the grade filter, the result handed to `MultiVector` -/
theorem grade_maps_eq_table_current (a : MVOf R) (ha : C18Dict fuel a) (r : Nat) :
    c18Call gaTableCurrent Γ fuel "MultiVector.rev" [.mv a] [] = .ok (.mv (rev a)) ∧
    c18Call gaTableCurrent Γ fuel "MultiVector.invol" [.mv a] [] = .ok (.mv (invol a)) ∧
    c18Call gaTableCurrent Γ fuel "MultiVector.project" [.mv a, .nat r] []
      = .ok (.mv (project a r)) ∧
    c18Call gaTableCurrent Γ fuel "MultiVector.odd" [.mv a] [] = .ok (.mv (odd a)) ∧
    c18Call gaTableCurrent Γ fuel "MultiVector.even" [.mv a] [] = .ok (.mv (even a)) := by
  rw [table_current, c18Call_eq_tail]
  exact ⟨tail_rev Γ fuel 0 (by omega) a ha, tail_invol Γ fuel 0 (by omega) a ha,
    tail_project Γ fuel 0 (by omega) a r ha, tail_odd Γ fuel 0 (by omega) a ha,
    tail_even Γ fuel 0 (by omega) a ha⟩

/-- **`_generic_product` of the current source is `genericProductZ`** for each of the six
product classes, in a space with a diagonal metric: the weight function is the class's
`orthogonal_blade_product_weight` (resolved through the class rows), the double loop over blade
pairs in insertion order, the skipped zero weights, `weight * sign * scoeff * ocoeff`, the
accumulation with `setdefault(new_bits, 0)`, and the pruning `del` when the sum is zero.
Python multiplies the int weight `1` with the int sign before the coefficients; the model
multiplies in `R`: hence `1 * r = r`.  `z 0` says the zero test finds the int `0`. -/
theorem generic_product_eq_table_current (h1 : ∀ r : R, 1 * r = r) (hz0 : Γ.z 0 = true)
    (horth : Γ.orth = true) (h2 : 2 ≤ fuel) (x y : MVOf R) (hk : ∀ k ∈ dkeys x, k < fuel) :
    c18Call gaTableCurrent Γ fuel "MultiVector._generic_product"
        [.mv x, .mv y, .cls "_OuterProduct"] []
      = .ok (.mv (genericProductZ Γ.z (wOuter Γ.g) x y)) ∧
    c18Call gaTableCurrent Γ fuel "MultiVector._generic_product"
        [.mv x, .mv y, .cls "_GeometricProduct"] []
      = .ok (.mv (genericProductZ Γ.z (wGeometric Γ.g) x y)) ∧
    c18Call gaTableCurrent Γ fuel "MultiVector._generic_product"
        [.mv x, .mv y, .cls "_InnerProduct"] []
      = .ok (.mv (genericProductZ Γ.z (wInner Γ.g) x y)) ∧
    c18Call gaTableCurrent Γ fuel "MultiVector._generic_product"
        [.mv x, .mv y, .cls "_LeftContractionProduct"] []
      = .ok (.mv (genericProductZ Γ.z (wLeftContraction Γ.g) x y)) ∧
    c18Call gaTableCurrent Γ fuel "MultiVector._generic_product"
        [.mv x, .mv y, .cls "_RightContractionProduct"] []
      = .ok (.mv (genericProductZ Γ.z (wRightContraction Γ.g) x y)) ∧
    c18Call gaTableCurrent Γ fuel "MultiVector._generic_product"
        [.mv x, .mv y, .cls "_ScalarProduct"] []
      = .ok (.mv (genericProductZ Γ.z (wScalar Γ.g) x y)) := by
  rw [table_current, c18Call_eq_tail]
  have e1 : (fun a b => c18ValR (wvOuter a b : C18Val R)) = wOuter Γ.g := by
    funext a b; exact c18ValR_wOuter Γ.g a b
  have e2 : (fun a b => c18ValR (wvGeometric Γ.g a b)) = wGeometric Γ.g := by
    funext a b; exact c18ValR_wGeometric Γ.g a b
  have e3 : (fun a b => c18ValR (wvInner Γ.g a b)) = wInner Γ.g := by
    funext a b; exact c18ValR_wInner Γ.g a b
  have e4 : (fun a b => c18ValR (wvLeft Γ.g a b)) = wLeftContraction Γ.g := by
    funext a b; exact c18ValR_wLeft Γ.g a b
  have e5 : (fun a b => c18ValR (wvRight Γ.g a b)) = wRightContraction Γ.g := by
    funext a b; exact c18ValR_wRight Γ.g a b
  have e6 : (fun a b => c18ValR (wvScalar Γ.g a b)) = wScalar Γ.g := by
    funext a b; exact c18ValR_wScalar Γ.g a b
  refine ⟨?_, ?_, ?_, ?_, ?_, ?_⟩
  · rw [← e1]; exact tail_gp Γ fuel h1 hz0 horth _ _ _ (by rfl) (tail_wOuter Γ fuel 24 (by omega)) 0
      (by omega) x y hk
  · rw [← e2]; exact tail_gp Γ fuel h1 hz0 horth _ _ _ (by rfl) (tail_wGeometric Γ fuel h2 24 (by omega))
      0 (by omega) x y hk
  · rw [← e3]; exact tail_gp Γ fuel h1 hz0 horth _ _ _ (by rfl) (tail_wInner Γ fuel h2 24 (by omega)) 0
      (by omega) x y hk
  · rw [← e4]; exact tail_gp Γ fuel h1 hz0 horth _ _ _ (by rfl) (tail_wLeft Γ fuel h2 24 (by omega)) 0
      (by omega) x y hk
  · rw [← e5]; exact tail_gp Γ fuel h1 hz0 horth _ _ _ (by rfl) (tail_wRight Γ fuel h2 24 (by omega)) 0
      (by omega) x y hk
  · rw [← e6]; exact tail_gp Γ fuel h1 hz0 horth _ _ _ (by rfl) (tail_wScalar Γ fuel h2 24 (by omega)) 0
      (by omega) x y hk

/-- **`MultiVector(x, space)` for a scalar and `_cast_or_ni` of the current source**: a scalar is
stored as `{}` when the zero test finds it zero and as `{0: x}` otherwise (`ofScalarZ`, the
repaired `mv-scalar-zero-stored`); `_cast_or_ni` hands a `MultiVector` back and wraps a scalar -/
theorem cast_eq_table_current (c : R) (y : MVOf R) :
    c18Call gaTableCurrent Γ fuel "MultiVector.__init__" [.obj false none, .coef c, .space] []
      = .ok (.mv (ofScalarZ Γ.z c)) ∧
    c18Call gaTableCurrent Γ fuel "_cast_or_ni" [.coef c, .space] []
      = .ok (.mv (ofScalarZ Γ.z c)) ∧
    c18Call gaTableCurrent Γ fuel "_cast_or_ni" [.mv y, .space] [] = .ok (.mv y) := by
  rw [table_current, c18Call_eq_tail]
  exact ⟨tail_init_scalar Γ fuel 0 (by omega) c, tail_cast Γ fuel 0 (by omega) _ _ rfl,
    tail_cast Γ fuel 0 (by omega) _ _ rfl⟩

/-- **The operators `* ^ | << >>` of the current source** (`__mul__`, `__xor__`, `__or__`,
`__lshift__`, `__rshift__`): the right operand goes through `_cast_or_ni` (a `MultiVector` or a
scalar), and `_generic_product` is called with the geometric / outer / inner / left- / right-
contraction class: the results are the model's products -/
theorem products_eq_table_current (ok : C18Ok Γ fuel) (x : MVOf R) (v : C18Val R) (y : MVOf R)
    (hv : c18CastOf Γ.z v = some y) (hk : ∀ k ∈ dkeys x, k < fuel) :
    c18Call gaTableCurrent Γ fuel "MultiVector.__mul__" [.mv x, v] []
      = .ok (.mv (genericProductZ Γ.z (wGeometric Γ.g) x y)) ∧
    c18Call gaTableCurrent Γ fuel "MultiVector.__xor__" [.mv x, v] []
      = .ok (.mv (genericProductZ Γ.z (wOuter Γ.g) x y)) ∧
    c18Call gaTableCurrent Γ fuel "MultiVector.__or__" [.mv x, v] []
      = .ok (.mv (genericProductZ Γ.z (wInner Γ.g) x y)) ∧
    c18Call gaTableCurrent Γ fuel "MultiVector.__lshift__" [.mv x, v] []
      = .ok (.mv (genericProductZ Γ.z (wLeftContraction Γ.g) x y)) ∧
    c18Call gaTableCurrent Γ fuel "MultiVector.__rshift__" [.mv x, v] []
      = .ok (.mv (genericProductZ Γ.z (wRightContraction Γ.g) x y)) := by
  rw [table_current, c18Call_eq_tail]
  exact ⟨tail_mul Γ fuel ok 0 (by omega) x v y hv hk, tail_xor Γ fuel ok 0 (by omega) x v y hv hk,
    tail_or Γ fuel ok 0 (by omega) x v y hv hk, tail_lshift Γ fuel ok 0 (by omega) x v y hv hk,
    tail_rshift Γ fuel ok 0 (by omega) x v y hv hk⟩

/-- **`as_scalar`, `scalar_product`, `norm_squared` of the current source**: `as_scalar` returns
Python's int `0` for empty data, the last coefficient when every key is `0`, and raises
`ValueError` otherwise (`asScalarVal`; as a coefficient that is the model's `asScalar`);
`scalar_product` is `as_scalar` of the `_ScalarProduct` product, `norm_squared` is
`self.rev().scalar_product(self)` — the model's `scalarProductZ` / `normSquaredZ` -/
theorem scalar_product_eq_table_current (ok : C18Ok Γ fuel) (a b : MVOf R)
    (ha : C18Dict fuel a) :
    c18Call gaTableCurrent Γ fuel "MultiVector.as_scalar" [.mv a] [] = c18ScalarRes a ∧
    (asScalarVal a (.nat 0 : C18Val R)).map c18ValR = asScalar a ∧
    c18Call gaTableCurrent Γ fuel "MultiVector.scalar_product" [.mv a, .mv b] []
      = c18ScalarRes (genericProductZ Γ.z (wScalar Γ.g) a b) ∧
    (asScalarVal (genericProductZ Γ.z (wScalar Γ.g) a b) (.nat 0 : C18Val R)).map c18ValR
      = scalarProductZ Γ.z Γ.g a b ∧
    c18Call gaTableCurrent Γ fuel "MultiVector.norm_squared" [.mv a] []
      = c18ScalarRes (genericProductZ Γ.z (wScalar Γ.g) (rev a) a) ∧
    (asScalarVal (genericProductZ Γ.z (wScalar Γ.g) (rev a) a) (.nat 0 : C18Val R)).map c18ValR
      = normSquaredZ Γ.z Γ.g a := by
  rw [table_current, c18Call_eq_tail]
  exact ⟨tail_as_scalar Γ fuel 0 (by omega) a, asScalarVal_model a,
    tail_scalar_product Γ fuel ok 0 (by omega) a (.mv b) b rfl ha.2, asScalarVal_model _,
    tail_norm_squared Γ fuel ok 0 (by omega) a ha, asScalarVal_model _⟩

/-- **`get_pure_grade`, `I`, `dual` of the current source** are the model's `getPureGrade`
(Python `None` = `none`), `pseudoscalar` (`{2**dims - 1: 1}`) and `dualZ`
(`self | self.I.rev()`) -/
theorem grade_dual_eq_table_current (ok : C18Ok Γ fuel) (a : MVOf R) (ha : C18Dict fuel a)
    (hdims : 2 ^ Γ.dims ≤ fuel) :
    c18Call gaTableCurrent Γ fuel "MultiVector.get_pure_grade" [.mv a] []
      = .ok (match getPureGrade a with | none => .none | some g => .nat g) ∧
    c18Call gaTableCurrent Γ fuel "MultiVector.I" [.mv a] [] = .ok (.mv (pseudoscalar Γ.dims)) ∧
    c18Call gaTableCurrent Γ fuel "MultiVector.dual" [.mv a] []
      = .ok (.mv (dualZ Γ.z Γ.g Γ.dims a)) := by
  rw [table_current, c18Call_eq_tail]
  refine ⟨?_, tail_I Γ fuel 0 (by omega) a, tail_dual Γ fuel ok 0 (by omega) a ha hdims⟩
  rw [tail_get_pure_grade Γ fuel 0 (by omega) a ha.2]
  cases getPureGrade a <;> rfl

/-- **`inv` of the current source is the model's `invZ`**: `norm_squared` first, empty data
raises `ZeroDivisionError`, more than one item requires `get_pure_grade()` to be in
`[0, 1, dims]` (otherwise `NotImplementedError`) and divides every coefficient, one item gets
the reversion sign `grade*(grade-1)//2 % 2` and is divided; a division by a `norm_squared` the
zero test finds zero raises `ZeroDivisionError` (`c18InvOf` spells the model's `InvResult` as
Python outcomes, the numerator divided by the denominator with `Γ.div`) -/
theorem inv_eq_table_current (ok : C18Ok Γ fuel) (a : MVOf R) (ha : C18Dict fuel a) :
    c18Call gaTableCurrent Γ fuel "MultiVector.inv" [.mv a] []
      = c18InvOf Γ (invZ Γ.z Γ.g Γ.dims a) := by
  rw [table_current, c18Call_eq_tail]
  exact tail_inv Γ fuel ok 0 (by omega) a ha

/-- **`__neg__`, `__bool__`, `__hash__`, `__eq__` of the current source**: `mvNeg`, `mvBool`,
`mvHash` (for the hash functions of `Γ`) and Python's dict `==` on the two data dicts (the
right operand cast) -/
theorem neg_bool_hash_eq_table_current (a : MVOf R) (hnd : (dkeys a).Nodup) (v : C18Val R)
    (y : MVOf R) (hv : c18CastOf Γ.z v = some y) :
    c18Call gaTableCurrent Γ fuel "MultiVector.__neg__" [.mv a] [] = .ok (.mv (mvNeg a)) ∧
    c18Call gaTableCurrent Γ fuel "MultiVector.__bool__" [.mv a] [] = .ok (.bool (mvBool a)) ∧
    c18Call gaTableCurrent Γ fuel "MultiVector.__hash__" [.mv a] []
      = .ok (.hash (a.foldl (fun r (p : Nat × R) => r ^^^ (Γ.hb p.1 ^^^ Γ.hc p.2)) Γ.hspace)) ∧
    c18Call gaTableCurrent Γ fuel "MultiVector.__eq__" [.mv a, v] []
      = .ok (.bool (a.length == y.length && a.all fun (p : Nat × R) =>
          match dictGet y p.1 with | some w => Γ.ceq p.2 w | none => false)) := by
  rw [table_current, c18Call_eq_tail]
  exact ⟨tail_neg Γ fuel 0 (by omega) a hnd, tail_bool Γ fuel 0 (by omega) a,
    tail_hash Γ fuel 0 (by omega) a, tail_eq Γ fuel 0 (by omega) a v y hv⟩

/-- **`__add__`, `__sub__`, `__truediv__` of the current source** are the model's `mvAddZ`
(key union, `get(bits, 0)` on both sides, zero sums skipped; the iteration order of the union is
the model's choice — CPython's set order is an implementation detail), `mvSubZ`
(`self + (-other)`) and `self * other.inv()` with the exceptions of `inv` propagated -/
theorem add_sub_div_eq_table_current (ok : C18Ok Γ fuel) (x y : MVOf R) (hx : C18Dict fuel x)
    (hy : C18Dict fuel y) :
    c18Call gaTableCurrent Γ fuel "MultiVector.__add__" [.mv x, .mv y] []
      = .ok (.mv (mvAddZ Γ.z x y)) ∧
    c18Call gaTableCurrent Γ fuel "MultiVector.__sub__" [.mv x, .mv y] []
      = .ok (.mv (mvSubZ Γ.z x y)) ∧
    c18Call gaTableCurrent Γ fuel "MultiVector.__truediv__" [.mv x, .mv y] []
      = c18TrueDivOf Γ x (invZ Γ.z Γ.g Γ.dims y) := by
  rw [table_current, c18Call_eq_tail]
  exact ⟨tail_add Γ fuel 0 (by omega) x y hx.1 hy.1, tail_sub Γ fuel 0 (by omega) x y hx.1 hy.1,
    tail_truediv Γ fuel ok 0 (by omega) x y hx.2 hy⟩

/-- **The reflected operators `* ^ | << >>` of the current source** (`__rmul__`, `__rxor__`,
`__ror__`, `__rlshift__`, `__rrshift__` — what Python calls when the LEFT operand is a plain
scalar `c` and the right one the multivector `x`): the scalar is wrapped as
`MultiVector(c, self.space)` (`ofScalarZ`: `{}` for a zero, `{0: c}` otherwise) and handed to
`_generic_product` as the LEFT factor with the class of the operator, so `c OP x` is the model's
product of the grade-0 multivector and `x` IN THIS ORDER — a plain scalar on the left behaves like
`MultiVector(c)` on the left.  (Aliasing the reflected methods to the forward ones changes these
rows of the table: `table_current` and with it this theorem stop checking; the order matters
for `<<` and `>>`, `scalar_contraction_order_matters`.) -/
theorem reflected_products_eq_table_current (ok : C18Ok Γ fuel) (x : MVOf R) (c : R) :
    c18Call gaTableCurrent Γ fuel "MultiVector.__rmul__" [.mv x, .coef c] []
      = .ok (.mv (genericProductZ Γ.z (wGeometric Γ.g) (ofScalarZ Γ.z c) x)) ∧
    c18Call gaTableCurrent Γ fuel "MultiVector.__rxor__" [.mv x, .coef c] []
      = .ok (.mv (genericProductZ Γ.z (wOuter Γ.g) (ofScalarZ Γ.z c) x)) ∧
    c18Call gaTableCurrent Γ fuel "MultiVector.__ror__" [.mv x, .coef c] []
      = .ok (.mv (genericProductZ Γ.z (wInner Γ.g) (ofScalarZ Γ.z c) x)) ∧
    c18Call gaTableCurrent Γ fuel "MultiVector.__rlshift__" [.mv x, .coef c] []
      = .ok (.mv (genericProductZ Γ.z (wLeftContraction Γ.g) (ofScalarZ Γ.z c) x)) ∧
    c18Call gaTableCurrent Γ fuel "MultiVector.__rrshift__" [.mv x, .coef c] []
      = .ok (.mv (genericProductZ Γ.z (wRightContraction Γ.g) (ofScalarZ Γ.z c) x)) := by
  rw [table_current, c18Call_eq_tail]
  exact ⟨tail_rmul Γ fuel ok 0 (by omega) x c, tail_rxor Γ fuel ok 0 (by omega) x c,
    tail_ror Γ fuel ok 0 (by omega) x c, tail_rlshift Γ fuel ok 0 (by omega) x c,
    tail_rrshift Γ fuel ok 0 (by omega) x c⟩

end Generic

/-! ### the instance the property theorems are about: a commutative ring with decidable equality -/

section Ring
variable {R : Type} [CommRing R] [DecidableEq R] [Div R]

/-- the space `(g, names)` with an orthogonal basis over a coefficient ring whose zero test and
`==` decide equality (Python ints, `Fraction`s, `Z/n`, …) -/
def ctxOfRing (g : Nat → R) (names : List String) : C18Ctx R :=
  { z := isZeroD, ceq := fun a b => decide (a = b), div := fun a b => a / b, g := g, names := names,
    orth := true, euclid := false, hspace := 0, hb := id, hc := fun _ => 0 }

theorem ctxOfRing_ok (g : Nat → R) (names : List String) (fuel : Nat) (h2 : 2 ≤ fuel) :
    C18Ok (ctxOfRing g names) fuel :=
  { one_mul := one_mul, z0 := by simp [ctxOfRing, isZeroD], orth := rfl, fuel2 := h2 }

/-- **What the C18 theorems are about is what the current source computes.**  For every
commutative ring with decidable equality, every diagonal metric `g` and all multivectors whose
bitmaps are below the loop bound: the operators `* ^ | << >>` of the current source are
`mvMul`, `mvOuter`, `mvInner`, `mvLeftContraction`, `mvRightContraction`; `rev`, `invol`,
`project` are the model's; `norm_squared` is `normSquared`; `inv` is the model's `inv`; `==`
is `mvEq`; `bool` is `mvBool`.  Hence `product_assoc`, `product_distrib`, `rev_antiauto`,
`invol_auto`, `inv_mul_self`, `norm_sq_general`, `eq_iff_coeffwise`, … (and `+`, `-`:
`mvAdd`, `mvSub`) of
PV/Properties/C18.lean are statements about the current source text. -/
theorem model_is_current_source (g : Nat → R) (names : List String) (fuel : Nat) (h2 : 2 ≤ fuel)
    (x y : MVOf R) (hx : C18Dict fuel x) (r : Nat) :
    let Γ := ctxOfRing g names
    c18Call gaTableCurrent Γ fuel "MultiVector.__mul__" [.mv x, .mv y] [] = .ok (.mv (mvMul g x y)) ∧
    c18Call gaTableCurrent Γ fuel "MultiVector.__xor__" [.mv x, .mv y] []
      = .ok (.mv (mvOuter g x y)) ∧
    c18Call gaTableCurrent Γ fuel "MultiVector.__or__" [.mv x, .mv y] []
      = .ok (.mv (mvInner g x y)) ∧
    c18Call gaTableCurrent Γ fuel "MultiVector.__lshift__" [.mv x, .mv y] []
      = .ok (.mv (mvLeftContraction g x y)) ∧
    c18Call gaTableCurrent Γ fuel "MultiVector.__rshift__" [.mv x, .mv y] []
      = .ok (.mv (mvRightContraction g x y)) ∧
    c18Call gaTableCurrent Γ fuel "MultiVector.rev" [.mv x] [] = .ok (.mv (rev x)) ∧
    c18Call gaTableCurrent Γ fuel "MultiVector.invol" [.mv x] [] = .ok (.mv (invol x)) ∧
    c18Call gaTableCurrent Γ fuel "MultiVector.project" [.mv x, .nat r] []
      = .ok (.mv (project x r)) ∧
    c18Call gaTableCurrent Γ fuel "MultiVector.inv" [.mv x] []
      = c18InvOf Γ (inv g names.length x) ∧
    c18Call gaTableCurrent Γ fuel "MultiVector.__eq__" [.mv x, .mv y] []
      = .ok (.bool (mvEq x y)) ∧
    c18Call gaTableCurrent Γ fuel "MultiVector.__bool__" [.mv x] [] = .ok (.bool (mvBool x)) ∧
    ((dkeys y).Nodup → (∀ k ∈ dkeys y, k < fuel) →
      c18Call gaTableCurrent Γ fuel "MultiVector.__add__" [.mv x, .mv y] []
        = .ok (.mv (mvAdd x y)) ∧
      c18Call gaTableCurrent Γ fuel "MultiVector.__sub__" [.mv x, .mv y] []
        = .ok (.mv (mvSub x y))) := by
  intro Γ
  have ok := ctxOfRing_ok g names fuel h2
  have hp := products_eq_table_current Γ fuel ok x (.mv y) y rfl hx.2
  have hg := grade_maps_eq_table_current Γ fuel x hx r
  have hn := neg_bool_hash_eq_table_current Γ fuel x hx.1 (.mv y) y rfl
  refine ⟨hp.1, hp.2.1, hp.2.2.1, hp.2.2.2.1, hp.2.2.2.2, hg.1, hg.2.1, hg.2.2.1,
    inv_eq_table_current Γ fuel ok x hx, ?_, hn.2.1, ?_⟩
  · rw [hn.2.2.2]
    congr 2
    exact eq_val_model x y
  · intro hy1 hy2
    have ha := add_sub_div_eq_table_current Γ fuel ok x y hx ⟨hy1, hy2⟩
    exact ⟨ha.1, ha.2.1⟩

/-- **A plain scalar on either side of `* ^ | << >>` is the grade-0 multivector on that side**, in
the current source, for every commutative ring with decidable equality: `c OP x` (reflected
methods) is the model's product `OP (ofScalar c) x`, `x OP c` (forward methods, `_cast_or_ni`) is
`OP x (ofScalar c)` — the products the grade-part theorems of PV/Properties/C18.lean
(`outer_is_grade_part` … `rc_is_grade_part`) are about. -/
theorem scalar_operand_is_current_source (g : Nat → R) (names : List String) (fuel : Nat)
    (h2 : 2 ≤ fuel) (x : MVOf R) (c : R) (hx : ∀ k ∈ dkeys x, k < fuel) :
    let Γ := ctxOfRing g names
    (c18Call gaTableCurrent Γ fuel "MultiVector.__rmul__" [.mv x, .coef c] []
        = .ok (.mv (mvMul g (ofScalar c) x)) ∧
      c18Call gaTableCurrent Γ fuel "MultiVector.__rxor__" [.mv x, .coef c] []
        = .ok (.mv (mvOuter g (ofScalar c) x)) ∧
      c18Call gaTableCurrent Γ fuel "MultiVector.__ror__" [.mv x, .coef c] []
        = .ok (.mv (mvInner g (ofScalar c) x)) ∧
      c18Call gaTableCurrent Γ fuel "MultiVector.__rlshift__" [.mv x, .coef c] []
        = .ok (.mv (mvLeftContraction g (ofScalar c) x)) ∧
      c18Call gaTableCurrent Γ fuel "MultiVector.__rrshift__" [.mv x, .coef c] []
        = .ok (.mv (mvRightContraction g (ofScalar c) x))) ∧
    (c18Call gaTableCurrent Γ fuel "MultiVector.__mul__" [.mv x, .coef c] []
        = .ok (.mv (mvMul g x (ofScalar c))) ∧
      c18Call gaTableCurrent Γ fuel "MultiVector.__xor__" [.mv x, .coef c] []
        = .ok (.mv (mvOuter g x (ofScalar c))) ∧
      c18Call gaTableCurrent Γ fuel "MultiVector.__or__" [.mv x, .coef c] []
        = .ok (.mv (mvInner g x (ofScalar c))) ∧
      c18Call gaTableCurrent Γ fuel "MultiVector.__lshift__" [.mv x, .coef c] []
        = .ok (.mv (mvLeftContraction g x (ofScalar c))) ∧
      c18Call gaTableCurrent Γ fuel "MultiVector.__rshift__" [.mv x, .coef c] []
        = .ok (.mv (mvRightContraction g x (ofScalar c)))) := by
  intro Γ
  have ok := ctxOfRing_ok g names fuel h2
  exact ⟨reflected_products_eq_table_current Γ fuel ok x c,
    products_eq_table_current Γ fuel ok x (.coef c) (ofScalar c) rfl hx⟩

end Ring

/-- **The order of the operands matters for the contractions even when one is a scalar**: with
the Euclidean metric over the integers `3 << e0 = 3 e0` but `e0 << 3 = 0`, and `3 >> e0 = 0` but
`e0 >> 3 = 3 e0` — "scalars commute with every multivector" holds for `* ^ |` only, so a reflected
contraction may not be computed by the forward one with the operands swapped. -/
theorem scalar_contraction_order_matters :
    mvLeftContraction (fun _ => (1 : Int)) (ofScalar 3) [(1, 1)] = [(1, 3)] ∧
    mvLeftContraction (fun _ => (1 : Int)) [(1, 1)] (ofScalar 3) = [] ∧
    mvRightContraction (fun _ => (1 : Int)) (ofScalar 3) [(1, 1)] = [] ∧
    mvRightContraction (fun _ => (1 : Int)) [(1, 1)] (ofScalar 3) = [(1, 3)] := by decide +kernel

/-! ### non-vacuity: the hypotheses are satisfiable, the interpreter returns the values -/

/-- the integers with the exact zero test, Euclidean metric, three dimensions -/
def ctxInt : C18Ctx Int :=
  { z := fun x => x == 0, ceq := fun a b => a == b, div := fun a b => a / b, g := fun _ => 1,
    names := ["e0", "e1", "e2"], orth := true, euclid := true, hspace := 0, hb := id,
    hc := fun c => c.toNat }

example : c18Call gaTableCurrent ctxInt 64 "bit_count" [.nat 0b101101] [] = .ok (.nat (bitCount 45)) :=
  bit_count_eq_table_current ctxInt 64 45 (by decide)
example : c18Call gaTableCurrent ctxInt 64 "canonical_reordering_sign" [.nat 2, .nat 1] []
    = .ok (.ofInt (reorderSign 2 1)) := reorder_sign_eq_table_current ctxInt 64 2 1 (by decide)
example : reorderSign 2 1 = -1 := by decide +kernel
example : C18Dict 64 ([(1, 2), (6, -1)] : MVOf Int) := by
  constructor <;> decide
example := (generic_product_eq_table_current ctxInt 64 (fun r => Int.one_mul r) rfl rfl (by decide)
  [(1, 2), (6, -1)] [(3, 1)] (by decide)).2.1
example := grade_maps_eq_table_current ctxInt 64 [(1, 2), (6, -1)] (by constructor <;> decide) 1

theorem ctxInt_ok : C18Ok ctxInt 64 :=
  { one_mul := fun r => Int.one_mul r, z0 := rfl, orth := rfl, fuel2 := by decide }

example := (products_eq_table_current ctxInt 64 ctxInt_ok [(1, 2), (6, -1)] (.coef 3) [(0, 3)] rfl
  (by decide)).1
example := (reflected_products_eq_table_current ctxInt 64 ctxInt_ok [(1, 2), (6, -1)] 3).2.2.2.1
example := ((scalar_operand_is_current_source (fun _ => (1 : Rat)) ["e0", "e1"] 16 (by decide)
  [(1, 2), (2, 1 / 2)] 3 (by decide)).1).2.2.2.2
example := inv_eq_table_current ctxInt 64 ctxInt_ok [(1, 2), (2, -1)] (by constructor <;> decide)
example := (scalar_product_eq_table_current ctxInt 64 ctxInt_ok [(1, 2), (2, -1)] [(1, 5)]
  (by constructor <;> decide)).2.2.1
example := add_sub_div_eq_table_current ctxInt 64 ctxInt_ok [(1, 2), (6, -1)] [(1, -2)]
  (by constructor <;> decide) (by constructor <;> decide)
example := grade_dual_eq_table_current ctxInt 64 ctxInt_ok [(1, 2), (6, -1)]
  (by constructor <;> decide) (by decide)
example := (model_is_current_source (fun _ => (1 : Rat)) ["e0", "e1"] 16 (by decide)
  [(1, 2), (2, 1 / 2)] [(3, 1)] (by constructor <;> decide) 1).2.2.2.2.2.2.2.2.1

end PV.C18
