import PV.Model.AnalysisHistory
import PV.Properties.C09
/-
  C09 — histories: ONE analysis object is given several expressions in a row ("cached and
  uncached").  The model functions are pure, so the model answer of a history is the list of the
  single answers; the theorems below say that an answer inside a history is the single-call
  answer (whatever was asked before or afterwards), hence exact, and tie the running `count` of one
  `NodeCountMapper` to `get_num_nodes` of the tuple of everything it walked.
-/
set_option linter.unusedTactic false
set_option linter.unreachableTactic false
namespace PV.C09
open PV

/-- the loop over the steps is the map of the single calls -/
theorem depsHist_eq_map (steps : List (DepFlags × Bool × Expr)) :
    depsHist steps = steps.map (fun s => depsCall s.1 s.2.1 s.2.2) := by
  induction steps with
  | nil => rfl
  | cons s rest ih =>
    obtain ⟨fl, c, e⟩ := s
    simp [depsHist, ih]

example : depsHist [({}, true, .nary .sum [.var "x", .var "y"]), ({}, true, .var "x")]
    = [.ok [.var "x", .var "y"], .ok [.var "x"]] := by decide

/-- answers of a prefix are not changed by later calls, answers of later calls do not depend on
the calls before -/
theorem depsHist_append (a b : List (DepFlags × Bool × Expr)) :
    depsHist (a ++ b) = depsHist a ++ depsHist b := by
  simp [depsHist_eq_map]

/-- **History independence.**  The answer to a call inside a history — any calls before it, any
calls after it, on the same or on other mapper objects — is the answer of that call alone. -/
theorem depsHist_call (pre post : List (DepFlags × Bool × Expr)) (fl : DepFlags) (cached : Bool)
    (e : Expr) :
    (depsHist (pre ++ (fl, cached, e) :: post))[pre.length]? = some (depsCall fl cached e) := by
  simp [depsHist_eq_map]

/-- **Exactness inside a history**: a set answered anywhere in a history consists of occurrences
selected by the flags of the mapper asked, and every such occurrence is reported up to `==`. -/
theorem depsHist_exact (pre post : List (DepFlags × Bool × Expr)) (fl : DepFlags) (cached : Bool)
    (e : Expr) (r : List Expr) (hwf : e.wf = true)
    (h : (depsHist (pre ++ (fl, cached, e) :: post))[pre.length]? = some (.ok r)) :
    (∀ y ∈ r, Occurs fl e y) ∧ (∀ x, Occurs fl e x → ∃ y ∈ r, y.pyEq x = true) := by
  rw [depsHist_call] at h
  have h' : depsCall fl cached e = .ok r := by simpa using h
  unfold depsCall at h'
  split at h'
  · cases h'
  · exact deps_exact hwf h'

example : (∀ y ∈ [Expr.var "x"], Occurs {} (.var "x") y) ∧
    (∀ x, Occurs {} (.var "x") x → ∃ y ∈ [Expr.var "x"], y.pyEq x = true) :=
  depsHist_exact [({}, true, .nary .sum [.var "x", .var "y"])] [] {} true (.var "x") [.var "x"]
    (by decide) (by decide)

/-- `get_num_nodes` called repeatedly: every answer is the single answer -/
theorem numNodesHist_eq_map (es : List Expr) : numNodesHist es = es.map c09NumNodes := by
  induction es with
  | nil => rfl
  | cons e rest ih => simp [numNodesHist, ih]

/-- ONE `NodeCountMapper` given `es` one after the other: when the walk of the whole list from the
cache `cache` makes `k` `post_visit`s, the last value of `count` is the start value plus `k`. -/
theorem countHist_last : ∀ (es : List Expr) (n : Nat) (cache : List Expr) (k : Nat)
    (cache' : List Expr), es ≠ [] → Expr.hasListL es = false →
    c09CountWalkL es cache = .ok (k, cache') →
    (countHist es n cache).getLast? = some (.ok (n + k))
  | [], _, _, _, _, hne, _, _ => absurd rfl hne
  | e :: rest, n, cache, k, cache', _, hl, h => by
    simp only [Expr.hasListL, Bool.or_eq_false_iff] at hl
    simp only [c09CountWalkL] at h
    obtain ⟨x, c1, y, h1, h2, hk⟩ := c09Seq_eq_ok h
    simp only [countHist, hl.1, Bool.false_eq_true, if_false, h1]
    cases rest with
    | nil =>
      simp only [c09CountWalkL, Except.ok.injEq, Prod.mk.injEq] at h2
      simp [countHist, hk, ← h2.1]
    | cons e2 rest2 =>
      have ih := countHist_last (e2 :: rest2) (n + x) c1 y cache' (by simp) hl.2 h2
      rw [List.getLast?_cons, ih, hk]
      simp [Nat.add_assoc]

/-- **The running count of one `NodeCountMapper` is `get_num_nodes` of the tuple of everything
it walked, minus the tuple itself.** -/
theorem countHist_tuple (es : List Expr) (hne : es ≠ []) (m : Nat)
    (h : c09NumNodes (.tuple es) = .ok m) :
    1 ≤ m ∧ (countHist es 0 []).getLast? = some (.ok (m - 1)) := by
  unfold c09NumNodes c09NumNodesKeys at h
  by_cases hl : (Expr.tuple es).hasList = true
  · simp [hl] at h
  · have hl' : Expr.hasListL es = false := by
      simpa [Expr.hasList] using hl
    simp only [hl] at h
    rw [c09CountWalk] at h
    simp only [c09Cached, c09Hit, List.any_nil, Bool.false_eq_true, if_false] at h
    rcases hw : c09CountWalkL es [] with err | ⟨k, c1⟩
    · simp [hw, c09Store] at h
    · simp only [hw, c09Store, Except.ok.injEq] at h
      subst h
      refine ⟨by omega, ?_⟩
      have := countHist_last es 0 [] k c1 hne hl' hw
      simpa using this

/-- hence the bounds of `numNodes_between` hold for the running count: between the number of
classes under `==` and the number of structurally distinct subterms of everything walked so far
(the tuple of the history counts as one more subterm on both sides) -/
theorem countHist_between (es : List Expr) (hne : es ≠ []) (hwf : (Expr.tuple es).wf = true)
    (m : Nat) (h : c09NumNodes (.tuple es) = .ok m) :
    ∃ n, (countHist es 0 []).getLast? = some (.ok n) ∧
      (dedupBy Expr.pyEq (c09Subterms (.tuple es))).length ≤ n + 1 ∧
      n + 1 ≤ numDistinct (.tuple es) := by
  obtain ⟨h1, h2⟩ := countHist_tuple es hne m h
  obtain ⟨b1, b2⟩ := numNodes_between hwf h
  exact ⟨m - 1, h2, by omega, by omega⟩

example : (countHist [.nary .sum [.var "x", .var "y"], .var "x",
    .nary .prod [.var "x", .var "w"]] 0 []).getLast? = some (.ok 5) := by decide

/-- ONE memoizing `FlopCounter` given several trees: every count it answers is the independent
operation count of the tree asked — whatever it was asked before. -/
theorem flopsHist_plain_exact : ∀ (es : List Expr) (seen : List Expr) (i : Nat) (n : Nat),
    (flopsHist false es seen)[i]? = some (.ok n) → ∃ e, es[i]? = some e ∧ n = countOps e
  | [], _, i, n, h => by simp [flopsHist] at h
  | e :: rest, seen, i, n, h => by
    unfold flopsHist at h
    by_cases hl : e.hasList = true
    · simp only [hl, Bool.not_false, Bool.and_self, if_true] at h
      cases i <;> simp at h
    · simp only [hl, Bool.and_false, Bool.false_eq_true, if_false] at h
      rcases hf : flopsG false e seen with err | ⟨m, seen'⟩
      · simp only [hf] at h
        cases i <;> simp at h
      · simp only [hf] at h
        obtain ⟨hm, hs⟩ := flops_eq_count e seen m seen' hf
        cases i with
        | zero =>
          simp only [List.getElem?_cons_zero, Option.some.injEq, Except.ok.injEq] at h
          exact ⟨e, by simp, by omega⟩
        | succ j =>
          simp only [List.getElem?_cons_succ] at h
          obtain ⟨e', he', hn⟩ := flopsHist_plain_exact rest seen' j n h
          exact ⟨e', by simpa using he', hn⟩

example : flopsHist false [.nary .sum [.var "x", .var "y"], .nary .prod [.var "x", .var "y", .var "z"],
    .nary .sum [.var "x", .var "y"]] [] = [.ok 1, .ok 2, .ok 1] := by decide

/-- ONE `CSEAwareFlopCounter`: the seen-set an answered call leaves behind is the one the next
call starts from (per object, on purpose) — together with `flopsCse_once` / `flopsCse_first`: a
wrapper counted in an earlier call of the same object costs 0 afterwards. -/
theorem flopsHist_thread (aware : Bool) (e : Expr) (rest seen seen' : List Expr) (n : Nat)
    (hl : (!aware && e.hasList) = false) (h : flopsG aware e seen = .ok (n, seen')) :
    flopsHist aware (e :: rest) seen = .ok n :: flopsHist aware rest seen' := by
  rw [flopsHist]
  simp [hl, h]

example : flopsHist true [.nary .sum [.cse (.nary .prod [.var "x", .var "y"]) none "e", .var "z"],
    .cse (.nary .prod [.var "x", .var "y"]) none "e"] [] = [.ok 2, .ok 0] := by decide

end PV.C09
