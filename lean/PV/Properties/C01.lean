import PV.Proofs.EqHash
import PV.Proofs.EqHashOwn
import PV.Proofs.EqHashStock
import PV.Proofs.Pickle
import PV.Properties.C17
import PV.Generated.Classes
import PV.Generated.PostInit
/-
  C01 — expression nodes: structural equality, consistent hashing, immutability.

  Model.  lean/PV/Model/Classes.lean: the class table (one record per `Expression` subclass; what
  the GENERATED source of `__eq__`, `__hash__`, `__getstate__`, `__setstate__`, `init_arg_names`,
  `__getinitargs__` of each decorated class mentions; frozen flag; mapper method), regenerated from
  the live classes on every check into `PV.Generated.classes`.
  lean/PV/Model/EqHash.lean: `eqGen tbl P` / `hashGen tbl P`, the generated methods written like
  the template and reading their field lists from the table; `step1` / `run1`: histories of
  hash / == / != / in / dict insert / dict lookup / copy / rebuild / identity mapper / pickle /
  unpickle / setattr / delattr over a pool of objects with per-instance `_hash_value` slots
  (extending lean/PV/Model/Pickle.lean).  Objects are `PV.Pickle.Obj`; `Obj.pyEq` is the property's
  notion of equality: same node class and pairwise `==` fields.

  lean/PV/Model/EqHashOwn.lean: the HAND-WRITTEN `__eq__` / `__ne__` / `__hash__` of `Polynomial`,
  `Rational` and their subclasses (and the constructor of `Rational`), run from the records
  `PV.Generated.c01OwnEqs` that extract/classes.py reads from their source, inside Python's `==` as
  CPython dispatches it (`ownEq`, `hashX`; sections 6 and 7 below).
  `ClassTable.inMode` / `step1D` / `run1D`: the same histories in an interpreter with
  `__debug__ = false` (`python -O`; the decorator says `frozen=__debug__`; section 8).

  Hypotheses and why:
    `tbl.Ok`         the decidable side condition on the class table (every generated method of
                     every decorated class mentions exactly the dataclass fields, in order; class
                     tested; frozen; hashable).  Discharged for the current tree by `ok_current`;
                     `eq_ignores_dropped_field_cex`, `eq_decided_by_hash_cex` show what happens
                     without it;
    `P.Ok`           CPython's hash contract (numbers by value, mappings order-independent);
    `o.wf`           no float nan CONSTANT inside (nan != nan), keyword names duplicate-free;
    `conforms tbl o` every instance in `o` is an instance of a class of the table, with one value
                     per field;
    `tbl.Immutable`  / "no operation rebound a field": see `hash_cache_inv`.
-/
namespace PV.C01
open PV PV.Pickle PV.EqHash

/-! ### T-gen: the class table of the current tree -/

/-- **ok_current.**  In the working tree the generated `__eq__`, `__hash__`, `__getstate__`,
`__setstate__`, `init_arg_names`, `__getinitargs__` of EVERY decorated class mention exactly the
dataclass fields of the class, in order; `__eq__` tests the class; the dataclass is frozen; it has
a `mapper_method`; every class is hashable and none defines `__eq__` without `__hash__`. -/
theorem ok_current : ClassTable.Ok Generated.classes = true := by decide

/-- the table is not empty and covers the stock classes (non-vacuity of `ok_current`) -/
example : (Generated.classes.find? "CallWithKwargs").map (·.eqFields)
    = some ["function", "parameters", "kw_parameters"] := by decide
example : (Generated.classes.find? "Comparison").map (·.hashFields)
    = some ["left", "operator", "right"] := by decide
example : 30 ≤ (Generated.classes.filter (·.kind == .dataclass)).length := by decide

/-- **stock_current.**  For the class table of the CURRENT tree and all nan-free stock trees
`a`, `b` (every stock node class, any depth): their objects are instances of the table's classes
(`ofExpr_conforms`), so the generated `__eq__` answers the field-wise `==` of the two objects; and
trees that are `==` in the sense of `Expr.pyEq` (the `==` used by every other property's model) are
equal under the generated `__eq__`, in both directions, and have equal generated hashes. -/
theorem stock_current {P : HashParams} (hP : P.Ok) (a b : Expr) (wa : a.wf = true)
    (wb : b.wf = true) :
    eqGen Generated.classes P (ofExpr a) (ofExpr b) = (ofExpr a).pyEq (ofExpr b) ∧
    (a.pyEq b = true →
      eqGen Generated.classes P (ofExpr a) (ofExpr b) = true ∧
      eqGen Generated.classes P (ofExpr b) (ofExpr a) = true ∧
      hashGen Generated.classes P (ofExpr a) = hashGen Generated.classes P (ofExpr b)) := by
  have ca := ofExpr_conforms a
  have cb := ofExpr_conforms b
  have wa' := ofExpr_wf a wa
  have wb' := ofExpr_wf b wb
  have e1 := eqGen_eq_pyEq ok_current hP _ _ wa' wb' ca cb
  refine ⟨e1, fun h => ?_⟩
  have h1 : (ofExpr a).pyEq (ofExpr b) = true := ofExpr_pyEq a b h
  have h2 := Obj.pyEq_symm _ _ wa' wb' h1
  refine ⟨by rw [e1]; exact h1, by rw [eqGen_eq_pyEq ok_current hP _ _ wb' wa' cb ca]; exact h2, ?_⟩
  rw [hashGen_eq_hash ok_current P _ ca, hashGen_eq_hash ok_current P _ cb]
  exact Obj.eq_hash hP _ _ wa' wb' h1

/-- non-vacuity: `f(x, k=1, j=y) == f(x, j=y, k=1.0)` under the generated method of the current
table; a comparison differing in its operator is not -/
example :
    let a := Expr.callKw (.var "f") [.var "x"] ["k", "j"] [.const (.int 1), .var "y"]
    let b := Expr.callKw (.var "f") [.var "x"] ["j", "k"] [.var "y", .const (.flt "1.0" 1 1)]
    a.pyEq b = true ∧ eqGen Generated.classes (C17.exP 0) (ofExpr a) (ofExpr b) = true ∧
    eqGen Generated.classes (C17.exP 0) (ofExpr (.cmp .lt (.var "x") (.var "y")))
      (ofExpr (.cmp .le (.var "x") (.var "y"))) = false := by decide

/-! ### a small table for examples: a decorated class, an undecorated alias, a legacy subclass
with an extra init arg, a legacy class -/

def exInfo (name : String) (fields : List String) : ClassInfo :=
  { name := name, module := "ex", kind := .dataclass, base := name, fields := fields,
    eqFields := fields, eqClassChecked := true, hashFields := fields, hashInstalled := true,
    getstateFields := fields, setstateFields := fields, initArgNames := fields,
    getinitargsFields := fields, frozen := true, mapperMethod := some "map_x", hashable := true,
    ownEq := false, ownHash := false }

def exSub (name base : String) (fields : List String) : ClassInfo :=
  { name := name, module := "ex", kind := .sub, base := base, fields := fields,
    eqFields := [], eqClassChecked := false, hashFields := [], hashInstalled := false,
    getstateFields := [], setstateFields := [], initArgNames := [],
    getinitargsFields := [], frozen := false, mapperMethod := some "map_x", hashable := true,
    ownEq := false, ownHash := false }

def exTbl : ClassTable :=
  [exInfo "Variable" ["name"], exInfo "Lookup" ["aggregate", "name"],
   exSub "Alias" "Lookup" ["aggregate", "name"], exSub "Tagged" "Variable" ["name", "tag"],
   { exSub "Pair" "" ["left", "right"] with kind := .legacy }]

theorem exTbl_ok : exTbl.Ok = true := by decide

def vx : Obj := .inst "Variable" .dataclass [strAtom "x"] none
def vy : Obj := .inst "Variable" .dataclass [strAtom "yy"] none
def lookup (a : Obj) (n : String) : Obj := .inst "Lookup" .dataclass [a, strAtom n] none

/-! ### 1. `==` is "same class and pairwise-equal fields" -/

/-- **eq_iff_structural.**  For every class table satisfying `Ok`, every hash function meeting
CPython's contract and all well-formed objects over the table: the generated `__eq__` — class test,
hash fast path, legacy branch, field-wise comparison of the fields the table lists, nested fields
through the same method — answers exactly "same class and pairwise `==` fields".  The content is
that the hash fast path (`if hash(self) != hash(other): return False`) can never answer False for
structurally equal objects, at any nesting depth. -/
theorem eq_iff_structural {tbl : ClassTable} (ok : tbl.Ok = true) {P : HashParams} (hP : P.Ok)
    (a b : Obj) (wa : a.wf = true) (wb : b.wf = true) (ca : conforms tbl a = true)
    (cb : conforms tbl b = true) : eqGen tbl P a b = a.pyEq b :=
  eqGen_eq_pyEq ok hP a b wa wb ca cb

/-- the same for two instances, spelled out: equal iff same class, same number of fields, and the
fields are pairwise `==` -/
theorem eq_iff_structural_inst {tbl : ClassTable} (ok : tbl.Ok = true) {P : HashParams} (hP : P.Ok)
    (c c' : String) (k k' : Kind) (fs fs' : List Obj) (h h' : Option Nat)
    (wa : (Obj.inst c k fs h).wf = true) (wb : (Obj.inst c' k' fs' h').wf = true)
    (ca : conforms tbl (.inst c k fs h) = true) (cb : conforms tbl (.inst c' k' fs' h') = true) :
    eqGen tbl P (.inst c k fs h) (.inst c' k' fs' h') = true ↔
      c = c' ∧ k = k' ∧ fs.length = fs'.length ∧ ∀ p ∈ fs.zip fs', p.1.pyEq p.2 = true := by
  rw [eq_iff_structural ok hP _ _ wa wb ca cb]
  simp only [Obj.pyEq, Bool.and_eq_true, beq_iff_eq, pyEqL_iff, and_assoc]

/-- non-vacuity: objects that differ in exactly one field, objects of different classes with the
same fields, the undecorated alias of a decorated class, `1 == 1.0 == True` inside a field -/
example :
    eqGen exTbl (C17.exP 0) (lookup vx "a") (lookup vx "a") = true ∧
    eqGen exTbl (C17.exP 0) (lookup vx "a") (lookup vx "b") = false ∧
    eqGen exTbl (C17.exP 0) (lookup vx "a") (lookup vy "a") = false ∧
    eqGen exTbl (C17.exP 0) (lookup vx "a") (.inst "Alias" .dataclass [vx, strAtom "a"] none) = false ∧
    eqGen exTbl (C17.exP 0) (lookup (.atom (.int 1)) "a") (lookup (.atom (.bool true)) "a") = true ∧
    conforms exTbl (.inst "Alias" .dataclass [vx, strAtom "a"] none) = true := by decide

/-- what a constructor call stores (`__post_init__`): a comparison operator given by name and
`scope=None` are normalised, so the two source forms build `==` objects -/
example :
    eqGen Generated.classes (C17.exP 0)
      (postInit (.inst "Comparison" .dataclass [vx, strAtom "lt", vy] none))
      (postInit (.inst "Comparison" .dataclass [vx, strAtom "<", vy] none)) = true ∧
    eqGen Generated.classes (C17.exP 0)
      (postInit (.inst "CommonSubexpression" .dataclass [vx, .atom .none, .atom .none] none))
      (postInit (.inst "CommonSubexpression" .dataclass [vx, .atom .none, strAtom "pymbolic_eval"] none))
        = true := by decide

/-! ### 2. equivalence relation; equal ⇒ equal hash -/

/-- **eq_refl.** -/
theorem eq_refl {tbl : ClassTable} (ok : tbl.Ok = true) {P : HashParams} (hP : P.Ok) (a : Obj)
    (wa : a.wf = true) (ca : conforms tbl a = true) : eqGen tbl P a a = true := by
  rw [eq_iff_structural ok hP a a wa wa ca ca]
  exact Obj.pyEq_refl a wa

/-- **eq_symm.** -/
theorem eq_symm {tbl : ClassTable} (ok : tbl.Ok = true) {P : HashParams} (hP : P.Ok) (a b : Obj)
    (wa : a.wf = true) (wb : b.wf = true) (ca : conforms tbl a = true) (cb : conforms tbl b = true)
    (h : eqGen tbl P a b = true) : eqGen tbl P b a = true := by
  rw [eq_iff_structural ok hP _ _ wa wb ca cb] at h
  rw [eq_iff_structural ok hP _ _ wb wa cb ca]
  exact Obj.pyEq_symm a b wa wb h

/-- **eq_trans.** -/
theorem eq_trans {tbl : ClassTable} (ok : tbl.Ok = true) {P : HashParams} (hP : P.Ok) (a b c : Obj)
    (wa : a.wf = true) (wb : b.wf = true) (wc : c.wf = true) (ca : conforms tbl a = true)
    (cb : conforms tbl b = true) (cc : conforms tbl c = true)
    (h1 : eqGen tbl P a b = true) (h2 : eqGen tbl P b c = true) : eqGen tbl P a c = true := by
  rw [eq_iff_structural ok hP _ _ wa wb ca cb] at h1
  rw [eq_iff_structural ok hP _ _ wb wc cb cc] at h2
  rw [eq_iff_structural ok hP _ _ wa wc ca cc]
  exact Obj.pyEq_trans a b c wa wb wc h1 h2

/-- **eq_hash.**  Equal objects have equal hashes — the generated `__hash__` of one and of the
other, for every hash function meeting CPython's contract — so each can stand in for the other as
a dict or set key. -/
theorem eq_hash {tbl : ClassTable} (ok : tbl.Ok = true) {P : HashParams} (hP : P.Ok) (a b : Obj)
    (wa : a.wf = true) (wb : b.wf = true) (ca : conforms tbl a = true) (cb : conforms tbl b = true)
    (h : eqGen tbl P a b = true) : hashGen tbl P a = hashGen tbl P b := by
  rw [eq_iff_structural ok hP _ _ wa wb ca cb] at h
  rw [hashGen_eq_hash ok P a ca, hashGen_eq_hash ok P b cb]
  exact Obj.eq_hash hP a b wa wb h

/-- the nan CONSTANT is the reason for `wf` (a `NaN` NODE is an ordinary instance and fine) -/
example : eqGen exTbl (C17.exP 0) (lookup (.atom (.flt "nan" 0 0)) "a")
    (lookup (.atom (.flt "nan" 0 0)) "a") = false := by decide

/-- **legacy_eq_hash.**  The same laws for instances of legacy classes (init-args protocol:
`Expression.__eq__` / `is_equal` / `get_hash`, or the legacy branch of the generated methods of a
decorated ancestor), the init args being the positional fields of the instance: the answer is
structural, symmetric, and equal instances hash equal. -/
theorem legacy_eq_hash {tbl : ClassTable} (ok : tbl.Ok = true) {P : HashParams} (hP : P.Ok)
    (c : String) (k : Kind) (fs : List Obj) (h : Option Nat) (_hk : k ≠ .dataclass) (b : Obj)
    (wa : (Obj.inst c k fs h).wf = true) (wb : b.wf = true)
    (ca : conforms tbl (.inst c k fs h) = true) (cb : conforms tbl b = true) :
    eqGen tbl P (.inst c k fs h) b = (Obj.inst c k fs h).pyEq b ∧
      (eqGen tbl P (.inst c k fs h) b = true →
        eqGen tbl P b (.inst c k fs h) = true ∧
        hashGen tbl P (.inst c k fs h) = hashGen tbl P b) :=
  ⟨eq_iff_structural ok hP _ _ wa wb ca cb,
   fun he => ⟨eq_symm ok hP _ _ wa wb ca cb he, eq_hash ok hP _ _ wa wb ca cb he⟩⟩

/-- non-vacuity: a legacy subclass with an extra init arg, a legacy class -/
example :
    let t1 : Obj := .inst "Tagged" .legacySub [strAtom "v", .atom (.int 1)] none
    let t2 : Obj := .inst "Tagged" .legacySub [strAtom "v", .atom (.int 2)] none
    let p1 : Obj := .inst "Pair" .legacy [vx, .atom (.int 1)] none
    conforms exTbl t1 = true ∧ conforms exTbl p1 = true ∧
    eqGen exTbl (C17.exP 0) t1 t1 = true ∧ eqGen exTbl (C17.exP 0) t1 t2 = false ∧
    eqGen exTbl (C17.exP 0) p1 p1 = true ∧
    eqGen exTbl (C17.exP 0) p1 (.inst "Pair" .legacy [vy, .atom (.int 1)] none) = false := by decide

/-! ### 3. why `Ok` is needed -/

/-- a template that forgot `name` in `__eq__` (and in `__hash__`) -/
def tblDropped : ClassTable :=
  [exInfo "Variable" ["name"],
   { exInfo "Lookup" ["aggregate", "name"] with
     eqFields := ["aggregate"], hashFields := ["aggregate"] }]

/-- **eq_ignores_dropped_field_cex.**  For a table whose `__eq__` (and `__hash__`) omit a field,
two nodes that differ in exactly that field compare equal: `Lookup(x, "a") == Lookup(x, "b")`. -/
theorem eq_ignores_dropped_field_cex :
    tblDropped.Ok = false ∧
    conforms tblDropped (lookup vx "a") = true ∧ conforms tblDropped (lookup vx "b") = true ∧
    (lookup vx "a").pyEq (lookup vx "b") = false ∧
    eqGen tblDropped (C17.exP 0) (lookup vx "a") (lookup vx "b") = true := by decide

/-- a template whose `__hash__` covers `name` while `__eq__` forgot it -/
def tblHashExtra : ClassTable :=
  [exInfo "Variable" ["name"],
   { exInfo "Lookup" ["aggregate", "name"] with eqFields := ["aggregate"] }]

/-- every string hashes to 0: allowed by the contract (`P.Ok`), all strings collide -/
def collideP : HashParams := { C17.exP 0 with str := fun _ => 0 }

theorem collideP_ok : collideP.Ok := ⟨fun _ _ _ _ _ _ _ => rfl, fun _ _ h => h.length_eq⟩

/-- **eq_decided_by_hash_cex.**  For a table whose `__hash__` covers a field that `__eq__`
ignores, whether two nodes differing in that field are `==` is decided by the hash function of the
process (the hash fast path is all that separates them): equal in a process where the two strings
collide, unequal in another.  (With the fast path in place "equal but different hash" cannot be
observed directly; what is lost is that `==` is a function of the fields.) -/
theorem eq_decided_by_hash_cex :
    tblHashExtra.Ok = false ∧
    eqGen tblHashExtra collideP (lookup vx "a") (lookup vx "bb") = true ∧
    eqGen tblHashExtra (C17.exP 0) (lookup vx "a") (lookup vx "bb") = false := by decide

/-! ### 4. fields cannot be rebound -/

/-- **frozen_rejects.**  `setattr` / `delattr` on an attribute that the class table protects
(`frozenFor`) answers `FrozenInstanceError` and changes nothing: not the fields, not a slot, not
the dict. -/
theorem frozen_rejects (tbl : ClassTable) (P : HashParams) (w : World1) (i : Nat) (c f : String)
    (k : Kind) (fs : List Obj) (h : Option Nat) (v : Obj)
    (hi : w.base.pool[i]? = some (.inst c k fs h)) (hf : tbl.frozenFor c f = true) :
    step1 tbl P w (.setattr i f v) = (w, .frozen) ∧ step1 tbl P w (.delattr i f) = (w, .frozen) := by
  simp only [step1, hi, hf, if_true, and_self]

/-- for a table satisfying `Ok`: EVERY attribute of an instance of a decorated class is protected
(`type(self) is cls` in the frozen dataclass's `__setattr__`) -/
theorem ok_frozen_dataclass {tbl : ClassTable} (ok : tbl.Ok = true) {c : String} {i : ClassInfo}
    (hi : tbl.find? c = some i) (hk : i.kind = .dataclass) (f : String) :
    tbl.frozenFor c f = true := by
  have hm := (find?_spec hi).1
  simp only [ClassTable.Ok, Bool.and_eq_true, List.all_eq_true] at ok
  have := ok.2 i hm
  simp only [ClassInfo.ok, hk] at this
  simp only [ClassTable.frozenFor, hi, hk, (okDataclass_spec this).2.2.2.2]

/-- … and every dataclass field inherited by an undecorated subclass is protected -/
theorem ok_frozen_sub {tbl : ClassTable} (ok : tbl.Ok = true) {c : String} {i b : ClassInfo}
    (hi : tbl.find? c = some i) (hk : i.kind = .sub) (hb : tbl.find? i.base = some b) (f : String)
    (hf : f ∈ b.fields) : tbl.frozenFor c f = true := by
  have hm := (find?_spec hi).1
  simp only [ClassTable.Ok, Bool.and_eq_true, List.all_eq_true] at ok
  have h1 := ok.2 i hm
  simp only [ClassInfo.ok, hk, hb, Bool.and_eq_true, beq_iff_eq] at h1
  have h2 := ok.2 b (find?_spec hb).1
  simp only [ClassInfo.ok, h1.2] at h2
  simp only [ClassTable.frozenFor, hi, hk, hb, (okDataclass_spec h2).2.2.2.2, Bool.true_and,
    List.contains_iff_mem, hf]

/-- non-vacuity, and the two kinds of attribute that are NOT protected: the extra init arg of a
legacy subclass of a decorated class, and every init arg of a legacy class -/
example :
    exTbl.frozenFor "Lookup" "name" = true ∧ exTbl.frozenFor "Lookup" "anything" = true ∧
    exTbl.frozenFor "Alias" "name" = true ∧ exTbl.frozenFor "Tagged" "name" = true ∧
    exTbl.frozenFor "Tagged" "tag" = false ∧ exTbl.frozenFor "Pair" "left" = false ∧
    exTbl.Immutable = false := by decide

/-! ### 5. the cached hash never goes stale -/

/-- **hash_cache_inv.**  From any coherent state (every `_hash_value` slot that is set holds the
hash of its object), any history of hash / == / != / `in` / dict insert / dict lookup / copy /
rebuild / identity mapper / pickle / unpickle / setattr / delattr operations in which no `setattr`
went through on a field
  (a) keeps every slot coherent, and
  (b) answers exactly as the slot-free reference semantics does, i.e. as the same operations on
      freshly built objects.
For the operations of Pickle.lean this is `PV.C17.history_refines` (via `step_sim`); the other
operations are treated in `PV.EqHash.step1_sim`. -/
theorem hash_cache_inv (tbl : ClassTable) {P : HashParams} (hP : P.Ok) (w : World1)
    (hc : w.base.coherent P) (hw : w.base.wf) (ops : List Op1)
    (hno : ∀ o ∈ (run1 tbl P w ops).2, o.rebound = false) :
    (run1 tbl P w ops).1.base.coherent P ∧
      (run1 tbl P w ops).2.map Out1.core = (run1Ref tbl w.erased ops).2 := by
  obtain ⟨h1, _, _, h4⟩ := run1_sim tbl hP ops w hc hw hno
  exact ⟨h1, h4⟩

/-- the histories of C17 are the special case (cited: `PV.C17.history_refines`) -/
theorem hash_cache_inv_base {P : HashParams} (hP : P.Ok) (w : World) (hc : w.coherent P)
    (hw : w.wf) (ops : List Op) :
    (run P w ops).1.coherent P ∧ (run P w ops).2.map Out.core = (runRef w.erased ops).2 :=
  C17.history_refines hP w hc hw ops

/-- **hash_cache_inv_frozen.**  When every declared field / init arg of every class of the table
is protected (`Immutable`), NO history rebinds a field, so the conclusion of `hash_cache_inv`
holds for all histories: equality class and hash of every object stay the same for its whole
lifetime, whatever copies, mappers, dict and set look-ups touch it. -/
theorem hash_cache_inv_frozen (tbl : ClassTable) (im : tbl.Immutable = true) {P : HashParams}
    (hP : P.Ok) (w : World1) (hc : w.base.coherent P) (hw : w.base.wf) (ops : List Op1) :
    (run1 tbl P w ops).1.base.coherent P ∧
      (run1 tbl P w ops).2.map Out1.core = (run1Ref tbl w.erased ops).2 :=
  hash_cache_inv tbl hP w hc hw ops (run1_not_rebound tbl im P ops w)

/-- a table of decorated classes and their undecorated aliases satisfying `Ok` is `Immutable`
(non-vacuity of `hash_cache_inv_frozen`) -/
example : ClassTable.Immutable [exInfo "Variable" ["name"], exInfo "Lookup" ["aggregate", "name"],
    exSub "Alias" "Lookup" ["aggregate", "name"]] = true := by decide

/-- the slot-aware `==` and `hash` answer like the table-driven generated methods -/
theorem cached_eq_is_generated {tbl : ClassTable} (ok : tbl.Ok = true) {P : HashParams} (hP : P.Ok)
    (a b : Obj) (ha : a.coherent P) (hb : b.coherent P) (wa : a.wf = true) (wb : b.wf = true)
    (ca : conforms tbl a = true) (cb : conforms tbl b = true) :
    (eqC P a b).1 = eqGen tbl P a b ∧ (a.hashC P).1 = hashGen tbl P a := by
  rw [(eqC_spec hP a b ha hb wa wb).ans, eq_iff_structural ok hP a b wa wb ca cb,
    (hashC_spec P a ha).1, hashGen_eq_hash ok P a ca]
  exact ⟨rfl, rfl⟩

/-- a decidable view of an output -/
def view : Out1 → Nat × Bool × List Bool × List Bool
  | .base (.hash f b) => (0, f, b, [])
  | .base (.eq r a b) => (1, r, a, b)
  | .base (.member r a b) => (2, r, a, b)
  | .base _ => (3, true, [], [])
  | .ne r a b => (4, r, a, b)
  | .copied b => (5, true, b, [])
  | .rebuilt b => (6, true, b, [])
  | .same => (7, true, [], [])
  | .dictSet r b => (8, r, b, [])
  | .dictGet v b => (9, v.isSome, b, [])
  | .frozen => (10, true, [], [])
  | .attrSet f b => (11, f, b, [])
  | .attrDeleted f => (12, f, [], [])
  | .bad => (13, false, [], [])

/-- non-vacuity of the histories: hash, copy, compare, use as dict key, try to rebind -/
example :
    ((run1 exTbl (C17.exP 0) ⟨⟨[lookup vx "a", lookup vx "a"], []⟩, []⟩
        [.base (.hash 0), .copy 0, .base (.eq 2 1), .dictSet 0 7, .dictGet 1,
         .setattr 0 "name" (strAtom "b"), .ne 0 1]).2).map view
      = [(0, true, [true, true], []), (5, true, [false, true], []),
         (1, true, [true, true], [true, true]), (8, false, [true, true], []),
         (9, true, [true, true], []), (10, true, [], []),
         (4, false, [true, true], [true, true])] := by decide

/-- **unfrozen_rebind_stale_cex** (known finding `legacy-fields-rebindable`).  What the frozen
flag prevents, on a class that does not have it: a legacy instance `Pair(x, 1)` is hashed, its init
arg `left` is rebound to `y` (the assignment goes through, the `_hash_value` slot stays), and now
it compares UNEQUAL to a freshly built `Pair(y, 1)` — same class, pairwise-equal fields — because
the stale hash makes the hash fast path fire; it is also not found in a set holding the fresh
object. -/
theorem unfrozen_rebind_stale_cex :
    let w : World1 := ⟨⟨[.inst "Pair" .legacy [vx, .atom (.int 1)] none,
                        .inst "Pair" .legacy [vy, .atom (.int 1)] none], []⟩, []⟩
    let r := run1 exTbl (C17.exP 0) w [.base (.hash 0), .setattr 0 "left" vy, .base (.eq 0 1),
                                       .base (.member 0 1)]
    r.2.map view = [(0, true, [true, true], []), (11, true, [true, false], []),
                    (1, false, [true, false], [true, true]), (2, false, [true, false], [true, true])] ∧
    (match r.1.base.pool with
     | [a, b] => a.pyEq b
     | _ => false) = true := by decide

/-! ### 6. the hand-written `__eq__` / `__hash__` of `Polynomial` and `Rational` -/

/-- class table and hand-written-method records of the CURRENT tree -/
def curX (P : HashParams) : OwnCtx := ⟨Generated.classes, Generated.c01OwnEqs, P⟩

/-- **own_current.**  In the working tree every class whose `__eq__` is hand-written (`Polynomial`,
`Rational`, their subclasses) takes `__eq__`, `__hash__`, `__getinitargs__` from one defining
class; the source of those methods has one of the two known shapes; `__hash__` hashes
`type(self).__name__` and exactly the attributes `__eq__` compares; `__eq__` tests `isinstance`;
`__ne__` is `not self.__eq__(other)`; the constructors have the expected text. -/
theorem own_current : ClassTable.OwnOk Generated.classes Generated.c01OwnEqs = true := by decide

/-- which record each class runs (non-vacuity of `own_current`), and ordinary classes run none -/
theorem own_current_lookup (P : HashParams) :
    ((curX P).own? "Rational").map (fun o => (o.shape, o.eqAttrs)) = some (.rational, ["Numerator", "Denominator"]) ∧
    ((curX P).own? "SubRat").map (·.name) = some "Rational" ∧
    ((curX P).own? "Polynomial").map (fun o => (o.shape, o.eqAttrs)) = some (.polynomial, ["Base", "Data"]) ∧
    ((curX P).own? "SubPoly").map (·.name) = some "Polynomial" ∧
    ((curX P).own? "Variable").isNone = true ∧ ((curX P).own? "LBase").isNone = true := by
  have h : ∀ c, (curX P).own? c = (curX (C17.exP 0)).own? c := fun _ => rfl
  simp only [h]
  decide

/-- **own_conservative.**  On objects with no instance of a hand-written class inside, Python's
`==` as modelled with all of its dispatch (a proper subclass on the right is asked first, builtin
left operands hand over to the reflected method, tuples compare elementwise then by length, `and`
short-circuits) and `hash` ARE the table-driven generated methods: every theorem of sections 1–5
applies to them unchanged. -/
theorem own_conservative (X : OwnCtx) (ok : X.tbl.Ok = true) (a b : Obj)
    (fa : ownFree X a = true) (fb : ownFree X b = true) :
    ownEq X a b = .ok (eqGen X.tbl X.P a b) ∧ ownNe X a b = .ok (!eqGen X.tbl X.P a b) ∧
    hashX X a = hashGen X.tbl X.P a := by
  have h := ownEq_free X ok a b fa fb
  exact ⟨h, by simp only [ownNe, h, Res.not], hashX_free X a fa⟩

/-- **own_eq_fuel_enough.**  `ownEq a b` runs the fuel-indexed recursion `eqF` with
`depth a + depth b + 1` levels; for EVERY pair of objects (hand-written classes nested to any depth,
reflected calls, coercions) any larger amount of fuel gives the same answer: an answer
`Res.unmodelled` never means "out of fuel", only one of the stated abstentions. -/
theorem own_eq_fuel_enough (X : OwnCtx) (a b : Obj) (fuel : Nat)
    (h : objDepth a + objDepth b < fuel) : eqF X fuel a b = ownEq X a b :=
  ownEq_eq_eqF X a b fuel h

example : ownFree (curX (C17.exP 0)) (lookup vx "a") = true ∧
    ownEq (curX (C17.exP 0)) (lookup vx "a") (lookup vx "a") = .ok true ∧
    ownEq (curX (C17.exP 0)) (lookup vx "a") (lookup vy "a") = .ok false := by decide

/-- **own_eq_inst_iff.**  Two instances of the class that DEFINES a hand-written `__eq__` (or of
subclasses: the test is `isinstance`), attribute values ordinary trees: `==` answers exactly the
pairwise `==` of the attributes the method compares (`Base`, `Data` for `Polynomial`; `Numerator`,
`Denominator` for `Rational` — as stored: `Rational(2, 4)` and `Rational(1, 2)` differ) — whatever
the two classes are, whatever the other init args (`Unit`, `VarLess`) hold, and whichever of the
two operands CPython asks first.  So among instances of ONE class the relation is structural on
the compared attributes; it is not "same class" (`own_subclass_hash_cex`) and it ignores init args
(`poly_unit_ignored_cex`). -/
theorem own_eq_inst_iff (X : OwnCtx) (ok : X.tbl.Ok = true) (hP : X.P.Ok) {o : C01OwnEqInfo}
    {c c' : String} (hc : X.own? c = some o) (hc' : X.own? c' = some o)
    (hin : o.eqIsinstance = true) (hi : X.isInstance c o.name = true)
    (hi' : X.isInstance c' o.name = true) (k k' : Kind) (fs fs' : List Obj) (h h' : Option Nat)
    (pf : ∀ x ∈ fs, Plain X x) (pf' : ∀ x ∈ fs', Plain X x) :
    ownEq X (.inst c k fs h) (.inst c' k' fs' h') = .ok (pairsEq (eqVals o fs) (eqVals o fs')) ∧
    ownNe X (.inst c k fs h) (.inst c' k' fs' h') = .ok (!pairsEq (eqVals o fs) (eqVals o fs')) := by
  have h1 := ownEq_inst_spec X ok hP hc hc' hin hi hi' k k' fs fs' h h' pf pf'
  exact ⟨h1, by simp only [ownNe, h1, Res.not]⟩

/-- **own_eq_inst_equiv.**  On instances of the defining class and its subclasses (same number of
init args, ordinary attribute values) the hand-written `==` is reflexive, symmetric and
transitive. -/
theorem own_eq_inst_equiv (X : OwnCtx) (ok : X.tbl.Ok = true) (hP : X.P.Ok) {o : C01OwnEqInfo}
    {c₁ c₂ c₃ : String} (h₁ : X.own? c₁ = some o) (h₂ : X.own? c₂ = some o) (h₃ : X.own? c₃ = some o)
    (hin : o.eqIsinstance = true) (i₁ : X.isInstance c₁ o.name = true)
    (i₂ : X.isInstance c₂ o.name = true) (i₃ : X.isInstance c₃ o.name = true)
    (k₁ k₂ k₃ : Kind) (f₁ f₂ f₃ : List Obj) (s₁ s₂ s₃ : Option Nat)
    (p₁ : ∀ x ∈ f₁, Plain X x) (p₂ : ∀ x ∈ f₂, Plain X x) (p₃ : ∀ x ∈ f₃, Plain X x)
    (l₁₂ : f₁.length = f₂.length) (l₂₃ : f₂.length = f₃.length) :
    ownEq X (.inst c₁ k₁ f₁ s₁) (.inst c₁ k₁ f₁ s₁) = .ok true ∧
    (ownEq X (.inst c₁ k₁ f₁ s₁) (.inst c₂ k₂ f₂ s₂) = .ok true →
      ownEq X (.inst c₂ k₂ f₂ s₂) (.inst c₁ k₁ f₁ s₁) = .ok true) ∧
    (ownEq X (.inst c₁ k₁ f₁ s₁) (.inst c₂ k₂ f₂ s₂) = .ok true →
      ownEq X (.inst c₂ k₂ f₂ s₂) (.inst c₃ k₃ f₃ s₃) = .ok true →
      ownEq X (.inst c₁ k₁ f₁ s₁) (.inst c₃ k₃ f₃ s₃) = .ok true) := by
  have w₁ : ∀ x ∈ eqVals o f₁, x.wf = true := fun x hx => (p₁ x (pick_subset hx)).wf
  have w₂ : ∀ x ∈ eqVals o f₂, x.wf = true := fun x hx => (p₂ x (pick_subset hx)).wf
  have w₃ : ∀ x ∈ eqVals o f₃, x.wf = true := fun x hx => (p₃ x (pick_subset hx)).wf
  rw [ownEq_inst_spec X ok hP h₁ h₁ hin i₁ i₁ k₁ k₁ f₁ f₁ s₁ s₁ p₁ p₁,
    ownEq_inst_spec X ok hP h₁ h₂ hin i₁ i₂ k₁ k₂ f₁ f₂ s₁ s₂ p₁ p₂,
    ownEq_inst_spec X ok hP h₂ h₁ hin i₂ i₁ k₂ k₁ f₂ f₁ s₂ s₁ p₂ p₁,
    ownEq_inst_spec X ok hP h₂ h₃ hin i₂ i₃ k₂ k₃ f₂ f₃ s₂ s₃ p₂ p₃,
    ownEq_inst_spec X ok hP h₁ h₃ hin i₁ i₃ k₁ k₃ f₁ f₃ s₁ s₃ p₁ p₃]
  refine ⟨by rw [pairsEq_refl _ w₁], fun h => ?_, fun h h' => ?_⟩
  · rw [pairsEq_symm _ _ w₂ w₁]; exact h
  · simp only [Res.ok.injEq] at h h' ⊢
    exact pairsEq_trans _ _ _ (pick_length _ _ _ l₁₂ _) (pick_length _ _ _ l₂₃ _) w₁ w₂ w₃ h h'

/-- **own_eq_hash_partial.**  Equal ⇒ equal hash for two instances OF THE SAME CLASS with a
hand-written `__eq__` whose `__hash__` has no unit test (polynomial shape).  The hypothesis "same
class" is needed: the hash contains `type(self).__name__` while `__eq__` accepts subclass
instances (`own_subclass_hash_cex`). -/
theorem own_eq_hash_partial (X : OwnCtx) (ok : X.tbl.Ok = true) (hP : X.P.Ok) {o : C01OwnEqInfo}
    {c : String} (hc : X.own? c = some o) (hok : o.ok = true) (hs : o.shape = .polynomial)
    (hi : X.isInstance c o.name = true) (k k' : Kind) (fs fs' : List Obj) (h h' : Option Nat)
    (hl : fs.length = fs'.length) (pf : ∀ x ∈ fs, Plain X x) (pf' : ∀ x ∈ fs', Plain X x)
    (he : ownEq X (.inst c k fs h) (.inst c k' fs' h') = .ok true) :
    hashX X (.inst c k fs h) = hashX X (.inst c k' fs' h') := by
  simp only [C01OwnEqInfo.ok, hs, Bool.and_eq_true, decide_eq_true_eq, beq_iff_eq, and_assoc,
    Bool.not_eq_true', Option.isNone_iff_eq_none] at hok
  obtain ⟨_, hin, _, _, _, hh, _, _, hu, _⟩ := hok
  rw [ownEq_inst_spec X ok hP hc hc hin hi hi k k' fs fs' h h' pf pf'] at he
  exact ownHash_eq_of_pairsEq X ok hP hc hu hh k k' fs fs' h h' hl pf pf' (by simpa using he)

/-- `Polynomial(x, ((1, 1),))` under the current table -/
def polyX (cls : String) (unit : Int) : Obj :=
  .inst cls .legacy [vx, .tuple [.tuple [.atom (.int 1), .atom (.int 1)]], .atom (.int unit),
    strAtom "<LexicalMonomialOrder>"] none

def ratOf (cls : String) (n d : Obj) : Obj := .inst cls .legacy [n, d] none
def one : Obj := .atom (.int 1)
def two : Obj := .atom (.int 2)
def sumOf (a b : Obj) : Obj := .inst "Sum" .dataclass [.tuple [a, b]] none

/-- **own_subclass_hash_cex** (known findings `eq-not-structural:Polynomial.__eq__`,
`equal-but-hash-differs:Rational.__eq__:subclass`).  `SubPoly(x, ((1, 1),)) == Polynomial(x, ((1, 1),))` and
`SubRat(x, 2) == Rational(x, 2)` (in both orders) although the classes differ, and their hashes
differ (the class name is hashed): neither finds the other as a dict key. -/
theorem own_subclass_hash_cex :
    let X := curX (C17.exP 0)
    ownEq X (polyX "SubPoly" 1) (polyX "Polynomial" 1) = .ok true ∧
    ownEq X (polyX "Polynomial" 1) (polyX "SubPoly" 1) = .ok true ∧
    hashX X (polyX "SubPoly" 1) ≠ hashX X (polyX "Polynomial" 1) ∧
    ownFinds X (polyX "Polynomial" 1) (polyX "SubPoly" 1) = .ok false ∧
    ownEq X (ratOf "SubRat" vx two) (ratOf "Rational" vx two) = .ok true ∧
    ownEq X (ratOf "Rational" vx two) (ratOf "SubRat" vx two) = .ok true ∧
    hashX X (ratOf "SubRat" vx two) ≠ hashX X (ratOf "Rational" vx two) ∧
    ownFinds X (ratOf "Rational" vx two) (ratOf "SubRat" vx two) = .ok false := by decide

/-- **poly_unit_ignored_cex** (known finding `eq-not-structural:Polynomial.__eq__`).  The init arg
`Unit` takes no part: `Polynomial(x, ((1, 1),), unit=1) == Polynomial(x, ((1, 1),), unit=2)`, same
hash, although the two objects do not have pairwise-equal fields. -/
theorem poly_unit_ignored_cex :
    let X := curX (C17.exP 0)
    (polyX "Polynomial" 1).pyEq (polyX "Polynomial" 2) = false ∧
    ownEq X (polyX "Polynomial" 1) (polyX "Polynomial" 2) = .ok true ∧
    hashX X (polyX "Polynomial" 1) = hashX X (polyX "Polynomial" 2) := by decide

/-- **poly_eq_other.**  A `Polynomial` is never `==` to anything that is not a `Polynomial`:
not to a number, a tuple, a string, an ordinary node — in particular
`Polynomial(x, ((0, 1),)) == 1` is False (and so is `1 == Polynomial(x, ((0, 1),))`, which CPython
hands to the same method), so the different hashes of the two are no defect. -/
theorem poly_eq_other (X : OwnCtx) {o : C01OwnEqInfo} {c : String} (hc : X.own? c = some o)
    (hs : o.shape = .polynomial) (hok : o.ok = true) (k : Kind) (fs : List Obj) (h : Option Nat) :
    (∀ d : Const, ownEq X (.inst c k fs h) (.atom d) = .ok false ∧
                  ownEq X (.atom d) (.inst c k fs h) = .ok false) ∧
    (∀ xs, ownEq X (.inst c k fs h) (.tuple xs) = .ok false) ∧
    (∀ c' k' fs' h', X.isInstance c' o.name = false → X.properSub c' c = false →
      ownEq X (.inst c k fs h) (.inst c' k' fs' h') = .ok false) := by
  simp only [C01OwnEqInfo.ok, hs, Bool.and_eq_true, decide_eq_true_eq, beq_iff_eq, and_assoc,
    Bool.not_eq_true', Option.isNone_iff_eq_none] at hok
  obtain ⟨_, hin, _, _, _, _, _, hco, _, _⟩ := hok
  refine ⟨fun d => ⟨?_, ?_⟩, fun xs => ?_, fun c' k' fs' h' hni hps => ?_⟩
  · simp only [ownEq, objDepth]; rw [eqF_inst_atom]; simp [methEq, hc, hco]
  · simp only [ownEq, objDepth]; rw [eqF_atom_inst]; simp [methEq, hc, hco]
  · simp only [ownEq, objDepth, eqF]; simp [methEq, hc, hco]
  · simp only [ownEq, objDepth]; rw [eqF_inst_inst]; simp [methEq, hc, hco, hin, hni, hps]

example : ownEq (curX (C17.exP 0)) (.inst "Polynomial" .legacy
      [vx, .tuple [.tuple [.atom (.int 0), one]], one, strAtom "<LexicalMonomialOrder>"] none) one
    = .ok false := by decide

/-- **rational_eq_node.**  `Rational(n, d) == e` for an ordinary node `e`: the method builds
`Rational(e)` = (`e`, `1.0`) and compares: the answer is `n == e and d == 1.0` — a Rational with
denominator one EQUALS its bare numerator although the classes differ.  The other way round,
`e == Rational(n, d)`, the node's own generated `__eq__` answers False.  When the answer is True
the two hashes agree (`__hash__` returns `hash(self.Numerator)` when the denominator is one). -/
theorem rational_eq_node (X : OwnCtx) (ok : X.tbl.Ok = true) (hP : X.P.Ok) {o : C01OwnEqInfo}
    {c : String} (hc : X.own? c = some o) (hs : o.shape = .rational) (hok : o.ok = true)
    (k : Kind) (n : Obj) (dc : Const) (h : Option Nat)
    (c' : String) (k' : Kind) (fs' : List Obj) (h' : Option Nat)
    (he : X.own? c' = none) (hni : X.isInstance c' o.name = false)
    (hps : X.properSub c' c = false) (hps' : X.properSub c c' = false)
    (pn : Plain X n) (pd : dc.wf = true) (pe : Plain X (.inst c' k' fs' h')) :
    ownEq X (.inst c k [n, .atom dc] h) (.inst c' k' fs' h')
      = .ok (n.pyEq (.inst c' k' fs' h') && (Obj.atom dc).pyEq floatOne) ∧
    ownEq X (.inst c' k' fs' h') (.inst c k [n, .atom dc] h) = .ok false ∧
    (ownEq X (.inst c k [n, .atom dc] h) (.inst c' k' fs' h') = .ok true →
      hashX X (.inst c k [n, .atom dc] h) = hashX X (.inst c' k' fs' h')) := by
  obtain ⟨an, ad, rs⟩ := ratShape_of_ok hok hs
  have h1 := ratEq_plain X ok hP hc rs k n (.atom dc) h c' k' fs' h' he hni hps pn
    (plain_atom X dc pd) pe
  refine ⟨h1, plainEq_rat X ok hc k _ h c' k' fs' h' he hps', fun ht => ?_⟩
  rw [h1] at ht
  exact ratEq_other_hash X ok hP hc rs k n dc h _ pn pe (by simpa using ht)

/-- **rational_symm_cex** (known finding `eq-not-structural:Rational.__eq__`).
`Rational(x, 1) == x` is True, `x == Rational(x, 1)` is False; the defect reaches ordinary nodes:
`Sum((Rational(x, 1), 1)) == Sum((x, 1))` is True (equal hashes: the hash fast path does not
separate them), the reverse is False; as dict keys: `x` finds a stored `Rational(x, 1)`,
`Rational(x, 1)` does not find a stored `x`. -/
theorem rational_symm_cex :
    let X := curX (C17.exP 0)
    let r := ratOf "Rational" vx one
    ownEq X r vx = .ok true ∧ ownEq X vx r = .ok false ∧ hashX X r = hashX X vx ∧
    ownEq X (sumOf r one) (sumOf vx one) = .ok true ∧ ownEq X (sumOf vx one) (sumOf r one) = .ok false ∧
    hashX X (sumOf r one) = hashX X (sumOf vx one) ∧
    ownFinds X r vx = .ok true ∧ ownFinds X vx r = .ok false := by decide

/-- **rational_trans_cex.**  With a subclass in play `==` is not transitive:
`Rational(Rational(x, 1), 1) == Rational(x, 1)`, `Rational(x, 1) == SubRat(x, 1)`, but
`Rational(Rational(x, 1), 1) == SubRat(x, 1)` is False — CPython asks the subclass instance on the
right first, and `x == Rational(x, 1)` is False.  (Without subclasses no non-transitive triple was
found on the real code.) -/
theorem rational_trans_cex :
    let X := curX (C17.exP 0)
    let a := ratOf "Rational" (ratOf "Rational" vx one) one
    let b := ratOf "Rational" vx one
    let c := ratOf "SubRat" vx one
    ownEq X a b = .ok true ∧ ownEq X b c = .ok true ∧ ownEq X a c = .ok false := by decide

/-- **rational_eq_number.**  Against a number `k` (int within the exact float range, bool, float)
`Rational(n, d) == k` and `k == Rational(n, d)` are the SAME call (`int.__eq__` answers
`NotImplemented`), both answer `n == k and d == 1`: symmetric, and when True the hashes agree
(`hash(Rational(2, 1)) == hash(2)`). -/
theorem rational_eq_number (X : OwnCtx) (ok : X.tbl.Ok = true) (hP : X.P.Ok) {o : C01OwnEqInfo}
    {c : String} (hc : X.own? c = some o) (hs : o.shape = .rational) (hok : o.ok = true)
    (k : Kind) (n : Obj) (dc : Const) (h : Option Nat) (kc fl : Const)
    (hn : constIsNumeric kc = true) (hf : constToFloat? kc = some fl) (hw : kc.wf = true)
    (pn : Plain X n) (pd : dc.wf = true) :
    ownEq X (.inst c k [n, .atom dc] h) (.atom kc)
      = .ok (n.pyEq (.atom kc) && (Obj.atom dc).pyEq floatOne) ∧
    ownEq X (.atom kc) (.inst c k [n, .atom dc] h) = ownEq X (.inst c k [n, .atom dc] h) (.atom kc) ∧
    (ownEq X (.inst c k [n, .atom dc] h) (.atom kc) = .ok true →
      hashX X (.inst c k [n, .atom dc] h) = hashX X (.atom kc)) := by
  obtain ⟨an, ad, rs⟩ := ratShape_of_ok hok hs
  obtain ⟨h1, h2⟩ := ratEq_num X ok hP hc rs k n (.atom dc) h kc fl hn hf hw pn (plain_atom X dc pd)
  refine ⟨h1, by rw [h1, h2], fun ht => ?_⟩
  rw [h1] at ht
  exact ratEq_other_hash X ok hP hc rs k n dc h _ pn (plain_atom X kc hw) (by simpa using ht)

example : let X := curX (C17.exP 0)
    ownEq X (ratOf "Rational" two one) two = .ok true ∧ ownEq X two (ratOf "Rational" two one) = .ok true ∧
    ownEq X (ratOf "Rational" two one) (.atom (.bool true)) = .ok false ∧
    ownEq X (ratOf "Rational" two two) one = .ok false := by decide

/-- **rational_eq_hash.**  Two `==` instances of the same Rational class (ordinary numerators,
number denominators) hash equal — unnormalised fractions included: `==` and `hash` both look at
the stored numerator and denominator only. -/
theorem rational_eq_hash (X : OwnCtx) (ok : X.tbl.Ok = true) (hP : X.P.Ok) {o : C01OwnEqInfo}
    {c : String} (hc : X.own? c = some o) (hs : o.shape = .rational) (hok : o.ok = true)
    (hi : X.isInstance c o.name = true) (k k' : Kind) (n n' : Obj) (dc dc' : Const)
    (h h' : Option Nat) (pn : Plain X n) (pn' : Plain X n') (pd : dc.wf = true) (pd' : dc'.wf = true)
    (he : ownEq X (.inst c k [n, .atom dc] h) (.inst c k' [n', .atom dc'] h') = .ok true) :
    hashX X (.inst c k [n, .atom dc] h) = hashX X (.inst c k' [n', .atom dc'] h') := by
  obtain ⟨an, ad, rs⟩ := ratShape_of_ok hok hs
  have pf : ∀ x ∈ [n, Obj.atom dc], Plain X x := by
    intro x hx; simp only [List.mem_cons, List.not_mem_nil, or_false] at hx
    rcases hx with rfl | rfl
    · exact pn
    · exact plain_atom X dc pd
  have pf' : ∀ x ∈ [n', Obj.atom dc'], Plain X x := by
    intro x hx; simp only [List.mem_cons, List.not_mem_nil, or_false] at hx
    rcases hx with rfl | rfl
    · exact pn'
    · exact plain_atom X dc' pd'
  rw [ownEq_inst_spec X ok hP hc hc rs.isinst hi hi k k' _ _ h h' pf pf', rs.eqVals, rs.eqVals] at he
  exact ratEq_hash X ok hP hc rs k k' n n' dc dc' h h' pn pn'
    (by simpa [pairsEq, Obj.pyEq] using he)

/-- unnormalised fractions: `Rational(2, 4)` (stored as given) is not `==` to `Rational(1, 2)`;
this IS "pairwise-equal fields" -/
example : let X := curX (C17.exP 0)
    ownEq X (ratOf "Rational" two (.atom (.int 4))) (ratOf "Rational" one two) = .ok false ∧
    ownEq X (ratOf "Rational" two (.atom (.int 4))) (ratOf "Rational" (.atom (.flt "2.0" 2 1)) (.atom (.int 4)))
      = .ok true := by decide

/-- **rational_eq_nonnumber_raises.**  `Rational(n, d) == other` RAISES (`TypeError` out of
`Rational(other)`: `other /= 1`) when `other` is a string, `None`, a tuple or a mapping — also with
the Rational on the right (`"abc" == Rational(x, 2)` is handed to the same method). -/
theorem rational_eq_nonnumber_raises (X : OwnCtx) {o : C01OwnEqInfo} {c : String}
    (hc : X.own? c = some o) (hs : o.shape = .rational) (hok : o.ok = true)
    (k : Kind) (fs : List Obj) (h : Option Nat) :
    (∀ s, ownEq X (.inst c k fs h) (strAtom s) = .raises ∧ ownEq X (strAtom s) (.inst c k fs h) = .raises) ∧
    ownEq X (.inst c k fs h) (.atom .none) = .raises ∧
    (∀ xs, ownEq X (.inst c k fs h) (.tuple xs) = .raises) ∧
    (∀ ks vs, ownEq X (.inst c k fs h) (.dict ks vs) = .raises) := by
  obtain ⟨an, ad, rs⟩ := ratShape_of_ok hok hs
  refine ⟨fun s => ⟨?_, ?_⟩, ?_, fun xs => ?_, fun ks vs => ?_⟩
  · simp only [ownEq, objDepth, strAtom]; rw [eqF_inst_atom]
    exact methEq_own_coerce_raises X _ hc rs.coerces k fs h _ (Or.inl ⟨_, rfl, rfl⟩)
  · simp only [ownEq, objDepth, strAtom]; rw [eqF_atom_inst]
    exact methEq_own_coerce_raises X _ hc rs.coerces k fs h _ (Or.inl ⟨_, rfl, rfl⟩)
  · simp only [ownEq, objDepth]; rw [eqF_inst_atom]
    exact methEq_own_coerce_raises X _ hc rs.coerces k fs h _ (Or.inl ⟨_, rfl, rfl⟩)
  · simp only [ownEq, objDepth, eqF]
    exact methEq_own_coerce_raises X _ hc rs.coerces k fs h _ (Or.inr (Or.inl ⟨_, rfl⟩))
  · simp only [ownEq, objDepth, eqF]
    exact methEq_own_coerce_raises X _ hc rs.coerces k fs h _ (Or.inr (Or.inr ⟨_, _, rfl⟩))

example : ownEq (curX (C17.exP 0)) (ratOf "Rational" vx two) (strAtom "abc") = .raises := by decide

/-! ### 7. the constructor of `Rational` -/

/-- **rational_init_stores.**  `Rational(n, d)` for an `int` denominator: the unit of `d` is its
sign; numerator and denominator are DIVIDED by it (true division: ints become floats) and stored —
nothing is reduced, the stored denominator is the float `|d|`; a zero denominator raises
`RuntimeError`, a float one `AttributeError`, an expression `NoTraitsError`. -/
theorem rational_init_stores (X : OwnCtx) (n d : Int) (hd : d ≠ 0)
    (hn : -twoPow53 ≤ n ∧ n ≤ twoPow53) (hdr : d.natAbs ≤ twoPow53.natAbs) :
    ∃ r r', rationalInit X (.atom (.int n)) (.atom (.int d))
      = .stored (.atom (.flt r (if d > 0 then n else -n) 1)) (.atom (.flt r' d.natAbs 1)) := by
  simp only [rationalInit, hd, if_false, Nat.not_lt.mpr hdr, constIsNumeric, Bool.not_true,
    Bool.false_eq_true]
  by_cases hp : d > 0
  · simp only [hp, if_true, constToFloat?, hn, and_self]
    exact ⟨_, _, rfl⟩
  · simp only [hp, if_false, constNegFloat?, hn, and_self, if_true]
    by_cases h0 : n = 0
    · subst h0; exact ⟨_, _, rfl⟩
    · simp only [h0, if_false]; exact ⟨_, _, rfl⟩

example : let X := curX (C17.exP 0)
    (match rationalInit X two (.atom (.int 4)) with
     | .stored n d => n.pyEq two && d.pyEq (.atom (.int 4))
     | _ => false) = true ∧
    (match rationalInit X vx (.atom (.int (-2))) with
     | .stored n d => n.pyEq (.inst "Quotient" .dataclass [vx, .atom (.int (-1))] none) && d.pyEq two
     | _ => false) = true ∧
    (match rationalInit X vx (.atom (.int 0)) with | .err "RuntimeError" => true | _ => false) = true ∧
    (match rationalInit X vx (.atom (.flt "2.0" 2 1)) with | .err "AttributeError" => true | _ => false) = true ∧
    (match rationalInit X vx vy with | .err "NoTraitsError" => true | _ => false) = true := by decide

/-! ### 8. interpreter modes: `frozen=__debug__` -/

/-- **frozen_source_current.**  The `frozen=` keyword of the decorator of the working tree
(`frozen=__debug__` today; read from its source) evaluates to true in the default interpreter
mode. -/
theorem frozen_source_current : Generated.c01FrozenSource.eval true = true := by decide

/-- the keyword `__debug__` evaluates to false under `python -O`, `True` does not -/
example : C01FrozenSource.debugFlag.eval false = false ∧ C01FrozenSource.always.eval false = true := by decide

/-- **frozen_rejects_default.**  `frozen_rejects` with the interpreter mode as a parameter of the
`setattr` / `delattr` model: in the DEFAULT mode (`__debug__ = true`) an attempt on a protected
attribute answers `FrozenInstanceError` and changes nothing. -/
theorem frozen_rejects_default (tbl : ClassTable) (P : HashParams) (w : World1) (i : Nat)
    (c f : String) (k : Kind) (fs : List Obj) (h : Option Nat) (v : Obj)
    (hi : w.base.pool[i]? = some (.inst c k fs h)) (hf : tbl.frozenFor c f = true) :
    step1D .debugFlag true tbl P w (.setattr i f v) = (w, .frozen) ∧
    step1D .debugFlag true tbl P w (.delattr i f) = (w, .frozen) := by
  simp only [step1D, inMode_default]
  exact frozen_rejects tbl P w i c f k fs h v hi hf

/-- **optimized_never_rejects.**  Under `python -O` (`__debug__ = false`) NO `setattr` / `delattr`
answers `FrozenInstanceError`, for any class table: a `setattr` on a field rebinds it and leaves
the `_hash_value` slot as it is. -/
theorem optimized_never_rejects (tbl : ClassTable) (P : HashParams) (w : World1) (i : Nat)
    (c f : String) (k : Kind) (fs : List Obj) (h : Option Nat) (v : Obj)
    (hi : w.base.pool[i]? = some (.inst c k fs h)) :
    (step1D .debugFlag false tbl P w (.setattr i f v)).2 ≠ .frozen ∧
    (step1D .debugFlag false tbl P w (.delattr i f)).2 ≠ .frozen ∧
    (∀ idx, fieldIndex tbl c f = some idx →
      step1D .debugFlag false tbl P w (.setattr i f v) =
        ({ w with base := { w.base with pool := w.base.pool.set i (.inst c k (fs.set idx v) h) } },
         .attrSet true (Obj.inst c k (fs.set idx v) h).bits)) := by
  simp only [step1D, step1, hi, frozenFor_optimized, Bool.false_eq_true, if_false, fieldIndex_inMode]
  refine ⟨?_, by simp, fun idx hidx => by simp only [hidx]⟩
  cases fieldIndex tbl c f <;> simp

/-- **optimized_rebind_stale_cex.**  What the frozen flag prevents, happening to a DECORATED class
under `python -O`: `Lookup(x, "a")` is hashed, its field `name` is rebound to `"bb"` (no exception),
and now it compares UNEQUAL to a freshly built `Lookup(x, "bb")` — same class, pairwise-equal
fields — and is not found in a set holding it; in the default mode the same history stops at the
`setattr` with `FrozenInstanceError` and the object stays equal to `Lookup(x, "a")`. -/
theorem optimized_rebind_stale_cex :
    let w : World1 := ⟨⟨[lookup vx "a", lookup vx "bb", lookup vx "a"], []⟩, []⟩
    let ops : List Op1 := [.base (.hash 0), .setattr 0 "name" (strAtom "bb"), .base (.eq 0 1),
                           .base (.member 0 1), .base (.eq 0 2)]
    let r := run1D .debugFlag false exTbl (C17.exP 0) w ops
    let r' := run1D .debugFlag true exTbl (C17.exP 0) w ops
    r.2.map view = [(0, true, [true, true], []), (11, true, [true, true], []),
                    (1, false, [true, true], [true, true]), (2, false, [true, true], [true, true]),
                    (1, false, [true, true], [true, true])] ∧
    (match r.1.base.pool with
     | a :: b :: _ => a.pyEq b
     | _ => false) = true ∧
    r'.2.map view = [(0, true, [true, true], []), (10, true, [], []),
                     (1, false, [true, true], [true, true]), (2, false, [true, true], [true, true]),
                     (1, true, [true, true], [true, true])] := by decide

/-- **optimized_untouched_same.**  A history WITHOUT `setattr` / `delattr` attempts runs identically
in both interpreter modes (no other operation looks at the frozen flag): hashes, `==`, `!=`,
dict and set answers and the slots of untouched objects under `python -O` are those of the default
mode. -/
theorem optimized_untouched_same (src : C01FrozenSource) (tbl : ClassTable) (P : HashParams)
    (w : World1) (ops : List Op1) (h : ∀ op ∈ ops, op.isAttrOp = false) :
    run1D src false tbl P w ops = run1D src true tbl P w ops := by
  simp only [run1D]
  exact run1_tbl_irrelevant _ _ P ops w h

/-- **hash_cache_inv_optimized.**  `hash_cache_inv` in any interpreter mode: as long as no
`setattr` went through on a field, every cached hash stays coherent and every answer is the answer
on fresh objects — under `python -O` the hypothesis is no longer guaranteed by the classes
(`optimized_rebind_stale_cex`), it is a duty of the caller. -/
theorem hash_cache_inv_optimized (src : C01FrozenSource) (debug : Bool) (tbl : ClassTable)
    {P : HashParams} (hP : P.Ok) (w : World1) (hc : w.base.coherent P) (hw : w.base.wf)
    (ops : List Op1) (hno : ∀ o ∈ (run1D src debug tbl P w ops).2, o.rebound = false) :
    (run1D src debug tbl P w ops).1.base.coherent P ∧
      (run1D src debug tbl P w ops).2.map Out1.core
        = (run1Ref (tbl.inMode src debug) w.erased ops).2 :=
  hash_cache_inv (tbl.inMode src debug) hP w hc hw ops hno

/-! ### 9. field normalisation at construction (`__post_init__`) -/

/-- **post_init_current.**  The `__post_init__` methods of the node classes of the working tree,
re-read statement by statement on every run (`extract/postinit.py`; any other statement shape is an
extraction error), are exactly the three normalisers the harness and the class model assume:
`CallWithKwargs.kw_parameters` is replaced by an `immutabledict` of itself exactly when HASHING it
raises (so the stored mapping is always hashable and the node's hash never raises), a `Comparison`
operator given by name is translated through `name_to_operator` and anything unknown is refused with
`RuntimeError`, and a `CommonSubexpression` scope of `None` becomes `cse_scope.EVALUATION`.  No other
node class rewrites a field after construction, so for every other class the fields compared by the
generated `__eq__` are the constructor arguments themselves. -/
theorem post_init_current :
    Generated.postInit =
      [ ("CallWithKwargs", "normaliseIfHashRaises", ["kw_parameters", "immutabledict.immutabledict"]),
        ("CommonSubexpression", "defaultIfNone", ["scope", "cse_scope.EVALUATION"]),
        ("Comparison", "translateOrRaise",
          ["operator", "operator_to_name", "name_to_operator", "RuntimeError"]) ] := by decide

end PV.C01
